import SLE.Lemmas.VMModes
import SLE.Model.Pipe
/-
C17 at the level of the whole analysis (`Pipe.analyseProgram`): the theorems of `VMModes`
(about `VM.run`) lifted through disassembly, the error check and the type checker.
-/
namespace SLE.ProgramModes
open SLE SLE.SV SLE.VM SLE.Disasm SLE.Pipe

/-! ### the pieces of `analyseProgram` -/

/-- The values handed to the type checker: `all_values()` of every stored thread. -/
def valuesOf (s : VMS) : List SV := s.stored.flatMap (fun t => allValues t.d)

/-- The error list `analyze` looks at: the early-exit error if any, else the error buffer. -/
def errsOf (s : VMS) : List (Nat × XErr) :=
  match s.aborted with
  | some e => [(0, e)]
  | none => s.errors

/-- The strict / permissive runs of a code. -/
@[reducible] def strictRun (cfg : Cfg) (code : List Instr) (vmFuel : Nat) : VMS :=
  run (strict cfg) code vmFuel (initVM (strict cfg) code)
@[reducible] def permRun (cfg : Cfg) (code : List Instr) (vmFuel : Nat) : VMS :=
  run (perm cfg) code vmFuel (initVM (perm cfg) code)

theorem analyseProgram_error {h : Lift.HashCtx} {o : Unify.Orders} {cfg : Cfg} {bytes : List Nat}
    {vmFuel uFuel : Nat} {e : Disasm.DErr} (hd : Disasm.disasm bytes = .error e) :
    analyseProgram h o cfg bytes vmFuel uFuel = .disasmError e := by
  unfold analyseProgram
  rw [hd]

theorem analyseProgram_ok {h : Lift.HashCtx} {o : Unify.Orders} {cfg : Cfg} {bytes : List Nat}
    {vmFuel uFuel : Nat} {code : List Instr} (hd : Disasm.disasm bytes = .ok code) :
    analyseProgram h o cfg bytes vmFuel uFuel =
      if !(errsOf (run cfg code vmFuel (initVM cfg code))).isEmpty then
        .execErrors (errsOf (run cfg code vmFuel (initVM cfg code)))
      else .analysed (TC.analyse h o uFuel (valuesOf (run cfg code vmFuel (initVM cfg code)))) := by
  unfold analyseProgram
  rw [hd]
  rfl

theorem analyseProgram_of_errs {h : Lift.HashCtx} {o : Unify.Orders} {cfg : Cfg} {bytes : List Nat}
    {vmFuel uFuel : Nat} {code : List Instr} (hd : Disasm.disasm bytes = .ok code)
    (he : errsOf (run cfg code vmFuel (initVM cfg code)) ≠ []) :
    analyseProgram h o cfg bytes vmFuel uFuel =
      .execErrors (errsOf (run cfg code vmFuel (initVM cfg code))) := by
  rw [analyseProgram_ok hd, if_pos]
  simpa using he

theorem analyseProgram_of_clean {h : Lift.HashCtx} {o : Unify.Orders} {cfg : Cfg} {bytes : List Nat}
    {vmFuel uFuel : Nat} {code : List Instr} (hd : Disasm.disasm bytes = .ok code)
    (he : errsOf (run cfg code vmFuel (initVM cfg code)) = []) :
    analyseProgram h o cfg bytes vmFuel uFuel =
      .analysed (TC.analyse h o uFuel (valuesOf (run cfg code vmFuel (initVM cfg code)))) := by
  rw [analyseProgram_ok hd, if_neg]
  simp [he]

/-- Reading a result back. -/
theorem analysed_inv {h : Lift.HashCtx} {o : Unify.Orders} {cfg : Cfg} {bytes : List Nat}
    {vmFuel uFuel : Nat} {a : TC.Analysis}
    (ha : analyseProgram h o cfg bytes vmFuel uFuel = .analysed a) :
    ∃ code, Disasm.disasm bytes = .ok code ∧
      errsOf (run cfg code vmFuel (initVM cfg code)) = [] ∧
      a = TC.analyse h o uFuel (valuesOf (run cfg code vmFuel (initVM cfg code))) := by
  cases hd : Disasm.disasm bytes with
  | error e => rw [analyseProgram_error hd] at ha; cases ha
  | ok code =>
    refine ⟨code, rfl, ?_⟩
    rw [analyseProgram_ok hd] at ha
    split at ha
    · cases ha
    · rename_i hne
      injection ha with ha
      exact ⟨by simpa using hne, ha.symm⟩

theorem execErrors_inv {h : Lift.HashCtx} {o : Unify.Orders} {cfg : Cfg} {bytes : List Nat}
    {vmFuel uFuel : Nat} {es : List (Nat × XErr)}
    (ha : analyseProgram h o cfg bytes vmFuel uFuel = .execErrors es) :
    ∃ code, Disasm.disasm bytes = .ok code ∧
      es = errsOf (run cfg code vmFuel (initVM cfg code)) ∧ es ≠ [] := by
  cases hd : Disasm.disasm bytes with
  | error e => rw [analyseProgram_error hd] at ha; cases ha
  | ok code =>
    refine ⟨code, rfl, ?_⟩
    rw [analyseProgram_ok hd] at ha
    split at ha
    · rename_i hne
      injection ha with ha
      subst ha
      exact ⟨rfl, by simpa using hne⟩
    · cases ha

/-! ### `dropJump` and the pieces -/

theorem dropJump_aborted (s : VMS) : (dropJump s).aborted = s.aborted := rfl
theorem dropJump_stored (s : VMS) : (dropJump s).stored = s.stored := rfl
theorem valuesOf_dropJump (s : VMS) : valuesOf (dropJump s) = valuesOf s := rfl

/-- The permissive run stores the same threads as the strict one … -/
theorem valuesOf_perm (cfg : Cfg) (code : List Instr) (vmFuel : Nat) :
    valuesOf (permRun cfg code vmFuel) = valuesOf (strictRun cfg code vmFuel) := by
  show valuesOf (run (perm cfg) code vmFuel (initVM (perm cfg) code)) = _
  rw [run_perm_eq]; rfl

/-- … and aborts exactly when the strict one does, with the same error. -/
theorem aborted_perm (cfg : Cfg) (code : List Instr) (vmFuel : Nat) :
    (permRun cfg code vmFuel).aborted = (strictRun cfg code vmFuel).aborted := by
  show (run (perm cfg) code vmFuel (initVM (perm cfg) code)).aborted = _
  rw [run_perm_eq]; rfl

/-! ### an early exit is never one of the four jump kinds -/

/-- the early-exit error, if any, is not a jump kind -/
def AbortNotJump (s : VMS) : Prop := ∀ e, s.aborted = some e → e.isJumpKind = false

theorem abortNotJump_advance {cfg : Cfg} {code : List Instr} {s : VMS} (h : AbortNotJump s) :
    AbortNotJump (advance cfg code s) := by
  cases hq : s.queue with
  | nil =>
    rw [advance_nil hq]
    intro e he
    injection he with he
    subst he
    rfl
  | cons t rest =>
    intro e he
    rw [advance_aborted hq] at he
    exact h e he

theorem abortNotJump_step {cfg : Cfg} {code : List Instr} {s : VMS} (h : AbortNotJump s) :
    AbortNotJump (step cfg code s) := by
  cases hq : s.queue with
  | nil => rw [step_nil hq]; exact h
  | cons t rest =>
    cases hi : code[t.ip]? with
    | none =>
      rw [step_oob hq hi]
      intro e he
      injection he with he
      subst he
      rfl
    | some ins =>
      cases he : (opOut cfg code s t ins).err with
      | none =>
        rw [step_ok hq hi he]
        apply abortNotJump_advance
        intro e hae
        rw [midOk_aborted] at hae
        exact h e hae
      | some e =>
        by_cases hp : ∃ site, e = .panic site
        · obtain ⟨site, rfl⟩ := hp
          rw [step_panic hq hi he]
          intro e hae
          injection hae with hae
          subst hae
          rfl
        · rw [step_err hq hi he (fun site hs => hp ⟨site, hs⟩)]
          apply abortNotJump_advance
          exact h

theorem abortNotJump_run (cfg : Cfg) (code : List Instr) :
    ∀ (fuel : Nat) (s : VMS), AbortNotJump s → AbortNotJump (run cfg code fuel s)
  | 0, _, h => h
  | fuel + 1, s, h => by
    unfold VM.run
    split
    · exact h
    · exact abortNotJump_run cfg code fuel _ (abortNotJump_step h)

theorem abortNotJump_init (cfg : Cfg) (code : List Instr) : AbortNotJump (initVM cfg code) := by
  intro e he
  cases he

/-- Whatever the mode, code and fuel: the early-exit error of a run from the initial state is
`InvalidStep`, `InstructionPointerOutOfBounds` or a panic — never a jump kind. -/
theorem aborted_not_jumpKind (cfg : Cfg) (code : List Instr) (fuel : Nat) (e : XErr)
    (h : (run cfg code fuel (initVM cfg code)).aborted = some e) : e.isJumpKind = false :=
  abortNotJump_run cfg code fuel _ (abortNotJump_init cfg code) e h

/-! ### the error list in the two modes -/

/-- The error list the permissive analysis looks at is the strict one with the jump kinds
filtered out (this also covers the early-exit case, by `aborted_not_jumpKind`). -/
theorem errsOf_perm (cfg : Cfg) (code : List Instr) (vmFuel : Nat) :
    errsOf (permRun cfg code vmFuel) =
      (errsOf (strictRun cfg code vmFuel)).filter (fun e => !e.2.isJumpKind) := by
  show errsOf (run (perm cfg) code vmFuel (initVM (perm cfg) code)) = _
  rw [run_perm_eq]
  unfold errsOf
  rw [dropJump_aborted]
  cases hab : (run (strict cfg) code vmFuel (initVM (strict cfg) code)).aborted with
  | none => rfl
  | some e =>
    have := aborted_not_jumpKind (strict cfg) code vmFuel e hab
    simp [this]

/-! ### the targets -/

/-- **M1.** Whenever the strict analysis succeeds, the permissive analysis returns the same
analysis (same layout, same everything). -/
theorem M1 (h : Lift.HashCtx) (o : Unify.Orders) (cfg : Cfg) (bytes : List Nat) (vmFuel uFuel : Nat)
    (a : TC.Analysis) :
    analyseProgram h o (strict cfg) bytes vmFuel uFuel = .analysed a →
      analyseProgram h o (perm cfg) bytes vmFuel uFuel = .analysed a := by
  intro hs
  obtain ⟨code, hd, he, ha⟩ := analysed_inv hs
  have hp : errsOf (permRun cfg code vmFuel) = [] := by rw [errsOf_perm, he]; rfl
  rw [analyseProgram_of_clean hd hp, valuesOf_perm, ha]

/-- **M2.** If the strict analysis fails and every error it lists is a jump kind, then the
permissive analysis does not fail, and what it type-checks are the values of the same stored
threads as those of the strict run.  (No "not aborted" hypothesis is needed: an early exit is
reported as `[(0, e)]` with `e` never a jump kind — `aborted_not_jumpKind` — so the hypothesis
on `es` already excludes it.) -/
theorem M2 (h : Lift.HashCtx) (o : Unify.Orders) (cfg : Cfg) (bytes : List Nat) (vmFuel uFuel : Nat)
    (es : List (Nat × XErr))
    (hs : analyseProgram h o (strict cfg) bytes vmFuel uFuel = .execErrors es)
    (hj : ∀ e ∈ es, e.2.isJumpKind = true) :
    ∃ code a, Disasm.disasm bytes = .ok code ∧
      analyseProgram h o (perm cfg) bytes vmFuel uFuel = .analysed a ∧
      a = TC.analyse h o uFuel
        (valuesOf (run (strict cfg) code vmFuel (initVM (strict cfg) code))) := by
  obtain ⟨code, hd, he, _⟩ := execErrors_inv hs
  have hp : errsOf (permRun cfg code vmFuel) = [] := by
    rw [errsOf_perm, ← he, List.filter_eq_nil_iff]
    intro x hx
    simp [hj x hx]
  refine ⟨code, _, hd, analyseProgram_of_clean hd hp, ?_⟩
  rw [valuesOf_perm]

/-- M2, in the form with the run's state spelt out: not aborted, every recorded error a jump
kind. -/
theorem M2_run (h : Lift.HashCtx) (o : Unify.Orders) (cfg : Cfg) (bytes : List Nat)
    (vmFuel uFuel : Nat) (code : List Instr) (hd : Disasm.disasm bytes = .ok code)
    (hab : (run (strict cfg) code vmFuel (initVM (strict cfg) code)).aborted = none)
    (hj : ∀ e ∈ (run (strict cfg) code vmFuel (initVM (strict cfg) code)).errors,
      e.2.isJumpKind = true) :
    analyseProgram h o (perm cfg) bytes vmFuel uFuel =
      .analysed (TC.analyse h o uFuel
        (valuesOf (run (strict cfg) code vmFuel (initVM (strict cfg) code)))) := by
  have hp : errsOf (permRun cfg code vmFuel) = [] := by
    rw [errsOf_perm, List.filter_eq_nil_iff]
    intro x hx
    unfold errsOf at hx
    rw [hab] at hx
    simp [hj x hx]
  rw [analyseProgram_of_clean hd hp, valuesOf_perm]

/-- **M3.** An error that the strict analysis reports and that is not a jump kind is also
reported, at the same location, by the permissive analysis. -/
theorem M3 (h : Lift.HashCtx) (o : Unify.Orders) (cfg : Cfg) (bytes : List Nat) (vmFuel uFuel : Nat)
    (es : List (Nat × XErr)) (x : Nat × XErr)
    (hs : analyseProgram h o (strict cfg) bytes vmFuel uFuel = .execErrors es)
    (hx : x ∈ es) (hnj : x.2.isJumpKind = false) :
    ∃ es', analyseProgram h o (perm cfg) bytes vmFuel uFuel = .execErrors es' ∧ x ∈ es' := by
  obtain ⟨code, hd, he, _⟩ := execErrors_inv hs
  have hmem : x ∈ errsOf (permRun cfg code vmFuel) := by
    rw [errsOf_perm, ← he, List.mem_filter]
    exact ⟨hx, by simp [hnj]⟩
  exact ⟨_, analyseProgram_of_errs hd (List.ne_nil_of_mem hmem), hmem⟩

/-- M3, exact form: if the strict analysis lists some error that is not a jump kind, the
permissive analysis lists exactly the strict errors that are not jump kinds, in the same order. -/
theorem M3_exact (h : Lift.HashCtx) (o : Unify.Orders) (cfg : Cfg) (bytes : List Nat)
    (vmFuel uFuel : Nat) (es : List (Nat × XErr))
    (hs : analyseProgram h o (strict cfg) bytes vmFuel uFuel = .execErrors es)
    (hex : ∃ x ∈ es, x.2.isJumpKind = false) :
    analyseProgram h o (perm cfg) bytes vmFuel uFuel =
      .execErrors (es.filter (fun e => !e.2.isJumpKind)) := by
  obtain ⟨code, hd, he, _⟩ := execErrors_inv hs
  obtain ⟨x, hx, hnj⟩ := hex
  have hmem : x ∈ errsOf (permRun cfg code vmFuel) := by
    rw [errsOf_perm, ← he, List.mem_filter]
    exact ⟨hx, by simp [hnj]⟩
  rw [analyseProgram_of_errs hd (List.ne_nil_of_mem hmem), he]
  exact congrArg _ (errsOf_perm cfg code vmFuel)

/-- The converse of M3: the permissive analysis reports nothing the strict one does not, and
never a jump kind. -/
theorem perm_errors_sub (h : Lift.HashCtx) (o : Unify.Orders) (cfg : Cfg) (bytes : List Nat)
    (vmFuel uFuel : Nat) (es' : List (Nat × XErr))
    (hp : analyseProgram h o (perm cfg) bytes vmFuel uFuel = .execErrors es') :
    ∃ es, analyseProgram h o (strict cfg) bytes vmFuel uFuel = .execErrors es ∧
      es' = es.filter (fun e => !e.2.isJumpKind) := by
  obtain ⟨code, hd, he, hne⟩ := execErrors_inv hp
  have he' : es' = (errsOf (strictRun cfg code vmFuel)).filter (fun e => !e.2.isJumpKind) :=
    he.trans (errsOf_perm cfg code vmFuel)
  refine ⟨_, analyseProgram_of_errs hd ?_, he'⟩
  intro hnil
  rw [hnil] at he'
  exact hne he'

/-- **M4.** Disassembly errors are mode-independent. -/
theorem M4 (h : Lift.HashCtx) (o : Unify.Orders) (cfg : Cfg) (bytes : List Nat) (vmFuel uFuel : Nat)
    (e : Disasm.DErr) :
    analyseProgram h o (strict cfg) bytes vmFuel uFuel = .disasmError e ↔
      analyseProgram h o (perm cfg) bytes vmFuel uFuel = .disasmError e := by
  cases hd : Disasm.disasm bytes with
  | error e' => rw [analyseProgram_error hd, analyseProgram_error hd]
  | ok code =>
    rw [analyseProgram_ok hd, analyseProgram_ok hd]
    constructor <;> intro hh <;> (split at hh <;> cases hh)

/-! ### M5 — non-vacuity: concrete programs -/

def exCtx : Lift.HashCtx := ⟨fun _ => none, fun _ => 0⟩
def exCfg : Cfg := ⟨30000000, 10, 50, 250, 394, false⟩
/-- PUSH1 1; PUSH1 7; SSTORE; PUSH1 0; JUMP — the jump target 0 is not a JUMPDEST. -/
def exJump : List Nat := [0x60, 0x01, 0x60, 0x07, 0x55, 0x60, 0x00, 0x56]
/-- ADD on an empty stack. -/
def exUnderflow : List Nat := [0x01]

/-- the result is `.execErrors es` with `p es` -/
def isExecErrors (p : List (Nat × XErr) → Bool) : Result → Bool
  | .execErrors es => p es
  | _ => false

/-- the slot indices of the layout of a result, if it is one -/
def slotsOf : Result → Option (List Nat)
  | .analysed a => (match a.outcome with | .layout l => some (l.map (·.index)) | _ => none)
  | _ => none

theorem isExecErrors_spec {p : List (Nat × XErr) → Bool} {r : Result}
    (h : isExecErrors p r = true) : ∃ es, r = .execErrors es ∧ p es = true := by
  cases r with
  | execErrors es => exact ⟨es, rfl, h⟩
  | disasmError e => cases h
  | analysed a => cases h

theorem slotsOf_spec {r : Result} {l : List Nat} (h : slotsOf r = some l) :
    ∃ a l', r = .analysed a ∧ a.outcome = .layout l' ∧ l'.map (·.index) = l := by
  unfold slotsOf at h
  split at h
  · rename_i a
    split at h
    · rename_i l' hl'
      injection h with h
      exact ⟨a, l', rfl, hl', h⟩
    · cases h
  · cases h

/-- Strict mode on `exJump`: exactly one error, a jump kind, located at the JUMP (offset 7). -/
theorem M5_strict_jump :
    isExecErrors (fun es => es.length == 1 && es.all (fun e => e.2.isJumpKind) &&
        es.all (fun e => e.1 == 7))
      (analyseProgram exCtx Unify.idOrders (strict exCfg) exJump 100 400) = true := by
  decide +kernel

/-- Permissive mode on `exJump`: a layout, with the single slot 7. -/
theorem M5_perm_jump :
    slotsOf (analyseProgram exCtx Unify.idOrders (perm exCfg) exJump 100 400) = some [7] := by
  decide +kernel

/-- A stack underflow fails the analysis in both modes, with the same non-jump-kind error. -/
theorem M5_underflow :
    isExecErrors (fun es => es == [(0, .noSuchStackFrame)])
      (analyseProgram exCtx Unify.idOrders (strict exCfg) exUnderflow 100 400) = true ∧
    isExecErrors (fun es => es == [(0, .noSuchStackFrame)])
      (analyseProgram exCtx Unify.idOrders (perm exCfg) exUnderflow 100 400) = true := by
  decide +kernel

/-- M2 instantiated on `exJump`: its hypotheses are satisfiable, and its conclusion is the
layout with slot 7. -/
example : ∃ es, analyseProgram exCtx Unify.idOrders (strict exCfg) exJump 100 400 = .execErrors es ∧
    (∀ e ∈ es, e.2.isJumpKind = true) ∧
    ∃ a l, analyseProgram exCtx Unify.idOrders (perm exCfg) exJump 100 400 = .analysed a ∧
      a.outcome = .layout l ∧ l.map (·.index) = [7] := by
  obtain ⟨es, hes, hp⟩ := isExecErrors_spec M5_strict_jump
  obtain ⟨a, l, ha, hl, hm⟩ := slotsOf_spec M5_perm_jump
  refine ⟨es, hes, ?_, a, l, ha, hl, hm⟩
  simp only [Bool.and_eq_true, List.all_eq_true] at hp
  exact hp.1.2

/-- M3 instantiated on `exUnderflow`. -/
example : ∃ es x, analyseProgram exCtx Unify.idOrders (strict exCfg) exUnderflow 100 400 = .execErrors es ∧
    x ∈ es ∧ x.2.isJumpKind = false := by
  obtain ⟨es, hes, hp⟩ := isExecErrors_spec M5_underflow.1
  have : es = [(0, .noSuchStackFrame)] := by simpa using hp
  exact ⟨es, (0, .noSuchStackFrame), hes, by rw [this]; simp, rfl⟩

/-- the result is `.disasmError e` -/
def isDisasmError (e : Disasm.DErr) : Result → Bool
  | .disasmError e' => e' == e
  | _ => false

/-- M4 instantiated: the empty bytecode is a disassembly error in both modes. -/
theorem M5_disasm :
    isDisasmError .emptyBytecode (analyseProgram exCtx Unify.idOrders (strict exCfg) [] 100 400) = true ∧
    isDisasmError .emptyBytecode (analyseProgram exCtx Unify.idOrders (perm exCfg) [] 100 400) = true := by
  decide +kernel

end SLE.ProgramModes

section Axioms
open SLE.ProgramModes
end Axioms
