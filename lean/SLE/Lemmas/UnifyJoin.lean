import SLE.Lemmas.OrderFacts
import SLE.Lemmas.UnifyTerm
import SLE.Lemmas.Join
/-!
C15 through the whole unification — word evidence spread over equated variables.

`Join.lean` proves "compatible evidence joins / contradictions conflict" for one class *fold*
(`foldMerge`).  Here the statement is lifted through `unify`: with word-only evidence the first
round folds every class's evidence set (the union of the evidence of all equated variables, as
`initForest` collected it) into one expression, changes no partition, allocates no variable; a
second round (if any) is the identity; the loop stops after at most two rounds.
-/
namespace SLE.UnifyJoin
open SLE SLE.Containers SLE.Unify SLE.Merge SLE.MergeLaws SLE.Layout SLE.Join SLE.OrderFacts
set_option linter.unusedVariables false
set_option linter.unusedSimpArgs false

/-! ## 0. The input fragment -/

/-- Every judgement on a declared variable is an equality with a declared variable, a word, or
"no information". -/
def WordOnly (infs : Nat → List TE) (nvars : Nat) : Prop :=
  ∀ v < nvars, ∀ e ∈ infs v,
    (∃ id, e = .equal id ∧ id < nvars) ∨ (∃ w u, e = .word w u) ∨ e = .any

/-- The declared judgements, as a predicate (what `initForest_rep` is stated over). -/
def Decl (infs : Nat → List TE) (nvars : Nat) : Nat → TE → Prop :=
  fun a x => a < nvars ∧ x ∈ infs a

/-- `e` is a piece of non-`Equal` evidence declared on some member of the class of `v` in `f`. -/
def ClassEv (infs : Nat → List TE) (nvars : Nat) (f : Forest) (v : Nat) (e : TE) : Prop :=
  ∃ a, sameClass f a v ∧ a < nvars ∧ e ∈ infs a ∧ NoEq e = true

/-! ## 1. `merge` on words, `any` and `conflict` -/

/-- a word, no information, or a conflict: the closure of word evidence under `merge` -/
def WAC (e : TE) : Prop := (∃ w u, e = .word w u) ∨ e = .any ∨ e = .conflict

theorem WAC.pf {e : TE} (h : WAC e) : PF e = true := by
  rcases h with ⟨w, u, rfl⟩ | rfl | rfl <;> rfl

theorem WA.wac {e : TE} (h : WA e) : WAC e := by
  rcases h with h | h
  · exact .inl h
  · exact .inr (.inl h)

theorem toTE_wac (x : Option (Option Nat × WordUse)) : WAC (toTE x) := by
  rcases x with _ | ⟨w, u⟩
  · exact .inr (.inr rfl)
  · exact .inl ⟨w, u, rfl⟩

/-- Merging two such expressions emits no equality and stays in the class. -/
theorem outcome_wac {a b : TE} (ha : WAC a) (hb : WAC b) :
    (outcome a b).2 = [] ∧ WAC (outcome a b).1 := by
  rw [outcome_eq a b ha.pf hb.pf]
  unfold outcomeE
  split
  · exact ⟨rfl, ha⟩
  · rcases ha with ⟨w, u, rfl⟩ | rfl | rfl <;> rcases hb with ⟨w', u', rfl⟩ | rfl | rfl <;>
      simp only [outcomeN, true_and] <;>
      first
        | exact toTE_wac _
        | exact .inl ⟨_, _, rfl⟩
        | exact .inr (.inl rfl)
        | exact .inr (.inr rfl)

theorem fcFold_wac (root next : Nat) : ∀ (rest : List TE) (cur : TE) (r : FCAcc), WAC cur →
    (∀ e ∈ rest, WAC e) → rest.foldlM (fcStep root) (cur, next, [], [], []) = .ok r →
    r = ((rest.foldl step (cur, [])).1, next, [], [], []) ∧
      (rest.foldl step (cur, [])).2 = [] ∧ WAC (rest.foldl step (cur, [])).1 := by
  intro rest
  induction rest with
  | nil =>
    intro cur r hc _ h
    injection h with h
    exact ⟨h.symm, rfl, hc⟩
  | cons e rest ih =>
    intro cur r hc hr h
    have he := hr e List.mem_cons_self
    obtain ⟨m, hm, g1, g2, g3, g4, g5⟩ := merge_pf_indep cur e hc.pf he.pf root next
    obtain ⟨o1, o2⟩ := outcome_wac hc he
    rw [List.foldlM_cons] at h
    have hs : fcStep root (cur, next, [], [], []) e = .ok ((outcome cur e).1, next, [], [], []) := by
      simp only [fcStep, hm, g1, g2, g3, g4, g5, o1, List.append_nil]
    rw [hs] at h
    have h' : rest.foldlM (fcStep root) ((outcome cur e).1, next, [], [], []) = .ok r := h
    have hst : step (cur, []) e = ((outcome cur e).1, []) := by
      rw [step_eq, o1]; rfl
    rw [List.foldl_cons, hst]
    exact ih _ r o2 (fun x hx => hr x (List.mem_cons_of_mem _ hx)) h'

/-- A class fold over words emits nothing, allocates nothing, and computes `foldMerge`. -/
theorem foldClass_wac (root next : Nat) (ev : List TE) (r : FCAcc) (hev : ∀ e ∈ ev, WAC e)
    (h : foldClass root ev next = .ok r) :
    ∃ j, r = (j, next, [], [], []) ∧ foldMerge ev = some (j, []) ∧ WAC j := by
  cases ev with
  | nil => cases h
  | cons first rest =>
    rw [foldClass_cons] at h
    obtain ⟨a, b, c⟩ := fcFold_wac root next rest first r (hev _ List.mem_cons_self)
      (fun e he => hev e (List.mem_cons_of_mem _ he)) h
    refine ⟨_, a, ?_, c⟩
    rw [foldMerge_cons]
    congr 1
    exact Prod.ext rfl b

/-! ## 2. One round on word data -/

/-- every stored piece of evidence is a word, `any` or `conflict` -/
def WData (f : Forest) : Prop := ∀ k d, f.data.get k = some d → ∀ e ∈ d, WAC e

theorem WData.pf {f : Forest} (h : WData f) : PFData f :=
  fun k d hk e he => (h k d hk e he).pf

theorem loop_word {o : Orders} (ho : OrdersOk o) (l : List (Nat × List TE)) :
    ∀ acc acc', (l.map (·.1)).Nodup → DS.Inv acc.forest →
      (∀ p ∈ l, acc.forest.data.get p.1 = some p.2 ∧ DS.rootOf acc.forest p.1 = p.1 ∧
        ∀ e ∈ p.2, WAC e) →
      l.foldlM (roundStep o) acc = .ok acc' →
      DS.Inv acc'.forest ∧ SameRoots acc.forest acc'.forest ∧ acc'.next = acc.next ∧
        acc'.eqs = acc.eqs ∧ acc'.judgements = acc.judgements ∧ acc'.newVars = acc.newVars ∧
        (∀ k, k ∉ l.map (·.1) → acc'.forest.data.get k = acc.forest.data.get k) ∧
        (∀ p ∈ l, (p.2 = [] ∧ acc'.forest.data.get p.1 = some []) ∨
          (∃ j, foldMerge (o.tes p.2) = some (j, []) ∧ acc'.forest.data.get p.1 = some [j] ∧
            WAC j)) := by
  induction l with
  | nil =>
    intro acc acc' _ hi _ h
    injection h with h; subst h
    exact ⟨hi, SameRoots.refl _, rfl, rfl, rfl, rfl, fun _ _ => rfl, fun p hp => by cases hp⟩
  | cons p rest ih =>
    intro acc acc' hnd hi hD h
    rw [List.map_cons, List.nodup_cons] at hnd
    obtain ⟨hp1, hnd⟩ := hnd
    rw [List.foldlM_cons] at h
    cases e1 : roundStep o acc p with
    | error e => rw [e1] at h; cases h
    | ok acc1 =>
      rw [e1] at h
      have h : List.foldlM (roundStep o) acc1 rest = .ok acc' := h
      obtain ⟨hdp, hrp, hwp⟩ := hD p List.mem_cons_self
      have hq1 : ∀ q ∈ rest, q.1 ≠ p.1 := by
        intro q hq e
        exact hp1 (List.mem_map.mpr ⟨q, hq, e⟩)
      rcases roundStep_cases e1 with ⟨hnil, rfl⟩ | ⟨hne, cur, nx, eqs, js, nvs, f', h1, h2, rfl⟩
      · obtain ⟨a1, a2, a3, a4, a5, a6, a7, a8⟩ := ih { acc with polls := acc.polls + 1 } acc' hnd hi
          (fun q hq => hD q (List.mem_cons_of_mem _ hq)) h
        refine ⟨a1, a2, a3, a4, a5, a6, ?_, ?_⟩
        · intro k hk
          simp only [List.map_cons, List.mem_cons, not_or] at hk
          exact a7 k hk.2
        · intro q hq
          rcases List.mem_cons.mp hq with rfl | hq
          · left
            refine ⟨hnil, ?_⟩
            rw [a7 q.1 hp1]
            show acc.forest.data.get q.1 = some []
            rw [hdp, hnil]
          · exact a8 q hq
      · obtain ⟨j, hr, hfm, hwj⟩ := foldClass_wac p.1 acc.next (o.tes p.2) _
          (fun e he => hwp e ((ho.2.1 _).mem_iff.mp he)) h1
        simp only [Prod.mk.injEq] at hr
        obtain ⟨rfl, rfl, rfl, rfl, rfl⟩ := hr
        obtain ⟨f'', e2, i1, i2, i3, _⟩ := DS.setData_spec acc.forest p.1 [cur] hi
        rw [h2] at e2; injection e2 with e2; subst e2
        rw [hrp] at i3
        obtain ⟨a1, a2, a3, a4, a5, a6, a7, a8⟩ := ih _ acc' hnd i1 (by
          intro q hq
          simp only []
          rw [i3, if_neg (hq1 q hq), i2]
          exact hD q (List.mem_cons_of_mem _ hq)) h
        simp only [List.append_nil] at a3 a4 a5 a6
        refine ⟨a1, fun w => by rw [a2 w]; exact i2 w, a3, a4, a5, a6, ?_, ?_⟩
        · intro k hk
          simp only [List.map_cons, List.mem_cons, not_or] at hk
          rw [a7 k hk.2]
          show f'.data.get k = _
          rw [i3, if_neg hk.1]
        · intro q hq
          rcases List.mem_cons.mp hq with rfl | hq
          · right
            refine ⟨cur, hfm, ?_, hwj⟩
            rw [a7 q.1 hp1]
            show f'.data.get q.1 = _
            rw [i3, if_pos rfl]
          · exact a8 q hq

/-- `sets` leaves every cell's data (read with the empty default) as it was. -/
theorem sets_dataAt {f : Forest} (hi : DS.Inv f) (k : Nat) :
    DS.dataAt setM (f.sets setM).1 k = DS.dataAt setM f k := by
  obtain ⟨f1, l, e, _, _, _, _, _, _, i7⟩ := DS.sets_spec setM f hi
  rw [e]; simp only []
  unfold DS.dataAt
  rw [i7]
  split <;> rfl

theorem sets_wdata {f : Forest} (hi : DS.Inv f) (hw : WData f) : WData (f.sets setM).1 := by
  obtain ⟨f1, l, e, _, _, _, _, _, _, i7⟩ := DS.sets_spec setM f hi
  rw [e]; simp only []
  intro k d hk x hx
  rw [i7] at hk
  split at hk
  · injection hk with hk; subst hk
    cases hg : f.data.get k with
    | none => rw [hg] at hx; cases hx
    | some d0 => rw [hg] at hx; exact hw _ d0 hg x hx
  · exact hw k d hk x hx

/-- What one round does to a forest holding word data: no fault, no variable allocated, the
partition unchanged, and every cell's evidence set folded (in the order `o.tes` enumerates it)
into one expression. -/
theorem round_word {o : Orders} (ho : OrdersOk o) {f : Forest} (h : UInv f) (hw : WData f)
    (next counter : Nat) :
    ∃ acc, round o f next counter = .ok acc ∧ acc.next = next ∧ UInv acc.forest ∧
      SameRoots f acc.forest ∧ WData acc.forest ∧ Single acc.forest ∧
      (∀ k, (DS.dataAt setM f k = [] ∧ DS.dataAt setM acc.forest k = []) ∨
        (∃ l j, l.Perm (DS.dataAt setM f k) ∧ foldMerge l = some (j, []) ∧
          DS.dataAt setM acc.forest k = [j])) ∧
      (Single f → acc.progress = false) := by
  obtain ⟨acc0, e0, i0, r0⟩ := roundLoop_inv ho h next counter
  obtain ⟨s1, s2, s3, s4, s5⟩ := uinv_sets h
  have hw1 := sets_wdata h.1 hw
  obtain ⟨g1, g2, g3, g4, g5, g6, g7, g8⟩ := loop_word ho (f.sets setM).2
    { forest := (f.sets setM).1, next := next, counter := counter } acc0 s5 s1.1
    (fun p hp => ⟨(s3 p hp).2.1, by simp only []; rw [s2]; exact (s3 p hp).2.2,
      hw1 p.1 p.2 (s3 p hp).2.1⟩) e0
  simp only [] at g3 g4 g5 g6 g7 g8
  have et := roundTail_nil ho acc0 g4 g5 g6
  have er : round o f next counter = .ok acc0 := by
    rw [round_eq, e0]; exact et
  -- every stored cell of the result
  have hcell : ∀ k d, acc0.forest.data.get k = some d →
      d = [] ∨ ∃ j, d = [j] ∧ WAC j := by
    intro k d hk
    by_cases hkl : k ∈ (f.sets setM).2.map (·.1)
    · obtain ⟨p, hp, rfl⟩ := List.mem_map.mp hkl
      rcases g8 p hp with ⟨_, hd⟩ | ⟨j, _, hd, hj⟩
      · rw [hd] at hk; injection hk with hk; exact .inl hk.symm
      · rw [hd] at hk; injection hk with hk; exact .inr ⟨j, hk.symm, hj⟩
    · rw [g7 k hkl] at hk
      exact absurd (List.mem_map.mpr ⟨(k, d), s4 k d hk, rfl⟩) hkl
  refine ⟨acc0, er, g3, i0.1, r0, ?_, ?_, ?_, ?_⟩
  · intro k d hk x hx
    rcases hcell k d hk with rfl | ⟨j, rfl, hj⟩
    · cases hx
    · simp only [List.mem_singleton] at hx; subst hx; exact hj
  · intro k d hk
    rcases hcell k d hk with rfl | ⟨j, rfl, hj⟩ <;> simp
  · intro k
    rw [← sets_dataAt h.1 k]
    by_cases hkl : k ∈ (f.sets setM).2.map (·.1)
    · obtain ⟨p, hp, rfl⟩ := List.mem_map.mp hkl
      have hd0 : DS.dataAt setM (f.sets setM).1 p.1 = p.2 := by
        unfold DS.dataAt; rw [(s3 p hp).2.1]; rfl
      rw [hd0]
      rcases g8 p hp with ⟨hnil, hd⟩ | ⟨j, hfm, hd, hj⟩
      · left
        refine ⟨hnil, ?_⟩
        unfold DS.dataAt; rw [hd]; rfl
      · right
        refine ⟨o.tes p.2, j, ho.2.1 _, hfm, ?_⟩
        unfold DS.dataAt; rw [hd]; rfl
    · left
      have hnone : (f.sets setM).1.data.get k = none := by
        cases hg : (f.sets setM).1.data.get k with
        | none => rfl
        | some d => exact absurd (List.mem_map.mpr ⟨(k, d), s4 k d hg, rfl⟩) hkl
      unfold DS.dataAt
      rw [g7 k hkl, hnone]
      exact ⟨rfl, rfl⟩
  · exact (round_pf ho h hw.pf er).2.2.2

/-! ## 3. The loop: at most two rounds -/

/-- `f` is `f0` with every cell's evidence set folded into one expression. -/
def Folded (f0 f : Forest) : Prop :=
  SameRoots f0 f ∧
    ∀ k, (DS.dataAt setM f0 k = [] ∧ DS.dataAt setM f k = []) ∨
      (∃ l j, l.Perm (DS.dataAt setM f0 k) ∧ foldMerge l = some (j, []) ∧
        DS.dataAt setM f k = [j])

theorem foldMerge_single (x : TE) : foldMerge [x] = some (x, []) := rfl

/-- A round on single-piece data changes no cell. -/
theorem round_word_single {o : Orders} (ho : OrdersOk o) {f : Forest} (h : UInv f) (hw : WData f)
    (hs : Single f) (next counter : Nat) :
    ∃ acc, round o f next counter = .ok acc ∧ acc.next = next ∧ UInv acc.forest ∧
      SameRoots f acc.forest ∧ acc.progress = false ∧
      ∀ k, DS.dataAt setM acc.forest k = DS.dataAt setM f k := by
  obtain ⟨acc, e, a1, a2, a3, _, _, a6, a7⟩ := round_word ho h hw next counter
  refine ⟨acc, e, a1, a2, a3, a7 hs, ?_⟩
  intro k
  rcases a6 k with ⟨h1, h2⟩ | ⟨l, j, hp, hfm, hd⟩
  · rw [h1, h2]
  · have hlen := dataAt_single hs k
    have hl := hp.length_eq
    cases l with
    | nil => cases hfm
    | cons x r =>
      cases r with
      | cons y r => simp only [List.length_cons] at hl; omega
      | nil =>
        rw [foldMerge_single] at hfm
        injection hfm with hfm
        injection hfm with hfm _
        subst hfm
        rw [hd]
        exact (List.perm_singleton.mp hp.symm).symm

/-- With word data the loop stops after at most two rounds, having folded every class once. -/
theorem unifyLoop_word {o : Orders} (ho : OrdersOk o) {f0 : Forest} (h : UInv f0) (hw : WData f0)
    (fuel next counter rounds : Nat) (hfuel : 2 ≤ fuel) :
    ∃ f r, unifyLoop o fuel f0 next counter rounds = .ok (f, next, r) ∧ rounds < r ∧
      r ≤ rounds + 2 ∧ UInv f ∧ Folded f0 f := by
  obtain ⟨fuel, rfl⟩ : ∃ k, fuel = k + 2 := ⟨fuel - 2, by omega⟩
  obtain ⟨acc1, e1, a1, a2, a3, a4, a5, a6, _⟩ := round_word ho h hw next counter
  rw [unifyLoop, e1]
  simp only []
  cases hp : acc1.progress with
  | false =>
    simp only [Bool.false_eq_true, if_false]
    exact ⟨acc1.forest, rounds + 1, by rw [a1], by omega, by omega, a2, a3, a6⟩
  | true =>
    simp only [if_true]
    obtain ⟨acc2, e2, b1, b2, b3, b4, b5⟩ :=
      round_word_single ho a2 a4 a5 acc1.next acc1.counter
    rw [unifyLoop, e2]
    simp only [b4, Bool.false_eq_true, if_false]
    refine ⟨acc2.forest, rounds + 1 + 1, by rw [b1, a1], by omega, by omega, b2,
      fun w => by rw [b3 w]; exact a3 w, ?_⟩
    intro k
    rw [b5 k]
    exact a6 k

/-- More fuel never changes a result. -/
theorem unifyLoop_fuel_mono (o : Orders) : ∀ (fuel : Nat) (f : Forest) (next counter rounds : Nat)
    (x : Forest × Nat × Nat), unifyLoop o fuel f next counter rounds = .ok x →
    ∀ k, unifyLoop o (fuel + k) f next counter rounds = .ok x := by
  intro fuel
  induction fuel with
  | zero => intro f next counter rounds x h; simp [unifyLoop] at h
  | succ fuel ih =>
    intro f next counter rounds x h k
    have e : fuel + 1 + k = (fuel + k) + 1 := by omega
    rw [e]
    rw [unifyLoop] at h ⊢
    cases hr : round o f next counter with
    | error e => rw [hr] at h; cases h
    | ok acc =>
      rw [hr] at h
      simp only [] at h ⊢
      cases hp : acc.progress with
      | true =>
        rw [hp] at h
        simp only [if_true] at h ⊢
        exact ih _ _ _ _ x h k
      | false =>
        rw [hp] at h
        simp only [Bool.false_eq_true, if_false] at h ⊢
        exact h

/-! ## 4. The initial forest of a word-only input -/

theorem nodup_setUnion {a : List TE} (ha : a.Nodup) (b : List TE) : (setUnion a b).Nodup := by
  unfold setUnion
  induction b generalizing a with
  | nil => exact ha
  | cons e b ih => rw [List.foldl_cons]; exact ih (nodup_setInsert ha e)

/-- every stored inference set is duplicate free -/
def DataNodup (f : Forest) : Prop := ∀ k d, f.data.get k = some d → d.Nodup

theorem dataAt_nodup {f : Forest} (h : DataNodup f) (k : Nat) : (DS.dataAt setM f k).Nodup := by
  unfold DS.dataAt
  cases hg : f.data.get k with
  | none => exact List.nodup_nil
  | some d => exact h k d hg

theorem initStep_nodup {v : Nat} {f f' : Forest} {e : TE} (hi : UInv f) (hn : DataNodup f)
    (h : initStep v f e = .ok f') : UInv f' ∧ DataNodup f' := by
  obtain ⟨f'', e1, u1, _, _⟩ := initStep_spec hi v e
  rw [h] at e1; injection e1 with e1; subst e1
  refine ⟨u1, ?_⟩
  rcases initStep_cases h with ⟨id, rfl, hun⟩ | ⟨hne, hadd⟩
  · obtain ⟨f'', e, i1, i2, i3, i4⟩ := DS.union_spec setM f v id hi.1
    rw [hun] at e; injection e with e; subst e
    intro k d hk
    by_cases hab : DS.rootOf f v = DS.rootOf f id
    · rw [(i3 hab).2] at hk; exact hn k d hk
    · rw [(i4 hab).2] at hk
      split at hk
      · injection hk with hk; subst hk
        exact nodup_setUnion (dataAt_nodup hn _) _
      · split at hk
        · cases hk
        · exact hn k d hk
  · obtain ⟨f'', e1, _, _, u3⟩ := uinv_addData hi v [e] (by simpa using hne)
    rw [hadd] at e1; injection e1 with e1; subst e1
    intro k d hk
    rw [u3] at hk
    split at hk
    · injection hk with hk; subst hk
      exact nodup_setUnion (dataAt_nodup hn _) _
    · exact hn k d hk

theorem initForest_nodup {o : Orders} {vars : List Nat} {infs : Nat → List TE} {f : Forest}
    (h : initForest o vars infs = .ok f) : DataNodup f := by
  rw [initForest_eq] at h
  obtain ⟨u0, r0, d0⟩ := insertAll_uinv (o.vars vars) uinv_empty
  have hempty : ∀ k, ({} : Forest).data.get k = none := fun k => DS.get_empty k
  have h0 : DataNodup ((o.vars vars).foldl (fun f v => f.insert v) {}) := by
    intro k d hk; rw [d0, hempty] at hk; cases hk
  have := foldlM_rel (fun (f : Forest) v => (o.tes (infs v)).foldlM (initStep v) f)
    (fun f => UInv f ∧ DataNodup f) (fun _ _ => True) (fun _ _ => True) (fun _ => trivial)
    (fun _ _ _ _ _ => trivial) (fun _ _ _ _ _ => trivial) (o.vars vars)
    (fun s v s' hv hs hstep => by
      have := foldlM_rel (initStep v) (fun f => UInv f ∧ DataNodup f) (fun _ _ => True)
        (fun _ _ => True) (fun _ => trivial) (fun _ _ _ _ _ => trivial)
        (fun _ _ _ _ _ => trivial) (o.tes (infs v))
        (fun s e s' he hs hstep => ⟨initStep_nodup hs.1 hs.2 hstep, trivial, trivial⟩)
        s s' hs hstep
      exact ⟨this.1, trivial, trivial⟩)
    _ f ⟨u0, h0⟩ h
  exact this.1.2

theorem decl_congr (infs : Nat → List TE) (nvars : Nat) (a : Nat) (x : TE) :
    (a ∈ List.range nvars ∧ x ∈ infs a) ↔ Decl infs nvars a x := by
  simp [Decl, List.mem_range]

/-- The initial forest of a word-only input: the closure of the declared equalities, per class
the set of the members' non-`Equal` evidence, all of it words. -/
theorem initForest_word {o : Orders} (ho : OrdersOk o) {nvars : Nat} {infs : Nat → List TE}
    (hw : WordOnly infs nvars) :
    ∃ f0, initForest o (List.range nvars) infs = .ok f0 ∧ Rep f0 (Decl infs nvars) ∧ UInv f0 ∧
      WData f0 ∧ DataNodup f0 := by
  obtain ⟨f0, e0, r0⟩ := initForest_rep ho (List.range nvars) infs
  have r : Rep f0 (Decl infs nvars) := r0.congr (decl_congr infs nvars)
  have hu := initForest_inv ho e0
  refine ⟨f0, e0, r, hu, ?_, initForest_nodup e0⟩
  intro k d hk x hx
  have hroot := (hu.2.2 k d hk).2
  have hev : x ∈ evidence f0 k := by
    unfold evidence DS.dataAt
    rw [hroot, hk]; exact hx
  obtain ⟨w, ⟨hwn, hxw⟩, hne, _⟩ := (r.data k x).mp hev
  rcases hw w hwn x hxw with ⟨id, rfl, _⟩ | h | h
  · cases hne
  · exact .inl h
  · exact .inr (.inl h)

/-- The shape of every successful run on a word-only input, for any fuel. -/
theorem unify_word_shape {o : Orders} (ho : OrdersOk o) {nvars : Nat} {infs : Nat → List TE}
    (hw : WordOnly infs nvars) :
    ∃ f0, Rep f0 (Decl infs nvars) ∧ DataNodup f0 ∧
      (∀ fuel, 2 ≤ fuel → ∃ f r, unify o fuel nvars infs = .ok (f, nvars, r) ∧ 1 ≤ r ∧ r ≤ 2 ∧
        Folded f0 f) ∧
      (∀ fuel f n r, unify o fuel nvars infs = .ok (f, n, r) → n = nvars ∧ 1 ≤ r ∧ r ≤ 2 ∧
        Folded f0 f) := by
  obtain ⟨f0, e0, r0, hu, hwd, hnd⟩ := initForest_word ho hw
  have hA : ∀ fuel, 2 ≤ fuel → ∃ f r, unify o fuel nvars infs = .ok (f, nvars, r) ∧ 1 ≤ r ∧
      r ≤ 2 ∧ Folded f0 f := by
    intro fuel hfuel
    obtain ⟨f, r, e, h1, h2, _, h4⟩ := unifyLoop_word ho hu hwd fuel nvars 0 0 hfuel
    refine ⟨f, r, ?_, by omega, by omega, h4⟩
    unfold unify; rw [e0]; exact e
  refine ⟨f0, r0, hnd, hA, ?_⟩
  intro fuel f n r h
  have h' : unifyLoop o fuel f0 nvars 0 0 = .ok (f, n, r) := by
    unfold unify at h; rw [e0] at h; exact h
  have h2 := unifyLoop_fuel_mono o fuel f0 nvars 0 0 _ h' 2
  obtain ⟨f', r', e, g1, g2, g3⟩ := hA (fuel + 2) (by omega)
  unfold unify at e; rw [e0] at e
  simp only [] at e
  rw [h2] at e
  injection e with e
  simp only [Prod.mk.injEq] at e
  obtain ⟨rfl, rfl, rfl⟩ := e
  exact ⟨rfl, g1, g2, g3⟩

/-! ## 5. The targets -/

/-- Evidence of a class through the run: membership in the initial forest's evidence set is
`ClassEv` in the final forest. -/
theorem classEv_iff {infs : Nat → List TE} {nvars : Nat} {f0 f : Forest}
    (r0 : Rep f0 (Decl infs nvars)) (hf : Folded f0 f) (v : Nat) (e : TE) :
    e ∈ evidence f0 v ↔ ClassEv infs nvars f v e := by
  have hsc : ∀ a b, sameClass f a b ↔ Eqv (Decl infs nvars) a b := by
    intro a b
    rw [← r0.part]
    unfold sameClass
    rw [hf.1 a, hf.1 b]
  rw [r0.data]
  constructor
  · rintro ⟨w, ⟨hwn, hew⟩, hne, hwv⟩
    exact ⟨w, (hsc w v).mpr hwv, hwn, hew, hne⟩
  · rintro ⟨a, hav, han, hea, hne⟩
    exact ⟨a, ⟨han, hea⟩, hne, (hsc a v).mp hav⟩

/-- **J1.** On word-only input, with fuel for two rounds, `unify` returns; it allocates no
variable, runs one or two rounds, and the final partition is exactly the equivalence closure of
the declared equalities (for all `a`, `b`, in particular for the declared variables). -/
theorem J1 {o : Orders} (ho : OrdersOk o) {nvars : Nat} {infs : Nat → List TE}
    (hw : WordOnly infs nvars) (fuel : Nat) (hfuel : 2 ≤ fuel) :
    ∃ f r, unify o fuel nvars infs = .ok (f, nvars, r) ∧ 1 ≤ r ∧ r ≤ 2 ∧
      ∀ a b, DS.rootOf f a = DS.rootOf f b ↔
        Eqv (fun v x => v < nvars ∧ x ∈ infs v) a b := by
  obtain ⟨f0, r0, _, hA, _⟩ := unify_word_shape ho hw
  obtain ⟨f, r, e, h1, h2, hf⟩ := hA fuel hfuel
  refine ⟨f, r, e, h1, h2, ?_⟩
  intro a b
  rw [hf.1 a, hf.1 b]
  exact r0.part a b

/-- J1 for a given successful run, whatever its fuel. -/
theorem J1_of_ok {o : Orders} (ho : OrdersOk o) {nvars : Nat} {infs : Nat → List TE}
    (hw : WordOnly infs nvars) {fuel : Nat} {f : Forest} {n r : Nat}
    (h : unify o fuel nvars infs = .ok (f, n, r)) :
    n = nvars ∧ 1 ≤ r ∧ r ≤ 2 ∧
      ∀ a b, DS.rootOf f a = DS.rootOf f b ↔
        Eqv (fun v x => v < nvars ∧ x ∈ infs v) a b := by
  obtain ⟨f0, r0, _, _, hB⟩ := unify_word_shape ho hw
  obtain ⟨h0, h1, h2, hf⟩ := hB fuel f n r h
  refine ⟨h0, h1, h2, ?_⟩
  intro a b
  rw [hf.1 a, hf.1 b]
  exact r0.part a b

/-- **J2.** The data of the class of `v` in the result: nothing if no member of the class has
non-`Equal` evidence; otherwise exactly one expression `j`, the `foldMerge` of a duplicate-free
enumeration `l` of the set of all non-`Equal` evidence of all members of the class (the
enumeration is the order in which `o.tes` lists the class's evidence set).  No equality is
emitted by the fold. -/
theorem J2 {o : Orders} (ho : OrdersOk o) {nvars : Nat} {infs : Nat → List TE}
    (hw : WordOnly infs nvars) {fuel : Nat} {f : Forest} {n r : Nat}
    (h : unify o fuel nvars infs = .ok (f, n, r)) (v : Nat) :
    ((∀ e, ¬ ClassEv infs nvars f v e) ∧ evidence f v = []) ∨
    (∃ l j, (∀ e, e ∈ l ↔ ClassEv infs nvars f v e) ∧ l.Nodup ∧
      foldMerge l = some (j, []) ∧ evidence f v = [j]) := by
  obtain ⟨f0, r0, hnd, _, hB⟩ := unify_word_shape ho hw
  obtain ⟨_, _, _, hf⟩ := hB fuel f n r h
  have hev : evidence f v = DS.dataAt setM f (DS.rootOf f0 v) := by
    unfold evidence; rw [hf.1 v]
  have hev0 : evidence f0 v = DS.dataAt setM f0 (DS.rootOf f0 v) := rfl
  rcases hf.2 (DS.rootOf f0 v) with ⟨h1, h2⟩ | ⟨l, j, hp, hfm, hd⟩
  · left
    refine ⟨?_, by rw [hev, h2]⟩
    intro e he
    have := (classEv_iff r0 hf v e).mpr he
    rw [hev0, h1] at this
    cases this
  · right
    refine ⟨l, j, ?_, ?_, hfm, by rw [hev, hd]⟩
    · intro e
      rw [hp.mem_iff, ← hev0]
      exact classEv_iff r0 hf v e
    · exact hp.nodup_iff.mpr (dataAt_nodup hnd _)

/-- `ClassEv` only contains words and `any`. -/
theorem classEv_wa {infs : Nat → List TE} {nvars : Nat} (hw : WordOnly infs nvars) {f : Forest}
    {v : Nat} {e : TE} (h : ClassEv infs nvars f v e) : WA e := by
  obtain ⟨a, _, han, hea, hne⟩ := h
  rcases hw a han e hea with ⟨id, rfl, _⟩ | h | h
  · cases hne
  · exact .inl h
  · exact .inr h

/-- **J3 (a).** If all the evidence of the class of `v` (spread over its members) is below some
`T`, the class resolves — for every choice of iteration orders — to one non-conflict `j` that is
above every piece of evidence of every member and below `T`. -/
theorem J3a {o : Orders} (ho : OrdersOk o) {nvars : Nat} {infs : Nat → List TE}
    (hw : WordOnly infs nvars) {fuel : Nat} {f : Forest} {n r : Nat}
    (h : unify o fuel nvars infs = .ok (f, n, r)) (v : Nat) (T : TE)
    (hex : ∃ e, ClassEv infs nvars f v e)
    (hT : ∀ e, ClassEv infs nvars f v e → wordLe e T = true) :
    ∃ j, evidence f v = [j] ∧ j ≠ .conflict ∧ ((∃ w u, j = .word w u) ∨ j = .any) ∧
      (∀ e, ClassEv infs nvars f v e → wordLe e j = true) ∧ wordLe j T = true := by
  rcases J2 ho hw h v with ⟨h1, _⟩ | ⟨l, j, hl, _, hfm, hd⟩
  · obtain ⟨e, he⟩ := hex
    exact absurd he (h1 e)
  · have hne : l ≠ [] := by
      intro hnil; rw [hnil] at hfm; cases hfm
    obtain ⟨j', g1, g2, g3, g4, g5⟩ := consistent_words_join' l T hne
      (fun e he => classEv_wa hw ((hl e).mp he)) (fun e he => hT e ((hl e).mp he))
    rw [hfm] at g1
    injection g1 with g1
    injection g1 with g1 _
    subst g1
    exact ⟨j, hd, g3, g2, fun e he => g4 e ((hl e).mpr he), g5⟩

/-- … and `j` is the least upper bound of the class's evidence. -/
theorem J3a_least {o : Orders} (ho : OrdersOk o) {nvars : Nat} {infs : Nat → List TE}
    (hw : WordOnly infs nvars) {fuel : Nat} {f : Forest} {n r : Nat}
    (h : unify o fuel nvars infs = .ok (f, n, r)) (v : Nat) (T : TE)
    (hex : ∃ e, ClassEv infs nvars f v e)
    (hT : ∀ e, ClassEv infs nvars f v e → wordLe e T = true) (j : TE) (hj : evidence f v = [j]) :
    ∀ U, (∀ e, ClassEv infs nvars f v e → wordLe e U = true) → wordLe j U = true := by
  intro U hU
  obtain ⟨j', g1, _, _, _, g5⟩ := J3a ho hw h v U hex hU
  rw [hj] at g1
  injection g1 with g1
  subst g1
  exact g5

/-- **J3 (b).** If the evidence of two members of the class of `v` contains a conflicting pair,
the class resolves to `conflict` — for every choice of iteration orders. -/
theorem J3b {o : Orders} (ho : OrdersOk o) {nvars : Nat} {infs : Nat → List TE}
    (hw : WordOnly infs nvars) {fuel : Nat} {f : Forest} {n r : Nat}
    (h : unify o fuel nvars infs = .ok (f, n, r)) (v : Nat) (ea eb : TE)
    (ha : ClassEv infs nvars f v ea) (hb : ClassEv infs nvars f v eb)
    (hc : conflicts ea eb = true) : evidence f v = [.conflict] := by
  rcases J2 ho hw h v with ⟨h1, _⟩ | ⟨l, j, hl, _, hfm, hd⟩
  · exact absurd ha (h1 ea)
  · have hwa : ∀ e ∈ l, WA e := fun e he => classEv_wa hw ((hl e).mp he)
    obtain ⟨q, hq⟩ := contradiction_conflicts l (fun e he => (hwa e he).pf)
      (fun e he => by rcases hwa e he with ⟨w, u, rfl⟩ | rfl <;> rfl)
      ⟨ea, (hl ea).mpr ha, eb, (hl eb).mpr hb, hc⟩
    rw [hfm] at hq
    injection hq with hq
    injection hq with hq _
    rw [hd, hq]

/-- The members view of `ClassEv`: it is a property of the partition (J1) and the input only. -/
theorem classEv_def {infs : Nat → List TE} {nvars : Nat} {f : Forest} {v : Nat} {e : TE} :
    ClassEv infs nvars f v e ↔
      ∃ a, DS.rootOf f a = DS.rootOf f v ∧ a < nvars ∧ e ∈ infs a ∧ NoEq e = true := Iff.rfl

/-- **Order freedom of the resolved type.**  Two runs with any two choices of iteration orders
(and any fuels) resolve a class with compatible word evidence to the same expression. -/
theorem J3a_order_free {o o' : Orders} (ho : OrdersOk o) (ho' : OrdersOk o') {nvars : Nat}
    {infs : Nat → List TE} (hw : WordOnly infs nvars) {fuel fuel' : Nat} {f f' : Forest}
    {n r n' r' : Nat} (h : unify o fuel nvars infs = .ok (f, n, r))
    (h' : unify o' fuel' nvars infs = .ok (f', n', r')) (v : Nat) (T : TE)
    (hex : ∃ e, ClassEv infs nvars f v e)
    (hT : ∀ e, ClassEv infs nvars f v e → wordLe e T = true) :
    evidence f v = evidence f' v := by
  have hce : ∀ e, ClassEv infs nvars f v e ↔ ClassEv infs nvars f' v e := by
    intro e
    have p := (J1_of_ok ho hw h).2.2.2
    have p' := (J1_of_ok ho' hw h').2.2.2
    unfold ClassEv sameClass
    constructor
    · rintro ⟨a, h1, h2⟩; exact ⟨a, (p' a v).mpr ((p a v).mp h1), h2⟩
    · rintro ⟨a, h1, h2⟩; exact ⟨a, (p a v).mpr ((p' a v).mp h1), h2⟩
  have hex' : ∃ e, ClassEv infs nvars f' v e := by
    obtain ⟨e, he⟩ := hex; exact ⟨e, (hce e).mp he⟩
  have hT' : ∀ e, ClassEv infs nvars f' v e → wordLe e T = true :=
    fun e he => hT e ((hce e).mpr he)
  obtain ⟨j, g1, _, _, g4, _⟩ := J3a ho hw h v T hex hT
  obtain ⟨j', g1', _, _, g4', _⟩ := J3a ho' hw h' v T hex' hT'
  have l1 := J3a_least ho hw h v T hex hT j g1 j' (fun e he => g4' e ((hce e).mp he))
  have l2 := J3a_least ho' hw h' v T hex' hT' j' g1' j (fun e he => g4 e ((hce e).mpr he))
  rw [g1, g1', wordLe_antisymm _ _ l1 l2]

/-! ### Non-vacuity -/

/-- three variables: `0 = 1` (declared on both sides), `0 ∋ word(?, numeric)`,
`1 ∋ word(160, address)`, `2 ∋ word(8, bool)` -/
def exInfs : Nat → List TE
  | 0 => [.equal 1, .word none .numeric]
  | 1 => [.equal 0, .word (some 160) .address]
  | 2 => [.word (some 8) .bool]
  | _ => []

theorem exInfs_wordOnly : WordOnly exInfs 3 := by
  intro v hv e he
  have : v = 0 ∨ v = 1 ∨ v = 2 := by omega
  rcases this with rfl | rfl | rfl <;> simp [exInfs] at he <;> rcases he with rfl | rfl <;> simp

example : ∃ f, unify idOrders 2 3 exInfs = .ok (f, 3, 2) ∧
    evidence f 0 = [.word (some 160) .address] ∧ evidence f 1 = [.word (some 160) .address] ∧
    evidence f 2 = [.word (some 8) .bool] := ⟨_, rfl, rfl, rfl, rfl⟩

/-- conflicting evidence on two equated variables -/
def exInfs2 : Nat → List TE
  | 0 => [.equal 1, .word (some 8) .bool]
  | 1 => [.equal 0, .word (some 160) .address]
  | _ => []

example : ∃ f, unify idOrders 2 2 exInfs2 = .ok (f, 2, 2) ∧ evidence f 0 = [.conflict] ∧
    evidence f 1 = [.conflict] := ⟨_, rfl, rfl, rfl⟩

/-- one round is not enough in general: with fuel 1 this run is out of fuel -/
example : unify idOrders 1 2 exInfs2 = .error .outOfFuel := rfl

end SLE.UnifyJoin

