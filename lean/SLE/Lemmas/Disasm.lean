import SLE.Model.Disasm
/-! Helper lemmas for C10: the loop of `disassemble` computes the chunk-wise `spec`. -/
namespace SLE.Disasm

/-- Loop followed by the epilogue, from an arbitrary loop state. -/
def full (s : PState) (bs : List Nat) : Except DErr (List Instr) :=
  match run s bs with
  | .error e => .error e
  | .ok (is, sf) =>
    match finish sf with
    | .error e => .error e
    | .ok tail => .ok (is ++ tail)

def prepend (out : List Instr) : Except DErr (List Instr) → Except DErr (List Instr)
  | .error e => .error e
  | .ok is => .ok (out ++ is)

theorem full_nil (s : PState) : full s [] = finish s := by
  unfold full run
  cases h : finish s <;> simp [h]

theorem full_cons (s : PState) (b : Nat) (bs : List Nat) :
    full s (b :: bs) =
      match step s b with
      | .error e => .error e
      | .ok (s', out) => prepend out (full s' bs) := by
  unfold full
  simp only [run]
  cases hs : step s b with
  | error e => simp
  | ok p =>
    obtain ⟨s', out⟩ := p
    simp only []
    cases hr : run s' bs with
    | error e => simp [prepend]
    | ok q =>
      obtain ⟨rest, sf⟩ := q
      simp only []
      cases hf : finish sf with
      | error e => simp [prepend]
      | ok tail => simp [prepend, List.append_assoc]

theorem disasm_eq_full (bs : List Nat) (h : bs ≠ []) (hl : bs.length ≤ 2 ^ 32) :
    disasm bs = full idle bs := by
  unfold disasm full
  have : ¬ bs.length > 2 ^ 32 := by omega
  simp [h, this]
  rfl

theorem spec_nil : spec [] = [] := by unfold spec; rfl

theorem spec_cons (b : Nat) (bs : List Nat) :
    spec (b :: bs) =
      if isPush b then
        if b - 0x5f ≤ bs.length then
          .push (b - 0x5f) (bs.take (b - 0x5f)) ::
            (List.replicate (b - 0x5f) .nop ++ spec (bs.drop (b - 0x5f)))
        else .invalid b :: bs.map .invalid
      else if isKnown b then .op b :: spec bs
      else .invalid b :: spec bs := by
  rw [spec]

theorem isPush_bounds {b : Nat} (h : isPush b = true) : 0 < b - 0x5f ∧ b - 0x5f ≤ 32 := by
  unfold isPush at h
  simp at h
  omega

/-- The two-part loop invariant, by strong induction on the remaining input. -/
theorem full_spec_aux (n : Nat) :
    ∀ bs : List Nat, bs.length ≤ n →
      (full idle bs = .ok (spec bs)) ∧
      (∀ (lp k r : Nat) (pb : List Nat), 0 < r → pb.length + r = k → k ≤ 32 →
        full { lastPush := lp, pushSize := k, remaining := r, pushBytes := pb } bs =
          if r ≤ bs.length then
            .ok (.push k (pb ++ bs.take r) :: (List.replicate k .nop ++ spec (bs.drop r)))
          else .ok (.invalid lp :: (pb ++ bs).map .invalid)) := by
  induction n with
  | zero =>
    intro bs hbs
    have : bs = [] := by cases bs <;> simp_all
    subst this
    constructor
    · rw [full_nil, spec_nil]; simp [finish, idle]
    · intro lp k r pb hr hk hk32
      rw [full_nil]
      have h1 : pb.length ≠ k := by omega
      have h2 : ¬ r ≤ 0 := by omega
      simp [finish, h1, h2]
  | succ n ih =>
    intro bs hbs
    cases bs with
    | nil =>
      constructor
      · rw [full_nil, spec_nil]; simp [finish, idle]
      · intro lp k r pb hr hk hk32
        rw [full_nil]
        have h1 : pb.length ≠ k := by omega
        have h2 : ¬ r ≤ 0 := by omega
        simp [finish, h1, h2]
    | cons b bs =>
      have hlen : bs.length ≤ n := by simp at hbs; omega
      obtain ⟨ihI, ihP⟩ := ih bs hlen
      constructor
      · -- idle state
        rw [full_cons, spec_cons]
        by_cases hp : isPush b = true
        · have hb := isPush_bounds hp
          have hstep : step idle b =
              .ok ({ lastPush := b, pushSize := b - 0x5f, remaining := b - 0x5f, pushBytes := [] }, []) := by
            simp [step, idle, hp]
          rw [hstep]
          simp only []
          rw [ihP b (b - 0x5f) (b - 0x5f) [] hb.1 (by simp) hb.2]
          simp only [hp, if_true]
          by_cases hle : b - 0x5f ≤ bs.length
          · simp [hle, prepend]
          · simp [hle, prepend]
        · have hp' : isPush b = false := by simpa using hp
          by_cases hk : isKnown b = true
          · have hstep : step idle b = .ok (idle, [.op b]) := by simp [step, idle, hp', hk]
            rw [hstep]; simp only []
            rw [ihI]; simp [hp', hk, prepend]
          · have hk' : isKnown b = false := by simpa using hk
            have hstep : step idle b = .ok (idle, [.invalid b]) := by simp [step, idle, hp', hk']
            rw [hstep]; simp only []
            rw [ihI]; simp [hp', hk', prepend]
      · -- pending push
        intro lp k r pb hr hk hk32
        rw [full_cons]
        by_cases h1 : r = 1
        · subst h1
          have hstep : step { lastPush := lp, pushSize := k, remaining := 1, pushBytes := pb } b =
              .ok (idle, .push k (pb ++ [b]) :: List.replicate k .nop) := by
            have hk0 : 0 < k := by omega
            have hlen' : (pb ++ [b]).length = k := by simp; omega
            simp [step, pushNew, hk0, hk32, hlen']
          rw [hstep]; simp only []
          rw [ihI]
          simp [prepend]
        · have hr2 : 0 < r - 1 := by omega
          have hstep : step { lastPush := lp, pushSize := k, remaining := r, pushBytes := pb } b =
              .ok ({ lastPush := lp, pushSize := k, remaining := r - 1, pushBytes := pb ++ [b] }, []) := by
            have : r ≠ 0 := by omega
            have h3 : ¬ (r - 1 = 0) := by omega
            simp [step, this, h3]
          rw [hstep]; simp only []
          rw [ihP lp k (r - 1) (pb ++ [b]) hr2 (by simp; omega) hk32]
          by_cases hle : r ≤ bs.length + 1
          · have hle' : r - 1 ≤ bs.length := by omega
            have : r = (r - 1) + 1 := by omega
            simp only [List.length_cons, hle, hle', if_true, prepend, List.nil_append]
            rw [this]
            simp [List.take_succ_cons, List.drop_succ_cons, List.append_assoc]
          · have hle' : ¬ r - 1 ≤ bs.length := by omega
            simp [hle, hle', prepend, List.append_assoc]

theorem full_idle_spec (bs : List Nat) : full idle bs = .ok (spec bs) :=
  (full_spec_aux bs.length bs (Nat.le_refl _)).1

end SLE.Disasm

namespace SLE.Disasm

/-! ### Properties of `spec` -/

theorem spec_length (n : Nat) : ∀ bs : List Nat, bs.length ≤ n → (spec bs).length = bs.length := by
  induction n with
  | zero => intro bs h; have : bs = [] := by cases bs <;> simp_all
            subst this; simp [spec_nil]
  | succ n ih =>
    intro bs h
    cases bs with
    | nil => simp [spec_nil]
    | cons b bs =>
      have hlen : bs.length ≤ n := by simp at h; omega
      rw [spec_cons]
      by_cases hp : isPush b = true
      · by_cases hle : b - 0x5f ≤ bs.length
        · have := ih (bs.drop (b - 0x5f)) (by simp; omega)
          simp [hp, hle, this] <;> omega
        · simp [hp, hle]
      · have hp' : isPush b = false := by simpa using hp
        by_cases hk : isKnown b = true <;> simp [hp', hk, ih bs hlen]

theorem flatMap_replicate_nop (k : Nat) : (List.replicate k Instr.nop).flatMap Instr.encode = [] := by
  induction k with
  | zero => rfl
  | succ k ih => simp [List.replicate_succ, Instr.encode, ih]

theorem flatMap_map_invalid (l : List Nat) : (l.map Instr.invalid).flatMap Instr.encode = l := by
  induction l with
  | nil => rfl
  | cons a l ih => simp [Instr.encode, ih]

theorem spec_encode (n : Nat) : ∀ bs : List Nat, bs.length ≤ n → encodeAll (spec bs) = bs := by
  induction n with
  | zero => intro bs h; have : bs = [] := by cases bs <;> simp_all
            subst this; simp [spec_nil, encodeAll]
  | succ n ih =>
    intro bs h
    cases bs with
    | nil => simp [spec_nil, encodeAll]
    | cons b bs =>
      have hlen : bs.length ≤ n := by simp at h; omega
      rw [spec_cons]
      by_cases hp : isPush b = true
      · have hb : 0x60 ≤ b := by unfold isPush at hp; simp at hp; omega
        by_cases hle : b - 0x5f ≤ bs.length
        · have := ih (bs.drop (b - 0x5f)) (by simp; omega)
          unfold encodeAll at this ⊢
          simp only [hp, hle, if_true, List.flatMap_cons, List.flatMap_append, Instr.encode,
            flatMap_replicate_nop, this, List.nil_append]
          have h5 : 0x5f + (b - 0x5f) = b := by omega
          rw [h5]
          simp [List.take_append_drop]
        · unfold encodeAll
          simp [hp, hle, Instr.encode, flatMap_map_invalid]
      · have hp' : isPush b = false := by simpa using hp
        have := ih bs hlen
        unfold encodeAll at this ⊢
        by_cases hk : isKnown b = true <;> simp [hp', hk, Instr.encode, this]

/-- Pointwise relation between three lists of equal length. -/
inductive All3 {α β γ : Type} (R : α → β → γ → Prop) : List α → List β → List γ → Prop where
  | nil : All3 R [] [] []
  | cons {a b c as bs cs} : R a b c → All3 R as bs cs → All3 R (a :: as) (b :: bs) (c :: cs)

theorem All3.append {α β γ : Type} {R : α → β → γ → Prop} {a1 a2 b1 b2 c1 c2}
    (h1 : All3 R a1 b1 c1) (h2 : All3 R a2 b2 c2) : All3 R (a1 ++ a2) (b1 ++ b2) (c1 ++ c2) := by
  induction h1 with
  | nil => simpa using h2
  | cons hr _ ih => exact All3.cons hr ih

theorem All3.get {α β γ : Type} {R : α → β → γ → Prop} {as bs cs}
    (h : All3 R as bs cs) (i : Nat) {a b c} (ha : as[i]? = some a) (hb : bs[i]? = some b)
    (hc : cs[i]? = some c) : R a b c := by
  induction h generalizing i with
  | nil => simp at ha
  | cons hr _ ih =>
    cases i with
    | zero => simp at ha hb hc; subst ha hb hc; exact hr
    | succ i => simp at ha hb hc; exact ih i ha hb hc

theorem All3.lengths {α β γ : Type} {R : α → β → γ → Prop} {as bs cs}
    (h : All3 R as bs cs) : as.length = bs.length ∧ as.length = cs.length := by
  induction h with
  | nil => simp
  | cons _ _ ih => simp only [List.length_cons]; omega

theorem all3_replicate {α β γ : Type} {R : α → β → γ → Prop} (x : β) (y : γ)
    (hR : ∀ a, R a x y) (l : List α) :
    All3 R l (List.replicate l.length x) (List.replicate l.length y) := by
  induction l with
  | nil => exact All3.nil
  | cons a l ih => simp [List.replicate_succ]; exact All3.cons (hR a) ih

theorem all3_map {α β γ : Type} {R : α → β → γ → Prop} (x : β) (f : α → γ)
    (hR : ∀ a, R a x (f a)) (l : List α) :
    All3 R l (List.replicate l.length x) (l.map f) := by
  induction l with
  | nil => exact All3.nil
  | cons a l ih => simp [List.replicate_succ]; exact All3.cons (hR a) ih

theorem mask_nil : pushDataMask [] = [] := by unfold pushDataMask; rfl

theorem mask_cons (b : Nat) (bs : List Nat) :
    pushDataMask (b :: bs) =
      if isPush b then
        false :: (List.replicate (min (b - 0x5f) bs.length) true ++ pushDataMask (bs.drop (b - 0x5f)))
      else false :: pushDataMask bs := by
  rw [pushDataMask]

/-- What each stream entry may be, given the byte at its offset and whether the EVM scan
calls that byte push data. -/
def Entry (b : Nat) (m : Bool) (ins : Instr) : Prop :=
  (m = true → ins = .nop ∨ ins = .invalid b) ∧
  (m = false → (isPush b = true → (∃ d, ins = .push (b - 0x5f) d) ∨ ins = .invalid b) ∧
               (isPush b = false → isKnown b = true → ins = .op b) ∧
               (isPush b = false → isKnown b = false → ins = .invalid b))

theorem spec_entries (n : Nat) :
    ∀ bs : List Nat, bs.length ≤ n → All3 Entry bs (pushDataMask bs) (spec bs) := by
  induction n with
  | zero => intro bs h; have : bs = [] := by cases bs <;> simp_all
            subst this; rw [mask_nil, spec_nil]; exact All3.nil
  | succ n ih =>
    intro bs h
    cases bs with
    | nil => rw [mask_nil, spec_nil]; exact All3.nil
    | cons b bs =>
      have hlen : bs.length ≤ n := by simp at h; omega
      rw [spec_cons, mask_cons]
      by_cases hp : isPush b = true
      · by_cases hle : b - 0x5f ≤ bs.length
        · have ih' := ih (bs.drop (b - 0x5f)) (by simp; omega)
          simp only [hp, hle, if_true, Nat.min_eq_left hle]
          refine All3.cons ?_ ?_
          · refine ⟨by simp, fun _ => ⟨fun _ => Or.inl ⟨_, rfl⟩, by simp [hp], by simp [hp]⟩⟩
          · have hsplit : bs = bs.take (b - 0x5f) ++ bs.drop (b - 0x5f) := by simp
            have hl : (bs.take (b - 0x5f)).length = b - 0x5f := by simp; omega
            have := all3_replicate (R := Entry) true Instr.nop
              (fun a => ⟨fun _ => Or.inl rfl, by simp⟩) (bs.take (b - 0x5f))
            rw [hl] at this
            have h2 := All3.append this ih'
            rw [← hsplit] at h2
            exact h2
        · have hmin : min (b - 0x5f) bs.length = bs.length := by omega
          have hdrop : bs.drop (b - 0x5f) = [] := by simp; omega
          simp only [hp, hle, if_true, if_false, hmin, hdrop, mask_nil, List.append_nil]
          refine All3.cons ?_ ?_
          · refine ⟨by simp, fun _ => ⟨fun _ => Or.inr rfl, by simp [hp], by simp [hp]⟩⟩
          · exact all3_map true Instr.invalid (fun a => ⟨fun _ => Or.inr rfl, by simp⟩) bs
      · have hp' : isPush b = false := by simpa using hp
        by_cases hk : isKnown b = true
        · simp only [hp', hk, if_true]
          refine All3.cons ?_ (ih bs hlen)
          exact ⟨by simp, fun _ => ⟨by simp [hp'], fun _ _ => rfl, by simp [hk]⟩⟩
        · have hk' : isKnown b = false := by simpa using hk
          simp only [hp', hk']
          refine All3.cons ?_ (ih bs hlen)
          exact ⟨by simp, fun _ => ⟨by simp [hp'], by simp [hk'], fun _ _ => rfl⟩⟩

end SLE.Disasm
