import SLE.Lemmas.Unify
/-!
C16 / C15 / C12 / C14 — the laws of `unification::merge` on the PACKED arms.

* Q1 `merge_total_packed`      : no fault on `Equal`-free input, packed arms included.
* Q2 `merge_comm_packed*`      : commutativity.  It holds in EVERY arm involving a packed
                                 encoding, and more strongly than asked: the two results have the
                                 same expression, the same fresh variables with the SAME numbering,
                                 the same counter, and the emitted equalities / judgements are
                                 permutations of each other (no renaming needed).
* Q3 `merge_width_safe`        : spans stay inside the 256-bit slot.
* Q4 `d12_reemits`             : the D12 loop as a theorem, for every width and usage in the arm.
-/
namespace SLE.MergePacked
open SLE SLE.Merge SLE.MergeLaws SLE.Unify
set_option linter.unusedSimpArgs false
set_option linter.unusedVariables false

/-! ## Q1. Totality -/

/-- Q1. The existing `merge_good` / `C14_merge_total` carries no packed restriction; restated. -/
theorem merge_total_packed (l r : TE) (p n : Nat) (hl : NoEq l = true) (hr : NoEq r = true) :
    ∃ m, merge l r p n = .ok m ∧ NoEq m.expr = true ∧ ∀ j ∈ m.judgements, NoEq j.2 = true := by
  obtain ⟨m, hm, hg⟩ := merge_good l r p n hl hr
  exact ⟨m, hm, hg⟩

/-! ## Q2. Commutativity -/

/-- Strong outcome equivalence: everything equal, emitted lists equal as multisets. -/
structure MEq (m1 m2 : MergeOut) : Prop where
  expr : m1.expr = m2.expr
  eqs : m1.eqs.Perm m2.eqs
  judgements : m1.judgements.Perm m2.judgements
  newVars : m1.newVars = m2.newVars
  next : m1.next = m2.next

theorem MEq.refl (m : MergeOut) : MEq m m := ⟨rfl, .refl _, .refl _, rfl, rfl⟩
theorem MEq.symm {a b : MergeOut} (h : MEq a b) : MEq b a :=
  ⟨h.expr.symm, h.eqs.symm, h.judgements.symm, h.newVars.symm, h.next.symm⟩
theorem MEq.trans {a b c : MergeOut} (h : MEq a b) (g : MEq b c) : MEq a c :=
  ⟨h.expr.trans g.expr, h.eqs.trans g.eqs, h.judgements.trans g.judgements,
   h.newVars.trans g.newVars, h.next.trans g.next⟩

/-- Lifted to results: same fault, or equivalent outputs. -/
def REq : Except MFault MergeOut → Except MFault MergeOut → Prop
  | .ok a, .ok b => MEq a b
  | .error e, .error f => e = f
  | _, _ => False

theorem REq.refl (r : Except MFault MergeOut) : REq r r := by
  cases r <;> simp [REq, MEq.refl]

theorem REq.of_eq {r s : Except MFault MergeOut} (h : r = s) : REq r s := h ▸ REq.refl r

/-! ### The weaker equivalence suggested in the task: up to a renaming of fresh variables -/

def renSpan (σ : Nat → Nat) (s : Span) : Span := ⟨σ s.typ, s.offset, s.size⟩

/-- rename every type variable of an expression -/
def renTE (σ : Nat → Nat) : TE → TE
  | .equal i => .equal (σ i)
  | .fixedArray e l => .fixedArray (σ e) l
  | .mapping k v => .mapping (σ k) (σ v)
  | .dynamicArray e => .dynamicArray (σ e)
  | .packed ts s => .packed (ts.map (renSpan σ)) s
  | x => x

/-- Equivalence up to a renaming `σ` that fixes every variable below the counter `n` the merge
started from (so it can only permute fresh variables), and up to the order of emitted lists. -/
def MEqRen (n : Nat) (m1 m2 : MergeOut) : Prop :=
  ∃ σ : Nat → Nat, (∀ v, v < n → σ v = v) ∧ renTE σ m1.expr = m2.expr ∧
    (m1.eqs.map (fun q => (σ q.1, σ q.2))).Perm m2.eqs ∧
    (m1.judgements.map (fun j => (σ j.1, renTE σ j.2))).Perm m2.judgements ∧
    m1.next = m2.next

theorem renTE_id (e : TE) : renTE (fun v => v) e = e := by
  cases e <;> simp [renTE]
  rename_i ts s
  induction ts with
  | nil => rfl
  | cons t ts ih => simp [renSpan, ih]

/-- The strong equivalence implies the renaming one (identity renaming). -/
theorem MEq.toRen {m1 m2 : MergeOut} (n : Nat) (h : MEq m1 m2) : MEqRen n m1 m2 := by
  refine ⟨fun v => v, fun _ _ => rfl, ?_, ?_, ?_, h.next⟩
  · rw [renTE_id]; exact h.expr
  · simpa using h.eqs
  · have : (m1.judgements.map (fun j => (j.1, renTE (fun v => v) j.2))) = m1.judgements := by
      conv => rhs; rw [← List.map_id m1.judgements]
      apply List.map_congr_left
      intro j _
      simp [renTE_id]
    rw [this]; exact h.judgements

/-! ### (i), (iii): exactly one side is packed — the two calls are literally equal -/

/-- Q2 (i). packed × word: both orders reach the same `packedWord` call. -/
theorem merge_comm_packed_word (ts : List Span) (s : Bool) (w : Option Nat) (u : WordUse)
    (p n : Nat) :
    merge (.packed ts s) (.word w u) p n = merge (.word w u) (.packed ts s) p n := by
  simp [merge]

/-- Q2 (iii). packed × anything that is not packed (any, equal, word, bytes, fixedArray, mapping,
dynamicArray, conflict): both orders give literally the same result. -/
theorem merge_comm_packed_other (ts : List Span) (s : Bool) (b : TE) (hb : ∀ tr sr, b ≠ .packed tr sr)
    (p n : Nat) :
    merge (.packed ts s) b p n = merge b (.packed ts s) p n := by
  cases b
  case packed tr sr => exact absurd rfl (hb tr sr)
  all_goals simp [merge]

/-! ### (ii): packed × packed -/

theorem mem_insertSorted (x y : Nat) (l : List Nat) :
    y ∈ insertSorted x l ↔ y = x ∨ y ∈ l := by
  induction l with
  | nil => simp [insertSorted]
  | cons a l ih =>
    simp only [insertSorted]
    split
    · simp
    · split
      · rename_i h1 h2; subst h2; simp
      · simp [ih]; constructor
        · rintro (h | h | h) <;> simp [h]
        · rintro (h | h | h) <;> simp [h]

theorem sorted_insertSorted (x : Nat) (l : List Nat) (h : l.Pairwise (· < ·)) :
    (insertSorted x l).Pairwise (· < ·) := by
  induction l with
  | nil => simp [insertSorted]
  | cons a l ih =>
    simp only [insertSorted]
    rw [List.pairwise_cons] at h
    split
    · rename_i hxa
      refine List.pairwise_cons.2 ⟨?_, List.pairwise_cons.2 h⟩
      intro b hb
      rcases List.mem_cons.1 hb with rfl | hb
      · exact hxa
      · exact Nat.lt_trans hxa (h.1 b hb)
    · split
      · exact List.pairwise_cons.2 h
      · rename_i h1 h2
        refine List.pairwise_cons.2 ⟨?_, ih h.2⟩
        intro b hb
        rcases (mem_insertSorted x b l).1 hb with rfl | hb
        · omega
        · exact h.1 b hb

theorem fold_insertSorted (xs : List Nat) :
    ∀ acc : List Nat, acc.Pairwise (· < ·) →
      (xs.foldl (fun acc x => insertSorted x acc) acc).Pairwise (· < ·) ∧
      ∀ y, y ∈ xs.foldl (fun acc x => insertSorted x acc) acc ↔ y ∈ xs ∨ y ∈ acc := by
  induction xs with
  | nil => intro acc h; simp [h]
  | cons x xs ih =>
    intro acc h
    rw [List.foldl_cons]
    obtain ⟨h1, h2⟩ := ih (insertSorted x acc) (sorted_insertSorted x acc h)
    refine ⟨h1, fun y => ?_⟩
    rw [h2, mem_insertSorted]
    simp only [List.mem_cons]
    constructor
    · rintro (h | h | h) <;> simp [h]
    · rintro ((h | h) | h) <;> simp [h]

theorem boundaries_sorted (ts : List Span) : (boundaries ts).Pairwise (· < ·) :=
  (fold_insertSorted _ [] List.Pairwise.nil).1

theorem mem_boundaries (ts : List Span) (y : Nat) :
    y ∈ boundaries ts ↔ ∃ s ∈ ts, y = s.offset ∨ y = s.offset + s.size := by
  unfold boundaries
  rw [(fold_insertSorted _ [] List.Pairwise.nil).2]
  simp only [List.mem_flatMap, List.mem_cons, List.not_mem_nil, or_false]

/-- strictly sorted lists with the same members are equal -/
theorem sorted_ext : ∀ (l1 l2 : List Nat), l1.Pairwise (· < ·) → l2.Pairwise (· < ·) →
    (∀ x, x ∈ l1 ↔ x ∈ l2) → l1 = l2
  | [], [], _, _, _ => rfl
  | [], b :: l2, _, _, h => by have := (h b).2 (by simp); simp at this
  | a :: l1, [], _, _, h => by have := (h a).1 (by simp); simp at this
  | a :: l1, b :: l2, h1, h2, h => by
    rw [List.pairwise_cons] at h1 h2
    have hab : a = b := by
      have ha := (h a).1 (by simp)
      have hb := (h b).2 (by simp)
      rcases List.mem_cons.1 ha with e | ha
      · exact e
      · rcases List.mem_cons.1 hb with e | hb
        · exact e.symm
        · have := h2.1 a ha; have := h1.1 b hb; omega
    subst hab
    congr 1
    apply sorted_ext l1 l2 h1.2 h2.2
    intro x
    constructor
    · intro hx
      rcases List.mem_cons.1 ((h x).1 (List.mem_cons_of_mem _ hx)) with e | hx'
      · have := h1.1 x hx; omega
      · exact hx'
    · intro hx
      rcases List.mem_cons.1 ((h x).2 (List.mem_cons_of_mem _ hx)) with e | hx'
      · have := h2.1 x hx; omega
      · exact hx'

/-- The boundary list depends only on the SET of spans. -/
theorem boundaries_congr (t1 t2 : List Span) (h : ∀ s, s ∈ t1 ↔ s ∈ t2) :
    boundaries t1 = boundaries t2 := by
  apply sorted_ext _ _ (boundaries_sorted _) (boundaries_sorted _)
  intro x
  rw [mem_boundaries, mem_boundaries]
  constructor
  · rintro ⟨s, hs, hx⟩; exact ⟨s, (h s).1 hs, hx⟩
  · rintro ⟨s, hs, hx⟩; exact ⟨s, (h s).2 hs, hx⟩

theorem boundaries_append_comm (tl tr : List Span) :
    boundaries (tl ++ tr) = boundaries (tr ++ tl) :=
  boundaries_congr _ _ (fun s => by simp [or_comm])

/-- Q2 (ii). packed × packed: same expression (same fresh variables, same numbering), same
counter; equalities and judgements are emitted in the other order. -/
theorem packedPacked_comm (tl : List Span) (sl : Bool) (tr : List Span) (sr : Bool) (n : Nat) :
    REq (packedPacked tl sl tr sr n) (packedPacked tr sr tl sl n) := by
  unfold packedPacked
  simp only [Bool.or_comm sl sr, boundaries_append_comm tr tl]
  cases tl with
  | nil =>
    cases tr with
    | nil => simp [REq, out, MEq.refl]
    | cons b tr => simp [REq, out, MEq.refl]
  | cons a tl =>
    cases tr with
    | nil => simp [REq, out, MEq.refl]
    | cons b tr =>
      simp only [List.isEmpty_cons, Bool.false_eq_true, if_false, REq]
      exact ⟨rfl, List.perm_append_comm, List.perm_append_comm, rfl, rfl⟩

theorem merge_comm_packed_packed (tl : List Span) (sl : Bool) (tr : List Span) (sr : Bool)
    (p n : Nat) :
    REq (merge (.packed tl sl) (.packed tr sr) p n) (merge (.packed tr sr) (.packed tl sl) p n) := by
  by_cases h : TE.packed tl sl = TE.packed tr sr
  · rw [h]; exact REq.refl _
  · have h' : ¬ TE.packed tr sr = TE.packed tl sl := fun e => h e.symm
    unfold merge
    rw [if_neg h, if_neg h']
    exact packedPacked_comm tl sl tr sr n

def isPacked : TE → Bool
  | .packed _ _ => true
  | _ => false

/-- Q2, all packed arms at once: as soon as one operand is a packed encoding, the two orders agree
up to the order of the emitted lists (for every parent and every counter). -/
theorem merge_comm_packed (a b : TE) (p n : Nat) (h : isPacked a = true ∨ isPacked b = true) :
    REq (merge a b p n) (merge b a p n) := by
  cases a with
  | packed tl sl =>
    cases b with
    | packed tr sr => exact merge_comm_packed_packed tl sl tr sr p n
    | _ => exact REq.of_eq (merge_comm_packed_other tl sl _ (by intro _ _ e; cases e) p n)
  | _ =>
    cases b with
    | packed tr sr =>
      exact REq.of_eq (merge_comm_packed_other tr sr _ (by intro _ _ e; cases e) p n).symm
    | _ => simp [isPacked] at h

/-- The renaming form asked for in the task follows (with the identity renaming). -/
theorem merge_comm_packed_ren (a b : TE) (p n : Nat) (h : isPacked a = true ∨ isPacked b = true)
    (m1 m2 : MergeOut) (h1 : merge a b p n = .ok m1) (h2 : merge b a p n = .ok m2) :
    MEqRen n m1 m2 := by
  have := merge_comm_packed a b p n h
  rw [h1, h2] at this
  exact MEq.toRen n this

/-! ### Commutativity of the outcome on ALL of `TE` (C16, first half, with no fragment restriction) -/

theorem perm_eqvL {E1 E2 : List (Nat × Nat)} (h : E1.Perm E2) : EqvL E1 E2 :=
  EqvL.of_gens (fun p hp => .base (h.mem_iff.1 hp)) (fun p hp => .base (h.mem_iff.2 hp))

theorem outcome_of_REq {a b c d : TE} {p n : Nat} (h : REq (merge a b p n) (merge c d p n))
    (h0 : p = 0 ∧ n = 0) : OutEq (outcome a b) (outcome c d) := by
  obtain ⟨rfl, rfl⟩ := h0
  unfold outcome
  cases h1 : merge a b 0 0 <;> cases h2 : merge c d 0 0 <;> rw [h1, h2] at h <;> simp [REq] at h
  · exact OutEq.conf rfl rfl
  · exact OutEq.same h.expr (perm_eqvL h.eqs)

theorem merge_equal_l (i : Nat) (b : TE) (h : TE.equal i ≠ b) (p n : Nat) :
    merge (.equal i) b p n = .error .equalityInMerge := by
  unfold merge; rw [if_neg h]

theorem merge_equal_r (i : Nat) (a : TE) (h : a ≠ TE.equal i) (p n : Nat) :
    merge a (.equal i) p n = .error .equalityInMerge := by
  unfold merge; rw [if_neg h]
  cases a <;> simp at h ⊢

/-- C16 commutativity for EVERY pair of type expressions (packed and `Equal` included), in the
sense of `MergeLaws.OutEq` (the relation the packed-free theorem `merge_comm` uses). -/
theorem merge_comm_all (a b : TE) : OutEq (outcome a b) (outcome b a) := by
  by_cases hab : a = b
  · subst hab; exact OutEq.same rfl (EqvL.refl _)
  · have hba : ¬ b = a := fun e => hab e.symm
    by_cases hp : isPacked a = true ∨ isPacked b = true
    · exact outcome_of_REq (merge_comm_packed a b 0 0 hp) ⟨rfl, rfl⟩
    · cases ha : PF a
      · cases a <;> simp [PF] at ha
        · rename_i i
          apply OutEq.conf
          · simp [outcome, merge_equal_l i b hab]
          · simp [outcome, merge_equal_r i b hba]
        · simp [isPacked] at hp
      · cases hb : PF b
        · cases b <;> simp [PF] at hb
          · rename_i i
            apply OutEq.conf
            · simp [outcome, merge_equal_r i a hab]
            · simp [outcome, merge_equal_l i a hba]
          · simp [isPacked] at hp
        · exact merge_comm a b ha hb

/-! ### Where order dependence (D18) does live: grouping, not commutation

`packed ⊔ bool8 ⊔ address8`: folding from the packed encoding pushes both words down to the span's
variable (the parent stays a packed encoding); folding the two words first conflicts at the parent. -/
theorem merge_assoc_packed_fails_witness :
    (groupL (.packed [⟨1, 0, 8⟩] false) (.word (some 8) .bool) (.word (some 8) .address)).1
        = .packed [⟨1, 0, 8⟩] false ∧
    (groupR (.packed [⟨1, 0, 8⟩] false) (.word (some 8) .bool) (.word (some 8) .address)).1
        = .conflict := by
  constructor <;> rfl

/-- The same at the level of one class fold (`foldClass`, whose evidence order is a hash-set
iteration order): the two orders of the same three pieces of evidence end in a packed encoding
(with both words pushed down to variable 1) resp. in a conflict at the parent. -/
theorem d18_fold_order_witness :
    foldClass 0 [.packed [⟨1, 0, 8⟩] false, .word (some 8) .bool, .word (some 8) .address] 5 =
      .ok (.packed [⟨1, 0, 8⟩] false, 5, [],
           [(1, .word (some 8) .bool), (1, .word (some 8) .address)], []) ∧
    foldClass 0 [.word (some 8) .bool, .word (some 8) .address, .packed [⟨1, 0, 8⟩] false] 5 =
      .ok (.conflict, 5, [], [], []) := by
  constructor <;> rfl

/-! ## Q3. Width safety -/

def SpansOk (ts : List Span) : Prop := ∀ s ∈ ts, s.offset + s.size ≤ 256

/-- every span of a packed encoding ends inside the slot; a sized word is at most a slot wide -/
def WOk : TE → Prop
  | .packed ts _ => SpansOk ts
  | .word (some w) _ => w ≤ 256
  | _ => True

def WSafe (m : MergeOut) : Prop := WOk m.expr ∧ ∀ j ∈ m.judgements, WOk j.2

def WSafeR : Except MFault MergeOut → Prop
  | .ok m => WSafe m
  | .error _ => True

theorem out_wsafe (e : TE) (n : Nat) (h : WOk e) : WSafeR (out e n) := ⟨h, by simp⟩

theorem wok_conflict : WOk .conflict := trivial

theorem packedWord_wsafe (ts : List Span) (s : Bool) (w : Option Nat) (u : WordUse) (p n : Nat)
    (ht : SpansOk ts) (hw : WOk (.word w u)) :
    WSafeR (packedWord (.packed ts s) ts w u p n) := by
  unfold packedWord
  simp only []
  repeat' split
  all_goals first
    | exact out_wsafe _ _ hw
    | exact out_wsafe _ _ ht
    | exact out_wsafe _ _ wok_conflict
    | (refine ⟨ht, ?_⟩
       intro j hj
       simp at hj; subst hj
       first
         | exact hw
         | (intro x hx
            simp at hx; subst hx
            simpa [WOk] using hw))

/-- fresh spans: both ends are boundaries -/
theorem mem_newSpans (bs : List Nat) : ∀ (n : Nat) (x : Nat × Nat × Nat),
    x ∈ newSpans n bs → x.2.1 ∈ bs ∧ x.2.2 ∈ bs := by
  induction bs with
  | nil => intro n x h; simp [newSpans] at h
  | cons a r ih =>
    intro n x h
    cases r with
    | nil => simp [newSpans] at h
    | cons b r =>
      simp only [newSpans, List.mem_cons] at h
      rcases h with rfl | h
      · simp
      · have := ih (n + 1) x (by simpa using h)
        exact ⟨List.mem_cons_of_mem _ this.1, List.mem_cons_of_mem _ this.2⟩

def SpOk (spans : List (Nat × Nat × Nat)) : Prop := ∀ t ∈ spans, t.2.1 ≤ 256 ∧ t.2.2 ≤ 256

theorem newSpans_spOk (tl tr : List Span) (n : Nat) (hl : SpansOk tl) (hr : SpansOk tr) :
    SpOk (newSpans n (boundaries (tl ++ tr))) := by
  have hb : ∀ y ∈ boundaries (tl ++ tr), y ≤ 256 := by
    intro y hy
    obtain ⟨s, hs, h⟩ := (mem_boundaries _ y).1 hy
    have : s.offset + s.size ≤ 256 := by
      rcases List.mem_append.1 hs with hs | hs
      · exact hl s hs
      · exact hr s hs
    omega
  intro t ht
  have := mem_newSpans _ n t ht
  exact ⟨hb _ this.1, hb _ this.2⟩

theorem mem_corresponding (spans : List (Nat × Nat × Nat)) (s x : Span)
    (h : x ∈ corresponding spans s) : ∃ t ∈ spans, x = ⟨t.1, t.2.1, t.2.2 - t.2.1⟩ := by
  unfold corresponding at h
  obtain ⟨t, ht, rfl⟩ := List.mem_map.1 h
  exact ⟨t, (List.dropWhile_sublist _).subset ((List.takeWhile_sublist _).subset ht), rfl⟩

theorem corresponding_ok (spans : List (Nat × Nat × Nat)) (hs : SpOk spans) (s x : Span)
    (h : x ∈ corresponding spans s) : x.offset + x.size ≤ 256 := by
  obtain ⟨t, ht, rfl⟩ := mem_corresponding spans s x h
  have := hs t ht
  simp only
  omega

theorem processSpans_fold_wok (spans : List (Nat × Nat × Nat)) (hs : SpOk spans) (xs : List Span) :
    ∀ acc : List (Nat × Nat) × List (Nat × TE), (∀ j ∈ acc.2, WOk j.2) →
      ∀ j ∈ (xs.foldl (fun (acc : List (Nat × Nat) × List (Nat × TE)) s =>
        let c := corresponding spans s
        match c with
        | [one] => (acc.1 ++ [(s.typ, one.typ)], acc.2)
        | _ => (acc.1, acc.2 ++ [(s.typ, TE.packed (c.map (fun x => ⟨x.typ, x.offset - s.offset, x.size⟩)) false)])) acc).2,
        WOk j.2 := by
  induction xs with
  | nil => intro acc h; simpa using h
  | cons x xs ih =>
    intro acc h
    rw [List.foldl_cons]
    apply ih
    simp only []
    split
    · exact h
    · intro j hj
      rcases List.mem_append.mp hj with hj | hj
      · exact h j hj
      · simp at hj; subst hj
        intro y hy
        obtain ⟨z, hz, rfl⟩ := List.mem_map.1 hy
        have := corresponding_ok spans hs x z hz
        simp only
        omega

theorem processSpans_wok (spans : List (Nat × Nat × Nat)) (hs : SpOk spans) (input : List Span) :
    ∀ j ∈ (processSpans spans input).2, WOk j.2 :=
  processSpans_fold_wok spans hs _ _ (by simp)

theorem packedPacked_wsafe (tl : List Span) (sl : Bool) (tr : List Span) (sr : Bool) (n : Nat)
    (hl : SpansOk tl) (hr : SpansOk tr) : WSafeR (packedPacked tl sl tr sr n) := by
  unfold packedPacked
  simp only []
  split
  · exact out_wsafe _ _ hr
  · split
    · exact out_wsafe _ _ hl
    · have hs := newSpans_spOk tl tr n hl hr
      refine ⟨?_, ?_⟩
      · intro y hy
        obtain ⟨⟨ty, st, en⟩, ht, rfl⟩ := List.mem_map.1 hy
        have := hs _ ht
        simp only at this ⊢
        omega
      · intro j hj
        rcases List.mem_append.mp hj with hj | hj
        · exact processSpans_wok _ hs _ j hj
        · exact processSpans_wok _ hs _ j hj

theorem merge_wsafeR (a b : TE) (p n : Nat) (ha : WOk a) (hb : WOk b) : WSafeR (merge a b p n) := by
  unfold merge
  by_cases h : a = b
  · rw [if_pos h]; exact out_wsafe _ _ ha
  · rw [if_neg h]
    cases a <;> cases b
    all_goals simp only []
    all_goals first
      | trivial
      | exact out_wsafe _ _ wok_conflict
      | exact out_wsafe _ _ ha
      | exact out_wsafe _ _ hb
      | exact packedWord_wsafe _ _ _ _ _ _ ha hb
      | exact packedWord_wsafe _ _ _ _ _ _ hb ha
      | exact packedPacked_wsafe _ _ _ _ _ ha hb
      | exact ⟨trivial, by simp⟩
      | (split <;> first | exact out_wsafe _ _ trivial | exact ⟨trivial, by simp⟩)
      | skip
    -- word × word
    rename_i wl ul wr ur
    cases wl <;> cases wr <;> simp only [] <;> repeat' split
    all_goals first
      | exact out_wsafe _ _ wok_conflict
      | exact out_wsafe _ _ trivial
      | (apply out_wsafe; simpa [WOk] using ha)
      | (apply out_wsafe; simpa [WOk] using hb)

/-- Q3. Width safety of `merge` itself: if every span of the two operands ends inside the 256-bit
slot (and a sized word operand is at most 256 wide), so does every span of the resulting
expression and of every emitted judgement (and every sized word among them is at most 256 wide).
No side condition on sortedness, overlap, parent or counter. -/
theorem merge_width_safe (a b : TE) (p n : Nat) (m : MergeOut) (ha : WOk a) (hb : WOk b)
    (h : merge a b p n = .ok m) : WOk m.expr ∧ ∀ j ∈ m.judgements, WOk j.2 := by
  have := merge_wsafeR a b p n ha hb
  rw [h] at this
  exact this

/-! ## Q4. The D12 loop -/

/-- the usages handled by the second half of `packedWord` (everything but bytes / numeric /
unsignedNumeric) -/
def nonNumeric : WordUse → Bool
  | .bytes | .numeric | .unsignedNumeric => false
  | _ => true

/-- The arm, in general: a packed encoding whose FIRST span is `⟨t, 0, w⟩`, met by a word of
exactly width `w` and non-numeric usage, is returned unchanged and the word is re-emitted as a
judgement for the span's variable `t` — whatever the other spans, the struct flag, the parent and
the counter; no equality, no fresh variable. -/
theorem packedWord_pushes_down (t w : Nat) (rest : List Span) (s : Bool) (u : WordUse)
    (hu : nonNumeric u = true) (p n : Nat) :
    merge (.packed (⟨t, 0, w⟩ :: rest) s) (.word (some w) u) p n =
      .ok { expr := .packed (⟨t, 0, w⟩ :: rest) s, judgements := [(t, .word (some w) u)], next := n } := by
  cases u <;> simp [nonNumeric] at hu <;> simp [merge, packedWord]

/-- Q4 (D12). When the first span is typed by the parent variable itself, the judgement that comes
back is the very evidence that was consumed, for the very same class: `(p, word w u)`.  The
resulting expression is the packed encoding that was there before, nothing else changes (no
equality, no fresh variable, counter untouched) — so the class `p` holds `{packed, word}` again
after the round, and every round reports progress. -/
theorem d12_reemits (p w : Nat) (u : WordUse) (hu : nonNumeric u = true) (n : Nat) :
    merge (.packed [⟨p, 0, w⟩] false) (.word (some w) u) p n =
      .ok { expr := .packed [⟨p, 0, w⟩] false, eqs := [], judgements := [(p, .word (some w) u)],
            newVars := [], next := n } :=
  packedWord_pushes_down p w [] false u hu p n

/-- the same with the evidence met in the other order -/
theorem d12_reemits_swapped (p w : Nat) (u : WordUse) (hu : nonNumeric u = true) (n : Nat) :
    merge (.word (some w) u) (.packed [⟨p, 0, w⟩] false) p n =
      .ok { expr := .packed [⟨p, 0, w⟩] false, eqs := [], judgements := [(p, .word (some w) u)],
            newVars := [], next := n } := by
  rw [← merge_comm_packed_word]; exact d12_reemits p w u hu n

/-- One class fold of the unification round (`foldClass`), both evidence orders: the class keeps
the packed encoding and the word is queued again for the class itself. -/
theorem d12_foldClass (p w : Nat) (u : WordUse) (hu : nonNumeric u = true) (n : Nat) :
    foldClass p [.packed [⟨p, 0, w⟩] false, .word (some w) u] n =
      .ok (.packed [⟨p, 0, w⟩] false, n, [], [(p, .word (some w) u)], []) ∧
    foldClass p [.word (some w) u, .packed [⟨p, 0, w⟩] false] n =
      .ok (.packed [⟨p, 0, w⟩] false, n, [], [(p, .word (some w) u)], []) := by
  constructor
  · simp [foldClass, d12_reemits p w u hu n]
  · simp [foldClass, d12_reemits_swapped p w u hu n]

/-- The arm's domain is exact: with a numeric / bytes usage the word is NOT re-emitted (the arm
emits at most a fresh packed judgement for the parent). -/
theorem d12_domain_exact (p w : Nat) (u : WordUse) (hu : nonNumeric u = false) (n : Nat) (m : MergeOut)
    (h : merge (.packed [⟨p, 0, w⟩] false) (.word (some w) u) p n = .ok m) :
    (p, TE.word (some w) u) ∉ m.judgements := by
  cases u <;> simp [nonNumeric] at hu <;> simp [merge, packedWord] at h <;>
    (split at h <;> (first | (simp [out] at h; subst h; simp) | (simp at h; subst h; simp)))

/-- closed instance: the witness of `C14_terminates_fails_on_pinned` -/
example : merge (.packed [⟨0, 0, 160⟩] false) (.word (some 160) .address) 0 1 =
    .ok { expr := .packed [⟨0, 0, 160⟩] false, judgements := [(0, .word (some 160) .address)], next := 1 } :=
  d12_reemits 0 160 .address rfl 1

/-! ## Checked instances (non-vacuity; why `Perm` and not `=` in the packed × packed arm) -/

/-- the task's sample pair: both orders literally agree -/
example : merge (.packed [⟨1, 0, 8⟩] false) (.word (some 16) .bytes) 7 10 =
    merge (.word (some 16) .bytes) (.packed [⟨1, 0, 8⟩] false) 7 10 := rfl

example : merge (.packed [⟨1, 0, 8⟩] false) (.word (some 16) .bytes) 7 10 =
    .ok { expr := .packed [⟨1, 0, 8⟩] false, judgements := [(7, .packed [⟨10, 0, 16⟩] false)],
          newVars := [10], next := 11 } := rfl

/-- packed × packed, two disjoint spans: same expression and numbering, equalities in the other
order — the two results are NOT literally equal, only `MEq`. -/
example : merge (.packed [⟨1, 0, 8⟩] false) (.packed [⟨2, 8, 8⟩] false) 0 10 =
    .ok { expr := .packed [⟨10, 0, 8⟩, ⟨11, 8, 8⟩] false, eqs := [(1, 10), (2, 11)],
          newVars := [10, 11], next := 12 } := rfl

example : merge (.packed [⟨2, 8, 8⟩] false) (.packed [⟨1, 0, 8⟩] false) 0 10 =
    .ok { expr := .packed [⟨10, 0, 8⟩, ⟨11, 8, 8⟩] false, eqs := [(2, 11), (1, 10)],
          newVars := [10, 11], next := 12 } := rfl

/-- overlapping spans: re-partitioned, judgements for the split span -/
example : merge (.packed [⟨1, 0, 16⟩] false) (.packed [⟨2, 8, 16⟩] true) 0 10 =
    .ok { expr := .packed [⟨10, 0, 8⟩, ⟨11, 8, 8⟩, ⟨12, 16, 8⟩] true, eqs := [],
          judgements := [(1, .packed [⟨10, 0, 8⟩, ⟨11, 8, 8⟩] false),
                         (2, .packed [⟨11, 0, 8⟩, ⟨12, 8, 8⟩] false)],
          newVars := [10, 11, 12], next := 13 } := rfl

end SLE.MergePacked
