import SLE.Lemmas.EvmSim
import SLE.Lemmas.MachineFacts
import SLE.Lemmas.VMControl
import SLE.Lemmas.Word
/-!
# Whole-path simulation (C07 / C08): from one instruction to whole paths, with control flow

Two machines: the model of the symbolic machine (`SLE.VM.step`, `execOp`) and the concrete
reference EVM (`SLE.EVM.explore`).  `EvmSim.step_sim_partial` relates one data instruction;
this file relates whole paths.

* §1  `RStep code data` — the reference machine as a small-step relation on `(pc, EVM.CS)`, read
      off `EVM.explore {}` (both branches at every JUMPI), `RReach` — reachability from `(0, {})`;
      `explore_RStep`, `explore_sound_for_RStep` — every `RStep` is one unfolding of `EVM.explore`.
* §0/§2 `Prog bytes code` (bytes < 256, length < 2^32, `disasm bytes = ok code`), `spec_struct`:
      what the stream entry at an offset says about the bytes (`OpAt`, `PushAt`).
* §3  `Weak`/`Shrunk`/`Fine`: what an instruction that fails or halts leaves behind.
* §3b `Bridge.fold_agree`: constant folding = reference evaluation on trees with 256-bit literals.
* §4  P1: `data_outcome`, `push0_outcome`, `jumpdest_outcome`, `halt_outcome`, `halt_no_RStep`,
      `jump_sim'`/`jump_sim_partial`/`jump_sim_of_litOK`, `jumpi_sim'`/`jumpi_sim_partial`,
      `halt_sim`, `jump_sim_counterexample`; collected in `Outcome` / `outcome`.
* §5  P2: `InScope`, `SideOK`, `Inv`, `inv_init`, `inv_step`.
* §6  `MReach`, `inv_reach`; P3: `executed_is_evm_reachable(')`, `queued_state_matches_a_path`,
      `queued_state_at_instruction`, `stored_state_matches_a_path_partial`.
* §7  `PushGuarded` ⇒ `SideOK` in every reachable state (`sideOK_of_guarded`), and the corollaries
      without any hypothesis on the run (`*_guarded`).
* §8  `stored_state_matches_a_path_counterexample`.
-/
namespace SLE.PathSim
open SLE SLE.SV SLE.VM SLE.EvalC SLE.EvmSim SLE.MachineFacts
open SLE.Disasm (Instr)

/-! ## 0. the instruction stream, offset by offset -/

/-- no placeholder at offset `j` (or `j` is past the end) -/
def NotNop (code : List Instr) (j : Nat) : Prop := code[j]? ≠ some .nop

structure OpAt (bs : List Nat) (code : List Instr) (i b : Nat) : Prop where
  byte : bs[i]? = some b
  notPush : Disasm.isPush b = false
  next : NotNop code (i + 1)

structure PushAt (bs : List Nat) (code : List Instr) (i n : Nat) (dta : List Nat) : Prop where
  byte : bs[i]? = some (0x5f + n)
  pos : 1 ≤ n ∧ n ≤ 32
  fits : i + n < bs.length
  data : dta = (bs.drop (i + 1)).take n
  nops : ∀ j, i < j → j ≤ i + n → code[j]? = some .nop
  next : NotNop code (i + n + 1)

theorem OpAt.shift {bs : List Nat} {code : List Instr} {i b : Nat} (pre' : List Nat)
    (pre : List Instr) (hk : pre.length = pre'.length) (h : OpAt bs code i b) :
    OpAt (pre' ++ bs) (pre ++ code) (pre'.length + i) b := by
  refine ⟨?_, h.notPush, ?_⟩
  · rw [List.getElem?_append_right (by omega)]
    have : pre'.length + i - pre'.length = i := by omega
    rw [this]; exact h.byte
  · unfold NotNop
    rw [List.getElem?_append_right (by omega)]
    have : pre'.length + i + 1 - pre.length = i + 1 := by omega
    rw [this]; exact h.next

theorem PushAt.shift {bs : List Nat} {code : List Instr} {i n : Nat} {dta : List Nat}
    (pre' : List Nat) (pre : List Instr) (hk : pre.length = pre'.length)
    (h : PushAt bs code i n dta) :
    PushAt (pre' ++ bs) (pre ++ code) (pre'.length + i) n dta := by
  refine ⟨?_, h.pos, ?_, ?_, ?_, ?_⟩
  · rw [List.getElem?_append_right (by omega)]
    have : pre'.length + i - pre'.length = i := by omega
    rw [this]; exact h.byte
  · have := h.fits
    simp only [List.length_append]; omega
  · rw [h.data]
    have e : (pre' ++ bs).drop (pre'.length + i + 1) = bs.drop (i + 1) := by
      rw [List.drop_append, List.drop_eq_nil_of_le (as := pre') (by omega)]
      simp only [List.nil_append]
      congr 1; omega
    rw [e]
  · intro j h1 h2
    rw [List.getElem?_append_right (by omega)]
    exact h.nops (j - pre.length) (by omega) (by omega)
  · unfold NotNop
    rw [List.getElem?_append_right (by omega)]
    have : pre'.length + i + n + 1 - pre.length = i + n + 1 := by omega
    rw [this]; exact h.next

theorem spec_head_notNop (bs : List Nat) : NotNop (Disasm.spec bs) 0 := by
  unfold NotNop
  cases bs with
  | nil => simp [Disasm.spec_nil]
  | cons b bs =>
    rw [Disasm.spec_cons]
    split
    · split <;> simp
    · split <;> simp

theorem spec_struct (n : Nat) : ∀ bs : List Nat, bs.length ≤ n → ∀ i,
    (∀ b, (Disasm.spec bs)[i]? = some (.op b) → OpAt bs (Disasm.spec bs) i b) ∧
    (∀ m dta, (Disasm.spec bs)[i]? = some (.push m dta) → PushAt bs (Disasm.spec bs) i m dta) := by
  induction n with
  | zero =>
    intro bs h i
    have : bs = [] := by cases bs <;> simp_all
    subst this
    simp [Disasm.spec_nil]
  | succ n ih =>
    intro bs h i
    cases bs with
    | nil => simp [Disasm.spec_nil]
    | cons b bs =>
      have hlen : bs.length ≤ n := by simp at h; omega
      by_cases hp : Disasm.isPush b = true
      · have hb := Disasm.isPush_bounds hp
        have hb60 : 0x60 ≤ b := by unfold Disasm.isPush at hp; simp at hp; omega
        by_cases hle : b - 0x5f ≤ bs.length
        · -- a complete push
          have hspec : Disasm.spec (b :: bs) =
              (Instr.push (b - 0x5f) (bs.take (b - 0x5f)) :: List.replicate (b - 0x5f) Instr.nop) ++
                Disasm.spec (bs.drop (b - 0x5f)) := by
            rw [Disasm.spec_cons]; simp [hp, hle]
          have hbytes : b :: bs = (b :: bs.take (b - 0x5f)) ++ bs.drop (b - 0x5f) := by simp
          have hk : (Instr.push (b - 0x5f) (bs.take (b - 0x5f)) ::
              List.replicate (b - 0x5f) Instr.nop).length = (b :: bs.take (b - 0x5f)).length := by
            simp; omega
          have hk' : (b :: bs.take (b - 0x5f)).length = b - 0x5f + 1 := by simp; omega
          have ih' := ih (bs.drop (b - 0x5f)) (by simp; omega)
          by_cases hi0 : i = 0
          · subst hi0
            constructor
            · intro b' hb'; rw [hspec] at hb'; simp at hb'
            · intro m dta hm
              rw [hspec] at hm
              simp only [List.cons_append, List.getElem?_cons_zero, Option.some.injEq,
                Instr.push.injEq] at hm
              obtain ⟨rfl, rfl⟩ := hm
              refine ⟨?_, ⟨by omega, hb.2⟩, ?_, ?_, ?_, ?_⟩
              · simp; omega
              · simp; omega
              · simp
              · intro j h1 h2
                rw [hspec]
                rw [List.getElem?_append_left (by simp; omega)]
                cases j with
                | zero => omega
                | succ j => simp [List.getElem?_replicate]; omega
              · unfold NotNop
                rw [hspec, List.getElem?_append_right (by simp)]
                have : 0 + (b - 0x5f) + 1 - (Instr.push (b - 0x5f) (bs.take (b - 0x5f)) ::
                    List.replicate (b - 0x5f) Instr.nop).length = 0 := by simp
                rw [this]
                exact spec_head_notNop _
          · by_cases hin : i ≤ b - 0x5f
            · have hnop : (Disasm.spec (b :: bs))[i]? = some Instr.nop := by
                rw [hspec, List.getElem?_append_left (by simp; omega)]
                cases i with
                | zero => omega
                | succ j => simp [List.getElem?_replicate]; omega
              constructor
              · intro b' hb'; rw [hnop] at hb'; cases hb'
              · intro m dta hm; rw [hnop] at hm; cases hm
            · obtain ⟨i', rfl⟩ : ∃ i', i = (b :: bs.take (b - 0x5f)).length + i' :=
                ⟨i - (b - 0x5f + 1), by rw [hk']; omega⟩
              have hget : (Disasm.spec (b :: bs))[(b :: bs.take (b - 0x5f)).length + i']? =
                  (Disasm.spec (bs.drop (b - 0x5f)))[i']? := by
                rw [hspec, List.getElem?_append_right (by rw [hk]; omega)]
                congr 1; rw [hk]; omega
              constructor
              · intro b' hb'
                rw [hget] at hb'
                have := ((ih' i').1 b' hb').shift _ _ hk
                rw [← hspec, ← hbytes] at this
                exact this
              · intro m dta hm
                rw [hget] at hm
                have := ((ih' i').2 m dta hm).shift _ _ hk
                rw [← hspec, ← hbytes] at this
                exact this
        · -- a truncated push: only `invalid` entries
          have hspec : Disasm.spec (b :: bs) = (b :: bs).map Instr.invalid := by
            rw [Disasm.spec_cons]; simp [hp, hle]
          constructor
          · intro b' hb'; rw [hspec] at hb'
            simp only [List.getElem?_map, Option.map_eq_some_iff] at hb'
            obtain ⟨_, _, h⟩ := hb'; cases h
          · intro m dta hm; rw [hspec] at hm
            simp only [List.getElem?_map, Option.map_eq_some_iff] at hm
            obtain ⟨_, _, h⟩ := hm; cases h
      · have hp' : Disasm.isPush b = false := by simpa using hp
        obtain ⟨hd, hspec, hhd⟩ : ∃ hd, Disasm.spec (b :: bs) = [hd] ++ Disasm.spec bs ∧
            (hd = .op b ∨ hd = .invalid b) := by
          rw [Disasm.spec_cons]
          by_cases hk : Disasm.isKnown b = true
          · exact ⟨_, by simp [hp', hk], Or.inl rfl⟩
          · have hk' : Disasm.isKnown b = false := by simpa using hk
            exact ⟨_, by simp [hp', hk'], Or.inr rfl⟩
        have ih' := ih bs hlen
        cases i with
        | zero =>
          constructor
          · intro b' hb'
            rw [hspec] at hb'
            simp only [List.cons_append, List.nil_append, List.getElem?_cons_zero,
              Option.some.injEq] at hb'
            rcases hhd with rfl | rfl
            · cases hb'
              refine ⟨by simp, hp', ?_⟩
              unfold NotNop
              rw [hspec]; simp
              exact spec_head_notNop bs
            · cases hb'
          · intro m dta hm
            rw [hspec] at hm
            simp only [List.cons_append, List.nil_append, List.getElem?_cons_zero,
              Option.some.injEq] at hm
            rcases hhd with rfl | rfl <;> cases hm
        | succ i' =>
          have hget : (Disasm.spec (b :: bs))[i' + 1]? = (Disasm.spec bs)[i']? := by
            rw [hspec]; simp
          have e1 : i' + 1 = [b].length + i' := by simp; omega
          constructor
          · intro b' hb'
            rw [hget] at hb'
            have := ((ih' i').1 b' hb').shift [b] [hd] rfl
            rw [← hspec] at this
            rw [e1]; exact this
          · intro m dta hm
            rw [hget] at hm
            have := ((ih' i').2 m dta hm).shift [b] [hd] rfl
            rw [← hspec] at this
            rw [e1]; exact this

/-! ## 1. the reference machine as a small-step relation -/

/-- a reference configuration: program counter (byte offset) and concrete state -/
abbrev Conf := Nat × EVM.CS

/-- `EVM.explore` records the offset it executes -/
def visit (pc : Nat) (s : EVM.CS) : EVM.CS := { s with visited := s.visited ++ [pc] }

/-- the instruction the reference machine reads at `pc`: a PUSHn with its immediate (zero-padded
past the end of the code, as in `EVM.explore`), or a single-byte opcode -/
def decode (code : Array Nat) (pc : Nat) : Instr :=
  if 0x60 ≤ code[pc]! ∧ code[pc]! ≤ 0x7f then
    .push (code[pc]! - 0x5f) (pushBytes code pc (code[pc]! - 0x5f))
  else .op code[pc]!

/-- where `EVM.explore` continues after a non-control instruction -/
def nextPc (code : Array Nat) (pc : Nat) : Nat :=
  if 0x60 ≤ code[pc]! ∧ code[pc]! ≤ 0x7f then pc + 1 + (code[pc]! - 0x5f) else pc + 1

/-- One step of the reference machine, read off `EVM.explore {}` (no quirks): the data
instructions covered by `refStep` (PUSH1..32, DUP, SWAP, POP, PC, CODESIZE, ISZERO, NOT, the binary
ALU opcodes of `aluOk`, MLOAD, MSTORE, SLOAD, SSTORE), PUSH0, JUMPDEST, JUMP, and JUMPI with BOTH
continuations whatever the condition.  Halting opcodes, errors (underflow, overflow, bad jump) and
opcodes outside that set have no successor. -/
inductive RStep (code : Array Nat) (data : List Nat) : Conf → Conf → Prop
  | data {pc : Nat} {s s' : EVM.CS} (hpc : pc < code.size)
      (h : refStep pc code.size (decode code pc) (visit pc s) = .ok s') :
      RStep code data (pc, s) (nextPc code pc, s')
  | push0 {pc : Nat} {s s' : EVM.CS} (hpc : pc < code.size) (hb : code[pc]! = 0x5f)
      (h : EVM.pushStack (visit pc s) 0 = some s') : RStep code data (pc, s) (pc + 1, s')
  | jumpdest {pc : Nat} {s : EVM.CS} (hpc : pc < code.size) (hb : code[pc]! = 0x5b) :
      RStep code data (pc, s) (pc + 1, visit pc s)
  | jump {pc : Nat} {s : EVM.CS} {t : Nat} {r : List Nat} (hpc : pc < code.size)
      (hb : code[pc]! = 0x56) (hs : s.stack = t :: r) (hv : EVM.validDest code data t = true) :
      RStep code data (pc, s) (t, { visit pc s with stack := r })
  | jumpiTaken {pc : Nat} {s : EVM.CS} {t c : Nat} {r : List Nat} (hpc : pc < code.size)
      (hb : code[pc]! = 0x57) (hs : s.stack = t :: c :: r)
      (hv : EVM.validDest code data t = true) :
      RStep code data (pc, s) (t, { visit pc s with stack := r })
  | jumpiFall {pc : Nat} {s : EVM.CS} {t c : Nat} {r : List Nat} (hpc : pc < code.size)
      (hb : code[pc]! = 0x57) (hs : s.stack = t :: c :: r) :
      RStep code data (pc, s) (pc + 1, { visit pc s with stack := r })

/-- reachable from the initial configuration `(0, {})` -/
inductive RReach (code : Array Nat) (data : List Nat) : Conf → Prop
  | init : RReach code data (0, {})
  | step {a b : Conf} : RReach code data a → RStep code data a b → RReach code data b

theorem rel_visit (d : TData) (pc : Nat) (s : EVM.CS) : Rel d (visit pc s) ↔ Rel d s := Iff.rfl

theorem rel_forkPoint (d : TData) (fp : Nat) (s : EVM.CS) :
    Rel { d with forkPoint := fp } s ↔ Rel d s := Iff.rfl

theorem rel_record (d : TData) (v : SV) (s : EVM.CS) : Rel (record d v) s ↔ Rel d s := Iff.rfl

/-! ### `RStep` is `EVM.explore`, one unfolding at a time (optional glue) -/

theorem beVal_foldl_lt : ∀ (l : List Nat) (acc : Nat), (∀ x ∈ l, x < 256) →
    l.foldl (fun a b => a * 256 + b) acc < (acc + 1) * 256 ^ l.length
  | [], acc, _ => by simp
  | x :: l, acc, h => by
    have hx : x < 256 := h x (by simp)
    have ih := beVal_foldl_lt l (acc * 256 + x) (fun y hy => h y (by simp [hy]))
    simp only [List.foldl_cons, List.length_cons]
    calc _ < (acc * 256 + x + 1) * 256 ^ l.length := ih
      _ ≤ ((acc + 1) * 256) * 256 ^ l.length := Nat.mul_le_mul_right _ (by omega)
      _ = (acc + 1) * 256 ^ (l.length + 1) := by rw [Nat.pow_succ, Nat.mul_assoc, Nat.mul_comm 256]

theorem pushBytes_beVal_lt (code : Array Nat) (hb : ∀ i, i < code.size → code[i]! < 256)
    (pc n : Nat) (hn : n ≤ 32) : beVal (pushBytes code pc n) < 2 ^ 256 := by
  have h1 : ∀ x ∈ pushBytes code pc n, x < 256 := by
    intro x hx
    simp only [pushBytes, List.mem_map, List.mem_range] at hx
    obtain ⟨i, _, rfl⟩ := hx
    split
    · exact hb _ ‹_›
    · omega
  have h2 := beVal_foldl_lt _ 0 h1
  have h3 : (pushBytes code pc n).length = n := by simp [pushBytes]
  rw [h3] at h2
  have h4 : 256 ^ n ≤ 256 ^ 32 := Nat.pow_le_pow_right (by omega) hn
  have h5 : (256 : Nat) ^ 32 = 2 ^ 256 := by decide
  unfold beVal
  omega

/-- every step of `RStep` is one unfolding of `EVM.explore {}`: whatever the explorer reports from
the successor configuration, it reports from the predecessor with one more unit of fuel -/
theorem explore_RStep {code : Array Nat} {data : List Nat}
    (hbytes : ∀ i, i < code.size → code[i]! < 256) {a b : Conf} (h : RStep code data a b)
    (fuel : Nat) :
    ∀ x ∈ EVM.explore {} code data fuel b.1 b.2, x ∈ EVM.explore {} code data (fuel + 1) a.1 a.2 := by
  intro x hx
  cases h with
  | @data pc s s' hpc h =>
    by_cases hp : 0x60 ≤ code[pc]! ∧ code[pc]! ≤ 0x7f
    · have hd : decode code pc = .push (code[pc]! - 0x5f) (pushBytes code pc (code[pc]! - 0x5f)) := by
        unfold decode; rw [if_pos hp]
      have hn : nextPc code pc = pc + 1 + (code[pc]! - 0x5f) := by unfold nextPc; rw [if_pos hp]
      rw [hd] at h
      have := explore_refStep_push code data fuel pc s _ hpc rfl hp pc code.size
        (pushBytes_beVal_lt code hbytes pc _ (by omega))
      show x ∈ EVM.explore {} code data (fuel + 1) pc s
      rw [this]
      show x ∈ exploreAfter code data fuel _ _ (refStep pc code.size _ (visit pc s))
      rw [h, ← hn]
      exact hx
    · have hd : decode code pc = .op code[pc]! := by unfold decode; rw [if_neg hp]
      have hn : nextPc code pc = pc + 1 := by unfold nextPc; rw [if_neg hp]
      rw [hd] at h
      have hs : code[pc]! ∈ scopeOps ∨ (0x80 ≤ code[pc]! ∧ code[pc]! ≤ 0x9f) := by
        false_or_by_contra
        rename_i hc
        have hc1 : code[pc]! ∉ scopeOps := fun h' => hc (Or.inl h')
        have hc2 : ¬ (0x80 ≤ code[pc]! ∧ code[pc]! ≤ 0x9f) := fun h' => hc (Or.inr h')
        simp only [scopeOps, aluOk, List.cons_append, List.nil_append, List.mem_cons,
          List.not_mem_nil, or_false, not_or] at hc1
        rw [refStep_unsupported pc code.size _ _ (by omega) (by omega) (by omega) (by omega)
          (by omega) (by omega) (by omega) (by omega) (by omega) (by omega)
          (by simp only [aluOk, List.mem_cons, List.not_mem_nil, or_false]; omega)] at h
        cases h
      have := explore_refStep code data fuel pc s _ hpc rfl hs
      show x ∈ EVM.explore {} code data (fuel + 1) pc s
      rw [this]
      show x ∈ exploreAfter code data fuel _ _ (refStep pc code.size _ (visit pc s))
      rw [h, ← hn]
      exact hx
  | @push0 pc s s' hpc hb h =>
    have hpc' : ¬ pc ≥ code.size := by omega
    show x ∈ EVM.explore {} code data (fuel + 1) pc s
    simp only [EVM.explore, hpc', if_false, hb]
    simp only [Nat.reduceBEq, Bool.false_eq_true, if_false, if_true]
    change EVM.pushStack { s with visited := s.visited ++ [pc] } 0 = some s' at h
    rw [h]
    exact hx
  | @jumpdest pc s hpc hb =>
    have hpc' : ¬ pc ≥ code.size := by omega
    show x ∈ EVM.explore {} code data (fuel + 1) pc s
    simp only [EVM.explore, hpc', if_false, hb]
    simp only [Nat.reduceBEq, Bool.false_eq_true, if_false, if_true]
    exact hx
  | @jump pc s t r hpc hb hs hv =>
    have hpc' : ¬ pc ≥ code.size := by omega
    show x ∈ EVM.explore {} code data (fuel + 1) pc s
    simp only [EVM.explore, hpc', if_false, hb]
    simp only [Nat.reduceBEq, Nat.reduceLeDiff, Bool.false_eq_true, if_false, if_true,
      decide_true, decide_false, Bool.false_and, hs, hv]
    exact hx
  | @jumpiTaken pc s t c r hpc hb hs hv =>
    have hpc' : ¬ pc ≥ code.size := by omega
    show x ∈ EVM.explore {} code data (fuel + 1) pc s
    simp only [EVM.explore, hpc', if_false, hb]
    simp only [Nat.reduceBEq, Nat.reduceLeDiff, Bool.false_eq_true, if_false, if_true,
      decide_true, decide_false, Bool.false_and, hs, hv]
    exact List.mem_append_left _ hx
  | @jumpiFall pc s t c r hpc hb hs =>
    have hpc' : ¬ pc ≥ code.size := by omega
    show x ∈ EVM.explore {} code data (fuel + 1) pc s
    simp only [EVM.explore, hpc', if_false, hb]
    simp only [Nat.reduceBEq, Nat.reduceLeDiff, Bool.false_eq_true, if_false, if_true,
      decide_true, decide_false, Bool.false_and, hs]
    exact List.mem_append_right _ hx

/-- `explore_sound_for_RStep`: whatever `EVM.explore {}` reports from a configuration that `RStep`
reaches from `(0, {})`, it reports from `(0, {})` itself given enough fuel: the paths of `RStep`
are paths of the reference explorer. -/
theorem explore_sound_for_RStep {code : Array Nat} {data : List Nat}
    (hbytes : ∀ i, i < code.size → code[i]! < 256) {c : Conf} (h : RReach code data c) :
    ∀ fuel, ∀ x ∈ EVM.explore {} code data fuel c.1 c.2,
      ∃ fuel', x ∈ EVM.explore {} code data fuel' 0 {} := by
  induction h with
  | init => exact fun fuel x hx => ⟨fuel, hx⟩
  | step _ hs ih => exact fun fuel x hx => ih (fuel + 1) x (explore_RStep hbytes hs fuel x hx)

/-! ## 2. the program -/

/-- the byte string, its instruction stream, and the reference machine's view of it -/
structure Prog (bytes : List Nat) (code : List Instr) : Prop where
  lt256 : ∀ b ∈ bytes, b < 256
  len : bytes.length < 2 ^ 32
  dis : Disasm.disasm bytes = .ok code

/-- the reference machine's code array -/
abbrev arr (bytes : List Nat) : Array Nat := bytes.toArray
/-- the reference machine's push-data offsets, as `EVM.paths` computes them -/
abbrev dat (bytes : List Nat) : List Nat := EVM.pushData bytes.toArray (bytes.length + 1) 0 []

section prog
variable {bytes : List Nat} {code : List Instr}

theorem Prog.ne_nil (H : Prog bytes code) : bytes ≠ [] := by
  intro h
  have := H.dis
  rw [h] at this
  simp [Disasm.disasm] at this

theorem Prog.code_eq (H : Prog bytes code) : code = Disasm.spec bytes := by
  have h := H.dis
  rw [Disasm.disasm_eq_full _ H.ne_nil (by have := H.len; omega), Disasm.full_idle_spec] at h
  cases h; rfl

theorem Prog.length_eq (H : Prog bytes code) : code.length = bytes.length := by
  rw [H.code_eq]; exact Disasm.spec_length _ _ (Nat.le_refl _)

theorem Prog.opAt (H : Prog bytes code) {i b : Nat} (h : code[i]? = some (.op b)) :
    OpAt bytes code i b := by
  have e := H.code_eq
  subst e
  exact ((spec_struct _ bytes (Nat.le_refl _) i).1 b h)

theorem Prog.pushAt (H : Prog bytes code) {i n : Nat} {dta : List Nat}
    (h : code[i]? = some (.push n dta)) : PushAt bytes code i n dta := by
  have e := H.code_eq
  subst e
  exact ((spec_struct _ bytes (Nat.le_refl _) i).2 n dta h)

theorem Prog.notNop_zero (H : Prog bytes code) : NotNop code 0 := by
  rw [H.code_eq]; exact spec_head_notNop _

theorem Prog.validDest_iff (H : Prog bytes code) (t : Nat) :
    EVM.validDest (arr bytes) (dat bytes) t = true ↔ code[t]? = some (.op 0x5b) :=
  validDest_iff_stream_jumpdest_nat bytes code H.lt256 H.ne_nil H.len H.dis t

theorem arr_get {i b : Nat} (h : bytes[i]? = some b) : (arr bytes)[i]! = b := by
  obtain ⟨hlt, rfl⟩ := List.getElem?_eq_some_iff.mp h
  simp [arr, hlt]

theorem lt_of_get {i b : Nat} (h : bytes[i]? = some b) : i < (arr bytes).size := by
  obtain ⟨hlt, _⟩ := List.getElem?_eq_some_iff.mp h
  simpa [arr] using hlt

theorem decode_op {i b : Nat} (h : OpAt bytes code i b) :
    decode (arr bytes) i = .op b ∧ nextPc (arr bytes) i = i + 1 ∧ (arr bytes)[i]! = b ∧
      i < (arr bytes).size := by
  have hb := arr_get h.byte
  have hnp : ¬ (0x60 ≤ b ∧ b ≤ 0x7f) := by
    have := h.notPush
    unfold Disasm.isPush at this
    simpa using this
  refine ⟨?_, ?_, hb, lt_of_get h.byte⟩
  · unfold decode; rw [hb, if_neg hnp]
  · unfold nextPc; rw [hb, if_neg hnp]

theorem pushBytes_eq {i n : Nat} (h : i + n < bytes.length) :
    pushBytes (arr bytes) i n = (bytes.drop (i + 1)).take n := by
  unfold pushBytes
  apply List.ext_getElem
  · simp; omega
  · intro k h1 h2
    simp at h1
    have : i + 1 + k < bytes.length := by omega
    simp [this]

theorem decode_push {i n : Nat} {dta : List Nat} (h : PushAt bytes code i n dta) :
    decode (arr bytes) i = .push n dta ∧ nextPc (arr bytes) i = i + 1 + n ∧
      i < (arr bytes).size := by
  have hb := arr_get h.byte
  have hp : 0x60 ≤ 0x5f + n ∧ 0x5f + n ≤ 0x7f := by have := h.pos; omega
  have hn : 0x5f + n - 0x5f = n := by omega
  refine ⟨?_, ?_, lt_of_get h.byte⟩
  · unfold decode; rw [hb, if_pos hp, hn, pushBytes_eq h.fits, h.data]
  · unfold nextPc; rw [hb, if_pos hp, hn]

end prog

/-! ## 3. what one instruction leaves behind -/

/-- the reference state with the top `k` stack entries removed -/
def dropK (k : Nat) (s : EVM.CS) : EVM.CS := { s with stack := s.stack.drop k }

/-- the relation of a thread that has ended: storage and memory agree with the reference state,
the stack agrees with what is left of the reference stack after the operands the last instruction
consumed (the reference machine does not pop when it halts or fails) -/
def Weak (d : TData) (s : EVM.CS) : Prop := ∃ k, Rel d (dropK k s)

theorem LRel_drop : ∀ {vs : List SV} {ns : List Nat} (k : Nat), LRel vs ns →
    LRel (vs.drop k) (ns.drop k)
  | _, _, 0, h => by simpa using h
  | [], [], _ + 1, _ => by simp
  | _ :: vs, _ :: ns, k + 1, h => by simpa using LRel_drop (vs := vs) (ns := ns) k h.2
  | [], _ :: _, _ + 1, h => by simp at h
  | _ :: _, [], _ + 1, h => by simp at h

/-- `d'` is `d` with some stack entries popped; storage unchanged; memory reads the same -/
def Shrunk (d d' : TData) : Prop :=
  ∃ k, d'.stack = d.stack.drop k ∧ d'.stK = d.stK ∧ ∀ k', cellVal d'.memC k' = cellVal d.memC k'

theorem Shrunk.rfl' (d : TData) : Shrunk d d := ⟨0, by simp, rfl, fun _ => rfl⟩

theorem Shrunk.trans' {a b c : TData} (h1 : Shrunk a b) (h2 : Shrunk b c) : Shrunk a c := by
  obtain ⟨k1, s1, t1, m1⟩ := h1
  obtain ⟨k2, s2, t2, m2⟩ := h2
  refine ⟨k1 + k2, ?_, by rw [t2, t1], fun k' => by rw [m2, m1]⟩
  rw [s2, s1, List.drop_drop]

theorem Shrunk.record {a b : TData} (h : Shrunk a b) (v : SV) : Shrunk a (record b v) := h

theorem Shrunk.rel {d d' : TData} {s : EVM.CS} (hR : Rel d s) (h : Shrunk d d') : Weak d' s := by
  obtain ⟨k, hs, ht, hm⟩ := h
  obtain ⟨hlen, hst, hsto, hmem⟩ := hR
  refine ⟨k, ?_, ?_, ?_, ?_⟩
  · rw [hs, List.length_drop]; omega
  · rw [hs]; exact LRel_drop k hst
  · rw [ht]; exact hsto
  · intro k'; rw [hm]; exact hmem k'

theorem Rel.weak {d : TData} {s : EVM.CS} (h : Rel d s) : Weak d s := ⟨0, by simpa [dropK] using h⟩

theorem pop_shrunk {d d' : TData} {v : SV} (h : pop d = .ok (v, d')) : Shrunk d d' := by
  unfold pop at h
  split at h
  · cases h
  · rename_i v' r hs
    cases h
    exact ⟨1, by simp [hs], rfl, fun _ => rfl⟩

theorem popN_shrunk : ∀ (n : Nat) (d : TData) (acc : List SV),
    (∀ e d', popN n d acc = .error (e, d') → Shrunk d d') ∧
    (∀ args d', popN n d acc = .ok (args, d') → Shrunk d d')
  | 0, d, acc => by
    constructor
    · intro e d' h; simp [popN] at h
    · intro args d' h
      simp only [popN, Except.ok.injEq, Prod.mk.injEq] at h
      rw [← h.2]; exact Shrunk.rfl' d
  | n + 1, d, acc => by
    cases hp : pop d with
    | error e =>
      constructor
      · intro e' d' h
        simp only [popN, hp, Except.error.injEq, Prod.mk.injEq] at h
        rw [← h.2]; exact Shrunk.rfl' d
      · intro args d' h; simp [popN, hp] at h
    | ok p =>
      obtain ⟨v, d1⟩ := p
      have h1 := pop_shrunk hp
      have ih := popN_shrunk n d1 (v :: acc)
      constructor
      · intro e d' h
        simp only [popN, hp] at h
        exact h1.trans' (ih.1 e d' h)
      · intro args d' h
        simp only [popN, hp] at h
        exact h1.trans' (ih.2 args d' h)

/-- the output of an instruction that does not halt: it never kills the thread, and if it fails
it leaves a shrunk state behind -/
def Fine (d : TData) (o : OpOut) : Prop := o.kill = false ∧ ∀ e, o.err = some e → Shrunk d o.d

theorem fine_fail {d d' : TData} (h : Shrunk d d') (ctr : Nat) (e : XErr) : Fine d (fail d' ctr e) :=
  ⟨rfl, fun _ _ => h⟩

theorem fine_pushOut {d d1 : TData} (h : Shrunk d d1) (ctr : Nat) (v : SV) :
    Fine d (pushOut d1 ctr v) := by
  rw [pushOut_eq]
  split
  · exact fine_fail h _ _
  · exact ⟨rfl, fun e he => by cases he⟩

theorem fine_ok (d d' : TData) (ctr : Nat) : Fine d { d := d', ctr := ctr } :=
  ⟨rfl, fun e he => by cases he⟩

theorem fine_tplStep (c : Ctx) (d : TData) (ctr n : Nat) (tpl : SV) :
    Fine d (tplStep c d ctr (some (n, tpl))) := by
  simp only [tplStep]
  cases hp : popN n d [] with
  | error p =>
    obtain ⟨e, d'⟩ := p
    exact fine_fail ((popN_shrunk n d []).1 e d' hp) _ _
  | ok p =>
    obtain ⟨args, d1⟩ := p
    exact fine_pushOut ((popN_shrunk n d []).2 args d1 hp) _ _

theorem t5f : templateOf 0x5f = some (0, .node .knownData [0] [] 0) := by tpl_eval

theorem execOp_push0 (c : Ctx) (code : List Instr) (d : TData) (ctr : Nat) :
    execOp c code (.op 0x5f) d ctr = pushOut d (ctr + 1) (buildKnown c ctr 0#256).1 := by
  have : execOp c code (.op 0x5f) d ctr = tplStep c d ctr (templateOf 0x5f) := rfl
  rw [this, t5f]
  simp [tplStep, popN, instantiate, instantiate.go, buildKnown, build]

theorem memLoad_shrunk (d : TData) (off : SV) : Shrunk d (memLoad d off).2 := by
  unfold memLoad
  dsimp only
  split
  · obtain ⟨_, h2, h3, h4⟩ := memGetC_rel d (asUsize ‹Word›)
    exact ⟨0, by simpa using h2, h3, h4⟩
  · unfold memGetS
    split
    · exact Shrunk.rfl' d
    · exact ⟨0, by simp, rfl, fun _ => rfl⟩

theorem stLoad_stack (d : TData) (key : SV) : (stLoad d key).2.stack = d.stack := by
  unfold stLoad
  dsimp only
  split
  · rfl
  · split <;> rfl

/-- the data instructions of the simulation -/
def DataOp (b : Nat) : Prop := (0x80 ≤ b ∧ b ≤ 0x9f) ∨ b ∈ scopeOps

def DataIns : Instr → Prop
  | .push _ _ => True
  | .op b => DataOp b
  | _ => False

theorem scopeOps_tpl {b : Nat} (hb : b ∈ aluOk ∨ b = 0x15 ∨ b = 0x19) :
    ∃ n tpl, templateOf b = some (n, tpl) := by
  rcases hb with hb | hb | hb
  · obtain ⟨tpl, h⟩ := aluOk_template b hb; exact ⟨_, _, h⟩
  · subst hb; exact ⟨_, _, t15⟩
  · subst hb; exact ⟨_, _, t19⟩

theorem scopeOps_cases {b : Nat} (h : b ∈ scopeOps) :
    b = 0x50 ∨ b = 0x58 ∨ b = 0x38 ∨ (b = 0x15 ∨ b = 0x19) ∨ b = 0x51 ∨ b = 0x52 ∨ b = 0x54 ∨
      b = 0x55 ∨ b ∈ aluOk := by
  simp only [scopeOps, List.mem_append, List.mem_cons, List.not_mem_nil, or_false] at h
  rcases h with (h | h | h | h | h | h | h | h | h) | h
  all_goals simp [h]

theorem fine_popN2 (d : TData) (ctr : Nat) (f : SV → SV → TData → TData) :
    Fine d (match popN 2 d [] with
       | .error (e, d') => fail d' ctr e
       | .ok ([a, b], d1) => { d := f a b d1, ctr := ctr }
       | .ok (_, d1) => fail d1 ctr .noSuchStackFrame) := by
  split
  · rename_i e d' hp
    exact fine_fail ((popN_shrunk 2 d []).1 e d' hp) _ _
  · exact fine_ok _ _ _
  · rename_i args d1 _ hp
    exact fine_fail ((popN_shrunk 2 d []).2 _ d1 hp) _ _

theorem data_fine (c : Ctx) (code : List Instr) (ins : Instr) (d : TData) (ctr : Nat)
    (hD : DataIns ins ∨ ins = .op 0x5f) (hlen : d.stack.length ≤ 1024) :
    Fine d (execOp c code ins d ctr) := by
  by_cases h5f : ins = .op 0x5f
  · subst h5f; rw [execOp_push0]; exact fine_pushOut (Shrunk.rfl' d) _ _
  have hD : DataIns ins := hD.resolve_right h5f
  cases ins with
  | nop => exact hD.elim
  | invalid b => exact hD.elim
  | push n dta => rw [execOp_push]; exact fine_pushOut (Shrunk.rfl' d) _ _
  | op b =>
    rcases hD with hb | hb
    · by_cases h8 : b ≤ 0x8f
      · rw [execOp_dup' c code b d ctr ⟨hb.1, h8⟩]
        split
        · exact fine_pushOut (Shrunk.rfl' d) _ _
        · exact fine_fail (Shrunk.rfl' d) _ _
      · rw [execOp_swap c code b d ctr ⟨by omega, hb.2⟩]
        split
        · exact fine_ok _ _ _
        · exact fine_fail (Shrunk.rfl' d) _ _
    · rcases scopeOps_cases hb with rfl | rfl | rfl | h | rfl | rfl | rfl | rfl | h
      · rw [execOp_pop]
        split
        · exact fine_ok _ _ _
        · exact fine_fail (Shrunk.rfl' d) _ _
      · rw [execOp_pc]; exact fine_pushOut (Shrunk.rfl' d) _ _
      · rw [execOp_codesize]; exact fine_pushOut (Shrunk.rfl' d) _ _
      · obtain ⟨n, tpl, ht⟩ := scopeOps_tpl (Or.inr h)
        rw [execOp_tpl c code b d ctr (Or.inr h), ht]; exact fine_tplStep ..
      · cases hs : d.stack with
        | nil => rw [execOp_mload_nil c code d ctr hs]; exact fine_fail (Shrunk.rfl' d) _ _
        | cons off rest =>
          rw [execOp_mload_ok c code d ctr off rest hs]
          refine fine_pushOut (Shrunk.trans' ?_ (memLoad_shrunk _ off)) _ _
          exact ⟨1, by simp [hs], rfl, fun _ => rfl⟩
      · rw [execOp_mstore_eq]; exact fine_popN2 d ctr (fun a b d1 => memStore d1 a b true)
      · cases hs : d.stack with
        | nil => rw [execOp_sload_nil c code d ctr hs]; exact fine_fail (Shrunk.rfl' d) _ _
        | cons key rest =>
          rw [execOp_sload_ok c code d ctr key rest hs]
          have hl : (stLoad { d with stack := rest } key).2.stack.length + 1 ≤ 1024 := by
            rw [stLoad_stack]; simp only []; rw [hs] at hlen; simpa using hlen
          split
          · rw [pushOut_ok _ _ _ hl]; exact fine_ok _ _ _
          · rw [pushOut_ok _ _ _ hl]; exact fine_ok _ _ _
      · rw [EvmSim.execOp_sstore_eq]; exact fine_popN2 d ctr (fun a b d1 => stStore d1 a b)
      · obtain ⟨n, tpl, ht⟩ := scopeOps_tpl (Or.inl h)
        rw [execOp_tpl c code b d ctr (Or.inl h), ht]; exact fine_tplStep ..

/-! ## 3b. constant folding against the reference evaluation

`fold_agree`: on a tree all of whose literals are 256-bit words, the constant the tool's
`constant_fold` produces is the value `EvalC.evalSV` (reference EVM operators over the naturals)
assigns to the tree — for all 19 binary and 2 unary foldable operators. -/

namespace Bridge
open SLE.WordLemmas

theorem W_eq : EVM.W = 2 ^ 256 := rfl

theorem k_add (a b : Word) : (Known.add a b).toNat = EVM.add a.toNat b.toNat := by
  simp [Known.add, EVM.add, EVM.W, BitVec.toNat_add]

theorem k_mul (a b : Word) : (Known.mul a b).toNat = EVM.mul a.toNat b.toNat := by
  simp [Known.mul, EVM.mul, EVM.W, BitVec.toNat_mul]

theorem k_sub (a b : Word) : (Known.sub a b).toNat = EVM.sub a.toNat b.toNat := by
  have ha := a.isLt
  have hb := b.isLt
  simp only [Known.sub, EVM.sub, EVM.W, BitVec.toNat_sub]
  congr 1
  omega

theorem k_div (a b : Word) : (Known.div a b).toNat = EVM.div a.toNat b.toNat := by
  rw [div_eq]
  unfold Spec.div EVM.div
  split
  · rfl
  · rw [BitVec.toNat_ofNat]
    apply Nat.mod_eq_of_lt
    exact Nat.lt_of_le_of_lt (Nat.div_le_self _ _) a.isLt

theorem k_rem (a b : Word) : (Known.rem a b).toNat = EVM.mod a.toNat b.toNat := by
  rw [rem_eq]
  unfold Spec.mod EVM.mod
  split
  · rfl
  · rw [BitVec.toNat_ofNat]
    apply Nat.mod_eq_of_lt
    exact Nat.lt_of_le_of_lt (Nat.mod_le _ _) a.isLt

theorem toInt_eq (a : Word) : a.toInt = EVM.toInt a.toNat := by
  have ha := a.isLt
  rw [BitVec.toInt_eq_toNat_cond]
  unfold EVM.toInt EVM.W
  split <;> split <;> first | rfl | omega | (simp; omega)

theorem ofInt_eq (i : Int) : (BitVec.ofInt 256 i).toNat = EVM.ofInt i := by
  rw [BitVec.toNat_ofInt]; rfl

theorem toInt_zero_iff (b : Word) : b.toInt = 0 ↔ b.toNat = 0 := by
  have hb := b.isLt
  rw [BitVec.toInt_eq_toNat_cond]
  split <;> omega

theorem k_sdiv (a b : Word) : (Known.signedDiv a b).toNat = EVM.sdiv a.toNat b.toNat := by
  unfold Known.signedDiv EVM.sdiv
  by_cases h : b.toNat = 0
  · rw [if_pos ((toInt_zero_iff b).mpr h), if_pos h]; rfl
  · rw [if_neg (fun h' => h ((toInt_zero_iff b).mp h')), if_neg h, ofInt_eq, toInt_eq, toInt_eq]

theorem k_smod (a b : Word) : (Known.signedRem a b).toNat = EVM.smod a.toNat b.toNat := by
  unfold Known.signedRem EVM.smod
  by_cases h : b.toNat = 0
  · rw [if_pos ((toInt_zero_iff b).mpr h), if_pos h]; rfl
  · rw [if_neg (fun h' => h ((toInt_zero_iff b).mp h')), if_neg h, ofInt_eq, toInt_eq, toInt_eq]

theorem ofBool_toNat (c : Bool) : (Word.ofBool c).toNat = EVM.ofBool c := by
  cases c <;> rfl

theorem k_lt (a b : Word) : (Known.lt a b).toNat = EVM.lt a.toNat b.toNat := ofBool_toNat _
theorem k_gt (a b : Word) : (Known.gt a b).toNat = EVM.gt a.toNat b.toNat := ofBool_toNat _
theorem k_slt (a b : Word) : (Known.signedLt a b).toNat = EVM.slt a.toNat b.toNat := by
  unfold Known.signedLt EVM.slt; rw [ofBool_toNat, toInt_eq, toInt_eq]
theorem k_sgt (a b : Word) : (Known.signedGt a b).toNat = EVM.sgt a.toNat b.toNat := by
  unfold Known.signedGt EVM.sgt; rw [ofBool_toNat, toInt_eq, toInt_eq]
theorem k_eq (a b : Word) : (Known.eq a b).toNat = EVM.eq a.toNat b.toNat := by
  unfold Known.eq EVM.eq; rw [ofBool_toNat]
  congr 1
  by_cases h : a = b
  · subst h; simp
  · have : a.toNat ≠ b.toNat := fun h' => h (BitVec.eq_of_toNat_eq h')
    simp [h, this]
theorem k_isZero (a : Word) : (Known.isZero a).toNat = EVM.iszero a.toNat := by
  unfold Known.isZero EVM.iszero; rw [ofBool_toNat]
  congr 1
  by_cases h : a = 0#256
  · subst h; simp
  · have : a.toNat ≠ 0 := fun h' => h (BitVec.eq_of_toNat_eq h')
    simp [h, this]
theorem k_and (a b : Word) : (Known.and a b).toNat = EVM.and a.toNat b.toNat := by
  simp [Known.and, EVM.and]
theorem k_or (a b : Word) : (Known.or a b).toNat = EVM.or a.toNat b.toNat := by
  simp [Known.or, EVM.or]
theorem k_xor (a b : Word) : (Known.xor a b).toNat = EVM.xor a.toNat b.toNat := by
  simp [Known.xor, EVM.xor]
theorem k_not (a : Word) : (Known.not a).toNat = EVM.not a.toNat := by
  rw [not_eq]
  have ha := a.isLt
  unfold Spec.not EVM.not EVM.W
  rw [BitVec.toNat_ofNat]
  apply Nat.mod_eq_of_lt
  omega
theorem k_shl (s v : Word) : (Known.shl s v).toNat = EVM.shl s.toNat v.toNat := by
  rw [shl_eq]
  unfold Spec.shl EVM.shl EVM.W
  split
  · rw [BitVec.toNat_ofNat]
  · rfl
theorem k_shr (s v : Word) : (Known.shr s v).toNat = EVM.shr s.toNat v.toNat := by
  rw [shr_eq]
  unfold Spec.shr EVM.shr
  split
  · rw [BitVec.toNat_ofNat]
    apply Nat.mod_eq_of_lt
    exact Nat.lt_of_le_of_lt (Nat.div_le_self _ _) v.isLt
  · rfl

theorem powMod_lt : ∀ (fuel acc base e : Nat), acc < EVM.W → EVM.powMod fuel acc base e < EVM.W
  | 0, _, _, _, h => by simpa [EVM.powMod] using h
  | fuel + 1, acc, base, e, h => by
    unfold EVM.powMod
    split
    · exact h
    · apply powMod_lt
      split
      · exact Nat.mod_lt _ (by decide)
      · exact h

theorem mul_pow_mod (a b c W : Nat) : a * (b % W) ^ c % W = a * b ^ c % W := by
  rw [Nat.mul_mod, ← Nat.pow_mod, ← Nat.mul_mod]

theorem pow_odd (acc base e : Nat) (h : e % 2 = 1) :
    acc * base * (base * base) ^ (e / 2) = acc * base ^ e := by
  have he : e = 2 * (e / 2) + 1 := by omega
  conv => rhs; rw [he]
  rw [Nat.pow_succ, Nat.pow_mul, Nat.pow_two, Nat.mul_assoc, Nat.mul_comm base]

theorem pow_even (base e : Nat) (h : ¬ e % 2 = 1) : (base * base) ^ (e / 2) = base ^ e := by
  have he : e = 2 * (e / 2) := by omega
  conv => rhs; rw [he]
  rw [Nat.pow_mul, Nat.pow_two]

theorem powMod_eq : ∀ (fuel acc base e : Nat), e < 2 ^ fuel →
    EVM.powMod fuel acc base e % EVM.W = (acc * base ^ e) % EVM.W
  | 0, acc, base, e, h => by
    have : e = 0 := by simpa using h
    subst this; simp [EVM.powMod]
  | fuel + 1, acc, base, e, h => by
    unfold EVM.powMod
    split
    · rename_i he; subst he; simp
    · have he2 : e / 2 < 2 ^ fuel := by
        rw [Nat.pow_succ] at h; omega
      rw [powMod_eq fuel _ _ _ he2, mul_pow_mod]
      split
      · rename_i hodd
        rw [Nat.mul_mod, Nat.mod_mod, ← Nat.mul_mod, pow_odd acc base e hodd]
      · rename_i heven
        rw [pow_even base e heven]

theorem k_exp (a b : Word) : (Known.exp a b).toNat = EVM.exp a.toNat b.toNat := by
  rw [exp_eq]
  unfold Spec.exp EVM.exp
  rw [BitVec.toNat_ofNat]
  have h1 := powMod_lt 256 1 a.toNat b.toNat (by decide)
  have h2 := powMod_eq 256 1 a.toNat b.toNat b.isLt
  rw [Nat.mod_eq_of_lt h1, Nat.one_mul] at h2
  rw [h2]; rfl

theorem k_sar (s v : Word) : (Known.sar s v).toNat = EVM.sar s.toNat v.toNat := by
  rw [sar_eq]
  have hv := v.isLt
  have hti := toInt_eq v
  have hcond := BitVec.toInt_eq_toNat_cond v
  unfold Spec.sar EVM.sar
  by_cases hpos : v.toNat < 2 ^ 255
  · rw [if_pos (by omega)] at hcond
    rw [if_pos hpos]
    by_cases hs : s.toNat < 256
    · rw [if_pos hs, if_pos hs, ofInt_eq, hcond]
      unfold EVM.ofInt EVM.W
      have : ((v.toNat : Int) / (2 : Int) ^ s.toNat) = ((v.toNat / 2 ^ s.toNat : Nat) : Int) := by
        norm_cast
      rw [this]
      have hle : v.toNat / 2 ^ s.toNat ≤ v.toNat := Nat.div_le_self _ _
      generalize v.toNat / 2 ^ s.toNat = q at hle ⊢
      omega
    · rw [if_neg hs, if_neg hs, if_neg (by omega)]
      rfl
  · rw [if_neg (by omega)] at hcond
    rw [if_neg hpos]
    by_cases hs : s.toNat < 256
    · rw [if_pos hs, if_pos hs, ofInt_eq, hti]
      congr 1
      rw [Int.fdiv_eq_ediv_of_nonneg _ (by exact Int.natCast_nonneg _)]
      congr 1
    · rw [if_neg hs, if_neg hs, if_pos (by omega)]
      rfl

/-! ### constant folding agrees with the reference evaluation on well-formed trees -/

mutual
/-- every literal of the tree is a 256-bit word -/
def LitOK : SV → Prop
  | .node k attrs ks _ => (k = .knownData → ∀ w r, attrs = w :: r → w < 2 ^ 256) ∧ LitOKs ks
def LitOKs : List SV → Prop
  | [] => True
  | k :: ks => LitOK k ∧ LitOKs ks
end

theorem foldList_eq_map : ∀ ks : List SV, foldList ks = ks.map fold
  | [] => by simp [foldList]
  | k :: ks => by simp [foldList, foldList_eq_map ks]

theorem asWord_mkKnown (w : Word) : asWord (mkKnown w) = some w := by
  simp [asWord, mkKnown]

theorem asWord_rebuild {k : Kind} {a : List Nat} {ks : List SV} {w : Word}
    (h : asWord (rebuild k a ks) = some w) : k = .knownData ∧ ∃ w0 r, a = w0 :: r ∧ w = BitVec.ofNat 256 w0 := by
  unfold rebuild asWord at h
  split at h
  · rename_i k' w0 r ks' sz heq
    cases heq
    cases h
    exact ⟨rfl, w0, r, rfl, rfl⟩
  · cases h

theorem knownBin_sound {k : Kind} {f : Word → Word → Word} (hf : knownBin k = some f) (x y : Word)
    (a : List Nat) (p q : SV) (sz : Nat) (hp : evalSV p = some x.toNat) (hq : evalSV q = some y.toNat) :
    evalSV (.node k a [p, q] sz) = some (f x y).toNat := by
  have hl : evalList [p, q] = some [x.toNat, y.toNat] := by simp [EvalC.evalList, hp, hq]
  cases k <;> simp only [knownBin, Option.some.injEq, reduceCtorEq] at hf <;> subst hf <;>
    simp only [evalSV, hl]
  · rw [k_add]
  · rw [k_mul]
  · rw [k_sub]
  · rw [k_div]
  · rw [k_sdiv]
  · rw [k_rem]
  · rw [k_smod]
  · rw [k_exp]
  · rw [k_lt]
  · rw [k_gt]
  · rw [k_slt]
  · rw [k_sgt]
  · rw [k_eq]
  · rw [k_and]
  · rw [k_or]
  · rw [k_xor]
  · rw [k_shl]
  · rw [k_shr]
  · rw [k_sar]

theorem knownUn_sound {k : Kind} {f : Word → Word} (hf : knownUn k = some f) (x : Word)
    (a : List Nat) (p : SV) (sz : Nat) (hp : evalSV p = some x.toNat) :
    evalSV (.node k a [p] sz) = some (f x).toNat := by
  have hl : evalList [p] = some [x.toNat] := by simp [EvalC.evalList, hp]
  cases k <;> simp only [knownUn, Option.some.injEq, reduceCtorEq] at hf <;> subst hf <;>
    simp only [evalSV, hl]
  · rw [k_isZero]
  · rw [k_not]

theorem knownBin_not_known' {k : Kind} {f : Word → Word → Word} (hf : knownBin k = some f) :
    k ≠ .knownData := by
  intro h; subst h; simp [knownBin] at hf

theorem knownUn_not_known' {k : Kind} {f : Word → Word} (hf : knownUn k = some f) :
    k ≠ .knownData := by
  intro h; subst h; simp [knownUn] at hf

mutual
theorem fold_agree : ∀ v : SV, LitOK v → ∀ w, asWord (fold v) = some w → evalSV v = some w.toNat
  | .node k attrs ks sz, hok, w, hw => by
    have hks := foldList_agree ks (by unfold LitOK at hok; exact hok.2)
    have hlit : k = .knownData → ∀ w0 r, attrs = w0 :: r → w0 < 2 ^ 256 := by
      unfold LitOK at hok; exact hok.1
    -- the case where folding rebuilds the node: it must be a literal
    have hreb : asWord (rebuild k attrs (foldList ks)) = some w →
        evalSV (.node k attrs ks sz) = some w.toNat := by
      intro h
      obtain ⟨rfl, w0, r, rfl, rfl⟩ := asWord_rebuild h
      rw [EvmSim.evalSV_known, BitVec.toNat_ofNat, Nat.mod_eq_of_lt (hlit rfl w0 r rfl)]
    unfold fold foldNode at hw
    rw [foldList_eq_map] at hw hreb
    cases hb : knownBin k with
    | some f =>
      rw [hb] at hw
      match ks, hks with
      | [p, q], hks =>
        simp only [List.map_cons, List.map_nil] at hw hreb
        cases hx : asWord (fold p) with
        | none => rw [hx] at hw; exact hreb hw
        | some x =>
          cases hy : asWord (fold q) with
          | none => rw [hx, hy] at hw; exact hreb hw
          | some y =>
            rw [hx, hy] at hw
            simp only [asWord_mkKnown, Option.some.injEq] at hw
            subst hw
            exact knownBin_sound hb x y attrs p q sz (hks 0 p rfl x hx) (hks 1 q rfl y hy)
      | [], _ =>
        simp only [List.map_nil] at hw hreb
        cases hu : knownUn k with
        | none => rw [hu] at hw; exact hreb hw
        | some g => rw [hu] at hw; exact hreb hw
      | [p], hks =>
        simp only [List.map_cons, List.map_nil] at hw hreb
        cases hu : knownUn k with
        | none => rw [hu] at hw; exact hreb hw
        | some g =>
          rw [hu] at hw
          simp only at hw
          cases hx : asWord (fold p) with
          | none => rw [hx] at hw; exact hreb hw
          | some x =>
            rw [hx] at hw
            simp only [asWord_mkKnown, Option.some.injEq] at hw
            subst hw
            exact knownUn_sound hu x attrs p sz (hks 0 p rfl x hx)
      | p :: q :: r :: rest, _ =>
        simp only [List.map_cons] at hw hreb
        cases hu : knownUn k with
        | none => rw [hu] at hw; exact hreb hw
        | some g => rw [hu] at hw; exact hreb hw
    | none =>
      rw [hb] at hw
      simp only at hw
      cases hu : knownUn k with
      | none => rw [hu] at hw; exact hreb hw
      | some g =>
        rw [hu] at hw
        match ks, hks with
        | [p], hks =>
          simp only [List.map_cons, List.map_nil] at hw hreb
          cases hx : asWord (fold p) with
          | none => rw [hx] at hw; exact hreb hw
          | some x =>
            rw [hx] at hw
            simp only [asWord_mkKnown, Option.some.injEq] at hw
            subst hw
            exact knownUn_sound hu x attrs p sz (hks 0 p rfl x hx)
        | [], _ => simp only [List.map_nil] at hw hreb; exact hreb hw
        | p :: q :: rest, _ => simp only [List.map_cons] at hw hreb; exact hreb hw
theorem foldList_agree : ∀ vs : List SV, LitOKs vs → ∀ (i : Nat) (v : SV), vs[i]? = some v →
    ∀ w, asWord (fold v) = some w → evalSV v = some w.toNat
  | [], _, i, v, h => by simp at h
  | x :: xs, hok, 0, v, h => by
    simp only [List.getElem?_cons_zero, Option.some.injEq] at h
    subst h
    exact fold_agree x (by unfold LitOKs at hok; exact hok.1)
  | x :: xs, hok, i + 1, v, h => by
    simp only [List.getElem?_cons_succ] at h
    exact foldList_agree xs (by unfold LitOKs at hok; exact hok.2) i v h
end

end Bridge

/-! ## 4. one instruction against the reference step -/

/-- from `a` a run of placeholders leads to `pc`, which is not a placeholder -/
def SledTo (code : List Instr) (a pc : Nat) : Prop :=
  a ≤ pc ∧ (∀ j, a ≤ j → j < pc → code[j]? = some .nop) ∧ NotNop code pc

theorem SledTo.here {code : List Instr} {a : Nat} (h : NotNop code a) : SledTo code a a :=
  ⟨Nat.le_refl _, fun j h1 h2 => by omega, h⟩

/-- the jump operand `k`: whenever the tool's constant folding resolves it to a constant, that
constant is the value the tree denotes -/
def TargetOK (k : SV) : Prop := ∀ w, VM.isKnown (fold k) = some w → evalSV k = some w.toNat

theorem targetOK_mkKnown (w : Word) : TargetOK (mkKnown w) := by
  intro w' h
  rw [fold_mkKnown] at h
  cases h
  exact evalSV_mkKnown w

/-- a well-formed operand (all literals below 2^256) satisfies `TargetOK` -/
theorem targetOK_of_litOK {k : SV} (h : Bridge.LitOK k) : TargetOK k :=
  fun w hw => Bridge.fold_agree k h w hw

/-- side conditions of one instruction: those of the data simulation (`EvmSim.Side`: literal
storage keys, literal memory offsets below 2^64) and `TargetOK` for the operand of JUMP/JUMPI -/
def SideT (ins : Instr) (d : TData) : Prop :=
  Side ins d ∧ ((ins = .op 0x56 ∨ ins = .op 0x57) → ∀ k r, d.stack = k :: r → TargetOK k)

section outcome
variable {bytes : List Nat} {code : List Instr}

/-- What the instruction at `ip` (output `o`, thread data `d` related to `cs` before) means on
the reference side. -/
structure Outcome (bytes : List Nat) (code : List Instr) (ip : Nat) (d : TData) (cs : EVM.CS)
    (o : OpOut) : Prop where
  err : ∀ e, o.err = some e → Weak o.d cs
  kill : o.err = none → o.kill = true → Weak o.d cs
  cont : o.err = none → o.kill = false → o.jumpTo = none →
    ∃ pc' cs', RStep (arr bytes) (dat bytes) (ip, cs) (pc', cs') ∧ Rel o.d cs' ∧
      SledTo code (ip + 1) pc'
  jump : ∀ t, o.err = none → o.jumpTo = some t →
    ∃ cs1, RStep (arr bytes) (dat bytes) (ip, cs) (t, cs1) ∧
      RStep (arr bytes) (dat bytes) (t, cs1) (t + 1, visit t cs1) ∧ Rel o.d (visit t cs1) ∧
      NotNop code (t + 1)
  fork : ∀ t, o.err = none → o.forkTo = some t →
    ∃ cs2, RStep (arr bytes) (dat bytes) (ip, cs) (t, cs2) ∧ Rel o.d cs2 ∧ NotNop code t

theorem Outcome.ofFine {ip : Nat} {d : TData} {cs : EVM.CS} {o : OpOut} (hR : Rel d cs)
    (hf : Fine d o) (hnc : NoCtl o)
    (hcont : o.err = none → ∃ pc' cs', RStep (arr bytes) (dat bytes) (ip, cs) (pc', cs') ∧
      Rel o.d cs' ∧ SledTo code (ip + 1) pc') : Outcome bytes code ip d cs o where
  err := fun e he => (hf.2 e he).rel hR
  kill := fun _ hk => by rw [hf.1] at hk; cases hk
  cont := fun he _ _ => hcont he
  jump := fun t _ hj => by rw [hnc.1] at hj; cases hj
  fork := fun t _ hj => by rw [hnc.2.1] at hj; cases hj

theorem Outcome.ofHalt {ip : Nat} {d : TData} {cs : EVM.CS} {o : OpOut} (hR : Rel d cs)
    (hsh : Shrunk d o.d) (hk : o.err = none → o.kill = true) (hj : o.jumpTo = none)
    (hf : o.forkTo = none) : Outcome bytes code ip d cs o where
  err := fun _ _ => hsh.rel hR
  kill := fun _ _ => hsh.rel hR
  cont := fun he hk' _ => by rw [hk he] at hk'; cases hk'
  jump := fun t _ hj' => by rw [hj] at hj'; cases hj'
  fork := fun t _ hf' => by rw [hf] at hf'; cases hf'

theorem rPush_supported (s : EVM.CS) (v : Nat) : rPush s v ≠ .unsupported := by
  unfold rPush; split <;> simp

theorem refStep_supported (pcv csz : Nat) (ins : Instr) (s : EVM.CS) (hD : DataIns ins) :
    refStep pcv csz ins s ≠ .unsupported := by
  cases ins with
  | nop => exact hD.elim
  | invalid b => exact hD.elim
  | push n dta => exact rPush_supported _ _
  | op b =>
    rcases hD with hb | hb
    · by_cases h8 : b ≤ 0x8f
      · rw [refStep_dup pcv csz b s ⟨hb.1, h8⟩]
        split
        · exact rPush_supported _ _
        · simp
      · rw [refStep_swap pcv csz b s ⟨by omega, hb.2⟩]
        split <;> simp
    · rcases scopeOps_cases hb with rfl | rfl | rfl | h | rfl | rfl | rfl | rfl | h
      · rw [refStep_pop pcv csz _ s rfl]; split <;> simp
      · rw [(refStep_stack_ops pcv csz s).2.2.2.2.1, ← rPush_eq]; exact rPush_supported _ _
      · rw [(refStep_stack_ops pcv csz s).2.2.2.2.2, ← rPush_eq]; exact rPush_supported _ _
      · rw [refStep_un pcv csz b s h]; split <;> simp
      · rw [refStep_mload pcv csz _ s rfl]; split <;> simp
      · rw [refStep_mstore pcv csz _ s rfl]; split <;> simp
      · rw [refStep_sload pcv csz _ s rfl]; split <;> simp
      · rw [refStep_sstore pcv csz _ s rfl]; split <;> simp
      · obtain ⟨f, hf⟩ := aluOk_binOp b h
        rw [refStep_bin pcv csz b s h, hf]
        dsimp only
        split <;> simp

theorem dataIns_ne_ctl {ins : Instr} (hD : DataIns ins) : ins ≠ .op 0x56 ∧ ins ≠ .op 0x57 := by
  constructor <;> intro h <;> subst h <;>
    simp [DataIns, DataOp, scopeOps, aluOk] at hD

theorem Prog.size_eq (H : Prog bytes code) : (arr bytes).size = code.length := by
  rw [H.length_eq]; simp [arr]

theorem Prog.mods (H : Prog bytes code) {ip : Nat} (hip : ip < code.length) :
    ip % 2 ^ 256 = ip ∧ code.length % 2 ^ 256 = (arr bytes).size := by
  have h1 := H.len
  have h2 := H.length_eq
  have h3 : (2 : Nat) ^ 32 < 2 ^ 256 := by decide
  rw [H.size_eq]
  exact ⟨Nat.mod_eq_of_lt (by omega), Nat.mod_eq_of_lt (by omega)⟩

/-- the data instructions: one `refStep`-step of the reference machine -/
theorem data_outcome (H : Prog bytes code) (cfg : Cfg) {ip : Nat} {ins : Instr}
    (hi : code[ip]? = some ins) (hD : DataIns ins) {d : TData} {cs : EVM.CS} (hR : Rel d cs)
    (hside : Side ins d) (ctr : Nat) :
    Outcome bytes code ip d cs (execOp ⟨cfg, ip, code.length⟩ code ins d ctr) := by
  have hip : ip < code.length := (List.getElem?_eq_some_iff.mp hi).1
  obtain ⟨h56, h57⟩ := dataIns_ne_ctl hD
  have hdec : decode (arr bytes) ip = ins ∧ SledTo code (ip + 1) (nextPc (arr bytes) ip) ∧
      ip < (arr bytes).size := by
    cases ins with
    | nop => exact hD.elim
    | invalid b => exact hD.elim
    | push n dta =>
      have hp := H.pushAt hi
      obtain ⟨h1, h2, h3⟩ := decode_push hp
      refine ⟨h1, ?_, h3⟩
      rw [h2]
      exact ⟨by omega, fun j ha hb => hp.nops j (by omega) (by omega),
        by have := hp.next; rwa [show ip + n + 1 = ip + 1 + n by omega] at this⟩
    | op b =>
      have hp := H.opAt hi
      obtain ⟨h1, h2, _, h3⟩ := decode_op hp
      refine ⟨h1, ?_, h3⟩
      rw [h2]; exact SledTo.here hp.next
  obtain ⟨hdec, hsl, hlt⟩ := hdec
  refine Outcome.ofFine hR (data_fine _ code ins d ctr (Or.inl hD) hR.1)
    (execOp_noCtl _ code ins d ctr h56 h57) (fun he => ?_)
  have hs := step_sim_partial ⟨cfg, ip, code.length⟩ code ins d ctr (visit ip cs) hR hside
  obtain ⟨e1, e2⟩ := H.mods hip
  simp only [e1, e2] at hs
  cases hr : refStep ip (arr bytes).size ins (visit ip cs) with
  | ok s' =>
    rw [hr] at hs
    simp only [StepSim] at hs
    exact ⟨_, s', RStep.data hlt (by rw [hdec]; exact hr), hs.2, hsl⟩
  | underflow => rw [hr] at hs; simp only [StepSim] at hs; rw [he] at hs; cases hs
  | overflow => rw [hr] at hs; simp only [StepSim] at hs; rw [he] at hs; cases hs
  | unsupported => exact absurd hr (refStep_supported _ _ ins _ hD)

/-- PUSH0 -/
theorem push0_outcome (H : Prog bytes code) (cfg : Cfg) {ip : Nat}
    (hi : code[ip]? = some (.op 0x5f)) {d : TData} {cs : EVM.CS} (hR : Rel d cs) (ctr : Nat) :
    Outcome bytes code ip d cs (execOp ⟨cfg, ip, code.length⟩ code (.op 0x5f) d ctr) := by
  have hp := H.opAt hi
  obtain ⟨_, _, hb, hlt⟩ := decode_op hp
  refine Outcome.ofFine hR (data_fine _ code _ d ctr (Or.inr rfl) hR.1)
    (execOp_noCtl _ code _ d ctr (by decide) (by decide)) (fun he => ?_)
  rw [execOp_push0] at he ⊢
  have hs := pushOut_step d (ctr + 1) (buildKnown ⟨cfg, ip, code.length⟩ ctr 0#256).1 (visit ip cs) 0
    hR (fun r hr => buildKnown_eval_sound _ _ _ _ hr)
  unfold rPush at hs
  cases hps : EVM.pushStack (visit ip cs) 0 with
  | none => rw [hps] at hs; simp only [StepSim] at hs; rw [he] at hs; cases hs
  | some s' =>
    rw [hps] at hs
    simp only [StepSim] at hs
    exact ⟨_, s', RStep.push0 hlt hb hps, hs.2, SledTo.here hp.next⟩

/-- JUMPDEST -/
theorem jumpdest_outcome (H : Prog bytes code) (cfg : Cfg) {ip : Nat}
    (hi : code[ip]? = some (.op 0x5b)) {d : TData} {cs : EVM.CS} (hR : Rel d cs) (ctr : Nat) :
    Outcome bytes code ip d cs (execOp ⟨cfg, ip, code.length⟩ code (.op 0x5b) d ctr) := by
  have hp := H.opAt hi
  obtain ⟨_, _, hb, hlt⟩ := decode_op hp
  have : execOp ⟨cfg, ip, code.length⟩ code (.op 0x5b) d ctr = { d := d, ctr := ctr } := rfl
  rw [this]
  exact Outcome.ofFine hR (fine_ok _ _ _) ⟨rfl, rfl, rfl⟩
    (fun _ => ⟨_, _, RStep.jumpdest hlt hb, hR, SledTo.here hp.next⟩)

/-! ### halting instructions -/

theorem memGetMany_shrunk : ∀ (ks : List Nat) (d : TData), Shrunk d (memGetMany d ks).2
  | [], d => Shrunk.rfl' d
  | k :: ks, d => by
    simp only [memGetMany]
    obtain ⟨_, h2, h3, h4⟩ := memGetC_rel d k
    have h1 : Shrunk d (memGetC d k).2 := ⟨0, by simpa using h2, h3, h4⟩
    exact h1.trans' (memGetMany_shrunk ks _)

theorem memLoadSlice_shrunk {c : Ctx} {d d' : TData} {off size v : SV}
    (h : memLoadSlice c d off size = .ok (v, d')) : Shrunk d d' := by
  unfold memLoadSlice at h
  dsimp only at h
  split at h
  · rename_i w _
    split at h
    · simp only [Except.ok.injEq, Prod.mk.injEq] at h
      rw [← h.2]; exact memGetMany_shrunk _ _
    · simp only [Except.ok.injEq] at h
      obtain ⟨_, h2, h3, h4⟩ := memGetC_rel d (asUsize w)
      rw [h] at h2 h3 h4
      exact ⟨0, by simpa using h2, h3, h4⟩
  · simp only [Except.ok.injEq] at h
    have : d' = (memGetS d (fold off)).2 := by rw [h]
    rw [this]
    unfold memGetS
    split
    · exact Shrunk.rfl' d
    · exact ⟨0, by simp, rfl, fun _ => rfl⟩

/-- the instructions that end a path: STOP, INVALID, RETURN, REVERT, SELFDESTRUCT, and the
stream's `invalid` entries (unassigned bytes, a PUSH cut short by the end of the code) -/
def HaltIns : Instr → Prop
  | .invalid _ => True
  | .op b => b = 0x00 ∨ b = 0xfe ∨ b = 0xf3 ∨ b = 0xfd ∨ b = 0xff
  | _ => False

theorem haltIns_ne_ctl {ins : Instr} (hD : HaltIns ins) : ins ≠ .op 0x56 ∧ ins ≠ .op 0x57 := by
  constructor <;> intro h <;> subst h <;> simp [HaltIns] at hD

theorem halt_shrunk (c : Ctx) (code : List Instr) (ins : Instr) (hH : HaltIns ins) (d : TData)
    (ctr : Nat) : Shrunk d (execOp c code ins d ctr).d := by
  cases ins with
  | nop => exact hH.elim
  | push n dta => exact hH.elim
  | invalid b => exact Shrunk.rfl' d
  | op b =>
    rcases hH with rfl | rfl | h | h | rfl
    · exact Shrunk.rfl' d
    · exact Shrunk.rfl' d
    · rw [execOp_ret_eq c code d ctr b (Or.inl h)]
      split
      · rename_i e d' hp; exact (popN_shrunk 2 d []).1 e d' hp
      · rename_i off size d1 hp
        have h1 := (popN_shrunk 2 d []).2 _ d1 hp
        split
        · exact h1
        · rename_i data d2 hm
          exact (h1.trans' (memLoadSlice_shrunk hm)).record _
      · rename_i args d1 _ hp; exact (popN_shrunk 2 d []).2 _ d1 hp
    · rw [execOp_ret_eq c code d ctr b (Or.inr h)]
      split
      · rename_i e d' hp; exact (popN_shrunk 2 d []).1 e d' hp
      · rename_i off size d1 hp
        have h1 := (popN_shrunk 2 d []).2 _ d1 hp
        split
        · exact h1
        · rename_i data d2 hm
          exact (h1.trans' (memLoadSlice_shrunk hm)).record _
      · rename_i args d1 _ hp; exact (popN_shrunk 2 d []).2 _ d1 hp
    · rw [execOp_selfdestruct_eq]
      split
      · exact Shrunk.rfl' d
      · rename_i target d1 hp
        exact (pop_shrunk hp).record _

theorem halt_kills (c : Ctx) (code : List Instr) (ins : Instr) (hH : HaltIns ins) (d : TData)
    (ctr : Nat) (he : (execOp c code ins d ctr).err = none) :
    (execOp c code ins d ctr).kill = true := by
  cases ins with
  | nop => exact hH.elim
  | push n dta => exact hH.elim
  | invalid b => rfl
  | op b =>
    rcases hH with rfl | rfl | h | h | h
    · rfl
    · rfl
    · exact kill_ops_halt c code d ctr b (Or.inl h) he
    · exact kill_ops_halt c code d ctr b (Or.inr (Or.inl h)) he
    · exact kill_ops_halt c code d ctr b (Or.inr (Or.inr h)) he

/-- P1, halting instructions: the symbolic thread ends (no continuation, no transfer, no fork),
and what it leaves behind is the reference state up to the operands popped -/
theorem halt_outcome (cfg : Cfg) {ip : Nat} {ins : Instr} (hH : HaltIns ins) {d : TData}
    {cs : EVM.CS} (hR : Rel d cs) (ctr : Nat) :
    Outcome bytes code ip d cs (execOp ⟨cfg, ip, code.length⟩ code ins d ctr) := by
  obtain ⟨h56, h57⟩ := haltIns_ne_ctl hH
  have hnc := execOp_noCtl ⟨cfg, ip, code.length⟩ code ins d ctr h56 h57
  exact Outcome.ofHalt hR (halt_shrunk _ code ins hH d ctr) (halt_kills _ code ins hH d ctr)
    hnc.1 hnc.2.1

/-- … and the reference machine has no successor at a halting opcode either -/
theorem halt_no_RStep (H : Prog bytes code) {ip b : Nat} (hi : code[ip]? = some (.op b))
    (hb : b = 0x00 ∨ b = 0xfe ∨ b = 0xf3 ∨ b = 0xfd ∨ b = 0xff) (cs : EVM.CS) (c' : Conf) :
    ¬ RStep (arr bytes) (dat bytes) (ip, cs) c' := by
  have hp := H.opAt hi
  obtain ⟨hdec, _, hbyte, _⟩ := decode_op hp
  intro hs
  cases hs with
  | data hpc h =>
    rw [hdec] at h
    rcases hb with rfl | rfl | rfl | rfl | rfl <;> simp [refStep, aluOk] at h
  | push0 hpc hb' h => rw [hbyte] at hb'; omega
  | jumpdest hpc hb' => rw [hbyte] at hb'; omega
  | jump hpc hb' => rw [hbyte] at hb'; omega
  | jumpiTaken hpc hb' => rw [hbyte] at hb'; omega
  | jumpiFall hpc hb' => rw [hbyte] at hb'; omega

/-! ### JUMP and JUMPI -/

theorem target_valid (H : Prog bytes code) {counter : SV} {t t' : Nat}
    (hv : validateJump code counter = .ok t) (hT : TargetOK counter) (hV : VRel counter t') :
    t' = t ∧ EVM.validDest (arr bytes) (dat bytes) t = true ∧ code[t]? = some (.op 0x5b) := by
  obtain ⟨w, hw, hwt, _, hc⟩ := validateJump_ok hv
  have := hV _ (hT w hw)
  exact ⟨by omega, (H.validDest_iff t).mpr hc, hc⟩

/-- P1, JUMP (under the hypotheses the invariant carries: the operand satisfies `TargetOK`).
When the symbolic machine transfers control to `t`, the reference machine jumps to `t` and then
executes the JUMPDEST there; the symbolic thread continues at `t + 1` (`advance` increments) with
data related to the reference state after these two steps. -/
theorem jump_sim' (H : Prog bytes code) {c : Ctx} {d : TData} {ctr : Nat} {cs : EVM.CS} {t : Nat}
    (hi : code[c.ip]? = some (.op 0x56)) (hR : Rel d cs)
    (hT : ∀ k r, d.stack = k :: r → TargetOK k)
    (hj : (execOp c code (.op 0x56) d ctr).jumpTo = some t) :
    ∃ cs1, RStep (arr bytes) (dat bytes) (c.ip, cs) (t, cs1) ∧
      RStep (arr bytes) (dat bytes) (t, cs1) (t + 1, visit t cs1) ∧
      Rel (execOp c code (.op 0x56) d ctr).d (visit t cs1) ∧ NotNop code (t + 1) ∧
      (execOp c code (.op 0x56) d ctr).err = none := by
  obtain ⟨_, _, hbyte, hlt⟩ := decode_op (H.opAt hi)
  obtain ⟨_, counter, d1, hp, hv⟩ := execOp_jumpTo hj
  have ho : execOp c code (.op 0x56) d ctr = { d := d1, ctr := ctr, jumpTo := some t } := by
    rw [execOp_jump_eq, hp]; simp only [hv]
  rw [ho]
  obtain ⟨hlen, hst, hsto, hmem⟩ := hR
  unfold pop at hp
  split at hp
  · cases hp
  · rename_i v r hs
    cases hp
    rcases hcs : cs.stack with _ | ⟨t', r'⟩
    · rw [hs, hcs] at hst; simp at hst
    · rw [hs, hcs] at hst
      obtain ⟨rfl, hvd, hc⟩ := target_valid H hv (hT _ _ hs) hst.1
      have hpt := H.opAt hc
      obtain ⟨_, _, hbt, hltt⟩ := decode_op hpt
      refine ⟨_, RStep.jump hlt hbyte hcs hvd, RStep.jumpdest hltt hbt, ?_, hpt.next, rfl⟩
      refine ⟨?_, hst.2, hsto, hmem⟩
      simp only [hs, List.length_cons] at hlen
      simp only []; omega

/-- P1, JUMPI: the fall-through continuation always exists on the reference side (whatever the
condition, valid target or not); when the symbolic machine asks for a fork to `t`, the reference
machine also has the taken branch to `t`.  In both cases the thread's data after the instruction
is related to the reference state with both operands popped.  (The child thread's data is the
parent's with `forkPoint` changed, which `Rel` does not read: `rel_forkPoint`.) -/
theorem jumpi_sim' (H : Prog bytes code) {c : Ctx} {d : TData} {ctr : Nat} {cs : EVM.CS}
    (hi : code[c.ip]? = some (.op 0x57)) (hR : Rel d cs)
    (hT : ∀ k r, d.stack = k :: r → TargetOK k)
    (he : (execOp c code (.op 0x57) d ctr).err = none) :
    ∃ cs2, RStep (arr bytes) (dat bytes) (c.ip, cs) (c.ip + 1, cs2) ∧
      Rel (execOp c code (.op 0x57) d ctr).d cs2 ∧ NotNop code (c.ip + 1) ∧
      (execOp c code (.op 0x57) d ctr).kill = false ∧
      (execOp c code (.op 0x57) d ctr).jumpTo = none ∧
      ∀ t, (execOp c code (.op 0x57) d ctr).forkTo = some t →
        RStep (arr bytes) (dat bytes) (c.ip, cs) (t, cs2) ∧ NotNop code t := by
  have hpi := H.opAt hi
  obtain ⟨_, _, hbyte, hlt⟩ := decode_op hpi
  obtain ⟨hlen, hst, hsto, hmem⟩ := hR
  rw [execOp_jumpi_eq] at he ⊢
  rcases hs : d.stack with _ | ⟨counter, _ | ⟨cond, r⟩⟩
  · rw [pop_nil d hs] at he; cases he
  · rw [pop_cons d counter [] hs] at he
    dsimp only at he
    rw [pop_nil _ rfl] at he; cases he
  · rcases hcs : cs.stack with _ | ⟨t', _ | ⟨c', r'⟩⟩
    · rw [hs, hcs] at hst; simp at hst
    · rw [hs, hcs] at hst; simp at hst
    · rw [hs, hcs] at hst
      rw [pop_cons d counter (cond :: r) hs]
      dsimp only
      rw [pop_cons _ cond r rfl]
      dsimp only
      have hrel : Rel { d with stack := r } { visit c.ip cs with stack := r' } := by
        refine ⟨?_, hst.2.2, hsto, hmem⟩
        simp only [hs, List.length_cons] at hlen
        simp only []; omega
      refine ⟨{ visit c.ip cs with stack := r' }, RStep.jumpiFall hlt hbyte hcs, ?_, hpi.next, ?_⟩
      · split <;> exact hrel
      · cases hv : validateJump code counter with
        | error e => exact ⟨rfl, rfl, fun t ht => by cases ht⟩
        | ok t0 =>
          refine ⟨rfl, rfl, fun t ht => ?_⟩
          simp only [Option.some.injEq] at ht
          subst ht
          obtain ⟨rfl, hvd, hc⟩ := target_valid H hv (hT _ _ hs) hst.1
          exact ⟨RStep.jumpiTaken hlt hbyte hcs hvd, by unfold NotNop; rw [hc]; simp⟩

theorem jump_fine (c : Ctx) (code : List Instr) (d : TData) (ctr : Nat) :
    let o := execOp c code (.op 0x56) d ctr
    Shrunk d o.d ∧ o.forkTo = none ∧ (o.err = none → o.kill = false → o.jumpTo ≠ none) := by
  intro o
  show Shrunk d (execOp c code (.op 0x56) d ctr).d ∧ (execOp c code (.op 0x56) d ctr).forkTo = none ∧
    ((execOp c code (.op 0x56) d ctr).err = none → (execOp c code (.op 0x56) d ctr).kill = false →
      (execOp c code (.op 0x56) d ctr).jumpTo ≠ none)
  rw [execOp_jump_eq]
  split
  · exact ⟨Shrunk.rfl' d, rfl, fun he _ => by simp [fail] at he⟩
  · rename_i counter d1 hp
    have h1 := pop_shrunk hp
    split
    · exact ⟨h1, rfl, fun _ _ => by simp⟩
    · dsimp only
      split
      · exact ⟨h1.record _, rfl, fun _ hk => by simp at hk⟩
      · exact ⟨h1.record _, rfl, fun he _ => by simp [fail] at he⟩

theorem jump_outcome (H : Prog bytes code) (cfg : Cfg) {ip : Nat}
    (hi : code[ip]? = some (.op 0x56)) {d : TData} {cs : EVM.CS} (hR : Rel d cs)
    (hT : ∀ k r, d.stack = k :: r → TargetOK k) (ctr : Nat) :
    Outcome bytes code ip d cs (execOp ⟨cfg, ip, code.length⟩ code (.op 0x56) d ctr) := by
  obtain ⟨hsh, hf, hc⟩ := jump_fine ⟨cfg, ip, code.length⟩ code d ctr
  refine ⟨fun _ _ => hsh.rel hR, fun _ _ => hsh.rel hR, fun he hk hj => absurd hj (hc he hk),
    fun t _ hj => ?_, fun t _ hf' => by rw [hf] at hf'; cases hf'⟩
  obtain ⟨cs1, h1, h2, h3, h4, _⟩ := jump_sim' (c := ⟨cfg, ip, code.length⟩) H hi hR hT hj
  exact ⟨cs1, h1, h2, h3, h4⟩

theorem jumpi_shrunk (c : Ctx) (code : List Instr) (d : TData) (ctr : Nat) :
    Shrunk d (execOp c code (.op 0x57) d ctr).d := by
  rw [execOp_jumpi_eq]
  split
  · exact Shrunk.rfl' d
  · rename_i counter d1 hp
    have h1 := pop_shrunk hp
    split
    · exact h1
    · rename_i cond d2 hp2
      have h2 := h1.trans' (pop_shrunk hp2)
      dsimp only
      split
      · exact h2.record _
      · exact (h2.record _).record _

theorem jumpi_outcome (H : Prog bytes code) (cfg : Cfg) {ip : Nat}
    (hi : code[ip]? = some (.op 0x57)) {d : TData} {cs : EVM.CS} (hR : Rel d cs)
    (hT : ∀ k r, d.stack = k :: r → TargetOK k) (ctr : Nat) :
    Outcome bytes code ip d cs (execOp ⟨cfg, ip, code.length⟩ code (.op 0x57) d ctr) := by
  have hsh := jumpi_shrunk ⟨cfg, ip, code.length⟩ code d ctr
  refine ⟨fun _ _ => hsh.rel hR, fun _ _ => hsh.rel hR, fun he _ _ => ?_, fun t he hj => ?_,
    fun t he hf => ?_⟩
  · obtain ⟨cs2, h1, h2, h3, _⟩ := jumpi_sim' (c := ⟨cfg, ip, code.length⟩) H hi hR hT he
    exact ⟨_, cs2, h1, h2, SledTo.here h3⟩
  · obtain ⟨cs2, _, _, _, _, h5, _⟩ := jumpi_sim' (c := ⟨cfg, ip, code.length⟩) H hi hR hT he
    rw [h5] at hj; cases hj
  · obtain ⟨cs2, _, h2, _, _, _, h6⟩ := jumpi_sim' (c := ⟨cfg, ip, code.length⟩) H hi hR hT he
    exact ⟨cs2, (h6 t hf).1, h2, (h6 t hf).2⟩

/-! ### P1 in the form of the task statement -/

theorem pop_stack {d d1 : TData} {v : SV} (h : pop d = .ok (v, d1)) : d.stack = v :: d1.stack := by
  unfold pop at h
  split at h
  · cases h
  · rename_i v' r hs; cases h; exact hs

theorem targetOK_of {counter : SV} {w : Nat} (hev : evalSV counter = some w)
    (hag : ∀ w', VM.isKnown (fold counter) = some w' → w'.toNat = w) : TargetOK counter := by
  intro w' hw'; rw [hag w' hw']; exact hev

/-- P1 `jump_sim`, with one hypothesis more than "the popped counter is evaluable": the constant
the tool folds the counter to is the value the counter denotes (`hag`).  It cannot be dropped
(`jump_sim_counterexample`); it holds for literals (`targetOK_mkKnown`). -/
theorem jump_sim_partial (H : Prog bytes code) {c : Ctx} {d d1 : TData} {ctr : Nat} {cs : EVM.CS}
    {t w : Nat} {counter : SV} (hi : code[c.ip]? = some (.op 0x56)) (hR : Rel d cs)
    (hp : pop d = .ok (counter, d1)) (hev : evalSV counter = some w)
    (hag : ∀ w', VM.isKnown (fold counter) = some w' → w'.toNat = w)
    (hj : (execOp c code (.op 0x56) d ctr).jumpTo = some t) :
    t = w ∧ cs.stack.head? = some w ∧
    ∃ cs1, RStep (arr bytes) (dat bytes) (c.ip, cs) (t, cs1) ∧
      RStep (arr bytes) (dat bytes) (t, cs1) (t + 1, visit t cs1) ∧
      Rel (execOp c code (.op 0x56) d ctr).d (visit t cs1) := by
  have hs := pop_stack hp
  have hT : ∀ k r, d.stack = k :: r → TargetOK k := by
    intro k r hk; rw [hs] at hk; cases hk; exact targetOK_of hev hag
  obtain ⟨cs1, h1, h2, h3, _, _⟩ := jump_sim' H hi hR hT hj
  obtain ⟨_, counter', d1', hp', hv⟩ := execOp_jumpTo hj
  rw [hp] at hp'; cases hp'
  obtain ⟨w', hw', hwt, _, _⟩ := validateJump_ok hv
  have htw : t = w := by rw [← hwt]; exact hag w' hw'
  refine ⟨htw, ?_, cs1, h1, h2, h3⟩
  have hst := hR.2.1
  rw [hs] at hst
  cases hcs : cs.stack with
  | nil => rw [hcs] at hst; simp at hst
  | cons x r => rw [hcs] at hst; simp [hst.1 w hev]

/-- P1 `jump_sim` for a well-formed counter: "evaluable" suffices when every literal of the counter
is a 256-bit word (`Bridge.LitOK`), because then folding and evaluation agree (`Bridge.fold_agree`). -/
theorem jump_sim_of_litOK (H : Prog bytes code) {c : Ctx} {d d1 : TData} {ctr : Nat} {cs : EVM.CS}
    {t w : Nat} {counter : SV} (hi : code[c.ip]? = some (.op 0x56)) (hR : Rel d cs)
    (hp : pop d = .ok (counter, d1)) (hev : evalSV counter = some w) (hlit : Bridge.LitOK counter)
    (hj : (execOp c code (.op 0x56) d ctr).jumpTo = some t) :
    t = w ∧ cs.stack.head? = some w ∧
    ∃ cs1, RStep (arr bytes) (dat bytes) (c.ip, cs) (t, cs1) ∧
      RStep (arr bytes) (dat bytes) (t, cs1) (t + 1, visit t cs1) ∧
      Rel (execOp c code (.op 0x56) d ctr).d (visit t cs1) :=
  jump_sim_partial H hi hR hp hev (fun w' hw' => by
    have := Bridge.fold_agree counter hlit w' hw'
    rw [hev] at this; cases this; rfl) hj

/-- P1 `jumpi_sim`: the fall-through continuation `(ip + 1, cs2)` always; and if the machine asks
for a fork to `t`, the taken continuation `(t, cs2)`, with the child's data (the parent's with
`forkPoint` changed) related to `cs2`.  Hypothesis on the operand as in `jump_sim_partial`, needed
only when the fork is requested. -/
theorem jumpi_sim_partial (H : Prog bytes code) {c : Ctx} {d : TData} {ctr : Nat} {cs : EVM.CS}
    (hi : code[c.ip]? = some (.op 0x57)) (hR : Rel d cs)
    (hT : ∀ k r, d.stack = k :: r → TargetOK k)
    (he : (execOp c code (.op 0x57) d ctr).err = none) :
    ∃ cs2, RStep (arr bytes) (dat bytes) (c.ip, cs) (c.ip + 1, cs2) ∧
      Rel (execOp c code (.op 0x57) d ctr).d cs2 ∧
      ∀ t, (execOp c code (.op 0x57) d ctr).forkTo = some t →
        RStep (arr bytes) (dat bytes) (c.ip, cs) (t, cs2) ∧
        Rel { (execOp c code (.op 0x57) d ctr).d with forkPoint := c.ip } cs2 := by
  obtain ⟨cs2, h1, h2, _, _, _, h6⟩ := jumpi_sim' H hi hR hT he
  exact ⟨cs2, h1, h2, fun t ht => ⟨(h6 t ht).1, h2⟩⟩

/-- P1, halting: an instruction that sets `kill` requests no transfer and no fork (so the thread
has no successor: `VM.halt_ends_path_kill`), and at STOP / INVALID / RETURN / REVERT / SELFDESTRUCT
the reference machine has no successor either. -/
theorem halt_sim (H : Prog bytes code) {c : Ctx} {d : TData} {ctr : Nat} {ins : Instr}
    (hi : code[c.ip]? = some ins)
    (hk : (execOp c code ins d ctr).kill = true) :
    (execOp c code ins d ctr).jumpTo = none ∧ (execOp c code ins d ctr).forkTo = none ∧
    ∀ b, ins = .op b → (b = 0x00 ∨ b = 0xfe ∨ b = 0xf3 ∨ b = 0xfd ∨ b = 0xff) →
      ∀ cs c', ¬ RStep (arr bytes) (dat bytes) (c.ip, cs) c' := by
  obtain ⟨h1, h2⟩ := execOp_kill_noCtl hk
  refine ⟨h1, h2, fun b hb hbs cs c' => ?_⟩
  subst hb
  exact halt_no_RStep H hi hbs cs c'

end outcome

/-! ### why `jump_sim` needs the agreement hypothesis -/

/-- `LT(2^256, 1)` with an ill-formed literal: denotes 0 over the naturals, folds to 1 -/
def badCounter : SV :=
  .node .lessThan [] [.node .knownData [2 ^ 256] [] 1, .node .knownData [1] [] 1] 3

theorem badCounter_eval : evalSV badCounter = some 0 := by
  simp [badCounter, evalSV, EvalC.evalList, EVM.lt, EVM.ofBool]

theorem badCounter_fold : VM.isKnown (fold badCounter) = some 1#256 := by
  simp [badCounter, VM.isKnown, fold, foldList, foldNode, knownBin, asWord, mkKnown, Known.lt,
    Word.ofBool, rebuild]

/-- The program `JUMP; JUMPDEST`, a thread at offset 0 with `badCounter` on its stack, related to
the reference state with stack `[0]`: the counter is evaluable, the symbolic machine transfers to
offset 1, the reference machine has no step to offset 1 (it would jump to 0, which is no
JUMPDEST). -/
theorem jump_sim_counterexample :
    ∃ (d : TData) (cs : EVM.CS) (counter : SV) (d1 : TData),
      Prog [0x56, 0x5b] [.op 0x56, .op 0x5b] ∧ Rel d cs ∧ pop d = .ok (counter, d1) ∧
      evalSV counter = some 0 ∧
      (execOp ⟨⟨0, 0, 0, 10, 0, false⟩, 0, 2⟩ [.op 0x56, .op 0x5b] (.op 0x56) d 0).jumpTo = some 1 ∧
      ∀ cs', ¬ RStep (arr [0x56, 0x5b]) (dat [0x56, 0x5b]) (0, cs) (1, cs') := by
  refine ⟨{ stack := [badCounter] }, { stack := [0] }, badCounter, {}, ?_, ?_, rfl,
    badCounter_eval, ?_, ?_⟩
  · exact ⟨by simp, by simp, by rfl⟩
  · refine ⟨by simp, ⟨?_, trivial⟩, ?_, ?_⟩
    · intro r hr; rw [badCounter_eval] at hr; cases hr; rfl
    · intro w; exact ⟨[], [], rfl, Or.inl rfl, trivial⟩
    · intro k; exact VRel_of_eval (by simp [cellVal, zeroCell, mkKnown, evalSV, EVM.mload])
  · rw [execOp_jump_eq]
    have hv : validateJump [.op 0x56, .op 0x5b] badCounter = .ok 1 := by
      unfold validateJump
      rw [badCounter_fold]
      simp
    simp [pop, hv]
  · intro cs' hs
    generalize hc : ((1 : Nat), cs') = c1 at hs
    generalize hc0 : ((0 : Nat), ({ stack := [0] } : EVM.CS)) = c0 at hs
    cases hs with
    | data hpc h =>
      cases hc0
      simp [decode, arr, refStep, aluOk] at h
    | push0 hpc hb h => cases hc0; simp [arr] at hb
    | jumpdest hpc hb => cases hc0; simp [arr] at hb
    | jump hpc hb hs' hv =>
      cases hc0
      simp only [List.cons.injEq] at hs'
      obtain ⟨rfl, _⟩ := hs'
      cases hc
    | jumpiTaken hpc hb => cases hc0; simp [arr] at hb
    | jumpiFall hpc hb => cases hc0; simp [arr] at hb

/-! ## 5. programs in scope, the side conditions, the invariant -/

/-- the instructions the path simulation covers: PUSH0..PUSH32 (complete immediates; `nop` is
the placeholder of an immediate byte), DUP, SWAP, and the single-byte data opcodes of
`EvmSim.scopeOps` (POP, PC, CODESIZE, ISZERO, NOT, MLOAD, MSTORE, SLOAD, SSTORE, the 19 binary ALU
opcodes `aluOk`), JUMPDEST, JUMP, JUMPI, STOP, INVALID, RETURN, REVERT, SELFDESTRUCT, and the
stream's `invalid` entries (which end the path at once).  NOT: SIGNEXTEND, ADDMOD, MULMOD, BYTE
(recorded defects), MSTORE8, and everything else. -/
def InsOK : Instr → Prop
  | .nop => True
  | .push _ _ => True
  | .invalid _ => True
  | .op b => b = 0x5f ∨ DataOp b ∨ b = 0x5b ∨ b = 0x56 ∨ b = 0x57 ∨
      (b = 0x00 ∨ b = 0xfe ∨ b = 0xf3 ∨ b = 0xfd ∨ b = 0xff)

/-- every entry of the program's instruction stream is in scope -/
def InScope (bytes : List Nat) : Prop :=
  ∀ code, Disasm.disasm bytes = .ok code → ∀ ins ∈ code, InsOK ins

section inv
variable {bytes : List Nat} {code : List Instr}

/-- the reference meaning of any in-scope instruction -/
theorem outcome (H : Prog bytes code) (cfg : Cfg) {ip : Nat} {ins : Instr}
    (hi : code[ip]? = some ins) (hok : InsOK ins) (hne : ins ≠ .nop) {d : TData} {cs : EVM.CS}
    (hR : Rel d cs) (hside : SideT ins d) (ctr : Nat) :
    Outcome bytes code ip d cs (execOp ⟨cfg, ip, code.length⟩ code ins d ctr) := by
  cases ins with
  | nop => exact absurd rfl hne
  | push n dta => exact data_outcome H cfg hi trivial hR hside.1 ctr
  | invalid b => exact halt_outcome (ins := .invalid b) cfg trivial hR ctr
  | op b =>
    rcases hok with rfl | h | rfl | rfl | rfl | h
    · exact push0_outcome H cfg hi hR ctr
    · exact data_outcome H cfg hi h hR hside.1 ctr
    · exact jumpdest_outcome H cfg hi hR ctr
    · exact jump_outcome H cfg hi hR (hside.2 (Or.inl rfl)) ctr
    · exact jumpi_outcome H cfg hi hR (hside.2 (Or.inr rfl)) ctr
    · exact halt_outcome (ins := .op b) cfg h hR ctr

/-- a queued thread: its data is related to a reference-reachable configuration whose program
counter is where the thread stands, or (while the thread walks over the placeholders of a push
immediate, which the reference machine skips) where that walk ends -/
def TInv (bytes : List Nat) (code : List Instr) (t : Thread) : Prop :=
  ∃ pc cs, RReach (arr bytes) (dat bytes) (pc, cs) ∧ Rel t.d cs ∧ SledTo code t.ip pc

/-- a stored thread -/
def DInv (bytes : List Nat) (t : Thread) : Prop :=
  ∃ pc cs, RReach (arr bytes) (dat bytes) (pc, cs) ∧ Weak t.d cs

/-- the visit counters: every offset executed is a placeholder or reference-reachable -/
def VInv (bytes : List Nat) (code : List Instr) (t : Thread) : Prop :=
  ∀ i, t.visited.getD i 0 ≠ 0 → code[i]? = some .nop ∨ ∃ cs, RReach (arr bytes) (dat bytes) (i, cs)

/-- P2: the thread invariant -/
structure Inv (bytes : List Nat) (code : List Instr) (s : VMS) : Prop where
  queue : ∀ t ∈ s.queue, TInv bytes code t ∧ VInv bytes code t
  stored : ∀ t ∈ s.stored, DInv bytes t ∧ VInv bytes code t

/-- the side conditions at a machine state: they concern the instruction the head thread is
about to execute -/
def SideOK (code : List Instr) (s : VMS) : Prop :=
  ∀ t rest ins, s.queue = t :: rest → code[t.ip]? = some ins → SideT ins t.d

theorem inv_init (H : Prog bytes code) (cfg : Cfg) : Inv bytes code (initVM cfg code) := by
  constructor
  · intro t ht
    simp only [initVM, List.mem_singleton] at ht
    subst ht
    refine ⟨⟨0, {}, RReach.init, rel_init, SledTo.here H.notNop_zero⟩, fun i hi => ?_⟩
    exfalso; apply hi
    simp only [List.getD_eq_getElem?_getD, List.getElem?_replicate]; split <;> simp
  · intro t ht; simp [initVM] at ht

theorem vinv_bump {t : Thread} (hv : VInv bytes code t)
    (h : code[t.ip]? = some .nop ∨ ∃ cs, RReach (arr bytes) (dat bytes) (t.ip, cs)) (v : Thread)
    (hvis : v.visited = bump t.visited t.ip) : VInv bytes code v := by
  intro i hi
  rw [hvis] at hi
  by_cases hti : t.ip = i
  · subst hti; exact h
  · rw [bump_getD_ne _ hti] at hi; exact hv i hi

theorem advance_pinv {cfg : Cfg} {s : VMS} {t : Thread} {rest : List Thread}
    (hq : s.queue = t :: rest)
    (hrest : ∀ t' ∈ rest, TInv bytes code t' ∧ VInv bytes code t')
    (hst : ∀ t' ∈ s.stored, DInv bytes t' ∧ VInv bytes code t')
    (hv : VInv bytes code t) (hd : DInv bytes t)
    (hnext : s.killed = false → TInv bytes code { t with ip := t.ip + 1 }) :
    Inv bytes code (advance cfg code s) := by
  rw [advance_cons hq]
  split
  · constructor
    · exact hrest
    · intro t' ht'
      rcases List.mem_append.mp ht' with ht' | ht'
      · exact hst t' ht'
      · rw [List.mem_singleton.mp ht']; exact ⟨hd, hv⟩
  · rename_i hret
    have hk : s.killed = false := by
      unfold retire at hret
      cases hk : s.killed with
      | false => rfl
      | true => rw [hk] at hret; simp at hret
    constructor
    · intro t' ht'
      rcases List.mem_cons.mp ht' with ht' | ht'
      · rw [ht']; exact ⟨hnext hk, hv⟩
      · exact hrest t' ht'
    · exact hst

/-- the child thread a JUMPI at `t` enqueues for target `tgt` -/
def childOf (t : Thread) (o : OpOut) (tgt : Nat) : Thread :=
  ⟨tgt, bump t.visited t.ip, t.gas, { o.d with forkPoint := t.ip }⟩

theorem midOk_cases (cfg : Cfg) (s : VMS) (t : Thread) (rest : List Thread) (ins : Instr)
    (o : OpOut) :
    (midOk cfg s t rest ins o).stored = s.stored ∧
    (midOk cfg s t rest ins o).killed = (s.killed || o.kill) ∧
    ((∃ tgt, o.jumpTo = some tgt ∧
        (midOk cfg s t rest ins o).queue = { after t ins o with ip := tgt } :: rest) ∨
     (o.jumpTo = none ∧
       ((midOk cfg s t rest ins o).queue = after t ins o :: rest ∨
        ∃ tgt, o.forkTo = some tgt ∧ (midOk cfg s t rest ins o).queue =
          after t ins o :: (rest ++ [childOf t o tgt])))) := by
  unfold midOk
  dsimp only
  split
  · rename_i tgt hj
    exact ⟨rfl, rfl, Or.inl ⟨tgt, hj, rfl⟩⟩
  · rename_i hj
    split
    · rename_i tgt hf
      split
      · exact ⟨rfl, rfl, Or.inr ⟨hj, Or.inr ⟨tgt, hf, rfl⟩⟩⟩
      · exact ⟨rfl, rfl, Or.inr ⟨hj, Or.inl rfl⟩⟩
    · split
      · exact ⟨rfl, rfl, Or.inr ⟨hj, Or.inl rfl⟩⟩
      · exact ⟨rfl, rfl, Or.inr ⟨hj, Or.inl rfl⟩⟩

theorem inv_abort {s : VMS} (h : Inv bytes code s) (a : Option XErr) :
    Inv bytes code { s with aborted := a } := ⟨h.queue, h.stored⟩

/-- P2: `step` preserves the invariant on in-scope programs, given the side conditions at the
state it steps from. -/
theorem inv_step (H : Prog bytes code) (hsc : InScope bytes) (cfg : Cfg) {s : VMS}
    (h : Inv bytes code s) (hside : SideOK code s) : Inv bytes code (step cfg code s) := by
  cases hq : s.queue with
  | nil => rw [step_nil hq]; exact h
  | cons t rest =>
    have htq : t ∈ s.queue := by rw [hq]; simp
    have hrest : ∀ t' ∈ rest, TInv bytes code t' ∧ VInv bytes code t' :=
      fun t' ht' => h.queue t' (by rw [hq]; simp [ht'])
    obtain ⟨⟨pc, cs, hreach, hR, hsl⟩, hv⟩ := h.queue t htq
    cases hi : code[t.ip]? with
    | none => rw [step_oob hq hi]; exact inv_abort h _
    | some ins =>
      have hok : InsOK ins := hsc code H.dis ins (List.mem_of_getElem? hi)
      have hsd : SideT ins t.d := hside t rest ins hq hi
      by_cases hlt : t.ip < pc
      · -- walking over a push immediate
        have hnop : ins = .nop := by
          have := hsl.2.1 t.ip (Nat.le_refl _) hlt
          rw [hi] at this; cases this; rfl
        subst hnop
        have he : (opOut cfg code s t .nop).err = none := rfl
        rw [step_ok hq hi he]
        obtain ⟨h1, h2, _, h4⟩ := midOk_noCtl (cfg := cfg) (s := s) (t := t) (rest := rest)
          (ins := .nop) (o := opOut cfg code s t .nop) rfl rfl
        refine advance_pinv h1 hrest (by rw [h2]; exact h.stored)
          (vinv_bump hv (Or.inl hi) _ rfl) ⟨pc, cs, hreach, (Rel.weak hR)⟩ (fun _ => ?_)
        exact ⟨pc, cs, hreach, hR, by show t.ip + 1 ≤ pc; omega,
          fun j ha hb => hsl.2.1 j (by have : t.ip + 1 ≤ j := ha; omega) hb, hsl.2.2⟩
      · -- at the reference machine's program counter
        have hpc : pc = t.ip := by have := hsl.1; omega
        subst hpc
        have hne : ins ≠ .nop := by
          intro hn; subst hn; exact hsl.2.2 hi
        have hO := outcome H cfg hi hok hne hR hsd s.ctr
        have hvb : ∀ v : Thread, v.visited = bump t.visited t.ip → VInv bytes code v :=
          vinv_bump hv (Or.inr ⟨cs, hreach⟩)
        cases he : (opOut cfg code s t ins).err with
        | some e =>
          by_cases hp : ∃ site, e = .panic site
          · obtain ⟨site, rfl⟩ := hp
            rw [step_panic hq hi he]; exact inv_abort h _
          · rw [step_err hq hi he (fun site hs => hp ⟨site, hs⟩)]
            refine advance_pinv (s := midErr cfg s t rest (opOut cfg code s t ins) e) rfl hrest
              h.stored (hvb _ rfl) ⟨t.ip, cs, hreach, hO.err e he⟩ (fun hk => ?_)
            cases hk
        | none =>
          rw [step_ok hq hi he]
          obtain ⟨hst, hkl, hcs⟩ := midOk_cases cfg s t rest ins (opOut cfg code s t ins)
          have hstored : ∀ t' ∈ (midOk cfg s t rest ins (opOut cfg code s t ins)).stored,
              DInv bytes t' ∧ VInv bytes code t' := by rw [hst]; exact h.stored
          rcases hcs with ⟨tgt, hj, hmq⟩ | ⟨hj, hcs⟩
          · -- JUMP
            obtain ⟨cs1, r1, r2, hR1, hnn⟩ := hO.jump tgt he hj
            have hreach1 := (hreach.step r1).step r2
            exact advance_pinv hmq hrest hstored (hvb _ rfl) ⟨_, _, hreach1, (Rel.weak hR1)⟩
              (fun _ => ⟨_, _, hreach1, hR1, SledTo.here hnn⟩)
          · -- no transfer: the head thread stays on its path (perhaps with a forked child)
            have hd : DInv bytes (after t ins (opOut cfg code s t ins)) := by
              cases hk : (opOut cfg code s t ins).kill with
              | true => exact ⟨t.ip, cs, hreach, hO.kill he hk⟩
              | false =>
                obtain ⟨pc', cs', r1, hR1, _⟩ := hO.cont he hk hj
                exact ⟨pc', cs', hreach.step r1, (Rel.weak hR1)⟩
            have hnext : (midOk cfg s t rest ins (opOut cfg code s t ins)).killed = false →
                TInv bytes code { after t ins (opOut cfg code s t ins) with ip := t.ip + 1 } := by
              intro hk
              rw [hkl] at hk
              have hk' : (opOut cfg code s t ins).kill = false := by
                cases hk'' : (opOut cfg code s t ins).kill with
                | false => rfl
                | true => rw [hk''] at hk; simp at hk
              obtain ⟨pc', cs', r1, hR1, hsl1⟩ := hO.cont he hk' hj
              exact ⟨pc', cs', hreach.step r1, hR1, hsl1⟩
            rcases hcs with hmq | ⟨tgt, hf, hmq⟩
            · exact advance_pinv hmq hrest hstored (hvb _ rfl) hd hnext
            · obtain ⟨cs2, r2, hR2, hnn⟩ := hO.fork tgt he hf
              refine advance_pinv hmq ?_ hstored (hvb _ rfl) hd hnext
              intro t' ht'
              rcases List.mem_append.mp ht' with ht' | ht'
              · exact hrest t' ht'
              · rw [List.mem_singleton.mp ht']
                exact ⟨⟨tgt, cs2, hreach.step r2, hR2, SledTo.here hnn⟩, hvb _ rfl⟩

/-! ## 6. reachable machine states; the corollaries -/

/-- the machine states `VM::execute` goes through -/
inductive MReach (cfg : Cfg) (code : List Instr) : VMS → Prop
  | init : MReach cfg code (initVM cfg code)
  | step {s : VMS} : MReach cfg code s → MReach cfg code (step cfg code s)

theorem mreach_run {cfg : Cfg} : ∀ (fuel : Nat) (s : VMS), MReach cfg code s →
    MReach cfg code (run cfg code fuel s)
  | 0, _, h => h
  | fuel + 1, s, h => by
    unfold run
    split
    · exact h
    · exact mreach_run fuel _ h.step

/-- P2: the invariant holds in every reachable machine state of an in-scope program, provided the
side conditions hold in every reachable machine state. -/
theorem inv_reach (H : Prog bytes code) (hsc : InScope bytes) (cfg : Cfg)
    (hside : ∀ s, MReach cfg code s → SideOK code s) :
    ∀ s, MReach cfg code s → Inv bytes code s := by
  intro s hs
  induction hs with
  | init => exact inv_init H cfg
  | step hr ih => exact inv_step H hsc cfg ih (hside _ hr)

/-- P3 (C08 soundness), general form: in every reachable machine state, every offset a thread
(queued or stored) has executed and that is not a push-immediate placeholder is reachable by the
reference EVM on some path (both branches taken at every JUMPI). -/
theorem executed_is_evm_reachable' (H : Prog bytes code) (hsc : InScope bytes) (cfg : Cfg)
    (hside : ∀ s, MReach cfg code s → SideOK code s) (s : VMS) (hs : MReach cfg code s) :
    ∀ t ∈ s.queue ++ s.stored, ∀ i ins, t.visited.getD i 0 ≠ 0 → code[i]? = some ins →
      ins ≠ .nop → ∃ cs, RReach (arr bytes) (dat bytes) (i, cs) := by
  intro t ht i ins hv hi hne
  have hI := inv_reach H hsc cfg hside s hs
  have hV : VInv bytes code t := by
    rcases List.mem_append.mp ht with ht | ht
    · exact (hI.queue t ht).2
    · exact (hI.stored t ht).2
  rcases hV i hv with h | h
  · rw [hi] at h; cases h; exact absurd rfl hne
  · exact h

/-- P3 (C08 soundness) as stated: after any number of iterations of `VM::execute`, for every
thread in the queue or stored, every offset with a non-zero visit count that holds a real
instruction other than JUMPDEST is reference-reachable. -/
theorem executed_is_evm_reachable (H : Prog bytes code) (hsc : InScope bytes) (cfg : Cfg)
    (hside : ∀ s, MReach cfg code s → SideOK code s) (fuel : Nat) :
    ∀ t ∈ (run cfg code fuel (initVM cfg code)).queue ++ (run cfg code fuel (initVM cfg code)).stored,
      ∀ i ins, t.visited.getD i 0 ≠ 0 → code[i]? = some ins → ins ≠ .nop → ins ≠ .op 0x5b →
        ∃ cs, RReach (arr bytes) (dat bytes) (i, cs) :=
  fun t ht i ins hv hi hne _ =>
    executed_is_evm_reachable' H hsc cfg hside _ (mreach_run fuel _ MReach.init) t ht i ins hv hi hne

/-- P3 (C07) for queued threads: the data of every queued thread is `Rel`-related to the state of
a reference-reachable configuration (standing where the thread stands, up to push-immediate
placeholders). -/
theorem queued_state_matches_a_path (H : Prog bytes code) (hsc : InScope bytes) (cfg : Cfg)
    (hside : ∀ s, MReach cfg code s → SideOK code s) (s : VMS) (hs : MReach cfg code s) :
    ∀ t ∈ s.queue, ∃ pc cs, RReach (arr bytes) (dat bytes) (pc, cs) ∧ Rel t.d cs ∧
      SledTo code t.ip pc :=
  fun t ht => ((inv_reach H hsc cfg hside s hs).queue t ht).1

/-- … in particular, a queued thread standing on a real instruction (not a push-immediate
placeholder) is related to a reference configuration at exactly its own offset: this is the
invariant `∀ t ∈ s.queue, ∃ cs, RReach (t.ip, cs) ∧ Rel t.d cs` of the task statement. -/
theorem queued_state_at_instruction (H : Prog bytes code) (hsc : InScope bytes) (cfg : Cfg)
    (hside : ∀ s, MReach cfg code s → SideOK code s) (s : VMS) (hs : MReach cfg code s) :
    ∀ t ∈ s.queue, ∀ ins, code[t.ip]? = some ins → ins ≠ .nop →
      ∃ cs, RReach (arr bytes) (dat bytes) (t.ip, cs) ∧ Rel t.d cs := by
  intro t ht ins hi hne
  obtain ⟨pc, cs, hr, hR, hle, hn, _⟩ := queued_state_matches_a_path H hsc cfg hside s hs t ht
  by_cases hlt : t.ip < pc
  · have := hn t.ip (Nat.le_refl _) hlt
    rw [hi] at this; cases this; exact absurd rfl hne
  · have : pc = t.ip := by omega
    subst this
    exact ⟨cs, hr, hR⟩

/-- P3 (C07) for stored threads: storage and memory of every stored thread agree with the state
`cs` of a reference-reachable configuration, and its stack agrees with `cs.stack` minus the
`k` operands the thread's last instruction popped before it halted or failed. -/
theorem stored_state_matches_a_path_partial (H : Prog bytes code) (hsc : InScope bytes)
    (cfg : Cfg) (hside : ∀ s, MReach cfg code s → SideOK code s) (s : VMS)
    (hs : MReach cfg code s) :
    ∀ t ∈ s.stored, ∃ pc cs k, RReach (arr bytes) (dat bytes) (pc, cs) ∧ Rel t.d (dropK k cs) := by
  intro t ht
  obtain ⟨pc, cs, hr, k, hk⟩ := ((inv_reach H hsc cfg hside s hs).stored t ht).1
  exact ⟨pc, cs, k, hr, hk⟩

end inv

/-! ## 7. discharging the side conditions syntactically

If every SLOAD/SSTORE/MLOAD/MSTORE/JUMP/JUMPI is immediately preceded by a PUSH (of an offset
below 2^64 for the memory instructions), and the value-size limit is at least 1 (so that a pushed
literal is not culled), the side conditions hold in every reachable state. -/

/-- the literal a PUSHn leaves on the stack -/
def pushLit (dta : List Nat) : SV := mkKnown (BitVec.ofNat 256 (beVal dta))

/-- offset `i` is immediately preceded by a PUSHn whose value satisfies `P`, or by a PUSH0 -/
def PrecededByPush (code : List Instr) (i : Nat) (P : Nat → Prop) : Prop :=
  (∃ p n dta, code[p]? = some (.push n dta) ∧ p + n + 1 = i ∧ P (beVal dta % 2 ^ 256)) ∨
  (∃ p, code[p]? = some (.op 0x5f) ∧ p + 1 = i ∧ P 0)

/-- the syntactic restriction -/
def PushGuarded (code : List Instr) : Prop :=
  ∀ i b, code[i]? = some (.op b) →
    ((b = 0x54 ∨ b = 0x55 ∨ b = 0x56 ∨ b = 0x57) → PrecededByPush code i (fun _ => True)) ∧
    ((b = 0x51 ∨ b = 0x52) → PrecededByPush code i (fun v => v < 2 ^ 64))

/-- a thread that has just executed a PUSH (and is walking over its immediate, or has arrived
behind it) has the pushed literal on top of its stack — unless it stands on a JUMPDEST, where it
may have arrived by a jump -/
def LInv (code : List Instr) (t : Thread) : Prop :=
  code[t.ip]? ≠ some (.op 0x5b) →
  (∀ p n dta, code[p]? = some (.push n dta) → p < t.ip → t.ip ≤ p + n + 1 →
    ∃ r, t.d.stack = pushLit dta :: r) ∧
  (∀ p, code[p]? = some (.op 0x5f) → p + 1 = t.ip → ∃ r, t.d.stack = mkKnown 0#256 :: r)

section syntactic
variable {bytes : List Nat} {code : List Instr}

theorem buildKnown_lit (c : Ctx) (ctr : Nat) (w : Word) (h : 1 ≤ c.cfg.valueLimit) :
    (buildKnown c ctr w).1 = mkKnown w := by
  have : ¬ (1 > c.cfg.valueLimit) := by omega
  simp [buildKnown, build, SV.mk, childSize, mkKnown, this]

theorem pushOut_top {d : TData} {ctr : Nat} {v : SV} (h : (pushOut d ctr v).err = none) :
    (pushOut d ctr v).d.stack = v :: d.stack := by
  rw [pushOut_eq] at h ⊢
  split
  · rename_i hc; rw [if_pos hc] at h; simp [fail] at h
  · rfl

/-- what the queue of the next machine state consists of -/
theorem step_queue (cfg : Cfg) {s : VMS} {t : Thread} {rest : List Thread} {ins : Instr}
    (hq : s.queue = t :: rest) (hi : code[t.ip]? = some ins) :
    ∀ t' ∈ (step cfg code s).queue, t' ∈ s.queue ∨
      ((opOut cfg code s t ins).err = none ∧
        (((opOut cfg code s t ins).jumpTo = none ∧ t'.ip = t.ip + 1 ∧
            t'.d = (opOut cfg code s t ins).d) ∨
         (∃ tgt, (opOut cfg code s t ins).jumpTo = some tgt ∧ t'.ip = tgt + 1) ∨
         (∃ tgt, (opOut cfg code s t ins).forkTo = some tgt ∧ t'.ip = tgt))) := by
  intro t' ht'
  have hrest : ∀ x ∈ rest, x ∈ s.queue := fun x hx => by rw [hq]; simp [hx]
  cases he : (opOut cfg code s t ins).err with
  | some e =>
    by_cases hp : ∃ site, e = .panic site
    · obtain ⟨site, rfl⟩ := hp
      rw [step_panic hq hi he] at ht'
      exact Or.inl ht'
    · have := halt_ends_path_err hq hi he (fun site hs => hp ⟨site, hs⟩)
      rw [this.1] at ht'
      exact Or.inl (hrest t' ht')
  | none =>
    rw [step_ok hq hi he] at ht'
    obtain ⟨_, _, hcs⟩ := midOk_cases cfg s t rest ins (opOut cfg code s t ins)
    rcases hcs with ⟨tgt, hj, hmq⟩ | ⟨hj, hmq | ⟨tgt, hf, hmq⟩⟩
    · rw [advance_cons hmq] at ht'
      split at ht'
      · exact Or.inl (hrest t' ht')
      · rcases List.mem_cons.mp ht' with h | h
        · rw [h]; exact Or.inr ⟨rfl, Or.inr (Or.inl ⟨tgt, hj, rfl⟩)⟩
        · exact Or.inl (hrest t' h)
    · rw [advance_cons hmq] at ht'
      split at ht'
      · exact Or.inl (hrest t' ht')
      · rcases List.mem_cons.mp ht' with h | h
        · rw [h]; exact Or.inr ⟨rfl, Or.inl ⟨hj, rfl, rfl⟩⟩
        · exact Or.inl (hrest t' h)
    · have hchild : ∀ x ∈ rest ++ [childOf t (opOut cfg code s t ins) tgt], x ∈ s.queue ∨
          (x.ip = tgt) := by
        intro x hx
        rcases List.mem_append.mp hx with hx | hx
        · exact Or.inl (hrest x hx)
        · rw [List.mem_singleton.mp hx]; exact Or.inr rfl
      rw [advance_cons hmq] at ht'
      split at ht'
      · rcases hchild t' ht' with h | h
        · exact Or.inl h
        · exact Or.inr ⟨rfl, Or.inr (Or.inr ⟨tgt, hf, h⟩)⟩
      · rcases List.mem_cons.mp ht' with h | h
        · rw [h]; exact Or.inr ⟨rfl, Or.inl ⟨hj, rfl, rfl⟩⟩
        · rcases hchild t' h with h | h
          · exact Or.inl h
          · exact Or.inr ⟨rfl, Or.inr (Or.inr ⟨tgt, hf, h⟩)⟩

theorem linv_step (H : Prog bytes code) (cfg : Cfg) (hlim : 1 ≤ cfg.valueLimit) {s : VMS}
    (h : ∀ t ∈ s.queue, LInv code t) : ∀ t ∈ (step cfg code s).queue, LInv code t := by
  cases hq : s.queue with
  | nil => rw [step_nil hq, hq]; simp
  | cons t rest =>
    have ht : LInv code t := h t (by rw [hq]; simp)
    cases hi : code[t.ip]? with
    | none =>
      rw [step_oob hq hi]
      intro t' ht'; exact h t' ht'
    | some ins =>
      intro t' ht'
      rcases step_queue cfg hq hi t' ht' with hin | ⟨he, hc | ⟨tgt, hj, hip⟩ | ⟨tgt, hf, hip⟩⟩
      · exact h t' hin
      · -- the head thread moves on by one instruction
        obtain ⟨_, hip, hd⟩ := hc
        intro _
        constructor
        · intro p n dta hp h1 h2
          rw [hip] at h1 h2
          rw [hd]
          by_cases hpt : p = t.ip
          · subst hpt
            rw [hi] at hp; cases hp
            unfold opOut at he ⊢
            rw [execOp_push] at he ⊢
            rw [pushOut_top he, buildKnown_lit _ _ _ hlim]
            exact ⟨_, rfl⟩
          · have hnop := (H.pushAt hp).nops t.ip (by omega) (by omega)
            rw [hi] at hnop; cases hnop
            have hjd : code[t.ip]? ≠ some (.op 0x5b) := by rw [hi]; simp
            exact (ht hjd).1 p n dta hp (by omega) (by omega)
        · intro p hp h1
          rw [hip] at h1
          have hpt : p = t.ip := by omega
          subst hpt
          rw [hi] at hp; cases hp
          rw [hd]
          unfold opOut at he ⊢
          rw [execOp_push0] at he ⊢
          rw [pushOut_top he, buildKnown_lit _ _ _ hlim]
          exact ⟨_, rfl⟩
      · -- arrived by a JUMP: stands behind a JUMPDEST
        have hjd : code[tgt]? = some (.op 0x5b) := execOp_jumpTo_jumpdest hj
        intro _
        constructor
        · intro p n dta hp h1 h2
          rw [hip] at h1 h2
          by_cases hpt : p = tgt
          · subst hpt; rw [hjd] at hp; cases hp
          · have hnop := (H.pushAt hp).nops tgt (by omega) (by omega)
            rw [hjd] at hnop; cases hnop
        · intro p hp h1
          rw [hip] at h1
          have hpt : p = tgt := by omega
          subst hpt; rw [hjd] at hp; cases hp
      · -- a forked child: stands on a JUMPDEST
        have hjd : code[tgt]? = some (.op 0x5b) := execOp_forkTo_jumpdest hf
        intro hne
        rw [hip] at hne
        exact absurd hjd hne

theorem linv_reach (H : Prog bytes code) (cfg : Cfg) (hlim : 1 ≤ cfg.valueLimit) :
    ∀ s, MReach cfg code s → ∀ t ∈ s.queue, LInv code t := by
  intro s hs
  induction hs with
  | init =>
    intro t ht
    simp only [initVM, List.mem_singleton] at ht
    subst ht
    intro _
    exact ⟨fun p n dta _ h1 _ => by simp at h1, fun p _ h1 => by simp at h1⟩
  | step _ ih => exact linv_step H cfg hlim ih

/-- the side conditions follow from the syntactic restriction -/
theorem sideOK_of_guarded (H : Prog bytes code) (hg : PushGuarded code) (cfg : Cfg)
    (hlim : 1 ≤ cfg.valueLimit) : ∀ s, MReach cfg code s → SideOK code s := by
  intro s hs t rest ins hq hi
  have hL : LInv code t := linv_reach H cfg hlim s hs t (by rw [hq]; simp)
  cases ins with
  | nop => exact ⟨trivial, fun h => by rcases h with h | h <;> cases h⟩
  | push n dta => exact ⟨trivial, fun h => by rcases h with h | h <;> cases h⟩
  | invalid b => exact ⟨trivial, fun h => by rcases h with h | h <;> cases h⟩
  | op b =>
    have hG := hg t.ip b hi
    -- the literal on top of the stack, whenever the instruction is preceded by a push
    have top : ∀ P : Nat → Prop, b ≠ 0x5b → PrecededByPush code t.ip P →
        ∀ k r, t.d.stack = k :: r → ∃ w : Word, k = mkKnown w ∧ P w.toNat := by
      intro P hb hpre k r hk
      have hjd : code[t.ip]? ≠ some (.op 0x5b) := by
        rw [hi]; intro h; cases h; exact hb rfl
      rcases hpre with ⟨p, n, dta, hp, hpn, hP⟩ | ⟨p, hp, hpn, hP⟩
      · obtain ⟨r', hr'⟩ := (hL hjd).1 p n dta hp (by omega) (by omega)
        rw [hr'] at hk; cases hk
        exact ⟨_, rfl, by rw [BitVec.toNat_ofNat]; exact hP⟩
      · obtain ⟨r', hr'⟩ := (hL hjd).2 p hp hpn
        rw [hr'] at hk; cases hk
        exact ⟨_, rfl, by simpa using hP⟩
    refine ⟨⟨?_, ?_⟩, ?_⟩
    · intro hb k r hk
      obtain ⟨w, hw, _⟩ := top _ (by omega) (hG.1 (by omega)) k r hk
      exact ⟨w, hw⟩
    · intro hb k r hk
      exact top _ (by omega) (hG.2 hb) k r hk
    · intro hb k r hk
      have hb' : b = 0x56 ∨ b = 0x57 := by
        rcases hb with h | h <;> cases h <;> simp
      obtain ⟨w, hw, _⟩ := top _ (by omega) (hG.1 (by omega)) k r hk
      rw [hw]; exact targetOK_mkKnown w

/-- P2, second variant: no hypothesis on the run. -/
theorem inv_reach_guarded (H : Prog bytes code) (hsc : InScope bytes) (hg : PushGuarded code)
    (cfg : Cfg) (hlim : 1 ≤ cfg.valueLimit) : ∀ s, MReach cfg code s → Inv bytes code s :=
  inv_reach H hsc cfg (sideOK_of_guarded H hg cfg hlim)

/-- P3 (C08 soundness), second variant. -/
theorem executed_is_evm_reachable_guarded (H : Prog bytes code) (hsc : InScope bytes)
    (hg : PushGuarded code) (cfg : Cfg) (hlim : 1 ≤ cfg.valueLimit) (fuel : Nat) :
    ∀ t ∈ (run cfg code fuel (initVM cfg code)).queue ++ (run cfg code fuel (initVM cfg code)).stored,
      ∀ i ins, t.visited.getD i 0 ≠ 0 → code[i]? = some ins → ins ≠ .nop →
        ∃ cs, RReach (arr bytes) (dat bytes) (i, cs) :=
  executed_is_evm_reachable' H hsc cfg (sideOK_of_guarded H hg cfg hlim) _
    (mreach_run fuel _ MReach.init)

/-- P3 (C07), second variant. -/
theorem stored_state_matches_a_path_guarded (H : Prog bytes code) (hsc : InScope bytes)
    (hg : PushGuarded code) (cfg : Cfg) (hlim : 1 ≤ cfg.valueLimit) (fuel : Nat) :
    ∀ t ∈ (run cfg code fuel (initVM cfg code)).stored,
      ∃ pc cs k, RReach (arr bytes) (dat bytes) (pc, cs) ∧ Rel t.d (dropK k cs) :=
  stored_state_matches_a_path_partial H hsc cfg (sideOK_of_guarded H hg cfg hlim) _
    (mreach_run fuel _ MReach.init)

end syntactic

/-! ## 8. why the stored threads are only related up to popped operands

`PUSH1 9; PUSH1 9; PUSH1 9; SSTORE; RETURN`: the RETURN underflows after popping its first operand;
the thread is stored with an empty stack and the write to slot 9, and no configuration the reference
machine reaches has both. -/

def cexBytes : List Nat := [0x60, 9, 0x60, 9, 0x60, 9, 0x55, 0xf3]
def cexCode : List Instr :=
  [.push 1 [9], .nop, .push 1 [9], .nop, .push 1 [9], .nop, .op 0x55, .op 0xf3]
def cexCfg : Cfg := ⟨1000, 10, 10, 100, 100, false⟩
def cexFinal : VMS := run cexCfg cexCode 8 (initVM cexCfg cexCode)

theorem cex_prog : Prog cexBytes cexCode := ⟨by decide, by decide, by rfl⟩

theorem cex_inScope : InScope cexBytes := by
  intro code h
  have h' : Disasm.disasm cexBytes = .ok cexCode := by rfl
  rw [h'] at h
  cases h
  intro ins hins
  simp only [cexCode, List.mem_cons, List.not_mem_nil, or_false] at hins
  rcases hins with rfl | rfl | rfl | rfl | rfl | rfl | rfl | rfl
  all_goals simp [InsOK, DataOp, scopeOps, aluOk]

theorem cex_guarded : PushGuarded cexCode := by
  intro i b hi
  rcases i with _ | _ | _ | _ | _ | _ | _ | _ | i
  all_goals simp [cexCode] at hi
  · subst hi
    exact ⟨fun _ => Or.inl ⟨4, 1, [9], rfl, rfl, trivial⟩, fun h => by omega⟩
  · subst hi
    exact ⟨fun h => by omega, fun h => by omega⟩

theorem cex_stored :
    cexFinal.stored.map (fun t => (t.d.stack.length,
        (lookupSV t.d.stK (mkKnown 9#256)).map (fun g => g.map asWord))) =
      [(0, some [some 9#256])] := by decide +kernel

/-- the configurations the reference machine reaches on this program -/
def cexQ (c : Conf) : Prop :=
  (c.1 = 0 ∧ c.2.stack = [] ∧ c.2.writes = []) ∨
  (c.1 = 2 ∧ c.2.stack = [9] ∧ c.2.writes = []) ∨
  (c.1 = 4 ∧ c.2.stack = [9, 9] ∧ c.2.writes = []) ∨
  (c.1 = 6 ∧ c.2.stack = [9, 9, 9] ∧ c.2.writes = []) ∨
  (c.1 = 7 ∧ c.2.stack = [9] ∧ c.2.writes = [(9, 9)])

theorem cexQ_step {a b : Conf} (hQ : cexQ a) (hs : RStep (arr cexBytes) (dat cexBytes) a b) :
    cexQ b := by
  cases hs with
  | @data pc s s' hpc h =>
    rcases hQ with ⟨h1, h2, h3⟩ | ⟨h1, h2, h3⟩ | ⟨h1, h2, h3⟩ | ⟨h1, h2, h3⟩ | ⟨h1, h2, h3⟩
    all_goals
      simp only at h1 h2 h3
      subst h1
      simp [decode, nextPc, cexBytes, pushBytes, arr, refStep, rPush, EVM.pushStack,
        visit, h2, h3, beVal, aluOk] at h ⊢
    all_goals
      subst h
      simp [cexQ]
  | @push0 pc s s' hpc hb h =>
    rcases hQ with ⟨h1, _⟩ | ⟨h1, _⟩ | ⟨h1, _⟩ | ⟨h1, _⟩ | ⟨h1, _⟩
    all_goals
      simp only at h1; subst h1; simp [arr, cexBytes] at hb
  | @jumpdest pc s hpc hb =>
    rcases hQ with ⟨h1, _⟩ | ⟨h1, _⟩ | ⟨h1, _⟩ | ⟨h1, _⟩ | ⟨h1, _⟩
    all_goals
      simp only at h1; subst h1; simp [arr, cexBytes] at hb
  | @jump pc s t r hpc hb hs hv =>
    rcases hQ with ⟨h1, _⟩ | ⟨h1, _⟩ | ⟨h1, _⟩ | ⟨h1, _⟩ | ⟨h1, _⟩
    all_goals
      simp only at h1; subst h1; simp [arr, cexBytes] at hb
  | @jumpiTaken pc s t c r hpc hb hs hv =>
    rcases hQ with ⟨h1, _⟩ | ⟨h1, _⟩ | ⟨h1, _⟩ | ⟨h1, _⟩ | ⟨h1, _⟩
    all_goals
      simp only at h1; subst h1; simp [arr, cexBytes] at hb
  | @jumpiFall pc s t c r hpc hb hs =>
    rcases hQ with ⟨h1, _⟩ | ⟨h1, _⟩ | ⟨h1, _⟩ | ⟨h1, _⟩ | ⟨h1, _⟩
    all_goals
      simp only at h1; subst h1; simp [arr, cexBytes] at hb

theorem cex_reach {c : Conf} (h : RReach (arr cexBytes) (dat cexBytes) c) : cexQ c := by
  induction h with
  | init => exact Or.inl ⟨rfl, rfl, rfl⟩
  | step _ hs ih => exact cexQ_step ih hs

/-- The target `stored_state_matches_a_path` with the plain relation `Rel` fails: on an in-scope,
push-guarded program (so that all side conditions hold) the run stores a thread whose data is not
`Rel`-related to the state of ANY reference-reachable configuration. -/
theorem stored_state_matches_a_path_counterexample :
    Prog cexBytes cexCode ∧ InScope cexBytes ∧ PushGuarded cexCode ∧ 1 ≤ cexCfg.valueLimit ∧
    ∃ t ∈ (run cexCfg cexCode 8 (initVM cexCfg cexCode)).stored,
      ¬ ∃ pc cs, RReach (arr cexBytes) (dat cexBytes) (pc, cs) ∧ Rel t.d cs := by
  refine ⟨cex_prog, cex_inScope, cex_guarded, by decide, ?_⟩
  have hs := cex_stored
  obtain ⟨t, ht⟩ : ∃ t, cexFinal.stored = [t] := by
    have : cexFinal.stored.length = 1 := by
      have := congrArg List.length hs; simpa using this
    exact List.length_eq_one_iff.mp this
  rw [ht] at hs
  simp only [List.map_cons, List.map_nil, List.cons.injEq, Prod.mk.injEq, and_true] at hs
  obtain ⟨hstack, hsto⟩ := hs
  have hstack' : t.d.stack = [] := List.eq_nil_of_length_eq_zero hstack
  refine ⟨t, by show t ∈ cexFinal.stored; rw [ht]; simp, ?_⟩
  rintro ⟨pc, cs, hr, _, hst, hstoR, _⟩
  rw [hstack'] at hst
  have hcs : cs.stack = [] := LRel_nil_left hst
  have hw : cs.writes = [] := by
    rcases cex_reach hr with ⟨_, _, h⟩ | ⟨_, h, _⟩ | ⟨_, h, _⟩ | ⟨_, h, _⟩ | ⟨_, h, _⟩
    · exact h
    all_goals (simp only at h; rw [hcs] at h; cases h)
  obtain ⟨pre, written, h1, h2, h3⟩ := hstoR 9#256
  rw [hw] at h3
  have hwr : written = [] := by
    cases written with
    | nil => rfl
    | cons v vs => simp [writesOf] at h3
  subst hwr
  rw [List.append_nil] at h1
  cases hl : lookupSV t.d.stK (mkKnown 9#256) with
  | none => rw [hl] at hsto; simp at hsto
  | some g =>
    rw [hl] at hsto h1
    simp only [Option.map_some, Option.some.injEq, Option.getD_some] at hsto h1
    rw [h1] at hsto
    rcases h2 with h2 | h2
    · rw [h2] at hsto; simp at hsto
    · rw [h2] at hsto
      simp [buildNoLimit, rebuild, asWord] at hsto

end SLE.PathSim

open SLE.PathSim
#print axioms explore_sound_for_RStep
#print axioms Bridge.fold_agree
#print axioms jump_sim_partial
#print axioms jump_sim_of_litOK
#print axioms queued_state_at_instruction
#print axioms jump_sim_counterexample
#print axioms jumpi_sim_partial
#print axioms halt_sim
#print axioms halt_outcome
#print axioms outcome
#print axioms inv_init
#print axioms inv_step
#print axioms inv_reach
#print axioms executed_is_evm_reachable'
#print axioms executed_is_evm_reachable
#print axioms queued_state_matches_a_path
#print axioms stored_state_matches_a_path_partial
#print axioms stored_state_matches_a_path_counterexample
#print axioms sideOK_of_guarded
#print axioms inv_reach_guarded
#print axioms executed_is_evm_reachable_guarded
#print axioms stored_state_matches_a_path_guarded
