import SLE.Lemmas.VMControl
/-
C17 — strict vs permissive error mode: the flag influences nothing but which errors are
recorded.
-/
namespace SLE.VM
open SLE SLE.SV SLE.Disasm

@[reducible] def strict (cfg : Cfg) : Cfg := { cfg with permissive := false }
@[reducible] def perm (cfg : Cfg) : Cfg := { cfg with permissive := true }

/-- Forget the recorded errors of the four jump kinds. -/
def dropJump (s : VMS) : VMS :=
  { s with errors := s.errors.filter (fun e => !e.2.isJumpKind) }

/-! ### filtering commutes with the sorted insertion -/

/-- sorted by location -/
def LocSorted (l : List (Nat × XErr)) : Prop := l.Pairwise (fun a b => a.1 ≤ b.1)

theorem go_sorted (x : Nat × XErr) : ∀ l, LocSorted l → LocSorted (insertLocated.go x l)
  | [], _ => by simp [insertLocated.go, LocSorted]
  | y :: r, h => by
    rw [insertLocated.go]
    unfold LocSorted at h ⊢
    have hy := (List.pairwise_cons.mp h).1
    have hr := (List.pairwise_cons.mp h).2
    split
    · rename_i hlt
      refine List.pairwise_cons.mpr ⟨fun z hz => ?_, h⟩
      rcases List.mem_cons.mp hz with hz | hz
      · rw [hz]; omega
      · have := hy z hz; omega
    · rename_i hnlt
      refine List.pairwise_cons.mpr ⟨fun z hz => ?_, go_sorted x r hr⟩
      rcases (mem_insertLocated_go x z r).mp hz with hz | hz
      · rw [hz]; omega
      · exact hy z hz

theorem go_of_lt (x : Nat × XErr) : ∀ l : List (Nat × XErr), (∀ z ∈ l, x.1 < z.1) →
    insertLocated.go x l = x :: l
  | [], _ => rfl
  | y :: r, h => by rw [insertLocated.go, if_pos (h y (by simp))]

theorem filter_go_drop (p : Nat × XErr → Bool) (x : Nat × XErr) (hx : p x = false) :
    ∀ l, (insertLocated.go x l).filter p = l.filter p
  | [] => by simp [insertLocated.go, hx]
  | y :: r => by
    rw [insertLocated.go]
    split
    · simp [List.filter_cons, hx]
    · simp only [List.filter_cons, filter_go_drop p x hx r]

theorem filter_go_keep (p : Nat × XErr → Bool) (x : Nat × XErr) (hx : p x = true) :
    ∀ l, LocSorted l → (insertLocated.go x l).filter p = insertLocated.go x (l.filter p)
  | [], _ => by simp [insertLocated.go, hx]
  | y :: r, h => by
    unfold LocSorted at h
    have hy := (List.pairwise_cons.mp h).1
    have hr := (List.pairwise_cons.mp h).2
    rw [insertLocated.go]
    split
    · rename_i hlt
      rw [List.filter_cons, if_pos hx]
      rw [go_of_lt x ((y :: r).filter p)]
      intro z hz
      have hz' := (List.mem_filter.mp hz).1
      rcases List.mem_cons.mp hz' with hz' | hz'
      · rw [hz']; exact hlt
      · have := hy z hz'; omega
    · rename_i hnlt
      rw [List.filter_cons, filter_go_keep p x hx r hr, List.filter_cons]
      split
      · rw [insertLocated.go, if_neg hnlt]
      · rfl

theorem filter_foldl_go (p : Nat × XErr → Bool) :
    ∀ (l acc : List (Nat × XErr)), LocSorted acc →
      (l.foldl (fun acc x => insertLocated.go x acc) acc).filter p =
        (l.filter p).foldl (fun acc x => insertLocated.go x acc) (acc.filter p)
  | [], _, _ => rfl
  | x :: l, acc, h => by
    rw [List.foldl_cons, filter_foldl_go p l _ (go_sorted x acc h), List.filter_cons]
    cases hx : p x with
    | true => rw [if_pos rfl, List.foldl_cons, filter_go_keep p x hx acc h]
    | false => rw [filter_go_drop p x hx]; simp

/-- Filtering commutes with `insertLocated` when the inserted error is kept. -/
theorem filter_insertLocated (p : Nat × XErr → Bool) (es : List (Nat × XErr)) (e : Nat × XErr)
    (he : p e = true) : (insertLocated es e).filter p = insertLocated (es.filter p) e := by
  show (List.foldl (fun acc x => insertLocated.go x acc) [] (es ++ [e])).filter p =
    List.foldl (fun acc x => insertLocated.go x acc) [] (es.filter p ++ [e])
  rw [filter_foldl_go p _ _ (by simp [LocSorted]), List.filter_append]
  simp [he]

/-! ### the two modes, step by step -/

theorem opOut_perm (cfg : Cfg) (code : List Instr) (s : VMS) (t : Thread) (ins : Instr) :
    opOut (perm cfg) code (dropJump s) t ins = opOut (strict cfg) code s t ins := by
  unfold opOut
  show execOp { cfg := { cfg with permissive := true }, ip := t.ip, codeLen := code.length } code ins
      t.d s.ctr =
    execOp { cfg := { cfg with permissive := false }, ip := t.ip, codeLen := code.length } code ins
      t.d s.ctr
  rw [execOp_cfg_perm, execOp_cfg_perm cfg false]

theorem advance_perm (cfg : Cfg) (code : List Instr) (s : VMS) :
    advance (perm cfg) code (dropJump s) = dropJump (advance (strict cfg) code s) := by
  cases hq : s.queue with
  | nil => rw [advance_nil hq, advance_nil (s := dropJump s) hq]; rfl
  | cons t rest =>
    have hq' : (dropJump s).queue = t :: rest := hq
    rw [advance_cons hq, advance_cons hq']
    split <;> rename_i hc
    · refine Eq.trans ?_ (congrArg dropJump (if_pos hc).symm)
      dsimp only [dropJump, perm, strict]
      by_cases hg : t.gas > cfg.gasLimit
      · rw [if_pos hg, if_pos hg, filter_insertLocated _ _ _ rfl]
      · rw [if_neg hg, if_neg hg]
    · refine Eq.trans ?_ (congrArg dropJump (if_neg hc).symm)
      rfl

theorem midOk_perm (cfg : Cfg) (s : VMS) (t : Thread) (rest : List Thread) (ins : Instr)
    (o : OpOut) (hs : ∀ e, o.softErr = some e → e.isJumpKind = true) :
    midOk (perm cfg) (dropJump s) t rest ins o = dropJump (midOk (strict cfg) s t rest ins o) := by
  unfold midOk
  dsimp only
  split
  · rfl
  · split
    · split <;> rename_i hc
      · refine Eq.trans ?_ (congrArg dropJump (if_pos hc).symm)
        rfl
      · refine Eq.trans ?_ (congrArg dropJump (if_neg hc).symm)
        rfl
    · split
      · rename_i e he
        simp only [dropJump, Bool.false_eq_true, if_false, if_true, List.filter_append,
          List.filter_cons, List.filter_nil, hs e he, Bool.not_true, List.append_nil]
      · rfl

theorem midErr_perm (cfg : Cfg) (s : VMS) (t : Thread) (rest : List Thread) (o : OpOut)
    (e : XErr) :
    midErr (perm cfg) (dropJump s) t rest o e = dropJump (midErr (strict cfg) s t rest o e) := by
  unfold midErr
  cases hj : e.isJumpKind <;>
    simp [dropJump, List.filter_append, hj]

/-- The flag influences nothing but which errors are recorded. -/
theorem step_perm_eq (cfg : Cfg) (code : List Instr) (s : VMS) :
    step (perm cfg) code (dropJump s) = dropJump (step (strict cfg) code s) := by
  cases hq : s.queue with
  | nil => rw [step_nil hq, step_nil (s := dropJump s) hq]
  | cons t rest =>
    have hq' : (dropJump s).queue = t :: rest := hq
    cases hi : code[t.ip]? with
    | none => rw [step_oob hq hi, step_oob hq' hi]; rfl
    | some ins =>
      have ho := opOut_perm cfg code s t ins
      cases he : (opOut (strict cfg) code s t ins).err with
      | none =>
        rw [step_ok hq hi he, step_ok hq' hi (by rw [ho]; exact he), ho, ← advance_perm,
          midOk_perm cfg s t rest ins (opOut (strict cfg) code s t ins) (fun e h => execOp_softErr h)]
      | some e =>
        by_cases hp : ∃ site, e = .panic site
        · obtain ⟨site, rfl⟩ := hp
          rw [step_panic hq hi he, step_panic hq' hi (by rw [ho]; exact he)]; rfl
        · have hp' : ∀ site, e ≠ .panic site := fun site hs => hp ⟨site, hs⟩
          rw [step_err hq hi he hp', step_err hq' hi (by rw [ho]; exact he) hp', ho,
            ← advance_perm, midErr_perm]

theorem run_perm_eq' (cfg : Cfg) (code : List Instr) :
    ∀ (fuel : Nat) (s : VMS),
      run (perm cfg) code fuel (dropJump s) = dropJump (run (strict cfg) code fuel s)
  | 0, _ => rfl
  | fuel + 1, s => by
    unfold run
    show (if (s.queue.isEmpty || s.aborted.isSome) = true then dropJump s
        else run (perm cfg) code fuel (step (perm cfg) code (dropJump s))) = _
    split
    · rfl
    · rw [step_perm_eq, run_perm_eq' cfg code fuel]

theorem run_perm_eq (cfg : Cfg) (code : List Instr) (fuel : Nat) :
    run (perm cfg) code fuel (initVM (perm cfg) code) =
      dropJump (run (strict cfg) code fuel (initVM (strict cfg) code)) :=
  run_perm_eq' cfg code fuel (initVM (strict cfg) code)

/-! ### corollaries -/

theorem dropJump_of_errors_nil {s : VMS} (h : s.errors = []) : dropJump s = s := by
  obtain ⟨queue, stored, forks, killed, errors, ctr, created, aborted⟩ := s
  simp only at h
  subst h
  rfl

/-- If the strict run records no error, the permissive run is the identical state. -/
theorem strict_ok_same (cfg : Cfg) (code : List Instr) (fuel : Nat)
    (h : (run (strict cfg) code fuel (initVM (strict cfg) code)).errors = []) :
    run (perm cfg) code fuel (initVM (perm cfg) code) =
      run (strict cfg) code fuel (initVM (strict cfg) code) := by
  rw [run_perm_eq, dropJump_of_errors_nil h]

/-- If every error of the strict run is a jump kind, the permissive run records none. -/
theorem permissive_jump_only (cfg : Cfg) (code : List Instr) (fuel : Nat)
    (h : ∀ x ∈ (run (strict cfg) code fuel (initVM (strict cfg) code)).errors,
      x.2.isJumpKind = true) :
    (run (perm cfg) code fuel (initVM (perm cfg) code)).errors = [] := by
  rw [run_perm_eq]
  simp only [dropJump, List.filter_eq_nil_iff]
  intro x hx
  simp [h x hx]

/-- A non-jump-kind error of the strict run is an error of the permissive run (and the
permissive run has no others). -/
theorem permissive_others (cfg : Cfg) (code : List Instr) (fuel : Nat) (x : Nat × XErr) :
    x ∈ (run (perm cfg) code fuel (initVM (perm cfg) code)).errors ↔
      x ∈ (run (strict cfg) code fuel (initVM (strict cfg) code)).errors ∧
        x.2.isJumpKind = false := by
  rw [run_perm_eq]
  simp [dropJump, List.mem_filter]

/-- Under the invariant every recorded error is located inside the code. -/
theorem errors_located {cfg : Cfg} {code : List Instr} {s : VMS} (h : Inv cfg code s) :
    ∀ loc e, (loc, e) ∈ s.errors → loc < code.length :=
  fun loc e hx => h.errLoc (loc, e) hx

theorem errors_located_run {cfg : Cfg} {code : List Instr} (hc : 0 < code.length)
    (hi : 0 < cfg.iterLimit) (fuel : Nat) :
    ∀ loc e, (loc, e) ∈ (run cfg code fuel (initVM cfg code)).errors → loc < code.length :=
  errors_located (inv_run fuel (inv_init hc hi))

/-! ### errors only grow; strict mode surfaces every `Err` -/

theorem advance_errors_grow (cfg : Cfg) (code : List Instr) (s : VMS) :
    ∀ x ∈ s.errors, x ∈ (advance cfg code s).errors := by
  intro x hx
  unfold advance
  split
  · exact hx
  · dsimp only
    split
    · dsimp only
      split
      · exact (mem_insertLocated _ _ _).mpr (.inl hx)
      · exact hx
    · exact hx

theorem midOk_errors_grow (cfg : Cfg) (s : VMS) (t : Thread) (rest : List Thread) (ins : Instr)
    (o : OpOut) : ∀ x ∈ s.errors, x ∈ (midOk cfg s t rest ins o).errors := by
  intro x hx
  unfold midOk
  dsimp only
  split
  · exact hx
  · split
    · split <;> exact hx
    · split
      · dsimp only
        split
        · exact hx
        · exact List.mem_append_left _ hx
      · exact hx

theorem midErr_errors_grow (cfg : Cfg) (s : VMS) (t : Thread) (rest : List Thread)
    (o : OpOut) (e : XErr) : ∀ x ∈ s.errors, x ∈ (midErr cfg s t rest o e).errors := by
  intro x hx
  unfold midErr
  dsimp only
  split
  · exact hx
  · exact List.mem_append_left _ hx

/-- `errors` only ever grows along a step (in either mode). -/
theorem step_errors_grow (cfg : Cfg) (code : List Instr) (s : VMS) :
    ∀ x ∈ s.errors, x ∈ (step cfg code s).errors := by
  intro x hx
  cases hq : s.queue with
  | nil => rw [step_nil hq]; exact hx
  | cons t rest =>
    cases hi : code[t.ip]? with
    | none => rw [step_oob hq hi]; exact hx
    | some ins =>
      cases he : (opOut cfg code s t ins).err with
      | none =>
        rw [step_ok hq hi he]
        exact advance_errors_grow _ _ _ x (midOk_errors_grow _ _ _ _ _ _ x hx)
      | some e =>
        by_cases hp : ∃ site, e = .panic site
        · obtain ⟨site, rfl⟩ := hp
          rw [step_panic hq hi he]; exact hx
        · rw [step_err hq hi he (fun site hs => hp ⟨site, hs⟩)]
          exact advance_errors_grow _ _ _ x (midErr_errors_grow _ _ _ _ _ _ x hx)

theorem run_errors_grow (cfg : Cfg) (code : List Instr) :
    ∀ (fuel : Nat) (s : VMS), ∀ x ∈ s.errors, x ∈ (run cfg code fuel s).errors
  | 0, _, _, hx => hx
  | fuel + 1, s, x, hx => by
    unfold run
    split
    · exact hx
    · exact run_errors_grow cfg code fuel _ x (step_errors_grow cfg code s x hx)

/-- With `permissive = false`, an `Err(e)` (not a panic) returned by the instruction at `ip`
is recorded at `ip` by that very step; and errors only grow. -/
theorem strict_surfaces {cfg : Cfg} {code : List Instr} {s : VMS} {t : Thread}
    {rest : List Thread} {ins : Instr} {e : XErr} (hperm : cfg.permissive = false)
    (hq : s.queue = t :: rest) (hi : code[t.ip]? = some ins)
    (he : (opOut cfg code s t ins).err = some e) (hp : ∀ site, e ≠ .panic site) :
    (t.ip, e) ∈ (step cfg code s).errors ∧ ∀ x ∈ s.errors, x ∈ (step cfg code s).errors := by
  refine ⟨?_, step_errors_grow cfg code s⟩
  rw [step_err hq hi he hp]
  apply advance_errors_grow
  simp [midErr, hperm]

end SLE.VM
