import SLE.Lemmas.Unify
/-!
C13 — termination of the unification loop on packed-free input: at most `nvars + 2` rounds.
-/
namespace SLE.Unify
open SLE SLE.Containers SLE.Merge SLE.MergeLaws
set_option linter.unusedVariables false
set_option linter.unusedSimpArgs false

/-! ## Finite sums over an initial segment -/

def sumTo : Nat → (Nat → Nat) → Nat
  | 0, _ => 0
  | n + 1, g => sumTo n g + g n

theorem sumTo_congr {g g' : Nat → Nat} : ∀ B, (∀ k, k < B → g k = g' k) → sumTo B g = sumTo B g' := by
  intro B
  induction B with
  | zero => intro _; rfl
  | succ n ih =>
    intro h
    simp only [sumTo]
    rw [ih (fun k hk => h k (by omega)), h n (by omega)]

/-- Changing a function at one point. -/
theorem sumTo_update {g g' : Nat → Nat} {a : Nat} : ∀ B, a < B →
    (∀ k, k < B → k ≠ a → g' k = g k) → sumTo B g' + g a = sumTo B g + g' a := by
  intro B
  induction B with
  | zero => intro h; omega
  | succ n ih =>
    intro ha h
    simp only [sumTo]
    by_cases han : a = n
    · subst han
      rw [sumTo_congr a (fun k hk => h k (by omega) (by omega))]
      omega
    · have := ih (by omega) (fun k hk hka => h k (by omega) hka)
      rw [h n (by omega) (fun e => han e.symm)]
      omega

theorem sumTo_extend {g : Nat → Nat} {n : Nat} (h : ∀ k, n ≤ k → g k = 0) :
    ∀ B, n ≤ B → sumTo B g = sumTo n g := by
  intro B
  induction B with
  | zero => intro hB; have : n = 0 := by omega
            subst this; rfl
  | succ m ih =>
    intro hB
    by_cases hm : n = m + 1
    · subst hm; rfl
    · simp only [sumTo]
      rw [ih (by omega), h m (by omega)]; rfl

theorem sumTo_le {g : Nat → Nat} (h : ∀ k, g k ≤ 1) : ∀ n, sumTo n g ≤ n := by
  intro n
  induction n with
  | zero => exact Nat.le_refl _
  | succ n ih => simp only [sumTo]; have := h n; omega

/-! ## Weights of a vector map -/

theorem get_none_of_ge {V : Type} (m : VMap V) {k : Nat} (h : m.data.length ≤ k) :
    m.get k = none := by
  unfold VMap.get
  rw [List.getElem?_eq_none h]; rfl

/-- Sum of the cell weights. -/
def W {V : Type} (w : Option V → Nat) (m : VMap V) : Nat :=
  sumTo m.data.length (fun k => w (m.get k))

theorem W_eq {V : Type} {w : Option V → Nat} (hw : w none = 0) (m : VMap V) {B : Nat}
    (hB : m.data.length ≤ B) : W w m = sumTo B (fun k => w (m.get k)) :=
  (sumTo_extend (fun k hk => by simp only [get_none_of_ge m hk, hw]) B hB).symm

theorem W_congr {V : Type} {w : Option V → Nat} (hw : w none = 0) {m m' : VMap V}
    (h : ∀ k, w (m'.get k) = w (m.get k)) : W w m' = W w m := by
  rw [W_eq hw m' (Nat.le_max_left _ m.data.length), W_eq hw m (Nat.le_max_right m'.data.length _)]
  exact sumTo_congr _ (fun k _ => h k)

theorem W_update1 {V : Type} {w : Option V → Nat} (hw : w none = 0) {m m' : VMap V} {a : Nat}
    (h : ∀ k, k ≠ a → m'.get k = m.get k) :
    W w m' + w (m.get a) = W w m + w (m'.get a) := by
  let B := max (max m'.data.length m.data.length) (a + 1)
  have h1 : m'.data.length ≤ B := by omega
  have h2 : m.data.length ≤ B := by omega
  rw [W_eq hw m' h1, W_eq hw m h2]
  exact sumTo_update (g := fun k => w (m.get k)) (g' := fun k => w (m'.get k)) B (by omega)
    (fun k _ hk => by simp only [h k hk])

theorem W_update2 {V : Type} {w : Option V → Nat} (hw : w none = 0) {m m' : VMap V} {a b : Nat}
    (hab : a ≠ b) (h : ∀ k, k ≠ a → k ≠ b → m'.get k = m.get k) :
    W w m' + w (m.get a) + w (m.get b) = W w m + w (m'.get a) + w (m'.get b) := by
  let B := max (max m'.data.length m.data.length) (max (a + 1) (b + 1))
  have h1 : m'.data.length ≤ B := by omega
  have h2 : m.data.length ≤ B := by omega
  rw [W_eq hw m' h1, W_eq hw m h2]
  -- intermediate function: `m` updated at `a`
  let g := fun k => w (m.get k)
  let g' := fun k => w (m'.get k)
  let g1 := fun k => if k = a then g' a else g k
  have s1 := sumTo_update (g := g) (g' := g1) (a := a) B (by omega)
    (fun k _ hk => by simp only [g1, if_neg hk])
  have s2 := sumTo_update (g := g1) (g' := g') (a := b) B (by omega)
    (fun k _ hk => by
      simp only [g1]
      by_cases hka : k = a
      · rw [if_pos hka, hka]
      · rw [if_neg hka]; simp only [g', g, h k hka hk])
  have e1 : g1 a = g' a := by simp only [g1, if_pos]
  have e2 : g1 b = g b := by simp only [g1, if_neg (Ne.symm hab)]
  rw [e1] at s1; rw [e2] at s2
  show sumTo B g' + g a + g b = sumTo B g + g' a + g' b
  omega

/-! ## The measure: number of classes holding evidence -/

def wN : Option (List TE) → Nat
  | some (_ :: _) => 1
  | _ => 0

/-- Number of cells holding a non-empty inference set. -/
def N (f : Forest) : Nat := W wN f.data

theorem wN_none : wN none = 0 := rfl

theorem wN_le_one (c : Option (List TE)) : wN c ≤ 1 := by
  rcases c with _ | _ | _ <;> simp [wN]

theorem wN_dataAt (f : Forest) (k : Nat) :
    wN (f.data.get k) = if DS.dataAt setM f k = [] then 0 else 1 := by
  unfold DS.dataAt
  rcases h : f.data.get k with _ | _ | _ <;> simp [wN, setM]

theorem wN_some (d : List TE) : wN (some d) = if d = [] then 0 else 1 := by
  rcases d with _ | _ <;> simp [wN]

theorem setUnion_eq_nil (a b : List TE) : setUnion a b = [] ↔ a = [] ∧ b = [] := by
  simp only [List.eq_nil_iff_forall_not_mem, mem_setUnion]
  constructor
  · intro h; exact ⟨fun x hx => h x (.inl hx), fun x hx => h x (.inr hx)⟩
  · rintro ⟨h1, h2⟩ x (hx | hx)
    · exact h1 x hx
    · exact h2 x hx

theorem length_setInsert_le (s : List TE) (e : TE) : (setInsert s e).length ≤ s.length + 1 := by
  unfold setInsert; split <;> simp

theorem length_setUnion_le (a b : List TE) : (setUnion a b).length ≤ a.length + b.length := by
  unfold setUnion
  induction b generalizing a with
  | nil => simp
  | cons e b ih =>
    rw [List.foldl_cons]
    have := ih (setInsert a e)
    have := length_setInsert_le a e
    simp only [List.length_cons]; omega

/-- Packed-free and `Equal`-free class data. -/
def PFData (f : Forest) : Prop := ∀ k d, f.data.get k = some d → ∀ e ∈ d, PF e = true

theorem pf_noEq {e : TE} (h : PF e = true) : NoEq e = true := by
  cases e <;> first | rfl | cases h

theorem dataAt_pf {f : Forest} (hn : PFData f) (k : Nat) :
    ∀ e ∈ DS.dataAt setM f k, PF e = true := by
  intro x hx
  unfold DS.dataAt at hx
  cases hg : f.data.get k with
  | none => rw [hg] at hx; cases hx
  | some d0 => rw [hg] at hx; exact hn _ d0 hg x hx

theorem dataAt_single {f : Forest} (hs : Single f) (k : Nat) :
    (DS.dataAt setM f k).length ≤ 1 := by
  unfold DS.dataAt
  cases hg : f.data.get k with
  | none => simp [setM]
  | some d0 => exact hs k d0 hg

/-- `N` never grows through a step; a step that breaks `Single` strictly lowers `N`. -/
def NRel (f f' : Forest) : Prop := N f' ≤ N f ∧ (Single f → Single f' ∨ N f' < N f)

theorem NRel.refl (f : Forest) : NRel f f := ⟨Nat.le_refl _, fun h => .inl h⟩

theorem NRel.trans {a b c : Forest} (h1 : NRel a b) (h2 : NRel b c) : NRel a c := by
  refine ⟨Nat.le_trans h2.1 h1.1, fun hs => ?_⟩
  rcases h1.2 hs with h | h
  · rcases h2.2 h with h' | h'
    · exact .inl h'
    · exact .inr (Nat.lt_of_lt_of_le h' h1.1)
  · exact .inr (Nat.lt_of_le_of_lt h2.1 h)

theorem union_pf {f f' : Forest} (hi : DS.Inv f) (hp : PFData f) (a b : Nat)
    (h : f.union setM a b = .ok f') : PFData f' ∧ NRel f f' := by
  obtain ⟨f'', e, i1, i2, i3, i4⟩ := DS.union_spec setM f a b hi
  rw [h] at e; injection e with e; subst e
  by_cases hab : DS.rootOf f a = DS.rootOf f b
  · obtain ⟨j1, j2⟩ := i3 hab
    refine ⟨?_, ?_, ?_⟩
    · intro k d hk; rw [j2] at hk; exact hp k d hk
    · unfold N; rw [j2]; exact Nat.le_refl _
    · intro hs; left; intro k d hk; rw [j2] at hk; exact hs k d hk
  · obtain ⟨j1, j2⟩ := i4 hab
    simp only [show ∀ x y, setM.combine x y = setUnion x y from fun _ _ => rfl] at j2
    have hN := W_update2 (w := wN) wN_none (m := f.data) (m' := f'.data) hab
      (fun k h1 h2 => by rw [j2, if_neg h1, if_neg h2])
    rw [j2 (DS.rootOf f a), if_pos rfl, j2 (DS.rootOf f b), if_neg (Ne.symm hab), if_pos rfl,
      wN_dataAt, wN_dataAt, wN_some, wN_none] at hN
    simp only [setUnion_eq_nil] at hN
    have hlen := length_setUnion_le (DS.dataAt setM f (DS.rootOf f a)) (DS.dataAt setM f (DS.rootOf f b))
    refine ⟨?_, ?_, ?_⟩
    · intro k d hk; rw [j2] at hk
      split at hk
      · injection hk with hk; subst hk
        intro x hx
        rcases (mem_setUnion _ _ _).mp hx with hx | hx
        · exact dataAt_pf hp _ x hx
        · exact dataAt_pf hp _ x hx
      · split at hk
        · cases hk
        · exact hp k d hk
    · show N f' ≤ N f
      unfold N
      by_cases h1 : DS.dataAt setM f (DS.rootOf f a) = [] <;>
        by_cases h2 : DS.dataAt setM f (DS.rootOf f b) = [] <;>
        simp only [h1, h2, and_self, and_true, and_false, if_true, if_false] at hN <;> omega
    · intro hs
      have l1 := dataAt_single hs (DS.rootOf f a)
      have l2 := dataAt_single hs (DS.rootOf f b)
      by_cases h1 : DS.dataAt setM f (DS.rootOf f a) = []
      · left
        have h0 : (DS.dataAt setM f (DS.rootOf f a)).length = 0 := by rw [h1]; rfl
        intro k d hk; rw [j2] at hk
        split at hk
        · injection hk with hk; subst hk
          omega
        · split at hk
          · cases hk
          · exact hs k d hk
      · by_cases h2 : DS.dataAt setM f (DS.rootOf f b) = []
        · left
          have h0 : (DS.dataAt setM f (DS.rootOf f b)).length = 0 := by rw [h2]; rfl
          intro k d hk; rw [j2] at hk
          split at hk
          · injection hk with hk; subst hk
            omega
          · split at hk
            · cases hk
            · exact hs k d hk
        · right
          show N f' < N f
          unfold N
          simp only [h1, h2, and_self, and_true, and_false, if_true, if_false] at hN
          omega

/-! ## One round on packed-free data -/

theorem foldClass_pf (root : Nat) (ev : List TE) (next : Nat) (r : FCAcc)
    (hev : ∀ e ∈ ev, PF e = true) (h : foldClass root ev next = .ok r) :
    PF r.1 = true ∧ r.2.2.2.1 = [] ∧ r.2.2.2.2 = [] := by
  cases ev with
  | nil => cases h
  | cons first rest =>
    rw [foldClass_cons] at h
    obtain ⟨i, _, _⟩ := foldlM_rel (fcStep root)
      (fun (a : FCAcc) => PF a.1 = true ∧ a.2.2.2.1 = [] ∧ a.2.2.2.2 = [])
      (fun _ _ => True) (fun _ _ => True) (fun _ => trivial) (fun _ _ _ _ _ => trivial)
      (fun _ _ _ _ _ => trivial) rest
      (by
        rintro ⟨cur, nx, eqs, js, nvs⟩ e s' he ⟨h1, h2, h3⟩ hs
        simp only [] at h1 h2 h3
        subst h2 h3
        obtain ⟨m, hm, g1, _, g3, g4, _⟩ := merge_pf_indep cur e h1
          (hev e (List.mem_cons_of_mem _ he)) root nx
        simp only [fcStep, hm] at hs
        injection hs with hs; subst hs
        refine ⟨⟨?_, ?_, ?_⟩, trivial, trivial⟩
        · simp only []; rw [g1]; exact outcome_pf cur e h1 (hev e (List.mem_cons_of_mem _ he))
        · simp only []; rw [g3]; rfl
        · simp only []; rw [g4]; rfl)
      (first, next, [], [], []) r ⟨hev _ (List.mem_cons_self ..), rfl, rfl⟩ h
    exact i

theorem loop_pf {o : Orders} (ho : OrdersOk o) (l : List (Nat × List TE)) :
    ∀ acc acc', (l.map (·.1)).Nodup → DS.Inv acc.forest → PFData acc.forest →
      (∀ p ∈ l, acc.forest.data.get p.1 = some p.2 ∧ DS.rootOf acc.forest p.1 = p.1) →
      (∀ k d, acc.forest.data.get k = some d → d.length ≤ 1 ∨ (k, d) ∈ l) →
      l.foldlM (roundStep o) acc = .ok acc' →
      PFData acc'.forest ∧ Single acc'.forest ∧ N acc'.forest = N acc.forest ∧
        acc'.judgements = acc.judgements ∧ acc'.newVars = acc.newVars := by
  induction l with
  | nil =>
    intro acc acc' _ hi hpf hD hP h
    injection h with h; subst h
    refine ⟨hpf, ?_, rfl, rfl, rfl⟩
    intro k d hk
    rcases hP k d hk with h | h
    · exact h
    · cases h
  | cons p rest ih =>
    intro acc acc' hnd hi hpf hD hP h
    rw [List.map_cons, List.nodup_cons] at hnd
    obtain ⟨hp1, hnd⟩ := hnd
    rw [List.foldlM_cons] at h
    cases e1 : roundStep o acc p with
    | error e => rw [e1] at h; cases h
    | ok acc1 =>
      rw [e1] at h
      have h : List.foldlM (roundStep o) acc1 rest = .ok acc' := h
      rcases roundStep_cases e1 with ⟨hnil, rfl⟩ | ⟨hne, cur, nx, eqs, js, nvs, f', h1, h2, rfl⟩
      · refine ih { acc with polls := acc.polls + 1 } acc' hnd hi hpf
          (fun q hq => hD q (List.mem_cons_of_mem _ hq)) ?_ h
        intro k d hk
        rcases hP k d hk with h | h
        · exact .inl h
        · rcases List.mem_cons.mp h with h | h
          · left
            have : d = p.2 := by rw [← h]
            rw [this, hnil]; simp
          · exact .inr h
      · obtain ⟨hdp, hrp⟩ := hD p (List.mem_cons_self ..)
        have hperm := ho.2.1 p.2
        obtain ⟨g1, g2, g3⟩ := foldClass_pf p.1 (o.tes p.2) acc.next _
          (fun e he => hpf p.1 p.2 hdp e (hperm.mem_iff.mp he)) h1
        simp only [] at g1 g2 g3
        subst g2 g3
        obtain ⟨f'', e2, i1, i2, i3, _⟩ := DS.setData_spec acc.forest p.1 [cur] hi
        rw [h2] at e2; injection e2 with e2; subst e2
        rw [hrp] at i3
        have hq1 : ∀ q ∈ rest, q.1 ≠ p.1 := by
          intro q hq e
          exact hp1 (List.mem_map.mpr ⟨q, hq, e⟩)
        have := ih _ acc' hnd i1 ?_ ?_ ?_ h
        · obtain ⟨a, b, c, d, e⟩ := this
          simp only [List.append_nil] at c d e
          refine ⟨a, b, ?_, d, e⟩
          rw [c]
          have hN := W_update1 (w := wN) wN_none (m := acc.forest.data) (m' := f'.data) (a := p.1)
            (fun k hk => by rw [i3, if_neg hk])
          rw [i3, if_pos rfl, hdp, wN_some, wN_some, if_neg hne, if_neg (by simp)] at hN
          unfold N; omega
        · intro k d hk
          simp only [] at hk
          rw [i3] at hk
          split at hk
          · injection hk with hk; subst hk
            intro x hx
            simp only [List.mem_singleton] at hx
            subst hx; exact g1
          · exact hpf k d hk
        · intro q hq
          simp only []
          rw [i3, if_neg (hq1 q hq), i2]
          exact hD q (List.mem_cons_of_mem _ hq)
        · intro k d hk
          simp only [] at hk
          rw [i3] at hk
          split at hk
          · injection hk with hk; subst hk; left; simp
          · rename_i hkp
            rcases hP k d hk with h | h
            · exact .inl h
            · rcases List.mem_cons.mp h with h | h
              · exact absurd (by rw [← h]) hkp
              · exact .inr h

theorem loop_no_progress {o : Orders} (ho : OrdersOk o) (l : List (Nat × List TE))
    (acc acc' : RoundAcc) (h : l.foldlM (roundStep o) acc = .ok acc')
    (hp : acc.progress = false) (hl : ∀ p ∈ l, p.2.length ≤ 1) : acc'.progress = false := by
  have := foldlM_rel (roundStep o) (fun a => a.progress = false) (fun _ _ => True)
    (fun _ _ => True) (fun _ => trivial) (fun _ _ _ _ _ => trivial) (fun _ _ _ _ _ => trivial) l
    (fun s x s' hx hs h => by
      refine ⟨?_, trivial, trivial⟩
      rcases roundStep_cases h with ⟨_, rfl⟩ | ⟨_, cur, nx, eqs, js, nvs, f', _, _, rfl⟩
      · exact hs
      · have h1 := (ho.2.1 x.2).length_eq
        have h2 := hl x hx
        simp only [hs, Bool.false_or, decide_eq_false_iff_not]
        omega)
    acc acc' hp h
  exact this.1

theorem sets_pf {f : Forest} (hi : DS.Inv f) (hp : PFData f) :
    PFData (f.sets setM).1 ∧ N (f.sets setM).1 = N f ∧ (Single f → Single (f.sets setM).1) := by
  obtain ⟨f1, l, e, i1, i2, i3, _, i5, i6, i7⟩ := DS.sets_spec setM f hi
  rw [e]; simp only []
  refine ⟨?_, ?_, ?_⟩
  · intro k d hk; rw [i7] at hk
    split at hk
    · injection hk with hk; subst hk
      intro x hx
      cases hg : f.data.get k with
      | none => rw [hg] at hx; cases hx
      | some d0 => rw [hg] at hx; exact hp _ d0 hg x hx
    · exact hp k d hk
  · apply W_congr wN_none
    intro k; rw [i7]
    split
    · rcases hg : f.data.get k with _ | _ | _ <;> simp [wN, setM]
    · rfl
  · intro hs k d hk; rw [i7] at hk
    split at hk
    · injection hk with hk; subst hk
      cases hg : f.data.get k with
      | none => simp [setM]
      | some d0 => exact hs k d0 hg
    · exact hs k d hk

theorem roundTail_pf {o : Orders} (ho : OrdersOk o) {acc0 acc : RoundAcc}
    (h2 : acc0.judgements = []) (h3 : acc0.newVars = []) (h : roundTail o acc0 = .ok acc) :
    (o.eqs (dedup acc0.eqs)).foldlM unionStep acc0.forest = .ok acc.forest ∧
      acc.progress = acc0.progress := by
  obtain ⟨forest, next, eqs, js, nvs, pr, polls, counter⟩ := acc0
  simp only [] at h2 h3
  subst h2 h3
  unfold roundTail at h
  simp only [] at h
  rw [dedup_nil, dedup_nil, perm_nil_eq (ho.1 []), perm_nil_eq (ho.2.2.2 [])] at h
  simp only [List.foldl_nil] at h
  split at h
  · cases h
  · rename_i f3 e3
    injection h with h; subst h
    exact ⟨e3, rfl⟩

/-- One round on packed-free data: the data stays packed-free, the number of classes holding
evidence never grows, and if the result has a class with two pieces then that number dropped. -/
theorem round_pf {o : Orders} (ho : OrdersOk o) {f : Forest} (h : UInv f) (hp : PFData f)
    {next counter : Nat} {acc : RoundAcc} (hr : round o f next counter = .ok acc) :
    PFData acc.forest ∧ N acc.forest ≤ N f ∧ (Single acc.forest ∨ N acc.forest < N f) ∧
      (Single f → acc.progress = false) := by
  obtain ⟨acc0, e0, i0, r0⟩ := roundLoop_inv ho h next counter
  rw [round_eq, e0] at hr
  simp only [] at hr
  obtain ⟨s1, s2, s3, s4, s5⟩ := uinv_sets h
  obtain ⟨p1, p2, p3⟩ := sets_pf h.1 hp
  obtain ⟨g1, g2, g3, g4, g5⟩ := loop_pf ho (f.sets setM).2
    { forest := (f.sets setM).1, next := next, counter := counter } acc0 s5 s1.1 p1
    (fun p hp => ⟨(s3 p hp).2.1, by simp only []; rw [s2]; exact (s3 p hp).2.2⟩)
    (fun k d hk => .inr (s4 k d hk)) e0
  simp only [] at g3 g4 g5
  obtain ⟨t1, t2⟩ := roundTail_pf ho g4 g5 hr
  obtain ⟨⟨_, u1⟩, u2, _⟩ := foldlM_rel unionStep (fun f => DS.Inv f ∧ PFData f) NRel
    (fun _ _ => True) NRel.refl (fun _ _ _ => NRel.trans) (fun _ _ _ _ _ => trivial)
    (o.eqs (dedup acc0.eqs))
    (fun s p s' _ hs hstep => by
      have hu : s.union setM p.1 p.2 = .ok s' := by
        unfold unionStep at hstep
        split at hstep
        · rename_i f' e; injection hstep with hstep; subst hstep; exact e
        · cases hstep
      obtain ⟨s'', e, a, _⟩ := inv_union hs.1 p.1 p.2
      rw [hu] at e; injection e with e; subst e
      obtain ⟨b, c⟩ := union_pf hs.1 hs.2 p.1 p.2 hu
      exact ⟨⟨a, b⟩, c, trivial⟩)
    acc0.forest acc.forest ⟨i0.1.1, g1⟩ t1
  refine ⟨u1, ?_, ?_, ?_⟩
  · rw [← p2, ← g3]; exact u2.1
  · rw [← p2, ← g3]; exact u2.2 g2
  · intro hs
    rw [t2]
    apply loop_no_progress ho _ _ _ e0 rfl
    intro p hp
    exact p3 hs p.1 p.2 (s3 p hp).2.1

/-- The loop terminates: one spare round when every class already holds one piece, otherwise one
round per class holding evidence plus two. -/
theorem unifyLoop_terminates {o : Orders} (ho : OrdersOk o) :
    ∀ (fuel : Nat) (f : Forest) (next counter rounds : Nat), UInv f → PFData f →
      ((Single f ∧ 1 ≤ fuel) ∨ N f + 2 ≤ fuel) →
      ∀ e, unifyLoop o fuel f next counter rounds ≠ .error e := by
  intro fuel
  induction fuel with
  | zero => intro f next counter rounds _ _ h; omega
  | succ fuel ih =>
    intro f next counter rounds hf hp hfuel e
    obtain ⟨acc, er, i, _⟩ := round_spec ho hf next counter
    obtain ⟨q1, q2, q3, q4⟩ := round_pf ho hf hp er
    rw [unifyLoop, er]
    simp only []
    cases hpr : acc.progress with
    | false => simp
    | true =>
      simp only [if_true]
      apply ih acc.forest acc.next acc.counter (rounds + 1) i q1
      rcases hfuel with ⟨hs, _⟩ | hfuel
      · rw [q4 hs] at hpr; cases hpr
      · rcases q3 with hs | hlt
        · left; exact ⟨hs, by omega⟩
        · right; omega

/-! ## `initForest` on packed-free input -/

/-- true unless the expression is `.packed _ _` -/
def NP : TE → Bool
  | .packed _ _ => false
  | _ => true

/-- No packed encoding anywhere in the input. -/
def NoPacked (nvars : Nat) (infs : Nat → List TE) : Prop :=
  ∀ v, v < nvars → ∀ e ∈ infs v, NP e = true

theorem pf_of_noEq_np {e : TE} (h1 : NoEq e = true) (h2 : NP e = true) : PF e = true := by
  cases e <;> first | rfl | (cases h1; done) | (cases h2; done)

def InitI (nvars : Nat) (f : Forest) : Prop :=
  UInv f ∧ PFData f ∧ (∀ w, w < nvars → DS.rootOf f w < nvars) ∧
    (∀ k d, f.data.get k = some d → k < nvars)

theorem initStep_cases {v : Nat} {f f' : Forest} {e : TE} (h : initStep v f e = .ok f') :
    (∃ id, e = .equal id ∧ f.union setM v id = .ok f') ∨
    (NoEq e = true ∧ f.addData setM v [e] = .ok f') := by
  have hadd : ∀ e : TE, (match f.addData setM v [e] with
      | .ok f' => (.ok f' : Except UFault Forest) | .error x => .error (.forest x)) = .ok f' →
      f.addData setM v [e] = .ok f' := by
    intro e h
    split at h
    · injection h with h; subst h; assumption
    · cases h
  cases e with
  | equal id =>
    left
    refine ⟨id, rfl, ?_⟩
    simp only [initStep] at h
    split at h
    · injection h with h; subst h; assumption
    · cases h
  | _ => exact .inr ⟨rfl, hadd _ h⟩

theorem initStep_pf {nvars v : Nat} (hv : v < nvars) {f f' : Forest} {e : TE}
    (he : NP e = true) (hi : InitI nvars f) (h : initStep v f e = .ok f') : InitI nvars f' := by
  obtain ⟨hu, hp, hr, hd⟩ := hi
  rcases initStep_cases h with ⟨id, rfl, hun⟩ | ⟨hne, hadd⟩
  · obtain ⟨f'', e1, u1, _, _⟩ := uinv_union hu v id
    rw [hun] at e1; injection e1 with e1; subst e1
    obtain ⟨p1, _⟩ := union_pf hu.1 hp v id hun
    obtain ⟨f'', e, i1, i2, i3, i4⟩ := DS.union_spec setM f v id hu.1
    rw [hun] at e; injection e with e; subst e
    refine ⟨u1, p1, ?_, ?_⟩
    · intro w hw
      by_cases hab : DS.rootOf f v = DS.rootOf f id
      · rw [(i3 hab).1]; exact hr w hw
      · rw [(i4 hab).1]
        split
        · exact hr v hv
        · exact hr w hw
    · intro k d hk
      by_cases hab : DS.rootOf f v = DS.rootOf f id
      · rw [(i3 hab).2] at hk; exact hd k d hk
      · rw [(i4 hab).2] at hk
        split at hk
        · rename_i hk'; rw [hk']; exact hr v hv
        · split at hk
          · cases hk
          · exact hd k d hk
  · obtain ⟨f'', e1, u1, u2, u3⟩ := uinv_addData hu v [e] (by simpa using hne)
    rw [hadd] at e1; injection e1 with e1; subst e1
    refine ⟨u1, ?_, ?_, ?_⟩
    · intro k d hk; rw [u3] at hk
      split at hk
      · injection hk with hk; subst hk
        intro x hx
        rcases (mem_setUnion _ _ _).mp hx with hx | hx
        · exact dataAt_pf hp _ x hx
        · simp only [List.mem_singleton] at hx
          subst hx; exact pf_of_noEq_np hne he
      · exact hp k d hk
    · intro w hw; rw [u2]; exact hr w hw
    · intro k d hk; rw [u3] at hk
      split at hk
      · rename_i hk'; rw [hk']; exact hr v hv
      · exact hd k d hk

theorem initForest_pf {o : Orders} (ho : OrdersOk o) {nvars : Nat} {infs : Nat → List TE}
    (hnp : NoPacked nvars infs) {f : Forest}
    (h : initForest o (List.range nvars) infs = .ok f) : InitI nvars f := by
  rw [initForest_eq] at h
  obtain ⟨u0, r0, d0⟩ := insertAll_uinv (o.vars (List.range nvars)) uinv_empty
  have hempty : ∀ k, ({} : Forest).data.get k = none := fun k => DS.get_empty k
  have h0 : InitI nvars ((o.vars (List.range nvars)).foldl (fun f v => f.insert v) {}) := by
    refine ⟨u0, ?_, ?_, ?_⟩
    · intro k d hk; rw [d0, hempty] at hk; cases hk
    · intro w hw
      have : DS.rootOf ({} : Forest) w = w := DS.rootOf_absent DS.inv_empty (DS.get_empty w)
      rw [r0, this]; exact hw
    · intro k d hk; rw [d0, hempty] at hk; cases hk
  have := foldlM_rel (fun (f : Forest) v => (o.tes (infs v)).foldlM (initStep v) f)
    (InitI nvars) (fun _ _ => True) (fun _ _ => True) (fun _ => trivial)
    (fun _ _ _ _ _ => trivial) (fun _ _ _ _ _ => trivial) (o.vars (List.range nvars))
    (fun s v s' hv hs hstep => by
      have hv' : v < nvars := List.mem_range.mp ((ho.1 _).mem_iff.mp hv)
      have := foldlM_rel (initStep v) (InitI nvars) (fun _ _ => True) (fun _ _ => True)
        (fun _ => trivial) (fun _ _ _ _ _ => trivial) (fun _ _ _ _ _ => trivial)
        (o.tes (infs v))
        (fun s e s' he hs hstep =>
          ⟨initStep_pf hv' (hnp v hv' e ((ho.2.1 _).mem_iff.mp he)) hs hstep, trivial, trivial⟩)
        s s' hs hstep
      exact ⟨this.1, trivial, trivial⟩)
    _ f h0 h
  exact this.1

theorem N_le_of_keys {f : Forest} {n : Nat} (h : ∀ k d, f.data.get k = some d → k < n) :
    N f ≤ n := by
  unfold N
  rw [W_eq wN_none f.data (Nat.le_max_left _ n),
    sumTo_extend (n := n) (fun k hk => by
      cases hg : f.data.get k with
      | none => rfl
      | some d => have := h k d hg; omega) _ (Nat.le_max_right _ _)]
  exact sumTo_le (fun k => wN_le_one _) n

/-- 5. Termination without packed encodings, with the explicit bound `nvars + 2` on the number of
rounds: `unify` cannot run out of fuel (and by `unify_no_panic` cannot fail in any other way). -/
theorem unify_terminates_nopacked_bound {o : Orders} {nvars : Nat} {infs : Nat → List TE}
    (ho : OrdersOk o) (hnp : NoPacked nvars infs) :
    ∀ fuel, nvars + 2 ≤ fuel → ∀ e, unify o fuel nvars infs ≠ .error e := by
  intro fuel hfuel e
  obtain ⟨f0, e0⟩ := initForest_ok o (List.range nvars) infs
  obtain ⟨hu, hp, _, hd⟩ := initForest_pf ho hnp e0
  unfold unify
  rw [e0]
  simp only []
  apply unifyLoop_terminates ho fuel f0 nvars 0 0 hu hp
  right
  have := N_le_of_keys hd
  omega

theorem unify_terminates_nopacked {o : Orders} {nvars : Nat} {infs : Nat → List TE}
    (ho : OrdersOk o) (hnp : NoPacked nvars infs) :
    ∃ bound, ∀ fuel ≥ bound, ∀ e, unify o fuel nvars infs ≠ .error e :=
  ⟨nvars + 2, unify_terminates_nopacked_bound ho hnp⟩

/-- Hence on packed-free input `unify` returns a result whenever `fuel ≥ nvars + 2`. -/
theorem unify_ok_nopacked {o : Orders} {nvars : Nat} {infs : Nat → List TE}
    (ho : OrdersOk o) (hnp : NoPacked nvars infs) (fuel : Nat) (hfuel : nvars + 2 ≤ fuel) :
    ∃ f n r, unify o fuel nvars infs = .ok (f, n, r) := by
  cases h : unify o fuel nvars infs with
  | error e => exact absurd h (unify_terminates_nopacked_bound ho hnp fuel hfuel e)
  | ok x => obtain ⟨f, n, r⟩ := x; exact ⟨f, n, r, rfl⟩

end SLE.Unify
