import SLE.Model.MergeLaws
/-!
C16 / C02 / C15 — algebraic laws of `unification::merge` on the `Equal`-free, packed-free
fragment, for every width, every variable index and every array length.
-/
namespace SLE.MergeLaws
open SLE SLE.Merge
set_option linter.unusedSimpArgs false

/-! ## 1. `WordUse.merge` -/

theorem wordUse_merge_comm (a b : WordUse) : a.merge b = b.merge a := by
  cases a <;> cases b <;> rfl

theorem wordUse_merge_assoc (a b c : WordUse) :
    (a.merge b).bind (·.merge c) = (b.merge c).bind (a.merge ·) := by
  cases a <;> cases b <;> cases c <;> rfl

theorem wordUse_merge_idem (a : WordUse) : a.merge a = some a := by
  simp [WordUse.merge]

/-- A join is definitely signed iff one of its arguments is. -/
theorem wordUse_merge_signed (a b u : WordUse) (h : a.merge b = some u) :
    u.isDefinitelySigned = (a.isDefinitelySigned || b.isDefinitelySigned) := by
  cases a <;> cases b <;> simp [WordUse.merge] at h <;> subst h <;> rfl

/-! ## Width join and the word × word arm -/

def wjoin : Option Nat → Option Nat → Option (Option Nat)
  | some a, some b => if a = b then some (some a) else none
  | some a, none => some (some a)
  | none, some b => some (some b)
  | none, none => some none

theorem wjoin_comm (a b : Option Nat) : wjoin a b = wjoin b a := by
  cases a <;> cases b <;> simp [wjoin]
  rename_i x y
  by_cases h : x = y
  · subst h; simp
  · have h' : ¬ y = x := fun e => h e.symm
    simp [h, h']

theorem wjoin_idem (a : Option Nat) : wjoin a a = some a := by
  cases a <;> simp [wjoin]

theorem wjoin_assoc (a b c : Option Nat) :
    (wjoin a b).bind (wjoin · c) = (wjoin b c).bind (wjoin a ·) := by
  cases a <;> cases b <;> cases c <;> simp [wjoin]
  · rename_i x y
    by_cases h : x = y <;> simp [h, wjoin]
  · rename_i x y
    by_cases h : x = y <;> simp [h, wjoin]
  · rename_i x y z
    by_cases h1 : x = y <;> by_cases h2 : y = z <;> (try subst h1) <;> (try subst h2) <;>
      simp [wjoin, *]

/-- word × word: join the widths and the usages; `none` is a conflict. -/
def wj (w1 : Option Nat) (u1 : WordUse) (w2 : Option Nat) (u2 : WordUse) :
    Option (Option Nat × WordUse) :=
  (wjoin w1 w2).bind fun w => (u1.merge u2).bind fun u => some (w, u)

def toTE : Option (Option Nat × WordUse) → TE
  | some (w, u) => .word w u
  | none => .conflict

theorem wj_comm (w1 u1 w2 u2) : wj w1 u1 w2 u2 = wj w2 u2 w1 u1 := by
  simp [wj, wjoin_comm w1 w2, wordUse_merge_comm u1 u2]

theorem wj_idem (w u) : wj w u w u = some (w, u) := by
  simp [wj, wjoin_idem, wordUse_merge_idem]

theorem wj_assoc (w1 u1 w2 u2 w3 u3) :
    (wj w1 u1 w2 u2).bind (fun p => wj p.1 p.2 w3 u3) =
    (wj w2 u2 w3 u3).bind (fun p => wj w1 u1 p.1 p.2) := by
  have hw := wjoin_assoc w1 w2 w3
  have hu := wordUse_merge_assoc u1 u2 u3
  unfold wj
  cases h12 : wjoin w1 w2 <;> cases h23 : wjoin w2 w3 <;>
    cases g12 : u1.merge u2 <;> cases g23 : u2.merge u3 <;>
    (rw [h12, h23] at hw; rw [g12, g23] at hu; clear h12 h23 g12 g23; simp_all) <;>
    first | (simp [← hu]; done) | (simp [← hw]; done)

theorem wj_signed {w1 u1 w2 u2 w u} (h : wj w1 u1 w2 u2 = some (w, u)) :
    u.isDefinitelySigned = (u1.isDefinitelySigned || u2.isDefinitelySigned) := by
  unfold wj at h
  cases h1 : wjoin w1 w2 <;> cases h2 : u1.merge u2 <;> simp [h1, h2] at h
  exact h.2 ▸ wordUse_merge_signed _ _ _ h2

/-! ## Closed form of `merge` on the fragment -/

/-- The arms of `merge` that remain on the fragment, as a plain function (no `Except`, no
counter, no leading `if l = r`). -/
def outcomeN : TE → TE → Outcome
  | .conflict, _ => (.conflict, [])
  | _, .conflict => (.conflict, [])
  | .word w1 u1, .word w2 u2 => (toTE (wj w1 u1 w2 u2), [])
  | .word _ u, .bytes => (if u.isDefinitelySigned then .conflict else .bytes, [])
  | .bytes, .word _ u => (if u.isDefinitelySigned then .conflict else .bytes, [])
  | .bytes, .bytes => (.bytes, [])
  | .dynamicArray _, .bytes => (.bytes, [])
  | .bytes, .dynamicArray _ => (.bytes, [])
  | .word _ u, .dynamicArray e => (if u.isDefinitelySigned then .conflict else .dynamicArray e, [])
  | .dynamicArray e, .word _ u => (if u.isDefinitelySigned then .conflict else .dynamicArray e, [])
  | .dynamicArray a, .dynamicArray b => (.dynamicArray a, [(a, b)])
  | .fixedArray a la, .fixedArray b lb =>
    if la = lb then (.fixedArray a la, [(a, b)]) else (.conflict, [])
  | .mapping k1 v1, .mapping k2 v2 => (.mapping k1 v1, [(k1, k2), (v1, v2)])
  | x, .any => (x, [])
  | .any, x => (x, [])
  | _, _ => (.conflict, [])

/-- Exact closed form: equal inputs short-circuit. -/
def outcomeE (a b : TE) : Outcome := if a = b then (a, []) else outcomeN a b

theorem merge_closed (a b : TE) (ha : PF a = true) (hb : PF b = true) (p n : Nat) :
    merge a b p n = .ok { expr := (outcomeE a b).1, eqs := (outcomeE a b).2, next := n } := by
  unfold outcomeE merge
  by_cases h : a = b
  · simp [h, out]
  · simp only [h, if_false]
    cases a <;> simp [PF] at ha <;> cases b <;> simp [PF] at hb
    case word.word wl ul wr ur =>
      simp only [outcomeN]
      cases wl <;> cases wr <;> cases hm : ul.merge ur <;> simp [wj, wjoin, toTE, hm, out] <;>
        split <;> simp_all [toTE]
    all_goals simp [outcomeN, out] at h ⊢
    all_goals (try split) <;> try simp_all

theorem outcome_eq (a b : TE) (ha : PF a = true) (hb : PF b = true) :
    outcome a b = outcomeE a b := by
  simp [outcome, merge_closed a b ha hb]

theorem toTE_pf (o) : PF (toTE o) = true := by
  cases o <;> rfl

theorem outcomeN_pf (a b : TE) (ha : PF a = true) (hb : PF b = true) :
    PF (outcomeN a b).1 = true := by
  cases a <;> simp [PF] at ha <;> cases b <;> simp [PF] at hb <;>
    simp only [outcomeN] <;> first | rfl | exact toTE_pf _ | (split <;> rfl)

/-- 2a. The fragment is closed under `merge`. -/
theorem outcome_pf (a b : TE) (ha : PF a = true) (hb : PF b = true) :
    PF (outcome a b).1 = true := by
  rw [outcome_eq a b ha hb]
  unfold outcomeE
  split
  · exact ha
  · exact outcomeN_pf a b ha hb

/-- 2b. On the fragment `merge` never faults (the two `panic!` arms are unreachable), ignores
`parent` and the counter, and emits no judgements and no new variables. -/
theorem merge_pf_indep (a b : TE) (ha : PF a = true) (hb : PF b = true) (p n : Nat) :
    ∃ m, merge a b p n = .ok m ∧ m.expr = (outcome a b).1 ∧ m.eqs = (outcome a b).2 ∧
      m.judgements = [] ∧ m.newVars = [] ∧ m.next = n := by
  refine ⟨_, merge_closed a b ha hb p n, ?_⟩
  simp [outcome_eq a b ha hb]

/-! ## Equivalence closures -/

theorem Equiv.mono {E1 E2 : List (Nat × Nat)} (h : ∀ p ∈ E1, Equiv E2 p.1 p.2) {x y : Nat}
    (e : Equiv E1 x y) : Equiv E2 x y := by
  induction e with
  | base hm => exact h _ hm
  | refl => exact .refl _
  | symm _ ih => exact ih.symm
  | trans _ _ ih1 ih2 => exact ih1.trans ih2

theorem Equiv.nil_eq {x y : Nat} (e : Equiv [] x y) : x = y := by
  induction e with
  | base hm => cases hm
  | refl => rfl
  | symm _ ih => exact ih.symm
  | trans _ _ ih1 ih2 => exact ih1.trans ih2

/-- Two equality lists with the same closure. -/
def EqvL (E1 E2 : List (Nat × Nat)) : Prop := ∀ x y, Equiv E1 x y ↔ Equiv E2 x y

theorem EqvL.of_gens {E1 E2 : List (Nat × Nat)} (h1 : ∀ p ∈ E1, Equiv E2 p.1 p.2)
    (h2 : ∀ p ∈ E2, Equiv E1 p.1 p.2) : EqvL E1 E2 :=
  fun _ _ => ⟨Equiv.mono h1, Equiv.mono h2⟩

theorem EqvL.refl (E) : EqvL E E := fun _ _ => Iff.rfl

theorem EqvL.symm {E1 E2} (h : EqvL E1 E2) : EqvL E2 E1 := fun x y => (h x y).symm

theorem EqvL.append {A A' B B' : List (Nat × Nat)} (h1 : EqvL A A') (h2 : EqvL B B') :
    EqvL (A ++ B) (A' ++ B') := by
  apply EqvL.of_gens
  · intro p hp
    rcases List.mem_append.1 hp with hp | hp
    · exact Equiv.mono (fun q hq => .base (List.mem_append_left _ hq)) ((h1 _ _).1 (.base hp))
    · exact Equiv.mono (fun q hq => .base (List.mem_append_right _ hq)) ((h2 _ _).1 (.base hp))
  · intro p hp
    rcases List.mem_append.1 hp with hp | hp
    · exact Equiv.mono (fun q hq => .base (List.mem_append_left _ hq)) ((h1 _ _).2 (.base hp))
    · exact Equiv.mono (fun q hq => .base (List.mem_append_right _ hq)) ((h2 _ _).2 (.base hp))

theorem ExprEqMod.congr {E1 E2} (h : EqvL E1 E2) (x y : TE) :
    ExprEqMod E1 x y ↔ ExprEqMod E2 x y := by
  cases x <;> cases y <;> simp [ExprEqMod, h _ _]

theorem ExprEqMod.refl (E) (x : TE) : ExprEqMod E x x := by
  cases x <;> simp [ExprEqMod, Equiv.refl]

theorem OutEq.congr {o1 o1' o2 o2' : Outcome} (e1 : o1.1 = o1'.1) (q1 : EqvL o1.2 o1'.2)
    (e2 : o2.1 = o2'.1) (q2 : EqvL o2.2 o2'.2) : OutEq o1 o2 ↔ OutEq o1' o2' := by
  unfold OutEq
  rw [e1, e2, ExprEqMod.congr q1]
  have : (∀ x y, Equiv o1.2 x y ↔ Equiv o2.2 x y) ↔ (∀ x y, Equiv o1'.2 x y ↔ Equiv o2'.2 x y) := by
    constructor
    · intro h x y; rw [← q1 x y, ← q2 x y]; exact h x y
    · intro h x y; rw [q1 x y, q2 x y]; exact h x y
  rw [this]

theorem OutEq.conf {o1 o2 : Outcome} (h1 : o1.1 = .conflict) (h2 : o2.1 = .conflict) : OutEq o1 o2 :=
  .inl ⟨h1, h2⟩

theorem OutEq.same {o1 o2 : Outcome} (h1 : o1.1 = o2.1) (h2 : EqvL o1.2 o2.2) : OutEq o1 o2 := by
  by_cases h : o1.1 = .conflict
  · exact .inl ⟨h, h1 ▸ h⟩
  · exact .inr ⟨h, h1 ▸ h, h2, h1 ▸ ExprEqMod.refl _ _⟩

/-! ## `outcome` versus its normal form -/

theorem outcomeN_self_fst (a : TE) (ha : PF a = true) : (outcomeN a a).1 = a := by
  cases a <;> simp [PF] at ha <;> simp [outcomeN, wj_idem, toTE]

theorem outcomeN_self_snd (a : TE) (ha : PF a = true) : EqvL [] (outcomeN a a).2 := by
  cases a <;> simp [PF] at ha <;> simp [outcomeN, EqvL.refl] <;>
    (apply EqvL.of_gens <;> simp [Equiv.refl])

theorem outcome_fst (a b : TE) (ha : PF a = true) (hb : PF b = true) :
    (outcome a b).1 = (outcomeN a b).1 := by
  rw [outcome_eq a b ha hb]; unfold outcomeE
  split
  · rename_i h; subst h; exact (outcomeN_self_fst a ha).symm
  · rfl

theorem outcome_snd (a b : TE) (ha : PF a = true) (hb : PF b = true) :
    EqvL (outcome a b).2 (outcomeN a b).2 := by
  rw [outcome_eq a b ha hb]; unfold outcomeE
  split
  · rename_i h; subst h; exact outcomeN_self_snd a ha
  · exact EqvL.refl _

def gL (a b c : TE) : Outcome :=
  ((outcomeN (outcomeN a b).1 c).1, (outcomeN a b).2 ++ (outcomeN (outcomeN a b).1 c).2)

def gR (a b c : TE) : Outcome :=
  ((outcomeN a (outcomeN b c).1).1, (outcomeN b c).2 ++ (outcomeN a (outcomeN b c).1).2)

theorem groupL_fst (a b c : TE) (ha : PF a = true) (hb : PF b = true) (hc : PF c = true) :
    (groupL a b c).1 = (gL a b c).1 := by
  show (outcome (outcome a b).1 c).1 = _
  rw [outcome_fst _ _ (outcome_pf a b ha hb) hc, outcome_fst a b ha hb]; rfl

theorem groupL_snd (a b c : TE) (ha : PF a = true) (hb : PF b = true) (hc : PF c = true) :
    EqvL (groupL a b c).2 (gL a b c).2 := by
  show EqvL ((outcome a b).2 ++ (outcome (outcome a b).1 c).2) _
  refine EqvL.append (outcome_snd a b ha hb) ?_
  have := outcome_snd _ _ (outcome_pf a b ha hb) hc
  rw [outcome_fst a b ha hb] at this ⊢
  exact this

theorem groupR_fst (a b c : TE) (ha : PF a = true) (hb : PF b = true) (hc : PF c = true) :
    (groupR a b c).1 = (gR a b c).1 := by
  show (outcome a (outcome b c).1).1 = _
  rw [outcome_fst _ _ ha (outcome_pf b c hb hc), outcome_fst b c hb hc]; rfl

theorem groupR_snd (a b c : TE) (ha : PF a = true) (hb : PF b = true) (hc : PF c = true) :
    EqvL (groupR a b c).2 (gR a b c).2 := by
  show EqvL ((outcome b c).2 ++ (outcome a (outcome b c).1).2) _
  refine EqvL.append (outcome_snd b c hb hc) ?_
  have := outcome_snd _ _ ha (outcome_pf b c hb hc)
  rw [outcome_fst b c hb hc] at this ⊢
  exact this

/-! ## 3. Commutativity -/

theorem forall_mem_cons' {α} {P : α → Prop} {x : α} {xs : List α} :
    (∀ p ∈ x :: xs, P p) ↔ P x ∧ ∀ p ∈ xs, P p := List.forall_mem_cons

theorem forall_mem_nil' {α} {P : α → Prop} : (∀ p ∈ ([] : List α), P p) ↔ True := by simp

/-- close `Equiv E x y` when it is a generator, a flipped generator or reflexivity -/
macro "equiv1" : tactic =>
  `(tactic| first
    | exact Equiv.refl _
    | (apply Equiv.base; simp; done)
    | (apply Equiv.symm; apply Equiv.base; simp; done))

macro "eqvl" : tactic =>
  `(tactic| (apply EqvL.of_gens <;>
      simp only [forall_mem_cons', forall_mem_nil', and_true, List.nil_append, List.cons_append] <;>
      (repeat' apply And.intro) <;> equiv1))

theorem commN (a b : TE) (ha : PF a = true) (hb : PF b = true) :
    OutEq (outcomeN a b) (outcomeN b a) := by
  cases a <;> simp [PF] at ha <;> cases b <;> simp [PF] at hb
  case word.word =>
    simp only [outcomeN]; rw [wj_comm]; exact OutEq.same rfl (EqvL.refl _)
  case dynamicArray.dynamicArray x y =>
    refine .inr ⟨by simp [outcomeN], by simp [outcomeN], ?_, ?_⟩
    · show EqvL [(x, y)] [(y, x)]; eqvl
    · show Equiv [(x, y)] x y; equiv1
  case mapping.mapping k1 v1 k2 v2 =>
    refine .inr ⟨by simp [outcomeN], by simp [outcomeN], ?_, ?_⟩
    · show EqvL [(k1, k2), (v1, v2)] [(k2, k1), (v2, v1)]; eqvl
    · show Equiv [(k1, k2), (v1, v2)] k1 k2 ∧ Equiv [(k1, k2), (v1, v2)] v1 v2
      constructor <;> equiv1
  case fixedArray.fixedArray x lx y ly =>
    simp only [outcomeN]
    by_cases h : lx = ly
    · subst h
      simp only [if_true]
      refine .inr ⟨by simp, by simp, ?_, ?_⟩
      · show EqvL [(x, y)] [(y, x)]; eqvl
      · show lx = lx ∧ Equiv [(x, y)] x y
        exact ⟨rfl, by equiv1⟩
    · have h' : ¬ ly = lx := fun e => h e.symm
      simp only [h, h', if_false]
      exact OutEq.conf rfl rfl
  all_goals exact OutEq.same (by simp [outcomeN]) (by simp [outcomeN, EqvL.refl])

/-- 3. Commutativity at full strength. -/
theorem merge_comm (a b : TE) (ha : PF a = true) (hb : PF b = true) :
    OutEq (outcome a b) (outcome b a) :=
  (OutEq.congr (outcome_fst a b ha hb) (outcome_snd a b ha hb)
    (outcome_fst b a hb ha) (outcome_snd b a hb ha)).2 (commN a b ha hb)

/-! ## 4. Associativity -/

def conflictsN (a b : TE) : Bool := (outcomeN a b).1 == .conflict

def BadN (a b c : TE) : Bool :=
  (absorber a && nsWord b && nsWord c && conflictsN b c) ||
  (absorber c && nsWord a && nsWord b && conflictsN a b) ||
  (match a, b, c with
   | .bytes, .dynamicArray x, .dynamicArray y => x != y
   | .dynamicArray x, .dynamicArray y, .bytes => x != y
   | _, _, _ => false)

theorem conflicts_eq (a b : TE) (ha : PF a = true) (hb : PF b = true) :
    conflicts a b = conflictsN a b := by
  simp only [conflicts, conflictsN, outcome_fst a b ha hb]

theorem Bad_eq (a b c : TE) (ha : PF a = true) (hb : PF b = true) (hc : PF c = true) :
    Bad a b c = BadN a b c := by
  simp only [Bad, BadN, conflicts_eq a b ha hb, conflicts_eq b c hb hc]
  rfl

/-- Case analysis on the fragment, with words split into definitely-signed and not. -/
@[elab_as_elim]
theorem PF_rec {motive : (a : TE) → PF a = true → Prop}
    (any : motive .any rfl)
    (wordS : ∀ w, motive (.word w .signedNumeric) rfl)
    (wordN : ∀ w u, u.isDefinitelySigned = false → motive (.word w u) rfl)
    (bytes : motive .bytes rfl)
    (fixedArray : ∀ e l, motive (.fixedArray e l) rfl)
    (mapping : ∀ k v, motive (.mapping k v) rfl)
    (dynamicArray : ∀ e, motive (.dynamicArray e) rfl)
    (conflict : motive .conflict rfl) : ∀ a h, motive a h := by
  intro a h
  cases a
  case equal => simp [PF] at h
  case packed => simp [PF] at h
  case word w u =>
    cases hs : u.isDefinitelySigned
    · exact wordN w u hs
    · cases u <;> simp [WordUse.isDefinitelySigned] at hs
      exact wordS w
  all_goals first | exact any | exact bytes | exact fixedArray _ _ | exact mapping _ _
                  | exact dynamicArray _ | exact conflict

def okW : Option (Option Nat × WordUse) → Bool
  | some (_, u) => !u.isDefinitelySigned
  | none => false

theorem okW_wj (w1 u1 w2 u2) : okW (wj w1 u1 w2 u2) =
    ((wj w1 u1 w2 u2).isSome && !u1.isDefinitelySigned && !u2.isDefinitelySigned) := by
  cases h : wj w1 u1 w2 u2 with
  | none => rfl
  | some p =>
    obtain ⟨w, u⟩ := p
    simp [okW, wj_signed h, Bool.and_assoc]

theorem okW_none : okW none = false := rfl

theorem toTE_eq_conflict (o) : toTE o = .conflict ↔ o = none := by
  cases o <;> simp [toTE]

/-! ### Evaluation lemmas for `outcomeN` (one per pair of constructors) -/

theorem oN_any_l (x : TE) : outcomeN .any x = (x, []) := by cases x <;> rfl
theorem oN_any_r (x : TE) : outcomeN x .any = (x, []) := by cases x <;> rfl
theorem oN_conf_l (x : TE) : outcomeN .conflict x = (.conflict, []) := by cases x <;> rfl
theorem oN_conf_r (x : TE) : outcomeN x .conflict = (.conflict, []) := by cases x <;> rfl
theorem oN_WW (w1 u1 w2 u2) : outcomeN (.word w1 u1) (.word w2 u2) = (toTE (wj w1 u1 w2 u2), []) := rfl
theorem oN_WB (w1 u1) : outcomeN (.word w1 u1) .bytes = (if u1.isDefinitelySigned then .conflict else .bytes, []) := rfl
theorem oN_WF (w1 u1 e2 l2) : outcomeN (.word w1 u1) (.fixedArray e2 l2) = (.conflict, []) := rfl
theorem oN_WM (w1 u1 k2 v2) : outcomeN (.word w1 u1) (.mapping k2 v2) = (.conflict, []) := rfl
theorem oN_WD (w1 u1 e2) : outcomeN (.word w1 u1) (.dynamicArray e2) = (if u1.isDefinitelySigned then .conflict else .dynamicArray e2, []) := rfl
theorem oN_BW (w2 u2) : outcomeN .bytes (.word w2 u2) = (if u2.isDefinitelySigned then .conflict else .bytes, []) := rfl
theorem oN_BB : outcomeN .bytes .bytes = (.bytes, []) := rfl
theorem oN_BF (e2 l2) : outcomeN .bytes (.fixedArray e2 l2) = (.conflict, []) := rfl
theorem oN_BM (k2 v2) : outcomeN .bytes (.mapping k2 v2) = (.conflict, []) := rfl
theorem oN_BD (e2) : outcomeN .bytes (.dynamicArray e2) = (.bytes, []) := rfl
theorem oN_FW (e1 l1 w2 u2) : outcomeN (.fixedArray e1 l1) (.word w2 u2) = (.conflict, []) := rfl
theorem oN_FB (e1 l1) : outcomeN (.fixedArray e1 l1) .bytes = (.conflict, []) := rfl
theorem oN_FF (e1 l1 e2 l2) : outcomeN (.fixedArray e1 l1) (.fixedArray e2 l2) = (if l1 = l2 then (.fixedArray e1 l1, [(e1, e2)]) else (.conflict, [])) := rfl
theorem oN_FM (e1 l1 k2 v2) : outcomeN (.fixedArray e1 l1) (.mapping k2 v2) = (.conflict, []) := rfl
theorem oN_FD (e1 l1 e2) : outcomeN (.fixedArray e1 l1) (.dynamicArray e2) = (.conflict, []) := rfl
theorem oN_MW (k1 v1 w2 u2) : outcomeN (.mapping k1 v1) (.word w2 u2) = (.conflict, []) := rfl
theorem oN_MB (k1 v1) : outcomeN (.mapping k1 v1) .bytes = (.conflict, []) := rfl
theorem oN_MF (k1 v1 e2 l2) : outcomeN (.mapping k1 v1) (.fixedArray e2 l2) = (.conflict, []) := rfl
theorem oN_MM (k1 v1 k2 v2) : outcomeN (.mapping k1 v1) (.mapping k2 v2) = (.mapping k1 v1, [(k1, k2), (v1, v2)]) := rfl
theorem oN_MD (k1 v1 e2) : outcomeN (.mapping k1 v1) (.dynamicArray e2) = (.conflict, []) := rfl
theorem oN_DW (e1 w2 u2) : outcomeN (.dynamicArray e1) (.word w2 u2) = (if u2.isDefinitelySigned then .conflict else .dynamicArray e1, []) := rfl
theorem oN_DB (e1) : outcomeN (.dynamicArray e1) .bytes = (.bytes, []) := rfl
theorem oN_DF (e1 e2 l2) : outcomeN (.dynamicArray e1) (.fixedArray e2 l2) = (.conflict, []) := rfl
theorem oN_DM (e1 k2 v2) : outcomeN (.dynamicArray e1) (.mapping k2 v2) = (.conflict, []) := rfl
theorem oN_DD (e1 e2) : outcomeN (.dynamicArray e1) (.dynamicArray e2) = (.dynamicArray e1, [(e1, e2)]) := rfl

theorem signed_signedNumeric : WordUse.signedNumeric.isDefinitelySigned = true := rfl

theorem outN_toTE_any (o) : outcomeN (toTE o) .any = (toTE o, []) := by
  rcases o with _ | ⟨w, u⟩ <;> simp [toTE, outcomeN]
theorem outN_any_toTE (o) : outcomeN .any (toTE o) = (toTE o, []) := by
  rcases o with _ | ⟨w, u⟩ <;> simp [toTE, outcomeN]
theorem outN_toTE_conflict (o) : outcomeN (toTE o) .conflict = (.conflict, []) := by
  rcases o with _ | ⟨w, u⟩ <;> simp [toTE, outcomeN]
theorem outN_toTE_fixed (o e l) : outcomeN (toTE o) (.fixedArray e l) = (.conflict, []) := by
  rcases o with _ | ⟨w, u⟩ <;> simp [toTE, outcomeN]
theorem outN_fixed_toTE (o e l) : outcomeN (.fixedArray e l) (toTE o) = (.conflict, []) := by
  rcases o with _ | ⟨w, u⟩ <;> simp [toTE, outcomeN]
theorem outN_toTE_mapping (o k v) : outcomeN (toTE o) (.mapping k v) = (.conflict, []) := by
  rcases o with _ | ⟨w, u⟩ <;> simp [toTE, outcomeN]
theorem outN_mapping_toTE (o k v) : outcomeN (.mapping k v) (toTE o) = (.conflict, []) := by
  rcases o with _ | ⟨w, u⟩ <;> simp [toTE, outcomeN]
theorem outN_toTE_bytes (o) :
    outcomeN (toTE o) .bytes = (if okW o then .bytes else .conflict, []) := by
  rcases o with _ | ⟨w, u⟩ <;> simp [toTE, outcomeN, okW]
  cases u.isDefinitelySigned <;> simp
theorem outN_bytes_toTE (o) :
    outcomeN .bytes (toTE o) = (if okW o then .bytes else .conflict, []) := by
  rcases o with _ | ⟨w, u⟩ <;> simp [toTE, outcomeN, okW]
  cases u.isDefinitelySigned <;> simp
theorem outN_toTE_dyn (o e) :
    outcomeN (toTE o) (.dynamicArray e) = (if okW o then .dynamicArray e else .conflict, []) := by
  rcases o with _ | ⟨w, u⟩ <;> simp [toTE, outcomeN, okW]
  cases u.isDefinitelySigned <;> simp
theorem outN_dyn_toTE (o e) :
    outcomeN (.dynamicArray e) (toTE o) = (if okW o then .dynamicArray e else .conflict, []) := by
  rcases o with _ | ⟨w, u⟩ <;> simp [toTE, outcomeN, okW]
  cases u.isDefinitelySigned <;> simp
theorem outN_toTE_word (o w u) :
    outcomeN (toTE o) (.word w u) = (toTE (o.bind fun p => wj p.1 p.2 w u), []) := by
  rcases o with _ | ⟨w', u'⟩ <;> simp [toTE, outcomeN]
theorem outN_word_toTE (o w u) :
    outcomeN (.word w u) (toTE o) = (toTE (o.bind fun p => wj w u p.1 p.2), []) := by
  rcases o with _ | ⟨w', u'⟩ <;> simp [toTE, outcomeN]

theorem oN_ite_l (c : Prop) [Decidable c] (x y z : TE) :
    outcomeN (if c then x else y) z = if c then outcomeN x z else outcomeN y z := by
  split <;> rfl
theorem oN_ite_r (c : Prop) [Decidable c] (x y z : TE) :
    outcomeN z (if c then x else y) = if c then outcomeN z x else outcomeN z y := by
  split <;> rfl
theorem fst_ite {α β} (c : Prop) [Decidable c] (x y : α × β) :
    (if c then x else y).1 = if c then x.1 else y.1 := by
  split <;> rfl
theorem snd_ite {α β} (c : Prop) [Decidable c] (x y : α × β) :
    (if c then x else y).2 = if c then x.2 else y.2 := by
  split <;> rfl

/-- evaluate `gL`/`gR` on constructor applications -/
macro "sS" : tactic => `(tactic| simp [gL, gR, oN_any_l, oN_any_r, oN_conf_l, oN_conf_r, oN_WW, oN_WB, oN_WF, oN_WM, oN_WD, oN_BW, oN_BB, oN_BF, oN_BM, oN_BD, oN_FW, oN_FB, oN_FF, oN_FM, oN_FD, oN_MW, oN_MB, oN_MF, oN_MM, oN_MD, oN_DW, oN_DB, oN_DF, oN_DM, oN_DD,
      signed_signedNumeric, toTE_eq_conflict, outN_toTE_any, outN_any_toTE, outN_toTE_conflict,
      outN_toTE_fixed, outN_fixed_toTE, outN_toTE_mapping, outN_mapping_toTE, outN_toTE_bytes,
      outN_bytes_toTE, outN_toTE_dyn, outN_dyn_toTE, outN_toTE_word, outN_word_toTE, okW_wj, okW_none,
      oN_ite_l, oN_ite_r, fst_ite, snd_ite, EqvL.refl, *])

theorem assoc_WWW (w1 u1 w2 u2 w3 u3) :
    OutEq (gL (.word w1 u1) (.word w2 u2) (.word w3 u3)) (gR (.word w1 u1) (.word w2 u2) (.word w3 u3)) := by
  apply OutEq.same
  · sS; exact congrArg toTE (wj_assoc _ _ _ _ _ _)
  · sS

theorem assoc_DDD (x y z) :
    OutEq (gL (.dynamicArray x) (.dynamicArray y) (.dynamicArray z))
      (gR (.dynamicArray x) (.dynamicArray y) (.dynamicArray z)) := by
  apply OutEq.same
  · sS
  · show EqvL ([(x, y)] ++ [(x, z)]) ([(y, z)] ++ [(x, y)])
    apply EqvL.of_gens <;>
      simp only [forall_mem_cons', forall_mem_nil', and_true, List.nil_append, List.cons_append]
    · exact ⟨by equiv1, Equiv.trans (y := y) (by equiv1) (by equiv1)⟩
    · exact ⟨Equiv.trans (y := x) (by equiv1) (by equiv1), by equiv1⟩

theorem assoc_MMM (k1 v1 k2 v2 k3 v3) :
    OutEq (gL (.mapping k1 v1) (.mapping k2 v2) (.mapping k3 v3))
      (gR (.mapping k1 v1) (.mapping k2 v2) (.mapping k3 v3)) := by
  apply OutEq.same
  · sS
  · show EqvL ([(k1, k2), (v1, v2)] ++ [(k1, k3), (v1, v3)]) ([(k2, k3), (v2, v3)] ++ [(k1, k2), (v1, v2)])
    apply EqvL.of_gens <;>
      simp only [forall_mem_cons', forall_mem_nil', and_true, List.nil_append, List.cons_append]
    · exact ⟨by equiv1, by equiv1, Equiv.trans (y := k2) (by equiv1) (by equiv1),
        Equiv.trans (y := v2) (by equiv1) (by equiv1)⟩
    · exact ⟨Equiv.trans (y := k1) (by equiv1) (by equiv1),
        Equiv.trans (y := v1) (by equiv1) (by equiv1), by equiv1, by equiv1⟩

theorem assoc_FFF (e1 l1 e2 l2 e3 l3) :
    OutEq (gL (.fixedArray e1 l1) (.fixedArray e2 l2) (.fixedArray e3 l3))
      (gR (.fixedArray e1 l1) (.fixedArray e2 l2) (.fixedArray e3 l3)) := by
  by_cases h12 : l1 = l2
  · by_cases h23 : l2 = l3
    · subst h12; subst h23
      apply OutEq.same
      · sS
      · have : EqvL ([(e1, e2)] ++ [(e1, e3)]) ([(e2, e3)] ++ [(e1, e2)]) := by
          apply EqvL.of_gens <;>
            simp only [forall_mem_cons', forall_mem_nil', and_true, List.nil_append, List.cons_append]
          · exact ⟨by equiv1, Equiv.trans (y := e2) (by equiv1) (by equiv1)⟩
          · exact ⟨Equiv.trans (y := e1) (by equiv1) (by equiv1), by equiv1⟩
        simpa [gL, gR, oN_FF] using this
    · have h13 : ¬ l1 = l3 := fun e => h23 (h12 ▸ e)
      apply OutEq.conf <;> sS
  · apply OutEq.conf <;> sS

/-- one case of the associativity case analysis -/
macro "assoc_case" : tactic => `(tactic| first
  | (intro hB
     (try simp [BadN, absorber, nsWord, conflictsN, oN_WW, oN_WB, oN_WF, oN_WM, oN_WD, oN_BW, oN_BB, oN_BF, oN_BM, oN_BD, oN_FW, oN_FB, oN_FF, oN_FM, oN_FD, oN_MW, oN_MB, oN_MF, oN_MM, oN_MD, oN_DW, oN_DB, oN_DF, oN_DM, oN_DD, signed_signedNumeric,
        toTE_eq_conflict, *] at hB) <;>
     first
     | (apply OutEq.same <;> first | (sS; done) | (sS; eqvl; done))
     | (apply OutEq.conf <;> (sS; done))))

theorem assocB_any (b c : TE) (hb : PF b = true) (hc : PF c = true) :
    BadN .any b c = false → OutEq (gL .any b c) (gR .any b c) := by
  induction b, hb using PF_rec <;> induction c, hc using PF_rec <;> assoc_case

theorem assocB_wordS (w : Option Nat) (b c : TE) (hb : PF b = true) (hc : PF c = true) :
    BadN (.word w .signedNumeric) b c = false → OutEq (gL (.word w .signedNumeric) b c) (gR (.word w .signedNumeric) b c) := by
  induction b, hb using PF_rec <;> induction c, hc using PF_rec
  case wordS.wordS => exact fun _ => assoc_WWW _ _ _ _ _ _
  case wordS.wordN => exact fun _ => assoc_WWW _ _ _ _ _ _
  case wordN.wordS => exact fun _ => assoc_WWW _ _ _ _ _ _
  case wordN.wordN => exact fun _ => assoc_WWW _ _ _ _ _ _
  all_goals assoc_case

theorem assocB_wordN (w : Option Nat) (u : WordUse) (hu : u.isDefinitelySigned = false) (b c : TE) (hb : PF b = true) (hc : PF c = true) :
    BadN (.word w u) b c = false → OutEq (gL (.word w u) b c) (gR (.word w u) b c) := by
  induction b, hb using PF_rec <;> induction c, hc using PF_rec
  case wordS.wordS => exact fun _ => assoc_WWW _ _ _ _ _ _
  case wordS.wordN => exact fun _ => assoc_WWW _ _ _ _ _ _
  case wordN.wordS => exact fun _ => assoc_WWW _ _ _ _ _ _
  case wordN.wordN => exact fun _ => assoc_WWW _ _ _ _ _ _
  all_goals assoc_case

theorem assocB_bytes (b c : TE) (hb : PF b = true) (hc : PF c = true) :
    BadN .bytes b c = false → OutEq (gL .bytes b c) (gR .bytes b c) := by
  induction b, hb using PF_rec <;> induction c, hc using PF_rec <;> assoc_case

theorem assocB_fixedArray (e l : Nat) (b c : TE) (hb : PF b = true) (hc : PF c = true) :
    BadN (.fixedArray e l) b c = false → OutEq (gL (.fixedArray e l) b c) (gR (.fixedArray e l) b c) := by
  induction b, hb using PF_rec <;> induction c, hc using PF_rec
  case fixedArray.fixedArray => exact fun _ => assoc_FFF _ _ _ _ _ _
  all_goals assoc_case

theorem assocB_mapping (k v : Nat) (b c : TE) (hb : PF b = true) (hc : PF c = true) :
    BadN (.mapping k v) b c = false → OutEq (gL (.mapping k v) b c) (gR (.mapping k v) b c) := by
  induction b, hb using PF_rec <;> induction c, hc using PF_rec
  case mapping.mapping => exact fun _ => assoc_MMM _ _ _ _ _ _
  all_goals assoc_case

theorem assocB_dynamicArray (e : Nat) (b c : TE) (hb : PF b = true) (hc : PF c = true) :
    BadN (.dynamicArray e) b c = false → OutEq (gL (.dynamicArray e) b c) (gR (.dynamicArray e) b c) := by
  induction b, hb using PF_rec <;> induction c, hc using PF_rec
  case dynamicArray.dynamicArray => exact fun _ => assoc_DDD _ _ _
  all_goals assoc_case

theorem assocB_conflict (b c : TE) (hb : PF b = true) (hc : PF c = true) :
    BadN .conflict b c = false → OutEq (gL .conflict b c) (gR .conflict b c) := by
  induction b, hb using PF_rec <;> induction c, hc using PF_rec <;> assoc_case

/-- Outside `Bad`, the two groupings agree. -/
theorem assocB (a b c : TE) (ha : PF a = true) (hb : PF b = true) (hc : PF c = true) :
    BadN a b c = false → OutEq (gL a b c) (gR a b c) := by
  induction a, ha using PF_rec with
  | any => exact assocB_any b c hb hc
  | wordS w => exact assocB_wordS w b c hb hc
  | wordN w u hu => exact assocB_wordN w u hu b c hb hc
  | bytes => exact assocB_bytes b c hb hc
  | fixedArray e l => exact assocB_fixedArray e l b c hb hc
  | mapping k v => exact assocB_mapping k v b c hb hc
  | dynamicArray e => exact assocB_dynamicArray e b c hb hc
  | conflict => exact assocB_conflict b c hb hc

/-- Inside `Bad`, the two groupings differ. -/
theorem badN_not (a b c : TE) (h : BadN a b c = true) : ¬ OutEq (gL a b c) (gR a b c) := by
  unfold BadN at h
  simp only [Bool.or_eq_true, Bool.and_eq_true] at h
  rcases h with (⟨⟨⟨h1, h2⟩, h3⟩, h4⟩ | ⟨⟨⟨h1, h2⟩, h3⟩, h4⟩) | h
  · -- an absorber swallows two conflicting non-signed words: left grouping survives
    cases b <;> simp [nsWord] at h2
    cases c <;> simp [nsWord] at h3
    simp [conflictsN, oN_WW, toTE_eq_conflict] at h4
    cases a <;> simp [absorber] at h1
    all_goals
      rintro (⟨h, _⟩ | ⟨_, h, _⟩)
      · revert h; sS
      · revert h; sS
  · cases a <;> simp [nsWord] at h2
    cases b <;> simp [nsWord] at h3
    simp [conflictsN, oN_WW, toTE_eq_conflict] at h4
    cases c <;> simp [absorber] at h1
    all_goals
      rintro (⟨_, h⟩ | ⟨h, _, _⟩)
      · revert h; sS
      · revert h; sS
  · split at h
    · rename_i x y
      have hxy : x ≠ y := by simpa using h
      rintro (⟨h, _⟩ | ⟨_, _, hq, _⟩)
      · revert h; sS
      · have hq' : EqvL ([] ++ []) ([(x, y)] ++ []) := hq
        exact hxy ((hq' x y).2 (.base (by simp))).nil_eq
    · rename_i x y
      have hxy : x ≠ y := by simpa using h
      rintro (⟨h, _⟩ | ⟨_, _, hq, _⟩)
      · revert h; sS
      · have hq' : EqvL ([(x, y)] ++ []) ([] ++ []) := hq
        exact hxy ((hq' x y).1 (.base (by simp))).nil_eq
    · cases h

/-- 4. Associativity, exactly characterised: the two groupings of three pieces of evidence agree
(up to conflict wording and choice of representatives) iff the triple is not in `Bad`. -/
theorem merge_assoc_iff (a b c : TE) (ha : PF a = true) (hb : PF b = true) (hc : PF c = true) :
    OutEq (groupL a b c) (groupR a b c) ↔ Bad a b c = false := by
  rw [OutEq.congr (groupL_fst a b c ha hb hc) (groupL_snd a b c ha hb hc)
    (groupR_fst a b c ha hb hc) (groupR_snd a b c ha hb hc), Bad_eq a b c ha hb hc]
  constructor
  · intro h
    cases hB : BadN a b c
    · rfl
    · exact absurd h (badN_not a b c hB)
  · exact assocB a b c ha hb hc

theorem merge_assoc_partial (a b c : TE) (ha : PF a = true) (hb : PF b = true) (hc : PF c = true)
    (h : Bad a b c = false) : OutEq (groupL a b c) (groupR a b c) :=
  (merge_assoc_iff a b c ha hb hc).2 h

/-- Finding D11: `bytes ⊔ (bool ⊔ address)` is a conflict, `(bytes ⊔ bool) ⊔ address` is `bytes`. -/
theorem merge_assoc_fails_witness :
    ¬ OutEq (groupL .bytes (.word (some 8) .bool) (.word (some 160) .address))
      (groupR .bytes (.word (some 8) .bool) (.word (some 160) .address)) := by
  rw [merge_assoc_iff _ _ _ rfl rfl rfl]
  decide

end SLE.MergeLaws
