import SLE.Lemmas.VMControl
/-
C01 — the analysis never crashes the process: the model constructs `XErr.panic` nowhere, neither
in the data effect of an instruction (`execOp`) nor in the machine loop (`step`/`advance`/`run`).
-/

/-- The error stands for a process-level crash. -/
def SLE.VM.XErr.isPanic : SLE.VM.XErr → Bool
  | .panic _ => true
  | _ => false

namespace SLE.VMNoPanic
open SLE SLE.SV SLE.VM
open SLE.Disasm (Instr)

/-! ### the stack / memory primitives only return the constructors they mention -/

theorem push_err {d : TData} {v : SV} {e : XErr} (h : push d v = .error e) : e.isPanic = false := by
  unfold push at h
  split at h
  · cases h; rfl
  · cases h

theorem pop_err {d : TData} {e : XErr} (h : pop d = .error e) : e.isPanic = false := by
  unfold pop at h
  split at h
  · cases h; rfl
  · cases h

theorem dup_err {d : TData} {n : Nat} {e : XErr} (h : dup d n = .error e) : e.isPanic = false := by
  unfold dup at h
  split at h
  · cases h; rfl
  · split at h
    · exact push_err h
    · cases h; rfl

theorem swap_err {d : TData} {n : Nat} {e : XErr} (h : swap d n = .error e) : e.isPanic = false := by
  unfold swap at h
  split at h
  · cases h; rfl
  · split at h
    · cases h; rfl
    · split at h
      · cases h
      · cases h; rfl

theorem popN_err : ∀ (n : Nat) (d : TData) (acc : List SV) {e : XErr} {d' : TData},
    popN n d acc = .error (e, d') → e.isPanic = false
  | 0, _, _, _, _, h => by cases h
  | n + 1, d, acc, e, d', h => by
    unfold popN at h
    split at h
    · rename_i e0 hp
      cases h
      exact pop_err hp
    · exact popN_err n _ _ h

/-- `Memory::load_slice` never fails. -/
theorem memLoadSlice_err {c : Ctx} {d : TData} {off size : SV} {e : XErr}
    (h : memLoadSlice c d off size = .error e) : e.isPanic = false := by
  unfold memLoadSlice at h
  split_all at h
  all_goals cases h

theorem validateJump_err {code : List Instr} {counter : SV} {e : XErr}
    (h : validateJump code counter = .error e) : e.isPanic = false := by
  have := validateJump_error h
  cases e <;> first | rfl | cases this

/-! ### outputs without a panic -/

/-- Neither the hard nor the soft error of the output is a panic. -/
def NP (o : OpOut) : Prop :=
  (∀ e, o.err = some e → e.isPanic = false) ∧ (∀ e, o.softErr = some e → e.isPanic = false)

theorem np_fail (d : TData) (ctr : Nat) {e : XErr} (he : e.isPanic = false) : NP (fail d ctr e) := by
  constructor
  · intro e' h; cases h; exact he
  · intro e' h; cases h

theorem np_plain (d : TData) (ctr : Nat) (k : Bool) (j f : Option Nat) :
    NP { d := d, ctr := ctr, kill := k, jumpTo := j, forkTo := f } := by
  constructor <;> intro e h <;> cases h

theorem np_soft (d : TData) (ctr : Nat) {e : XErr} (he : e.isPanic = false) :
    NP { d := d, ctr := ctr, softErr := some e } := by
  constructor
  · intro e' h; cases h
  · intro e' h; cases h; exact he

theorem np_pushOut (d : TData) (ctr : Nat) (v : SV) : NP (pushOut d ctr v) := by
  unfold pushOut; split
  · exact np_plain ..
  · exact np_fail _ _ (push_err ‹_›)

/-- close a leaf of the case analysis -/
macro "np_leaf" : tactic =>
  `(tactic| first
    | exact np_plain ..
    | exact np_pushOut ..
    | exact np_fail _ _ rfl
    | exact np_fail _ _ (pop_err ‹_›)
    | exact np_fail _ _ (popN_err _ _ _ ‹_›)
    | exact np_fail _ _ (dup_err ‹_›)
    | exact np_fail _ _ (swap_err ‹_›)
    | exact np_fail _ _ (memLoadSlice_err ‹_›)
    | exact np_fail _ _ (validateJump_err ‹_›)
    | exact np_soft _ _ (validateJump_err ‹_›))

theorem np_copyOp (c : Ctx) (d : TData) (ctr : Nat) (k : Kind) (wa : Bool) (bound : Nat) :
    NP (copyOp c d ctr k wa bound) := by
  unfold copyOp
  split_all
  all_goals np_leaf

theorem np_callOp (c : Ctx) (d : TData) (ctr : Nat) (wv : Bool) : NP (callOp c d ctr wv) := by
  unfold callOp
  split_all
  all_goals np_leaf

theorem np_ite {p : Prop} [Decidable p] {a b : OpOut} (ha : p → NP a) (hb : ¬p → NP b) :
    NP (if p then a else b) := by
  split
  · exact ha ‹_›
  · exact hb ‹_›

set_option maxRecDepth 8000 in
theorem execOp_np (c : Ctx) (code : List Instr) (ins : Instr) (d : TData) (ctr : Nat) :
    NP (execOp c code ins d ctr) := by
  unfold execOp
  split
  · exact np_plain ..
  · exact np_plain ..
  · exact np_pushOut ..
  · rename_i b
    repeat' (refine np_ite (fun _ => ?_) (fun _ => ?_))
    all_goals first
      | np_leaf
      | exact np_copyOp ..
      | exact np_callOp ..
      | (split_all
         all_goals np_leaf)

/-- P1. The data effect of an instruction never reports a panic. -/
theorem execOp_no_panic : ∀ c code ins d ctr,
    (∀ e, (execOp c code ins d ctr).err = some e → e.isPanic = false) ∧
    (∀ e, (execOp c code ins d ctr).softErr = some e → e.isPanic = false) :=
  fun c code ins d ctr => execOp_np c code ins d ctr

/-! ### the machine loop -/

/-- No recorded error and no abort reason is a panic. -/
def Clean (s : VMS) : Prop :=
  (∀ p ∈ s.errors, p.2.isPanic = false) ∧ (∀ e, s.aborted = some e → e.isPanic = false)

theorem clean_init (cfg : Cfg) (code : List Instr) : Clean (initVM cfg code) := by
  constructor
  · intro p h; cases h
  · intro e h; cases h

theorem clean_advance {cfg : Cfg} {code : List Instr} {s : VMS} (h : Clean s) :
    Clean (advance cfg code s) := by
  cases hq : s.queue with
  | nil =>
    rw [advance_nil hq]
    exact ⟨h.1, fun e he => by cases he; rfl⟩
  | cons t rest =>
    rw [advance_cons hq]
    split
    · refine ⟨fun p hp => ?_, h.2⟩
      dsimp only at hp
      split at hp
      · rcases (mem_insertLocated _ _ _).mp hp with hp | hp
        · exact h.1 p hp
        · rw [hp]; rfl
      · exact h.1 p hp
    · exact h

theorem clean_midOk {cfg : Cfg} {s : VMS} (t : Thread) (rest : List Thread) (ins : Instr)
    {o : OpOut} (h : Clean s) (ho : ∀ e, o.softErr = some e → e.isPanic = false) :
    Clean (midOk cfg s t rest ins o) := by
  unfold midOk
  dsimp only
  split
  · exact h
  · split
    · split
      · exact h
      · exact h
    · split
      · rename_i e he
        refine ⟨fun p hp => ?_, h.2⟩
        dsimp only at hp
        split at hp
        · exact h.1 p hp
        · rcases List.mem_append.mp hp with hp | hp
          · exact h.1 p hp
          · rw [List.mem_singleton.mp hp]; exact ho e he
      · exact h

theorem clean_midErr {cfg : Cfg} {s : VMS} (t : Thread) (rest : List Thread) (o : OpOut)
    {e : XErr} (h : Clean s) (he : e.isPanic = false) : Clean (midErr cfg s t rest o e) := by
  unfold midErr
  refine ⟨fun p hp => ?_, h.2⟩
  dsimp only at hp
  split at hp
  · exact h.1 p hp
  · rcases List.mem_append.mp hp with hp | hp
    · exact h.1 p hp
    · rw [List.mem_singleton.mp hp]; exact he

/-- P2. One iteration of the machine loop keeps the state free of panics. -/
theorem step_no_panic {cfg : Cfg} {code : List Instr} {s : VMS} (h : Clean s) :
    Clean (step cfg code s) := by
  cases hq : s.queue with
  | nil => rw [step_nil hq]; exact h
  | cons t rest =>
    cases hi : code[t.ip]? with
    | none =>
      rw [step_oob hq hi]
      exact ⟨h.1, fun e he => by cases he; rfl⟩
    | some ins =>
      have hnp : NP (opOut cfg code s t ins) := execOp_np ..
      cases he : (opOut cfg code s t ins).err with
      | none =>
        rw [step_ok hq hi he]
        exact clean_advance (clean_midOk t rest ins h hnp.2)
      | some e =>
        have hne : e.isPanic = false := hnp.1 e he
        have hp : ∀ site, e ≠ .panic site := fun site hs => by rw [hs] at hne; cases hne
        rw [step_err hq hi he hp]
        exact clean_advance (clean_midErr t rest _ h hne)

theorem run_clean (cfg : Cfg) (code : List Instr) :
    ∀ (fuel : Nat) (s : VMS), Clean s → Clean (run cfg code fuel s)
  | 0, _, h => h
  | fuel + 1, s, h => by
    unfold run
    split
    · exact h
    · exact run_clean cfg code fuel _ (step_no_panic h)

/-- P2. The whole run keeps the state free of panics. -/
theorem run_no_panic : ∀ cfg code fuel, Clean (run cfg code fuel (initVM cfg code)) :=
  fun cfg code fuel => run_clean cfg code fuel _ (clean_init cfg code)

/-- P3 (C01). The analysis never aborts with, nor records, a panic. -/
theorem run_never_panics : ∀ cfg code fuel site,
    (run cfg code fuel (initVM cfg code)).aborted ≠ some (.panic site) ∧
    ∀ l, (l, XErr.panic site) ∉ (run cfg code fuel (initVM cfg code)).errors := by
  intro cfg code fuel site
  have h := run_no_panic cfg code fuel
  refine ⟨fun ha => ?_, fun l hl => ?_⟩
  · have := h.2 _ ha
    cases this
  · have := h.1 _ hl
    cases this

end SLE.VMNoPanic

section
open SLE SLE.SV SLE.VM
#print axioms SLE.VMNoPanic.execOp_no_panic
#print axioms SLE.VMNoPanic.step_no_panic
#print axioms SLE.VMNoPanic.run_no_panic
#print axioms SLE.VMNoPanic.run_never_panics
end
