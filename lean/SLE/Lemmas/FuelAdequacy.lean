import SLE.Model.Lift
import SLE.Model.TC
import SLE.Lemmas.Fold
import SLE.Lemmas.TCSlots
/-
Fuel adequacy: the fuel handed to the fuel-recursive passes of the model is always enough, i.e.
the result does not depend on the fuel once it exceeds the node count of the tree.
-/
namespace SLE.FuelAdequacy
open SLE SLE.SV SLE.Lift SLE.TC

/-! ### node-count helpers -/

theorem nc_mem {ks : List SV} {c : SV} (h : c ∈ ks) : nodeCount c ≤ nodeCountList ks :=
  SLE.TCSlots.nodeCount_le_of_mem ks c h

theorem nc_kid {k a ks s} {c : SV} {fuel : Nat} (h : nodeCount (.node k a ks s) < fuel + 1)
    (hc : c ∈ ks) : nodeCount c < fuel := by
  have := nc_mem hc
  simp only [nodeCount] at h
  omega

theorem mapE_congr {α β ε : Type} {f g : α → Except ε β} :
    ∀ {l : List α}, (∀ x ∈ l, f x = g x) → mapE f l = mapE g l
  | [], _ => rfl
  | x :: xs, h => by
    simp only [mapE]
    rw [h x (by simp), mapE_congr (fun y hy => h y (List.mem_cons_of_mem _ hy))]

/-! ### F1: proxySlots -/

theorem proxySlots_agree (h : HashCtx) : ∀ f1 f2 t, nodeCount t < f1 → nodeCount t < f2 →
    proxySlots h f1 t = proxySlots h f2 t := by
  intro f1
  induction f1 with
  | zero => intros; omega
  | succ f1 ih =>
    intro f2 t h1 h2
    cases f2 with
    | zero => omega
    | succ f2 =>
      obtain ⟨k, a, ks, s⟩ := t
      have hk : ∀ c ∈ ks, proxySlots h f1 c = proxySlots h f2 c :=
        fun c hc => ih f2 c (nc_kid h1 hc) (nc_kid h2 hc)
      simp only [proxySlots]
      split
      · rw [hk _ (by simp), hk _ (by simp)]
      · rw [hk _ (by simp), hk _ (by simp)]
      · rw [List.map_congr_left hk]

theorem proxySlots_fuel (h : HashCtx) (t : SV) :
    ∀ fuel, nodeCount t < fuel → proxySlots h fuel t = proxySlots h (nodeCount t + 1) t :=
  fun fuel hf => proxySlots_agree h fuel _ t hf (by omega)


/-! ### F1: insertMappingAccesses -/

theorem insertMappingAccesses_agree : ∀ f1 f2 t, nodeCount t < f1 → nodeCount t < f2 →
    insertMappingAccesses f1 t = insertMappingAccesses f2 t := by
  intro f1
  induction f1 with
  | zero => intros; omega
  | succ f1 ih =>
    intro f2 t h1 h2
    cases f2 with
    | zero => omega
    | succ f2 =>
      obtain ⟨k, a, ks, s⟩ := t
      have hk : ∀ c ∈ ks, insertMappingAccesses f1 c = insertMappingAccesses f2 c :=
        fun c hc => ih f2 c (nc_kid h1 hc) (nc_kid h2 hc)
      simp only [insertMappingAccesses]
      split
      · simp only [nodeCount, nodeCountList] at h1 h2
        rw [ih f2 _ (by omega) (by omega), ih f2 _ (by omega) (by omega)]
      · rw [List.map_congr_left hk]

theorem insertMappingAccesses_fuel (t : SV) :
    ∀ fuel, nodeCount t < fuel → insertMappingAccesses fuel t = insertMappingAccesses (nodeCount t + 1) t :=
  fun fuel hf => insertMappingAccesses_agree fuel _ t hf (by omega)

/-! ### F1: insertMulShifts -/

theorem insertMulShifts_agree : ∀ f1 f2 t, nodeCount t < f1 → nodeCount t < f2 →
    insertMulShifts f1 t = insertMulShifts f2 t := by
  intro f1
  induction f1 with
  | zero => intros; omega
  | succ f1 ih =>
    intro f2 t h1 h2
    cases f2 with
    | zero => omega
    | succ f2 =>
      obtain ⟨k, a, ks, s⟩ := t
      have hk : ∀ c ∈ ks, insertMulShifts f1 c = insertMulShifts f2 c :=
        fun c hc => ih f2 c (nc_kid h1 hc) (nc_kid h2 hc)
      simp only [insertMulShifts]
      rw [List.map_congr_left hk]
      split
      · rw [hk _ (by simp), hk _ (by simp)]
      · rfl

theorem insertMulShifts_fuel (t : SV) :
    ∀ fuel, nodeCount t < fuel → insertMulShifts fuel t = insertMulShifts (nodeCount t + 1) t :=
  fun fuel hf => insertMulShifts_agree fuel _ t hf (by omega)

/-! ### F1: liftPacked -/

theorem liftPacked_agree : ∀ f1 f2 t, nodeCount t < f1 → nodeCount t < f2 →
    liftPacked f1 t = liftPacked f2 t := by
  intro f1
  induction f1 with
  | zero => intros; omega
  | succ f1 ih =>
    intro f2 t h1 h2
    cases f2 with
    | zero => omega
    | succ f2 =>
      obtain ⟨k, a, ks, s⟩ := t
      have hk : ∀ c ∈ ks, liftPacked f1 c = liftPacked f2 c :=
        fun c hc => ih f2 c (nc_kid h1 hc) (nc_kid h2 hc)
      simp only [liftPacked]
      rw [mapE_congr hk]

theorem liftPacked_fuel (t : SV) :
    ∀ fuel, nodeCount t < fuel → liftPacked fuel t = liftPacked (nodeCount t + 1) t :=
  fun fuel hf => liftPacked_agree fuel _ t hf (by omega)

/-! ### F1: insertStorageSlots -/

theorem insertStorageSlots_agree : ∀ f1 f2 t, nodeCount t < f1 → nodeCount t < f2 →
    insertStorageSlots f1 t = insertStorageSlots f2 t := by
  intro f1
  induction f1 with
  | zero => intros; omega
  | succ f1 ih =>
    intro f2 t h1 h2
    cases f2 with
    | zero => omega
    | succ f2 =>
      obtain ⟨k, a, ks, s⟩ := t
      have hk : ∀ c ∈ ks, insertStorageSlots f1 c = insertStorageSlots f2 c :=
        fun c hc => ih f2 c (nc_kid h1 hc) (nc_kid h2 hc)
      simp only [insertStorageSlots]
      split
      · rw [hk _ (by simp), hk _ (by simp)]
      · rw [hk _ (by simp), hk _ (by simp)]
      · rw [hk _ (by simp), hk _ (by simp)]
      · rw [hk _ (by simp), hk _ (by simp)]
      · rw [List.map_congr_left hk]

theorem insertStorageSlots_fuel (t : SV) :
    ∀ fuel, nodeCount t < fuel → insertStorageSlots fuel t = insertStorageSlots (nodeCount t + 1) t :=
  fun fuel hf => insertStorageSlots_agree fuel _ t hf (by omega)


/-! ### F1: insertSubWords -/

theorem getShift_fst_le (v : SV) : nodeCount (getShift v).1 ≤ nodeCount v := by
  unfold getShift
  repeat' split
  all_goals simp only [nodeCount, nodeCountList]
  all_goals omega

theorem insertSubWords_agree : ∀ f1 f2 t, nodeCount t < f1 → nodeCount t < f2 →
    insertSubWords f1 t = insertSubWords f2 t := by
  intro f1
  induction f1 with
  | zero => intros; omega
  | succ f1 ih =>
    intro f2 t h1 h2
    cases f2 with
    | zero => omega
    | succ f2 =>
      obtain ⟨k, a, ks, s⟩ := t
      have hk : ∀ c ∈ ks, insertSubWords f1 c = insertSubWords f2 c :=
        fun c hc => ih f2 c (nc_kid h1 hc) (nc_kid h2 hc)
      have hs : ∀ c ∈ ks, insertSubWords f1 (getShift c).1 = insertSubWords f2 (getShift c).1 := by
        intro c hc
        have := getShift_fst_le c
        have := nc_kid h1 hc
        have := nc_kid h2 hc
        exact ih f2 _ (by omega) (by omega)
      simp only [insertSubWords]
      rw [mapE_congr hk]
      split
      · rename_i left right
        have hl := hs left (by simp)
        have hr := hs right (by simp)
        cases getRegion left with
        | some p => simp only [hr]
        | none =>
          cases getRegion right with
          | some p => simp only [hl]
          | none => rfl
      · rfl

theorem insertSubWords_fuel (t : SV) :
    ∀ fuel, nodeCount t < fuel → insertSubWords fuel t = insertSubWords (nodeCount t + 1) t :=
  fun fuel hf => insertSubWords_agree fuel _ t hf (by omega)


/-! ### F1: liftDynArray -/

theorem liftDynArray_agree : ∀ f1 f2 t, nodeCount t < f1 → nodeCount t < f2 →
    liftDynArray f1 t = liftDynArray f2 t := by
  intro f1
  induction f1 with
  | zero => intros; omega
  | succ f1 ih =>
    intro f2 t h1 h2
    cases f2 with
    | zero => omega
    | succ f2 =>
      obtain ⟨k, a, ks, s⟩ := t
      have hk : ∀ c ∈ ks, liftDynArray f1 c = liftDynArray f2 c :=
        fun c hc => ih f2 c (nc_kid h1 hc) (nc_kid h2 hc)
      simp only [liftDynArray]
      rw [List.map_congr_left hk]
      split
      · rename_i left right
        rw [hk right (by simp)]
        split
        · rfl
        · rename_i data hdata
          have hd : nodeCount data < f1 ∧ nodeCount data < f2 := by
            simp only [nodeCount, nodeCountList] at h1 h2
            split at hdata
            · cases hdata
              simp only [nodeCount, nodeCountList] at h1 h2
              omega
            · split at hdata
              · cases hdata
                simp only [nodeCount, nodeCountList] at h1 h2
                omega
              · cases hdata
          split
          · rfl
          · rename_i d hd'
            have : nodeCount d < f1 ∧ nodeCount d < f2 := by
              split at hd'
              · cases hd'
                rename_i one _
                have := nodeCount_fold_le one
                simp only [nodeCount, nodeCountList] at hd
                omega
              · cases hd'
              · cases hd'
                exact hd
            rw [ih f2 d this.1 this.2]
      · rfl

theorem liftDynArray_fuel (t : SV) :
    ∀ fuel, nodeCount t < fuel → liftDynArray fuel t = liftDynArray (nodeCount t + 1) t :=
  fun fuel hf => liftDynArray_agree fuel _ t hf (by omega)


/-! ### F1: insertMappingOffset -/

theorem insertMappingOffset_agree : ∀ f1 f2 t, nodeCount t < f1 → nodeCount t < f2 →
    insertMappingOffset f1 t = insertMappingOffset f2 t := by
  intro f1
  induction f1 with
  | zero => intros; omega
  | succ f1 ih =>
    intro f2 t h1 h2
    cases f2 with
    | zero => omega
    | succ f2 =>
      obtain ⟨k, a, ks, s⟩ := t
      have hk : ∀ c ∈ ks, insertMappingOffset f1 c = insertMappingOffset f2 c :=
        fun c hc => ih f2 c (nc_kid h1 hc) (nc_kid h2 hc)
      simp only [insertMappingOffset]
      rw [List.map_congr_left hk]
      split
      · rename_i left right
        split
        · rename_i key slot off hp
          have : (nodeCount key < f1 ∧ nodeCount key < f2) ∧ (nodeCount slot < f1 ∧ nodeCount slot < f2) := by
            split at hp
            · split at hp
              · cases hp
                simp only [nodeCount, nodeCountList] at h1 h2
                omega
              · cases hp
            · split at hp
              · cases hp
                simp only [nodeCount, nodeCountList] at h1 h2
                omega
              · cases hp
            · cases hp
          rw [ih f2 slot this.2.1 this.2.2, ih f2 key this.1.1 this.1.2]
        · rfl
      · rfl

theorem insertMappingOffset_fuel (t : SV) :
    ∀ fuel, nodeCount t < fuel → insertMappingOffset fuel t = insertMappingOffset (nodeCount t + 1) t :=
  fun fuel hf => insertMappingOffset_agree fuel _ t hf (by omega)

/-! ### unpickOrs (called by `liftPacked` with fuel `nodeCount value`, without `+ 1`) -/

theorem unpickOrs_agree : ∀ f1 f2 t, nodeCount t ≤ f1 → nodeCount t ≤ f2 →
    unpickOrs f1 t = unpickOrs f2 t := by
  intro f1
  induction f1 with
  | zero =>
    intro f2 t h1 _
    obtain ⟨k, a, ks, s⟩ := t
    simp only [nodeCount] at h1
    omega
  | succ f1 ih =>
    intro f2 t h1 h2
    cases f2 with
    | zero =>
      obtain ⟨k, a, ks, s⟩ := t
      simp only [nodeCount] at h2
      omega
    | succ f2 =>
      simp only [unpickOrs]
      split
      · simp only [nodeCount, nodeCountList] at h1 h2
        rw [ih f2 _ (by omega) (by omega), ih f2 _ (by omega) (by omega)]
      · rfl

/-- the fuel `nodeCount value` that `liftPacked` hands to `unpickOrs` is adequate -/
theorem unpickOrs_fuel (t : SV) :
    ∀ fuel, nodeCount t ≤ fuel → unpickOrs fuel t = unpickOrs (nodeCount t) t :=
  fun fuel hf => unpickOrs_agree fuel _ t hf (Nat.le_refl _)

/-! ### F2: guarded -/

theorem guarded_agree (inner : SV → SV) : ∀ f1 f2 t, nodeCount t < f1 → nodeCount t < f2 →
    guarded inner f1 t = guarded inner f2 t := by
  intro f1
  induction f1 with
  | zero => intros; omega
  | succ f1 ih =>
    intro f2 t h1 h2
    cases f2 with
    | zero => omega
    | succ f2 =>
      obtain ⟨k, a, ks, s⟩ := t
      have hk : ∀ c ∈ ks, guarded inner f1 c = guarded inner f2 c :=
        fun c hc => ih f2 c (nc_kid h1 hc) (nc_kid h2 hc)
      simp only [guarded]
      rw [List.map_congr_left hk]

/-- `guarded` never passes its own fuel to `inner`, so no hypothesis on `inner` is needed. -/
theorem guarded_fuel (inner : SV → SV) (t : SV) :
    ∀ fuel, nodeCount t < fuel → guarded inner fuel t = guarded inner (nodeCount t + 1) t :=
  fun fuel hf => guarded_agree inner fuel _ t hf (by omega)

/-- `guarded` only depends on `inner` extensionally; in particular a fuel-recursive `inner`
may be given any sufficient fuel. -/
theorem guarded_congr_inner (inner inner' : SV → SV) (h : ∀ t, inner t = inner' t) (fuel : Nat) (t : SV) :
    guarded inner fuel t = guarded inner' fuel t := by
  have : inner = inner' := funext h
  rw [this]

theorem guarded_fuel_inner (P : Nat → SV → SV)
    (hP : ∀ t fuel, nodeCount t < fuel → P fuel t = P (nodeCount t + 1) t)
    (f g : SV → Nat) (hf : ∀ t, nodeCount t < f t) (hg : ∀ t, nodeCount t < g t) (t : SV) :
    ∀ fuel fuel', nodeCount t < fuel → nodeCount t < fuel' →
      guarded (fun t => P (f t) t) fuel t = guarded (fun t => P (g t) t) fuel' t := by
  intro fuel fuel' h1 h2
  rw [guarded_congr_inner _ (fun t => P (g t) t) (fun t => by rw [hP t _ (hf t), hP t _ (hg t)])]
  exact guarded_agree _ _ _ _ h1 h2

/-! ### F3: the lifting pipeline has no hidden size limit -/

/-- `liftAll` with every fuel `nodeCount t + 1` (and `2 * (nodeCount t + 1)` for
`liftDynArray`) replaced by `f t`. -/
def liftAllWith (f : SV → Nat) (h : HashCtx) (v : SV) : Except LFault SV :=
  let v1 := transform (slotHashesT h) v
  let v2 := proxySlots h (f v1) v1
  let v3 := guarded (fun t => insertMappingAccesses (f t) t) (f v2) v2
  match insertSubWords (f v3) v3 with
  | .error e => .error e
  | .ok v4 =>
    let v5 := insertMulShifts (f v4) v4
    match liftPacked (f v5) v5 with
    | .error e => .error e
    | .ok v6 =>
      let v7 := guarded (fun t => liftDynArray (f t) t) (f v6) v6
      let v8 := insertStorageSlots (f v7) v7
      .ok (insertMappingOffset (f v8) v8)

/-- the same with a separate fuel function for the `liftDynArray` slot -/
def liftAllWith2 (f fd : SV → Nat) (h : HashCtx) (v : SV) : Except LFault SV :=
  let v1 := transform (slotHashesT h) v
  let v2 := proxySlots h (f v1) v1
  let v3 := guarded (fun t => insertMappingAccesses (f t) t) (f v2) v2
  match insertSubWords (f v3) v3 with
  | .error e => .error e
  | .ok v4 =>
    let v5 := insertMulShifts (f v4) v4
    match liftPacked (f v5) v5 with
    | .error e => .error e
    | .ok v6 =>
      let v7 := guarded (fun t => liftDynArray (fd t) t) (f v6) v6
      let v8 := insertStorageSlots (f v7) v7
      .ok (insertMappingOffset (f v8) v8)

theorem liftAllWith_eq2 (f : SV → Nat) (h : HashCtx) (v : SV) :
    liftAllWith f h v = liftAllWith2 f f h v := rfl

theorem liftAll_eq2 (h : HashCtx) (v : SV) :
    liftAll h v = liftAllWith2 (fun t => nodeCount t + 1) (fun t => 2 * (nodeCount t + 1)) h v := rfl

theorem liftAllWith2_congr (f fd g gd : SV → Nat) (h : HashCtx) (v : SV)
    (hf : ∀ t, nodeCount t < f t) (hfd : ∀ t, nodeCount t < fd t)
    (hg : ∀ t, nodeCount t < g t) (hgd : ∀ t, nodeCount t < gd t) :
    liftAllWith2 f fd h v = liftAllWith2 g gd h v := by
  have e1 : ∀ t, proxySlots h (f t) t = proxySlots h (g t) t :=
    fun t => proxySlots_agree h _ _ t (hf t) (hg t)
  have e2 : ∀ t, guarded (fun t => insertMappingAccesses (f t) t) (f t) t
      = guarded (fun t => insertMappingAccesses (g t) t) (g t) t :=
    fun t => guarded_fuel_inner insertMappingAccesses insertMappingAccesses_fuel f g hf hg t _ _ (hf t) (hg t)
  have e3 : ∀ t, insertSubWords (f t) t = insertSubWords (g t) t :=
    fun t => insertSubWords_agree _ _ t (hf t) (hg t)
  have e4 : ∀ t, insertMulShifts (f t) t = insertMulShifts (g t) t :=
    fun t => insertMulShifts_agree _ _ t (hf t) (hg t)
  have e5 : ∀ t, liftPacked (f t) t = liftPacked (g t) t :=
    fun t => liftPacked_agree _ _ t (hf t) (hg t)
  have e6 : ∀ t, guarded (fun t => liftDynArray (fd t) t) (f t) t
      = guarded (fun t => liftDynArray (gd t) t) (g t) t :=
    fun t => guarded_fuel_inner liftDynArray liftDynArray_fuel fd gd hfd hgd t _ _ (hf t) (hg t)
  have e7 : ∀ t, insertStorageSlots (f t) t = insertStorageSlots (g t) t :=
    fun t => insertStorageSlots_agree _ _ t (hf t) (hg t)
  have e8 : ∀ t, insertMappingOffset (f t) t = insertMappingOffset (g t) t :=
    fun t => insertMappingOffset_agree _ _ t (hf t) (hg t)
  simp only [liftAllWith2, e1, e2, e3, e4, e5, e6, e7, e8]

/-- F3: every fuel of `liftAll` may be replaced by an arbitrary sufficient one. -/
theorem liftAll_fuel_free (f : SV → Nat) (h : HashCtx) (v : SV) (hf : ∀ t, nodeCount t < f t) :
    liftAllWith f h v = liftAll h v := by
  rw [liftAllWith_eq2, liftAll_eq2]
  exact liftAllWith2_congr _ _ _ _ h v hf hf (fun t => by omega) (fun t => by omega)

/-- in particular `liftDynArray` may be given `nodeCount t + 1` like every other pass: the
doubling in `liftAll` is not needed (folding never grows a tree). -/
theorem liftAll_no_doubling (h : HashCtx) (v : SV) :
    liftAll h v = liftAllWith (fun t => nodeCount t + 1) h v :=
  (liftAll_fuel_free _ h v (fun t => by omega)).symm


/-! ### F4: isStable, register, registerAll -/

theorem any_congr' {α : Type} {f g : α → Bool} : ∀ {l : List α}, (∀ x ∈ l, f x = g x) → l.any f = l.any g
  | [], _ => rfl
  | x :: xs, h => by
    simp only [List.any_cons]
    rw [h x (by simp), any_congr' (fun y hy => h y (List.mem_cons_of_mem _ hy))]

theorem isStable_agree : ∀ f1 f2 t, nodeCount t < f1 → nodeCount t < f2 →
    isStable f1 t = isStable f2 t := by
  intro f1
  induction f1 with
  | zero => intros; omega
  | succ f1 ih =>
    intro f2 t h1 h2
    cases f2 with
    | zero => omega
    | succ f2 =>
      obtain ⟨k, a, ks, s⟩ := t
      have hk : ∀ c ∈ ks, isStable f1 c = isStable f2 c :=
        fun c hc => ih f2 c (nc_kid h1 hc) (nc_kid h2 hc)
      simp only [isStable]
      rw [any_congr' hk]

theorem isStable_fuel (t : SV) :
    ∀ fuel, nodeCount t < fuel → isStable fuel t = isStable (nodeCount t + 1) t :=
  fun fuel hf => isStable_agree fuel _ t hf (by omega)

open SLE.TCSlots in
theorem regList_congr (f1 f2 : Nat) : ∀ (ks : List SV) (st : RegState),
    (∀ c ∈ ks, ∀ st, register f1 st c = register f2 st c) → regList f1 st ks = regList f2 st ks
  | [], _, _ => rfl
  | c :: cs, st, h => by
    simp only [regList]
    rw [h c (by simp) st, regList_congr f1 f2 cs _ (fun x hx => h x (List.mem_cons_of_mem _ hx))]

open SLE.TCSlots in
theorem register_agree : ∀ f1 f2 st v, nodeCount v < f1 → nodeCount v < f2 →
    register f1 st v = register f2 st v := by
  intro f1
  induction f1 with
  | zero => intros; omega
  | succ f1 ih =>
    intro f2 st v h1 h2
    cases f2 with
    | zero => omega
    | succ f2 =>
      obtain ⟨k, a, ks, s⟩ := v
      have hk : ∀ c ∈ ks, ∀ st, register f1 st c = register f2 st c :=
        fun c hc st => ih f2 st c (nc_kid h1 hc) (nc_kid h2 hc)
      rw [register_succ, register_succ, regList_congr f1 f2 ks st hk]

theorem register_fuel (st : RegState) (v : SV) :
    ∀ fuel, nodeCount v < fuel → register fuel st v = register (nodeCount v + 1) st v :=
  fun fuel hf => register_agree fuel _ st v hf (by omega)

/-- `registerAll` with the fuel `nodeCount v + 1` replaced by `f v` -/
def registerAllWith (f : SV → Nat) (vs : List SV) : RegState :=
  vs.foldl (fun st v => (register (f v) st v).1) {}

/-- `registerAll` does not depend on the `+ 1` (nor on any other sufficient choice of fuel). -/
theorem registerAll_fuel_free (f : SV → Nat) (hf : ∀ v, nodeCount v < f v) (vs : List SV) :
    registerAllWith f vs = registerAll vs := by
  have : (fun (st : RegState) v => (register (f v) st v).1)
       = (fun (st : RegState) v => (register (nodeCount v + 1) st v).1) := by
    funext st v
    rw [register_fuel st v _ (hf v)]
  simp only [registerAllWith, registerAll, this]


/-! ### F5: toSV -/

mutual
/-- number of nodes of a registered tree -/
def tvCount : TV → Nat
  | .node _ _ ks _ => tvCountList ks + 1
def tvCountList : List TV → Nat
  | [] => 0
  | k :: ks => tvCount k + tvCountList ks
end

mutual
/-- height of a registered tree (a leaf has height 1): the measure `toSV` really consumes -/
def tvDepth : TV → Nat
  | .node _ _ ks _ => tvDepthList ks + 1
def tvDepthList : List TV → Nat
  | [] => 0
  | k :: ks => max (tvDepth k) (tvDepthList ks)
end

mutual
/-- the fuel-free `toSV`: forget the type variables -/
def erase : TV → SV
  | .node k a ks _ => rebuild k a (eraseList ks)
def eraseList : List TV → List SV
  | [] => []
  | k :: ks => erase k :: eraseList ks
end

theorem eraseList_eq_map : ∀ ks, eraseList ks = ks.map erase
  | [] => rfl
  | k :: ks => by simp only [eraseList, List.map_cons, eraseList_eq_map ks]

mutual
theorem tvDepth_le_count : ∀ t, tvDepth t ≤ tvCount t
  | .node _ _ ks _ => by
    have := tvDepthList_le_count ks
    simp only [tvDepth, tvCount]; omega
theorem tvDepthList_le_count : ∀ ks, tvDepthList ks ≤ tvCountList ks
  | [] => Nat.le_refl _
  | k :: ks => by
    have := tvDepth_le_count k
    have := tvDepthList_le_count ks
    simp only [tvDepthList, tvCountList]; omega
end

theorem tvDepth_mem : ∀ {ks : List TV} {c : TV}, c ∈ ks → tvDepth c ≤ tvDepthList ks
  | [], _, h => by cases h
  | x :: xs, c, h => by
    simp only [tvDepthList]
    rcases List.mem_cons.mp h with h | h
    · subst h; omega
    · have := tvDepth_mem h; omega

/-- `toSV` is exact as soon as the fuel reaches the height of the tree. -/
theorem toSV_eq_erase : ∀ fuel t, tvDepth t ≤ fuel → toSV fuel t = erase t := by
  intro fuel
  induction fuel with
  | zero =>
    intro t h
    obtain ⟨k, a, ks, tv⟩ := t
    simp only [tvDepth] at h; omega
  | succ fuel ih =>
    intro t h
    obtain ⟨k, a, ks, tv⟩ := t
    simp only [tvDepth] at h
    have hk : ∀ c ∈ ks, toSV fuel c = erase c := fun c hc => ih c (by have := tvDepth_mem hc; omega)
    simp only [toSV, erase, eraseList_eq_map]
    rw [List.map_congr_left hk]

/-- F5: enough fuel gives a fuel-independent result (`tvCount t < fuel` is the advertised
shape; `tvDepth t ≤ fuel` is what is really needed). -/
theorem toSV_fuel (t : TV) :
    ∀ fuel, tvCount t < fuel → toSV fuel t = toSV (tvCount t + 1) t := by
  intro fuel h
  have := tvDepth_le_count t
  rw [toSV_eq_erase fuel t (by omega), toSV_eq_erase _ t (by omega)]

theorem toSV_fuel_depth (t : TV) :
    ∀ fuel, tvDepth t ≤ fuel → toSV fuel t = toSV (tvDepth t) t := by
  intro fuel h
  rw [toSV_eq_erase fuel t h, toSV_eq_erase _ t (Nat.le_refl _)]

/-- The constant `100000` of the call-data rule is enough when the `size` kid has fewer than
100000 nodes (more precisely: height at most 100000). -/
theorem knownOfFolded_fuel_depth (size : TV) (h : tvDepth size ≤ 100000) :
    applyRules.knownOfFolded size = knownOf (fold (erase size)) := by
  unfold applyRules.knownOfFolded
  rw [toSV_eq_erase _ size h]

theorem knownOfFolded_fuel (size : TV) (h : tvCount size < 100000) :
    applyRules.knownOfFolded size = knownOf (fold (toSV (tvCount size + 1) size)) := by
  have := tvDepth_le_count size
  rw [knownOfFolded_fuel_depth size (by omega), toSV_eq_erase _ size (by omega)]

/-- The limit is real: on a chain higher than the fuel, `toSV` truncates. -/
def notChain : Nat → TV
  | 0 => .node .value [7] [] 0
  | n + 1 => .node .not_ [] [notChain n] 0

theorem erase_notChain_kind (n : Nat) : (erase (notChain n)).kind ≠ .knownData := by
  cases n <;> simp [notChain, erase, rebuild, SV.kind]

theorem toSV_truncates : ∀ fuel n, fuel ≤ n → toSV fuel (notChain n) ≠ erase (notChain n) := by
  intro fuel
  induction fuel with
  | zero =>
    intro n _ h
    have := erase_notChain_kind n
    rw [← h] at this
    simp [toSV, mkKnown, SV.kind] at this
  | succ fuel ih =>
    intro n hn h
    cases n with
    | zero => omega
    | succ n =>
      simp only [notChain, toSV, erase, eraseList, rebuild, List.map_cons, List.map_nil] at h
      injection h with _ _ h3 _
      injection h3 with h4 _
      exact ih n (by omega) h4


/-- ... and the truncation is observable by the call-data rule: on a chain of `n` `isZero`
nodes over the constant 1, `toSV n` yields the opposite constant after folding. -/
def izChain : Nat → TV
  | 0 => .node .knownData [1] [] 0
  | n + 1 => .node .isZero [] [izChain n] 0

theorem fold_isZero_known (t : SV) (w : Word) (h : fold t = mkKnown w) :
    fold (rebuild .isZero [] [t]) = mkKnown (Known.isZero w) := by
  simp [rebuild, fold, foldList, h, foldNode, knownBin, knownUn, asWord, mkKnown]

theorem izChain_folds : ∀ n, ∃ b c : Word,
    fold (erase (izChain n)) = mkKnown b ∧ fold (toSV n (izChain n)) = mkKnown c ∧
    ((b = 1#256 ∧ c = 0#256) ∨ (b = 0#256 ∧ c = 1#256)) := by
  intro n
  induction n with
  | zero =>
    refine ⟨1#256, 0#256, ?_, ?_, Or.inl ⟨rfl, rfl⟩⟩
    · simp [izChain, erase, eraseList, rebuild, fold, foldList, foldNode, knownBin, knownUn, mkKnown, childSize]
    · simp [toSV, fold, foldList, foldNode, knownBin, knownUn, mkKnown, rebuild, childSize]
  | succ n ih =>
    obtain ⟨b, c, hb, hc, hbc⟩ := ih
    refine ⟨Known.isZero b, Known.isZero c, ?_, ?_, ?_⟩
    · simp only [izChain, erase, eraseList]
      exact fold_isZero_known _ _ hb
    · simp only [izChain, toSV, List.map_cons, List.map_nil]
      exact fold_isZero_known _ _ hc
    · rcases hbc with ⟨rfl, rfl⟩ | ⟨rfl, rfl⟩
      · exact Or.inr ⟨by decide, by decide⟩
      · exact Or.inl ⟨by decide, by decide⟩

theorem toSV_truncation_observable (n : Nat) :
    knownOf (fold (toSV n (izChain n))) ≠ knownOf (fold (erase (izChain n))) := by
  obtain ⟨b, c, hb, hc, hbc⟩ := izChain_folds n
  rw [hb, hc]
  rcases hbc with ⟨rfl, rfl⟩ | ⟨rfl, rfl⟩ <;> simp [knownOf, mkKnown]

/-- the concrete (remote) limit of the model: a `size` operand of height 100001 -/
theorem knownOfFolded_limit :
    applyRules.knownOfFolded (izChain 100000) ≠ knownOf (fold (erase (izChain 100000))) :=
  toSV_truncation_observable 100000


/-- a registration of `v` has exactly the nodes of `v`, so the bound can be read on the runtime tree -/
theorem tvCount_of_Rep : ∀ (t : TV) (v : SV), SLE.TCSlots.Rep t v → tvCount t = nodeCount v
  | .node _ _ ks _, .node _ _ ks' _, h => by
    simp only [SLE.TCSlots.Rep] at h
    simp only [tvCount, nodeCount, tvCountList_of_RepL ks ks' h.2.2]
where
  tvCountList_of_RepL : ∀ (ts : List TV) (vs : List SV), SLE.TCSlots.RepL ts vs → tvCountList ts = nodeCountList vs
  | [], [], _ => rfl
  | t :: ts, v :: vs, h => by
    simp only [SLE.TCSlots.RepL] at h
    simp only [tvCountList, nodeCountList, tvCount_of_Rep t v h.1, tvCountList_of_RepL ts vs h.2]
  | [], _ :: _, h => by simp [SLE.TCSlots.RepL] at h
  | _ :: _, [], h => by simp [SLE.TCSlots.RepL] at h

theorem knownOfFolded_fuel_of_Rep (size : TV) (v : SV) (hr : SLE.TCSlots.Rep size v)
    (h : nodeCount v < 100000) :
    applyRules.knownOfFolded size = knownOf (fold (erase size)) := by
  have := tvCount_of_Rep size v hr
  have := tvDepth_le_count size
  exact knownOfFolded_fuel_depth size (by omega)

/-! ### F6: abiTypeFor — more fuel never changes a result other than `outOfFuel` -/

open SLE.JsonModel

abbrev AbiRes := Except RErr (AbiVal × List TE)

/-- the loop body of the `.packed` case, over an arbitrary recursive call `R` -/
def pstep (R : Nat → List TE → Bool → AbiRes)
    (acc : Except RErr (List (AbiType × Nat) × List TE)) (s : Span) :
    Except RErr (List (AbiType × Nat) × List TE) :=
  match acc with
  | .error e => .error e
  | .ok (pairs, seen) =>
    match R s.typ seen true with
    | .error e => .error e
    | .ok (.packed xs, seen) => .ok (pairs ++ xs.map (fun (ty, ofs) => (ty, ofs + s.offset)), seen)
    | .ok (.type ty, seen) => .ok (pairs ++ [(ty, s.offset)], seen)

theorem foldl_pstep_error (R : Nat → List TE → Bool → AbiRes) (e : RErr) :
    ∀ l : List Span, l.foldl (pstep R) (.error e) = .error e
  | [] => rfl
  | s :: l => by simp only [List.foldl_cons, pstep, foldl_pstep_error R e l]

theorem pstep_stable (R R' : Nat → List TE → Bool → AbiRes)
    (hR : ∀ v seen pp, R v seen pp ≠ .error .outOfFuel → R' v seen pp = R v seen pp)
    (acc : Except RErr (List (AbiType × Nat) × List TE)) (s : Span)
    (h : pstep R acc s ≠ .error .outOfFuel) : pstep R' acc s = pstep R acc s := by
  cases acc with
  | error e => rfl
  | ok p =>
    obtain ⟨pairs, seen⟩ := p
    have : R s.typ seen true ≠ .error .outOfFuel := by
      intro hc
      apply h
      simp only [pstep, hc]
    simp only [pstep, hR _ _ _ this]

theorem foldl_pstep_stable (R R' : Nat → List TE → Bool → AbiRes)
    (hR : ∀ v seen pp, R v seen pp ≠ .error .outOfFuel → R' v seen pp = R v seen pp) :
    ∀ (l : List Span) (acc : Except RErr (List (AbiType × Nat) × List TE)),
      l.foldl (pstep R) acc ≠ .error .outOfFuel → l.foldl (pstep R') acc = l.foldl (pstep R) acc
  | [], _, _ => rfl
  | s :: l, acc, h => by
    simp only [List.foldl_cons] at h ⊢
    have hs : pstep R acc s ≠ .error .outOfFuel := by
      intro hc
      rw [hc, foldl_pstep_error] at h
      exact h rfl
    rw [pstep_stable R R' hR acc s hs]
    exact foldl_pstep_stable R R' hR l _ h

/-- one unfolding of `abiTypeFor`, over an arbitrary recursive call `R` -/
def abiBody (typeOf : Nat → Except RErr TE) (R : Nat → List TE → Bool → AbiRes)
    (v : Nat) (seen : List TE) (parentPacked : Bool) : AbiRes :=
    match typeOf v with
    | .error e => .error e
    | .ok te =>
      let isCtor := match te with
        | .fixedArray _ _ | .mapping _ _ | .dynamicArray _ | .equal _ | .packed _ _ => true
        | _ => false
      if seen.contains te && isCtor then .ok (.type .infiniteType, seen)
      else
        let seen := if seen.contains te then seen else seen ++ [te]
        match te with
        | .any => .ok (.type .any, seen)
        | .word w u => (match wordAbi w u with | .ok t => .ok (.type t, seen) | .error e => .error e)
        | .bytes => .ok (.type .dynBytes, seen)
        | .fixedArray e len =>
          (match R e seen false with
           | .error x => .error x
           | .ok (tp, seen) => .ok (.type (.array len (expectType tp)), seen))
        | .mapping k w =>
          (match R k seen false with
           | .error x => .error x
           | .ok (kt, seen) =>
             match R w seen false with
             | .error x => .error x
             | .ok (vt, seen) => .ok (.type (.mapping (expectType kt) (expectType vt)), seen))
        | .dynamicArray e =>
          (match R e seen false with
           | .error x => .error x
           | .ok (tp, seen) => .ok (.type (.dynArray (expectType tp)), seen))
        | .packed types isStruct =>
          let r := types.foldl (pstep R) (.ok ([], seen))
          (match r with
           | .error e => .error e
           | .ok (pairs, seen) =>
             if parentPacked then .ok (.packed pairs, seen)
             else match pairs with
               | [] => .ok (.type .any, seen)
               | [(ty, off)] =>
                 if off = 0 then .ok (.type ty, seen)
                 else .ok (.packed [(.bytes (some (off / 8)), 0), (ty, off)], seen)
               | _ =>
                 if isStruct then .ok (.type (.struct (pairs.map (fun (ty, off) => .mk off ty))), seen)
                 else .ok (.packed pairs, seen))
        | .equal _ => .error .invalidInference
        | .conflict => .ok (.type (.conflictedType [] []), seen)

theorem abiTypeFor_succ (typeOf : Nat → Except RErr TE) (fuel v : Nat) (seen : List TE) (pp : Bool) :
    abiTypeFor typeOf (fuel + 1) v seen pp = abiBody typeOf (abiTypeFor typeOf fuel) v seen pp := by
  rw [abiTypeFor]
  rfl

theorem abiBody_stable (typeOf : Nat → Except RErr TE) (R R' : Nat → List TE → Bool → AbiRes)
    (hR : ∀ v seen pp, R v seen pp ≠ .error .outOfFuel → R' v seen pp = R v seen pp)
    (v : Nat) (seen : List TE) (pp : Bool)
    (h : abiBody typeOf R v seen pp ≠ .error .outOfFuel) :
    abiBody typeOf R' v seen pp = abiBody typeOf R v seen pp := by
  unfold abiBody at h ⊢
  cases hty : typeOf v with
  | error e => rfl
  | ok te =>
    simp only [hty] at h ⊢
    cases te with
    | any => rfl
    | word w u => rfl
    | bytes => rfl
    | equal _ => rfl
    | conflict => rfl
    | fixedArray e len =>
      simp only at h ⊢
      split
      · rfl
      · rename_i hseen
        rw [if_neg hseen] at h
        have h1 : R e (if seen.contains (.fixedArray e len) then seen else seen ++ [.fixedArray e len]) false
            ≠ .error .outOfFuel := by
          intro hc; apply h; rw [hc]
        rw [hR _ _ _ h1]
    | dynamicArray e =>
      simp only at h ⊢
      split
      · rfl
      · rename_i hseen
        rw [if_neg hseen] at h
        have h1 : R e (if seen.contains (.dynamicArray e) then seen else seen ++ [.dynamicArray e]) false
            ≠ .error .outOfFuel := by
          intro hc; apply h; rw [hc]
        rw [hR _ _ _ h1]
    | mapping k w =>
      simp only at h ⊢
      split
      · rfl
      · rename_i hseen
        rw [if_neg hseen] at h
        have h1 : R k (if seen.contains (.mapping k w) then seen else seen ++ [.mapping k w]) false
            ≠ .error .outOfFuel := by
          intro hc; apply h; rw [hc]
        rw [hR _ _ _ h1]
        cases hk : R k (if seen.contains (.mapping k w) then seen else seen ++ [.mapping k w]) false with
        | error x => rfl
        | ok p =>
          obtain ⟨kt, seen2⟩ := p
          simp only [hk] at h ⊢
          have h2 : R w seen2 false ≠ .error .outOfFuel := by
            intro hc; apply h; rw [hc]
          rw [hR _ _ _ h2]
    | packed types isStruct =>
      simp only at h ⊢
      split
      · rfl
      · rename_i hseen
        rw [if_neg hseen] at h
        have h1 : types.foldl (pstep R)
            (.ok ([], if seen.contains (.packed types isStruct) then seen else seen ++ [.packed types isStruct]))
            ≠ .error .outOfFuel := by
          intro hc; apply h; rw [hc]
        rw [foldl_pstep_stable R R' hR _ _ h1]

/-- F6 (stability): a result other than `outOfFuel` is not changed by one more unit of fuel. -/
theorem abiTypeFor_stable (typeOf : Nat → Except RErr TE) : ∀ fuel v seen pp,
    abiTypeFor typeOf fuel v seen pp ≠ .error .outOfFuel →
    abiTypeFor typeOf (fuel + 1) v seen pp = abiTypeFor typeOf fuel v seen pp := by
  intro fuel
  induction fuel with
  | zero => intro v seen pp h; exact absurd rfl h
  | succ fuel ih =>
    intro v seen pp h
    rw [abiTypeFor_succ] at h
    rw [abiTypeFor_succ typeOf (fuel + 1), abiTypeFor_succ typeOf fuel]
    exact abiBody_stable typeOf _ _ ih v seen pp h

/-- F6 (monotonicity): more fuel never changes a successful result. -/
theorem abiTypeFor_mono (typeOf : Nat → Except RErr TE) (fuel v : Nat) (seen : List TE) (pp : Bool)
    (r : AbiVal × List TE) (h : abiTypeFor typeOf fuel v seen pp = .ok r) :
    abiTypeFor typeOf (fuel + 1) v seen pp = .ok r := by
  rw [abiTypeFor_stable typeOf fuel v seen pp (by rw [h]; exact fun hc => by cases hc), h]

theorem abiTypeFor_stable_add (typeOf : Nat → Except RErr TE) (fuel v : Nat) (seen : List TE) (pp : Bool)
    (h : abiTypeFor typeOf fuel v seen pp ≠ .error .outOfFuel) :
    ∀ extra, abiTypeFor typeOf (fuel + extra) v seen pp = abiTypeFor typeOf fuel v seen pp
  | 0 => rfl
  | extra + 1 => by
    have ih := abiTypeFor_stable_add typeOf fuel v seen pp h extra
    rw [← Nat.add_assoc, abiTypeFor_stable typeOf _ v seen pp (by rw [ih]; exact h), ih]

/-- in particular: if the constant 4096 used by `analyse` does not run out, no larger fuel would
give a different answer -/
theorem abiTypeFor_4096 (typeOf : Nat → Except RErr TE) (v : Nat) (seen : List TE) (pp : Bool)
    (h : abiTypeFor typeOf 4096 v seen pp ≠ .error .outOfFuel) (fuel : Nat) (hf : 4096 ≤ fuel) :
    abiTypeFor typeOf fuel v seen pp = abiTypeFor typeOf 4096 v seen pp := by
  obtain ⟨extra, rfl⟩ := Nat.exists_eq_add_of_le hf
  exact abiTypeFor_stable_add typeOf 4096 v seen pp h extra

end SLE.FuelAdequacy
