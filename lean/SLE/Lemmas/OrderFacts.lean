import SLE.Model.TC
import SLE.Model.Unify
import SLE.Lemmas.Unify
import SLE.Lemmas.Poll
/-!
Order facts (C02 / C13): inference sets do not depend on the order in which judgements are added;
`initForest` depends on its inference sets only through membership; the polling discipline of the
unification loop.
-/
namespace SLE.OrderFacts
open SLE SLE.Containers SLE.Unify SLE.TC
set_option linter.unusedVariables false
set_option linter.unusedSimpArgs false

/-! ## O1. `infSets` -/

/-- The inference set recorded for `v` (empty if there is no entry). -/
def getI (m : List (Nat × List TE)) (v : Nat) : List TE := (m.lookup v).getD []

/-- `v ∋ e` is not the self-equality `v = v` (which `infer` drops). -/
def notSelfEq (v : Nat) (e : TE) : Prop := e ≠ .equal v

/-- the local `add` of `infSets` -/
def addInf (m : List (Nat × List TE)) (v : Nat) (e : TE) : List (Nat × List TE) :=
  let cur := (m.lookup v).getD []
  let cur' := Unify.setInsert cur e
  if m.any (·.1 == v) then m.map (fun q => if q.1 == v then (v, cur') else q) else m ++ [(v, cur')]

/-- one step of the fold in `infSets` -/
def infStep (m : List (Nat × List TE)) (p : Nat × TE) : List (Nat × List TE) :=
  match p.2 with
  | .equal id => if id == p.1 then m else addInf (addInf m id (.equal p.1)) p.1 p.2
  | e => addInf m p.1 e

theorem infSets_eq (js : List (Nat × TE)) : infSets js = js.foldl infStep [] := rfl

theorem lookup_map_replace (m : List (Nat × List TE)) (v w : Nat) (c : List TE) :
    (m.map (fun q => if q.1 == v then (v, c) else q)).lookup w =
      if w = v then (m.lookup v).map (fun _ => c) else m.lookup w := by
  induction m with
  | nil => simp
  | cons q m ih =>
    obtain ⟨k, l⟩ := q
    by_cases hk : k = v
    · subst hk
      have e1 : List.map (fun q : Nat × List TE => if q.1 == k then (k, c) else q) ((k, l) :: m) =
          (k, c) :: List.map (fun q : Nat × List TE => if q.1 == k then (k, c) else q) m := by
        simp
      rw [e1]
      simp only [List.lookup_cons, ih]
      by_cases hw : w = k
      · subst hw; simp
      · have : (w == k) = false := by simpa using hw
        simp [this, hw]
    · have hk' : (k == v) = false := by simpa using hk
      have e1 : List.map (fun q : Nat × List TE => if q.1 == v then (v, c) else q) ((k, l) :: m) =
          (k, l) :: List.map (fun q : Nat × List TE => if q.1 == v then (v, c) else q) m := by
        simp [hk]
      rw [e1]
      simp only [List.lookup_cons, ih]
      have hvk : (v == k) = false := by simpa using fun h => hk h.symm
      by_cases hw : w = v
      · subst hw
        simp [hvk]
      · simp only [if_neg hw]

theorem lookup_none_of_any_false (m : List (Nat × List TE)) (v : Nat)
    (h : m.any (·.1 == v) = false) : m.lookup v = none := by
  induction m with
  | nil => rfl
  | cons q m ih =>
    simp only [List.any_cons, Bool.or_eq_false_iff] at h
    have : (v == q.1) = false := by
      have := h.1
      simp only [beq_eq_false_iff_ne, ne_eq] at this ⊢
      exact fun h => this h.symm
    obtain ⟨k, l⟩ := q
    simp only [List.lookup_cons] at *
    rw [this]; exact ih h.2

theorem lookup_some_of_any_true (m : List (Nat × List TE)) (v : Nat)
    (h : m.any (·.1 == v) = true) : ∃ l, m.lookup v = some l := by
  induction m with
  | nil => simp at h
  | cons q m ih =>
    obtain ⟨k, l⟩ := q
    simp only [List.lookup_cons]
    by_cases hk : k = v
    · subst hk; simp
    · have : (v == k) = false := by simpa using fun h => hk h.symm
      rw [this]
      apply ih
      simpa [hk] using h

theorem lookup_addInf (m : List (Nat × List TE)) (v w : Nat) (e : TE) :
    (addInf m v e).lookup w = if w = v then some (setInsert (getI m v) e) else m.lookup w := by
  unfold addInf
  simp only []
  cases h : m.any (·.1 == v) with
  | true =>
    simp only [if_true]
    rw [lookup_map_replace]
    obtain ⟨l, hl⟩ := lookup_some_of_any_true m v h
    by_cases hw : w = v
    · simp [hw, hl, getI]
    · simp [hw]
  | false =>
    simp only [Bool.false_eq_true, if_false]
    rw [List.lookup_append]
    by_cases hw : w = v
    · subst hw
      rw [lookup_none_of_any_false m w h]
      simp [getI, lookup_none_of_any_false m w h]
    · have : (w == v) = false := by simpa using hw
      simp [hw, List.lookup_cons, this]

theorem getI_addInf (m : List (Nat × List TE)) (v w : Nat) (e : TE) :
    getI (addInf m v e) w = if w = v then setInsert (getI m v) e else getI m w := by
  unfold getI
  rw [lookup_addInf]
  split <;> rfl

theorem mem_getI_addInf (m : List (Nat × List TE)) (v w : Nat) (e x : TE) :
    x ∈ getI (addInf m v e) w ↔ x ∈ getI m w ∨ (w = v ∧ x = e) := by
  rw [getI_addInf]
  by_cases hw : w = v
  · subst hw; simp [mem_setInsert]
  · simp [hw]

theorem mem_getI_infStep (m : List (Nat × List TE)) (p : Nat × TE) (w : Nat) (x : TE) :
    x ∈ getI (infStep m p) w ↔
      x ∈ getI m w ∨ (p = (w, x) ∧ notSelfEq w x) ∨
        (∃ id, x = .equal id ∧ p = (id, .equal w) ∧ id ≠ w) := by
  obtain ⟨v, e⟩ := p
  unfold infStep notSelfEq
  cases e with
  | equal id =>
    simp only []
    by_cases hid : id = v
    · subst hid
      simp only [BEq.rfl, if_true, Prod.mk.injEq, TE.equal.injEq]
      constructor
      · exact fun h => .inl h
      · rintro (h | ⟨⟨rfl, rfl⟩, h⟩ | ⟨i, rfl, ⟨rfl, rfl⟩, h⟩)
        · exact h
        · exact absurd rfl h
        · exact absurd rfl h
    · have : (id == v) = false := by simpa using hid
      simp only [this, Bool.false_eq_true, if_false, mem_getI_addInf, Prod.mk.injEq,
        TE.equal.injEq]
      constructor
      · rintro ((h | ⟨rfl, rfl⟩) | ⟨rfl, rfl⟩)
        · exact .inl h
        · exact .inr (.inr ⟨v, rfl, ⟨rfl, rfl⟩, fun h => hid h.symm⟩)
        · refine .inr (.inl ⟨⟨rfl, rfl⟩, ?_⟩)
          intro h; injection h with h; exact hid h
      · rintro (h | ⟨⟨rfl, rfl⟩, h⟩ | ⟨i, rfl, ⟨rfl, h2⟩, h⟩)
        · exact .inl (.inl h)
        · exact .inr ⟨rfl, rfl⟩
        · subst h2
          exact .inl (.inr ⟨rfl, rfl⟩)
  | _ =>
    simp only [mem_getI_addInf, Prod.mk.injEq]
    constructor
    · rintro (h | ⟨rfl, rfl⟩)
      · exact .inl h
      · exact .inr (.inl ⟨⟨rfl, rfl⟩, by intro h; cases h⟩)
    · rintro (h | ⟨⟨rfl, rfl⟩, _⟩ | ⟨i, rfl, ⟨_, h⟩, _⟩)
      · exact .inl h
      · exact .inr ⟨rfl, rfl⟩
      · cases h

theorem mem_getI_foldl (js : List (Nat × TE)) :
    ∀ (m : List (Nat × List TE)) (w : Nat) (x : TE),
      x ∈ getI (js.foldl infStep m) w ↔
        x ∈ getI m w ∨ ((w, x) ∈ js ∧ notSelfEq w x) ∨
          (∃ id, x = .equal id ∧ (id, .equal w) ∈ js ∧ id ≠ w) := by
  induction js with
  | nil => intro m w x; simp
  | cons p js ih =>
    intro m w x
    rw [List.foldl_cons, ih, mem_getI_infStep]
    simp only [List.mem_cons]
    constructor
    · rintro ((h | ⟨h, h'⟩ | ⟨i, a, b, c⟩) | ⟨h, h'⟩ | ⟨i, a, b, c⟩)
      · exact .inl h
      · exact .inr (.inl ⟨.inl h.symm, h'⟩)
      · exact .inr (.inr ⟨i, a, .inl b.symm, c⟩)
      · exact .inr (.inl ⟨.inr h, h'⟩)
      · exact .inr (.inr ⟨i, a, .inr b, c⟩)
    · rintro (h | ⟨h | h, h'⟩ | ⟨i, a, b | b, c⟩)
      · exact .inl (.inl h)
      · exact .inl (.inr (.inl ⟨h.symm, h'⟩))
      · exact .inr (.inl ⟨h, h'⟩)
      · exact .inl (.inr (.inr ⟨i, a, b.symm, c⟩))
      · exact .inr (.inr ⟨i, a, b, c⟩)

/-- **O1, characterisation.** `e` is in the inference set of `v` iff the judgement `v ∋ e` was
added and is not the self-equality, or `e` is the mirror image `equal id` of an added equality
`id ∋ equal v` between different variables. -/
theorem mem_infSets (js : List (Nat × TE)) (v : Nat) (e : TE) :
    e ∈ ((infSets js).lookup v).getD [] ↔
      ((v, e) ∈ js ∧ notSelfEq v e) ∨ (∃ id, e = .equal id ∧ (id, .equal v) ∈ js ∧ id ≠ v) := by
  have := mem_getI_foldl js [] v e
  rw [infSets_eq]
  simpa [getI] using this

/-- **O1.** Membership in every inference set is invariant under reordering the judgements. -/
theorem infSets_perm_mem {js js' : List (Nat × TE)} (h : js.Perm js') (v : Nat) :
    ∀ e, e ∈ ((infSets js).lookup v).getD [] ↔ e ∈ ((infSets js').lookup v).getD [] := by
  intro e
  rw [mem_infSets, mem_infSets]
  simp only [h.mem_iff]

theorem nodup_setInsert {s : List TE} (h : s.Nodup) (e : TE) : (setInsert s e).Nodup := by
  unfold setInsert
  split
  · exact h
  · rename_i hc
    have : e ∉ s := by simpa using hc
    rw [List.nodup_append]
    exact ⟨h, by simp, by
      intro a ha b hb
      simp only [List.mem_singleton] at hb
      subst hb
      exact fun hab => this (hab ▸ ha)⟩

theorem nodup_getI_addInf {m : List (Nat × List TE)} (h : ∀ w, (getI m w).Nodup) (v : Nat)
    (e : TE) : ∀ w, (getI (addInf m v e) w).Nodup := by
  intro w
  rw [getI_addInf]
  split
  · exact nodup_setInsert (h v) e
  · exact h w

theorem nodup_getI_infStep {m : List (Nat × List TE)} (h : ∀ w, (getI m w).Nodup)
    (p : Nat × TE) : ∀ w, (getI (infStep m p) w).Nodup := by
  obtain ⟨v, e⟩ := p
  unfold infStep
  cases e with
  | equal id =>
    simp only []
    split
    · exact h
    · exact nodup_getI_addInf (nodup_getI_addInf h _ _) _ _
  | _ => exact nodup_getI_addInf h _ _

theorem nodup_getI_foldl (js : List (Nat × TE)) :
    ∀ m : List (Nat × List TE), (∀ w, (getI m w).Nodup) →
      ∀ w, (getI (js.foldl infStep m) w).Nodup := by
  induction js with
  | nil => intro m h; exact h
  | cons p js ih => intro m h; rw [List.foldl_cons]; exact ih _ (nodup_getI_infStep h p)

/-- **O1.** Every inference set is duplicate free (it models a `HashSet`). -/
theorem infSets_nodup (js : List (Nat × TE)) (v : Nat) :
    (((infSets js).lookup v).getD []).Nodup := by
  rw [infSets_eq]
  exact nodup_getI_foldl js [] (fun w => by simp [getI]) v

/-! ### which variables have an entry -/

/-- every entry is non-empty -/
def NonEmp (m : List (Nat × List TE)) : Prop := ∀ w l, m.lookup w = some l → l ≠ []

theorem setInsert_ne_nil (s : List TE) (e : TE) : setInsert s e ≠ [] := by
  intro h
  have : e ∈ setInsert s e := (mem_setInsert s e e).mpr (.inr rfl)
  rw [h] at this; cases this

theorem nonEmp_addInf {m : List (Nat × List TE)} (h : NonEmp m) (v : Nat) (e : TE) :
    NonEmp (addInf m v e) := by
  intro w l hl
  rw [lookup_addInf] at hl
  split at hl
  · injection hl with hl; subst hl; exact setInsert_ne_nil _ _
  · exact h w l hl

theorem nonEmp_infStep {m : List (Nat × List TE)} (h : NonEmp m) (p : Nat × TE) :
    NonEmp (infStep m p) := by
  obtain ⟨v, e⟩ := p
  unfold infStep
  cases e with
  | equal id =>
    simp only []
    split
    · exact h
    · exact nonEmp_addInf (nonEmp_addInf h _ _) _ _
  | _ => exact nonEmp_addInf h _ _

theorem nonEmp_foldl (js : List (Nat × TE)) :
    ∀ m : List (Nat × List TE), NonEmp m → NonEmp (js.foldl infStep m) := by
  induction js with
  | nil => intro m h; exact h
  | cons p js ih => intro m h; rw [List.foldl_cons]; exact ih _ (nonEmp_infStep h p)

theorem infSets_nonEmp (js : List (Nat × TE)) : NonEmp (infSets js) := by
  rw [infSets_eq]; exact nonEmp_foldl js [] (fun w l h => by simp at h)

/-- A variable has an entry exactly when its inference set is inhabited. -/
theorem infSets_entry_iff (js : List (Nat × TE)) (v : Nat) :
    ((infSets js).lookup v).isSome = true ↔ ∃ e, e ∈ ((infSets js).lookup v).getD [] := by
  cases h : (infSets js).lookup v with
  | none => simp
  | some l =>
    have := infSets_nonEmp js v l h
    cases l with
    | nil => exact absurd rfl this
    | cons a l => simp

/-- **O1.** The same variables have an entry, whatever the order of the judgements. -/
theorem infSets_perm_entry {js js' : List (Nat × TE)} (h : js.Perm js') (v : Nat) :
    ((infSets js).lookup v).isSome = ((infSets js').lookup v).isSome := by
  rw [Bool.eq_iff_iff, infSets_entry_iff, infSets_entry_iff]
  constructor
  · rintro ⟨e, he⟩; exact ⟨e, (infSets_perm_mem h v e).mp he⟩
  · rintro ⟨e, he⟩; exact ⟨e, (infSets_perm_mem h v e).mpr he⟩

/-! ## O2. `initForest` sees its inference sets only through membership

The forest `initForest` builds is characterised *semantically*: two variables are in the same
class iff they are related by the equivalence closure of the input equalities, and the evidence of
a class is the set of all non-`Equal` judgements on its members.  Both are functions of the
membership predicate `fun v e => v ∈ vars ∧ e ∈ infs v` alone. -/

/-- Equivalence closure of the equalities in a judgement predicate `P`. -/
inductive Eqv (P : Nat → TE → Prop) : Nat → Nat → Prop
  | rel {a b : Nat} : P a (.equal b) → Eqv P a b
  | refl (a : Nat) : Eqv P a a
  | symm {a b : Nat} : Eqv P a b → Eqv P b a
  | trans {a b c : Nat} : Eqv P a b → Eqv P b c → Eqv P a c

theorem Eqv.mono {P Q : Nat → TE → Prop} (h : ∀ a b, P a (.equal b) → Q a (.equal b)) {a b : Nat}
    (hab : Eqv P a b) : Eqv Q a b := by
  induction hab with
  | rel hp => exact .rel (h _ _ hp)
  | refl a => exact .refl a
  | symm _ ih => exact .symm ih
  | trans _ _ ih1 ih2 => exact .trans ih1 ih2

/-- The class of `a` in `f`, as a relation. -/
def sameClass (f : Forest) (a b : Nat) : Prop := DS.rootOf f a = DS.rootOf f b

/-- The evidence held by the class of `a`. -/
def evidence (f : Forest) (a : Nat) : List TE := DS.dataAt setM f (DS.rootOf f a)

/-- `f` represents the judgement predicate `P`. -/
structure Rep (f : Forest) (P : Nat → TE → Prop) : Prop where
  inv : DS.Inv f
  part : ∀ a b, sameClass f a b ↔ Eqv P a b
  data : ∀ a e, e ∈ evidence f a ↔ ∃ w, P w e ∧ NoEq e = true ∧ Eqv P w a

theorem Rep.congr {f : Forest} {P P' : Nat → TE → Prop} (h : Rep f P)
    (hp : ∀ a x, P a x ↔ P' a x) : Rep f P' := by
  have : P = P' := funext fun a => funext fun x => propext (hp a x)
  subst this; exact h

/-- Generic step: how a forest operation that only merges classes and only adds evidence moves
the representation. -/
theorem rep_step {f f' : Forest} {P P' : Nat → TE → Prop} (h : Rep f P) (hi : DS.Inv f')
    (hPP' : ∀ a x, P a x → P' a x)
    (hpart : ∀ a b, sameClass f' a b ↔ Eqv P' a b)
    (hd1 : ∀ a e, e ∈ evidence f' a →
      (∃ c, sameClass f' c a ∧ e ∈ evidence f c) ∨
        (∃ w, P' w e ∧ NoEq e = true ∧ sameClass f' w a))
    (hd2 : ∀ a e c, sameClass f' c a → e ∈ evidence f c → e ∈ evidence f' a)
    (hd3 : ∀ a e w, P' w e → ¬ P w e → NoEq e = true → sameClass f' w a → e ∈ evidence f' a) :
    Rep f' P' := by
  refine ⟨hi, hpart, fun a e => ⟨fun he => ?_, ?_⟩⟩
  · rcases hd1 a e he with ⟨c, hc, hec⟩ | ⟨w, hw, hn, hwa⟩
    · obtain ⟨w, hw, hn, hwc⟩ := (h.data c e).mp hec
      exact ⟨w, hPP' _ _ hw, hn, .trans (hwc.mono (fun a b => hPP' a _)) ((hpart c a).mp hc)⟩
    · exact ⟨w, hw, hn, (hpart w a).mp hwa⟩
  · rintro ⟨w, hw, hn, hwa⟩
    have hwa' := (hpart w a).mpr hwa
    by_cases hp : P w e
    · exact hd2 a e w hwa' ((h.data w e).mpr ⟨w, hp, hn, .refl w⟩)
    · exact hd3 a e w hw hp hn hwa'

theorem dataAt_setM (f : Forest) (k : Nat) : DS.dataAt setM f k = (f.data.get k).getD [] := rfl

/-- What `union` does to classes and evidence. -/
theorem union_sem {f : Forest} (hi : DS.Inv f) (v id : Nat) :
    ∃ f', f.union setM v id = .ok f' ∧ DS.Inv f' ∧
      (∀ w, DS.rootOf f' w =
        if DS.rootOf f w = DS.rootOf f id then DS.rootOf f v else DS.rootOf f w) ∧
      (∀ a e, e ∈ evidence f' a ↔ ∃ c, sameClass f' c a ∧ e ∈ evidence f c) := by
  obtain ⟨f', e, i1, _, i3, i4⟩ := DS.union_spec setM f v id hi
  by_cases hab : DS.rootOf f v = DS.rootOf f id
  · obtain ⟨j1, j2⟩ := i3 hab
    have hroots : ∀ w, DS.rootOf f' w =
        if DS.rootOf f w = DS.rootOf f id then DS.rootOf f v else DS.rootOf f w := by
      intro w; rw [j1]; split
      · rename_i h; rw [h, hab]
      · rfl
    refine ⟨f', e, i1, hroots, ?_⟩
    intro a x
    unfold evidence sameClass
    simp only [dataAt_setM, j1, j2]
    constructor
    · exact fun h => ⟨a, rfl, h⟩
    · rintro ⟨c, hc, h⟩; rw [← hc]; exact h
  · obtain ⟨j1, j2⟩ := i4 hab
    refine ⟨f', e, i1, j1, ?_⟩
    intro a x
    unfold evidence sameClass
    by_cases hA : DS.rootOf f' a = DS.rootOf f v
    · have hmem : x ∈ DS.dataAt setM f' (DS.rootOf f' a) ↔
          x ∈ DS.dataAt setM f (DS.rootOf f v) ∨ x ∈ DS.dataAt setM f (DS.rootOf f id) := by
        rw [hA, dataAt_setM, j2, if_pos rfl]
        exact mem_setUnion _ _ _
      rw [hmem]
      constructor
      · rintro (h | h)
        · refine ⟨v, ?_, h⟩
          rw [hA, j1, if_neg hab]
        · refine ⟨id, ?_, h⟩
          rw [hA, j1, if_pos rfl]
      · rintro ⟨c, hc, h⟩
        rw [hA, j1] at hc
        split at hc
        · rename_i hcb; rw [hcb] at h; exact .inr h
        · rw [hc] at h; exact .inl h
    · have hA' := hA
      rw [j1] at hA'
      have hab' : ¬ DS.rootOf f a = DS.rootOf f id := by
        intro h; rw [if_pos h] at hA'; exact hA' rfl
      rw [if_neg hab'] at hA'
      have hra : DS.rootOf f' a = DS.rootOf f a := by rw [j1, if_neg hab']
      have hmem : DS.dataAt setM f' (DS.rootOf f' a) = DS.dataAt setM f (DS.rootOf f a) := by
        rw [hra, dataAt_setM, j2, if_neg hA', if_neg hab']; rfl
      rw [hmem]
      constructor
      · intro h; exact ⟨a, rfl, h⟩
      · rintro ⟨c, hc, h⟩
        rw [hra, j1] at hc
        split at hc
        · exact absurd hc.symm hA'
        · rw [hc] at h; exact h

theorem rep_union {f : Forest} {P : Nat → TE → Prop} (h : Rep f P) (v id : Nat) :
    ∃ f', f.union setM v id = .ok f' ∧
      Rep f' (fun a x => P a x ∨ (a = v ∧ x = .equal id)) := by
  obtain ⟨f', e, i1, hr, hd⟩ := union_sem h.inv v id
  refine ⟨f', e, ?_⟩
  have hmono : ∀ a b, DS.rootOf f a = DS.rootOf f b → DS.rootOf f' a = DS.rootOf f' b := by
    intro a b hab; rw [hr, hr, hab]
  have hv : DS.rootOf f' v = DS.rootOf f v := by rw [hr]; split <;> rfl
  have hid : DS.rootOf f' id = DS.rootOf f v := by rw [hr, if_pos rfl]
  have hP : ∀ a b, Eqv P a b → Eqv (fun a x => P a x ∨ (a = v ∧ x = .equal id)) a b :=
    fun a b => Eqv.mono (fun _ _ hp => .inl hp)
  have hpart : ∀ a b, sameClass f' a b ↔
      Eqv (fun a x => P a x ∨ (a = v ∧ x = .equal id)) a b := by
    intro a b
    constructor
    · intro hab
      unfold sameClass at hab
      rw [hr a, hr b] at hab
      by_cases ha : DS.rootOf f a = DS.rootOf f id <;> by_cases hb : DS.rootOf f b = DS.rootOf f id
      · exact hP _ _ ((h.part a b).mp (ha.trans hb.symm))
      · rw [if_pos ha, if_neg hb] at hab
        have h1 := hP _ _ ((h.part a id).mp ha)
        have h2 := hP _ _ ((h.part v b).mp hab)
        exact .trans h1 (.trans (.symm (.rel (.inr ⟨rfl, rfl⟩))) h2)
      · rw [if_neg ha, if_pos hb] at hab
        have h1 := hP _ _ ((h.part a v).mp hab)
        have h2 := hP _ _ ((h.part id b).mp hb.symm)
        exact .trans h1 (.trans (.rel (.inr ⟨rfl, rfl⟩)) h2)
      · rw [if_neg ha, if_neg hb] at hab
        exact hP _ _ ((h.part a b).mp hab)
    · intro hab
      induction hab with
      | rel hp =>
        rcases hp with hp | ⟨rfl, hx⟩
        · exact hmono _ _ ((h.part _ _).mpr (.rel hp))
        · injection hx with hx; subst hx
          unfold sameClass; rw [hv, hid]
      | refl a => rfl
      | symm _ ih => exact ih.symm
      | trans _ _ ih1 ih2 => exact ih1.trans ih2
  refine rep_step h i1 (fun _ _ hp => .inl hp) hpart ?_ ?_ ?_
  · intro a x hx
    exact .inl ((hd a x).mp hx)
  · intro a x c hc hx
    exact (hd a x).mpr ⟨c, hc, hx⟩
  · intro a x w hw hnp hn _
    rcases hw with hw | ⟨_, rfl⟩
    · exact absurd hw hnp
    · cases hn

theorem rep_addData {f : Forest} {P : Nat → TE → Prop} (h : Rep f P) (v : Nat) (e : TE)
    (he : NoEq e = true) :
    ∃ f', f.addData setM v [e] = .ok f' ∧ Rep f' (fun a x => P a x ∨ (a = v ∧ x = e)) := by
  obtain ⟨f', e1, i1, i2, i3, _⟩ := DS.addData_spec setM f v [e] h.inv
  refine ⟨f', e1, ?_⟩
  have hnoteq : ∀ b, e ≠ .equal b := by
    intro b hb; subst hb; cases he
  have hev : ∀ a x, x ∈ evidence f' a ↔
      x ∈ evidence f a ∨ (DS.rootOf f a = DS.rootOf f v ∧ x = e) := by
    intro a x
    unfold evidence
    rw [i2, dataAt_setM, i3]
    by_cases hav : DS.rootOf f a = DS.rootOf f v
    · rw [if_pos hav]
      show x ∈ setUnion (DS.dataAt setM f (DS.rootOf f v)) [e] ↔ _
      rw [mem_setUnion, hav]
      simp
    · rw [if_neg hav]
      simp [dataAt_setM, hav]
  have hsc : ∀ a b, sameClass f' a b ↔ sameClass f a b := by
    intro a b; unfold sameClass; rw [i2, i2]
  have hpart : ∀ a b, sameClass f' a b ↔ Eqv (fun a x => P a x ∨ (a = v ∧ x = e)) a b := by
    intro a b
    rw [hsc, h.part]
    constructor
    · exact Eqv.mono (fun _ _ hp => .inl hp)
    · apply Eqv.mono
      rintro a b (hp | ⟨_, hx⟩)
      · exact hp
      · exact absurd hx.symm (hnoteq b)
  refine rep_step h i1 (fun _ _ hp => .inl hp) hpart ?_ ?_ ?_
  · intro a x hx
    rcases (hev a x).mp hx with hx | ⟨hav, rfl⟩
    · exact .inl ⟨a, rfl, hx⟩
    · exact .inr ⟨v, .inr ⟨rfl, rfl⟩, he, (hsc v a).mpr hav.symm⟩
  · intro a x c hc hx
    rw [hsc] at hc
    unfold sameClass at hc
    refine (hev a x).mpr (.inl ?_)
    unfold evidence at hx ⊢
    rw [← hc]; exact hx
  · intro a x w hw hnp hn hwa
    rcases hw with hw | ⟨rfl, rfl⟩
    · exact absurd hw hnp
    · rw [hsc] at hwa
      exact (hev a x).mpr (.inr ⟨hwa.symm, rfl⟩)

theorem rep_initStep {f : Forest} {P : Nat → TE → Prop} (h : Rep f P) (v : Nat) (e : TE) :
    ∃ f', initStep v f e = .ok f' ∧ Rep f' (fun a x => P a x ∨ (a = v ∧ x = e)) := by
  have hstep : ∀ e : TE, NoEq e = true → initStep v f e = (match f.addData setM v [e] with
      | .ok f' => (.ok f' : Except UFault Forest) | .error x => .error (.forest x)) := by
    intro e he
    cases e <;> first | rfl | cases he
  cases he : NoEq e with
  | true =>
    obtain ⟨f', e1, r⟩ := rep_addData h v e he
    exact ⟨f', by rw [hstep e he, e1], r⟩
  | false =>
    cases e <;> try (cases he)
    rename_i id
    obtain ⟨f', e1, r⟩ := rep_union h v id
    exact ⟨f', by simp only [initStep, e1], r⟩

theorem rep_inner (v : Nat) (es : List TE) :
    ∀ (f : Forest) (P : Nat → TE → Prop), Rep f P →
      ∃ f', es.foldlM (initStep v) f = .ok f' ∧ Rep f' (fun a x => P a x ∨ (a = v ∧ x ∈ es)) := by
  induction es with
  | nil =>
    intro f P h
    exact ⟨f, rfl, h.congr (fun a x => by simp)⟩
  | cons e es ih =>
    intro f P h
    obtain ⟨f1, e1, r1⟩ := rep_initStep h v e
    obtain ⟨f2, e2, r2⟩ := ih f1 _ r1
    refine ⟨f2, by rw [List.foldlM_cons, e1]; exact e2, r2.congr ?_⟩
    intro a x
    simp only [List.mem_cons]
    constructor
    · rintro ((h | ⟨h1, h2⟩) | ⟨h1, h2⟩)
      · exact .inl h
      · exact .inr ⟨h1, .inl h2⟩
      · exact .inr ⟨h1, .inr h2⟩
    · rintro (h | ⟨h1, h2 | h2⟩)
      · exact .inl (.inl h)
      · exact .inl (.inr ⟨h1, h2⟩)
      · exact .inr ⟨h1, h2⟩

theorem rep_outer (T : Nat → List TE) (vs : List Nat) :
    ∀ (f : Forest) (P : Nat → TE → Prop), Rep f P →
      ∃ f', vs.foldlM (fun (f : Forest) v => (T v).foldlM (initStep v) f) f = .ok f' ∧
        Rep f' (fun a x => P a x ∨ (a ∈ vs ∧ x ∈ T a)) := by
  induction vs with
  | nil =>
    intro f P h
    exact ⟨f, rfl, h.congr (fun a x => by simp)⟩
  | cons v vs ih =>
    intro f P h
    obtain ⟨f1, e1, r1⟩ := rep_inner v (T v) f P h
    obtain ⟨f2, e2, r2⟩ := ih f1 _ r1
    refine ⟨f2, by rw [List.foldlM_cons, e1]; exact e2, r2.congr ?_⟩
    intro a x
    simp only [List.mem_cons]
    constructor
    · rintro ((h | ⟨rfl, h2⟩) | ⟨h1, h2⟩)
      · exact .inl h
      · exact .inr ⟨.inl rfl, h2⟩
      · exact .inr ⟨.inr h1, h2⟩
    · rintro (h | ⟨rfl | h1, h2⟩)
      · exact .inl (.inl h)
      · exact .inl (.inr ⟨rfl, h2⟩)
      · exact .inr ⟨h1, h2⟩

theorem rep_start (vs : List Nat) :
    Rep (vs.foldl (fun (f : Forest) v => f.insert v) {}) (fun _ _ => False) := by
  obtain ⟨u, hr, hd⟩ := insertAll_uinv vs uinv_empty
  have hroot : ∀ w, DS.rootOf (vs.foldl (fun (f : Forest) v => f.insert v) {}) w = w := by
    intro w
    rw [hr]
    exact DS.rootOf_absent DS.inv_empty (DS.get_empty w)
  refine ⟨u.1, ?_, ?_⟩
  · intro a b
    unfold sameClass
    rw [hroot, hroot]
    constructor
    · rintro rfl; exact .refl a
    · intro h
      induction h with
      | rel hp => exact hp.elim
      | refl a => rfl
      | symm _ ih => exact ih.symm
      | trans _ _ ih1 ih2 => exact ih1.trans ih2
  · intro a e
    unfold evidence
    rw [dataAt_setM, hd]
    have : ({} : Forest).data.get (DS.rootOf (vs.foldl (fun (f : Forest) v => f.insert v) {}) a)
        = none := DS.get_empty _
    rw [this]
    simp

/-- **O2, semantic characterisation.** For permutation orders, `initForest` returns a forest
whose classes are the equivalence closure of the input equalities and whose evidence, per class,
is the set of the non-`Equal` judgements on the members of the class. -/
theorem initForest_rep {o : Orders} (ho : OrdersOk o) (vars : List Nat) (infs : Nat → List TE) :
    ∃ f, initForest o vars infs = .ok f ∧ Rep f (fun a x => a ∈ vars ∧ x ∈ infs a) := by
  rw [initForest_eq]
  obtain ⟨f, e, r⟩ := rep_outer (fun v => o.tes (infs v)) (o.vars vars) _ _
    (rep_start (o.vars vars))
  refine ⟨f, e, r.congr ?_⟩
  intro a x
  simp only [false_or, (ho.1 vars).mem_iff, (ho.2.1 (infs a)).mem_iff]

/-- **O2.** If two inference functions have the same members for every variable, then for any
two (permutation) iteration orders `initForest` returns forests with the same partition and, per
class, the same evidence as sets.  (Duplicate-freeness of the inputs is not needed.) -/
theorem initForest_mem_congr {o o' : Orders} (ho : OrdersOk o) (ho' : OrdersOk o')
    (vars : List Nat) (infs infs' : Nat → List TE)
    (hmem : ∀ v e, e ∈ infs v ↔ e ∈ infs' v) :
    ∃ f f', initForest o vars infs = .ok f ∧ initForest o' vars infs' = .ok f' ∧
      (∀ a b, sameClass f a b ↔ sameClass f' a b) ∧
      (∀ a e, e ∈ evidence f a ↔ e ∈ evidence f' a) := by
  obtain ⟨f, e, r⟩ := initForest_rep ho vars infs
  obtain ⟨f', e', r'⟩ := initForest_rep ho' vars infs'
  have r'' : Rep f' (fun a x => a ∈ vars ∧ x ∈ infs a) :=
    r'.congr (fun a x => by rw [hmem])
  refine ⟨f, f', e, e', fun a b => ?_, fun a x => ?_⟩
  · rw [r.part, r''.part]
  · rw [r.data, r''.data]

/-- **O1 + O2.** Reordering the judgements (hence: applying the inference rules in another order)
and changing every hash-iteration order leaves the initial forest's partition and per-class
evidence unchanged. -/
theorem initForest_judgement_order {o o' : Orders} (ho : OrdersOk o) (ho' : OrdersOk o')
    (vars : List Nat) {js js' : List (Nat × TE)} (hp : js.Perm js') :
    ∃ f f',
      initForest o vars (fun v => ((infSets js).lookup v).getD []) = .ok f ∧
      initForest o' vars (fun v => ((infSets js').lookup v).getD []) = .ok f' ∧
      (∀ a b, sameClass f a b ↔ sameClass f' a b) ∧
      (∀ a e, e ∈ evidence f a ↔ e ∈ evidence f' a) :=
  initForest_mem_congr ho ho' vars _ _ (fun v e => infSets_perm_mem hp v e)

/-! ## O3. Polling in the unification loop (C13)

`src/tc/unification.rs:75-128`: the body runs once per class returned by `forest.sets()`; at the
top of the body the watchdog is polled iff `counter % every = 0`; classes without evidence
`continue`; only classes holding evidence reach `counter += 1`. -/

/-- `(number of polls, final counter)` of the loop run over `flags` (one flag per class: does the
class hold evidence?) starting with `counter`. -/
def pollsOf (every : Nat) : List Bool → Nat → Nat × Nat
  | [], c => (0, c)
  | b :: bs, c =>
    let r := pollsOf every bs (if b then c + 1 else c)
    ((if c % every = 0 then 1 else 0) + r.1, r.2)

/-- The flags of the classes a round iterates over. -/
def classFlags (f : Forest) : List Bool := (f.sets setM).2.map (fun p => !p.2.isEmpty)

/-! ### (a) what `round` counts -/

theorem roundStep_counts {o : Orders} {acc acc' : RoundAcc} {p : Nat × List TE}
    (h : roundStep o acc p = .ok acc') :
    acc'.polls = acc.polls + 1 ∧
      acc'.counter = acc.counter + (if (!p.2.isEmpty) = true then 1 else 0) := by
  rcases roundStep_cases h with ⟨hnil, rfl⟩ | ⟨hne, cur, nx, eqs, js, nvs, f', _, _, rfl⟩
  · simp [hnil]
  · have : p.2.isEmpty = false := by
      cases hp : p.2 with
      | nil => exact absurd hp hne
      | cons _ _ => rfl
    simp [this]

theorem roundLoop_counts {o : Orders} (l : List (Nat × List TE)) :
    ∀ acc acc', l.foldlM (roundStep o) acc = .ok acc' →
      acc'.polls = acc.polls + l.length ∧
        acc'.counter = acc.counter + (l.map (fun p => !p.2.isEmpty)).count true := by
  induction l with
  | nil =>
    intro acc acc' h
    injection h with h; subst h; simp
  | cons p l ih =>
    intro acc acc' h
    rw [List.foldlM_cons] at h
    cases e1 : roundStep o acc p with
    | error e => rw [e1] at h; cases h
    | ok acc1 =>
      rw [e1] at h
      obtain ⟨a1, a2⟩ := roundStep_counts e1
      obtain ⟨b1, b2⟩ := ih acc1 acc' h
      rw [b1, b2, a1, a2, List.map_cons, List.count_cons, List.length_cons]
      constructor
      · omega
      · cases hb : (!p.2.isEmpty) <;> simp <;> omega

theorem roundTail_counts {o : Orders} {acc acc' : RoundAcc} (h : roundTail o acc = .ok acc') :
    acc'.polls = acc.polls ∧ acc'.counter = acc.counter := by
  unfold roundTail at h
  split at h
  · cases h
  · split at h
    · cases h
    · injection h with h; subst h; exact ⟨rfl, rfl⟩

/-- **O3 (a).** In one round the model's `polls` field grows by the number of classes (every
iteration reaches the polling check) and `counter` by the number of classes that hold evidence.
No assumption on the orders. -/
theorem round_counts {o : Orders} {f : Forest} {next counter : Nat} {acc : RoundAcc}
    (h : round o f next counter = .ok acc) :
    acc.polls = (f.sets setM).2.length ∧
      acc.counter = counter + (f.sets setM).2.countP (fun p => !p.2.isEmpty) ∧
      acc.polls = (classFlags f).length ∧
      acc.counter = counter + (classFlags f).count true := by
  rw [round_eq] at h
  split at h
  · cases h
  · rename_i acc0 e0
    obtain ⟨a1, a2⟩ := roundLoop_counts _ _ _ e0
    obtain ⟨b1, b2⟩ := roundTail_counts h
    simp only [Nat.zero_add] at a1
    have hc : (classFlags f).count true = (f.sets setM).2.countP (fun p => !p.2.isEmpty) := by
      unfold classFlags
      rw [List.count_eq_countP, List.countP_map]
      congr 1
      funext p
      simp
    refine ⟨by rw [b1, a1], ?_, by rw [b1, a1]; simp [classFlags], by rw [b2, a2]; rfl⟩
    rw [b2, a2, ← hc]; rfl

/-! ### (b), (c) the polling discipline -/

/-- The counter advances by the number of evidence-holding classes. -/
theorem pollsOf_counter (every : Nat) (flags : List Bool) (c : Nat) :
    (pollsOf every flags c).2 = c + flags.count true := by
  induction flags generalizing c with
  | nil => simp [pollsOf]
  | cons b bs ih =>
    simp only [pollsOf, ih, List.count_cons]
    cases b <;> simp <;> omega

/-- **O3 (b), upper bound.** At most one poll per iteration. -/
theorem pollsOf_le_length (every : Nat) (flags : List Bool) (c : Nat) :
    (pollsOf every flags c).1 ≤ flags.length := by
  induction flags generalizing c with
  | nil => simp [pollsOf]
  | cons b bs ih =>
    simp only [pollsOf, List.length_cons]
    have := ih (if b = true then c + 1 else c)
    split <;> omega

/-- **O3 (c).** With a polling interval of one every iteration polls. -/
theorem pollsOf_one (flags : List Bool) (c : Nat) : (pollsOf 1 flags c).1 = flags.length := by
  induction flags generalizing c with
  | nil => simp [pollsOf]
  | cons b bs ih =>
    simp only [pollsOf, List.length_cons, Nat.mod_one, if_true, ih]
    omega

/-- **O3 (b), lower bound, counting form.** Every multiple of `every` the counter passes is
polled: the loop polls at least as often as a plain monitored loop (`Poll.pollCnt`) with one
iteration per evidence-holding class. -/
theorem pollsOf_ge_pollCnt (every : Nat) (flags : List Bool) (c : Nat) :
    Poll.pollCnt every c (flags.count true) ≤ (pollsOf every flags c).1 := by
  induction flags generalizing c with
  | nil => simp [pollsOf, Poll.pollCnt]
  | cons b bs ih =>
    cases b with
    | false =>
      have := ih c
      simp only [pollsOf, List.count_cons]
      simp only [Bool.false_eq_true, if_false] at this ⊢
      have e : (false == true) = false := rfl
      simp only [e, Bool.false_eq_true, if_false, Nat.add_zero]
      omega
    | true =>
      have := ih (c + 1)
      simp only [pollsOf, List.count_cons, BEq.rfl, if_true, Poll.pollCnt]
      omega

/-- closed form of the lower bound: `⌈(c + t) / every⌉ - ⌈c / every⌉ ≤ polls` -/
theorem pollsOf_ge_cdiv {every : Nat} (hev : 0 < every) (flags : List Bool) (c : Nat) :
    (c + flags.count true + every - 1) / every - (c + every - 1) / every ≤
      (pollsOf every flags c).1 := by
  have h1 := pollsOf_ge_pollCnt every flags c
  have h2 := Poll.pollCnt_add_cdiv hev c (flags.count true)
  unfold Poll.cdiv at h2
  omega

/-- number of evidence-holding classes that can still be processed before the next poll -/
def toNextPoll (every c : Nat) : Nat := (every - c % every) % every

theorem toNextPoll_of_mod_zero {every c : Nat} (h : c % every = 0) : toNextPoll every c = 0 := by
  unfold toNextPoll; rw [h, Nat.sub_zero, Nat.mod_self]

theorem toNextPoll_lt {every : Nat} (hev : 0 < every) (c : Nat) : toNextPoll every c < every :=
  Nat.mod_lt _ hev

theorem toNextPoll_succ {every : Nat} (hev : 0 < every) (c : Nat) :
    toNextPoll every (c + 1) + 1 = toNextPoll every c + (if c % every = 0 then every else 0) := by
  unfold toNextPoll
  have h1 : (c + 1) % every = (c % every + 1) % every := by
    rw [Nat.add_mod c 1 every, Nat.add_mod (c % every) 1 every, Nat.mod_mod]
  rw [h1]
  have hr := Nat.mod_lt c hev
  generalize c % every = r at hr
  by_cases hlt : r + 1 < every
  · rw [Nat.mod_eq_of_lt hlt, Nat.mod_eq_of_lt (by omega : every - (r + 1) < every)]
    by_cases hr0 : r = 0
    · subst hr0
      rw [Nat.sub_zero, Nat.mod_self, if_pos rfl]; omega
    · rw [if_neg hr0, Nat.mod_eq_of_lt (by omega : every - r < every)]; omega
  · have hre : r + 1 = every := by omega
    rw [hre, Nat.mod_self, Nat.sub_zero, Nat.mod_self]
    by_cases hr0 : r = 0
    · subst hr0
      have : every = 1 := by omega
      subst this
      simp
    · rw [if_neg hr0]
      have : every - r = 1 := by omega
      rw [this, Nat.mod_eq_of_lt (by omega : 1 < every)]

/-- **O3 (b), lower bound.** Between two consecutive polls at most `every` evidence-holding
classes are processed: the number of such classes is at most `every` per poll, plus the
`toNextPoll every c = (every - c % every) % every < every` classes that fit before the first
poll becomes due. -/
theorem pollsOf_lower {every : Nat} (hev : 0 < every) (flags : List Bool) (c : Nat) :
    flags.count true ≤ (pollsOf every flags c).1 * every + toNextPoll every c := by
  induction flags generalizing c with
  | nil => simp
  | cons b bs ih =>
    cases b with
    | false =>
      have := ih c
      have e : (false == true) = false := rfl
      simp only [pollsOf, List.count_cons, e, Bool.false_eq_true, if_false, Nat.add_zero]
      rw [Nat.add_mul]
      omega
    | true =>
      have h1 := ih (c + 1)
      have h2 := toNextPoll_succ hev c
      simp only [pollsOf, List.count_cons, BEq.rfl, if_true]
      rw [Nat.add_mul]
      by_cases hc : c % every = 0
      · rw [if_pos hc] at h2 ⊢
        omega
      · rw [if_neg hc] at h2 ⊢
        omega

/-- … in particular when the counter starts at a multiple of the interval (as it does in the
first round, where it is `0`): `polls * every ≥ number of evidence-holding classes`. -/
theorem pollsOf_lower_aligned {every : Nat} (hev : 0 < every) (flags : List Bool) (c : Nat)
    (hc : c % every = 0) : flags.count true ≤ (pollsOf every flags c).1 * every := by
  have := pollsOf_lower hev flags c
  rw [toNextPoll_of_mod_zero hc] at this
  exact this

/-- … and in general fewer than `every` classes more than that. -/
theorem pollsOf_lower_any {every : Nat} (hev : 0 < every) (flags : List Bool) (c : Nat) :
    flags.count true < ((pollsOf every flags c).1 + 1) * every := by
  have h1 := pollsOf_lower hev flags c
  have h2 := toNextPoll_lt hev c
  rw [Nat.add_mul]
  omega

/-- The form suggested in the task, with `c % every` as the slack, is false when the counter does
not start at a multiple of the interval: five evidence-holding classes from counter `1` with
interval `10` are processed without any poll. -/
example : ¬ ((pollsOf 10 [true, true, true, true, true] 1).1 * 10 + (1 % 10) ≥
    [true, true, true, true, true].count true) := by decide

/-- If every class holds evidence the loop is a plain monitored loop. -/
theorem pollsOf_all_true (every n c : Nat) :
    (pollsOf every (List.replicate n true) c).1 = Poll.pollCnt every c n := by
  induction n generalizing c with
  | zero => simp [pollsOf, Poll.pollCnt]
  | succ n ih =>
    simp only [List.replicate_succ, pollsOf, if_true, ih, Poll.pollCnt]

/-- Classes without evidence do not advance the counter, so a run of them at a counter that is a
multiple of the interval polls at every iteration. -/
theorem pollsOf_all_false (every n c : Nat) :
    pollsOf every (List.replicate n false) c = ((if c % every = 0 then n else 0), c) := by
  induction n generalizing c with
  | zero => simp [pollsOf]
  | succ n ih =>
    simp only [List.replicate_succ, pollsOf, Bool.false_eq_true, if_false, ih]
    split <;> simp <;> omega

/-- **O3, model vs. code.** For a round of the model: the final counter is the one `pollsOf`
computes on the round's class flags; the model's `polls` field (iterations reaching the check) is
an upper bound for the actual watchdog calls, exact when `every = 1`; and the watchdog calls obey
the lower bound. -/
theorem round_pollsOf {o : Orders} {f : Forest} {next counter : Nat} {acc : RoundAcc}
    (every : Nat) (h : round o f next counter = .ok acc) :
    (pollsOf every (classFlags f) counter).2 = acc.counter ∧
      (pollsOf every (classFlags f) counter).1 ≤ acc.polls ∧
      (every = 1 → (pollsOf every (classFlags f) counter).1 = acc.polls) ∧
      (0 < every → acc.counter - counter ≤
        (pollsOf every (classFlags f) counter).1 * every + toNextPoll every counter) := by
  obtain ⟨_, _, h3, h4⟩ := round_counts h
  refine ⟨by rw [pollsOf_counter, h4], by rw [h3]; exact pollsOf_le_length _ _ _, ?_, ?_⟩
  · rintro rfl; rw [pollsOf_one, h3]
  · intro hev
    have := pollsOf_lower hev (classFlags f) counter
    rw [h4]; omega

/-! ### Non-vacuity -/
example : pollsOf 3 [true, false, true, true, true, false] 0 = (2, 4) := by decide
example : pollsOf 3 [false, false, true] 3 = (3, 4) := by decide
example : infSets [(0, .equal 1), (2, .bytes), (1, .equal 1), (2, .bytes)] =
    [(1, [.equal 0]), (0, [.equal 1]), (2, [.bytes])] := by decide

end SLE.OrderFacts
