import SLE.Props.C10
import SLE.Spec.EVM
import SLE.Lemmas.VMControl
import SLE.Lemmas.TCSlots
import SLE.Lemmas.EvmSim
import SLE.Model.Pipe
/-!
# Machine facts bridging the reference EVM, the disassembler and the symbolic machine

M1  `validDest_iff_stream_jumpdest` (+ `_nat`), `validateJump_iff_evm`: the reference EVM's
    `validDest` (byte is 0x5b and the offset is not in `EVM.pushData`) and the instruction
    stream's `.op 0x5b` entries are the same set of offsets (`pushData_mem`: `EVM.pushData`
    = `Disasm.pushDataMask` on offsets inside the code; then `C10_jumpdest_iff`).
M2  `stStore_keeps`, `stLoad_keeps`, `execOp_storage_monotone` (+ `execOp_storage_same`,
    `execOp_StWF`), `allValues_exports`, `sstore_exported`, `sload_exported_partial`
    (+ counterexample, + `reachable_StWF` discharging its hypothesis on reachable states),
    `literalAccess_storageWrite`, `sstore_literal_exported`, `sload_literal_exported_partial`.
    A literal key read or written is therefore always handed to the type checker as a top-level
    `storageWrite` with that literal key; `TCSlots.literal_key_reported`
    (= `C06.C06_literal_key_reported`, which also needs `Raw v` and `h.table w = none`) then gives
    the layout row.
M3  `fork_copies_state_partial` (+ `fork_data_after_pops`, `fork_forkPoint_differs`),
    `step_shape`, `step_touches_head_only`.
-/

namespace SLE.MachineFacts
open SLE SLE.SV SLE.VM

/-! ## M1 -/

theorem pushData_oob (code : Array Nat) (fuel pc : Nat) (acc : List Nat) (h : pc ≥ code.size) :
    EVM.pushData code fuel pc acc = acc := by
  cases fuel with
  | zero => simp [EVM.pushData]
  | succ f => simp [EVM.pushData, h]

theorem idx_push (m : Nat) (M : List Bool) (i : Nat) :
    (false :: (List.replicate m true ++ M))[i]? = some true ↔
      ((1 ≤ i ∧ i ≤ m) ∨ (m + 1 ≤ i ∧ M[i - (m + 1)]? = some true)) := by
  cases i with
  | zero => simp
  | succ j =>
    simp only [List.getElem?_cons_succ]
    by_cases hj : j < m
    · rw [List.getElem?_append_left (by simpa using hj)]
      simp [hj]
      omega
    · rw [List.getElem?_append_right (by simpa using hj)]
      simp only [List.length_replicate]
      have : j + 1 - (m + 1) = j - m := by omega
      rw [this]
      constructor
      · intro h; right; exact ⟨by omega, h⟩
      · rintro (h | h)
        · omega
        · exact h.2

theorem mem_range_shift (n pc t : Nat) :
    t ∈ (List.range n).map (· + pc + 1) ↔ (pc + 1 ≤ t ∧ t < pc + 1 + n) := by
  simp only [List.mem_map, List.mem_range]
  constructor
  · rintro ⟨a, ha, rfl⟩; omega
  · intro h; exact ⟨t - (pc + 1), by omega, by omega⟩

/-- `EVM.pushData` collects exactly the offsets that the disassembler's forward scan
(`Disasm.pushDataMask`) marks as push immediates (among the offsets inside the code). -/
theorem pushData_mem (bytes : List Nat) :
    ∀ (fuel pc : Nat) (acc : List Nat), pc ≤ bytes.length → bytes.length - pc < fuel →
      ∀ t, t < bytes.length →
        (t ∈ EVM.pushData bytes.toArray fuel pc acc ↔
          (t ∈ acc ∨ (pc ≤ t ∧ (Disasm.pushDataMask (bytes.drop pc))[t - pc]? = some true))) := by
  intro fuel
  induction fuel with
  | zero => intro pc acc _ h; omega
  | succ fuel ih =>
    intro pc acc hpc hfuel t ht
    by_cases hend : pc ≥ bytes.length
    · have : pc = bytes.length := by omega
      subst this
      rw [pushData_oob _ _ _ _ (by simp)]
      simp [Disasm.mask_nil]
    · have hlt : pc < bytes.length := by omega
      have hdrop : bytes.drop pc = bytes[pc] :: bytes.drop (pc + 1) := List.drop_eq_getElem_cons hlt
      have hget : bytes.toArray[pc]! = bytes[pc] := by simp [hlt]
      unfold EVM.pushData
      have hsz : ¬ (pc ≥ bytes.toArray.size) := by simpa using hlt
      simp only [hsz, if_false, hget]
      rw [hdrop, Disasm.mask_cons]
      by_cases hp : Disasm.isPush bytes[pc] = true
      · have hp' : (decide (0x60 ≤ bytes[pc]) && decide (bytes[pc] ≤ 0x7f)) = true := hp
        simp only [hp', hp, if_true]
        have hb := Disasm.isPush_bounds hp
        generalize bytes[pc] - 0x5f = n at hb ⊢
        rw [idx_push, List.drop_drop]
        by_cases hfit : pc + 1 + n ≤ bytes.length
        · rw [ih (pc + 1 + n) _ hfit (by omega) t ht]
          have hmin : min n (bytes.drop (pc + 1)).length = n := by simp; omega
          rw [hmin, List.mem_append, mem_range_shift]
          have h1 : t - pc - (n + 1) = t - (pc + 1 + n) := by omega
          rw [h1]
          constructor
          · rintro ((h | h) | h)
            · exact Or.inl h
            · exact Or.inr ⟨by omega, Or.inl (by omega)⟩
            · exact Or.inr ⟨by omega, Or.inr ⟨by omega, h.2⟩⟩
          · rintro (h | ⟨h0, h | h⟩)
            · exact Or.inl (Or.inl h)
            · exact Or.inl (Or.inr (by omega))
            · exact Or.inr ⟨by omega, h.2⟩
        · rw [pushData_oob _ _ _ _ (by simp; omega)]
          have hmin : min n (bytes.drop (pc + 1)).length = bytes.length - (pc + 1) := by simp; omega
          have hnil : bytes.drop (pc + 1 + n) = [] := by simp; omega
          rw [hmin, hnil, Disasm.mask_nil, List.mem_append, mem_range_shift]
          simp only [List.getElem?_nil, reduceCtorEq, and_false, or_false]
          constructor
          · rintro (h | h)
            · exact Or.inl h
            · exact Or.inr ⟨by omega, by omega⟩
          · rintro (h | h)
            · exact Or.inl h
            · exact Or.inr (by omega)
      · have hp0 : Disasm.isPush bytes[pc] = false := by simpa using hp
        have hp' : (decide (0x60 ≤ bytes[pc]) && decide (bytes[pc] ≤ 0x7f)) = false := hp0
        simp only [hp', hp0, Bool.false_eq_true, if_false]
        rw [ih (pc + 1) acc (by omega) (by omega) t ht]
        constructor
        · rintro (h | ⟨h0, h⟩)
          · exact Or.inl h
          · refine Or.inr ⟨by omega, ?_⟩
            have : t - pc = (t - (pc + 1)) + 1 := by omega
            rw [this, List.getElem?_cons_succ]; exact h
        · rintro (h | ⟨h0, h⟩)
          · exact Or.inl h
          · have hne : t ≠ pc := by
              intro e; subst e; simp at h
            refine Or.inr ⟨by omega, ?_⟩
            have : t - pc = (t - (pc + 1)) + 1 := by omega
            rw [this, List.getElem?_cons_succ] at h; exact h

theorem mask_length (bytes : List Nat) : (Disasm.pushDataMask bytes).length = bytes.length :=
  ((Disasm.spec_entries _ bytes (Nat.le_refl _)).lengths.1).symm

/-- the data list of the reference EVM, as a predicate on offsets inside the code -/
theorem pushData_iff_mask (bytes : List Nat) (t : Nat) (ht : t < bytes.length) :
    t ∈ EVM.pushData bytes.toArray (bytes.length + 1) 0 [] ↔
      (Disasm.pushDataMask bytes)[t]? = some true := by
  rw [pushData_mem bytes (bytes.length + 1) 0 [] (by omega) (by omega) t ht]
  simp

set_option linter.unusedVariables false in
/-- M1 over `List UInt8` (the form in which C10 is stated). -/
theorem validDest_iff_stream_jumpdest (bs : List UInt8) (code : List Disasm.Instr)
    (hne : bs ≠ []) (hlen : bs.length < 2 ^ 32)
    (h : Disasm.disasm (C10.toNats bs) = .ok code) (t : Nat) :
    EVM.validDest (C10.toNats bs).toArray
        (EVM.pushData (C10.toNats bs).toArray ((C10.toNats bs).length + 1) 0 []) t = true
      ↔ code[t]? = some (.op 0x5b) := by
  rw [C10.C10_jumpdest_iff bs code h t]
  unfold EVM.validDest
  generalize hb : C10.toNats bs = bytes
  by_cases ht : t < bytes.length
  · have hm := pushData_iff_mask bytes t ht
    have hml := mask_length bytes
    have hmt : (Disasm.pushDataMask bytes)[t]? = some ((Disasm.pushDataMask bytes)[t]'(by omega)) :=
      List.getElem?_eq_getElem _
    have hbt : bytes[t]? = some bytes[t] := List.getElem?_eq_getElem _
    have hget : bytes.toArray[t]! = bytes[t] := by simp [ht]
    rw [hmt] at hm ⊢
    rw [hbt, hget]
    simp only [List.size_toArray, ht, decide_true, Bool.true_and, Bool.and_eq_true, beq_iff_eq,
      Bool.not_eq_true', List.contains_eq_mem, decide_eq_false_iff_not, hm, Option.some.injEq]
    cases (Disasm.pushDataMask bytes)[t]'(by omega) <;> simp
  · have h1 : bytes[t]? = none := by simp; omega
    simp [ht]

theorem toNats_ofNat (bytes : List Nat) (hb : ∀ b ∈ bytes, b < 256) :
    C10.toNats (bytes.map UInt8.ofNat) = bytes := by
  induction bytes with
  | nil => rfl
  | cons b bs ih =>
    have h1 : b < 256 := hb b (by simp)
    have h2 := ih (fun x hx => hb x (by simp [hx]))
    simp only [C10.toNats, List.map_cons, List.map_map] at h2 ⊢
    rw [h2]
    simp [UInt8.toNat_ofNat', Nat.mod_eq_of_lt h1]

/-- M1 over `List Nat` with every byte below 256. -/
theorem validDest_iff_stream_jumpdest_nat (bytes : List Nat) (code : List Disasm.Instr)
    (hb : ∀ b ∈ bytes, b < 256) (hne : bytes ≠ []) (hlen : bytes.length < 2 ^ 32)
    (h : Disasm.disasm bytes = .ok code) (t : Nat) :
    EVM.validDest bytes.toArray (EVM.pushData bytes.toArray (bytes.length + 1) 0 []) t = true
      ↔ code[t]? = some (.op 0x5b) := by
  have e := toNats_ofNat bytes hb
  have := validDest_iff_stream_jumpdest (bytes.map UInt8.ofNat) code
    (by simpa using hne) (by simpa using hlen) (by rw [e]; exact h) t
  rw [e] at this
  exact this

/-- Corollary of M1: the symbolic machine's `validateJump` accepts exactly the destinations the
reference EVM accepts (`w` is the whole 256-bit constant the jump counter folds to). -/
theorem validateJump_iff_evm (bs : List UInt8) (code : List Disasm.Instr)
    (hne : bs ≠ []) (hlen : bs.length < 2 ^ 32)
    (h : Disasm.disasm (C10.toNats bs) = .ok code) (counter : SV) (w : Word)
    (hw : VM.isKnown (fold counter) = some w) (t : Nat) :
    validateJump code counter = .ok t ↔
      (w.toNat = t ∧
        EVM.validDest (C10.toNats bs).toArray
          (EVM.pushData (C10.toNats bs).toArray ((C10.toNats bs).length + 1) 0 []) t = true) := by
  rw [validDest_iff_stream_jumpdest bs code hne hlen h t]
  have hcl : code.length = bs.length := C10.C10_length bs code h
  constructor
  · intro hv
    obtain ⟨w', hw', hwt, _, hc⟩ := validateJump_ok hv
    rw [hw] at hw'
    cases hw'
    exact ⟨hwt, hc⟩
  · rintro ⟨rfl, hc⟩
    have hlt : w.toNat < code.length := (List.getElem?_eq_some_iff.mp hc).1
    have h32 : ¬ (w.toNat ≥ 2 ^ 32) := by omega
    unfold validateJump
    rw [hw]
    simp only [h32, if_false, hc]
    simp

/-! ## M2 — storage history is append-only and exported -/

/-- the map `Storage` consults for key `k` (`known_writes` for constant keys, `symbolic_writes`
for all other keys) -/
def stMap (d : TData) (k : SV) : List (SV × List SV) := if isKnownKey k then d.stK else d.stS

/-- the generations recorded under key `k`, oldest first -/
def gens (d : TData) (k : SV) : List SV := (lookupSV (stMap d k) k).getD []

/-- every key that is present has at least one generation (holds in the initial state and is
preserved by every instruction) -/
def StWF (d : TData) : Prop := ∀ p ∈ d.stK ++ d.stS, p.2 ≠ []

theorem stMap_stStore_self (d : TData) (k v : SV) :
    stMap (stStore d k v) k = updateSV (stMap d k) k (gens d k ++ [v]) := by
  unfold stStore gens stMap
  cases hk : isKnownKey k <;> simp

theorem stMap_stStore (d : TData) (k v k' : SV) :
    stMap (stStore d k v) k' =
      if isKnownKey k' = isKnownKey k then updateSV (stMap d k) k (gens d k ++ [v])
      else stMap d k' := by
  unfold stStore gens stMap
  cases hk : isKnownKey k <;> cases hk' : isKnownKey k' <;> simp

theorem gens_stStore_self (d : TData) (k v : SV) : gens (stStore d k v) k = gens d k ++ [v] := by
  conv => lhs; unfold gens
  rw [stMap_stStore_self, EvmSim.lookupSV_update_same]
  rfl

theorem gens_stStore_other (d : TData) (k v k' : SV) (hne : k ≠ k') :
    gens (stStore d k v) k' = gens d k' := by
  conv => lhs; unfold gens
  rw [stMap_stStore]
  split
  · rename_i he
    rw [EvmSim.lookupSV_update_other _ _ _ _ hne]
    unfold gens stMap
    rw [he]
  · rfl

/-- SSTORE appends: the history under the written key grows by exactly the written value, the
history under every other key is unchanged. -/
theorem stStore_keeps (d : TData) (k v : SV) :
    (∀ k', gens d k' <+: gens (stStore d k v) k') ∧ v ∈ gens (stStore d k v) k := by
  refine ⟨fun k' => ?_, ?_⟩
  · by_cases hne : k = k'
    · subst hne; rw [gens_stStore_self]; exact List.prefix_append _ _
    · rw [gens_stStore_other _ _ _ _ hne]; exact List.prefix_refl _
  · rw [gens_stStore_self]; simp

/-- the placeholder generation `Storage::load` creates for a key never seen before -/
def unwritten (k : SV) : SV := rebuild .unwrittenStorageValue [] [k]

theorem stLoad_snd_some (d : TData) (k : SV) (g : List SV) (h : lookupSV (stMap d k) k = some g) :
    (stLoad d k).2 = d := by
  unfold stMap at h
  unfold stLoad
  simp only [h]

theorem stMap_stLoad_none (d : TData) (k k' : SV) (h : lookupSV (stMap d k) k = none) :
    stMap (stLoad d k).2 k' =
      if isKnownKey k' = isKnownKey k then stMap d k ++ [(k, [unwritten k])] else stMap d k' := by
  unfold stMap at h
  unfold stLoad
  simp only [h]
  unfold stMap unwritten buildNoLimit
  cases hk : isKnownKey k <;> cases hk' : isKnownKey k' <;> simp

theorem gens_stLoad_self (d : TData) (k : SV) :
    gens (stLoad d k).2 k =
      match lookupSV (stMap d k) k with
      | some g => g
      | none => [unwritten k] := by
  cases h : lookupSV (stMap d k) k with
  | some g =>
    rw [stLoad_snd_some d k g h]
    unfold gens; rw [h]; rfl
  | none =>
    conv => lhs; unfold gens
    rw [stMap_stLoad_none d k k h]
    simp only [if_true]
    rw [EvmSim.lookupSV_append_same _ _ _ h]
    rfl

theorem gens_stLoad_other (d : TData) (k k' : SV) (hne : k ≠ k') :
    gens (stLoad d k).2 k' = gens d k' := by
  cases h : lookupSV (stMap d k) k with
  | some g => rw [stLoad_snd_some d k g h]
  | none =>
    conv => lhs; unfold gens
    rw [stMap_stLoad_none d k k' h]
    split
    · rename_i he
      rw [EvmSim.lookupSV_append_other _ _ _ _ hne]
      unfold gens stMap
      rw [he]
    · rfl

/-- the key is present after a load -/
theorem stLoad_present (d : TData) (k : SV) :
    (lookupSV (stMap (stLoad d k).2 k) k).isSome = true := by
  cases h : lookupSV (stMap d k) k with
  | some g => rw [stLoad_snd_some d k g h, h]; rfl
  | none =>
    rw [stMap_stLoad_none d k k h]
    simp only [if_true]
    rw [EvmSim.lookupSV_append_same _ _ _ h]
    rfl

/-- SLOAD never drops history: the generations under every key are kept (under every key other
than `k` they are unchanged; under `k` they are unchanged, or the placeholder is created), and `k`
is present afterwards. -/
theorem stLoad_keeps (d : TData) (k : SV) :
    (∀ k', gens d k' <+: gens (stLoad d k).2 k') ∧
    (lookupSV (stMap (stLoad d k).2 k) k).isSome = true := by
  refine ⟨fun k' => ?_, stLoad_present d k⟩
  by_cases hne : k = k'
  · subst hne
    rw [gens_stLoad_self]
    cases h : lookupSV (stMap d k) k with
    | some g => simp only [gens, h]; exact List.prefix_refl _
    | none => simp only [gens, h]; exact List.nil_prefix
  · rw [gens_stLoad_other _ _ _ hne]; exact List.prefix_refl _

/-! ### the non-emptiness invariant -/

theorem mem_updateSV {β : Type} (m : List (SV × β)) (k : SV) (x : β) (p : SV × β)
    (hp : p ∈ updateSV m k x) : p ∈ m ∨ p.2 = x := by
  unfold updateSV at hp
  split at hp
  · rw [List.mem_map] at hp
    obtain ⟨q, hq, rfl⟩ := hp
    split
    · exact Or.inr rfl
    · exact Or.inl hq
  · rw [List.mem_append] at hp
    rcases hp with hp | hp
    · exact Or.inl hp
    · simp only [List.mem_singleton] at hp; subst hp; exact Or.inr rfl

theorem lookupSV_mem {β : Type} (m : List (SV × β)) (k : SV) (g : β) (h : lookupSV m k = some g) :
    (k, g) ∈ m := by
  unfold lookupSV at h
  cases hf : m.find? (fun p => p.1.beq k) with
  | none => rw [hf] at h; cases h
  | some p =>
    rw [hf] at h
    simp only [Option.map_some, Option.some.injEq] at h
    have hb := List.find?_some hf
    have hm := List.mem_of_find?_eq_some hf
    have : p.1 = k := TCSlots.beq_eq _ _ hb
    obtain ⟨a, b⟩ := p
    simp only at this h
    subst this h
    exact hm

theorem stMap_sub (d : TData) (k : SV) (p : SV × List SV) (h : p ∈ stMap d k) :
    p ∈ d.stK ++ d.stS := by
  unfold stMap at h
  split at h
  · exact List.mem_append_left _ h
  · exact List.mem_append_right _ h

theorem StWF_init : StWF {} := by
  intro p hp; simp at hp

theorem StWF_of_same {d d' : TData} (hK : d'.stK = d.stK) (hS : d'.stS = d.stS) (h : StWF d) :
    StWF d' := by
  unfold StWF at *; rw [hK, hS]; exact h

theorem StWF_stStore (d : TData) (k v : SV) (h : StWF d) : StWF (stStore d k v) := by
  intro p hp
  unfold stStore at hp
  split at hp
  · simp only [List.mem_append] at hp
    rcases hp with hp | hp
    · rcases mem_updateSV _ _ _ _ hp with hq | hq
      · exact h p (by simp [hq])
      · rw [hq]; simp
    · exact h p (by simp [hp])
  · simp only [List.mem_append] at hp
    rcases hp with hp | hp
    · exact h p (by simp [hp])
    · rcases mem_updateSV _ _ _ _ hp with hq | hq
      · exact h p (by simp [hq])
      · rw [hq]; simp

theorem StWF_stLoad (d : TData) (k : SV) (h : StWF d) : StWF (stLoad d k).2 := by
  cases hl : lookupSV (stMap d k) k with
  | some g => rw [stLoad_snd_some d k g hl]; exact h
  | none =>
    intro p hp
    unfold stMap at hl
    unfold stLoad at hp
    simp only [hl] at hp
    split at hp
    · simp only [List.mem_append, List.mem_singleton] at hp
      rcases hp with (hp | hp) | hp
      · exact h p (by simp [hp])
      · subst hp; simp
      · exact h p (by simp [hp])
    · simp only [List.mem_append, List.mem_singleton] at hp
      rcases hp with hp | (hp | hp)
      · exact h p (by simp [hp])
      · exact h p (by simp [hp])
      · subst hp; simp

theorem gens_ne_nil_of_present {d : TData} {k : SV} (hwf : StWF d)
    (hp : (lookupSV (stMap d k) k).isSome = true) : gens d k ≠ [] := by
  unfold gens
  cases h : lookupSV (stMap d k) k with
  | none => rw [h] at hp; cases hp
  | some g =>
    simp only [Option.getD_some]
    exact hwf (k, g) (stMap_sub d k _ (lookupSV_mem _ _ _ h))

/-- With the invariant `StWF` (every present key has a generation) the loaded key has a
non-empty history after the load.  Without it the claim fails: see `stLoad_nonempty_counterexample`. -/
theorem stLoad_nonempty_partial (d : TData) (k : SV) (hwf : StWF d) : gens (stLoad d k).2 k ≠ [] :=
  gens_ne_nil_of_present (StWF_stLoad d k hwf) (stLoad_present d k)

/-- A state in which key `1` is present with an empty history (not reachable: `StWF` fails):
loading it leaves the history empty. -/
theorem stLoad_nonempty_counterexample :
    gens (stLoad { stK := [(mkKnown 1#256, [])] } (mkKnown 1#256)).2 (mkKnown 1#256) = [] := by
  rfl

/-- Everything in the history is exported by `VMState::all_values` as a `storageWrite` of the key. -/
theorem allValues_exports (d : TData) (k v : SV) (h : v ∈ gens d k) :
    rebuild .storageWrite [] [k, v] ∈ Pipe.allValues d := by
  unfold gens at h
  cases hl : lookupSV (stMap d k) k with
  | none => rw [hl] at h; simp at h
  | some g =>
    rw [hl] at h
    simp only [Option.getD_some] at h
    have hm := stMap_sub d k _ (lookupSV_mem _ _ _ hl)
    unfold Pipe.allValues
    simp only [List.mem_append, List.mem_flatMap, List.mem_map]
    exact Or.inl (Or.inl (Or.inr ⟨(k, g), by simpa using hm, v, h, rfl⟩))

/-! ### operations that do not touch storage -/

/-- both storage maps are the same -/
def SameSt (d d' : TData) : Prop := d'.stK = d.stK ∧ d'.stS = d.stS

theorem SameSt.rfl' (d : TData) : SameSt d d := ⟨rfl, rfl⟩
theorem SameSt.trans' {a b c : TData} (h1 : SameSt a b) (h2 : SameSt b c) : SameSt a c :=
  ⟨h2.1.trans h1.1, h2.2.trans h1.2⟩

theorem same_push {d d' : TData} {v : SV} (h : push d v = .ok d') : SameSt d d' := by
  unfold push at h
  split at h
  · cases h
  · cases h; exact ⟨rfl, rfl⟩

theorem same_pop {d d' : TData} {v : SV} (h : pop d = .ok (v, d')) : SameSt d d' := by
  unfold pop at h
  split at h
  · cases h
  · cases h; exact ⟨rfl, rfl⟩

theorem same_popN : ∀ (n : Nat) (d : TData) (acc : List SV),
    (∀ args d', popN n d acc = .ok (args, d') → SameSt d d') ∧
    (∀ e d', popN n d acc = .error (e, d') → SameSt d d') := by
  intro n
  induction n with
  | zero =>
    intro d acc
    refine ⟨fun args d' h => ?_, fun e d' h => ?_⟩
    · simp only [popN] at h; cases h; exact SameSt.rfl' _
    · simp only [popN] at h; cases h
  | succ n ih =>
    intro d acc
    refine ⟨fun args d' h => ?_, fun e d' h => ?_⟩
    · simp only [popN] at h
      split at h
      · cases h
      · rename_i v d1 hp
        exact (same_pop hp).trans' ((ih d1 (v :: acc)).1 _ _ h)
    · simp only [popN] at h
      split at h
      · cases h; exact SameSt.rfl' _
      · rename_i v d1 hp
        exact (same_pop hp).trans' ((ih d1 (v :: acc)).2 _ _ h)

theorem same_popN_ok {n : Nat} {d d' : TData} {acc args : List SV}
    (h : popN n d acc = .ok (args, d')) : SameSt d d' := (same_popN n d acc).1 _ _ h
theorem same_popN_err {n : Nat} {d d' : TData} {acc : List SV} {e : XErr}
    (h : popN n d acc = .error (e, d')) : SameSt d d' := (same_popN n d acc).2 _ _ h

theorem same_dup {d d' : TData} {n : Nat} (h : dup d n = .ok d') : SameSt d d' := by
  unfold dup at h
  split at h
  · cases h
  · split at h
    · exact same_push h
    · cases h

theorem same_swap {d d' : TData} {n : Nat} (h : swap d n = .ok d') : SameSt d d' := by
  unfold swap at h
  split at h
  · cases h
  · split at h
    · cases h
    · split at h
      · cases h; exact ⟨rfl, rfl⟩
      · cases h

theorem same_pushOut (d : TData) (ctr : Nat) (v : SV) : SameSt d (pushOut d ctr v).d := by
  unfold pushOut
  split
  · rename_i d' h; exact same_push h
  · exact SameSt.rfl' _

theorem same_record (d : TData) (v : SV) : SameSt d (record d v) := ⟨rfl, rfl⟩
theorem same_logValue (d : TData) (v : SV) : SameSt d (logValue d v) := ⟨rfl, rfl⟩

theorem same_memStore (d : TData) (o v : SV) (w : Bool) : SameSt d (memStore d o v w) := by
  unfold memStore
  dsimp only
  split <;> exact ⟨rfl, rfl⟩

theorem same_memGetC (d : TData) (k : Nat) : SameSt d (memGetC d k).2 := by
  unfold memGetC
  split <;> exact ⟨rfl, rfl⟩

theorem same_memGetS (d : TData) (k : SV) : SameSt d (memGetS d k).2 := by
  unfold memGetS
  split <;> exact ⟨rfl, rfl⟩

theorem same_memLoad (d : TData) (o : SV) : SameSt d (memLoad d o).2 := by
  unfold memLoad
  dsimp only
  split
  · exact same_memGetC ..
  · exact same_memGetS ..

theorem same_memLoad' {d d' : TData} {o v : SV} (h : memLoad d o = (v, d')) : SameSt d d' := by
  have := same_memLoad d o; rw [h] at this; exact this

theorem same_memGetMany : ∀ (ks : List Nat) (d : TData), SameSt d (memGetMany d ks).2
  | [], d => SameSt.rfl' _
  | k :: ks, d => by
    simp only [memGetMany]
    exact (same_memGetC d k).trans' (same_memGetMany ks _)

theorem same_memLoadSlice {c : Ctx} {d d' : TData} {o sz v : SV}
    (h : memLoadSlice c d o sz = .ok (v, d')) : SameSt d d' := by
  unfold memLoadSlice at h
  dsimp only at h
  split at h
  · rename_i w hw
    split at h
    · injection h with h
      have h2 := congrArg Prod.snd h
      dsimp only at h2
      rw [← h2]
      exact same_memGetMany _ _
    · injection h with h
      rw [← show (memGetC d (asUsize w)).2 = d' from congrArg Prod.snd h]
      exact same_memGetC ..
  · injection h with h
    rw [← show (memGetS d (fold o)).2 = d' from congrArg Prod.snd h]
    exact same_memGetS ..

theorem same_foldl {α : Type} (f : TData × Nat → α → TData × Nat)
    (hf : ∀ acc a, SameSt acc.1 (f acc a).1) :
    ∀ (l : List α) (acc : TData × Nat), SameSt acc.1 (l.foldl f acc).1
  | [], acc => SameSt.rfl' _
  | a :: l, acc => by
    simp only [List.foldl_cons]
    exact (hf acc a).trans' (same_foldl f hf l _)

theorem same_copyLoop (c : Ctx) (d : TData) (ctr : Nat) (dest : SV) (srcBase : Option SV)
    (mkVal : SV → SV → Nat → SV × Nat) (limit : Nat) (foldDest : Bool) :
    SameSt d (copyLoop c d ctr dest srcBase mkVal limit foldDest).1 := by
  unfold copyLoop
  refine same_foldl _ (fun acc a => ?_) _ (d, ctr)
  obtain ⟨d0, c0⟩ := acc
  exact same_memStore ..

theorem same_storeReturnData (c : Ctx) (d : TData) (ctr : Nat) (rs ro : SV) :
    SameSt d (storeReturnData c d ctr rs ro).1 := by
  unfold storeReturnData
  split
  · exact same_copyLoop ..
  · exact same_memStore ..

/-- A relation between thread states that holds whenever storage is untouched, and is
transitive: the case analysis over `execOp` is done once, for any such relation. -/
class StRel (R : TData → TData → Prop) : Prop where
  same : ∀ {d d'}, SameSt d d' → R d d'
  trans : ∀ {a b c}, R a b → R b c → R a c

theorem StRel.refl {R : TData → TData → Prop} [StRel R] (d : TData) : R d d :=
  StRel.same (SameSt.rfl' d)

theorem StRel.step {R : TData → TData → Prop} [StRel R] {d d0 d1 : TData}
    (h : SameSt d0 d1) (h0 : R d d0) : R d d1 := StRel.trans h0 (StRel.same h)

instance : StRel SameSt := ⟨fun h => h, SameSt.trans'⟩

/-- close a goal `R d X` where `X` was reached from `d` by storage-free operations -/
macro "st_chain" : tactic => `(tactic| (
  repeat (first
    | exact StRel.refl _
    | refine StRel.step (same_pushOut _ _ _) ?_
    | refine StRel.step (same_record _ _) ?_
    | refine StRel.step (same_logValue _ _) ?_
    | refine StRel.step (same_memStore _ _ _ _) ?_
    | refine StRel.step (same_pop (by assumption)) ?_
    | refine StRel.step (same_popN_ok (by assumption)) ?_
    | refine StRel.step (same_popN_err (by assumption)) ?_
    | refine StRel.step (same_dup (by assumption)) ?_
    | refine StRel.step (same_swap (by assumption)) ?_
    | refine StRel.step (same_memLoad' (by assumption)) ?_
    | refine StRel.step (same_memLoadSlice (by assumption)) ?_
    | (show _ (fail _ _ _).d; dsimp only [fail]))))

theorem same_copyOp (c : Ctx) (d : TData) (ctr : Nat) (k : Kind) (wa : Bool) (bound : Nat) :
    SameSt d (copyOp c d ctr k wa bound).d := by
  unfold copyOp
  split
  · st_chain
  · rename_i args d1 hp
    dsimp only
    split
    · split
      · exact (same_popN_ok hp).trans' (same_copyLoop ..)
      · st_chain
    · st_chain

theorem same_callOp (c : Ctx) (d : TData) (ctr : Nat) (wv : Bool) :
    SameSt d (callOp c d ctr wv).d := by
  unfold callOp
  split
  · st_chain
  · rename_i args d1 hp
    dsimp only
    split
    · split
      · st_chain
      · rename_i argData d2 hm
        refine StRel.step (same_pushOut _ _ _) ?_
        refine StRel.step (same_storeReturnData ..) ?_
        st_chain
    · st_chain

theorem rel_ite {R : TData → TData → Prop} {d : TData} {p : Prop} [Decidable p] {a b : OpOut}
    (ha : p → R d a.d) (hb : ¬p → R d b.d) : R d (if p then a else b).d := by
  split
  · exact ha ‹_›
  · exact hb ‹_›

theorem rel_stLoad {R : TData → TData → Prop} [StRel R] {d d0 d2 : TData} {k v : SV}
    (h : stLoad d0 k = (v, d2)) (hl : ∀ d0 k, R d0 (stLoad d0 k).2) (h0 : R d d0) : R d d2 := by
  have := hl d0 k
  rw [h] at this
  exact StRel.trans h0 this

set_option maxRecDepth 8000 in
/-- The one case analysis over `execOp`: any relation that holds across storage-free operations
and is transitive holds between the state before and after an instruction, provided it holds
across `stStore` (needed for SSTORE only) and across `stLoad` (needed for SLOAD only). -/
theorem execOp_rel (R : TData → TData → Prop) [StRel R] (c : Ctx) (code : List Disasm.Instr)
    (ins : Disasm.Instr) (d : TData) (ctr : Nat)
    (hstore : ins = .op 0x55 → ∀ d0 k v, R d0 (stStore d0 k v))
    (hload : ins = .op 0x54 → ∀ d0 k, R d0 (stLoad d0 k).2) :
    R d (execOp c code ins d ctr).d := by
  unfold execOp
  split
  · exact StRel.refl _
  · exact StRel.refl _
  · exact StRel.step (same_pushOut ..) (StRel.refl _)
  · rename_i b
    repeat' (refine rel_ite (fun _ => ?_) (fun _ => ?_))
    all_goals first
      | exact StRel.refl _
      | exact StRel.same (same_copyOp ..)
      | exact StRel.same (same_callOp ..)
      | (split_all
         all_goals first
           | (st_chain; done)
           | (st_chain
              refine rel_stLoad (by assumption)
                (hload (congrArg _ (eq_of_beq ‹(b == 0x54) = true›))) ?_
              st_chain; done)
           | (refine StRel.trans ?_ (hstore (congrArg _ (eq_of_beq ‹(b == 0x55) = true›)) _ _ _)
              st_chain; done))

/-- history only grows (as a prefix, under every key) -/
def Grows (d d' : TData) : Prop := ∀ k, gens d k <+: gens d' k

theorem gens_of_same {d d' : TData} (h : SameSt d d') (k : SV) : gens d' k = gens d k := by
  unfold gens stMap; rw [h.1, h.2]

instance : StRel Grows where
  same := fun h k => by rw [gens_of_same h k]; exact List.prefix_refl _
  trans := fun h1 h2 k => List.IsPrefix.trans (h1 k) (h2 k)

/-- `StWF` is kept -/
def KeepsWF (d d' : TData) : Prop := StWF d → StWF d'

instance : StRel KeepsWF where
  same := fun h hw => StWF_of_same h.1 h.2 hw
  trans := fun h1 h2 hw => h2 (h1 hw)

/-- Every instruction only extends the storage history: under every key, the generations before
the instruction are a prefix of the generations after it. -/
theorem execOp_storage_monotone (c : Ctx) (code : List Disasm.Instr) (ins : Disasm.Instr)
    (d : TData) (ctr : Nat) (k : SV) :
    gens d k <+: gens (execOp c code ins d ctr).d k :=
  execOp_rel Grows c code ins d ctr (fun _ d0 k v => (stStore_keeps d0 k v).1)
    (fun _ d0 k => (stLoad_keeps d0 k).1) k

/-- Only SLOAD (0x54) and SSTORE (0x55) touch the storage maps at all. -/
theorem execOp_storage_same (c : Ctx) (code : List Disasm.Instr) (ins : Disasm.Instr)
    (d : TData) (ctr : Nat) (h54 : ins ≠ .op 0x54) (h55 : ins ≠ .op 0x55) :
    (execOp c code ins d ctr).d.stK = d.stK ∧ (execOp c code ins d ctr).d.stS = d.stS :=
  execOp_rel SameSt c code ins d ctr (fun h => absurd h h55) (fun h => absurd h h54)

/-- Every instruction keeps the invariant "a present key has at least one generation". -/
theorem execOp_StWF (c : Ctx) (code : List Disasm.Instr) (ins : Disasm.Instr)
    (d : TData) (ctr : Nat) (h : StWF d) : StWF (execOp c code ins d ctr).d :=
  execOp_rel KeepsWF c code ins d ctr (fun _ d0 k v => StWF_stStore d0 k v)
    (fun _ d0 k => StWF_stLoad d0 k) h

/-! ### SSTORE / SLOAD hand their key to the type checker -/

theorem execOp_sstore_eq (c : Ctx) (code : List Disasm.Instr) (d : TData) (ctr : Nat) :
    execOp c code (.op 0x55) d ctr =
      (match popN 2 d [] with
       | .error (e, d') => fail d' ctr e
       | .ok ([key, v], d1) => { d := stStore d1 key v, ctr := ctr }
       | .ok (_, d1) => fail d1 ctr .noSuchStackFrame) := rfl

theorem execOp_sload_eq (c : Ctx) (code : List Disasm.Instr) (d : TData) (ctr : Nat) :
    execOp c code (.op 0x54) d ctr =
      (match pop d with
       | .error e => fail d ctr e
       | .ok (key, d1) =>
         let (v, d2) := stLoad d1 key
         if v.recSize > c.cfg.valueLimit then
           let (v', ctr1) := buildValue c ctr
           pushOut d2 ctr1 v'
         else pushOut d2 ctr v) := rfl

/-- SSTORE on a stack `k :: v :: rest`: no error, and the new state is `stStore` of the popped one. -/
theorem execOp_sstore (c : Ctx) (code : List Disasm.Instr) (d : TData) (ctr : Nat)
    (k v : SV) (rest : List SV) (hs : d.stack = k :: v :: rest) :
    (execOp c code (.op 0x55) d ctr).err = none ∧
    (execOp c code (.op 0x55) d ctr).d = stStore { d with stack := rest } k v := by
  have hp : popN 2 d [] = .ok ([k, v], { d with stack := rest }) := by
    simp [popN, pop, hs]
  rw [execOp_sstore_eq, hp]
  exact ⟨rfl, rfl⟩

/-- After SSTORE of `v` under key `k` the write is exported by `all_values` as a top-level
`storageWrite` with that key.  (For a literal key `TCSlots.literal_key_reported` /
`C06_literal_key_reported` then gives a layout row at that index: see `sstore_literal_exported`.) -/
theorem sstore_exported (c : Ctx) (code : List Disasm.Instr) (d : TData) (ctr : Nat)
    (k v : SV) (rest : List SV) (hs : d.stack = k :: v :: rest) :
    (execOp c code (.op 0x55) d ctr).err = none ∧
    rebuild .storageWrite [] [k, v] ∈ Pipe.allValues (execOp c code (.op 0x55) d ctr).d := by
  obtain ⟨he, hd⟩ := execOp_sstore c code d ctr k v rest hs
  refine ⟨he, ?_⟩
  rw [hd]
  exact allValues_exports _ k v (stStore_keeps _ k v).2

/-- SLOAD with key `k` on top of the stack: the state afterwards has the storage of
`(stLoad (popped state) k).2`. -/
theorem execOp_sload (c : Ctx) (code : List Disasm.Instr) (d : TData) (ctr : Nat)
    (k : SV) (rest : List SV) (hs : d.stack = k :: rest) :
    SameSt (stLoad { d with stack := rest } k).2 (execOp c code (.op 0x54) d ctr).d := by
  have hp : pop d = .ok (k, { d with stack := rest }) := by simp [pop, hs]
  rw [execOp_sload_eq, hp]
  cases hst : stLoad { d with stack := rest } k with
  | mk v d2 =>
    dsimp only
    rw [hst]
    dsimp only
    split
    · exact same_pushOut ..
    · exact same_pushOut ..

/-- After SLOAD with key `k` on top of the stack, in a state satisfying the invariant `StWF`
(every present key has a generation: true initially, kept by every instruction — `StWF_init`,
`execOp_StWF`), some generation `g` under `k` — an earlier write, or else the
`UnwrittenStorageValue` placeholder created by the load — is exported by `all_values` as a
top-level `storageWrite` with key `k`.  `_partial`: the hypothesis `StWF d` is needed, see
`sload_exported_counterexample`. -/
theorem sload_exported_partial (c : Ctx) (code : List Disasm.Instr) (d : TData) (ctr : Nat)
    (k : SV) (rest : List SV) (hs : d.stack = k :: rest) (hwf : StWF d) :
    ∃ g, (g ∈ gens d k ∨ g = unwritten k) ∧
      rebuild .storageWrite [] [k, g] ∈ Pipe.allValues (execOp c code (.op 0x54) d ctr).d := by
  have hsame := execOp_sload c code d ctr k rest hs
  have hwf1 : StWF { d with stack := rest } := StWF_of_same rfl rfl hwf
  have hg1 : gens { d with stack := rest } k = gens d k := gens_of_same ⟨rfl, rfl⟩ k
  have hne := stLoad_nonempty_partial _ k hwf1
  have hself := gens_stLoad_self { d with stack := rest } k
  obtain ⟨g, hg⟩ := List.exists_mem_of_ne_nil _ hne
  refine ⟨g, ?_, allValues_exports _ k g (by rw [gens_of_same hsame k]; exact hg)⟩
  rw [hself] at hg
  cases hl : lookupSV (stMap { d with stack := rest } k) k with
  | some gs =>
    rw [hl] at hg
    left
    rw [← hg1]
    unfold gens
    rw [hl]
    exact hg
  | none =>
    rw [hl] at hg
    right
    simpa using hg

/-- Without `StWF` the claim of `sload_exported` fails: in this (unreachable) state key `1` is
present with an empty history; SLOAD leaves it empty, and `all_values` consists of the loaded
value alone — no `storageWrite` at all. -/
theorem sload_exported_counterexample :
    let c : Ctx := { cfg := ⟨0, 0, 0, 100, 0, false⟩, ip := 0, codeLen := 1 }
    let d : TData := { stack := [mkKnown 1#256], stK := [(mkKnown 1#256, [])] }
    Pipe.allValues (execOp c [] (.op 0x54) d 0).d =
      [rebuild .sLoad [] [mkKnown 1#256, mkKnown 0#256]] := by
  rfl

/-- A literal key makes the exported write a literal access in the sense of
`TCSpec.literalAccess`, which is the hypothesis `hlit` of `TCSlots.literal_key_reported`
(= `C06_literal_key_reported`). -/
theorem literalAccess_storageWrite (w : Word) (g : SV) :
    TCSpec.literalAccess w.toNat (rebuild .storageWrite [] [mkKnown w, g]) = true := by
  simp [TCSpec.literalAccess, rebuild, mkKnown]

/-- the same for any constant key as the machine builds them (`knownData` with the word as
first payload entry) -/
theorem literalAccess_storageWrite' (x : Nat) (a : List Nat) (ks : List SV) (sz : Nat) (g : SV) :
    TCSpec.literalAccess x (rebuild .storageWrite [] [.node .knownData (x :: a) ks sz, g]) = true := by
  simp [TCSpec.literalAccess, rebuild]

/-- SSTORE to a literal key hands the type checker a literal access to that slot. -/
theorem sstore_literal_exported (c : Ctx) (code : List Disasm.Instr) (d : TData) (ctr : Nat)
    (w : Word) (v : SV) (rest : List SV) (hs : d.stack = mkKnown w :: v :: rest) :
    ∃ x ∈ Pipe.allValues (execOp c code (.op 0x55) d ctr).d,
      TCSpec.literalAccess w.toNat x = true :=
  ⟨_, (sstore_exported c code d ctr _ v rest hs).2, literalAccess_storageWrite w v⟩

/-- SLOAD of a literal key hands the type checker a literal access to that slot. -/
theorem sload_literal_exported_partial (c : Ctx) (code : List Disasm.Instr) (d : TData) (ctr : Nat)
    (w : Word) (rest : List SV) (hs : d.stack = mkKnown w :: rest) (hwf : StWF d) :
    ∃ x ∈ Pipe.allValues (execOp c code (.op 0x54) d ctr).d,
      TCSpec.literalAccess w.toNat x = true := by
  obtain ⟨g, _, hg⟩ := sload_exported_partial c code d ctr _ rest hs hwf
  exact ⟨_, hg, literalAccess_storageWrite w g⟩

/-! ## M3 — forking copies the whole state; `step` touches only the head thread -/

/-- What `advance` does to the queue: the head thread either moves on by one instruction or is
retired to `stored`; its data is not touched, nor is any other thread. -/
theorem advance_shape {cfg : Cfg} {code : List Disasm.Instr} {s : VMS} {t : Thread}
    {q : List Thread} (hq : s.queue = t :: q) :
    ((advance cfg code s).queue = { t with ip := t.ip + 1 } :: q ∧
      (advance cfg code s).stored = s.stored) ∨
    ((advance cfg code s).queue = q ∧ (advance cfg code s).stored = s.stored ++ [t]) := by
  rw [advance_cons hq]
  split
  · exact Or.inr ⟨rfl, rfl⟩
  · exact Or.inl ⟨rfl, rfl⟩

/-- the threads the state handed to `advance` holds after an `Ok` instruction -/
theorem midOk_shape (cfg : Cfg) (s : VMS) (t : Thread) (rest : List Thread) (ins : Disasm.Instr)
    (o : OpOut) :
    ∃ h tl, (midOk cfg s t rest ins o).queue = h :: (rest ++ tl) ∧
      (midOk cfg s t rest ins o).stored = s.stored ∧ h.d = o.d ∧
      (∀ x ∈ tl, x.d = { o.d with forkPoint := t.ip }) := by
  unfold midOk
  dsimp only
  split
  · refine ⟨?w1, [], ?e1, rfl, ?e2, by simp⟩
    case e1 => rw [List.append_nil]
    case e2 => rfl
  · split
    · split
      · exact ⟨_, [_], rfl, rfl, rfl, by simp⟩
      · refine ⟨?w2, [], ?e1, rfl, ?e2, by simp⟩
        case e1 => rw [List.append_nil]
        case e2 => rfl
    · split
      · refine ⟨?w3, [], ?e1, rfl, ?e2, by simp⟩
        case e1 => rw [List.append_nil]
        case e2 => rfl
      · refine ⟨?w4, [], ?e1, rfl, ?e2, by simp⟩
        case e1 => rw [List.append_nil]
        case e2 => rfl

/-- Frame theorem for one machine iteration: the queue behind the head thread and the stored
threads are kept verbatim, in place; new entries (the continued head thread, a forked child, the
retired head thread) carry the head thread's data before or after its instruction. -/
theorem step_shape (cfg : Cfg) (code : List Disasm.Instr) (s : VMS) :
    ∃ hd tl ret : List Thread,
      (step cfg code s).queue = hd ++ s.queue.tail ++ tl ∧
      (step cfg code s).stored = s.stored ++ ret ∧
      ∀ x ∈ hd ++ tl ++ ret, ∃ t, s.queue.head? = some t ∧
        (x.d = t.d ∨ ∃ ins, code[t.ip]? = some ins ∧
          (x.d = (opOut cfg code s t ins).d ∨
           x.d = { (opOut cfg code s t ins).d with forkPoint := t.ip })) := by
  cases hq : s.queue with
  | nil =>
    rw [step_nil hq]
    exact ⟨[], [], [], by simp [hq], by simp, by simp⟩
  | cons t rest =>
    cases hi : code[t.ip]? with
    | none =>
      rw [step_oob hq hi]
      refine ⟨[t], [], [], by simp [hq], by simp, ?_⟩
      intro x hx
      simp only [List.append_nil, List.mem_singleton] at hx
      subst hx
      exact ⟨x, rfl, Or.inl rfl⟩
    | some ins =>
      cases he : (opOut cfg code s t ins).err with
      | none =>
        rw [step_ok hq hi he]
        obtain ⟨h, tl, hmq, hms, hhd, htl⟩ := midOk_shape cfg s t rest ins (opOut cfg code s t ins)
        have hwit : ∀ x : Thread, (x.d = (opOut cfg code s t ins).d ∨
            x.d = { (opOut cfg code s t ins).d with forkPoint := t.ip }) →
            ∃ t', (t :: rest).head? = some t' ∧
              (x.d = t'.d ∨ ∃ ins, code[t'.ip]? = some ins ∧
                (x.d = (opOut cfg code s t' ins).d ∨
                 x.d = { (opOut cfg code s t' ins).d with forkPoint := t'.ip })) :=
          fun x hx => ⟨t, rfl, Or.inr ⟨ins, hi, hx⟩⟩
        rcases advance_shape (cfg := cfg) (code := code) hmq with ⟨h1, h2⟩ | ⟨h1, h2⟩
        · refine ⟨[{ h with ip := h.ip + 1 }], tl, [], by simp [h1], by simp [h2, hms], ?_⟩
          intro x hx
          simp only [List.append_nil, List.mem_append, List.mem_singleton] at hx
          rcases hx with hx | hx
          · subst hx; exact hwit _ (Or.inl hhd)
          · exact hwit _ (Or.inr (htl x hx))
        · refine ⟨[], tl, [h], by simp [h1], by simp [h2, hms], ?_⟩
          intro x hx
          simp only [List.nil_append, List.mem_append, List.mem_singleton] at hx
          rcases hx with hx | hx
          · exact hwit _ (Or.inr (htl x hx))
          · subst hx; exact hwit _ (Or.inl hhd)
      | some e =>
        by_cases hp : ∃ site, e = .panic site
        · obtain ⟨site, rfl⟩ := hp
          rw [step_panic hq hi he]
          refine ⟨[t], [], [], by simp [hq], by simp, ?_⟩
          intro x hx
          simp only [List.append_nil, List.mem_singleton] at hx
          subst hx
          exact ⟨x, rfl, Or.inl rfl⟩
        · rw [step_err hq hi he (fun site h => hp ⟨site, h⟩)]
          have hmq : (midErr cfg s t rest (opOut cfg code s t ins) e).queue =
              { t with visited := bump t.visited t.ip, d := (opOut cfg code s t ins).d } :: rest := rfl
          have hms : (midErr cfg s t rest (opOut cfg code s t ins) e).stored = s.stored := rfl
          rcases advance_shape (cfg := cfg) (code := code) hmq with ⟨h1, h2⟩ | ⟨h1, h2⟩
          · refine ⟨[(⟨t.ip + 1, bump t.visited t.ip, t.gas, (opOut cfg code s t ins).d⟩ : Thread)], [], [], by simp [h1], by simp [h2, hms], ?_⟩
            intro x hx
            simp only [List.append_nil, List.mem_singleton] at hx
            subst hx
            exact ⟨t, rfl, Or.inr ⟨ins, hi, Or.inl rfl⟩⟩
          · refine ⟨[], [], [(⟨t.ip, bump t.visited t.ip, t.gas, (opOut cfg code s t ins).d⟩ : Thread)], by simp [h1], by simp [h2, hms], ?_⟩
            intro x hx
            simp only [List.nil_append, List.mem_singleton] at hx
            subst hx
            exact ⟨t, rfl, Or.inr ⟨ins, hi, Or.inl rfl⟩⟩

/-- `step` changes the data of the head thread of the queue only: every other thread of the
queue and every stored thread appears unchanged afterwards. -/
theorem step_touches_head_only (cfg : Cfg) (code : List Disasm.Instr) (s : VMS) :
    ∀ th ∈ s.queue.tail ++ s.stored,
      th ∈ (step cfg code s).queue ++ (step cfg code s).stored := by
  intro th hth
  obtain ⟨hd, tl, ret, hq, hs, _⟩ := step_shape cfg code s
  rw [hq, hs]
  simp only [List.mem_append] at hth ⊢
  rcases hth with h | h
  · exact Or.inl (Or.inl (Or.inr h))
  · exact Or.inr (Or.inl h)

/-- The data of the thread after a JUMPI that requests a fork: the state after the two pops,
with the popped condition recorded. -/
theorem jumpi_fork_data {c : Ctx} {code : List Disasm.Instr} {d : TData} {ctr tgt : Nat}
    (hf : (execOp c code (.op 0x57) d ctr).forkTo = some tgt) :
    ∃ counter cond d1 d2, pop d = .ok (counter, d1) ∧ pop d1 = .ok (cond, d2) ∧
      validateJump code counter = .ok tgt ∧
      (execOp c code (.op 0x57) d ctr).d = record d2 cond := by
  have hf0 := hf
  rw [execOp_jumpi_eq] at hf
  split at hf
  · cases hf
  · rename_i counter d1 hp
    split at hf
    · cases hf
    · rename_i cond d2 hp2
      dsimp only at hf
      split at hf
      · rename_i t' hv
        cases hf
        refine ⟨counter, cond, d1, d2, hp, hp2, hv, ?_⟩
        rw [execOp_jumpi_eq, hp]
        dsimp only
        rw [hp2]
        dsimp only
        rw [hv]
      · cases hf

/-- M3, fork. When `step` executes a JUMPI that forks (valid target, limits not reached), then
after the step the forked thread `child` sits at the end of the queue and the continuing thread
`cont` is either still the head of the queue (moved to the next instruction) or has been retired
to `stored`; nothing else changed in the queue or in `stored`.  Both carry the data `o.d` the
JUMPI left (the state after its two pops, `jumpi_fork_data`): `cont.d = o.d` literally, and
`child.d` is `o.d` with only the bookkeeping field `forkPoint` set to the JUMPI's offset — stack,
memory, storage, recorded and logged values are the same (`_partial`: literal equality
`child.d = o.d` fails because of `forkPoint`, see `fork_forkPoint_differs`). -/
theorem fork_copies_state_partial {cfg : Cfg} {code : List Disasm.Instr} {s : VMS} {t : Thread}
    {rest : List Thread} {ins : Disasm.Instr} {tgt : Nat}
    (hq : s.queue = t :: rest) (hi : code[t.ip]? = some ins)
    (he : (opOut cfg code s t ins).err = none)
    (hf : (opOut cfg code s t ins).forkTo = some tgt)
    (hfork : forkOk cfg (bump t.visited t.ip) s.forks tgt = true) :
    let o := opOut cfg code s t ins
    let child : Thread :=
      { ip := tgt, visited := bump t.visited t.ip, gas := t.gas, d := { o.d with forkPoint := t.ip } }
    let cont : Thread := after t ins o
    ins = .op 0x57 ∧
    (((step cfg code s).queue = { cont with ip := t.ip + 1 } :: rest ++ [child] ∧
        (step cfg code s).stored = s.stored) ∨
     ((step cfg code s).queue = rest ++ [child] ∧
        (step cfg code s).stored = s.stored ++ [cont])) ∧
    cont.d = o.d ∧
    child.d = { o.d with forkPoint := t.ip } ∧
    (child.d.stack = o.d.stack ∧ child.d.memC = o.d.memC ∧ child.d.memS = o.d.memS ∧
      child.d.stK = o.d.stK ∧ child.d.stS = o.d.stS ∧ child.d.recorded = o.d.recorded ∧
      child.d.logged = o.d.logged) ∧
    Pipe.allValues child.d = Pipe.allValues o.d := by
  intro o child cont
  obtain ⟨hins, _, _, hstep, hmq, _⟩ := fork_valid hq hi he hf
  rw [hfork] at hmq
  simp only [if_true] at hmq
  have hms : (midOk cfg s t rest ins o).stored = s.stored := by
    obtain ⟨_, _, _, h, _⟩ := midOk_shape cfg s t rest ins o
    exact h
  refine ⟨hins, ?_, rfl, rfl, ⟨rfl, rfl, rfl, rfl, rfl, rfl, rfl⟩, rfl⟩
  rw [hstep]
  rcases advance_shape (cfg := cfg) (code := code) (s := midOk cfg s t rest ins o)
      (t := after t ins o) (q := rest ++ [child]) hmq with ⟨h1, h2⟩ | ⟨h1, h2⟩
  · left; exact ⟨h1, by rw [h2, hms]⟩
  · right; exact ⟨h1, by rw [h2, hms]⟩

/-- The data `o.d` both threads get in `fork_copies_state_partial` is the head thread's state
after the JUMPI's two pops (with the popped condition recorded). -/
theorem fork_data_after_pops {cfg : Cfg} {code : List Disasm.Instr} {s : VMS} {t : Thread}
    {ins : Disasm.Instr} {tgt : Nat} (hf : (opOut cfg code s t ins).forkTo = some tgt) :
    ∃ counter cond d1 d2, pop t.d = .ok (counter, d1) ∧ pop d1 = .ok (cond, d2) ∧
      validateJump code counter = .ok tgt ∧ (opOut cfg code s t ins).d = record d2 cond := by
  unfold opOut at hf ⊢
  obtain ⟨hins, _⟩ := execOp_forkTo hf
  subst hins
  exact jumpi_fork_data hf

/-- PUSH1 1, PUSH1 5, JUMPI, JUMPDEST: after the third step the continuing thread still has fork
point 0 while the forked child has fork point 4 (the JUMPI's offset) — so the two `d`s are equal
only up to `forkPoint`. -/
theorem fork_forkPoint_differs :
    let cfg : Cfg := ⟨1000, 10, 10, 100, 100, false⟩
    let code : List Disasm.Instr := [.push 1 [1], .nop, .push 1 [5], .nop, .op 0x57, .op 0x5b]
    (step cfg code (step cfg code (step cfg code (step cfg code (step cfg code
      (initVM cfg code)))))).queue.map (fun th => (th.ip, th.d.forkPoint)) = [(5, 0), (5, 4)] := by
  decide +kernel

/-! ### the invariant `StWF` holds in every reachable thread -/

def AllWF (s : VMS) : Prop := ∀ th ∈ s.queue ++ s.stored, StWF th.d

theorem AllWF_init (cfg : Cfg) (code : List Disasm.Instr) : AllWF (initVM cfg code) := by
  intro th hth
  simp only [initVM, List.append_nil, List.mem_singleton] at hth
  subst hth
  exact StWF_init

theorem AllWF_step (cfg : Cfg) (code : List Disasm.Instr) (s : VMS) (h : AllWF s) :
    AllWF (step cfg code s) := by
  intro th hth
  obtain ⟨hd, tl, ret, hq, hs, hnew⟩ := step_shape cfg code s
  rw [hq, hs] at hth
  have hold : ∀ x, x ∈ s.queue.tail ++ s.stored → StWF x.d := by
    intro x hx
    apply h x
    simp only [List.mem_append] at hx ⊢
    rcases hx with hx | hx
    · exact Or.inl (List.mem_of_mem_tail hx)
    · exact Or.inr hx
  have hfresh : ∀ x, x ∈ hd ++ tl ++ ret → StWF x.d := by
    intro x hx
    obtain ⟨t, ht, hx⟩ := hnew x hx
    have htq : t ∈ s.queue := by
      cases hq' : s.queue with
      | nil => rw [hq'] at ht; cases ht
      | cons a l => rw [hq'] at ht; simp only [List.head?_cons, Option.some.injEq] at ht; simp [ht]
    have hwt : StWF t.d := h t (List.mem_append_left _ htq)
    rcases hx with hx | ⟨ins, _, hx | hx⟩
    · rw [hx]; exact hwt
    · rw [hx]; exact execOp_StWF _ _ _ _ _ hwt
    · rw [hx]; exact StWF_of_same rfl rfl (execOp_StWF _ _ _ _ _ hwt)
  simp only [List.mem_append] at hth
  rcases hth with ((hth | hth) | hth) | (hth | hth)
  · exact hfresh th (by simp [hth])
  · exact hold th (by simp [hth])
  · exact hfresh th (by simp [hth])
  · exact hold th (by simp [hth])
  · exact hfresh th (by simp [hth])

theorem AllWF_run (cfg : Cfg) (code : List Disasm.Instr) :
    ∀ (fuel : Nat) (s : VMS), AllWF s → AllWF (run cfg code fuel s)
  | 0, s, h => h
  | fuel + 1, s, h => by
    simp only [run]
    split
    · exact h
    · exact AllWF_run cfg code fuel _ (AllWF_step cfg code s h)

/-- The hypothesis `StWF` of `sload_exported_partial` holds for every thread of every state the
machine reaches from its initial state. -/
theorem reachable_StWF (cfg : Cfg) (code : List Disasm.Instr) (fuel : Nat) :
    ∀ th ∈ (run cfg code fuel (initVM cfg code)).queue ++ (run cfg code fuel (initVM cfg code)).stored,
      StWF th.d :=
  AllWF_run cfg code fuel _ (AllWF_init cfg code)

end SLE.MachineFacts

section AxiomAudit
open SLE.MachineFacts
#print axioms validDest_iff_stream_jumpdest
#print axioms validDest_iff_stream_jumpdest_nat
#print axioms validateJump_iff_evm
#print axioms stStore_keeps
#print axioms stLoad_keeps
#print axioms stLoad_nonempty_partial
#print axioms execOp_storage_monotone
#print axioms execOp_storage_same
#print axioms execOp_StWF
#print axioms allValues_exports
#print axioms sstore_exported
#print axioms sload_exported_partial
#print axioms sload_exported_counterexample
#print axioms sstore_literal_exported
#print axioms sload_literal_exported_partial
#print axioms fork_copies_state_partial
#print axioms fork_data_after_pops
#print axioms fork_forkPoint_differs
#print axioms step_shape
#print axioms step_touches_head_only
#print axioms reachable_StWF
end AxiomAudit
