import SLE.Lemmas.FragUnion
/-!
C02 for WORD evidence: the result of the analysis does not depend on the iteration orders of the
hash maps (nor on the round budget), for every word-only judgement set — contradictory ones
included.

* `W1`: two runs of `unify` (any two admissible orders, any two budgets) on the same word-only
  problem leave the same partition and the same resolved evidence at every class.
* `W2`: `type_of` agrees on every registered variable.
* `W3`, `W3_exists`: the layouts agree; a layout under one order/budget is the layout under every
  other order and every budget of at least two rounds.
* `W5_*`: non-vacuity on the fragments of `FragUnion.lean`, with `idOrders` against `revOrders`.
-/
namespace SLE.OrderFreeWords
open SLE SLE.SV SLE.TC SLE.Containers SLE.Unify SLE.Merge SLE.MergeLaws SLE.Layout SLE.Join SLE.OrderFacts
open SLE.Independence SLE.UnifyJoin SLE.FragUnion
open SLE.Rename (analyseLifted)
set_option linter.unusedVariables false
set_option linter.unusedSimpArgs false

/-! ## W1: partition and resolved evidence -/

/-- **W1.**  Same partition, same resolved expression per class, for all word-only problems. -/
theorem W1 {o o' : Orders} (ho : OrdersOk o) (ho' : OrdersOk o') (vs : List SV)
    (hw : WordOnly (infOf vs) (nvarsOf vs)) {fuel fuel' : Nat} {f f' : Forest} {n r n' r' : Nat} :
    unify o fuel (nvarsOf vs) (infOf vs) = .ok (f, n, r) →
    unify o' fuel' (nvarsOf vs) (infOf vs) = .ok (f', n', r') →
    ∀ v, evidence f v = evidence f' v ∧
      (∀ a b, DS.rootOf f a = DS.rootOf f b ↔ DS.rootOf f' a = DS.rootOf f' b) := by
  intro h h' v
  refine ⟨ev_eq ho ho' hw hw h h' v v (fun _ => Iff.rfl), ?_⟩
  intro a b
  rw [(J1_of_ok ho hw h).2.2.2 a b, (J1_of_ok ho' hw h').2.2.2 a b]

/-- W1 for an arbitrary word-only problem (not only those produced by the rules). -/
theorem W1_general {o o' : Orders} (ho : OrdersOk o) (ho' : OrdersOk o') {nvars : Nat}
    {infs : Nat → List TE} (hw : WordOnly infs nvars) {fuel fuel' : Nat} {f f' : Forest}
    {n r n' r' : Nat} (h : unify o fuel nvars infs = .ok (f, n, r))
    (h' : unify o' fuel' nvars infs = .ok (f', n', r')) :
    ∀ v, evidence f v = evidence f' v ∧
      (∀ a b, DS.rootOf f a = DS.rootOf f b ↔ DS.rootOf f' a = DS.rootOf f' b) := by
  intro v
  refine ⟨ev_eq ho ho' hw hw h h' v v (fun _ => Iff.rfl), ?_⟩
  intro a b
  rw [(J1_of_ok ho hw h).2.2.2 a b, (J1_of_ok ho' hw h').2.2.2 a b]

/-! ## W2: `type_of` -/

/-- **W2.**  `type_of` of every registered variable is the same in the two runs. -/
theorem W2 {o o' : Orders} (ho : OrdersOk o) (ho' : OrdersOk o') (vs : List SV)
    (hw : WordOnly (infOf vs) (nvarsOf vs)) {fuel fuel' : Nat} {f f' : Forest} {n r n' r' : Nat} :
    unify o fuel (nvarsOf vs) (infOf vs) = .ok (f, n, r) →
    unify o' fuel' (nvarsOf vs) (infOf vs) = .ok (f', n', r') →
    ∀ v, v < nvarsOf vs → typeOfIn f v = typeOfIn f' v := by
  intro h h' v hv
  rw [(typeOfIn_word ho hw h hv).1, (typeOfIn_word ho' hw h' hv).1, (W1 ho ho' vs hw h h' v).1]

/-! ## W3: the layout -/

/-- the layout loops of the two runs return the same thing (entries or fault) -/
theorem layoutEntries_order_free {o o' : Orders} (ho : OrdersOk o) (ho' : OrdersOk o') (vs : List SV)
    (hw : WordOnly (infOf vs) (nvarsOf vs)) {fuel fuel' : Nat} {f f' : Forest} {n r n' r' : Nat}
    (h : unify o fuel (nvarsOf vs) (infOf vs) = .ok (f, n, r))
    (h' : unify o' fuel' (nvarsOf vs) (infOf vs) = .ok (f', n', r')) :
    layoutEntries (typeOfIn f) 4096 (registerAll vs).values
      = layoutEntries (typeOfIn f') 4096 (registerAll vs).values := by
  have := layoutEntries_congr (typeOfIn f) (typeOfIn f') 4096 id (registerAll vs).values
    (fun _ _ => rfl) (by
      intro t ht hc
      have hlt : t.tv < (registerAll vs).next := allLt_tv ((registerAll_rinv vs).valsLt t ht)
      have hlt' : t.tv < nvarsOf vs := Nat.lt_of_lt_of_le hlt (inferAll_good vs).1
      exact abiTypeFor_wac _ _ 4095 _ _ _ _ (W2 ho ho' vs hw h h' t.tv hlt')
        (typeOfIn_word ho hw h hlt').2)
  rw [List.map_id] at this
  exact this

/-- **W3 (agreement).**  Two runs of the analysis that both return a layout return the same one. -/
theorem W3 {o o' : Orders} (ho : OrdersOk o) (ho' : OrdersOk o') (vs : List SV)
    (hw : WordOnly (infOf vs) (nvarsOf vs)) {fuel fuel' : Nat}
    {l l' : List (Layout.Entry JsonModel.AbiType)} :
    (analyseLifted o fuel vs).outcome = .layout l →
    (analyseLifted o' fuel' vs).outcome = .layout l' → l = l' := by
  intro h h'
  obtain ⟨f, n, r, es, hu, hl, rfl⟩ := (outcome_layout_iff o fuel _ l).mp h
  obtain ⟨f', n', r', es', hu', hl', rfl⟩ := (outcome_layout_iff o' fuel' _ l').mp h'
  rw [layoutEntries_order_free ho ho' vs hw hu hu', hl'] at hl
  injection hl with hl
  rw [hl]

/-- **W3 (existence transfers).**  A layout returned under one order and budget is returned under
every other admissible order with a budget of at least two rounds. -/
theorem W3_exists {o o' : Orders} (ho : OrdersOk o) (ho' : OrdersOk o') (vs : List SV)
    (hw : WordOnly (infOf vs) (nvarsOf vs)) {fuel fuel' : Nat}
    {l : List (Layout.Entry JsonModel.AbiType)} :
    (analyseLifted o fuel vs).outcome = .layout l → 2 ≤ fuel' →
    (analyseLifted o' fuel' vs).outcome = .layout l := by
  intro h hfuel
  obtain ⟨f, n, r, es, hu, hl, rfl⟩ := (outcome_layout_iff o fuel _ l).mp h
  obtain ⟨f', r', hu', _⟩ := J1 ho' hw fuel' hfuel
  refine (outcome_layout_iff o' fuel' _ _).mpr ⟨f', _, r', es, hu', ?_, rfl⟩
  rw [← layoutEntries_order_free ho ho' vs hw hu hu']
  exact hl

/-- W3 as one equation between outcomes, for budgets of at least two rounds on both sides:
layouts and render faults alike are the same (unification cannot fault on word evidence). -/
theorem W3_outcome {o o' : Orders} (ho : OrdersOk o) (ho' : OrdersOk o') (vs : List SV)
    (hw : WordOnly (infOf vs) (nvarsOf vs)) {fuel fuel' : Nat} (hf : 2 ≤ fuel) (hf' : 2 ≤ fuel') :
    (analyseLifted o fuel vs).outcome = (analyseLifted o' fuel' vs).outcome := by
  obtain ⟨f, r, hu, _⟩ := J1 ho hw fuel hf
  obtain ⟨f', r', hu', _⟩ := J1 ho' hw fuel' hf'
  have hle := layoutEntries_order_free ho ho' vs hw hu hu'
  have hU : Unify.unify o fuel (inferAll (registerAll vs)).next
      (fun v => ((infSets (inferAll (registerAll vs)).judgements).lookup v).getD []) = .ok (f, _, r) := hu
  have hU' : Unify.unify o' fuel' (inferAll (registerAll vs)).next
      (fun v => ((infSets (inferAll (registerAll vs)).judgements).lookup v).getD []) = .ok (f', _, r') := hu'
  simp only [analyseLifted, hU, hU', hle]

/-! ## W5: non-vacuity -/

/-- the iteration orders that reverse every list -/
def revOrders : Orders := ⟨List.reverse, List.reverse, List.reverse, List.reverse⟩

theorem revOrders_ok : OrdersOk revOrders :=
  ⟨fun l => List.reverse_perm l, fun l => List.reverse_perm l, fun l => List.reverse_perm l,
    fun l => List.reverse_perm l⟩

/-- the two orders really differ -/
theorem revOrders_ne_idOrders : revOrders ≠ idOrders := by
  intro h
  have : revOrders.vars [0, 1] = idOrders.vars [0, 1] := by rw [h]
  exact absurd this (by decide)

theorem exAB_wordOnly : WordOnly (infOf [exA, exB]) (nvarsOf [exA, exB]) := ex_wordOnly

theorem exC_wordOnly' : WordOnly (infOf [exC1, exC2]) (nvarsOf [exC1, exC2]) :=
  wordOnly_left [exC1, exC2] [exB] exC_disjoint FragUnion.exC_wordOnly

theorem exAB_layout :
    (analyseLifted idOrders 2 [exA, exB]).outcome
      = .layout [⟨1, 0, .uInt none⟩, ⟨2, 0, .address⟩] := rfl

/-- **W5 (a).**  `[exA, exB]` under the reversing orders (any budget ≥ 2): by W3, not by
evaluation. -/
theorem W5_AB (fuel : Nat) (hfuel : 2 ≤ fuel) :
    (analyseLifted revOrders fuel [exA, exB]).outcome
      = .layout [⟨1, 0, .uInt none⟩, ⟨2, 0, .address⟩] :=
  W3_exists FragUnion.idOrders_ok revOrders_ok [exA, exB] exAB_wordOnly exAB_layout hfuel

/-- … under every admissible order, and every layout it returns under any budget is this one. -/
theorem W5_AB_all (o : Orders) (ho : OrdersOk o) :
    (∀ fuel, 2 ≤ fuel → (analyseLifted o fuel [exA, exB]).outcome
      = .layout [⟨1, 0, .uInt none⟩, ⟨2, 0, .address⟩]) ∧
    (∀ fuel l, (analyseLifted o fuel [exA, exB]).outcome = .layout l →
      l = [⟨1, 0, .uInt none⟩, ⟨2, 0, .address⟩]) :=
  ⟨fun fuel hfuel => W3_exists FragUnion.idOrders_ok ho [exA, exB] exAB_wordOnly exAB_layout hfuel,
   fun fuel l h => W3 ho FragUnion.idOrders_ok [exA, exB] exAB_wordOnly h exAB_layout⟩

/-- **W5 (b).**  The contradictory fragment `[exC1, exC2]` (slot 1 receives a `bool` and an
`address`) under the reversing orders: the same conflicted layout. -/
theorem W5_C (fuel : Nat) (hfuel : 2 ≤ fuel) :
    (analyseLifted revOrders fuel [exC1, exC2]).outcome
      = .layout [⟨1, 0, .conflictedType [] []⟩] :=
  W3_exists FragUnion.idOrders_ok revOrders_ok [exC1, exC2] exC_wordOnly' exC_layoutA hfuel

theorem W5_C_all (o : Orders) (ho : OrdersOk o) :
    (∀ fuel, 2 ≤ fuel → (analyseLifted o fuel [exC1, exC2]).outcome
      = .layout [⟨1, 0, .conflictedType [] []⟩]) ∧
    (∀ fuel l, (analyseLifted o fuel [exC1, exC2]).outcome = .layout l →
      l = [⟨1, 0, .conflictedType [] []⟩]) :=
  ⟨fun fuel hfuel => W3_exists FragUnion.idOrders_ok ho [exC1, exC2] exC_wordOnly' exC_layoutA hfuel,
   fun fuel l h => W3 ho FragUnion.idOrders_ok [exC1, exC2] exC_wordOnly' h exC_layoutA⟩

/-- W3 (agreement) instantiated on the two concrete orders, both examples -/
theorem W5_agree {fuel fuel' : Nat} {l l' : List (Layout.Entry JsonModel.AbiType)} :
    ((analyseLifted idOrders fuel [exA, exB]).outcome = .layout l →
      (analyseLifted revOrders fuel' [exA, exB]).outcome = .layout l' → l = l') ∧
    ((analyseLifted idOrders fuel [exC1, exC2]).outcome = .layout l →
      (analyseLifted revOrders fuel' [exC1, exC2]).outcome = .layout l' → l = l') :=
  ⟨W3 FragUnion.idOrders_ok revOrders_ok [exA, exB] exAB_wordOnly,
   W3 FragUnion.idOrders_ok revOrders_ok [exC1, exC2] exC_wordOnly'⟩

/-- the evaluation agrees (sanity) -/
example : (analyseLifted revOrders 2 [exA, exB]).outcome
    = .layout [⟨1, 0, .uInt none⟩, ⟨2, 0, .address⟩] := rfl
example : (analyseLifted revOrders 2 [exC1, exC2]).outcome
    = .layout [⟨1, 0, .conflictedType [] []⟩] := rfl

/-- W1 on the contradictory example: both orders resolve the class of the slot variable to
`conflict` (here by evaluation; W1 says so for every pair of admissible orders). -/
example : ∃ f f' n r n' r',
    unify idOrders 2 (nvarsOf [exC1, exC2]) (infOf [exC1, exC2]) = .ok (f, n, r) ∧
    unify revOrders 2 (nvarsOf [exC1, exC2]) (infOf [exC1, exC2]) = .ok (f', n', r') ∧
    evidence f 1 = [.conflict] ∧ evidence f' 1 = [.conflict] :=
  ⟨_, _, _, _, _, _, rfl, rfl, rfl, rfl⟩


end SLE.OrderFreeWords
