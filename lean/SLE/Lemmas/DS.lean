import SLE.Lemmas.VMap
/-!
The union-find forest `DS` refines a naive partition: invariant, pure root function,
per-operation step lemmas, and whole-history theorems.  Core Lean only.
-/
namespace SLE.Containers
open VMap

/-! ### Parent maps: acyclicity, the root relation, the fuel measure -/

/-- `rank` witnesses acyclicity of the parent map `r`: it strictly increases along every
proper parent link, and parents are present. -/
def Acyc (r : VMap Nat) (rank : Nat → Nat) : Prop :=
  ∀ i p, r.get i = some p → p ≠ i → rank i < rank p ∧ (r.get p).isSome

/-- `RootRel r v t`: following parent links from `v` in `r` ends at `t`
(an absent `v` is its own root). -/
inductive RootRel (r : VMap Nat) : Nat → Nat → Prop
  | absent {v : Nat} : r.get v = none → RootRel r v v
  | root {v : Nat} : r.get v = some v → RootRel r v v
  | step {v p t : Nat} : r.get v = some p → p ≠ v → RootRel r p t → RootRel r v t

theorem RootRel.det {r : VMap Nat} {v t t' : Nat} (h : RootRel r v t) (h' : RootRel r v t') :
    t = t' := by
  induction h generalizing t' with
  | absent h0 =>
    cases h' with
    | absent _ => rfl
    | root _ => rfl
    | step h1 _ _ => rw [h0] at h1; cases h1
  | root h0 =>
    cases h' with
    | absent _ => rfl
    | root _ => rfl
    | step h1 hne _ => rw [h0] at h1; injection h1 with h1; exact absurd h1.symm hne
  | step h0 hne _ ih =>
    cases h' with
    | absent h1 => rw [h0] at h1; cases h1
    | root h1 => rw [h0] at h1; injection h1 with h1; exact absurd h1 hne
    | step h1 _ h2 => rw [h0] at h1; injection h1 with h1; subst h1; exact ih h2

/-- The end of a path is a fixed point of the parent map, or the (absent) start itself. -/
theorem RootRel.end_root {r : VMap Nat} {rank : Nat → Nat} (hc : Acyc r rank) {v t : Nat}
    (h : RootRel r v t) : r.get t = some t ∨ (r.get v = none ∧ t = v) := by
  induction h with
  | absent h0 => exact .inr ⟨h0, rfl⟩
  | root h0 => exact .inl h0
  | step h0 hne h1 ih =>
    rcases ih with ih | ⟨ih, _⟩
    · exact .inl ih
    · have := (hc _ _ h0 hne).2
      rw [ih] at this; cases this

theorem RootRel.end_root_of_present {r : VMap Nat} {rank : Nat → Nat} (hc : Acyc r rank)
    {v t : Nat} (h : RootRel r v t) (hv : (r.get v).isSome) : r.get t = some t := by
  rcases h.end_root hc with h1 | ⟨h1, _⟩
  · exact h1
  · rw [h1] at hv; cases hv

theorem RootRel.end_self {r : VMap Nat} {rank : Nat → Nat} (hc : Acyc r rank) {v t : Nat}
    (h : RootRel r v t) : RootRel r t t := by
  rcases h.end_root hc with h1 | ⟨h1, h2⟩
  · exact .root h1
  · subst h2; exact .absent h1

theorem RootRel.rank_lt {r : VMap Nat} {rank : Nat → Nat} (hc : Acyc r rank) {v t : Nat}
    (h : RootRel r v t) (hne : t ≠ v) : rank v < rank t := by
  induction h with
  | absent _ => exact absurd rfl hne
  | root _ => exact absurd rfl hne
  | @step v p t h0 hpv _ ih =>
    have h1 := (hc _ _ h0 hpv).1
    by_cases hp : t = p
    · subst hp; exact h1
    · exact Nat.lt_trans h1 (ih hp)

theorem get_some_lt {V : Type} {m : VMap V} {k : Nat} (h : (m.get k).isSome) :
    k < m.data.length := by
  unfold VMap.get at h
  by_cases hk : k < m.data.length
  · exact hk
  · have : m.data[k]? = none := List.getElem?_eq_none (by omega)
    rw [this] at h; cases h

/-! #### the fuel measure: present cells of rank at least `rank v` -/

def mu (r : VMap Nat) (rank : Nat → Nat) (v : Nat) : Nat :=
  (List.range r.data.length).countP (fun j => (r.get j).isSome && decide (rank v ≤ rank j))

theorem countP_lt_of {α : Type} (P Q : α → Bool) (l : List α)
    (hmono : ∀ x ∈ l, P x = true → Q x = true) (x : α) (hx : x ∈ l) (hq : Q x = true)
    (hp : ¬ P x = true) : l.countP P < l.countP Q := by
  induction l with
  | nil => cases hx
  | cons a l ih =>
    rw [List.countP_cons, List.countP_cons]
    have hm' : ∀ y ∈ l, P y = true → Q y = true := fun y hy => hmono y (List.mem_cons_of_mem _ hy)
    rcases List.mem_cons.mp hx with rfl | hx'
    · have := List.countP_mono_left hm'
      rw [if_pos hq, if_neg hp]; omega
    · have := ih hm' hx'
      have h2 := hmono a (List.mem_cons_self ..)
      by_cases hpa : P a = true
      · rw [if_pos hpa, if_pos (h2 hpa)]; omega
      · rw [if_neg hpa]; split <;> omega

theorem mu_le (r : VMap Nat) (rank : Nat → Nat) (v : Nat) : mu r rank v ≤ r.data.length := by
  unfold mu
  have := @List.countP_le_length _ (fun j => (r.get j).isSome && decide (rank v ≤ rank j))
    (List.range r.data.length)
  simpa using this

theorem mu_lt {r : VMap Nat} {rank : Nat → Nat} (hc : Acyc r rank) {i p : Nat}
    (h : r.get i = some p) (hne : p ≠ i) : mu r rank p < mu r rank i := by
  have hr := (hc _ _ h hne).1
  unfold mu
  apply countP_lt_of _ _ _ _ i
  · exact List.mem_range.mpr (get_some_lt (by rw [h]; rfl))
  · simp [h]
  · simp; intro _; omega
  · intro x _ hx
    simp at hx ⊢
    exact ⟨hx.1, by omega⟩

/-! #### the pure root function -/

def rootFuel : Nat → VMap Nat → Nat → Nat
  | 0, _, v => v
  | f + 1, r, v =>
    match r.get v with
    | some p => if p = v then v else rootFuel f r p
    | none => v

theorem rootFuel_rel {r : VMap Nat} {rank : Nat → Nat} (hc : Acyc r rank) :
    ∀ f v, mu r rank v < f → RootRel r v (rootFuel f r v) := by
  intro f
  induction f with
  | zero => intro v h; omega
  | succ f ih =>
    intro v h
    unfold rootFuel
    cases hv : r.get v with
    | none => exact .absent hv
    | some p =>
      simp only []
      by_cases hp : p = v
      · rw [if_pos hp]; subst hp; exact .root hv
      · rw [if_neg hp]
        have := mu_lt hc hv hp
        exact .step hv hp (ih p (by omega))

/-- The root of `v` in parent map `r` (fuel `length + 1` always suffices). -/
def rootOfMap (r : VMap Nat) (v : Nat) : Nat := rootFuel (r.data.length + 1) r v

theorem rootOfMap_rel {r : VMap Nat} {rank : Nat → Nat} (hc : Acyc r rank) (v : Nat) :
    RootRel r v (rootOfMap r v) :=
  rootFuel_rel hc _ _ (by have := mu_le r rank v; omega)

theorem rootOfMap_eq {r : VMap Nat} {rank : Nat → Nat} (hc : Acyc r rank) {v t : Nat}
    (h : RootRel r v t) : rootOfMap r v = t :=
  (rootOfMap_rel hc v).det h

/-! #### compression: cells may be redirected to their own root -/

/-- `r'` arises from `r` by redirecting some cells to their own root
(an absent cell may thereby become a self-rooted singleton). -/
def Compress (r r' : VMap Nat) : Prop :=
  ∀ w, r'.get w = r.get w ∨ ∃ t, RootRel r w t ∧ r'.get w = some t

theorem Compress.refl (r : VMap Nat) : Compress r r := fun _ => .inl rfl

theorem Compress.present {r r' : VMap Nat} (h : Compress r r') {w : Nat}
    (hw : (r.get w).isSome) : (r'.get w).isSome := by
  rcases h w with h1 | ⟨t, _, h1⟩
  · rw [h1]; exact hw
  · rw [h1]; rfl

theorem Compress.root_fixed {r r' : VMap Nat} (h : Compress r r') {t : Nat}
    (ht : r.get t = some t) : r'.get t = some t := by
  rcases h t with h1 | ⟨t', h2, h1⟩
  · rw [h1]; exact ht
  · have := h2.det (.root ht); subst this; exact h1

theorem Compress.acyc {r r' : VMap Nat} {rank : Nat → Nat} (h : Compress r r')
    (hc : Acyc r rank) : Acyc r' rank := by
  intro i p hi hne
  rcases h i with h1 | ⟨t, h2, h1⟩
  · rw [h1] at hi
    have := hc i p hi hne
    exact ⟨this.1, h.present this.2⟩
  · rw [h1] at hi; injection hi with hi; subst hi
    refine ⟨h2.rank_lt hc hne, ?_⟩
    rcases h2.end_root hc with h3 | ⟨_, h3⟩
    · rw [h.root_fixed h3]; rfl
    · exact absurd h3 hne

theorem Compress.rootRel {r r' : VMap Nat} {rank : Nat → Nat} (h : Compress r r')
    (hc : Acyc r rank) {w t : Nat} (hr : RootRel r w t) : RootRel r' w t := by
  induction hr with
  | @absent v h0 =>
    rcases h v with h1 | ⟨t', h2, h1⟩
    · exact .absent (by rw [h1]; exact h0)
    · have := h2.det (.absent h0); subst this; exact .root h1
  | @root v h0 => exact .root (h.root_fixed h0)
  | @step v p t h0 hne hp ih =>
    rcases h v with h1 | ⟨t', h2, h1⟩
    · exact .step (by rw [h1]; exact h0) hne ih
    · have := h2.det (.step h0 hne hp); subst this
      by_cases htv : t' = v
      · subst htv; exact .root h1
      · have h3 : r.get t' = some t' :=
          hp.end_root_of_present hc (hc _ _ h0 hne).2
        exact .step h1 htv (.root (h.root_fixed h3))

theorem Compress.rootOfMap {r r' : VMap Nat} {rank : Nat → Nat} (h : Compress r r')
    (hc : Acyc r rank) (w : Nat) : rootOfMap r' w = rootOfMap r w :=
  rootOfMap_eq (h.acyc hc) (h.rootRel hc (rootOfMap_rel hc w))

theorem Compress.insert_root {r r1 : VMap Nat} (h : Compress r r1) {v t : Nat}
    (hv : RootRel r v t) : Compress r (r1.insert v t) := by
  intro w
  rw [get_insert]
  by_cases hw : w = v
  · subst hw; rw [if_pos rfl]; exact .inr ⟨t, hv, rfl⟩
  · rw [if_neg hw]; exact h w

/-! #### `findFuel` -/

theorem findFuel_present {r : VMap Nat} {rank : Nat → Nat} (hc : Acyc r rank) (hwf : WF r) :
    ∀ f v, (r.get v).isSome → mu r rank v < f →
      ∃ r' t, DS.findFuel f r v = .ok (r', t) ∧ RootRel r v t ∧ Compress r r' ∧ WF r' ∧
        ∀ w, (r'.get w).isSome = (r.get w).isSome := by
  intro f
  induction f with
  | zero => intro v _ h; omega
  | succ f ih =>
    intro v hv h
    unfold DS.findFuel
    cases hg : r.get v with
    | none => rw [hg] at hv; cases hv
    | some p =>
      simp only []
      by_cases hp : p = v
      · rw [if_pos hp]; subst hp
        exact ⟨r, p, rfl, .root hg, .refl r, hwf, fun _ => rfl⟩
      · rw [if_neg hp]
        have hm := mu_lt hc hg hp
        obtain ⟨r1, t, h1, h2, h3, h4, h5⟩ := ih p (hc _ _ hg hp).2 (by omega)
        rw [h1]
        refine ⟨_, t, rfl, .step hg hp h2, h3.insert_root (.step hg hp h2),
          wf_insert _ _ _ h4, ?_⟩
        intro w
        rw [get_insert]
        by_cases hw : w = v
        · subst hw; rw [if_pos rfl, hg]; rfl
        · rw [if_neg hw]; exact h5 w

theorem findFuel_absent {r : VMap Nat} (f v : Nat) (hv : r.get v = none) :
    DS.findFuel (f + 2) r v = .ok (r.insert v v, v) := by
  rw [DS.findFuel]
  simp only [hv]
  rw [DS.findFuel]
  simp [get_insert]

theorem compress_insert_absent {r : VMap Nat} {v : Nat} (hv : r.get v = none) :
    Compress r (r.insert v v) :=
  (Compress.refl r).insert_root (.absent hv)

/-! #### linking one root under another -/

theorem link_acyc {r : VMap Nat} {rank : Nat → Nat} {ra rb : Nat} (hc : Acyc r rank)
    (ha : r.get ra = some ra) (hne : ra ≠ rb) :
    Acyc (r.insert rb ra) (fun x => if x = ra then max (rank ra) (rank rb + 1) else rank x) := by
  intro i p hi hpi
  rw [get_insert] at hi
  have hpres : ∀ q, (r.get q).isSome → ((r.insert rb ra).get q).isSome := by
    intro q hq; rw [get_insert]; split
    · rfl
    · exact hq
  by_cases hib : i = rb
  · subst hib
    rw [if_pos rfl] at hi; injection hi with hi; subst hi
    refine ⟨?_, hpres _ (by rw [ha]; rfl)⟩
    simp only [if_neg (Ne.symm hne), if_pos]
    omega
  · rw [if_neg hib] at hi
    have h1 := hc i p hi hpi
    refine ⟨?_, hpres _ h1.2⟩
    have hia : i ≠ ra := by
      intro e; subst e; rw [ha] at hi; injection hi with hi; exact hpi hi.symm
    simp only [if_neg hia]
    have h2 := h1.1
    split
    · subst p; omega
    · exact h2

theorem link_rootRel {r : VMap Nat} {ra rb : Nat} (ha : r.get ra = some ra)
    (hb : r.get rb = some rb) (hne : ra ≠ rb) {w t : Nat} (h : RootRel r w t) :
    RootRel (r.insert rb ra) w (if t = rb then ra else t) := by
  have hra : RootRel (r.insert rb ra) ra ra :=
    .root (by rw [get_insert, if_neg hne]; exact ha)
  induction h with
  | @absent v h0 =>
    have hv : v ≠ rb := by intro e; subst e; rw [hb] at h0; cases h0
    rw [if_neg hv]
    exact .absent (by rw [get_insert, if_neg hv]; exact h0)
  | @root v h0 =>
    by_cases hv : v = rb
    · subst hv; rw [if_pos rfl]
      exact .step (by rw [get_insert, if_pos rfl]) hne hra
    · rw [if_neg hv]
      exact .root (by rw [get_insert, if_neg hv]; exact h0)
  | @step v p t h0 hpv _ ih =>
    have hv : v ≠ rb := by
      intro e; subst e; rw [hb] at h0; injection h0 with h0; exact hpv h0.symm
    exact .step (by rw [get_insert, if_neg hv]; exact h0) hpv ih

/-! ### The forest -/

namespace DS
variable {D : Type}

/-- Forest invariant: both maps well-formed, parent map acyclic with present parents. -/
def Inv (s : DS D) : Prop :=
  WF s.reps ∧ WF s.data ∧
    ∃ rank : Nat → Nat, Acyc s.reps rank

/-- The acyclicity clause of `Inv`, spelled out. -/
theorem inv_iff (s : DS D) : Inv s ↔ (WF s.reps ∧ WF s.data ∧
    ∃ rank : Nat → Nat, ∀ i p, s.reps.get i = some p → p ≠ i →
      rank i < rank p ∧ (s.reps.get p).isSome) := Iff.rfl

/-- The root `find` would return for `v` (`v` itself if absent); no mutation. -/
def rootOf (s : DS D) (v : Nat) : Nat := rootOfMap s.reps v

/-- Data stored at cell `r`, with the monoid identity for "nothing stored". -/
def dataAt (M : Monoid D) (s : DS D) (r : Nat) : D := (s.data.get r).getD M.identity

/-- Presence of an element. -/
def mem (s : DS D) (v : Nat) : Bool := (s.reps.get v).isSome

theorem get_empty {V : Type} (k : Nat) : (VMap.empty : VMap V).get k = none := by
  simp [VMap.get, VMap.empty]

theorem inv_empty : Inv (DS.empty : DS D) := by
  refine ⟨wf_empty, wf_empty, fun _ => 0, ?_⟩
  intro i p h
  have : (DS.empty : DS D).reps.get i = none := get_empty i
  rw [this] at h; cases h

theorem rootOf_rel {s : DS D} (h : Inv s) (v : Nat) : RootRel s.reps v (rootOf s v) := by
  obtain ⟨_, _, rank, hc⟩ := h
  exact rootOfMap_rel hc v

theorem rootOf_eq {s : DS D} (h : Inv s) {v t : Nat} (hr : RootRel s.reps v t) :
    rootOf s v = t :=
  (rootOf_rel h v).det hr

/-- Fixed points of the parent map are exactly the present elements that are their own root. -/
theorem isRoot_iff {s : DS D} (h : Inv s) (k : Nat) :
    s.reps.get k = some k ↔ (s.mem k = true ∧ rootOf s k = k) := by
  constructor
  · intro hk
    exact ⟨by simp [mem, hk], rootOf_eq h (.root hk)⟩
  · rintro ⟨h1, h2⟩
    obtain ⟨_, _, rank, hc⟩ := h
    have := (rootOfMap_rel hc k).end_root_of_present hc h1
    unfold rootOf at h2
    rw [h2] at this; exact this

theorem rootOf_absent {s : DS D} (h : Inv s) {v : Nat} (hv : s.reps.get v = none) :
    rootOf s v = v := rootOf_eq h (.absent hv)

theorem rootOf_idem {s : DS D} (h : Inv s) (v : Nat) : rootOf s (rootOf s v) = rootOf s v := by
  obtain ⟨h1, h2, rank, hc⟩ := h
  exact rootOfMap_eq hc ((rootOfMap_rel hc v).end_self hc)

/-- Full specification of `find` (internal form, with the compression relation). -/
theorem find_full (s : DS D) (v : Nat) (h : Inv s) :
    ∃ s' r, s.find v = .ok (s', r) ∧ Inv s' ∧ RootRel s.reps v r ∧ Compress s.reps s'.reps ∧
      s'.data = s.data ∧ (∀ w, s'.mem w = (s.mem w || decide (w = v))) := by
  obtain ⟨hr, hd, rank, hc⟩ := h
  unfold find
  cases hv : s.reps.get v with
  | none =>
    have h1 := findFuel_absent (r := s.reps) (s.reps.data.length + v + 1) v hv
    have : fuelFor s.reps v = s.reps.data.length + v + 1 + 2 := rfl
    rw [this, h1]
    have h3 := compress_insert_absent hv
    refine ⟨_, _, rfl, ⟨wf_insert _ _ _ hr, hd, rank, h3.acyc hc⟩, .absent hv, h3, rfl, ?_⟩
    intro w
    simp only [mem, get_insert]
    by_cases hw : w = v
    · simp [hw]
    · simp [hw]
  | some p =>
    have hpres : (s.reps.get v).isSome := by rw [hv]; rfl
    obtain ⟨r', t, h1, h2, h3, h4, h5⟩ :=
      findFuel_present hc hr (fuelFor s.reps v) v hpres
        (by have := mu_le s.reps rank v; unfold fuelFor; omega)
    rw [h1]
    refine ⟨_, _, rfl, ⟨h4, hd, rank, h3.acyc hc⟩, h2, h3, rfl, ?_⟩
    intro w
    simp only [mem, h5]
    by_cases hw : w = v
    · subst hw; simp [hpres]
    · simp [hw]

/-- Compression leaves every root unchanged. -/
theorem rootOf_compress {s s' : DS D} (h : Inv s) (hc : Compress s.reps s'.reps) (w : Nat) :
    rootOf s' w = rootOf s w := by
  obtain ⟨_, _, rank, hr⟩ := h
  exact hc.rootOfMap hr w

/-- `find` never faults, returns `rootOf s v`, preserves every root and the data, and the
result is a fixed point of the (compressed) parent map. -/
theorem find_spec (s : DS D) (v : Nat) (h : Inv s) :
    ∃ s' r, s.find v = .ok (s', r) ∧ Inv s' ∧ r = rootOf s v ∧
      (∀ w, rootOf s' w = rootOf s w) ∧ s'.data = s.data ∧ s'.reps.get r = some r := by
  obtain ⟨s', r, h1, h2, h3, h4, h5, h6⟩ := find_full s v h
  have hr : r = rootOf s v := (rootOf_eq h h3).symm
  refine ⟨s', r, h1, h2, hr, rootOf_compress h h4, h5, ?_⟩
  have h7 : rootOf s' r = r := by
    rw [rootOf_compress h h4, hr]; exact rootOf_idem h v
  have h8 : rootOf s' v = r := by rw [rootOf_compress h h4]; exact hr.symm
  have hv : s'.mem v = true := by rw [h6]; simp
  -- `r` is present in `s'`: it is the root of the present `v`
  obtain ⟨_, _, rank, hc⟩ := h2
  have := (rootOfMap_rel hc v).end_root_of_present hc hv
  unfold rootOf at h8
  rw [h8] at this; exact this

/-! #### `insert` -/

theorem insert_spec (s : DS D) (v : Nat) (h : Inv s) :
    Inv (s.insert v) ∧ (∀ w, rootOf (s.insert v) w = rootOf s w) ∧ (s.insert v).mem v = true ∧
      (∀ w, (s.insert v).mem w = (s.mem w || decide (w = v))) ∧ (s.insert v).data = s.data := by
  unfold insert
  cases hv : s.reps.get v with
  | some p =>
    refine ⟨h, fun _ => rfl, by simp [mem, hv], ?_, rfl⟩
    intro w
    by_cases hw : w = v
    · subst hw; simp [mem, hv]
    · simp [hw]
  | none =>
    have hcomp := compress_insert_absent hv
    have hinv : Inv ({ s with reps := s.reps.insert v v } : DS D) := by
      obtain ⟨hr, hd, rank, hc⟩ := h
      exact ⟨wf_insert _ _ _ hr, hd, rank, hcomp.acyc hc⟩
    refine ⟨hinv, fun w => rootOf_compress h hcomp w, by simp [mem, get_insert], ?_, rfl⟩
    intro w
    simp only [mem, get_insert]
    by_cases hw : w = v
    · simp [hw]
    · simp [hw]

/-! #### `getData`, `setData`, `addData` -/

theorem getData_spec (s : DS D) (v : Nat) (h : Inv s) :
    ∃ s', s.getData v = .ok (s', s.data.get (rootOf s v)) ∧ Inv s' ∧
      (∀ w, rootOf s' w = rootOf s w) ∧ s'.data = s.data ∧
      (∀ w, s'.mem w = (s.mem w || decide (w = v))) := by
  obtain ⟨s1, r, h1, h2, h3, h4, h5, h6⟩ := find_full s v h
  have hr : r = rootOf s v := (rootOf_eq h h3).symm
  refine ⟨s1, ?_, h2, rootOf_compress h h4, h5, h6⟩
  unfold getData
  rw [h1]; simp only []
  rw [h5, hr]

theorem setData_spec (s : DS D) (v : Nat) (d : D) (h : Inv s) :
    ∃ s', s.setData v d = .ok s' ∧ Inv s' ∧ (∀ w, rootOf s' w = rootOf s w) ∧
      (∀ k, s'.data.get k = if k = rootOf s v then some d else s.data.get k) ∧
      (∀ w, s'.mem w = (s.mem w || decide (w = v))) := by
  obtain ⟨s1, r, h1, h2, h3, h4, h5, h6⟩ := find_full s v h
  have hr : r = rootOf s v := (rootOf_eq h h3).symm
  refine ⟨{ s1 with data := s1.data.insert r d }, ?_, ?_, ?_, ?_, h6⟩
  · unfold setData; rw [h1]
  · obtain ⟨a, b, c⟩ := h2
    exact ⟨a, wf_insert _ _ _ b, c⟩
  · exact rootOf_compress h h4
  · intro k; simp only [get_insert, h5, hr]

theorem addData_spec (M : Monoid D) (s : DS D) (v : Nat) (d : D) (h : Inv s) :
    ∃ s', s.addData M v d = .ok s' ∧ Inv s' ∧ (∀ w, rootOf s' w = rootOf s w) ∧
      (∀ k, s'.data.get k =
        if k = rootOf s v then some (M.combine (dataAt M s (rootOf s v)) d) else s.data.get k) ∧
      (∀ w, s'.mem w = (s.mem w || decide (w = v))) := by
  obtain ⟨s1, r, h1, h2, h3, h4, h5, h6⟩ := find_full s v h
  have hr : r = rootOf s v := (rootOf_eq h h3).symm
  obtain ⟨hw1, hw2, hw3⟩ := h2
  obtain ⟨⟨d1, prev⟩, hrem⟩ := remove_no_fault s1.data r hw2
  have hwf1 := wf_remove _ _ _ _ hw2 hrem
  have hprev := (get_remove _ _ _ _ hrem r).1
  refine ⟨{ s1 with data := d1.insert r (M.combine (prev.getD M.identity) d) }, ?_, ?_, ?_, ?_, h6⟩
  · unfold addData; rw [h1]; simp only []; rw [hrem]
  · exact ⟨hw1, wf_insert _ _ _ hwf1, hw3⟩
  · exact rootOf_compress h h4
  · intro k
    simp only [get_insert]
    rw [← hr]
    by_cases hk : k = r
    · rw [if_pos hk, if_pos hk, hprev, h5]; rfl
    · rw [if_neg hk, if_neg hk, (get_remove _ _ _ _ hrem k).2, if_neg hk, h5]

/-! #### `union` -/

theorem union_spec (M : Monoid D) (s : DS D) (a b : Nat) (h : Inv s) :
    ∃ s', s.union M a b = .ok s' ∧ Inv s' ∧
      (∀ w, s'.mem w = (s.mem w || decide (w = a) || decide (w = b))) ∧
      (rootOf s a = rootOf s b →
        (∀ w, rootOf s' w = rootOf s w) ∧ s'.data = s.data) ∧
      (rootOf s a ≠ rootOf s b →
        (∀ w, rootOf s' w = if rootOf s w = rootOf s b then rootOf s a else rootOf s w) ∧
        (∀ k, s'.data.get k =
          if k = rootOf s a then
            some (M.combine (dataAt M s (rootOf s a)) (dataAt M s (rootOf s b)))
          else if k = rootOf s b then none
          else s.data.get k)) := by
  obtain ⟨s1, ra, e1, i1, rr1, c1, d1, p1⟩ := find_full s a h
  have ⟨_, _, rank0, hc0⟩ := h
  obtain ⟨s2, rb, e2, i2, rr2, c2, d2, p2⟩ := find_full s1 b i1
  have hra : ra = rootOf s a := (rootOf_eq h rr1).symm
  have hrb : rb = rootOf s b := by
    rw [← rootOf_compress h c1]; exact (rootOf_eq i1 rr2).symm
  have hroots2 : ∀ w, rootOf s2 w = rootOf s w := fun w => by
    rw [rootOf_compress i1 c2, rootOf_compress h c1]
  have hmem2 : ∀ w, s2.mem w = (s.mem w || decide (w = a) || decide (w = b)) := fun w => by
    rw [p2, p1]
  have hdata2 : s2.data = s.data := by rw [d2, d1]
  -- both results are fixed points of `s2.reps`
  have hfa1 : s1.reps.get ra = some ra := by
    have := (isRoot_iff i1 ra).mpr ⟨?_, ?_⟩
    · exact this
    · have hm : s1.mem a = true := by rw [p1]; simp
      obtain ⟨_, _, rank, hc⟩ := i1
      have hrel : RootRel s1.reps a ra := c1.rootRel hc0 rr1
      have := hrel.end_root_of_present hc hm
      simp [mem, this]
    · rw [rootOf_compress h c1, hra]; exact rootOf_idem h a
  have hfa : s2.reps.get ra = some ra := c2.root_fixed hfa1
  have hfb : s2.reps.get rb = some rb := by
    have hm : s2.mem b = true := by rw [p2]; simp
    obtain ⟨_, _, rank1, hc1⟩ := i1
    obtain ⟨_, _, rank2, hc2⟩ := i2
    exact (c2.rootRel hc1 rr2).end_root_of_present hc2 hm
  unfold union
  rw [e1]; simp only []
  rw [e2]; simp only []
  by_cases hab : ra = rb
  · rw [if_pos hab]
    refine ⟨s2, rfl, i2, hmem2, fun _ => ⟨hroots2, hdata2⟩, fun hne => ?_⟩
    exact absurd (by rw [← hra, ← hrb]; exact hab) hne
  · rw [if_neg hab]
    obtain ⟨hw1, hw2, rank, hc⟩ := i2
    obtain ⟨⟨dm, vb⟩, hrem⟩ := remove_no_fault s2.data rb hw2
    have hwf1 := wf_remove _ _ _ _ hw2 hrem
    have hvb := (get_remove _ _ _ _ hrem rb).1
    rw [hrem]; simp only []
    have hinv' : Inv (⟨s2.reps.insert rb ra,
        dm.insert ra (M.combine ((s2.data.get ra).getD M.identity) (vb.getD M.identity))⟩ :
        DS D) :=
      ⟨wf_insert _ _ _ hw1, wf_insert _ _ _ hwf1, _, link_acyc hc hfa hab⟩
    refine ⟨_, rfl, hinv', ?_, fun heq => ?_, fun _ => ⟨?_, ?_⟩⟩
    · intro w
      rw [← hmem2 w]
      simp only [mem, get_insert]
      by_cases hw : w = rb
      · subst hw; simp [hfb]
      · simp [hw]
    · exact absurd (by rw [hra, hrb]; exact heq) hab
    · intro w
      have hrel : RootRel s2.reps w (rootOf s2 w) := rootOfMap_rel hc w
      have := link_rootRel hfa hfb hab hrel
      have := rootOf_eq hinv' this
      rw [this, hroots2 w, hra, hrb]
    · intro k
      simp only [get_insert]
      rw [← hra, ← hrb]
      by_cases hk : k = ra
      · rw [if_pos hk, if_pos hk, hvb, hdata2]; rfl
      · rw [if_neg hk, if_neg hk, (get_remove _ _ _ _ hrem k).2, hdata2]

/-! #### `values` and `sets` -/

theorem pairwise_iterFrom {V : Type} (l : List (Option V)) (n : Nat) :
    (iterFrom n l).Pairwise (fun a b => a.1 < b.1) := by
  induction l generalizing n with
  | nil => simp [iterFrom]
  | cons x l ih =>
    cases x with
    | none => exact ih (n + 1)
    | some v =>
      rw [iterFrom]
      refine List.Pairwise.cons ?_ (ih (n + 1))
      intro b hb
      obtain ⟨i, w⟩ := b
      have := (mem_iterFrom l (n + 1) i w).mp hb
      show n < i
      omega

theorem nodup_of_pairwise_lt {l : List Nat} (h : l.Pairwise (· < ·)) : l.Nodup :=
  List.Pairwise.imp (fun hab => Nat.ne_of_lt hab) h

theorem pairwise_indices {V : Type} (m : VMap V) : m.indices.Pairwise (· < ·) := by
  unfold indices iter
  rw [List.pairwise_map]
  exact pairwise_iterFrom _ _

theorem mem_indices {V : Type} (m : VMap V) (k : Nat) : k ∈ m.indices ↔ (m.get k).isSome := by
  unfold indices
  constructor
  · intro h
    obtain ⟨⟨i, v⟩, h1, h2⟩ := List.mem_map.mp h
    have := (mem_iter m i v).mp h1
    simp at h2; subst h2; rw [this]; rfl
  · intro h
    cases hv : m.get k with
    | none => rw [hv] at h; cases h
    | some v => exact List.mem_map.mpr ⟨(k, v), (mem_iter m k v).mpr hv, rfl⟩

/-- `values` lists exactly the present elements, each once (in increasing order). -/
theorem values_spec (s : DS D) :
    (∀ v, v ∈ s.values ↔ s.mem v = true) ∧ s.values.Nodup ∧ s.values.Pairwise (· < ·) :=
  ⟨fun v => mem_indices s.reps v, nodup_of_pairwise_lt (pairwise_indices _), pairwise_indices _⟩

/-- The list of roots `sets` folds over. -/
def rootsList (s : DS D) : List Nat :=
  (s.reps.iter.filter (fun (k, v) => k == v)).map (·.1)

/-- One iteration of the `sets` loop. -/
def setsStep (M : Monoid D) (acc : DS D × List (Nat × D)) (k : Nat) : DS D × List (Nat × D) :=
  match acc.1.data.get k with
  | some d => (acc.1, acc.2 ++ [(k, d)])
  | none => ({ acc.1 with data := acc.1.data.insert k M.default }, acc.2 ++ [(k, M.default)])

theorem sets_eq (M : Monoid D) (s : DS D) :
    s.sets M = (rootsList s).foldl (setsStep M) (s, []) := rfl

theorem mem_rootsList (s : DS D) (k : Nat) : k ∈ rootsList s ↔ s.reps.get k = some k := by
  unfold rootsList
  constructor
  · intro h
    obtain ⟨⟨i, v⟩, h1, h2⟩ := List.mem_map.mp h
    obtain ⟨h3, h4⟩ := List.mem_filter.mp h1
    have := (mem_iter s.reps i v).mp h3
    simp at h2 h4; subst h2 h4; exact this
  · intro h
    exact List.mem_map.mpr ⟨(k, k), List.mem_filter.mpr ⟨(mem_iter _ _ _).mpr h, by simp⟩, rfl⟩

theorem pairwise_rootsList (s : DS D) : (rootsList s).Pairwise (· < ·) := by
  unfold rootsList
  rw [List.pairwise_map]
  exact (pairwise_iterFrom _ _).sublist List.filter_sublist

theorem setsStep_spec (M : Monoid D) (acc : DS D × List (Nat × D)) (k : Nat) :
    (setsStep M acc k).1.reps = acc.1.reps ∧
    (WF acc.1.data → WF (setsStep M acc k).1.data) ∧
    (setsStep M acc k).2 = acc.2 ++ [(k, (acc.1.data.get k).getD M.default)] ∧
    ∀ j, (setsStep M acc k).1.data.get j =
      if j = k then some ((acc.1.data.get k).getD M.default) else acc.1.data.get j := by
  unfold setsStep
  cases hk : acc.1.data.get k with
  | some d =>
    refine ⟨rfl, id, rfl, ?_⟩
    intro j
    by_cases hj : j = k
    · subst hj; rw [if_pos rfl]; exact hk
    · rw [if_neg hj]
  | none =>
    refine ⟨rfl, fun h => wf_insert _ _ _ h, rfl, ?_⟩
    intro j
    simp only [get_insert]; rfl

theorem sets_fold (M : Monoid D) :
    ∀ (ks : List Nat) (acc : DS D × List (Nat × D)),
      (ks.foldl (setsStep M) acc).1.reps = acc.1.reps ∧
      (WF acc.1.data → WF (ks.foldl (setsStep M) acc).1.data) ∧
      (ks.foldl (setsStep M) acc).2 =
        acc.2 ++ ks.map (fun k => (k, (acc.1.data.get k).getD M.default)) ∧
      ∀ j, (ks.foldl (setsStep M) acc).1.data.get j =
        if j ∈ ks then some ((acc.1.data.get j).getD M.default) else acc.1.data.get j := by
  intro ks
  induction ks with
  | nil => intro acc; simp
  | cons k ks ih =>
    intro acc
    obtain ⟨s1, s2, s3, s4⟩ := setsStep_spec M acc k
    obtain ⟨i1, i2, i3, i4⟩ := ih (setsStep M acc k)
    have hgetD : ∀ j, ((setsStep M acc k).1.data.get j).getD M.default =
        (acc.1.data.get j).getD M.default := by
      intro j; rw [s4]
      by_cases hj : j = k
      · subst hj; rw [if_pos rfl]; rfl
      · rw [if_neg hj]
    rw [List.foldl_cons]
    refine ⟨i1.trans s1, fun h => i2 (s2 h), ?_, ?_⟩
    · rw [i3, s3, List.map_cons, List.append_assoc]
      simp only [hgetD, List.singleton_append]
    · intro j
      rw [i4, hgetD, s4]
      by_cases hj : j = k
      · subst hj; simp
      · simp only [List.mem_cons, hj, false_or, if_false]

/-- `sets` returns exactly one pair per root, paired with its data (or `default`), stores
`default` where a root had no data, changes no root and preserves the invariant. -/
theorem sets_spec (M : Monoid D) (s : DS D) (h : Inv s) :
    ∃ s' l, s.sets M = (s', l) ∧ Inv s' ∧ s'.reps = s.reps ∧ (∀ w, rootOf s' w = rootOf s w) ∧
      l = (rootsList s).map (fun k => (k, (s.data.get k).getD M.default)) ∧
      (l.map (·.1)).Nodup ∧
      (∀ k d, (k, d) ∈ l ↔ (s.reps.get k = some k ∧ d = (s.data.get k).getD M.default)) ∧
      (∀ k, s'.data.get k =
        if s.reps.get k = some k then some ((s.data.get k).getD M.default) else s.data.get k) := by
  obtain ⟨f1, f2, f3, f4⟩ := sets_fold M (rootsList s) (s, [])
  rw [← sets_eq] at f1 f2 f3 f4
  obtain ⟨hr, hd, rank, hc⟩ := h
  refine ⟨(s.sets M).1, (s.sets M).2, rfl, ⟨?_, f2 hd, rank, ?_⟩, f1, ?_, ?_, ?_, ?_, ?_⟩
  · rw [f1]; exact hr
  · rw [f1]; exact hc
  · intro w; unfold rootOf; rw [f1]
  · simpa using f3
  · rw [f3]
    simp only [List.nil_append, List.map_map]
    have : ((fun x : Nat × D => x.1) ∘ fun k => (k, (s.data.get k).getD M.default)) = id := rfl
    rw [this, List.map_id]
    exact nodup_of_pairwise_lt (pairwise_rootsList s)
  · intro k d
    rw [f3]
    simp only [List.nil_append, List.mem_map, Prod.mk.injEq]
    constructor
    · rintro ⟨k', h1, rfl, rfl⟩
      exact ⟨(mem_rootsList s _).mp h1, rfl⟩
    · rintro ⟨h1, rfl⟩
      exact ⟨k, (mem_rootsList s k).mpr h1, rfl, rfl⟩
  · intro k
    rw [f4]
    simp only [mem_rootsList]

/-! ### Whole histories -/

/-- Run a history, collecting the observations. -/
def run (M : Monoid D) : DS D → List (Op D) → DS D × List (Obs D)
  | s, [] => (s, [])
  | s, op :: ops =>
    ((run M (step M s op).1 ops).1, (step M s op).2 :: (run M (step M s op).1 ops).2)

/-- Every single step preserves the invariant and does not fault. -/
theorem step_inv (M : Monoid D) (s : DS D) (op : Op D) (h : Inv s) :
    Inv (step M s op).1 ∧ ∀ f, (step M s op).2 ≠ .fault f := by
  cases op with
  | insert v => exact ⟨(insert_spec s v h).1, fun f hf => by cases hf⟩
  | union a b =>
    obtain ⟨s', e, hi, _⟩ := union_spec M s a b h
    simp only [step, e]
    exact ⟨hi, fun f hf => by cases hf⟩
  | addData v d =>
    obtain ⟨s', e, hi, _⟩ := addData_spec M s v d h
    simp only [step, e]
    exact ⟨hi, fun f hf => by cases hf⟩
  | setData v d =>
    obtain ⟨s', e, hi, _⟩ := setData_spec s v d h
    simp only [step, e]
    exact ⟨hi, fun f hf => by cases hf⟩
  | find v =>
    obtain ⟨s', r, e, hi, _⟩ := find_spec s v h
    simp only [step, e]
    exact ⟨hi, fun f hf => by cases hf⟩
  | getData v =>
    obtain ⟨s', e, hi, _⟩ := getData_spec s v h
    simp only [step, e]
    exact ⟨hi, fun f hf => by cases hf⟩
  | sets =>
    obtain ⟨s', l, e, hi, _⟩ := sets_spec M s h
    simp only [step, e]
    exact ⟨hi, fun f hf => by cases hf⟩
  | values => exact ⟨h, fun f hf => by cases hf⟩

theorem run_inv (M : Monoid D) (ops : List (Op D)) :
    ∀ s : DS D, Inv s → Inv (run M s ops).1 ∧ ∀ o ∈ (run M s ops).2, ∀ f, o ≠ .fault f := by
  induction ops with
  | nil => intro s h; exact ⟨h, fun o ho => by cases ho⟩
  | cons op ops ih =>
    intro s h
    obtain ⟨h1, h2⟩ := step_inv M s op h
    obtain ⟨h3, h4⟩ := ih _ h1
    refine ⟨h3, ?_⟩
    intro o ho
    rcases List.mem_cons.mp ho with rfl | ho
    · exact h2
    · exact h4 o ho

/-- No history run from the empty forest ever faults (neither the overflow-checked `size -= 1`
nor fuel exhaustion), and the final state satisfies the invariant. -/
theorem history_no_fault (M : Monoid D) (ops : List (Op D)) :
    Inv (run M DS.empty ops).1 ∧ ∀ o ∈ (run M DS.empty ops).2, ∀ f, o ≠ .fault f :=
  run_inv M ops _ inv_empty

/-! ### The naive partition and refinement -/

end DS

/-- Naive partition: which elements are registered, a class-representative function, and the
data attached to each representative.  No forest, no compression, no sizes. -/
structure Naive (D : Type) where
  mem : Nat → Bool
  rep : Nat → Nat
  dat : Nat → Option D

namespace Naive
variable {D : Type}

def empty : Naive D := ⟨fun _ => false, fun v => v, fun _ => none⟩

/-- Register `v` (every operation that names an element registers it). -/
def touch (n : Naive D) (v : Nat) : Naive D :=
  { n with mem := fun w => n.mem w || decide (w = v) }

/-- Data of representative `k`, with the monoid identity for "none yet". -/
def cdata (M : Monoid D) (n : Naive D) (k : Nat) : D := (n.dat k).getD M.identity

def sameClass (n : Naive D) (a b : Nat) : Prop := n.rep a = n.rep b

/-- One operation on the naive partition: the new partition and the set of observations the
specification allows (a single one for `find`/`getData`; `sets`/`values` up to order). -/
def step (M : Monoid D) (n : Naive D) : Op D → Naive D × (Obs D → Prop)
  | .insert v => (n.touch v, fun o => o = .unit)
  | .find v => (n.touch v, fun o => o = .root (n.rep v))
  | .getData v => (n.touch v, fun o => o = .data (n.dat (n.rep v)))
  | .setData v d =>
    ({ n.touch v with dat := fun k => if k = n.rep v then some d else n.dat k },
      fun o => o = .unit)
  | .addData v d =>
    ({ n.touch v with
        dat := fun k => if k = n.rep v then some (M.combine (n.cdata M (n.rep v)) d)
                        else n.dat k },
      fun o => o = .unit)
  | .union a b =>
    (if n.rep a = n.rep b then (n.touch a).touch b
     else
      ⟨((n.touch a).touch b).mem,
       fun w => if n.rep w = n.rep b then n.rep a else n.rep w,
       fun k => if k = n.rep a then
                  some (M.combine (n.cdata M (n.rep a)) (n.cdata M (n.rep b)))
                else if k = n.rep b then none
                else n.dat k⟩,
      fun o => o = .unit)
  | .sets =>
    ({ n with
        dat := fun k => if n.mem k = true ∧ n.rep k = k then some ((n.dat k).getD M.default)
                        else n.dat k },
      fun o => ∃ l, o = .sets l ∧ (l.map (·.1)).Nodup ∧
        ∀ k d, (k, d) ∈ l ↔ (n.mem k = true ∧ n.rep k = k ∧ d = (n.dat k).getD M.default))
  | .values => (n, fun o => ∃ l, o = .values l ∧ l.Nodup ∧ ∀ v, v ∈ l ↔ n.mem v = true)

/-- Run a history on the naive partition, collecting the allowed-observation predicates. -/
def run (M : Monoid D) : Naive D → List (Op D) → Naive D × List (Obs D → Prop)
  | n, [] => (n, [])
  | n, op :: ops =>
    ((run M (step M n op).1 ops).1, (step M n op).2 :: (run M (step M n op).1 ops).2)

end Naive

namespace DS
variable {D : Type}

/-- Position-wise: each observation satisfies the corresponding allowed-observation predicate
(and the two lists have the same length). -/
def ObsMatch : List (Obs D) → List (Obs D → Prop) → Prop
  | [], [] => True
  | o :: os, P :: Ps => P o ∧ ObsMatch os Ps
  | _, _ => False

/-- Abstraction relation: the forest `s` represents the naive partition `n`. -/
def Abs (s : DS D) (n : Naive D) : Prop :=
  Inv s ∧ (∀ v, s.mem v = n.mem v) ∧ (∀ v, rootOf s v = n.rep v) ∧ (∀ k, s.data.get k = n.dat k)

theorem abs_empty : Abs (DS.empty : DS D) Naive.empty :=
  ⟨inv_empty, fun v => by simp [mem, DS.empty, Naive.empty]; exact get_empty v,
    fun v => rootOf_absent inv_empty (get_empty v), fun k => get_empty k⟩

/-- Simulation: one forest step is matched by one naive step, and the forest's observation is
one the naive partition allows. -/
theorem step_refines (M : Monoid D) (s : DS D) (n : Naive D) (op : Op D) (h : Abs s n) :
    Abs (step M s op).1 (Naive.step M n op).1 ∧ (Naive.step M n op).2 (step M s op).2 := by
  obtain ⟨hi, hm, hr, hd⟩ := h
  cases op with
  | insert v =>
    obtain ⟨h1, h2, _, h4, h5⟩ := insert_spec s v hi
    refine ⟨⟨h1, ?_, ?_, ?_⟩, rfl⟩
    · intro w; show (s.insert v).mem w = _; rw [h4, hm]; rfl
    · intro w; show rootOf (s.insert v) w = _; rw [h2, hr]; rfl
    · intro k; show (s.insert v).data.get k = _; rw [h5, hd]; rfl
  | find v =>
    obtain ⟨s', r, e, h1, h2, h3, h4, h5⟩ := find_full s v hi
    have hr' : r = rootOf s v := (rootOf_eq hi h2).symm
    simp only [step, e, Naive.step]
    refine ⟨⟨h1, ?_, ?_, ?_⟩, ?_⟩
    · intro w; rw [h5, hm]; rfl
    · intro w; rw [rootOf_compress hi h3, hr]; rfl
    · intro k; rw [h4, hd]; rfl
    · rw [hr', hr]
  | getData v =>
    obtain ⟨s', e, h1, h2, h3, h4⟩ := getData_spec s v hi
    simp only [step, e, Naive.step]
    refine ⟨⟨h1, ?_, ?_, ?_⟩, ?_⟩
    · intro w; rw [h4, hm]; rfl
    · intro w; rw [h2, hr]; rfl
    · intro k; rw [h3, hd]; rfl
    · rw [hd, hr]
  | setData v d =>
    obtain ⟨s', e, h1, h2, h3, h4⟩ := setData_spec s v d hi
    simp only [step, e, Naive.step]
    refine ⟨⟨h1, ?_, ?_, ?_⟩, trivial⟩
    · intro w; rw [h4, hm]; rfl
    · intro w; rw [h2, hr]; rfl
    · intro k; rw [h3, hd, hr]
  | addData v d =>
    obtain ⟨s', e, h1, h2, h3, h4⟩ := addData_spec M s v d hi
    simp only [step, e, Naive.step]
    refine ⟨⟨h1, ?_, ?_, ?_⟩, trivial⟩
    · intro w; rw [h4, hm]; rfl
    · intro w; rw [h2, hr]; rfl
    · intro k; rw [h3, hd, hr]; simp only [dataAt, Naive.cdata, hd]
  | union a b =>
    obtain ⟨s', e, h1, h2, h3, h4⟩ := union_spec M s a b hi
    simp only [step, e, Naive.step]
    refine ⟨?_, trivial⟩
    by_cases hab : n.rep a = n.rep b
    · rw [if_pos hab]
      obtain ⟨h5, h6⟩ := h3 (by rw [hr, hr]; exact hab)
      refine ⟨h1, ?_, ?_, ?_⟩
      · intro w; rw [h2, hm]; rfl
      · intro w; rw [h5, hr]; rfl
      · intro k; rw [h6, hd]; rfl
    · rw [if_neg hab]
      obtain ⟨h5, h6⟩ := h4 (by rw [hr, hr]; exact hab)
      refine ⟨h1, ?_, ?_, ?_⟩
      · intro w; rw [h2, hm]; rfl
      · intro w; rw [h5]; simp only [hr]
      · intro k; rw [h6]; simp only [hr, hd, dataAt, Naive.cdata]
  | sets =>
    obtain ⟨s', l, e, h1, h2, h3, _, h5, h6, h7⟩ := sets_spec M s hi
    simp only [step, e, Naive.step]
    have hroot : ∀ k, s.reps.get k = some k ↔ (n.mem k = true ∧ n.rep k = k) := by
      intro k; rw [isRoot_iff hi, hm, hr]
    refine ⟨⟨h1, ?_, ?_, ?_⟩, l, rfl, h5, ?_⟩
    · intro w; simp only [mem, h2]; exact hm w
    · intro w; rw [h3, hr]
    · intro k; rw [h7]; simp only [hroot, hd]
    · intro k d; rw [h6, hroot, hd, and_assoc]
  | values =>
    obtain ⟨v1, v2, _⟩ := values_spec s
    refine ⟨⟨hi, hm, hr, hd⟩, s.values, rfl, v2, ?_⟩
    intro v; rw [v1, hm]

theorem run_refines (M : Monoid D) (ops : List (Op D)) :
    ∀ (s : DS D) (n : Naive D), Abs s n →
      Abs (run M s ops).1 (Naive.run M n ops).1 ∧
      ObsMatch (run M s ops).2 (Naive.run M n ops).2 := by
  induction ops with
  | nil => intro s n h; exact ⟨h, trivial⟩
  | cons op ops ih =>
    intro s n h
    obtain ⟨h1, h2⟩ := step_refines M s n op h
    obtain ⟨h3, h4⟩ := ih _ _ h1
    exact ⟨h3, h2, h4⟩

/-- Whole-history refinement: running any history on the forest from `empty` yields, position
by position, observations allowed by the naive partition run on the same history (for `find`
and `getData` the naive observation is unique, so they are *equal*), and the final forest
represents the final naive partition. -/
theorem history_refines (M : Monoid D) (ops : List (Op D)) :
    Abs (run M DS.empty ops).1 (Naive.run M Naive.empty ops).1 ∧
    ObsMatch (run M DS.empty ops).2 (Naive.run M Naive.empty ops).2 :=
  run_refines M ops _ _ abs_empty

/-- Roots agree with the naive partition up to "same class". -/
theorem history_sameClass (M : Monoid D) (ops : List (Op D)) (a b : Nat) :
    rootOf (run M DS.empty ops).1 a = rootOf (run M DS.empty ops).1 b ↔
      (Naive.run M Naive.empty ops).1.sameClass a b := by
  obtain ⟨⟨_, _, h, _⟩, _⟩ := history_refines M ops
  unfold Naive.sameClass
  rw [h, h]

end DS

end SLE.Containers
