import SLE.Model.Word
/-! M1 — every `Known` word operation equals its Yellow-Paper `Spec` counterpart, for all
256-bit operands. -/
namespace SLE.WordLemmas
open SLE SLE.Word

theorem add_eq (a b : Word) : Known.add a b = Spec.add a b := by
  apply BitVec.eq_of_toNat_eq
  simp [Known.add, Spec.add, BitVec.toNat_add]

theorem mul_eq (a b : Word) : Known.mul a b = Spec.mul a b := by
  apply BitVec.eq_of_toNat_eq
  simp [Known.mul, Spec.mul, BitVec.toNat_mul]

theorem sub_eq (a b : Word) : Known.sub a b = Spec.sub a b := by
  apply BitVec.eq_of_toInt_eq
  simp only [Known.sub, Spec.sub, BitVec.toInt_sub, BitVec.toInt_ofInt]
  have ha := BitVec.toInt_eq_toNat_bmod a
  have hb := BitVec.toInt_eq_toNat_bmod b
  rw [ha, hb]
  simp [Int.bmod_sub_bmod, Int.sub_bmod_bmod]

theorem zero_iff (b : Word) : b = 0#256 ↔ b.toNat = 0 := by
  constructor
  · intro h; simp [h]
  · intro h; apply BitVec.eq_of_toNat_eq; simp [h]

theorem div_eq (a b : Word) : Known.div a b = Spec.div a b := by
  unfold Known.div Spec.div
  by_cases h : b = 0#256
  · simp [h]
  · have h' : ¬ b.toNat = 0 := fun e => h ((zero_iff b).2 e)
    rw [if_neg h, if_neg h']

theorem rem_eq (a b : Word) : Known.rem a b = Spec.mod a b := by
  unfold Known.rem Spec.mod
  by_cases h : b = 0#256
  · simp [h]
  · have h' : ¬ b.toNat = 0 := fun e => h ((zero_iff b).2 e)
    rw [if_neg h, if_neg h']

theorem lt_eq (a b : Word) : Known.lt a b = Spec.lt a b := rfl
theorem gt_eq (a b : Word) : Known.gt a b = Spec.gt a b := rfl
theorem signedLt_eq (a b : Word) : Known.signedLt a b = Spec.slt a b := rfl
theorem signedGt_eq (a b : Word) : Known.signedGt a b = Spec.sgt a b := rfl
theorem eq_eq (a b : Word) : Known.eq a b = Spec.eq a b := rfl

theorem isZero_eq (a : Word) : Known.isZero a = Spec.isZero a := by
  unfold Known.isZero Spec.isZero
  by_cases h : a = 0#256
  · simp [h]
  · have h' : ¬ a.toNat = 0 := fun e => h ((zero_iff a).2 e)
    simp [h, h']

theorem and_eq (a b : Word) : Known.and a b = Spec.and a b := rfl
theorem or_eq (a b : Word) : Known.or a b = Spec.or a b := rfl
theorem xor_eq (a b : Word) : Known.xor a b = Spec.xor a b := rfl

theorem not_eq (a : Word) : Known.not a = Spec.not a := by
  apply BitVec.eq_of_toNat_eq
  have := a.isLt
  simp only [Known.not, Spec.not, BitVec.toNat_not, BitVec.toNat_ofNat]
  omega

theorem shl_eq (s v : Word) : Known.shl s v = Spec.shl s v := by
  unfold Known.shl Spec.shl
  by_cases h : s.toNat < 256
  · have h' : ¬ 256 ≤ s.toNat := by omega
    rw [if_pos h, if_neg h']
    apply BitVec.eq_of_toNat_eq
    simp [BitVec.toNat_shiftLeft, Nat.shiftLeft_eq]
  · have h' : 256 ≤ s.toNat := by omega
    rw [if_neg h, if_pos h']

theorem shr_eq (s v : Word) : Known.shr s v = Spec.shr s v := by
  unfold Known.shr Spec.shr
  by_cases h : s.toNat < 256
  · have h' : ¬ 256 ≤ s.toNat := by omega
    rw [if_pos h, if_neg h']
    apply BitVec.eq_of_toNat_eq
    have hv := v.isLt
    have : v.toNat / 2 ^ s.toNat < 2 ^ 256 :=
      Nat.lt_of_le_of_lt (Nat.div_le_self _ _) hv
    simp [BitVec.toNat_ushiftRight, Nat.shiftRight_eq_div_pow, Nat.mod_eq_of_lt this]
  · have h' : 256 ≤ s.toNat := by omega
    rw [if_neg h, if_pos h']

/-! ### Signed division / remainder -/

theorem tdiv_formula (x y : Int) :
    Int.tdiv x y = x.sign * y.sign * ((x.natAbs / y.natAbs : Nat) : Int) := by
  have key : ∀ m n : Nat, Int.tdiv (m : Int) (n : Int)
      = (m : Int).sign * (n : Int).sign * (((m : Int).natAbs / (n : Int).natAbs : Nat) : Int) := by
    intro m n
    rw [← Int.ofNat_tdiv]
    simp only [Int.natAbs_natCast]
    rcases Nat.eq_zero_or_pos m with rfl | hm
    · simp
    rcases Nat.eq_zero_or_pos n with rfl | hn
    · simp
    have h1 : (m : Int).sign = 1 := Int.sign_eq_one_of_pos (by omega)
    have h2 : (n : Int).sign = 1 := Int.sign_eq_one_of_pos (by omega)
    rw [h1, h2]; simp
  obtain ⟨m, rfl | rfl⟩ := Int.eq_nat_or_neg x <;> obtain ⟨n, rfl | rfl⟩ := Int.eq_nat_or_neg y <;>
    simp only [Int.neg_tdiv, Int.tdiv_neg, Int.sign_neg, Int.natAbs_neg, key, Int.neg_mul,
      Int.mul_neg, Int.neg_neg]

theorem tmod_formula (x y : Int) :
    Int.tmod x y = x.sign * ((x.natAbs % y.natAbs : Nat) : Int) := by
  have key : ∀ m n : Nat, Int.tmod (m : Int) (n : Int)
      = (m : Int).sign * (((m : Int).natAbs % (n : Int).natAbs : Nat) : Int) := by
    intro m n
    rw [← Int.ofNat_tmod]
    simp only [Int.natAbs_natCast]
    rcases Nat.eq_zero_or_pos m with rfl | hm
    · simp
    have h1 : (m : Int).sign = 1 := Int.sign_eq_one_of_pos (by omega)
    rw [h1]; simp
  obtain ⟨m, rfl | rfl⟩ := Int.eq_nat_or_neg x <;> obtain ⟨n, rfl | rfl⟩ := Int.eq_nat_or_neg y <;>
    simp only [Int.neg_tmod, Int.tmod_neg, Int.sign_neg, Int.natAbs_neg, key, Int.neg_mul]

theorem signedDiv_eq (a b : Word) : Known.signedDiv a b = Spec.sdiv a b := by
  unfold Known.signedDiv Spec.sdiv
  by_cases hb : b.toInt = 0
  · rw [if_pos hb, if_pos hb]
  · rw [if_neg hb, if_neg hb]
    by_cases hm : a.toInt = -(2 ^ 255 : Int) ∧ b.toInt = -1
    · rw [if_pos hm, hm.1, hm.2]
      apply BitVec.eq_of_toInt_eq
      rw [Int.neg_tdiv_neg, Int.tdiv_one]
      simp
    · rw [if_neg hm, tdiv_formula]

theorem signedRem_eq (a b : Word) : Known.signedRem a b = Spec.smod a b := by
  unfold Known.signedRem Spec.smod
  by_cases hb : b.toInt = 0
  · rw [if_pos hb, if_pos hb]
  · rw [if_neg hb, if_neg hb, tmod_formula]

/-! ### Exponentiation: the square-and-multiply loop -/

theorem sq_step (r b k M : Nat) :
    (r % M * ((b * b) % M) ^ k) % M = (r * b ^ (2 * k)) % M := by
  calc (r % M * ((b * b) % M) ^ k) % M
      = (r % M % M * (((b * b) % M) ^ k % M)) % M := by rw [← Nat.mul_mod]
    _ = (r % M * ((b * b) ^ k % M)) % M := by rw [Nat.mod_mod, ← Nat.pow_mod]
    _ = (r * (b * b) ^ k) % M := by rw [← Nat.mul_mod]
    _ = (r * b ^ (2 * k)) % M := by rw [← Nat.pow_two, ← Nat.pow_mul]

theorem sq_step' (r b k M : Nat) (hr : r < M) :
    (r * ((b * b) % M) ^ k) % M = (r * b ^ (2 * k)) % M := by
  have := sq_step r b k M
  rwa [Nat.mod_eq_of_lt hr] at this

theorem expLoop_inv : ∀ (fuel : Nat) (r base e : Word), e.toNat < 2 ^ fuel →
    (Known.expLoop fuel r base e).toNat = (r.toNat * base.toNat ^ e.toNat) % 2 ^ 256 := by
  intro fuel
  induction fuel with
  | zero =>
    intro r base e he
    have h0 : e.toNat = 0 := by simpa using he
    simp only [Known.expLoop, h0, Nat.pow_zero, Nat.mul_one]
    exact (Nat.mod_eq_of_lt r.isLt).symm
  | succ fuel ih =>
    intro r base e he
    unfold Known.expLoop
    by_cases hz : e = 0#256
    · rw [if_pos hz, hz]
      simp only [BitVec.toNat_ofNat, Nat.zero_mod, Nat.pow_zero, Nat.mul_one]
      exact (Nat.mod_eq_of_lt r.isLt).symm
    · rw [if_neg hz]
      have helt := e.isLt
      have hk : (BitVec.ofNat 256 (e.toNat / 2)).toNat = e.toNat / 2 := by
        rw [BitVec.toNat_ofNat]; apply Nat.mod_eq_of_lt; omega
      have hk2 : (BitVec.ofNat 256 (e.toNat / 2)).toNat < 2 ^ fuel := by
        rw [hk]; rw [Nat.pow_succ] at he; omega
      rw [ih _ _ _ hk2, hk, BitVec.toNat_mul]
      by_cases hodd : e.toNat % 2 = 1
      · rw [if_pos hodd, BitVec.toNat_mul, sq_step]
        have hd : e.toNat = 2 * (e.toNat / 2) + 1 := by omega
        conv => rhs; rw [hd, Nat.pow_succ]
        rw [Nat.mul_assoc, Nat.mul_comm base.toNat]
      · rw [if_neg hodd, sq_step' _ _ _ _ r.isLt]
        have hd : e.toNat = 2 * (e.toNat / 2) := by omega
        conv => rhs; rw [hd]

theorem exp_eq (a b : Word) : Known.exp a b = Spec.exp a b := by
  apply BitVec.eq_of_toNat_eq
  unfold Known.exp Spec.exp
  rw [expLoop_inv 256 _ _ _ b.isLt]
  simp

/-! ### Arithmetic shift right -/

theorem sar_eq (s v : Word) : Known.sar s v = Spec.sar s v := by
  unfold Known.sar Spec.sar
  have hlo := BitVec.le_toInt v
  have hhi := BitVec.toInt_lt (x := v)
  by_cases h : s.toNat < 256
  · have h' : ¬ 256 ≤ s.toNat := by omega
    rw [if_pos h, if_neg h']
    apply BitVec.eq_of_toInt_eq
    rw [BitVec.toInt_sshiftRight, Int.shiftRight_eq_div_pow, BitVec.toInt_ofInt]
    have hp : (0 : Int) < 2 ^ s.toNat := Int.pow_pos (by omega)
    have hp1 : (1 : Int) ≤ 2 ^ s.toNat := hp
    have h1 : -(2 ^ 255 : Int) ≤ v.toInt / 2 ^ s.toNat := by
      apply Int.le_ediv_of_mul_le hp
      have : -(2 ^ 255 : Int) * 2 ^ s.toNat ≤ -(2 ^ 255 : Int) * 1 :=
        Int.mul_le_mul_of_nonpos_left (by omega) hp1
      omega
    have h2 : v.toInt / 2 ^ s.toNat < (2 ^ 255 : Int) := by
      apply Int.ediv_lt_of_lt_mul hp
      have : (2 ^ 255 : Int) * 1 ≤ (2 ^ 255 : Int) * 2 ^ s.toNat :=
        Int.mul_le_mul_of_nonneg_left hp1 (by omega)
      omega
    symm
    apply Int.bmod_eq_of_le <;> omega
  · have h' : 256 ≤ s.toNat := by omega
    rw [if_neg h, if_pos h']
    have hneg : isNeg v = true ↔ v.toInt < 0 := by
      unfold isNeg
      rw [decide_eq_true_iff, BitVec.toInt_neg_iff]
      omega
    by_cases hv : v.toInt < 0
    · rw [if_pos hv, if_pos (hneg.2 hv)]
      apply BitVec.eq_of_toInt_eq
      simp
    · have : ¬ isNeg v = true := fun e => hv (hneg.1 e)
      rw [if_neg hv, if_neg this]

end SLE.WordLemmas
