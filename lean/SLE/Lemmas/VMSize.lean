import SLE.Lemmas.ProgramLevel
import SLE.Props.C18
/-!
C18 at the machine level: every value the symbolic machine files anywhere in a thread's state
(stack, memory, storage, recorded / logged values) records its true size and has at most
`max valueLimit 1` nodes; the only exception is the `UnwrittenStorageValue [key]` placeholder
generation that `Storage::load` leaves in the storage map (key size + 1).
-/
namespace SLE.VMSize
open SLE SLE.SV SLE.VM
open SLE.Disasm (Instr)
open SLE.ProgramLevel (updateSV_inv updateNat_inv lookupSV_mem lookupNat_mem foldl_inv)

/-! ### definitions -/

/-- a value that records its true size everywhere and has at most `lim` nodes -/
def Good (lim : Nat) (v : SV) : Prop := WF v ∧ nodeCount v ≤ lim

/-- the `UnwrittenStorageValue` placeholder generation of `Storage::load` -/
def isPlaceholder (g : SV) : Bool := g.kind == .unwrittenStorageValue

/-- what a storage generation satisfies: `Good`, unless it is a placeholder (then key size + 1) -/
def GoodGen (lim : Nat) (g : SV) : Prop :=
  (isPlaceholder g = false → Good lim g) ∧ (isPlaceholder g = true → WF g ∧ nodeCount g ≤ lim + 1)

/-- the invariant of a thread's data -/
structure GoodD (lim : Nat) (d : TData) : Prop where
  stack : ∀ v ∈ d.stack, Good lim v
  memC : ∀ q ∈ d.memC, ∀ c ∈ q.2, Good lim c.data
  memS : ∀ q ∈ d.memS, Good lim q.1 ∧ ∀ c ∈ q.2, Good lim c.data
  stK : ∀ q ∈ d.stK, Good lim q.1 ∧ ∀ g ∈ q.2, GoodGen lim g
  stS : ∀ q ∈ d.stS, Good lim q.1 ∧ ∀ g ∈ q.2, GoodGen lim g
  recorded : ∀ v ∈ d.recorded, Good lim v
  logged : ∀ v ∈ d.logged, Good lim v

/-! ### values -/

theorem wfList_iff : ∀ ks : List SV, WFList ks ↔ ∀ x ∈ ks, WF x
  | [] => by simp [WFList]
  | k :: ks => by simp [WFList, wfList_iff ks]

theorem Good.wf {lim : Nat} {v : SV} (h : Good lim v) : WF v := h.1

theorem wf_kids {k a ks s} (h : WF (.node k a ks s)) : ∀ x ∈ ks, WF x := by
  simp only [WF] at h
  exact (wfList_iff ks).mp h.2

theorem wf_rebuild' {k : Kind} {a : List Nat} {ks : List SV} (h : ∀ x ∈ ks, WF x) :
    WF (rebuild k a ks) := wf_rebuild k a ks ((wfList_iff ks).mpr h)

theorem recSize_eq {v : SV} (h : WF v) : v.recSize = nodeCount v := SLE.C18.C18_size_eq_nodeCount v h

theorem nodeCount_rebuild (k : Kind) (a : List Nat) (ks : List SV) :
    nodeCount (rebuild k a ks) = nodeCountList ks + 1 := by
  simp [rebuild, nodeCount]

theorem good_mkKnown {lim : Nat} (hl : 1 ≤ lim) (w : Word) : Good lim (mkKnown w) :=
  ⟨wf_mkKnown w, by simpa [mkKnown, nodeCount, nodeCountList] using hl⟩

theorem good_mkValue {lim : Nat} (hl : 1 ≤ lim) (i : Nat) : Good lim (mkValue i) :=
  ⟨wf_mkValue i, by simpa [mkValue, nodeCount, nodeCountList] using hl⟩

theorem good_fold {lim : Nat} {v : SV} (h : Good lim v) : Good lim (fold v) :=
  ⟨wf_fold v, Nat.le_trans (nodeCount_fold_le v) h.2⟩

theorem good_mk (vl fresh : Nat) (k : Kind) (a : List Nat) (ks : List SV) (h : ∀ x ∈ ks, WF x) :
    Good (max vl 1) (SV.mk (some vl) fresh k a ks) :=
  ⟨wf_mk _ fresh k a ks ((wfList_iff ks).mpr h), nodeCount_mk_le vl fresh k a ks ((wfList_iff ks).mpr h)⟩

theorem good_gen {lim : Nat} {v : SV} (h : Good lim v) : GoodGen lim v :=
  ⟨fun _ => h, fun _ => ⟨h.1, Nat.le_succ_of_le h.2⟩⟩

theorem GoodGen.wf {lim : Nat} {v : SV} (h : GoodGen lim v) : WF v := by
  cases hp : isPlaceholder v
  · exact (h.1 hp).1
  · exact (h.2 hp).1

/-! ### S1 — builders -/

section builders
variable {lim : Nat} {c : Ctx}

theorem build_g (hc : max c.cfg.valueLimit 1 = lim) {ctr k a ks v ctr'}
    (e : build c ctr k a ks = (v, ctr')) (hks : ∀ x ∈ ks, WF x) : Good lim v := by
  unfold build at e
  cases e
  rw [← hc]
  exact good_mk _ _ k a ks hks

theorem build_g' (hc : max c.cfg.valueLimit 1 = lim) {ctr k a ks} (hks : ∀ x ∈ ks, WF x) :
    Good lim (build c ctr k a ks).1 := build_g hc rfl hks

theorem buildKnown_g (hc : max c.cfg.valueLimit 1 = lim) {ctr w v ctr'}
    (e : buildKnown c ctr w = (v, ctr')) : Good lim v := build_g hc e (by simp)

theorem buildKnown_g' (hc : max c.cfg.valueLimit 1 = lim) {ctr w} : Good lim (buildKnown c ctr w).1 :=
  buildKnown_g hc rfl

theorem buildValue_g (hl : 1 ≤ lim) {ctr v ctr'} (e : buildValue c ctr = (v, ctr')) : Good lim v := by
  unfold buildValue at e
  cases e
  exact good_mkValue hl _

theorem buildValue_g' (hl : 1 ≤ lim) {ctr} : Good lim (buildValue c ctr).1 := buildValue_g hl rfl

end builders

/-- S1. A value built through the limit-checking builder over well-formed kids is `Good`. -/
theorem good_build (c : Ctx) (ctr : Nat) (k : Kind) (attrs : List Nat) (ks : List SV)
    (h : ∀ x ∈ ks, WF x) : Good (max c.cfg.valueLimit 1) (build c ctr k attrs ks).1 :=
  build_g' rfl h

theorem good_buildKnown (c : Ctx) (ctr : Nat) (w : Word) :
    Good (max c.cfg.valueLimit 1) (buildKnown c ctr w).1 := buildKnown_g' rfl

theorem good_buildValue (c : Ctx) (ctr : Nat) : Good (max c.cfg.valueLimit 1) (buildValue c ctr).1 :=
  buildValue_g' (Nat.le_max_right _ _)

mutual
theorem instantiate_g {lim : Nat} {c : Ctx} (hc : max c.cfg.valueLimit 1 = lim) (args : List SV)
    (ha : ∀ a ∈ args, Good lim a) :
    ∀ (t : SV) (ctr : Nat), Good lim (instantiate c args t ctr).1
  | .node k attrs kids s, ctr => by
    have hl : 1 ≤ lim := by rw [← hc]; exact Nat.le_max_right _ _
    have hkids := instantiate_go_g hc args ha kids ctr
    simp only [instantiate]
    split
    · split
      · split
        · rename_i a hget
          exact ha a (List.mem_of_getElem? hget)
        · exact buildValue_g hl rfl
      · exact buildValue_g hl rfl
    · split
      · exact build_g hc rfl (fun x hx => (hkids x hx).1)
      · exact build_g hc rfl (fun x hx => (hkids x hx).1)
theorem instantiate_go_g {lim : Nat} {c : Ctx} (hc : max c.cfg.valueLimit 1 = lim) (args : List SV)
    (ha : ∀ a ∈ args, Good lim a) :
    ∀ (ts : List SV) (n : Nat), ∀ x ∈ (instantiate.go c args ts n).1, Good lim x
  | [], n => by simp [instantiate.go]
  | t :: ts, n => by
    simp only [instantiate.go]
    intro x hx
    rcases List.mem_cons.mp hx with rfl | hx
    · exact instantiate_g hc args ha t n
    · exact instantiate_go_g hc args ha ts _ x hx
end

/-- S1. Instantiating ANY template on `Good` arguments gives a `Good` value. -/
theorem good_instantiate (c : Ctx) (args : List SV) (tpl : SV) (ctr : Nat)
    (ha : ∀ a ∈ args, Good (max c.cfg.valueLimit 1) a) :
    Good (max c.cfg.valueLimit 1) (instantiate c args tpl ctr).1 :=
  instantiate_g rfl args ha tpl ctr

/-! ### stack -/

section prim
variable {lim : Nat}

theorem push_d {d d' : TData} {v : SV} (e : push d v = .ok d') (h : GoodD lim d) (hv : Good lim v) :
    GoodD lim d' := by
  unfold push at e
  split at e
  · cases e
  · cases e
    exact ⟨fun x hx => by
      rcases List.mem_cons.mp hx with rfl | hx
      · exact hv
      · exact h.stack x hx, h.memC, h.memS, h.stK, h.stS, h.recorded, h.logged⟩

theorem pop_both {d d' : TData} {v : SV} (e : pop d = .ok (v, d')) (h : GoodD lim d) :
    Good lim v ∧ GoodD lim d' := by
  unfold pop at e
  split at e
  · cases e
  · rename_i v0 r hs
    cases e
    have hst := h.stack
    rw [hs] at hst
    exact ⟨hst v (by simp), fun x hx => hst x (by simp [hx]), h.memC, h.memS, h.stK, h.stS,
      h.recorded, h.logged⟩

theorem pop_v {d d' : TData} {v : SV} (e : pop d = .ok (v, d')) (h : GoodD lim d) : Good lim v :=
  (pop_both e h).1
theorem pop_d {d d' : TData} {v : SV} (e : pop d = .ok (v, d')) (h : GoodD lim d) : GoodD lim d' :=
  (pop_both e h).2

theorem popN_ok : ∀ (n : Nat) (d : TData) (acc : List SV) {args : List SV} {d' : TData},
    popN n d acc = .ok (args, d') → GoodD lim d → (∀ a ∈ acc, Good lim a) →
      (∀ a ∈ args, Good lim a) ∧ GoodD lim d'
  | 0, d, acc, args, d', e, h, ha => by
    unfold popN at e
    cases e
    exact ⟨fun a ha' => ha a (List.mem_reverse.mp ha'), h⟩
  | n + 1, d, acc, args, d', e, h, ha => by
    unfold popN at e
    split at e
    · cases e
    · rename_i v d1 hp
      obtain ⟨hv, hd1⟩ := pop_both hp h
      exact popN_ok n d1 (v :: acc) e hd1 (fun a ha' => by
        rcases List.mem_cons.mp ha' with rfl | ha'
        · exact hv
        · exact ha a ha')

theorem popN_err_d : ∀ (n : Nat) (d : TData) (acc : List SV) {e : XErr} {d' : TData},
    popN n d acc = .error (e, d') → GoodD lim d → GoodD lim d'
  | 0, d, acc, e, d', he, h => by
    unfold popN at he
    cases he
  | n + 1, d, acc, e, d', he, h => by
    unfold popN at he
    split at he
    · cases he; exact h
    · rename_i v d1 hp
      exact popN_err_d n d1 (v :: acc) he (pop_d hp h)

theorem popN_v {n : Nat} {d d' : TData} {args : List SV} (e : popN n d [] = .ok (args, d'))
    (h : GoodD lim d) : ∀ a ∈ args, Good lim a := (popN_ok n d [] e h (by simp)).1
theorem popN_d {n : Nat} {d d' : TData} {args : List SV} (e : popN n d [] = .ok (args, d'))
    (h : GoodD lim d) : GoodD lim d' := (popN_ok n d [] e h (by simp)).2

theorem dup_d {d d' : TData} {n : Nat} (e : dup d n = .ok d') (h : GoodD lim d) : GoodD lim d' := by
  unfold dup at e
  split at e
  · cases e
  · split at e
    · rename_i v hv
      exact push_d e h (h.stack v (List.mem_of_getElem? hv))
    · cases e

theorem swap_d {d d' : TData} {n : Nat} (e : swap d n = .ok d') (h : GoodD lim d) : GoodD lim d' := by
  unfold swap at e
  split at e
  · cases e
  · rename_i top r hs
    split at e
    · cases e
    · split at e
      · rename_i v hv
        cases e
        refine ⟨fun x hx => ?_, h.memC, h.memS, h.stK, h.stS, h.recorded, h.logged⟩
        dsimp only at hx
        rcases List.mem_or_eq_of_mem_set hx with hx | rfl
        · rcases List.mem_or_eq_of_mem_set hx with hx | rfl
          · exact h.stack x hx
          · exact h.stack _ (by rw [hs]; simp)
        · exact h.stack _ (List.mem_of_getElem? hv)
      · cases e

theorem record_d {d : TData} {v : SV} (h : GoodD lim d) (hv : Good lim v) : GoodD lim (record d v) :=
  ⟨h.stack, h.memC, h.memS, h.stK, h.stS, fun x hx => by
    rcases List.mem_append.mp hx with hx | hx
    · exact h.recorded x hx
    · rw [List.mem_singleton.mp hx]; exact hv, h.logged⟩

theorem logValue_d {d : TData} {v : SV} (h : GoodD lim d) (hv : Good lim v) :
    GoodD lim (logValue d v) :=
  ⟨h.stack, h.memC, h.memS, h.stK, h.stS, h.recorded, fun x hx => by
    rcases List.mem_append.mp hx with hx | hx
    · exact h.logged x hx
    · rw [List.mem_singleton.mp hx]; exact hv⟩

end prim

/-! ### memory -/

section mem
variable {lim : Nat}

/-- all cells of a generation list hold good values -/
def CellsOK (lim : Nat) (g : List MemCell) : Prop := ∀ c ∈ g, Good lim c.data

theorem cells_snoc {g : List MemCell} {v : SV} {w : Bool} (hg : CellsOK lim g) (hv : Good lim v) :
    CellsOK lim (g ++ [⟨v, w⟩]) := by
  intro c hc
  rcases List.mem_append.mp hc with hc | hc
  · exact hg c hc
  · rw [List.mem_singleton.mp hc]; exact hv

theorem cells_last (hl : 1 ≤ lim) {g : List MemCell} (hg : CellsOK lim g) :
    Good lim (g.getLast?.getD zeroCell).data := by
  cases hl' : g.getLast? with
  | none => exact good_mkKnown hl _
  | some c => exact hg c (List.mem_of_getLast? hl')

theorem cells_zero (hl : 1 ≤ lim) : CellsOK lim [zeroCell] := by
  intro c hc
  rw [List.mem_singleton.mp hc]
  exact good_mkKnown hl _

theorem memStore_d {d : TData} {off v : SV} {w : Bool} (h : GoodD lim d)
    (ho : Good lim off) (hv : Good lim v) : GoodD lim (memStore d off v w) := by
  unfold memStore
  dsimp only
  split
  · refine ⟨h.stack, ?_, h.memS, h.stK, h.stS, h.recorded, h.logged⟩
    dsimp only
    refine updateNat_inv (V := CellsOK lim) h.memC (cells_snoc ?_ hv)
    cases hl : List.lookup _ d.memC with
    | none => intro c hc; cases hc
    | some g =>
      obtain ⟨q, hq, rfl⟩ := lookupNat_mem hl
      exact h.memC q hq
  · refine ⟨h.stack, h.memC, ?_, h.stK, h.stS, h.recorded, h.logged⟩
    dsimp only
    refine updateSV_inv (K := Good lim) (V := CellsOK lim) h.memS (good_fold ho) (cells_snoc ?_ hv)
    cases hl : lookupSV d.memS (fold off) with
    | none => intro c hc; cases hc
    | some g =>
      obtain ⟨q, hq, rfl⟩ := lookupSV_mem hl
      exact (h.memS q hq).2

theorem memGetC_both (hl : 1 ≤ lim) {d d' : TData} {k : Nat} {v : SV} (e : memGetC d k = (v, d'))
    (h : GoodD lim d) : Good lim v ∧ GoodD lim d' := by
  unfold memGetC at e
  split at e
  · rename_i cells hl'
    cases e
    obtain ⟨q, hq, rfl⟩ := lookupNat_mem hl'
    exact ⟨cells_last hl (h.memC q hq), h⟩
  · cases e
    refine ⟨good_mkKnown hl _, h.stack, ?_, h.memS, h.stK, h.stS, h.recorded, h.logged⟩
    intro q hq
    rcases List.mem_append.mp hq with hq | hq
    · exact h.memC q hq
    · rw [List.mem_singleton.mp hq]; exact cells_zero hl

theorem memGetS_both (hl : 1 ≤ lim) {d d' : TData} {off v : SV} (e : memGetS d off = (v, d'))
    (h : GoodD lim d) (ho : Good lim off) : Good lim v ∧ GoodD lim d' := by
  unfold memGetS at e
  split at e
  · rename_i cells hl'
    cases e
    obtain ⟨q, hq, rfl⟩ := lookupSV_mem hl'
    exact ⟨cells_last hl (h.memS q hq).2, h⟩
  · cases e
    refine ⟨good_mkKnown hl _, h.stack, h.memC, ?_, h.stK, h.stS, h.recorded, h.logged⟩
    intro q hq
    rcases List.mem_append.mp hq with hq | hq
    · exact h.memS q hq
    · rw [List.mem_singleton.mp hq]; exact ⟨ho, cells_zero hl⟩

theorem memLoad_both (hl : 1 ≤ lim) {d d' : TData} {off v : SV} (e : memLoad d off = (v, d'))
    (h : GoodD lim d) (ho : Good lim off) : Good lim v ∧ GoodD lim d' := by
  unfold memLoad at e
  dsimp only at e
  split at e
  · exact memGetC_both hl e h
  · exact memGetS_both hl e h (good_fold ho)

theorem memLoad_v (hl : 1 ≤ lim) {d d' : TData} {off v : SV} (e : memLoad d off = (v, d'))
    (h : GoodD lim d) (ho : Good lim off) : Good lim v := (memLoad_both hl e h ho).1
theorem memLoad_d (hl : 1 ≤ lim) {d d' : TData} {off v : SV} (e : memLoad d off = (v, d'))
    (h : GoodD lim d) (ho : Good lim off) : GoodD lim d' := (memLoad_both hl e h ho).2

theorem memGetMany_both (hl : 1 ≤ lim) : ∀ (ks : List Nat) {d d' : TData} {vs : List SV},
    memGetMany d ks = (vs, d') → GoodD lim d → (∀ v ∈ vs, Good lim v) ∧ GoodD lim d'
  | [], d, d', vs, e, h => by
    unfold memGetMany at e
    cases e
    exact ⟨by simp, h⟩
  | k :: ks, d, d', vs, e, h => by
    unfold memGetMany at e
    cases h1 : memGetC d k with
    | mk v d1 =>
      cases h2 : memGetMany d1 ks with
      | mk vs' d2 =>
        rw [h1] at e
        dsimp only at e
        rw [h2] at e
        cases e
        obtain ⟨hv, hd1⟩ := memGetC_both hl h1 h
        obtain ⟨hvs, hd2⟩ := memGetMany_both hl ks h2 hd1
        refine ⟨fun x hx => ?_, hd2⟩
        rcases List.mem_cons.mp hx with rfl | hx
        · exact hv
        · exact hvs x hx

/-- `Memory::load_slice`: what it returns records its true size (the `concat` it may build is
not limited), and the state stays good. -/
theorem memLoadSlice_both (hl : 1 ≤ lim) {c : Ctx} {d d' : TData} {off size v : SV}
    (e : memLoadSlice c d off size = .ok (v, d')) (h : GoodD lim d) (ho : Good lim off) :
    WF v ∧ GoodD lim d' := by
  unfold memLoadSlice at e
  dsimp only at e
  split at e
  · split at e
    · cases e
      obtain ⟨hvs, hd2⟩ := memGetMany_both hl _ rfl h
      exact ⟨wf_rebuild' (fun x hx => (hvs x hx).1), hd2⟩
    · injection e with e
      obtain ⟨h1, h2⟩ := memGetC_both hl e h
      exact ⟨h1.1, h2⟩
  · injection e with e
    obtain ⟨h1, h2⟩ := memGetS_both hl e h (good_fold ho)
    exact ⟨h1.1, h2⟩

theorem memLoadSlice_v (hl : 1 ≤ lim) {c : Ctx} {d d' : TData} {off size v : SV}
    (e : memLoadSlice c d off size = .ok (v, d')) (h : GoodD lim d) (ho : Good lim off) : WF v :=
  (memLoadSlice_both hl e h ho).1
theorem memLoadSlice_d (hl : 1 ≤ lim) {c : Ctx} {d d' : TData} {off size v : SV}
    (e : memLoadSlice c d off size = .ok (v, d')) (h : GoodD lim d) (ho : Good lim off) :
    GoodD lim d' := (memLoadSlice_both hl e h ho).2

/-! ### storage -/

theorem stStore_d {d : TData} {key v : SV} (h : GoodD lim d) (hk : Good lim key) (hv : Good lim v) :
    GoodD lim (stStore d key v) := by
  have snoc : ∀ g : List SV, (∀ x ∈ g, GoodGen lim x) → ∀ x ∈ g ++ [v], GoodGen lim x := by
    intro g hg x hx
    rcases List.mem_append.mp hx with hx | hx
    · exact hg x hx
    · rw [List.mem_singleton.mp hx]; exact good_gen hv
  unfold stStore
  split
  · refine ⟨h.stack, h.memC, h.memS, ?_, h.stS, h.recorded, h.logged⟩
    dsimp only
    refine updateSV_inv (K := Good lim) (V := fun g => ∀ x ∈ g, GoodGen lim x) h.stK hk (snoc _ ?_)
    cases hl : lookupSV d.stK key with
    | none => intro c hc; cases hc
    | some g =>
      obtain ⟨q, hq, rfl⟩ := lookupSV_mem hl
      exact (h.stK q hq).2
  · refine ⟨h.stack, h.memC, h.memS, h.stK, ?_, h.recorded, h.logged⟩
    dsimp only
    refine updateSV_inv (K := Good lim) (V := fun g => ∀ x ∈ g, GoodGen lim x) h.stS hk (snoc _ ?_)
    cases hl : lookupSV d.stS key with
    | none => intro c hc; cases hc
    | some g =>
      obtain ⟨q, hq, rfl⟩ := lookupSV_mem hl
      exact (h.stS q hq).2

/-- the `SLoad` wrapper records its true size (it is built WITHOUT the limit) -/
theorem sload_wrap {key recent : SV} (hk : WF key) (hr : WF recent) :
    WF (if recent.kind == .sLoad then buildNoLimit .sLoad recent.attrs recent.kids
      else buildNoLimit .sLoad [] [key, recent]) := by
  split
  · cases recent with
    | node k a ks s => exact wf_rebuild' (wf_kids hr)
  · refine wf_rebuild' ?_
    intro x hx
    simp only [List.mem_cons, List.not_mem_nil, or_false] at hx
    rcases hx with rfl | rfl
    · exact hk
    · exact hr

theorem gens_last {g : List SV} (hg : ∀ x ∈ g, GoodGen lim x) :
    WF (g.getLast?.getD (mkKnown 0#256)) := by
  cases hl : g.getLast? with
  | none => exact wf_mkKnown _
  | some c => exact (hg c (List.mem_of_getLast? hl)).wf

/-- the placeholder generation: key size + 1 -/
theorem placeholder_gen {key : SV} (hk : Good lim key) :
    GoodGen lim (buildNoLimit .unwrittenStorageValue [] [key]) := by
  have hwf : WF (buildNoLimit .unwrittenStorageValue [] [key]) :=
    wf_rebuild' (fun y hy => by rw [List.mem_singleton.mp hy]; exact hk.1)
  constructor
  · intro hp
    simp [isPlaceholder, buildNoLimit, rebuild, kind] at hp
  · intro _
    refine ⟨hwf, ?_⟩
    have := hk.2
    simp only [buildNoLimit, nodeCount_rebuild, nodeCountList]
    omega

theorem stLoad_both {d d' : TData} {key v : SV} (e : stLoad d key = (v, d')) (h : GoodD lim d)
    (hk : Good lim key) : WF v ∧ GoodD lim d' := by
  have hinit : ∀ x ∈ [buildNoLimit Kind.unwrittenStorageValue [] [key]], GoodGen lim x := by
    intro x hx
    rw [List.mem_singleton.mp hx]
    exact placeholder_gen hk
  have hsnoc : ∀ m : List (SV × List SV), (∀ q ∈ m, Good lim q.1 ∧ ∀ v ∈ q.2, GoodGen lim v) →
      ∀ q ∈ m ++ [(key, [buildNoLimit Kind.unwrittenStorageValue [] [key]])],
        Good lim q.1 ∧ ∀ v ∈ q.2, GoodGen lim v := by
    intro m hmm q hq
    rcases List.mem_append.mp hq with hq | hq
    · exact hmm q hq
    · rw [List.mem_singleton.mp hq]; exact ⟨hk, hinit⟩
  unfold stLoad at e
  cases hkk : isKnownKey key
  · simp only [hkk, Bool.false_eq_true, if_false] at e
    cases hl : lookupSV d.stS key with
    | none =>
      simp only [hl] at e
      cases e
      exact ⟨sload_wrap hk.1 (gens_last hinit),
        h.stack, h.memC, h.memS, h.stK, hsnoc _ h.stS, h.recorded, h.logged⟩
    | some g =>
      simp only [hl] at e
      cases e
      obtain ⟨q, hq, rfl⟩ := lookupSV_mem hl
      exact ⟨sload_wrap hk.1 (gens_last (h.stS q hq).2), h⟩
  · simp only [hkk, if_true] at e
    cases hl : lookupSV d.stK key with
    | none =>
      simp only [hl] at e
      cases e
      exact ⟨sload_wrap hk.1 (gens_last hinit),
        h.stack, h.memC, h.memS, hsnoc _ h.stK, h.stS, h.recorded, h.logged⟩
    | some g =>
      simp only [hl] at e
      cases e
      obtain ⟨q, hq, rfl⟩ := lookupSV_mem hl
      exact ⟨sload_wrap hk.1 (gens_last (h.stK q hq).2), h⟩

/-- SLOAD's re-check (repair of D17): a well-formed value whose reported size passes the check
is within the limit. -/
theorem good_of_recheck {vl : Nat} {v : SV} (hw : WF v) (hle : ¬ v.recSize > vl) :
    Good (max vl 1) v := by
  refine ⟨hw, ?_⟩
  have := recSize_eq hw
  have := Nat.le_max_left vl 1
  omega

end mem

/-! ### outputs of an instruction -/

/-- the thread data of the output satisfies the invariant -/
structure OK (lim : Nat) (o : OpOut) : Prop where
  di : GoodD lim o.d

section out
variable {lim : Nat}

theorem ok_fail {d : TData} {ctr : Nat} {e : XErr} (h : GoodD lim d) : OK lim (fail d ctr e) := ⟨h⟩

theorem ok_mk {d : TData} {ctr : Nat} {e : Option XErr} {k : Bool} {j f : Option Nat}
    {se : Option XErr} (h : GoodD lim d) : OK lim ⟨d, ctr, e, k, j, f, se⟩ := ⟨h⟩

theorem ok_pushOut {d : TData} {ctr : Nat} {v : SV} (h : GoodD lim d) (hv : Good lim v) :
    OK lim (pushOut d ctr v) := by
  unfold pushOut
  split
  · exact ⟨push_d ‹_› h hv⟩
  · exact ⟨h⟩

theorem ok_ite {c : Prop} [Decidable c] {a b : OpOut} (ha : c → OK lim a) (hb : ¬c → OK lim b) :
    OK lim (if c then a else b) := by
  split
  · exact ha ‹_›
  · exact hb ‹_›

theorem memLoad_v' (hl : 1 ≤ lim) {d : TData} {off : SV} (h : GoodD lim d) (ho : Good lim off) :
    Good lim (memLoad d off).1 := memLoad_v hl rfl h ho
theorem memLoad_d' (hl : 1 ≤ lim) {d : TData} {off : SV} (h : GoodD lim d) (ho : Good lim off) :
    GoodD lim (memLoad d off).2 := memLoad_d hl rfl h ho

theorem instantiate_ve {c : Ctx} (hc : max c.cfg.valueLimit 1 = lim) {tpl : SV} {args : List SV}
    {ctr ctr' : Nat} {v : SV} (e2 : instantiate c args tpl ctr = (v, ctr'))
    (ha : ∀ a ∈ args, Good lim a) : Good lim v := by
  have := instantiate_g hc args ha tpl ctr
  rw [e2] at this
  exact this

end out

/-- Backward prover for invariant goals after the case analysis of an opcode: relies on the local
names `lim`, `hc : max c.cfg.valueLimit 1 = lim` and `hl : 1 ≤ lim`. -/
syntax "gd" : tactic
set_option hygiene false in
macro_rules
  | `(tactic| gd) => `(tactic| first
    | assumption
    -- outputs
    | (refine ok_fail ?_ <;> gd)
    | (refine ok_pushOut ?_ ?_ <;> gd)
    | (refine ok_mk ?_ <;> gd)
    -- thread data
    | (refine record_d ?_ ?_ <;> gd)
    | (refine logValue_d ?_ ?_ <;> gd)
    | (refine memStore_d ?_ ?_ ?_ <;> gd)
    | (apply pop_d; assumption; gd)
    | (apply popN_d; assumption; gd)
    | (apply popN_err_d; assumption; gd)
    | (apply dup_d; assumption; gd)
    | (apply swap_d; assumption; gd)
    | (apply memLoad_d hl; assumption; gd; gd)
    | (refine memLoad_d' hl ?_ ?_ <;> gd)
    | (apply memLoadSlice_d hl; assumption; gd; gd)
    -- values
    | (apply buildKnown_g hc; assumption)
    | exact buildKnown_g' hc
    | (apply buildValue_g hl; assumption)
    | exact buildValue_g' hl
    | (apply pop_v; assumption; gd)
    | (apply popN_v; assumption; gd; (simp; done))
    | (apply memLoad_v hl; assumption; gd; gd)
    | (refine memLoad_v' hl ?_ ?_ <;> gd)
    | (apply build_g hc; assumption; gd)
    | (refine build_g' hc ?_ <;> gd)
    | (refine good_fold ?_ <;> gd)
    | (apply instantiate_ve hc; assumption; gd)
    | (refine instantiate_g hc _ ?_ _ _ <;> gd)
    -- well-formedness only
    | exact wf_fold _
    | (apply memLoadSlice_v (lim := lim) hl; assumption; gd; gd)
    | (refine Good.wf (lim := lim) ?_ <;> gd)
    -- lists of values
    | (intro x hx; apply popN_v; assumption; gd; (simp [hx]; done))
    | (intro x hx; apply popN_v (a := x); assumption; gd; exact hx)
    | (intro x hx; refine Good.wf (lim := lim) ?_; apply popN_v; assumption; gd; (simp [hx]; done))
    | (simp only [List.mem_cons, List.not_mem_nil, or_false, forall_eq_or_imp, forall_eq,
        false_implies, implies_true]
       repeat' apply And.intro
       all_goals gd))

section exec
variable {lim : Nat} {c : Ctx}

theorem copyLoop_d (hc : max c.cfg.valueLimit 1 = lim) {dest : SV} {srcBase : Option SV}
    {mkVal : SV → SV → Nat → SV × Nat} {foldDest : Bool} {limit : Nat} {d : TData} {ctr : Nat}
    (h : GoodD lim d) (hdest : Good lim dest) (hsrc : ∀ s, srcBase = some s → WF s)
    (hmk : ∀ src n32 ctr, WF src → WF n32 → Good lim (mkVal src n32 ctr).1) :
    GoodD lim (copyLoop c d ctr dest srcBase mkVal limit foldDest).1 := by
  have hl : 1 ≤ lim := by rw [← hc]; exact Nat.le_max_right _ _
  unfold copyLoop
  refine foldl_inv (fun (acc : TData × Nat) => GoodD lim acc.1) _ ?_ _ _ h
  rintro ⟨d, ctr⟩ i h
  dsimp only at h ⊢
  have hdest' : WF (if foldDest = true then dest.fold else dest) := by
    split
    · exact wf_fold _
    · exact hdest.1
  refine memStore_d h ?_ ?_
  · gd
  · apply hmk
    · split
      · rename_i s
        have := hsrc s rfl
        gd
      · gd
    · gd

theorem ok_copyOp (hc : max c.cfg.valueLimit 1 = lim) {d : TData} {ctr : Nat} {kind : Kind}
    {wa : Bool} {bound : Nat} (h : GoodD lim d) : OK lim (copyOp c d ctr kind wa bound) := by
  have hl : 1 ≤ lim := by rw [← hc]; exact Nat.le_max_right _ _
  unfold copyOp
  split
  · gd
  · rename_i args d1 hpop
    have hargs := popN_v hpop h
    have hd1 := popN_d hpop h
    cases wa
    · simp only [Bool.false_eq_true, if_false]
      split
      · rename_i dest offset0 size0
        have hdest : Good lim dest := hargs _ (by simp)
        have hoff : Good lim offset0 := hargs _ (by simp)
        have hsize : Good lim size0 := hargs _ (by simp)
        split
        · refine ok_mk (copyLoop_d hc hd1 hdest ?_ ?_)
          · intro s hs; cases hs; gd
          · intro src n32 ctr hsrc hn32
            split <;> gd
        · refine ok_mk (memStore_d hd1 hdest ?_)
          split <;> gd
      · gd
    · simp only [if_true]
      split
      · rename_i dest offset0 size0 hdrop
        have hmem : ∀ a ∈ [dest, offset0, size0], Good lim a := by
          intro a ha
          rw [← hdrop] at ha
          exact hargs a (List.mem_of_mem_drop ha)
        have hdest : Good lim dest := hmem _ (by simp)
        have hoff : Good lim offset0 := hmem _ (by simp)
        have hsize : Good lim size0 := hmem _ (by simp)
        have haddr : ∀ a, args.head? = some a → Good lim a :=
          fun a ha => hargs a (List.mem_of_head? ha)
        split
        · refine ok_mk (copyLoop_d hc hd1 hdest ?_ ?_)
          · intro s hs; cases hs; gd
          · intro src n32 ctr hsrc hn32
            split
            · gd
            · split
              · rename_i a ha
                have := haddr a ha
                gd
              · gd
        · refine ok_mk (memStore_d hd1 hdest ?_)
          split
          · gd
          · split
            · rename_i a ha
              have := haddr a ha
              gd
            · gd
      · gd

theorem storeReturnData_d (hc : max c.cfg.valueLimit 1 = lim) {d : TData} {ctr : Nat}
    {retSize retOffset : SV} (h : GoodD lim d) (ho : Good lim retOffset) :
    GoodD lim (storeReturnData c d ctr retSize retOffset).1 := by
  have hl : 1 ≤ lim := by rw [← hc]; exact Nat.le_max_right _ _
  unfold storeReturnData
  split
  · refine copyLoop_d hc h ho (by intro s hs; cases hs) ?_
    intro src n32 ctr h1 h2
    gd
  · dsimp only
    refine memStore_d h ho ?_
    gd

theorem ok_callOp (hc : max c.cfg.valueLimit 1 = lim) {d : TData} {ctr : Nat} {wv : Bool}
    (h : GoodD lim d) : OK lim (callOp c d ctr wv) := by
  have hl : 1 ≤ lim := by rw [← hc]; exact Nat.le_max_right _ _
  unfold callOp
  split
  · gd
  · rename_i args d1 hpop
    have hargs := popN_v hpop h
    have hd1 := popN_d hpop h
    cases wv
    · simp only [Bool.false_eq_true, if_false]
      split
      · rename_i gas address argOffset argSize retOffset retSize hg ha hdrop
        have hmem : ∀ a ∈ [argOffset, argSize, retOffset, retSize], Good lim a := by
          intro a ha
          rw [← hdrop] at ha
          exact hargs a (List.mem_of_mem_drop ha)
        have h1 : Good lim gas := hargs _ (List.mem_of_getElem? hg)
        have h2 : Good lim address := hargs _ (List.mem_of_getElem? ha)
        have h3 : Good lim argOffset := hmem _ (by simp)
        have h4 : Good lim argSize := hmem _ (by simp)
        have h5 : Good lim retOffset := hmem _ (by simp)
        have h6 : Good lim retSize := hmem _ (by simp)
        split
        · gd
        · rename_i argData d2 hls
          have h7 : WF argData := memLoadSlice_v hl hls hd1 h3
          have hd2 := memLoadSlice_d hl hls hd1 h3
          refine ok_pushOut (storeReturnData_d hc hd2 h5) ?_
          gd
      · gd
    · simp only [if_true]
      split
      · rename_i gas address argOffset argSize retOffset retSize hg ha hdrop
        have hmem : ∀ a ∈ [argOffset, argSize, retOffset, retSize], Good lim a := by
          intro a ha
          rw [← hdrop] at ha
          exact hargs a (List.mem_of_mem_drop ha)
        have h1 : Good lim gas := hargs _ (List.mem_of_getElem? hg)
        have h2 : Good lim address := hargs _ (List.mem_of_getElem? ha)
        have h3 : Good lim argOffset := hmem _ (by simp)
        have h4 : Good lim argSize := hmem _ (by simp)
        have h5 : Good lim retOffset := hmem _ (by simp)
        have h6 : Good lim retSize := hmem _ (by simp)
        have hval : ∀ v, args[2]? = some v → Good lim v :=
          fun v hv => hargs _ (List.mem_of_getElem? hv)
        split
        · gd
        · rename_i argData d2 hls
          have h7 : WF argData := memLoadSlice_v hl hls hd1 h3
          have hd2 := memLoadSlice_d hl hls hd1 h3
          refine ok_pushOut (storeReturnData_d hc hd2 h5) ?_
          split
          · rename_i v hv
            have := hval v hv
            gd
          · gd
      · gd

set_option maxRecDepth 8000 in
/-- The data effect of any instruction keeps the invariant. -/
theorem ok_execOp (hc : max c.cfg.valueLimit 1 = lim) {code : List Instr} {ins : Instr} {d : TData}
    {ctr : Nat} (h : GoodD lim d) : OK lim (execOp c code ins d ctr) := by
  have hl : 1 ≤ lim := by rw [← hc]; exact Nat.le_max_right _ _
  unfold execOp
  split
  · gd
  · gd
  · dsimp only; gd
  · rename_i b
    repeat' (refine ok_ite (fun _ => ?_) (fun _ => ?_))
    all_goals first
      | gd
      | exact ok_copyOp hc h
      | exact ok_callOp hc h
      | (have _hb : (b == 0x54) = true := ‹_›
         split
         · exact ok_fail h
         · rename_i key d1 hpop
           obtain ⟨hkey, hd1⟩ := pop_both hpop h
           obtain ⟨hv, hd2⟩ := stLoad_both rfl hd1 hkey
           dsimp only
           split
           · exact ok_pushOut hd2 (buildValue_g' hl)
           · exact ok_pushOut hd2 (hc ▸ good_of_recheck hv ‹_›))
      | (have _hb : (b == 0x55) = true := ‹_›
         split
         · exact ok_fail (popN_err_d _ _ _ ‹_› h)
         · exact ok_mk (stStore_d (popN_d ‹_› h) (popN_v ‹_› h _ (by simp)) (popN_v ‹_› h _ (by simp)))
         · exact ok_fail (popN_d ‹_› h))
      | (split_all
         all_goals gd)

end exec

/-- S2. The data effect of every instruction keeps the invariant. -/
theorem good_execOp (c : Ctx) (code : List Instr) (ins : Instr) (d : TData) (ctr : Nat) :
    GoodD (max c.cfg.valueLimit 1) d → GoodD (max c.cfg.valueLimit 1) (execOp c code ins d ctr).d :=
  fun h => (ok_execOp rfl h).di

/-! ### S3 — the machine invariant -/

theorem goodD_empty (lim : Nat) : GoodD lim {} := by
  refine ⟨?_, ?_, ?_, ?_, ?_, ?_, ?_⟩ <;> intro x hx <;> cases hx

theorem goodD_fork {lim : Nat} (d : TData) (fp : Nat) (h : GoodD lim d) :
    GoodD lim { d with forkPoint := fp } :=
  ⟨h.stack, h.memC, h.memS, h.stK, h.stS, h.recorded, h.logged⟩

/-- The context `step` hands to `execOp` carries the machine's configuration, so one instruction
of a thread of the machine keeps `GoodD (max cfg.valueLimit 1)`. -/
theorem good_step_exec (cfg : Cfg) (code : List Instr) (ip : Nat) (ins : Instr) (d : TData)
    (ctr : Nat) (h : GoodD (max cfg.valueLimit 1) d) :
    GoodD (max cfg.valueLimit 1)
      (execOp { cfg := cfg, ip := ip, codeLen := code.length } code ins d ctr).d :=
  good_execOp { cfg := cfg, ip := ip, codeLen := code.length } code ins d ctr h

section loop
variable {cfg : Cfg} {code : List Instr}

/-- every thread (live or stored) of the state is good -/
def GoodS (cfg : Cfg) (s : VMS) : Prop :=
  ∀ t ∈ s.queue ++ s.stored, GoodD (max cfg.valueLimit 1) t.d

theorem gs_mk {s' : VMS} (hq : ∀ t ∈ s'.queue, GoodD (max cfg.valueLimit 1) t.d)
    (hs : ∀ t ∈ s'.stored, GoodD (max cfg.valueLimit 1) t.d) : GoodS cfg s' :=
  List.forall_mem_append.mpr ⟨hq, hs⟩

theorem gs_queue {s : VMS} (h : GoodS cfg s) : ∀ t ∈ s.queue, GoodD (max cfg.valueLimit 1) t.d :=
  (List.forall_mem_append.mp h).1
theorem gs_stored {s : VMS} (h : GoodS cfg s) : ∀ t ∈ s.stored, GoodD (max cfg.valueLimit 1) t.d :=
  (List.forall_mem_append.mp h).2

theorem gs_init : GoodS cfg (initVM cfg code) := by
  intro t ht
  simp only [initVM, List.append_nil, List.mem_singleton] at ht
  rw [ht]
  exact goodD_empty _

theorem gs_advance {s : VMS} (h : GoodS cfg s) : GoodS cfg (advance cfg code s) := by
  cases hq : s.queue with
  | nil =>
    rw [advance_nil hq]
    exact h
  | cons t rest =>
    rw [advance_cons hq]
    have hqueue := gs_queue h
    rw [hq] at hqueue
    obtain ⟨ht, hrest⟩ := List.forall_mem_cons.mp hqueue
    have hstored := gs_stored h
    split
    · refine gs_mk hrest ?_
      exact List.forall_mem_append.mpr
        ⟨hstored, fun t' ht' => by rw [List.mem_singleton.mp ht']; exact ht⟩
    · exact gs_mk (List.forall_mem_cons.mpr ⟨ht, hrest⟩) hstored

theorem gs_midOk {s : VMS} {t : Thread} {rest : List Thread} {ins : Instr} {o : OpOut}
    (hq : s.queue = t :: rest) (h : GoodS cfg s) (ho : GoodD (max cfg.valueLimit 1) o.d) :
    GoodS cfg (midOk cfg s t rest ins o) := by
  have hqueue := gs_queue h
  rw [hq] at hqueue
  obtain ⟨_, hrest⟩ := List.forall_mem_cons.mp hqueue
  have hstored := gs_stored h
  unfold midOk
  dsimp only
  split_all
  all_goals refine gs_mk ?_ hstored
  all_goals first
    | exact List.forall_mem_cons.mpr ⟨ho, hrest⟩
    | exact List.forall_mem_append.mpr ⟨List.forall_mem_cons.mpr ⟨ho, hrest⟩,
        fun t' ht' => by rw [List.mem_singleton.mp ht']; exact goodD_fork _ _ ho⟩

theorem gs_midErr {s : VMS} {t : Thread} {rest : List Thread} {o : OpOut} {e : XErr}
    (hq : s.queue = t :: rest) (h : GoodS cfg s) (ho : GoodD (max cfg.valueLimit 1) o.d) :
    GoodS cfg (midErr cfg s t rest o e) := by
  have hqueue := gs_queue h
  rw [hq] at hqueue
  obtain ⟨_, hrest⟩ := List.forall_mem_cons.mp hqueue
  have hstored := gs_stored h
  exact gs_mk (s' := midErr cfg s t rest o e) (List.forall_mem_cons.mpr ⟨ho, hrest⟩) hstored

/-- one iteration of the machine loop keeps every thread good -/
theorem good_step {s : VMS} (h : GoodS cfg s) : GoodS cfg (step cfg code s) := by
  cases hq : s.queue with
  | nil => rw [step_nil hq]; exact h
  | cons t rest =>
    cases hi : code[t.ip]? with
    | none =>
      rw [step_oob hq hi]
      exact h
    | some ins =>
      have ht : GoodD (max cfg.valueLimit 1) t.d := h t (by rw [hq]; simp)
      have ho : GoodD (max cfg.valueLimit 1) (opOut cfg code s t ins).d :=
        good_step_exec cfg code t.ip ins t.d s.ctr ht
      cases he : (opOut cfg code s t ins).err with
      | none =>
        rw [step_ok hq hi he]
        exact gs_advance (gs_midOk hq h ho)
      | some e =>
        cases e with
        | panic site =>
          rw [step_panic hq hi he]
          exact h
        | _ =>
          rw [step_err hq hi he (by intro site hs; cases hs)]
          exact gs_advance (gs_midErr hq h ho)

theorem good_run' : ∀ (fuel : Nat) (s : VMS), GoodS cfg s → GoodS cfg (run cfg code fuel s)
  | 0, _, h => h
  | fuel + 1, s, h => by
    unfold run
    split
    · exact h
    · exact good_run' fuel _ (good_step h)

end loop

/-- S3. `GoodD` holds for every thread, queued or stored, of every state the machine reaches. -/
theorem good_run : ∀ cfg code fuel,
    ∀ t ∈ (run cfg code fuel (initVM cfg code)).queue ++ (run cfg code fuel (initVM cfg code)).stored,
      GoodD (max cfg.valueLimit 1) t.d :=
  fun cfg code fuel => good_run' fuel _ (gs_init (cfg := cfg) (code := code))

/-- S4 (C18 at the machine level). Every stack entry of every thread of every reachable state
reports its true size and has at most `max valueLimit 1` nodes. -/
theorem instruction_results_within_limit : ∀ cfg code fuel,
    ∀ t ∈ (run cfg code fuel (initVM cfg code)).queue ++ (run cfg code fuel (initVM cfg code)).stored,
      ∀ v ∈ t.d.stack, v.recSize = nodeCount v ∧ nodeCount v ≤ max cfg.valueLimit 1 := by
  intro cfg code fuel t ht v hv
  have h := (good_run cfg code fuel t ht).stack v hv
  exact ⟨recSize_eq h.1, h.2⟩

/-- …and likewise for everything else a thread holds: memory cells, storage keys, recorded and
logged values. -/
theorem stored_values_within_limit : ∀ cfg code fuel,
    ∀ t ∈ (run cfg code fuel (initVM cfg code)).queue ++ (run cfg code fuel (initVM cfg code)).stored,
      (∀ q ∈ t.d.memC, ∀ c ∈ q.2, c.data.recSize = nodeCount c.data ∧
          nodeCount c.data ≤ max cfg.valueLimit 1) ∧
      (∀ q ∈ t.d.memS, ∀ c ∈ q.2, c.data.recSize = nodeCount c.data ∧
          nodeCount c.data ≤ max cfg.valueLimit 1) ∧
      (∀ q ∈ t.d.stK ++ t.d.stS, ∀ g ∈ q.2, g.recSize = nodeCount g ∧
          (g.kind ≠ .unwrittenStorageValue → nodeCount g ≤ max cfg.valueLimit 1) ∧
          nodeCount g ≤ max cfg.valueLimit 1 + 1) ∧
      (∀ v ∈ t.d.recorded ++ t.d.logged, v.recSize = nodeCount v ∧
          nodeCount v ≤ max cfg.valueLimit 1) := by
  intro cfg code fuel t ht
  have h := good_run cfg code fuel t ht
  refine ⟨fun q hq c hc => ?_, fun q hq c hc => ?_, fun q hq g hg => ?_, fun v hv => ?_⟩
  · have := h.memC q hq c hc
    exact ⟨recSize_eq this.1, this.2⟩
  · have := (h.memS q hq).2 c hc
    exact ⟨recSize_eq this.1, this.2⟩
  · have hgen : GoodGen (max cfg.valueLimit 1) g := by
      rcases List.mem_append.mp hq with hq | hq
      · exact (h.stK q hq).2 g hg
      · exact (h.stS q hq).2 g hg
    refine ⟨recSize_eq hgen.wf, fun hne => ?_, ?_⟩
    · refine (hgen.1 ?_).2
      simpa [isPlaceholder] using hne
    · cases hp : isPlaceholder g
      · exact Nat.le_succ_of_le (hgen.1 hp).2
      · exact (hgen.2 hp).2
  · have : Good (max cfg.valueLimit 1) v := by
      rcases List.mem_append.mp hv with hv | hv
      · exact h.recorded v hv
      · exact h.logged v hv
    exact ⟨recSize_eq this.1, this.2⟩

/-! ### non-vacuity: the placeholder generation really can exceed the limit by one -/

/-- With limit 1, SLOAD of a one-node key leaves a two-node placeholder in the storage map (the
value pushed is the fresh one-node value). -/
example :
    let c : Ctx := { cfg := ⟨0, 0, 0, 1, 0, false⟩, ip := 0, codeLen := 1 }
    let d : TData := { stack := [mkKnown 7#256] }
    let o := execOp c [] (.op 0x54) d 0
    o.d.stK.map (fun q => q.2.map nodeCount) = [[2]] ∧ o.d.stack.map nodeCount = [1] := by
  decide

end SLE.VMSize

section
open SLE SLE.SV SLE.VM
#print axioms SLE.VMSize.good_build
#print axioms SLE.VMSize.good_buildKnown
#print axioms SLE.VMSize.good_buildValue
#print axioms SLE.VMSize.good_instantiate
#print axioms SLE.VMSize.good_execOp
#print axioms SLE.VMSize.good_run
#print axioms SLE.VMSize.instruction_results_within_limit
#print axioms SLE.VMSize.stored_values_within_limit
end
