/-
Lemmas about the watchdog polling discipline (`SLE/Model/Poll.lean`).
All statements hold for every watchdog function `wd`, loop length, schedule and interval.
Core Lean only.
-/
import SLE.Model.Poll

namespace SLE.Poll

/-! ## Counting polls -/

/-- Number of polls a full (never stopped) run of `n` iterations issues when the counter starts at
`c`: the number of `i < n` with `(c + i) % every = 0` (see `pollCnt_eq_filter_range`). -/
def pollCnt (every : Nat) : Nat → Nat → Nat
  | _, 0 => 0
  | c, n + 1 => (if c % every = 0 then 1 else 0) + pollCnt every (c + 1) n

/-- Ceiling division. -/
def cdiv (n e : Nat) : Nat := (n + e - 1) / e

theorem pollCnt_eq_filter_range' (every c n : Nat) :
    pollCnt every c n = ((List.range' c n).filter (fun i => i % every = 0)).length := by
  induction n generalizing c with
  | zero => simp [pollCnt]
  | succ n ih =>
    rw [pollCnt, List.range'_succ, List.filter_cons, ih (c + 1)]
    by_cases hc : c % every = 0
    · simp [hc]; omega
    · simp [hc]

/-- `pollCnt every c n` is the number of `i < n` with `(c + i) % every = 0`. -/
theorem pollCnt_eq_filter_range (every c n : Nat) :
    pollCnt every c n = ((List.range n).filter (fun i => (c + i) % every = 0)).length := by
  rw [pollCnt_eq_filter_range', List.range'_eq_map_range, List.filter_map, List.length_map]
  rfl

private theorem cdiv_succ {every : Nat} (hev : 0 < every) (c : Nat) :
    cdiv (c + 1) every = cdiv c every + (if c % every = 0 then 1 else 0) := by
  have h := Nat.div_add_mod c every
  have hr := Nat.mod_lt c hev
  generalize c / every = q at h
  generalize c % every = r at h hr
  unfold cdiv
  by_cases hr0 : r = 0
  · rw [if_pos hr0]
    have e1 : (c + 1 + every - 1) / every = q + 1 :=
      Nat.div_eq_of_lt_le (by rw [Nat.mul_comm, Nat.mul_succ]; omega)
        (by rw [Nat.mul_comm, Nat.mul_succ, Nat.mul_succ]; omega)
    have e2 : (c + every - 1) / every = q :=
      Nat.div_eq_of_lt_le (by rw [Nat.mul_comm]; omega)
        (by rw [Nat.mul_comm, Nat.mul_succ]; omega)
    rw [e1, e2]
  · rw [if_neg hr0]
    have e1 : (c + 1 + every - 1) / every = q + 1 :=
      Nat.div_eq_of_lt_le (by rw [Nat.mul_comm, Nat.mul_succ]; omega)
        (by rw [Nat.mul_comm, Nat.mul_succ, Nat.mul_succ]; omega)
    have e2 : (c + every - 1) / every = q + 1 :=
      Nat.div_eq_of_lt_le (by rw [Nat.mul_comm, Nat.mul_succ]; omega)
        (by rw [Nat.mul_comm, Nat.mul_succ, Nat.mul_succ]; omega)
    rw [e1, e2]

/-- Telescoping form: polls issued between counter `c` and counter `c + n`. -/
theorem pollCnt_add_cdiv {every : Nat} (hev : 0 < every) (c n : Nat) :
    pollCnt every c n + cdiv c every = cdiv (c + n) every := by
  induction n generalizing c with
  | zero => simp [pollCnt]
  | succ n ih =>
    have h1 := ih (c + 1)
    have h2 := cdiv_succ hev c
    rw [pollCnt]
    have e : c + (n + 1) = c + 1 + n := by omega
    rw [e]; omega

/-- 1a (closed form): a counter-from-zero loop of `n` iterations polls `⌈n / every⌉` times. -/
theorem poll_count {every : Nat} (hev : 0 < every) (n : Nat) :
    pollCnt every 0 n = (n + every - 1) / every := by
  have h := pollCnt_add_cdiv hev 0 n
  have h0 : cdiv 0 every = 0 := by
    unfold cdiv; exact Nat.div_eq_of_lt (by omega)
  rw [h0, Nat.zero_add] at h
  exact h

/-- `poll_count`, stated for the explicit count. -/
theorem poll_count' {every : Nat} (hev : 0 < every) (n : Nat) :
    ((List.range n).filter (fun i => (0 + i) % every = 0)).length = (n + every - 1) / every := by
  rw [← pollCnt_eq_filter_range, poll_count hev]

/-! ## 1. A single monitored loop -/

section Loop
variable {σ α : Type} (every : Nat) (wd : Nat → Bool) (body : σ → α → σ)

/-- Transparency needs the watchdog to be silent only on the polls the loop issues. -/
theorem pollLoop_transparent_range (xs : List α) (c p : Nat) (s : σ)
    (h : ∀ j, p ≤ j → j < p + pollCnt every c xs.length → wd j = false) :
    pollLoop every wd body xs c p s
      = .done (xs.foldl body s) (p + pollCnt every c xs.length) := by
  induction xs generalizing c p s with
  | nil => simp [pollLoop, pollCnt]
  | cons x xs ih =>
    simp only [List.length_cons, pollCnt, List.foldl_cons] at h ⊢
    rw [pollLoop]
    by_cases hc : c % every = 0
    · simp only [hc, if_true] at h ⊢
      have hp : wd p = false := h p (Nat.le_refl _) (by omega)
      simp only [hp, Bool.false_eq_true, if_false]
      rw [ih (c + 1) (p + 1) (body s x) (fun j h1 h2 => h j (by omega) (by omega))]
      congr 1; omega
    · simp only [hc, if_false] at h ⊢
      rw [ih (c + 1) p (body s x) (fun j h1 h2 => h j h1 (by omega))]
      congr 1; omega

/-- 1a. A never-stopping watchdog is transparent: the loop computes the plain fold and issues one
poll for every `i < xs.length` with `(c + i) % every = 0`. -/
theorem pollLoop_transparent (xs : List α) (c p : Nat) (s : σ) (h : ∀ k, wd k = false) :
    pollLoop every wd body xs c p s
      = .done (xs.foldl body s)
          (p + ((List.range xs.length).filter (fun i => (c + i) % every = 0)).length) := by
  rw [← pollCnt_eq_filter_range]
  exact pollLoop_transparent_range every wd body xs c p s (fun j _ _ => h j)

/-- 1a with the closed form, counter from zero. -/
theorem pollLoop_transparent_zero (hev : 0 < every) (xs : List α) (p : Nat) (s : σ)
    (h : ∀ k, wd k = false) :
    pollLoop every wd body xs 0 p s
      = .done (xs.foldl body s) (p + (xs.length + every - 1) / every) := by
  rw [← poll_count hev]
  exact pollLoop_transparent_range every wd body xs 0 p s (fun j _ _ => h j)

/-- 1c, any starting counter. -/
theorem pollLoop_stop_now_gen (xs : List α) (c p : Nat) (s : σ) (k : Nat) (hpk : p ≤ k)
    (hf : ∀ j, p ≤ j → j < k → wd j = false) (ht : wd k = true)
    (hk : k < p + pollCnt every c xs.length) :
    pollLoop every wd body xs c p s = .stopped (k + 1) := by
  induction xs generalizing c p s with
  | nil => simp [pollCnt] at hk; omega
  | cons x xs ih =>
    simp only [List.length_cons, pollCnt] at hk
    rw [pollLoop]
    by_cases hc : c % every = 0
    · simp only [hc, if_true] at hk ⊢
      by_cases hpk' : p = k
      · subst hpk'; simp [ht]
      · have hp : wd p = false := hf p (Nat.le_refl _) (by omega)
        simp only [hp, Bool.false_eq_true, if_false]
        exact ih (c + 1) (p + 1) (body s x) (by omega) (fun j h1 h2 => hf j (by omega) h2)
          (by omega)
    · simp only [hc, if_false] at hk ⊢
      exact ih (c + 1) p (body s x) hpk hf (by omega)

/-- 1c. If poll number `k` is one of the polls of the loop (`p ≤ k < p + #polls of a full run`),
all earlier polls of the loop were answered `false` and poll `k` is answered `true`, the loop
returns `.stopped (k + 1)`: poll `k` is the last poll issued.
(`p ≤ k` is necessary: see `pollLoop_stop_now_needs_le`.) -/
theorem pollLoop_stop_now (xs : List α) (p : Nat) (s : σ) (k : Nat) (hpk : p ≤ k)
    (hf : ∀ j, p ≤ j → j < k → wd j = false) (ht : wd k = true)
    (hk : k < p + ((List.range xs.length).filter (fun i => (0 + i) % every = 0)).length) :
    pollLoop every wd body xs 0 p s = .stopped (k + 1) := by
  rw [← pollCnt_eq_filter_range] at hk
  exact pollLoop_stop_now_gen every wd body xs 0 p s k hpk hf ht hk

/-- 1d. The loop finishes iff every poll it issues is answered `false`. -/
theorem pollLoop_done_iff (xs : List α) (c p : Nat) (s : σ) :
    (∃ s' p', pollLoop every wd body xs c p s = .done s' p')
      ↔ ∀ j, p ≤ j → j < p + pollCnt every c xs.length → wd j = false := by
  constructor
  · induction xs generalizing c p s with
    | nil => intro _ j h1 h2; simp [pollCnt] at h2; omega
    | cons x xs ih =>
      intro ⟨s', p', h⟩ j h1 h2
      simp only [List.length_cons, pollCnt] at h2
      rw [pollLoop] at h
      by_cases hc : c % every = 0
      · simp only [hc, if_true] at h h2
        cases hp : wd p with
        | true => simp [hp] at h
        | false =>
          simp only [hp, Bool.false_eq_true, if_false] at h
          by_cases hj : j = p
          · rw [hj]; exact hp
          · exact ih (c + 1) (p + 1) (body s x) ⟨s', p', h⟩ j (by omega) (by omega)
      · simp only [hc, if_false] at h h2
        exact ih (c + 1) p (body s x) ⟨s', p', h⟩ j h1 (by omega)
  · intro h
    exact ⟨_, _, pollLoop_transparent_range every wd body xs c p s h⟩

/-- When the loop finishes, it has issued exactly the polls of a full run, all answered `false`,
and computed the plain fold. -/
theorem pollLoop_done_inv (xs : List α) (c p : Nat) (s s' : σ) (p' : Nat)
    (h : pollLoop every wd body xs c p s = .done s' p') :
    s' = xs.foldl body s ∧ p' = p + pollCnt every c xs.length
      ∧ ∀ j, p ≤ j → j < p' → wd j = false := by
  have hall := (pollLoop_done_iff every wd body xs c p s).1 ⟨s', p', h⟩
  rw [pollLoop_transparent_range every wd body xs c p s hall] at h
  injection h with h1 h2
  subst h1 h2
  exact ⟨rfl, rfl, hall⟩

/-- The loop either finishes or stops; if it stops at `q` then `q - 1` is one of its polls, it was
answered `true` and every earlier poll of the loop was answered `false`. -/
theorem pollLoop_stopped_inv (xs : List α) (c p : Nat) (s : σ) (q : Nat)
    (h : pollLoop every wd body xs c p s = .stopped q) :
    p < q ∧ q ≤ p + pollCnt every c xs.length ∧ wd (q - 1) = true
      ∧ ∀ j, p ≤ j → j < q - 1 → wd j = false := by
  induction xs generalizing c p s with
  | nil => simp [pollLoop] at h
  | cons x xs ih =>
    simp only [List.length_cons, pollCnt]
    rw [pollLoop] at h
    by_cases hc : c % every = 0
    · simp only [hc, if_true] at h ⊢
      cases hp : wd p with
      | true =>
        simp only [hp, if_true] at h
        injection h with h; subst h
        refine ⟨by omega, by omega, by simpa using hp, fun j h1 h2 => by omega⟩
      | false =>
        simp only [hp, Bool.false_eq_true, if_false] at h
        obtain ⟨a, b, c', d⟩ := ih (c + 1) (p + 1) (body s x) h
        refine ⟨by omega, by omega, c', fun j h1 h2 => ?_⟩
        by_cases hj : j = p
        · rw [hj]; exact hp
        · exact d j (by omega) h2
    · simp only [hc, if_false] at h ⊢
      obtain ⟨a, b, c', d⟩ := ih (c + 1) p (body s x) h
      exact ⟨a, by omega, c', d⟩

/-! ### 1b. Which iterations poll -/

/-- `pollLoop` instrumented with the list of the counter values (= iteration indices when the
counter starts from zero) at which a poll was issued. -/
def pollLoopTr : List α → Nat → Nat → σ → LoopRes σ × List Nat
  | [], _, polls, s => (.done s polls, [])
  | x :: xs, counter, polls, s =>
    if counter % every = 0 then
      if wd polls then (.stopped (polls + 1), [counter])
      else
        let r := pollLoopTr xs (counter + 1) (polls + 1) (body s x)
        (r.1, counter :: r.2)
    else pollLoopTr xs (counter + 1) polls (body s x)

/-- The instrumentation does not change the result. -/
theorem pollLoopTr_fst (xs : List α) (c p : Nat) (s : σ) :
    (pollLoopTr every wd body xs c p s).1 = pollLoop every wd body xs c p s := by
  induction xs generalizing c p s with
  | nil => simp [pollLoopTr, pollLoop]
  | cons x xs ih =>
    rw [pollLoopTr, pollLoop]
    by_cases hc : c % every = 0
    · simp only [hc, if_true]
      cases hp : wd p with
      | true => simp
      | false => simp [ih]
    · simp only [hc, if_false, ih]

/-- The number of polls issued is the length of the trace. -/
theorem pollLoopTr_polls (xs : List α) (c p : Nat) (s : σ) :
    (match (pollLoopTr every wd body xs c p s).1 with
      | .done _ q => q | .stopped q => q)
      = p + (pollLoopTr every wd body xs c p s).2.length := by
  induction xs generalizing c p s with
  | nil => simp [pollLoopTr]
  | cons x xs ih =>
    rw [pollLoopTr]
    by_cases hc : c % every = 0
    · simp only [hc, if_true]
      cases hp : wd p with
      | true => simp
      | false =>
        simp only [Bool.false_eq_true, if_false, List.length_cons]
        rw [ih]; omega
    · simp only [hc, if_false, ih]

/-- In a full run the polled iterations are exactly those with `counter % every = 0`. -/
theorem pollLoopTr_full_gen (xs : List α) (c p : Nat) (s : σ)
    (h : ∀ j, p ≤ j → j < p + pollCnt every c xs.length → wd j = false) :
    (pollLoopTr every wd body xs c p s).2
      = (List.range' c xs.length).filter (fun i => i % every = 0) := by
  induction xs generalizing c p s with
  | nil => simp [pollLoopTr]
  | cons x xs ih =>
    simp only [List.length_cons, pollCnt] at h
    rw [pollLoopTr, List.length_cons, List.range'_succ, List.filter_cons]
    by_cases hc : c % every = 0
    · simp only [hc, if_true] at h ⊢
      have hp : wd p = false := h p (Nat.le_refl _) (by omega)
      simp only [hp, Bool.false_eq_true, if_false, decide_true]
      rw [ih (c + 1) (p + 1) (body s x) (fun j h1 h2 => h j (by omega) (by omega))]
      simp
    · simp only [hc, if_false, decide_false] at h ⊢
      simp only [Bool.false_eq_true, if_false]
      exact ih (c + 1) p (body s x) (fun j h1 h2 => h j h1 (by omega))

/-- Whatever the watchdog answers, the polled iterations form an initial segment of the
iterations with `counter % every = 0`: no other iteration ever polls. -/
theorem pollLoopTr_prefix_gen (xs : List α) (c p : Nat) (s : σ) :
    (pollLoopTr every wd body xs c p s).2
      <+: (List.range' c xs.length).filter (fun i => i % every = 0) := by
  induction xs generalizing c p s with
  | nil => simp [pollLoopTr]
  | cons x xs ih =>
    rw [pollLoopTr, List.length_cons, List.range'_succ, List.filter_cons]
    by_cases hc : c % every = 0
    · simp only [hc, if_true, decide_true]
      cases hp : wd p with
      | true =>
        simp only [if_true]
        exact List.cons_prefix_cons.2 ⟨rfl, List.nil_prefix⟩
      | false =>
        simp only [Bool.false_eq_true, if_false]
        exact List.cons_prefix_cons.2 ⟨rfl, ih _ _ _⟩
    · simp only [hc, if_false, decide_false, Bool.false_eq_true]
      exact ih _ _ _

/-- 1b. In a full run from counter 0 the iterations that poll are exactly `polledIdx every n`:
iteration `i` polls iff `i % every = 0`. -/
theorem pollLoop_polled_iterations (xs : List α) (p : Nat) (s : σ)
    (h : ∀ j, p ≤ j → j < p + pollCnt every 0 xs.length → wd j = false) :
    (pollLoopTr every wd body xs 0 p s).2 = polledIdx every xs.length := by
  rw [pollLoopTr_full_gen every wd body xs 0 p s h, polledIdx, List.range_eq_range']

/-- 1b, any watchdog: the iterations that poll are an initial segment of `polledIdx every n`. -/
theorem pollLoop_polled_iterations_prefix (xs : List α) (p : Nat) (s : σ) :
    (pollLoopTr every wd body xs 0 p s).2 <+: polledIdx every xs.length := by
  rw [polledIdx, List.range_eq_range']
  exact pollLoopTr_prefix_gen every wd body xs 0 p s

theorem mem_polledIdx (n i : Nat) : i ∈ polledIdx every n ↔ i < n ∧ i % every = 0 := by
  simp [polledIdx]

end Loop

/-- 1c without `p ≤ k` is false: the poll `k = 0` is not a poll of a loop that starts at `p = 1`. -/
theorem pollLoop_stop_now_needs_le :
    let wd : Nat → Bool := fun k => k == 0
    (∀ j, 1 ≤ j → j < 0 → wd j = false) ∧ wd 0 = true ∧ 0 < 1 + pollCnt 1 0 [()].length ∧
      pollLoop 1 wd (fun (u : Unit) (_ : Unit) => u) [()] 0 1 () = .done () 2 := by
  refine ⟨fun j _ h => by omega, rfl, by decide, rfl⟩

/-! ## 2. The whole analysis -/

section Pipeline
variable (every : Nat) (wd : Nat → Bool)

/-- The fold `vmLoop` runs in one iteration: the copy loops of the executed opcode. -/
abbrev runIter (it : VMIter) (st : VMState) : VMState :=
  it.foldl (fun s len => copyLoop every wd len s) st

/-- Polls issued by the copy loops of one iteration in an unstopped run. -/
def iterPolls (it : VMIter) : Nat := (it.map (pollCnt every 0)).sum

/-- Polls issued by an unstopped VM run over the schedule, main-loop counter starting at `c`. -/
def vmPolls : List VMIter → Nat → Nat
  | [], _ => 0
  | it :: rest, c => (if c % every = 0 then 1 else 0) + iterPolls every it + vmPolls rest (c + 1)

/-- Polls issued by the unstopped phases. -/
def phasePolls (tc : List Nat) : Nat := (tc.map (pollCnt every 0)).sum

/-- The closed form `N`: main loop `⌈vm.length / every⌉`, plus `⌈len / every⌉` for every copy
loop, plus `⌈n / every⌉` for every phase. -/
def totalPolls (vm : List VMIter) (tc : List Nat) : Nat :=
  cdiv vm.length every + (vm.flatten.map (fun len => cdiv len every)).sum
    + (tc.map (fun n => cdiv n every)).sum

/-- Number of non-empty copy loops in a list of copy-loop lengths. -/
def nonempties (l : List Nat) : Nat := l.countP (fun len => len != 0)

theorem vmPolls_eq (vm : List VMIter) (c : Nat) :
    vmPolls every vm c = pollCnt every c vm.length + (vm.flatten.map (pollCnt every 0)).sum := by
  induction vm generalizing c with
  | nil => simp [vmPolls, pollCnt]
  | cons it rest ih =>
    simp only [vmPolls, ih, List.length_cons, pollCnt, List.flatten_cons, List.map_append,
      List.sum_append, iterPolls]
    omega

private theorem map_pollCnt_eq {every : Nat} (hev : 0 < every) (l : List Nat) :
    l.map (pollCnt every 0) = l.map (fun n => cdiv n every) :=
  List.map_congr_left (fun n _ => poll_count hev n)

/-- The recursive count agrees with the closed form. -/
theorem vmPolls_add_phasePolls {every : Nat} (hev : 0 < every) (vm : List VMIter)
    (tc : List Nat) : vmPolls every vm 0 + phasePolls every tc = totalPolls every vm tc := by
  rw [vmPolls_eq, phasePolls, totalPolls, map_pollCnt_eq hev, map_pollCnt_eq hev, poll_count hev]
  rfl

/-! ### unstopped runs -/

theorem copyLoop_transparent_range (len : Nat) (st : VMState)
    (h : ∀ j, st.polls ≤ j → j < st.polls + pollCnt every 0 len → wd j = false) :
    copyLoop every wd len st = { st with polls := st.polls + pollCnt every 0 len } := by
  unfold copyLoop
  rw [pollLoop_transparent_range every wd _ _ 0 st.polls () (by simpa using h)]
  simp

theorem runIter_transparent_range (it : VMIter) (st : VMState)
    (h : ∀ j, st.polls ≤ j → j < st.polls + iterPolls every it → wd j = false) :
    runIter every wd it st = { st with polls := st.polls + iterPolls every it } := by
  induction it generalizing st with
  | nil => simp [runIter, iterPolls]
  | cons len rest ih =>
    simp only [iterPolls, List.map_cons, List.sum_cons] at h
    simp only [runIter, List.foldl_cons, iterPolls, List.map_cons, List.sum_cons]
    rw [copyLoop_transparent_range every wd len st (fun j h1 h2 => h j h1 (by omega))]
    have := ih { st with polls := st.polls + pollCnt every 0 len }
      (fun j h1 h2 => h j (by simp at h1; omega) (by simp [iterPolls] at h2; omega))
    simp only [runIter, iterPolls] at this
    rw [this]
    simp only [Nat.add_assoc]

/-- A transparent prefix of the schedule only advances counter and poll count. -/
theorem vmLoop_append_transparent (pre rest : List VMIter) (c : Nat) (st : VMState)
    (h : ∀ j, st.polls ≤ j → j < st.polls + vmPolls every pre c → wd j = false) :
    vmLoop every wd (pre ++ rest) c st
      = vmLoop every wd rest (c + pre.length)
          { st with polls := st.polls + vmPolls every pre c } := by
  induction pre generalizing c st with
  | nil => simp [vmPolls]
  | cons it pre ih =>
    simp only [vmPolls] at h
    simp only [List.cons_append, List.length_cons, vmPolls]
    rw [vmLoop]
    by_cases hc : c % every = 0
    · simp only [hc, if_true] at h ⊢
      have hp : wd st.polls = false := h _ (Nat.le_refl _) (by omega)
      simp only [hp, Bool.false_eq_true, if_false]
      have hrun := runIter_transparent_range every wd it { st with polls := st.polls + 1 }
        (fun j h1 h2 => h j (by simp at h1; omega) (by simp at h2; omega))
      simp only [runIter] at hrun
      rw [hrun, ih (c + 1) _ (fun j h1 h2 => h j (by simp at h1; omega) (by simp at h2; omega))]
      congr 1
      · omega
      · simp only [VMState.mk.injEq, and_true]; omega
    · simp only [hc, if_false] at h ⊢
      have hrun := runIter_transparent_range every wd it st
        (fun j h1 h2 => h j h1 (by omega))
      simp only [runIter] at hrun
      rw [hrun, ih (c + 1) _ (fun j h1 h2 => h j (by simp at h1; omega) (by simp at h2; omega))]
      congr 1
      · omega
      · simp only [VMState.mk.injEq, and_true]; omega

theorem vmLoop_transparent_range (vm : List VMIter) (c : Nat) (st : VMState)
    (h : ∀ j, st.polls ≤ j → j < st.polls + vmPolls every vm c → wd j = false) :
    vmLoop every wd vm c st
      = if st.stopRecorded then .failedWithStop (st.polls + vmPolls every vm c)
        else .finished (st.polls + vmPolls every vm c) := by
  have := vmLoop_append_transparent every wd vm [] c st h
  rw [List.append_nil] at this
  rw [this, vmLoop]

theorem phases_transparent_range (tc : List Nat) (p : Nat)
    (h : ∀ j, p ≤ j → j < p + phasePolls every tc → wd j = false) :
    phases every wd tc p = .finished (p + phasePolls every tc) := by
  induction tc generalizing p with
  | nil => simp [phases, phasePolls]
  | cons n rest ih =>
    simp only [phasePolls, List.map_cons, List.sum_cons] at h ⊢
    rw [phases, pollLoop_transparent_range every wd _ _ 0 p ()
      (by simpa using fun j h1 h2 => h j h1 (by omega))]
    simp only [List.length_replicate]
    rw [ih _ (fun j h1 h2 => h j (by omega) (by simp only [phasePolls] at h2; omega))]
    simp only [phasePolls, Nat.add_assoc]

/-- 2d (recursive count). -/
theorem pipeline_beyond_end_rec (vm : List VMIter) (tc : List Nat)
    (h : ∀ k, k < vmPolls every vm 0 + phasePolls every tc → wd k = false) :
    pipeline every wd vm tc = .finished (vmPolls every vm 0 + phasePolls every tc) := by
  unfold pipeline
  rw [vmLoop_transparent_range every wd vm 0 _ (fun j _ h2 => h j (by simp at h2; omega))]
  simp only [Bool.false_eq_true, if_false, Nat.zero_add]
  exact phases_transparent_range every wd tc _ (fun j _ h2 => h j h2)

/-! ### what a `.finished` outcome implies -/

theorem copyLoop_inv (len : Nat) (st : VMState)
    (h : (copyLoop every wd len st).stopRecorded = false) :
    st.stopRecorded = false
      ∧ (copyLoop every wd len st).polls = st.polls + pollCnt every 0 len
      ∧ ∀ j, st.polls ≤ j → j < st.polls + pollCnt every 0 len → wd j = false := by
  unfold copyLoop at h ⊢
  cases hl : pollLoop every wd (fun (u : Unit) (_ : Unit) => u) (List.replicate len ()) 0
      st.polls () with
  | done s' p' =>
    rw [hl] at h
    obtain ⟨_, h2, h3⟩ := pollLoop_done_inv every wd _ _ _ _ _ _ _ hl
    simp only [List.length_replicate] at h2
    subst h2
    exact ⟨h, rfl, h3⟩
  | stopped q => rw [hl] at h; simp at h

theorem runIter_inv (it : VMIter) (st : VMState)
    (h : (runIter every wd it st).stopRecorded = false) :
    st.stopRecorded = false
      ∧ (runIter every wd it st).polls = st.polls + iterPolls every it
      ∧ ∀ j, st.polls ≤ j → j < st.polls + iterPolls every it → wd j = false := by
  induction it generalizing st with
  | nil => simp [runIter, iterPolls] at h ⊢; exact ⟨h, fun j h1 h2 => by omega⟩
  | cons len rest ih =>
    simp only [runIter, List.foldl_cons] at h ⊢
    obtain ⟨a1, a2, a3⟩ := ih _ h
    obtain ⟨b1, b2, b3⟩ := copyLoop_inv every wd len st a1
    simp only [runIter] at a2
    simp only [iterPolls, List.map_cons, List.sum_cons] at a2 a3 ⊢
    refine ⟨b1, by rw [a2, b2]; omega, fun j h1 h2 => ?_⟩
    by_cases hj : j < st.polls + pollCnt every 0 len
    · exact b3 j h1 hj
    · exact a3 j (by rw [b2]; omega) (by rw [b2]; omega)

/-- Monotonicity of the poll counter and persistence of a recorded stop. -/
theorem copyLoop_stopRecorded_mono (len : Nat) (st : VMState) (h : st.stopRecorded = true) :
    (copyLoop every wd len st).stopRecorded = true := by
  cases hc : (copyLoop every wd len st).stopRecorded with
  | true => rfl
  | false => have := (copyLoop_inv every wd len st hc).1; rw [h] at this; cases this

/-- The `vmLoop` invariant: a `.finished` outcome means no stop was recorded on entry, every poll
issued was answered `false`, and the poll count is that of the unstopped run. -/
theorem vmLoop_finished_inv (vm : List VMIter) (c : Nat) (st : VMState) (P : Nat)
    (h : vmLoop every wd vm c st = .finished P) :
    st.stopRecorded = false ∧ P = st.polls + vmPolls every vm c
      ∧ ∀ j, st.polls ≤ j → j < P → wd j = false := by
  induction vm generalizing c st with
  | nil =>
    rw [vmLoop] at h
    cases hs : st.stopRecorded with
    | true => simp [hs] at h
    | false =>
      simp only [hs, Bool.false_eq_true, if_false, Outcome.finished.injEq] at h
      subst h
      exact ⟨rfl, by simp [vmPolls], fun j h1 h2 => by omega⟩
  | cons it rest ih =>
    rw [vmLoop] at h
    simp only [vmPolls]
    by_cases hc : c % every = 0
    · simp only [hc, if_true] at h ⊢
      cases hp : wd st.polls with
      | true => simp [hp] at h
      | false =>
        simp only [hp, Bool.false_eq_true, if_false] at h
        obtain ⟨a1, a2, a3⟩ := ih _ _ h
        obtain ⟨b1, b2, b3⟩ := runIter_inv every wd it _ a1
        simp only [runIter] at b2
        simp only at b1 b3
        rw [b2] at a2 a3
        refine ⟨b1, by omega, fun j h1 h2 => ?_⟩
        by_cases hj : j = st.polls
        · rw [hj]; exact hp
        · by_cases hj2 : j < st.polls + 1 + iterPolls every it
          · exact b3 j (by omega) hj2
          · exact a3 j (by omega) h2
    · simp only [hc, if_false] at h ⊢
      obtain ⟨a1, a2, a3⟩ := ih _ _ h
      obtain ⟨b1, b2, b3⟩ := runIter_inv every wd it _ a1
      simp only [runIter] at b2
      rw [b2] at a2 a3
      refine ⟨b1, by omega, fun j h1 h2 => ?_⟩
      by_cases hj2 : j < st.polls + iterPolls every it
      · exact b3 j h1 hj2
      · exact a3 j (by omega) h2

/-- `phases` returns `.finished` or `.stopped`, never `.failedWithStop`. -/
theorem phases_finished_inv (tc : List Nat) (p P : Nat)
    (h : phases every wd tc p = .finished P) :
    P = p + phasePolls every tc ∧ ∀ j, p ≤ j → j < P → wd j = false := by
  induction tc generalizing p with
  | nil =>
    simp only [phases, Outcome.finished.injEq] at h
    subst h
    exact ⟨by simp [phasePolls], fun j h1 h2 => by omega⟩
  | cons n rest ih =>
    rw [phases] at h
    cases hl : pollLoop every wd (fun (u : Unit) (_ : Unit) => u) (List.replicate n ()) 0 p ()
      with
    | done s' p' =>
      rw [hl] at h
      simp only at h
      obtain ⟨_, h2, h3⟩ := pollLoop_done_inv every wd _ _ _ _ _ _ _ hl
      simp only [List.length_replicate] at h2
      obtain ⟨a1, a2⟩ := ih _ h
      simp only [phasePolls, List.map_cons, List.sum_cons] at a1 ⊢
      refine ⟨by omega, fun j h1 h2 => ?_⟩
      by_cases hj : j < p'
      · exact h3 j h1 hj
      · exact a2 j (by omega) h2
    | stopped q => rw [hl] at h; simp at h

private theorem pipeline_cases (vm : List VMIter) (tc : List Nat) :
    (∃ p, vmLoop every wd vm 0 { polls := 0, stopRecorded := false } = .finished p
        ∧ pipeline every wd vm tc = phases every wd tc p)
      ∨ ((∀ p, vmLoop every wd vm 0 { polls := 0, stopRecorded := false } ≠ .finished p)
        ∧ pipeline every wd vm tc
            = vmLoop every wd vm 0 { polls := 0, stopRecorded := false }) := by
  unfold pipeline
  cases h : vmLoop every wd vm 0 { polls := 0, stopRecorded := false } with
  | finished p => exact Or.inl ⟨p, rfl, rfl⟩
  | stopped p => exact Or.inr ⟨fun _ h => (by cases h), rfl⟩
  | failedWithStop p => exact Or.inr ⟨fun _ h => (by cases h), rfl⟩

/-- The analysis ends with a layout iff every one of the `N` polls of the unstopped run is
answered `false`; the poll count is then `N`. No hypothesis on `wd` or `every`. -/
theorem pipeline_finished_iff (vm : List VMIter) (tc : List Nat) (P : Nat) :
    pipeline every wd vm tc = .finished P
      ↔ P = vmPolls every vm 0 + phasePolls every tc ∧ ∀ k, k < P → wd k = false := by
  constructor
  · intro h
    rcases pipeline_cases every wd vm tc with ⟨p, h1, h2⟩ | ⟨h1, h2⟩
    · rw [h2] at h
      obtain ⟨_, a2, a3⟩ := vmLoop_finished_inv every wd vm 0 _ p h1
      obtain ⟨b1, b2⟩ := phases_finished_inv every wd tc p P h
      simp only [Nat.zero_add] at a2
      subst a2
      refine ⟨b1, fun k hk => ?_⟩
      by_cases hk2 : k < vmPolls every vm 0
      · exact a3 k (Nat.zero_le _) hk2
      · exact b2 k (by omega) hk
    · rw [h2] at h; exact absurd h (h1 P)
  · rintro ⟨rfl, h⟩
    exact pipeline_beyond_end_rec every wd vm tc h

theorem isLayout_iff (o : Outcome) : o.isLayout = true ↔ ∃ P, o = .finished P := by
  cases o <;> simp [Outcome.isLayout]

/-- 2b, strong form: if any poll that was actually issued was answered `true`, no layout is
returned. Monotonicity of the watchdog is not needed. -/
theorem pipeline_never_layout' (vm : List VMIter) (tc : List Nat)
    (h : ∃ k, k < (pipeline every wd vm tc).polls ∧ wd k = true) :
    (pipeline every wd vm tc).isLayout = false := by
  cases hl : (pipeline every wd vm tc).isLayout with
  | false => rfl
  | true =>
    obtain ⟨P, hP⟩ := (isLayout_iff _).1 hl
    obtain ⟨k, hk, hwd⟩ := h
    rw [hP] at hk
    have := ((pipeline_finished_iff every wd vm tc P).1 hP).2 k hk
    rw [this] at hwd; cases hwd

/-- 2b as requested. -/
theorem pipeline_never_layout (_hev : 0 < every) (vm : List VMIter) (tc : List Nat)
    (_hmono : ∀ j k, j ≤ k → wd j = true → wd k = true)
    (h : ∃ k, k < (pipeline every wd vm tc).polls ∧ wd k = true) :
    (pipeline every wd vm tc).isLayout = false :=
  pipeline_never_layout' every wd vm tc h

/-- 2d. A watchdog that would fire only after the last poll changes nothing. -/
theorem pipeline_beyond_end (hev : 0 < every) (vm : List VMIter) (tc : List Nat)
    (h : ∀ k, k < totalPolls every vm tc → wd k = false) :
    pipeline every wd vm tc = .finished (totalPolls every vm tc) := by
  rw [← vmPolls_add_phasePolls hev] at h ⊢
  exact pipeline_beyond_end_rec every wd vm tc h

/-- 2a. A never-stopping watchdog is transparent; `N = totalPolls every vm tc`. -/
theorem pipeline_transparent (hev : 0 < every) (vm : List VMIter) (tc : List Nat)
    (h : ∀ k, wd k = false) :
    pipeline every wd vm tc = .finished (totalPolls every vm tc) :=
  pipeline_beyond_end every wd hev vm tc (fun k _ => h k)

/-! ### 2c. Where a stop surfaces -/

theorem vmPolls_closed {every : Nat} (hev : 0 < every) (vm : List VMIter) :
    vmPolls every vm 0
      = cdiv vm.length every + (vm.flatten.map (fun len => cdiv len every)).sum := by
  rw [vmPolls_eq, map_pollCnt_eq hev, poll_count hev]; rfl

theorem phasePolls_closed {every : Nat} (hev : 0 < every) (tc : List Nat) :
    phasePolls every tc = (tc.map (fun n => cdiv n every)).sum := by
  rw [phasePolls, map_pollCnt_eq hev]

theorem phases_stop (tc : List Nat) (p k : Nat) (hpk : p ≤ k)
    (hf : ∀ j, p ≤ j → j < k → wd j = false) (ht : wd k = true)
    (hk : k < p + phasePolls every tc) :
    phases every wd tc p = .stopped (k + 1) := by
  induction tc generalizing p with
  | nil => simp [phasePolls] at hk; omega
  | cons n rest ih =>
    simp only [phasePolls, List.map_cons, List.sum_cons] at hk
    rw [phases]
    by_cases hkn : k < p + pollCnt every 0 n
    · rw [pollLoop_stop_now_gen every wd _ _ 0 p () k hpk hf ht (by simpa using hkn)]
    · rw [pollLoop_transparent_range every wd _ _ 0 p ()
        (by simpa using fun j h1 h2 => hf j h1 (by omega))]
      simp only [List.length_replicate]
      exact ih _ (by omega) (fun j h1 h2 => hf j (by omega) h2)
        (by simp only [phasePolls]; omega)

/-- A stop at a main-loop poll is returned at once. -/
theorem vmLoop_stop_at_main (pre : List VMIter) (it : VMIter) (post : List VMIter) (c : Nat)
    (st : VMState) (hc : (c + pre.length) % every = 0)
    (hf : ∀ j, st.polls ≤ j → j < st.polls + vmPolls every pre c → wd j = false)
    (ht : wd (st.polls + vmPolls every pre c) = true) :
    vmLoop every wd (pre ++ it :: post) c st = .stopped (st.polls + vmPolls every pre c + 1) := by
  rw [vmLoop_append_transparent every wd pre _ c st hf, vmLoop]
  simp [hc, ht]

/-- 2c (main loop): the first `true` answer goes to the main-loop poll of iteration `pre.length`
(poll number `vmPolls every pre 0`): the outcome is `.stopped (k + 1)`, zero further polls. -/
theorem pipeline_stop_at_main (pre : List VMIter) (it : VMIter) (post : List VMIter)
    (tc : List Nat) (k : Nat) (hc : pre.length % every = 0) (hk : k = vmPolls every pre 0)
    (hf : ∀ j, j < k → wd j = false) (ht : wd k = true) :
    pipeline every wd (pre ++ it :: post) tc = .stopped (k + 1) := by
  subst hk
  have h := vmLoop_stop_at_main every wd pre it post 0 { polls := 0, stopRecorded := false }
    (by simpa using hc) (fun j _ h2 => hf j (by simpa using h2)) (by simpa using ht)
  unfold pipeline
  rw [h]; simp

/-- 2c (phases): the first `true` answer goes to a poll issued by a phase loop (any poll number in
`[vmPolls, vmPolls + phasePolls)`): the outcome is `.stopped (k + 1)`, zero further polls. -/
theorem pipeline_stop_at_phase (vm : List VMIter) (tc : List Nat) (k : Nat)
    (hk1 : vmPolls every vm 0 ≤ k) (hk2 : k < vmPolls every vm 0 + phasePolls every tc)
    (hf : ∀ j, j < k → wd j = false) (ht : wd k = true) :
    pipeline every wd vm tc = .stopped (k + 1) := by
  unfold pipeline
  rw [vmLoop_transparent_range every wd vm 0 _ (fun j _ h2 => hf j (by simp at h2; omega))]
  simp only [Bool.false_eq_true, if_false, Nat.zero_add]
  exact phases_stop every wd tc _ k hk1 (fun j _ h2 => hf j h2) ht hk2

/-- 2c. If the first `true` answer is given to a poll issued by the VM main loop or by a phase
loop, the outcome is `.stopped (k + 1)`. -/
theorem pipeline_stop_at_main_is_immediate (vm : List VMIter) (tc : List Nat) (k : Nat)
    (hf : ∀ j, j < k → wd j = false) (ht : wd k = true)
    (hkind : (∃ pre it post, vm = pre ++ it :: post ∧ pre.length % every = 0
                ∧ k = vmPolls every pre 0)
              ∨ (vmPolls every vm 0 ≤ k ∧ k < vmPolls every vm 0 + phasePolls every tc)) :
    pipeline every wd vm tc = .stopped (k + 1) := by
  rcases hkind with ⟨pre, it, post, rfl, hc, hk⟩ | ⟨hk1, hk2⟩
  · exact pipeline_stop_at_main every wd pre it post tc k hc hk hf ht
  · exact pipeline_stop_at_phase every wd vm tc k hk1 hk2 hf ht

/-! #### after a stop recorded by a copy loop -/

/-- What `vmLoop` does once a stop is recorded and the watchdog keeps saying stop: every non-empty
copy loop issues exactly one poll, the next main-loop poll returns `.stopped`, and running out of
schedule returns `.failedWithStop`. -/
def afterStop : List VMIter → Nat → Nat → Outcome
  | [], _, p => .failedWithStop p
  | it :: rest, c, p =>
    if c % every = 0 then .stopped (p + 1) else afterStop rest (c + 1) (p + nonempties it)

theorem nonempties_cons (len : Nat) (l : List Nat) :
    nonempties (len :: l) = (if len = 0 then 0 else 1) + nonempties l := by
  unfold nonempties
  rw [List.countP_cons]
  by_cases h : len = 0 <;> simp [h]; omega

theorem nonempties_append (l₁ l₂ : List Nat) :
    nonempties (l₁ ++ l₂) = nonempties l₁ + nonempties l₂ := List.countP_append

theorem nonempties_le_sum (l : List Nat) : nonempties l ≤ l.sum := by
  induction l with
  | nil => simp [nonempties]
  | cons a l ih => rw [nonempties_cons, List.sum_cons]; split <;> omega

theorem copyLoop_after_stop (len : Nat) (st : VMState) (hw : wd st.polls = true)
    (hs : st.stopRecorded = true) :
    copyLoop every wd len st
      = { polls := st.polls + (if len = 0 then 0 else 1), stopRecorded := true } := by
  cases len with
  | zero => cases st; simp_all [copyLoop, pollLoop]
  | succ n => simp [copyLoop, List.replicate_succ, pollLoop, hw]

theorem runIter_after_stop (it : VMIter) (st : VMState) (hw : ∀ j, st.polls ≤ j → wd j = true)
    (hs : st.stopRecorded = true) :
    runIter every wd it st = { polls := st.polls + nonempties it, stopRecorded := true } := by
  induction it generalizing st with
  | nil => cases st; simp_all [runIter, nonempties]
  | cons len rest ih =>
    simp only [runIter, List.foldl_cons]
    rw [copyLoop_after_stop every wd len st (hw _ (Nat.le_refl _)) hs]
    have := ih { polls := st.polls + (if len = 0 then 0 else 1), stopRecorded := true }
      (fun j h => hw j (by simp only at h; omega)) rfl
    simp only [runIter] at this
    rw [this, nonempties_cons, Nat.add_assoc]

theorem vmLoop_after_stop (vm : List VMIter) (c : Nat) (st : VMState)
    (hw : ∀ j, st.polls ≤ j → wd j = true) (hs : st.stopRecorded = true) :
    vmLoop every wd vm c st = afterStop every vm c st.polls := by
  induction vm generalizing c st with
  | nil => simp [vmLoop, afterStop, hs]
  | cons it rest ih =>
    rw [vmLoop, afterStop]
    by_cases hc : c % every = 0
    · simp [hc, hw st.polls (Nat.le_refl _)]
    · simp only [hc, if_false]
      have hrun := runIter_after_stop every wd it st hw hs
      simp only [runIter] at hrun
      rw [hrun, ih (c + 1) _ (fun j h => hw j (by simp only at h; omega)) rfl]

theorem afterStop_not_finished (vm : List VMIter) (c p : Nat) :
    ∃ q, p ≤ q ∧ (afterStop every vm c p = .stopped q ∨ afterStop every vm c p = .failedWithStop q) := by
  induction vm generalizing c p with
  | nil => exact ⟨p, Nat.le_refl _, Or.inr rfl⟩
  | cons it rest ih =>
    rw [afterStop]
    by_cases hc : c % every = 0
    · simp only [hc, if_true]; exact ⟨p + 1, by omega, Or.inl rfl⟩
    · simp only [hc, if_false]
      obtain ⟨q, h1, h2⟩ := ih (c + 1) (p + nonempties it)
      exact ⟨q, by omega, h2⟩

/-- The stop surfaces at the next main-loop poll: if that poll is `d` iterations away, the polls
issued meanwhile are one per non-empty copy loop in those `d` iterations, plus the main poll. -/
theorem afterStop_polls_le (vm : List VMIter) (c p d : Nat) (hd : (c + d) % every = 0) :
    (afterStop every vm c p).polls ≤ p + nonempties (vm.take d).flatten + 1 := by
  induction vm generalizing c p d with
  | nil => simp only [afterStop, Outcome.polls]; omega
  | cons it rest ih =>
    rw [afterStop]
    by_cases hc : c % every = 0
    · simp only [hc, if_true, Outcome.polls]; omega
    · simp only [hc, if_false]
      cases d with
      | zero => exact absurd hd hc
      | succ d =>
        have := ih (c + 1) (p + nonempties it) d (by rw [← hd]; congr 1; omega)
        rw [List.take_succ_cons, List.flatten_cons, nonempties_append]
        omega

/-- Crude bound: one poll per non-empty copy loop of the remaining schedule, plus one. -/
theorem afterStop_polls_le_total (vm : List VMIter) (c p : Nat) :
    (afterStop every vm c p).polls ≤ p + nonempties vm.flatten + 1 := by
  induction vm generalizing c p with
  | nil => simp only [afterStop, Outcome.polls]; omega
  | cons it rest ih =>
    rw [afterStop]
    by_cases hc : c % every = 0
    · simp only [hc, if_true, Outcome.polls]; omega
    · simp only [hc, if_false]
      have := ih (c + 1) (p + nonempties it)
      rw [List.flatten_cons, nonempties_append]
      omega

/-- The next main-loop poll is fewer than `every` iterations away. -/
theorem exists_next_poll {every : Nat} (hev : 0 < every) (c : Nat) :
    ∃ d, d < every ∧ (c + d) % every = 0 := by
  have h := Nat.div_add_mod c every
  have hr := Nat.mod_lt c hev
  by_cases hr0 : c % every = 0
  · exact ⟨0, hev, hr0⟩
  · refine ⟨every - c % every, by omega, ?_⟩
    have : c + (every - c % every) = every * (c / every + 1) := by
      rw [Nat.mul_succ]; omega
    rw [this, Nat.mul_mod_right]

/-- One VM iteration in which copy loop `len` (after the copy loops `itPre`) receives the first
`true` answer, at poll `k`. -/
theorem runIter_stop_at_copy (itPre : VMIter) (len : Nat) (itPost : VMIter) (st : VMState)
    (k : Nat) (hk1 : st.polls + iterPolls every itPre ≤ k)
    (hk2 : k < st.polls + iterPolls every itPre + pollCnt every 0 len)
    (hf : ∀ j, st.polls ≤ j → j < k → wd j = false) (hw : ∀ j, k ≤ j → wd j = true) :
    runIter every wd (itPre ++ len :: itPost) st
      = { polls := k + 1 + nonempties itPost, stopRecorded := true } := by
  have h1 := runIter_transparent_range every wd itPre st (fun j a b => hf j a (by omega))
  have h3 := runIter_after_stop every wd itPost { polls := k + 1, stopRecorded := true }
    (fun j h => hw j (by simp only at h; omega)) rfl
  simp only [runIter] at h1 h3 ⊢
  rw [List.foldl_append, List.foldl_cons, h1]
  have h2 : copyLoop every wd len { st with polls := st.polls + iterPolls every itPre }
      = { polls := k + 1, stopRecorded := true } := by
    unfold copyLoop
    rw [pollLoop_stop_now_gen every wd _ _ 0 _ () k hk1
      (fun j a b => hf j (by omega) b) (hw k (Nat.le_refl _))
      (by simpa using hk2)]
  rw [h2, h3]

/-- The VM main loop when the first `true` answer goes to a copy-loop poll: copy loop `len` of
iteration `pre.length`, preceded in that iteration by the copy loops `itPre`. -/
theorem vmLoop_stop_at_copy (pre : List VMIter) (itPre : VMIter) (len : Nat) (itPost : VMIter)
    (post : List VMIter) (c : Nat) (st : VMState) (k : Nat)
    (hk1 : st.polls + vmPolls every pre c + (if (c + pre.length) % every = 0 then 1 else 0)
            + iterPolls every itPre ≤ k)
    (hk2 : k < st.polls + vmPolls every pre c + (if (c + pre.length) % every = 0 then 1 else 0)
            + iterPolls every itPre + pollCnt every 0 len)
    (hf : ∀ j, st.polls ≤ j → j < k → wd j = false) (hw : ∀ j, k ≤ j → wd j = true) :
    vmLoop every wd (pre ++ (itPre ++ len :: itPost) :: post) c st
      = afterStop every post (c + pre.length + 1) (k + 1 + nonempties itPost) := by
  rw [vmLoop_append_transparent every wd pre _ c st (fun j a b => hf j a (by omega)), vmLoop]
  by_cases hc : (c + pre.length) % every = 0
  · simp only [hc, if_true] at hk1 hk2 ⊢
    have hp : wd (st.polls + vmPolls every pre c) = false := hf _ (by omega) (by omega)
    simp only [hp, Bool.false_eq_true, if_false]
    have hrun := runIter_stop_at_copy every wd itPre len itPost
      { polls := st.polls + vmPolls every pre c + 1, stopRecorded := st.stopRecorded } k
      (by simp only; omega) (by simp only; omega)
      (fun j a b => hf j (by simp only at a; omega) b) hw
    simp only [runIter] at hrun
    rw [hrun]
    exact vmLoop_after_stop every wd post _ _ (fun j h => hw j (by simp only at h; omega)) rfl
  · simp only [hc, if_false] at hk1 hk2 ⊢
    have hrun := runIter_stop_at_copy every wd itPre len itPost
      { polls := st.polls + vmPolls every pre c, stopRecorded := st.stopRecorded } k
      (by simp only; omega) (by simp only; omega)
      (fun j a b => hf j (by simp only at a; omega) b) hw
    simp only [runIter] at hrun
    rw [hrun]
    exact vmLoop_after_stop every wd post _ _ (fun j h => hw j (by simp only at h; omega)) rfl

/-- 2c (copy loop), exact form. The first `true` answer (monotone watchdog) goes to poll `k`,
issued by copy loop `len` of iteration `pre.length` (after that iteration's copy loops `itPre`).
The outcome is exactly `afterStop`: never a layout, never silently dropped. -/
theorem pipeline_stop_at_copy_exact (pre : List VMIter) (itPre : VMIter) (len : Nat)
    (itPost : VMIter) (post : List VMIter) (tc : List Nat) (k : Nat)
    (hmono : ∀ j k, j ≤ k → wd j = true → wd k = true)
    (hk1 : vmPolls every pre 0 + (if pre.length % every = 0 then 1 else 0)
            + iterPolls every itPre ≤ k)
    (hk2 : k < vmPolls every pre 0 + (if pre.length % every = 0 then 1 else 0)
            + iterPolls every itPre + pollCnt every 0 len)
    (hf : ∀ j, j < k → wd j = false) (ht : wd k = true) :
    pipeline every wd (pre ++ (itPre ++ len :: itPost) :: post) tc
      = afterStop every post (pre.length + 1) (k + 1 + nonempties itPost) := by
  have h := vmLoop_stop_at_copy every wd pre itPre len itPost post 0
    { polls := 0, stopRecorded := false } k (by simpa using hk1) (by simpa using hk2)
    (fun j _ b => hf j b) (fun j hj => hmono k j hj ht)
  simp only [Nat.zero_add] at h
  rcases pipeline_cases every wd (pre ++ (itPre ++ len :: itPost) :: post) tc with
    ⟨p, h1, _⟩ | ⟨_, h2⟩
  · rw [h] at h1
    obtain ⟨q, _, hq | hq⟩ := afterStop_not_finished every post (pre.length + 1)
      (k + 1 + nonempties itPost) <;> rw [hq] at h1 <;> cases h1
  · rw [h2, h]

/-- 2c (copy loop), bounded. Same situation: the outcome is `.stopped p` or `.failedWithStop p`
with `k + 1 ≤ p`, and the polls issued after the stop are at most
* one per non-empty copy loop in the rest of the current iteration and in the `d < every`
  iterations before the next main-loop poll, plus that main-loop poll; and (crudely)
* the total number of copy-loop iterations in the remaining schedule, plus one. -/
theorem pipeline_stop_at_copy_bounded (hev : 0 < every) (pre : List VMIter) (itPre : VMIter)
    (len : Nat) (itPost : VMIter) (post : List VMIter) (tc : List Nat) (k : Nat)
    (hmono : ∀ j k, j ≤ k → wd j = true → wd k = true)
    (hk1 : vmPolls every pre 0 + (if pre.length % every = 0 then 1 else 0)
            + iterPolls every itPre ≤ k)
    (hk2 : k < vmPolls every pre 0 + (if pre.length % every = 0 then 1 else 0)
            + iterPolls every itPre + pollCnt every 0 len)
    (hf : ∀ j, j < k → wd j = false) (ht : wd k = true) :
    ∃ p d, (pipeline every wd (pre ++ (itPre ++ len :: itPost) :: post) tc = .stopped p
          ∨ pipeline every wd (pre ++ (itPre ++ len :: itPost) :: post) tc = .failedWithStop p)
      ∧ k + 1 ≤ p
      ∧ d < every ∧ (pre.length + 1 + d) % every = 0
      ∧ p - (k + 1) ≤ nonempties (itPost ++ (post.take d).flatten) + 1
      ∧ p - (k + 1) ≤ (itPost ++ post.flatten).sum + 1 := by
  have hex := pipeline_stop_at_copy_exact every wd pre itPre len itPost post tc k hmono hk1 hk2
    hf ht
  obtain ⟨d, hd1, hd2⟩ := exists_next_poll hev (pre.length + 1)
  have hb1 := afterStop_polls_le every post (pre.length + 1) (k + 1 + nonempties itPost) d hd2
  have hb2 := afterStop_polls_le_total every post (pre.length + 1) (k + 1 + nonempties itPost)
  have hs := nonempties_le_sum (itPost ++ post.flatten)
  rw [nonempties_append] at hs
  obtain ⟨q, hq1, hq⟩ := afterStop_not_finished every post (pre.length + 1)
    (k + 1 + nonempties itPost)
  rw [← hex] at hq hb1 hb2
  refine ⟨q, d, hq, by omega, hd1, hd2, ?_, ?_⟩
  · rw [nonempties_append]
    rcases hq with hq | hq <;> rw [hq] at hb1 <;> simp only [Outcome.polls] at hb1 <;> omega
  · rcases hq with hq | hq <;> rw [hq] at hb2 <;> simp only [Outcome.polls] at hb2 <;> omega

/-! ### the three kinds of polls are exhaustive -/

theorem iterPoll_classify (it : VMIter) (j : Nat) (hj : j < iterPolls every it) :
    ∃ itPre len itPost, it = itPre ++ len :: itPost ∧ iterPolls every itPre ≤ j
      ∧ j < iterPolls every itPre + pollCnt every 0 len := by
  induction it generalizing j with
  | nil => simp [iterPolls] at hj
  | cons len rest ih =>
    simp only [iterPolls, List.map_cons, List.sum_cons] at hj
    by_cases h : j < pollCnt every 0 len
    · exact ⟨[], len, rest, rfl, by simp [iterPolls], by simpa [iterPolls] using h⟩
    · obtain ⟨a, l, b, e, h1, h2⟩ := ih (j - pollCnt every 0 len)
        (by simp only [iterPolls]; omega)
      refine ⟨len :: a, l, b, by rw [e]; rfl, ?_, ?_⟩ <;>
        simp only [iterPolls, List.map_cons, List.sum_cons] at h1 h2 ⊢ <;> omega

/-- Every poll of the unstopped VM run is a main-loop poll or a copy-loop poll, in the sense used
by `pipeline_stop_at_main` / `pipeline_stop_at_copy_exact`. -/
theorem vmPoll_classify (vm : List VMIter) (c k : Nat) (hk : k < vmPolls every vm c) :
    (∃ pre it post, vm = pre ++ it :: post ∧ (c + pre.length) % every = 0
        ∧ k = vmPolls every pre c)
    ∨ (∃ pre itPre len itPost post, vm = pre ++ (itPre ++ len :: itPost) :: post
        ∧ vmPolls every pre c + (if (c + pre.length) % every = 0 then 1 else 0)
            + iterPolls every itPre ≤ k
        ∧ k < vmPolls every pre c + (if (c + pre.length) % every = 0 then 1 else 0)
            + iterPolls every itPre + pollCnt every 0 len) := by
  induction vm generalizing c k with
  | nil => simp [vmPolls] at hk
  | cons it rest ih =>
    simp only [vmPolls] at hk
    by_cases h1 : k < (if c % every = 0 then 1 else 0)
    · refine Or.inl ⟨[], it, rest, rfl, ?_, ?_⟩
      · by_cases hc : c % every = 0
        · simpa using hc
        · simp [hc] at h1
      · simp only [vmPolls]; split at h1 <;> omega
    · by_cases h2 : k < (if c % every = 0 then 1 else 0) + iterPolls every it
      · obtain ⟨a, l, b, e, g1, g2⟩ := iterPoll_classify every it
          (k - (if c % every = 0 then 1 else 0)) (by omega)
        refine Or.inr ⟨[], a, l, b, rest, by rw [e]; rfl, ?_, ?_⟩ <;>
          simp only [vmPolls, List.length_nil, Nat.add_zero, Nat.zero_add] <;> omega
      · rcases ih (c + 1) (k - ((if c % every = 0 then 1 else 0) + iterPolls every it))
            (by omega) with ⟨pre, it', post, e, g1, g2⟩ | ⟨pre, a, l, b, post, e, g1, g2⟩
        · refine Or.inl ⟨it :: pre, it', post, by rw [e]; rfl, ?_, ?_⟩
          · rw [← g1]; congr 1; simp only [List.length_cons]; omega
          · simp only [vmPolls]; omega
        · have e' : c + (it :: pre).length = c + 1 + pre.length := by
            simp only [List.length_cons]; omega
          refine Or.inr ⟨it :: pre, a, l, b, post, by rw [e]; rfl, ?_, ?_⟩ <;>
            rw [e'] <;> simp only [vmPolls] <;> omega

/-- Summary of 2c: for a monotone watchdog whose first `true` answer is to poll `k < N`, the
analysis ends `.stopped` or `.failedWithStop` having issued at least `k + 1` polls. -/
theorem pipeline_first_stop (vm : List VMIter) (tc : List Nat) (k : Nat)
    (hmono : ∀ j k, j ≤ k → wd j = true → wd k = true)
    (hk : k < vmPolls every vm 0 + phasePolls every tc)
    (hf : ∀ j, j < k → wd j = false) (ht : wd k = true) :
    ∃ p, k + 1 ≤ p ∧ (pipeline every wd vm tc = .stopped p
        ∨ pipeline every wd vm tc = .failedWithStop p) := by
  by_cases hvm : k < vmPolls every vm 0
  · rcases vmPoll_classify every vm 0 k hvm with
      ⟨pre, it, post, rfl, g1, g2⟩ | ⟨pre, a, l, b, post, rfl, g1, g2⟩
    · exact ⟨k + 1, Nat.le_refl _, Or.inl (pipeline_stop_at_main every wd pre it post tc k
        (by simpa using g1) g2 hf ht)⟩
    · simp only [Nat.zero_add] at g1 g2
      rw [pipeline_stop_at_copy_exact every wd pre a l b post tc k hmono g1 g2 hf ht]
      obtain ⟨q, h1, h2⟩ := afterStop_not_finished every post (pre.length + 1)
        (k + 1 + nonempties b)
      exact ⟨q, by omega, h2⟩
  · exact ⟨k + 1, Nat.le_refl _, Or.inl (pipeline_stop_at_phase every wd vm tc k (by omega) hk
      hf ht)⟩

end Pipeline

end SLE.Poll

/-! ## Sanity checks of the definitions -/

section Sanity
open SLE.Poll

private def wdAt (n : Nat) : Nat → Bool := fun k => decide (n ≤ k)

example : totalPolls 3 [[5], [], [], [0, 7]] [4, 10] = 2 + (2 + 0 + 3) + (2 + 4) := by decide
example : pipeline 3 (wdAt 100) [[5], [], [], [0, 7]] [4, 10] = .finished 13 := by decide
example : pipeline 3 (wdAt 13) [[5], [], [], [0, 7]] [4, 10] = .finished 13 := by decide
-- poll 0 is the first main-loop poll
example : pipeline 3 (wdAt 0) [[5], [], [], [0, 7]] [4, 10] = .stopped 1 := by decide
-- poll 2 is the second poll of the copy loop of length 5: surfaces at the next main poll
example : pipeline 3 (wdAt 2) [[5], [], [], [0, 7]] [4, 10] = .stopped 4 := by decide
-- poll 5 is in the last copy loop: the schedule runs out, `.failedWithStop`
example : pipeline 3 (wdAt 5) [[5], [], [], [0, 7]] [4, 10] = .failedWithStop 6 := by decide
-- poll 12 is the last phase poll
example : pipeline 3 (wdAt 12) [[5], [], [], [0, 7]] [4, 10] = .stopped 13 := by decide
example : polledIdx 3 8 = [0, 3, 6] := by decide

end Sanity
