/-
Round-trip proofs for the JSON text layer (`SLE/Model/JsonText.lean`): string escaping,
`parse ∘ render`, `parseSlot ∘ renderSlot`, injectivity of the printers.  Core only.
-/
import SLE.Model.JsonText
import SLE.Lemmas.Json

namespace SLE.JsonText
open SLE.JsonModel

/-! ### Decimal numbers -/

theorem digitChar_toNat (d : Nat) (h : d < 10) : (digitChar d).toNat = 48 + d := by
  have key : ∀ i : Fin 10, (digitChar i.val).toNat = 48 + i.val := by decide
  exact key ⟨d, h⟩

theorem isDigit_digitChar (d : Nat) (h : d < 10) : isDigit (digitChar d) = true := by
  simp [isDigit, digitChar_toNat d h]; omega

theorem digitChar_ne_zero (d : Nat) (h : d < 10) (h0 : d ≠ 0) : digitChar d ≠ '0' := by
  have key : ∀ i : Fin 10, i.val ≠ 0 → digitChar i.val ≠ '0' := by decide
  exact key ⟨d, h⟩ h0

/-- What may follow a value in the input without being glued to it: anything but a digit. -/
def okRest : List Char → Prop
  | [] => True
  | c :: _ => isDigit c = false

theorem readDigits_okRest (rest : List Char) (acc : Nat) (h : okRest rest) :
    readDigits rest acc = (acc, rest) := by
  cases rest with
  | nil => rfl
  | cons c cs => simp only [okRest] at h; simp [readDigits, h]

theorem readDigits_natDigits (fuel n : Nat) (h : n < fuel) :
    ∃ k, ∀ acc rest, readDigits (natDigits fuel n ++ rest) acc = readDigits rest (acc * k + n) := by
  induction fuel generalizing n with
  | zero => omega
  | succ f ih =>
    unfold natDigits
    split
    · rename_i hn
      refine ⟨10, fun acc rest => ?_⟩
      simp [readDigits, isDigit_digitChar n hn, digitChar_toNat n hn]
    · rename_i hn
      obtain ⟨k, hk⟩ := ih (n / 10) (by omega)
      have hd : n % 10 < 10 := Nat.mod_lt _ (by decide)
      refine ⟨k * 10, fun acc rest => ?_⟩
      rw [List.append_assoc, hk]
      simp only [List.singleton_append, readDigits, isDigit_digitChar _ hd, if_true,
        digitChar_toNat _ hd]
      congr 1
      rw [Nat.add_mul, Nat.mul_assoc]
      omega

theorem natDigits_head (fuel n : Nat) (h : n < fuel) (h0 : n ≠ 0) :
    ∃ c tl, natDigits fuel n = c :: tl ∧ isDigit c = true ∧ c ≠ '0' := by
  induction fuel generalizing n with
  | zero => omega
  | succ f ih =>
    unfold natDigits
    split
    · rename_i hn
      exact ⟨digitChar n, [], rfl, isDigit_digitChar n hn, digitChar_ne_zero n hn h0⟩
    · rename_i hn
      obtain ⟨c, tl, e, hc, hc0⟩ := ih (n / 10) (by omega) (by omega)
      exact ⟨c, tl ++ [digitChar (n % 10)], by rw [e]; rfl, hc, hc0⟩

theorem renderNat_zero : renderNat 0 = ['0'] := by decide

theorem isWs_of_isDigit (c : Char) (h : isDigit c = true) : isWs c = false := by
  simp only [isDigit, Bool.and_eq_true, decide_eq_true_eq] at h
  simp only [isWs, Bool.or_eq_false_iff, decide_eq_false_iff_not]
  refine ⟨⟨⟨?_, ?_⟩, ?_⟩, ?_⟩ <;> (rintro rfl; revert h; decide)

/-! ### Strings -/

theorem hex4_low (n : Nat) (h : n < 32) :
    hex4 '0' '0' (hexChar (n / 16)) (hexChar (n % 16)) = some (Char.ofNat n) := by
  have key : ∀ i : Fin 32,
      hex4 '0' '0' (hexChar (i.val / 16)) (hexChar (i.val % 16)) = some (Char.ofNat i.val) := by
    decide
  exact key ⟨n, h⟩

theorem eq_ofNat_of_toNat (c : Char) (n : Nat) (h : c.toNat = n) : Char.ofNat n = c := by
  rw [← h, Char.ofNat_toNat]

/-- One escaped code point is read back as that code point, using one unit of fuel. -/
theorem strBody_escapeChar (c : Char) (f : Nat) (tail : List Char) :
    strBody (f + 1) (escapeChar c ++ tail) = consChar c (strBody f tail) := by
  unfold escapeChar
  split
  · rename_i h; subst h; simp [strBody, unescChar]
  split
  · rename_i h; subst h; simp [strBody, unescChar]
  split
  · rename_i h; simp [strBody, unescChar]; rw [eq_ofNat_of_toNat c _ h]
  split
  · rename_i h; simp [strBody, unescChar]; rw [eq_ofNat_of_toNat c _ h]
  split
  · rename_i h; simp [strBody, unescChar]; rw [eq_ofNat_of_toNat c _ h]
  split
  · rename_i h; simp [strBody, unescChar]; rw [eq_ofNat_of_toNat c _ h]
  split
  · rename_i h; simp [strBody, unescChar]; rw [eq_ofNat_of_toNat c _ h]
  split
  · rename_i h; simp [strBody, hex4_low _ h]
  · rename_i h1 h2 _ _ _ _ _ h3
    simp [strBody, h1, h2, h3]

theorem escapeChar_length_pos (c : Char) : 1 ≤ (escapeChar c).length := by
  unfold escapeChar
  repeat' split
  all_goals simp

theorem length_le_escape (cs : List Char) : cs.length ≤ (escape cs).length := by
  induction cs with
  | nil => simp [escape]
  | cons c cs ih =>
    have := escapeChar_length_pos c
    simp only [escape, List.length_append, List.length_cons]
    omega

theorem strBody_escape (cs : List Char) (fuel : Nat) (rest : List Char) (h : cs.length < fuel) :
    strBody fuel (escape cs ++ '"' :: rest) = some (cs, rest) := by
  induction cs generalizing fuel with
  | nil =>
    cases fuel with
    | zero => simp at h
    | succ f => simp [escape, strBody]
  | cons c cs ih =>
    cases fuel with
    | zero => simp at h
    | succ f =>
      simp only [List.length_cons, Nat.add_lt_add_iff_right] at h
      simp only [escape, List.append_assoc, strBody_escapeChar, ih f h, consChar]

/-- T1: the string-body parser inverts `escape`, for every list of Unicode scalar values. -/
theorem unescape_escape (cs rest : List Char) :
    parseStrBody (escape cs ++ '"' :: rest) = some (cs, rest) := by
  unfold parseStrBody
  apply strBody_escape
  have := length_le_escape cs
  simp only [List.length_append, List.length_cons]
  omega

/-! ### Values: first character of the printed text -/

theorem skipWs_cons_of_not_ws (c : Char) (l : List Char) (h : isWs c = false) :
    skipWs (c :: l) = c :: l := by
  simp [skipWs, h]

/-- A number is read back, provided what follows does not continue it. -/
theorem parseValue_num (n f : Nat) (rest : List Char) (hr : okRest rest) :
    parseValue (f + 1) (renderNat n ++ rest) = some (.num n, rest) := by
  by_cases h0 : n = 0
  · subst h0
    simp [renderNat_zero, parseValue, skipWs, isWs, isDigit]
  · obtain ⟨c, tl, e, hc, hc0⟩ := natDigits_head (n + 1) n (by omega) h0
    obtain ⟨k, hk⟩ := readDigits_natDigits (n + 1) n (by omega)
    have hrd := hk 0 rest
    rw [readDigits_okRest rest _ hr] at hrd
    simp only [renderNat] at *
    rw [e] at hrd ⊢
    simp only [List.cons_append] at hrd ⊢
    simp only [parseValue, skipWs_cons_of_not_ws c _ (isWs_of_isDigit c hc), hc, if_true, hc0,
      if_false, hrd]
    simp

/-- The first character of a printed value is not whitespace and not a closing bracket. -/
theorem render_head (j : Json) :
    ∃ c tl, render j = c :: tl ∧ isWs c = false ∧ c ≠ ']' := by
  cases j with
  | null => exact ⟨'n', ['u', 'l', 'l'], by simp [render], by decide, by decide⟩
  | num n =>
    by_cases h0 : n = 0
    · subst h0; exact ⟨'0', [], by simp [render, renderNat_zero], by decide, by decide⟩
    · obtain ⟨c, tl, e, hc, _⟩ := natDigits_head (n + 1) n (by omega) h0
      refine ⟨c, tl, by simp [render, renderNat, e], isWs_of_isDigit c hc, ?_⟩
      rintro rfl; revert hc; decide
  | str s => exact ⟨'"', escape s.toList ++ ['"'], by simp [render], by decide, by decide⟩
  | arr items => exact ⟨'[', renderItems items ++ [']'], by simp [render], by decide, by decide⟩
  | obj fields => exact ⟨'{', renderFields fields ++ ['}'], by simp [render], by decide, by decide⟩

theorem skipWs_render (j : Json) (rest : List Char) :
    skipWs (render j ++ rest) = render j ++ rest := by
  obtain ⟨c, tl, e, hc, _⟩ := render_head j
  rw [e]; exact skipWs_cons_of_not_ws c _ hc

theorem head_render_ne (j : Json) (rest : List Char) :
    (render j ++ rest).head? ≠ some ']' := by
  obtain ⟨c, tl, e, _, hc⟩ := render_head j
  rw [e]; simpa using hc

theorem render_length_pos (j : Json) : 1 ≤ (render j).length := by
  obtain ⟨c, tl, e, _, _⟩ := render_head j
  rw [e]; simp

theorem renderItems_cons (v : Json) (vs : List Json) (hvs : vs ≠ []) :
    renderItems (v :: vs) = render v ++ ',' :: renderItems vs := by
  simp [renderItems, hvs]

theorem renderFields_cons (k : String) (v : Json) (fs : List (String × Json)) (hfs : fs ≠ []) :
    renderFields ((k, v) :: fs) =
      '"' :: (escape k.toList ++ '"' :: ':' :: (render v ++ ',' :: renderFields fs)) := by
  simp [renderFields, hfs]

/-! ### parse ∘ render -/

mutual
/-- T2, generalised: a printed value followed by anything that does not start with a digit
is read back, with that remainder left over, for any fuel of at least the length of the text. -/
theorem parseValue_render : ∀ (j : Json) (fuel : Nat) (rest : List Char),
    (render j).length ≤ fuel → okRest rest →
    parseValue fuel (render j ++ rest) = some (j, rest)
  | .null, fuel, rest, hf, _ => by
    cases fuel with
    | zero => simp [render] at hf
    | succ f => simp [render, parseValue, skipWs, isWs, isDigit]
  | .num n, fuel, rest, hf, hr => by
    cases fuel with
    | zero => have := render_length_pos (.num n); omega
    | succ f => simpa [render] using parseValue_num n f rest hr
  | .str s, fuel, rest, hf, _ => by
    cases fuel with
    | zero => simp [render] at hf
    | succ f =>
      simp [render, parseValue, skipWs, isWs, isDigit, unescape_escape, String.ofList_toList]
  | .arr items, fuel, rest, hf, _ => by
    cases fuel with
    | zero => simp [render] at hf
    | succ f =>
      by_cases hi : items = []
      · subst hi
        simp [render, renderItems, parseValue, skipWs, isWs, isDigit]
      · have hrec := parseItems_render items f rest hi (by
          simp only [render, List.length_cons, List.length_append, List.length_nil] at hf
          omega)
        obtain ⟨v, vs, rfl⟩ := List.exists_cons_of_ne_nil hi
        have hne : (skipWs (renderItems (v :: vs) ++ ']' :: rest)).head? ≠ some ']' := by
          simp only [renderItems, List.append_assoc, skipWs_render]
          exact head_render_ne _ _
        simp only [render, List.cons_append, List.append_assoc, List.nil_append]
        simp [parseValue, skipWs, isWs, isDigit, hne, hrec]
  | .obj fields, fuel, rest, hf, _ => by
    cases fuel with
    | zero => simp [render] at hf
    | succ f =>
      by_cases hi : fields = []
      · subst hi
        simp [render, renderFields, parseValue, skipWs, isWs, isDigit]
      · have hrec := parseFields_render fields f rest hi (by
          simp only [render, List.length_cons, List.length_append, List.length_nil] at hf
          omega)
        obtain ⟨⟨k, v⟩, fs, rfl⟩ := List.exists_cons_of_ne_nil hi
        have hne : (skipWs (renderFields ((k, v) :: fs) ++ '}' :: rest)).head? ≠ some '}' := by
          simp [renderFields, skipWs, isWs]
        simp only [render, List.cons_append, List.append_assoc, List.nil_append]
        simp [parseValue, skipWs, isWs, isDigit, hne, hrec]
theorem parseItems_render : ∀ (l : List Json) (fuel : Nat) (rest : List Char),
    l ≠ [] → (renderItems l).length + 1 ≤ fuel →
    parseItems fuel (renderItems l ++ ']' :: rest) = some (l, rest)
  | [], _, _, hl, _ => absurd rfl hl
  | v :: vs, fuel, rest, _, hf => by
    cases fuel with
    | zero => omega
    | succ f =>
      have hv := render_length_pos v
      by_cases hvs : vs = []
      · subst hvs
        have hlen : (render v).length ≤ f := by
          simp only [renderItems, List.isEmpty_nil, if_true, List.append_nil] at hf
          omega
        have h1 := parseValue_render v f (']' :: rest) hlen (by simp [okRest, isDigit])
        simp [renderItems, parseItems, h1, skipWs, isWs]
      · rw [renderItems_cons v vs hvs] at hf ⊢
        simp only [List.length_append, List.length_cons] at hf
        have h1 := parseValue_render v f (',' :: (renderItems vs ++ ']' :: rest)) (by omega)
          (by simp [okRest, isDigit])
        have h2 := parseItems_render vs f rest hvs (by omega)
        simp [parseItems, h1, h2, skipWs, isWs]
theorem parseFields_render : ∀ (l : List (String × Json)) (fuel : Nat) (rest : List Char),
    l ≠ [] → (renderFields l).length + 1 ≤ fuel →
    parseFields fuel (renderFields l ++ '}' :: rest) = some (l, rest)
  | [], _, _, hl, _ => absurd rfl hl
  | (k, v) :: fs, fuel, rest, _, hf => by
    cases fuel with
    | zero => omega
    | succ f =>
      have hv := render_length_pos v
      by_cases hfs : fs = []
      · subst hfs
        have hlen : (render v).length ≤ f := by
          simp only [renderFields, List.isEmpty_nil, if_true, List.append_nil, List.length_cons,
            List.length_append] at hf
          omega
        have h1 := parseValue_render v f ('}' :: rest) hlen (by simp [okRest, isDigit])
        simp [renderFields, parseFields, unescape_escape, h1, skipWs, isWs,
          String.ofList_toList]
      · rw [renderFields_cons k v fs hfs] at hf ⊢
        simp only [List.length_append, List.length_cons] at hf
        have h1 := parseValue_render v f (',' :: (renderFields fs ++ '}' :: rest)) (by omega)
          (by simp [okRest, isDigit])
        have h2 := parseFields_render fs f rest hfs (by omega)
        simp [parseFields, unescape_escape, h1, h2, skipWs, isWs, String.ofList_toList]
end

/-- T2: every value tree survives printing and parsing. -/
theorem parse_render (j : Json) : parse (render j) = some j := by
  have h := parseValue_render j ((render j).length + 1) [] (by omega) trivial
  simp only [List.append_nil] at h
  simp [parse, h, skipWs]

/-- T3: a storage slot survives serialisation to JSON text and back. -/
theorem parseSlot_renderSlot (s : StorageSlot) (hi : s.index < 2 ^ 256) (ht : WFAbi s.typ) :
    parseSlot (renderSlot s) = some s := by
  simp [parseSlot, renderSlot, parse_render, decodeSlot_encodeSlot s hi ht]

/-- T4: the printer is injective. -/
theorem render_injective {a b : Json} : render a = render b → a = b := by
  intro h
  have ha := parse_render a
  rw [h, parse_render b] at ha
  exact (Option.some.inj ha).symm

/-- T4 (slots): two different well-formed layouts never serialise to the same text. -/
theorem renderSlot_injective (s₁ s₂ : StorageSlot)
    (hi₁ : s₁.index < 2 ^ 256) (ht₁ : WFAbi s₁.typ)
    (hi₂ : s₂.index < 2 ^ 256) (ht₂ : WFAbi s₂.typ) :
    renderSlot s₁ = renderSlot s₂ → s₁ = s₂ := by
  intro h
  have h1 := parseSlot_renderSlot s₁ hi₁ ht₁
  rw [h, parseSlot_renderSlot s₂ hi₂ ht₂] at h1
  exact (Option.some.inj h1).symm

/-- `Json` has no decidable equality; a parse result can still be pinned down by evaluating
`render` on it (the kernel does the evaluation) and using injectivity of `render`. -/
theorem parse_eq_of_map_render (t : List Char) (j : Json)
    (h : (parse t).map render = some (render j)) : parse t = some j := by
  cases hp : parse t with
  | none => rw [hp] at h; simp at h
  | some j' =>
    rw [hp] at h
    simp only [Option.map_some, Option.some.injEq] at h
    rw [render_injective h]

/-! ### Non-vacuity (closed instances, evaluated by the kernel) -/

/-- Quote, backslash, the five named control escapes, `\u00XX` (lower-case hex), and what is
left alone: U+007F, `/`, non-ASCII. -/
example : escape "\"\\\x08\x0c\n\r\t\x00\x01\x1f\x7f/é€😀".toList =
    "\\\"\\\\\\b\\f\\n\\r\\t\\u0000\\u0001\\u001f\x7f/é€😀".toList := by decide

example : parseStrBody "\\\"\\\\\\b\\f\\n\\r\\t\\u0000\\u0001\\u001f\x7f/é€😀\" tail".toList =
    some ("\"\\\x08\x0c\n\r\t\x00\x01\x1f\x7f/é€😀".toList, " tail".toList) := by decide +kernel

/-- The parser also reads escapes the printer never produces: `\/`, upper-case hex, non-control
`\uXXXX`; surrogates, unknown escapes and raw control characters are rejected. -/
example : parseStrBody "\\/\\u00E9\\u20ac\"".toList = some ("/é€".toList, []) := by decide +kernel
example : parseStrBody "\\ud800\"".toList = none := by decide +kernel
example : parseStrBody "\\x\"".toList = none := by decide +kernel
example : parseStrBody "a\nb\"".toList = none := by decide +kernel
example : parseStrBody "abc".toList = none := by decide +kernel

def exJson : Json := .obj [("a\"b", .arr [.num 0, .str "x\n\u0001\\é"])]
def exText : List Char := "{\"a\\\"b\":[0,\"x\\n\\u0001\\\\é\"]}".toList

example : render exJson = exText := by decide
/-- `parse` evaluated on the text (not obtained from `parse_render`). -/
example : (parse exText).map render = some exText := by decide +kernel
example : parse exText = some exJson := parse_eq_of_map_render _ _ (by decide +kernel)
/-- The same value with whitespace between tokens and the alternative escapes. -/
example : parse " {\t\"a\\u0022b\" :\n[ 0 , \"x\\u000A\\u0001\\u005c\\u00E9\" ]\r\n} ".toList = some exJson :=
  parse_eq_of_map_render _ _ (by decide +kernel)
example : parse exText = some exJson := parse_render exJson

/-- Numbers: big naturals survive; leading zeros, signs, fractions, exponents are rejected;
so are trailing commas, trailing garbage, booleans and empty input. -/
example : parse "[0,7,10,340282366920938463463374607431768211456]".toList =
    some (.arr [.num 0, .num 7, .num 10, .num (2 ^ 128)]) :=
  parse_eq_of_map_render _ _ (by decide +kernel)
example : (parse "01".toList).isNone = true := by decide +kernel
example : (parse "-1".toList).isNone = true := by decide +kernel
example : (parse "1.5".toList).isNone = true := by decide +kernel
example : (parse "1e5".toList).isNone = true := by decide +kernel
example : (parse "[1,]".toList).isNone = true := by decide +kernel
example : (parse "[1 2]".toList).isNone = true := by decide +kernel
example : (parse "{\"a\":1,}".toList).isNone = true := by decide +kernel
example : (parse "{\"a\" 1}".toList).isNone = true := by decide +kernel
example : (parse "null x".toList).isNone = true := by decide +kernel
example : (parse "true".toList).isNone = true := by decide +kernel
example : (parse "".toList).isNone = true := by decide +kernel
example : (parse "[[[[]]]".toList).isNone = true := by decide +kernel
example : parse "[[[[]]]]".toList = some (.arr [.arr [.arr [.arr []]]]) :=
  parse_eq_of_map_render _ _ (by decide +kernel)
example : parse " [ ] ".toList = some (.arr []) := parse_eq_of_map_render _ _ (by decide +kernel)
example : parse "{ }".toList = some (.obj []) := parse_eq_of_map_render _ _ (by decide +kernel)

/-- The side condition of `parseValue_render` is needed: a digit after a number is absorbed. -/
example : (parseValue 9 (render (.num 12) ++ ['3'])).map (fun p => (render p.1, p.2)) =
    some ("123".toList, []) := by decide +kernel

/-- Without escaping (the naive printer) a quote inside a string breaks the round trip. -/
example : (parse ('"' :: ("a\"b".toList ++ ['"']))).isNone = true := by decide +kernel

/-- A storage slot whose type carries conflict descriptions with quotes, backslashes, control
characters and non-ASCII text. -/
def exSlotText : StorageSlot :=
  ⟨2 ^ 256 - 1, 31, .mapping .address (.struct [.mk 0 (.array (2 ^ 255)
    (.conflictedType ["say \"hi\"\n", "C:\\dir\t\u0001"] ["é€ / \u007f"])), .mk 8 .bool])⟩

example : parseSlot (renderSlot exSlotText) = some exSlotText :=
  parseSlot_renderSlot exSlotText (by decide) (by simp [exSlotText, WFAbi, WFElems])

example : renderSlot ⟨1, 0, .conflictedType ["a\"\\\n"] []⟩ =
    ("{\"index\":\"0x0000000000000000000000000000000000000000000000000000000000000001\"," ++
     "\"offset\":0,\"type\":{\"conflicted_type\":{\"conflicts\":[\"a\\\"\\\\\\n\"],\"reasons\":[]}}}").toList := by
  decide +kernel

end SLE.JsonText
