import SLE.Lemmas.PathSim
import SLE.Lemmas.ProgramLevel
/-!
# Every literal of every value of a reachable machine state is a 256-bit word (`LitOK`)

`PathSim` proves the path simulation under `∀ s, MReach cfg code s → SideOK code s`.  Part (b) of
`SideOK` — `TargetOK` of the operand of JUMP/JUMPI — follows from `Bridge.LitOK` of that operand
(`Bridge.fold_agree`).  This file proves that `LitOK` is an invariant of the machine:

* L1 `litOK_execOp`, L2 `litOK_step` / `litOK_run` / `litOK_reachable`;
* L3 `targetOK_reachable`;
* L4 `KeysLiteral`, `sideOK_of_keysLiteral`, `executed_is_evm_reachable_keys`,
  `stored_state_matches_a_path_keys`.

The induction over the machine is the generic lifting of `ProgramLevel` (`ti_step`, `ti_run`,
`DI`, `P_D`, `P_S`).  Its value predicate `Pv p` only looks at node kinds, so the case analysis over
the opcodes is redone here for `LitOK` (which looks at the payload of `knownData` nodes), with the
same structure.
-/
namespace SLE.LitInv
open SLE SLE.SV SLE.VM SLE.TCSpec
open SLE.Disasm (Instr)
open SLE.PathSim.Bridge (LitOK LitOKs)
open SLE.LiftInv (NoP NoP_node)
open SLE.ProgramLevel (DI P_D P_S dataVals P_D_iff push_d pop_both pop_v pop_d popN_ok popN_err_d
  popN_v popN_d dup_d swap_d record_d logValue_d updateSV_inv updateNat_inv lookupSV_mem
  lookupNat_mem stStore_d OK ok_fail ok_mk ok_pushOut ok_ite foldl_inv TI ti_init ti_run ti_step
  di_fork di_empty P_S_iff pd_fork)

/-! ### the value predicate -/

/-- the payload of a node is admissible: a `knownData` node carries a 256-bit word -/
def AttrOK (k : Kind) (a : List Nat) : Prop := k = .knownData → ∀ w r, a = w :: r → w < 2 ^ 256

theorem attrOK_of_ne {k : Kind} {a : List Nat} (h : k ≠ .knownData) : AttrOK k a :=
  fun hk => absurd hk h

theorem attrOK_word (w : Word) : AttrOK .knownData [w.toNat] := by
  intro _ w0 r h
  cases h
  exact w.isLt

theorem LitOKs_iff : ∀ ks : List SV, LitOKs ks ↔ ∀ x ∈ ks, LitOK x
  | [] => by simp [LitOKs]
  | k :: ks => by
    unfold LitOKs
    rw [LitOKs_iff ks]
    simp

theorem L_node_aux {k a ks s} : LitOK (.node k a ks s) ↔ AttrOK k a ∧ LitOKs ks := by
  unfold LitOK
  exact Iff.rfl

theorem L_node {k a ks s} : LitOK (.node k a ks s) ↔ AttrOK k a ∧ ∀ x ∈ ks, LitOK x := by
  rw [L_node_aux, LitOKs_iff]

theorem L_rebuild {k a ks} : LitOK (rebuild k a ks) ↔ AttrOK k a ∧ ∀ x ∈ ks, LitOK x := by
  simp only [rebuild, L_node]

theorem L_mkKnown (w : Word) : LitOK (mkKnown w) := by
  simp only [mkKnown, L_node]
  exact ⟨attrOK_word w, by simp⟩

theorem L_mkValue (i : Nat) : LitOK (mkValue i) := by
  simp only [mkValue, L_node]
  exact ⟨attrOK_of_ne (by decide), by simp⟩

mutual
theorem L_fold_all : ∀ t, LitOK t → LitOK (fold t)
  | .node k a ks s, ht => by
    rw [L_node] at ht
    simp only [fold]
    rcases LiftInv.foldNode_cases k a (foldList ks) with h | ⟨w, h⟩
    · rw [h, L_rebuild]; exact ⟨ht.1, L_foldList ks ht.2⟩
    · rw [h]; exact L_mkKnown w
theorem L_foldList : ∀ l : List SV, (∀ x ∈ l, LitOK x) → ∀ x ∈ foldList l, LitOK x
  | [], _ => by simp [foldList]
  | y :: ys, hl => by
    simp only [foldList, List.mem_cons, forall_eq_or_imp]
    exact ⟨L_fold_all y (hl y (by simp)), L_foldList ys (fun x hx => hl x (by simp [hx]))⟩
end

theorem L_fold {v : SV} (hv : LitOK v) : LitOK (fold v) := L_fold_all v hv

theorem L_mk {lim fresh k a ks} (hk : AttrOK k a) (hks : ∀ x ∈ ks, LitOK x) :
    LitOK (SV.mk lim fresh k a ks) := by
  unfold SV.mk
  split
  · dsimp only
    split
    · exact L_mkValue _
    · exact L_node.mpr ⟨hk, hks⟩
  · exact L_node.mpr ⟨hk, hks⟩

theorem build_v {c ctr k a ks v ctr'} (e : build c ctr k a ks = (v, ctr'))
    (hk : AttrOK k a) (hks : ∀ x ∈ ks, LitOK x) : LitOK v := by
  unfold build at e
  cases e
  exact L_mk hk hks

theorem buildKnown_v {c ctr w v ctr'} (e : buildKnown c ctr w = (v, ctr')) : LitOK v :=
  build_v e (attrOK_word w) (by simp)

theorem buildValue_v {c ctr v ctr'} (e : buildValue c ctr = (v, ctr')) : LitOK v := by
  unfold buildValue at e
  cases e
  exact L_mkValue _

section mem
variable {S : SV → Prop}

/-- all cells of a generation list hold good values -/
def CellsOK (g : List MemCell) : Prop := ∀ c ∈ g, LitOK c.data

theorem cells_snoc {g : List MemCell} {v : SV} {w : Bool} (hg : CellsOK g) (hv : LitOK v) :
    CellsOK (g ++ [⟨v, w⟩]) := by
  intro c hc
  rcases List.mem_append.mp hc with hc | hc
  · exact hg c hc
  · rw [List.mem_singleton.mp hc]; exact hv

theorem cells_last {g : List MemCell} (hg : CellsOK g) :
    LitOK (g.getLast?.getD zeroCell).data := by
  cases hl : g.getLast? with
  | none => exact L_mkKnown _
  | some c => exact hg c (List.mem_of_getLast? hl)

theorem cells_zero : CellsOK [zeroCell] := by
  intro c hc
  rw [List.mem_singleton.mp hc]
  exact L_mkKnown _

theorem memStore_d {d : TData} {off v : SV} {w : Bool} (h : DI LitOK S d)
    (ho : LitOK off) (hv : LitOK v) : DI LitOK S (memStore d off v w) := by
  unfold memStore
  dsimp only
  split
  · refine ⟨h.stack, ?_, h.memS, h.stK, h.stS, h.recorded, h.logged⟩
    dsimp only
    refine updateNat_inv (V := CellsOK) h.memC (cells_snoc ?_ hv)
    cases hl : List.lookup _ d.memC with
    | none => intro c hc; cases hc
    | some g =>
      obtain ⟨q, hq, rfl⟩ := lookupNat_mem hl
      exact h.memC q hq
  · refine ⟨h.stack, h.memC, ?_, h.stK, h.stS, h.recorded, h.logged⟩
    dsimp only
    refine updateSV_inv (K := LitOK) (V := CellsOK) h.memS (L_fold ho) (cells_snoc ?_ hv)
    cases hl : lookupSV d.memS (fold off) with
    | none => intro c hc; cases hc
    | some g =>
      obtain ⟨q, hq, rfl⟩ := lookupSV_mem hl
      exact (h.memS q hq).2

theorem memGetC_both {d d' : TData} {k : Nat} {v : SV} (e : memGetC d k = (v, d'))
    (h : DI LitOK S d) : LitOK v ∧ DI LitOK S d' := by
  unfold memGetC at e
  split at e
  · rename_i cells hl
    cases e
    obtain ⟨q, hq, rfl⟩ := lookupNat_mem hl
    exact ⟨cells_last (h.memC q hq), h⟩
  · cases e
    refine ⟨L_mkKnown _, h.stack, ?_, h.memS, h.stK, h.stS, h.recorded, h.logged⟩
    intro q hq
    rcases List.mem_append.mp hq with hq | hq
    · exact h.memC q hq
    · rw [List.mem_singleton.mp hq]; exact cells_zero

theorem memGetS_both {d d' : TData} {off v : SV} (e : memGetS d off = (v, d'))
    (h : DI LitOK S d) (ho : LitOK off) : LitOK v ∧ DI LitOK S d' := by
  unfold memGetS at e
  split at e
  · rename_i cells hl
    cases e
    obtain ⟨q, hq, rfl⟩ := lookupSV_mem hl
    exact ⟨cells_last (h.memS q hq).2, h⟩
  · cases e
    refine ⟨L_mkKnown _, h.stack, h.memC, ?_, h.stK, h.stS, h.recorded, h.logged⟩
    intro q hq
    rcases List.mem_append.mp hq with hq | hq
    · exact h.memS q hq
    · rw [List.mem_singleton.mp hq]; exact ⟨ho, cells_zero⟩

theorem memLoad_both {d d' : TData} {off v : SV} (e : memLoad d off = (v, d'))
    (h : DI LitOK S d) (ho : LitOK off) : LitOK v ∧ DI LitOK S d' := by
  unfold memLoad at e
  dsimp only at e
  split at e
  · exact memGetC_both e h
  · exact memGetS_both e h (L_fold ho)

theorem memLoad_v {d d' : TData} {off v : SV} (e : memLoad d off = (v, d'))
    (h : DI LitOK S d) (ho : LitOK off) : LitOK v := (memLoad_both e h ho).1
theorem memLoad_d {d d' : TData} {off v : SV} (e : memLoad d off = (v, d'))
    (h : DI LitOK S d) (ho : LitOK off) : DI LitOK S d' := (memLoad_both e h ho).2

theorem memGetMany_both : ∀ (ks : List Nat) {d d' : TData} {vs : List SV},
    memGetMany d ks = (vs, d') → DI LitOK S d → (∀ v ∈ vs, LitOK v) ∧ DI LitOK S d'
  | [], d, d', vs, e, h => by
    unfold memGetMany at e
    cases e
    exact ⟨by simp, h⟩
  | k :: ks, d, d', vs, e, h => by
    unfold memGetMany at e
    cases h1 : memGetC d k with
    | mk v d1 =>
      cases h2 : memGetMany d1 ks with
      | mk vs' d2 =>
        rw [h1] at e
        dsimp only at e
        rw [h2] at e
        cases e
        obtain ⟨hv, hd1⟩ := memGetC_both h1 h
        obtain ⟨hvs, hd2⟩ := memGetMany_both ks h2 hd1
        refine ⟨fun x hx => ?_, hd2⟩
        rcases List.mem_cons.mp hx with rfl | hx
        · exact hv
        · exact hvs x hx

theorem memLoadSlice_both {c : Ctx} {d d' : TData} {off size v : SV}
    (e : memLoadSlice c d off size = .ok (v, d')) (h : DI LitOK S d) (ho : LitOK off) :
    LitOK v ∧ DI LitOK S d' := by
  unfold memLoadSlice at e
  dsimp only at e
  split at e
  · split at e
    · cases e
      obtain ⟨hvs, hd2⟩ := memGetMany_both _ rfl h
      exact ⟨L_rebuild.mpr ⟨attrOK_of_ne (by decide), hvs⟩, hd2⟩
    · injection e with e
      exact memGetC_both e h
  · injection e with e
    exact memGetS_both e h (L_fold ho)

theorem memLoadSlice_v {c : Ctx} {d d' : TData} {off size v : SV}
    (e : memLoadSlice c d off size = .ok (v, d')) (h : DI LitOK S d) (ho : LitOK off) : LitOK v :=
  (memLoadSlice_both e h ho).1
theorem memLoadSlice_d {c : Ctx} {d d' : TData} {off size v : SV}
    (e : memLoadSlice c d off size = .ok (v, d')) (h : DI LitOK S d) (ho : LitOK off) :
    DI LitOK S d' := (memLoadSlice_both e h ho).2

/-! ### storage (only reached through SLOAD / SSTORE, where `S = P`) -/

theorem stStore_d {P : SV → Prop} {d : TData} {key v : SV} (h : DI P P d) (hk : P key) (hv : P v) :
    DI P P (stStore d key v) := by
  have snoc : ∀ g : List SV, (∀ x ∈ g, P x) → ∀ x ∈ g ++ [v], P x := by
    intro g hg x hx
    rcases List.mem_append.mp hx with hx | hx
    · exact hg x hx
    · rw [List.mem_singleton.mp hx]; exact hv
  unfold stStore
  split
  · refine ⟨h.stack, h.memC, h.memS, ?_, h.stS, h.recorded, h.logged⟩
    dsimp only
    refine updateSV_inv (K := P) (V := fun g => ∀ x ∈ g, P x) h.stK hk (snoc _ ?_)
    cases hl : lookupSV d.stK key with
    | none => intro c hc; cases hc
    | some g =>
      obtain ⟨q, hq, rfl⟩ := lookupSV_mem hl
      exact (h.stK q hq).2
  · refine ⟨h.stack, h.memC, h.memS, h.stK, ?_, h.recorded, h.logged⟩
    dsimp only
    refine updateSV_inv (K := P) (V := fun g => ∀ x ∈ g, P x) h.stS hk (snoc _ ?_)
    cases hl : lookupSV d.stS key with
    | none => intro c hc; cases hc
    | some g =>
      obtain ⟨q, hq, rfl⟩ := lookupSV_mem hl
      exact (h.stS q hq).2

theorem sload_wrap {key recent : SV} (hk : LitOK key) (hr : LitOK recent) :
    LitOK (if recent.kind == .sLoad then buildNoLimit .sLoad recent.attrs recent.kids
      else buildNoLimit .sLoad [] [key, recent]) := by
  split
  · cases recent with
    | node k a ks s =>
      exact L_rebuild.mpr ⟨attrOK_of_ne (by decide), (L_node.mp hr).2⟩
  · refine L_rebuild.mpr ⟨attrOK_of_ne (by decide), ?_⟩
    intro x hx
    simp only [List.mem_cons, List.not_mem_nil, or_false] at hx
    rcases hx with rfl | rfl
    · exact hk
    · exact hr

theorem gens_last {g : List SV} (hg : ∀ x ∈ g, LitOK x) :
    LitOK (g.getLast?.getD (mkKnown 0#256)) := by
  cases hl : g.getLast? with
  | none => exact L_mkKnown _
  | some c => exact hg c (List.mem_of_getLast? hl)

theorem stLoad_both
    {d d' : TData} {key v : SV} (e : stLoad d key = (v, d')) (h : DI LitOK LitOK d) (hk : LitOK key) :
    LitOK v ∧ DI LitOK LitOK d' := by
  have hinit : ∀ x ∈ [buildNoLimit Kind.unwrittenStorageValue [] [key]], LitOK x := by
    intro x hx
    rw [List.mem_singleton.mp hx]
    exact L_rebuild.mpr ⟨attrOK_of_ne (by decide), fun y hy => by rw [List.mem_singleton.mp hy]; exact hk⟩
  have hsnoc : ∀ m : List (SV × List SV), (∀ q ∈ m, LitOK q.1 ∧ ∀ v ∈ q.2, LitOK v) →
      ∀ q ∈ m ++ [(key, [buildNoLimit Kind.unwrittenStorageValue [] [key]])],
        LitOK q.1 ∧ ∀ v ∈ q.2, LitOK v := by
    intro m hmm q hq
    rcases List.mem_append.mp hq with hq | hq
    · exact hmm q hq
    · rw [List.mem_singleton.mp hq]; exact ⟨hk, hinit⟩
  unfold stLoad at e
  cases hkk : isKnownKey key
  · simp only [hkk, Bool.false_eq_true, if_false] at e
    cases hl : lookupSV d.stS key with
    | none =>
      simp only [hl] at e
      cases e
      exact ⟨sload_wrap hk (gens_last hinit),
        h.stack, h.memC, h.memS, h.stK, hsnoc _ h.stS, h.recorded, h.logged⟩
    | some g =>
      simp only [hl] at e
      cases e
      obtain ⟨q, hq, rfl⟩ := lookupSV_mem hl
      exact ⟨sload_wrap hk (gens_last (h.stS q hq).2), h⟩
  · simp only [hkk, if_true] at e
    cases hl : lookupSV d.stK key with
    | none =>
      simp only [hl] at e
      cases e
      exact ⟨sload_wrap hk (gens_last hinit),
        h.stack, h.memC, h.memS, hsnoc _ h.stK, h.stS, h.recorded, h.logged⟩
    | some g =>
      simp only [hl] at e
      cases e
      obtain ⟨q, hq, rfl⟩ := lookupSV_mem hl
      exact ⟨sload_wrap hk (gens_last (h.stK q hq).2), h⟩

end mem

/-! ### opcode templates -/

/-- Boolean form of the negation of `AttrOK` -/
def litBad (k : Kind) (a : List Nat) : Bool :=
  k == .knownData && (match a with | w :: _ => decide (2 ^ 256 ≤ w) | [] => false)

theorem attrOK_of_litBad {k : Kind} {a : List Nat} (h : litBad k a = false) : AttrOK k a := by
  intro hk w r ha
  subst hk ha
  simp only [litBad, beq_self_eq_true, Bool.true_and, decide_eq_false_iff_not] at h
  omega

mutual
theorem L_of_NoP : ∀ t : SV, NoP litBad t → LitOK t
  | .node k a ks s, ht => by
    rw [NoP_node] at ht
    exact L_node.mpr ⟨attrOK_of_litBad ht.1, L_of_NoP_list ks ht.2⟩
theorem L_of_NoP_list : ∀ l : List SV, (∀ x ∈ l, NoP litBad x) → ∀ x ∈ l, LitOK x
  | [], _ => by simp
  | y :: ys, hl => by
    simp only [List.mem_cons, forall_eq_or_imp]
    exact ⟨L_of_NoP y (hl y (by simp)), L_of_NoP_list ys (fun x hx => hl x (by simp [hx]))⟩
end

/-- every row of the template table decodes to a tree whose literals are 256-bit words
(the constants are 248, 8, 255, 32 and 0) -/
def templatesLit : Bool :=
  opcodeTemplates.all (fun r =>
    match unflatten (r.2.2.length + 1) r.2.2 with
    | some (t, _) => !(anyNode (fun k a _ => litBad k a) t)
    | none => true)

set_option maxRecDepth 100000 in
theorem templatesLit_true : templatesLit = true := by
  simp [templatesLit, opcodeTemplates, unflatten, unflatten.kidsLoop, Kind.all, anyNode, anyNodeList,
    litBad]

theorem templateOf_lit {b n : Nat} {tpl : SV} (e : templateOf b = some (n, tpl)) : LitOK tpl := by
  apply L_of_NoP
  unfold templateOf at e
  split at e
  · rename_i b' n' flat hf
    have hmem := List.mem_of_find?_eq_some hf
    have hall := templatesLit_true
    unfold templatesLit at hall
    have hrow := List.all_eq_true.mp hall _ hmem
    dsimp only at hrow
    cases hu : unflatten (flat.length + 1) flat with
    | none => rw [hu] at e; cases e
    | some q =>
      obtain ⟨t, r⟩ := q
      rw [hu] at e hrow
      simp only [Option.map_some, Option.some.injEq, Prod.mk.injEq] at e
      obtain ⟨_, rfl⟩ := e
      simpa [NoP] using hrow
  · cases e

mutual
theorem instantiate_P (c : Ctx) (args : List SV) (ha : ∀ a ∈ args, LitOK a) :
    ∀ (t : SV) (ctr : Nat), LitOK t → LitOK (instantiate c args t ctr).1
  | .node k attrs kids s, ctr, ht => by
    rw [L_node] at ht
    have hkids := instantiate_go_P c args ha kids ctr ht.2
    simp only [instantiate]
    split
    · split
      · split
        · rename_i a hget
          exact ha a (List.mem_of_getElem? hget)
        · exact buildValue_v rfl
      · exact buildValue_v rfl
    · split
      · rename_i hcd
        have : k = .callData := eq_of_beq hcd
        exact build_v rfl (attrOK_of_ne (by rw [this]; decide)) hkids
      · exact build_v rfl ht.1 hkids
theorem instantiate_go_P (c : Ctx) (args : List SV) (ha : ∀ a ∈ args, LitOK a) :
    ∀ (ts : List SV) (n : Nat), (∀ t ∈ ts, LitOK t) →
      ∀ x ∈ (instantiate.go c args ts n).1, LitOK x
  | [], n, _ => by simp [instantiate.go]
  | t :: ts, n, hts => by
    simp only [instantiate.go]
    intro x hx
    rcases List.mem_cons.mp hx with rfl | hx
    · exact instantiate_P c args ha t n (hts t (by simp))
    · exact instantiate_go_P c args ha ts _ (fun y hy => hts y (by simp [hy])) x hx
end

/-! ### outputs of an instruction -/

section out
variable {S : SV → Prop}

theorem memLoad_v' {d : TData} {off : SV} (h : DI LitOK S d) (ho : LitOK off) :
    LitOK (memLoad d off).1 := memLoad_v rfl h ho
theorem memLoad_d' {d : TData} {off : SV} (h : DI LitOK S d) (ho : LitOK off) :
    DI LitOK S (memLoad d off).2 := memLoad_d rfl h ho
theorem build_v' {c ctr k a ks} (hk : AttrOK k a) (hks : ∀ x ∈ ks, LitOK x) :
    LitOK (build c ctr k a ks).1 := build_v rfl hk hks
theorem buildKnown_v' {c ctr w} : LitOK (buildKnown c ctr w).1 := buildKnown_v rfl
theorem buildValue_v' {c ctr} : LitOK (buildValue c ctr).1 := buildValue_v rfl

theorem instantiate_v {b n : Nat} {tpl : SV} {c : Ctx} {args : List SV} {ctr : Nat}
    (e : templateOf b = some (n, tpl)) (ha : ∀ a ∈ args, LitOK a) :
    LitOK (instantiate c args tpl ctr).1 := instantiate_P c args ha tpl ctr (templateOf_lit e)

theorem instantiate_ve {b n : Nat} {tpl : SV} {c : Ctx} {args : List SV} {ctr ctr' : Nat}
    {v : SV} (e2 : instantiate c args tpl ctr = (v, ctr')) (e : templateOf b = some (n, tpl))
    (ha : ∀ a ∈ args, LitOK a) : LitOK v := by
  have := instantiate_v (c := c) (ctr := ctr) e ha
  rw [e2] at this
  exact this

end out

/-- Backward prover for invariant goals after the case analysis of an opcode (the analogue of
`ProgramLevel`'s `di`); relies on the local name `S`. -/
syntax "li" : tactic
set_option hygiene false in
macro_rules
  | `(tactic| li) => `(tactic| first
    | assumption
    | exact attrOK_of_ne (by decide)
    | (split <;> exact attrOK_of_ne (by decide))
    -- outputs
    | (refine ok_fail ?_ <;> li)
    | (refine ok_pushOut ?_ ?_ <;> li)
    | (refine ok_mk ?_ <;> li)
    -- thread data
    | (refine record_d ?_ ?_ <;> li)
    | (refine logValue_d ?_ ?_ <;> li)
    | (refine memStore_d ?_ ?_ ?_ <;> li)
    | (apply pop_d; assumption; li)
    | (apply popN_d; assumption; li)
    | (apply popN_err_d; assumption; li)
    | (apply dup_d; assumption; li)
    | (apply swap_d; assumption; li)
    | (apply memLoad_d; assumption; li; li)
    | (refine memLoad_d' ?_ ?_ <;> li)
    | (apply memLoadSlice_d; assumption; li; li)
    -- values
    | (apply buildKnown_v; assumption)
    | exact buildKnown_v'
    | (apply buildValue_v; assumption)
    | exact buildValue_v'
    | (apply pop_v (S := S); assumption; li)
    | (apply popN_v (S := S); assumption; li; (simp; done))
    | (apply memLoad_v (S := S); assumption; li; li)
    | (refine memLoad_v' (S := S) ?_ ?_ <;> li)
    | (apply memLoadSlice_v (S := S); assumption; li; li)
    | (apply build_v; assumption; li; li)
    | (refine build_v' ?_ ?_ <;> li)
    | (refine L_fold ?_ <;> li)
    | (apply instantiate_v; assumption; li)
    | (apply instantiate_ve; assumption; assumption; li)
    -- lists of values
    | (intro x hx; apply popN_v (S := S); assumption; li; (simp [hx]; done))
    | (intro x hx; apply popN_v (S := S) (a := x); assumption; li; exact hx)
    | (simp only [List.mem_cons, List.not_mem_nil, or_false, forall_eq_or_imp, forall_eq,
        false_implies, implies_true]
       repeat' apply And.intro
       all_goals li))

section exec
variable {S : SV → Prop}

theorem copyLoop_d {c : Ctx} {dest : SV} {srcBase : Option SV}
    {mkVal : SV → SV → Nat → SV × Nat} {foldDest : Bool} {limit : Nat} {d : TData} {ctr : Nat}
    (h : DI LitOK S d) (hdest : LitOK dest) (hsrc : ∀ s, srcBase = some s → LitOK s)
    (hmk : ∀ src n32 ctr, LitOK src → LitOK n32 → LitOK (mkVal src n32 ctr).1) :
    DI LitOK S (copyLoop c d ctr dest srcBase mkVal limit foldDest).1 := by
  unfold copyLoop
  refine foldl_inv (fun (acc : TData × Nat) => DI LitOK S acc.1) _ ?_ _ _ h
  rintro ⟨d, ctr⟩ i h
  dsimp only at h ⊢
  have hdest' : LitOK (if foldDest = true then dest.fold else dest) := by
    split
    · exact L_fold hdest
    · exact hdest
  refine memStore_d h ?_ ?_
  · li
  · apply hmk
    · split
      · rename_i s
        have := hsrc s rfl
        li
      · li
    · li

theorem ok_copyOp {c : Ctx} {d : TData} {ctr : Nat} {kind : Kind} {wa : Bool}
    {bound : Nat} (h : DI LitOK S d) (hk0 : kind ≠ .knownData) :
    OK LitOK S (copyOp c d ctr kind wa bound) := by
  have hk : AttrOK kind [] := attrOK_of_ne hk0
  unfold copyOp
  split
  · li
  · rename_i args d1 hpop
    have hargs := popN_v (S := S) hpop h
    have hd1 := popN_d hpop h
    cases wa
    · simp only [Bool.false_eq_true, if_false]
      split
      · rename_i dest offset0 size0
        have hdest : LitOK dest := hargs _ (by simp)
        have hoff : LitOK offset0 := hargs _ (by simp)
        have hsize : LitOK size0 := hargs _ (by simp)
        split
        · refine ok_mk (copyLoop_d hd1 hdest ?_ ?_)
          · intro s hs; cases hs; li
          · intro src n32 ctr hsrc hn32
            split <;> li
        · refine ok_mk (memStore_d hd1 hdest ?_)
          split <;> li
      · li
    · simp only [if_true]
      split
      · rename_i dest offset0 size0 hdrop
        have hmem : ∀ a ∈ [dest, offset0, size0], LitOK a := by
          intro a ha
          rw [← hdrop] at ha
          exact hargs a (List.mem_of_mem_drop ha)
        have hdest : LitOK dest := hmem _ (by simp)
        have hoff : LitOK offset0 := hmem _ (by simp)
        have hsize : LitOK size0 := hmem _ (by simp)
        have haddr : ∀ a, args.head? = some a → LitOK a := fun a ha => hargs a (List.mem_of_head? ha)
        split
        · refine ok_mk (copyLoop_d hd1 hdest ?_ ?_)
          · intro s hs; cases hs; li
          · intro src n32 ctr hsrc hn32
            split
            · li
            · split
              · rename_i a ha
                have := haddr a ha
                li
              · li
        · refine ok_mk (memStore_d hd1 hdest ?_)
          split
          · li
          · split
            · rename_i a ha
              have := haddr a ha
              li
            · li
      · li

theorem storeReturnData_d {c : Ctx} {d : TData} {ctr : Nat} {retSize retOffset : SV}
    (h : DI LitOK S d) (ho : LitOK retOffset) :
    DI LitOK S (storeReturnData c d ctr retSize retOffset).1 := by
  unfold storeReturnData
  split
  · refine copyLoop_d h ho (by intro s hs; cases hs) ?_
    intro src n32 ctr h1 h2
    li
  · dsimp only
    refine memStore_d h ho ?_
    li

theorem ok_callOp {c : Ctx} {d : TData} {ctr : Nat} {wv : Bool}
    (h : DI LitOK S d) : OK LitOK S (callOp c d ctr wv) := by
  unfold callOp
  split
  · li
  · rename_i args d1 hpop
    have hargs := popN_v (S := S) hpop h
    have hd1 := popN_d hpop h
    cases wv
    · simp only [Bool.false_eq_true, if_false]
      split
      · rename_i gas address argOffset argSize retOffset retSize hg ha hdrop
        have hmem : ∀ a ∈ [argOffset, argSize, retOffset, retSize], LitOK a := by
          intro a ha
          rw [← hdrop] at ha
          exact hargs a (List.mem_of_mem_drop ha)
        have h1 : LitOK gas := hargs _ (List.mem_of_getElem? hg)
        have h2 : LitOK address := hargs _ (List.mem_of_getElem? ha)
        have h3 : LitOK argOffset := hmem _ (by simp)
        have h4 : LitOK argSize := hmem _ (by simp)
        have h5 : LitOK retOffset := hmem _ (by simp)
        have h6 : LitOK retSize := hmem _ (by simp)
        split
        · li
        · rename_i argData d2 hls
          have h7 : LitOK argData := memLoadSlice_v hls hd1 h3
          have hd2 := memLoadSlice_d hls hd1 h3
          refine ok_pushOut (storeReturnData_d hd2 h5) ?_
          li
      · li
    · simp only [if_true]
      split
      · rename_i gas address argOffset argSize retOffset retSize hg ha hdrop
        have hmem : ∀ a ∈ [argOffset, argSize, retOffset, retSize], LitOK a := by
          intro a ha
          rw [← hdrop] at ha
          exact hargs a (List.mem_of_mem_drop ha)
        have h1 : LitOK gas := hargs _ (List.mem_of_getElem? hg)
        have h2 : LitOK address := hargs _ (List.mem_of_getElem? ha)
        have h3 : LitOK argOffset := hmem _ (by simp)
        have h4 : LitOK argSize := hmem _ (by simp)
        have h5 : LitOK retOffset := hmem _ (by simp)
        have h6 : LitOK retSize := hmem _ (by simp)
        have hval : ∀ v, args[2]? = some v → LitOK v := fun v hv => hargs _ (List.mem_of_getElem? hv)
        split
        · li
        · rename_i argData d2 hls
          have h7 : LitOK argData := memLoadSlice_v hls hd1 h3
          have hd2 := memLoadSlice_d hls hd1 h3
          refine ok_pushOut (storeReturnData_d hd2 h5) ?_
          split
          · rename_i v hv
            have := hval v hv
            li
          · li
      · li

set_option maxRecDepth 8000 in
/-- The data effect of any instruction keeps the invariant.  SLOAD / SSTORE are the only
instructions that touch storage; for them storage must be held to the same standard as the rest
(`S = LitOK`). -/
theorem ok_execOp {c : Ctx} {code : List Instr} {ins : Instr} {d : TData} {ctr : Nat}
    (h : DI LitOK S d)
    (hs : ins = .op 0x54 ∨ ins = .op 0x55 → S = LitOK) :
    OK LitOK S (execOp c code ins d ctr) := by
  unfold execOp
  split
  · li
  · li
  · dsimp only; li
  · rename_i b
    repeat' (refine ok_ite (fun _ => ?_) (fun _ => ?_))
    all_goals first
      | li
      | exact ok_copyOp h (by decide)
      | exact ok_callOp h
      | (have hS := hs (Or.inl (congrArg Instr.op (eq_of_beq ‹(b == 0x54) = true›)))
         subst hS
         split
         · exact ok_fail h
         · rename_i key d1 hpop
           obtain ⟨hkey, hd1⟩ := pop_both hpop h
           obtain ⟨hv, hd2⟩ := stLoad_both rfl hd1 hkey
           dsimp only
           split
           · exact ok_pushOut hd2 (buildValue_v')
           · exact ok_pushOut hd2 hv)
      | (have hS := hs (Or.inr (congrArg Instr.op (eq_of_beq ‹(b == 0x55) = true›)))
         subst hS
         split
         · exact ok_fail (popN_err_d _ _ _ ‹_› h)
         · exact ok_mk (stStore_d (popN_d ‹_› h) (popN_v ‹_› h _ (by simp)) (popN_v ‹_› h _ (by simp)))
         · exact ok_fail (popN_d ‹_› h))
      | (split_all
         all_goals li)

end exec

/-! ### L1, L2 — `LitOK` is an invariant of the machine -/

/-- L1. One instruction keeps every literal of every value of the thread state a 256-bit word. -/
theorem litOK_execOp (c : Ctx) (code : List Instr) (ins : Instr) (d : TData) (ctr : Nat) :
    P_D LitOK d → P_D LitOK (execOp c code ins d ctr).d := by
  intro h
  have h' : DI LitOK LitOK d := P_D_iff.mp h
  exact P_D_iff.mpr (ok_execOp h' (fun _ => rfl)).di

/-- L2. `P_S LitOK` is an invariant of `step`. -/
theorem litOK_step (cfg : Cfg) (code : List Instr) (s : VMS) :
    P_S LitOK s → P_S LitOK (step cfg code s) :=
  ti_step pd_fork (fun c ins d ctr _ h => litOK_execOp c code ins d ctr h)

theorem litOK_init (cfg : Cfg) (code : List Instr) : P_S LitOK (initVM cfg code) :=
  ti_init (P_D_iff.mpr di_empty)

theorem litOK_run' (cfg : Cfg) (code : List Instr) (fuel : Nat) (s : VMS) :
    P_S LitOK s → P_S LitOK (run cfg code fuel s) :=
  ti_run pd_fork (fun c ins d ctr _ h => litOK_execOp c code ins d ctr h) fuel s

/-- L2. Every value of every thread (queued or stored) of a run from the initial state is `LitOK`. -/
theorem litOK_run (cfg : Cfg) (code : List Instr) (fuel : Nat) :
    P_S LitOK (run cfg code fuel (initVM cfg code)) :=
  litOK_run' cfg code fuel _ (litOK_init cfg code)

/-- L2, for the reachability predicate of the path simulation. -/
theorem litOK_reachable {cfg : Cfg} {code : List Instr} :
    ∀ s, PathSim.MReach cfg code s → P_S LitOK s := by
  intro s hs
  induction hs with
  | init => exact litOK_init cfg code
  | step _ ih => exact litOK_step cfg code _ ih

/-! ### L3 — the jump operand -/

/-- L3. In every reachable machine state, if the head thread stands on a JUMP or a JUMPI, the
operand on top of its stack satisfies `TargetOK`: whenever constant folding resolves it to a
constant, that constant is the value the tree denotes.  No hypothesis on the program. -/
theorem targetOK_reachable {cfg : Cfg} {code : List Instr} (s : VMS)
    (hs : PathSim.MReach cfg code s) :
    ∀ t rest ins, s.queue = t :: rest → code[t.ip]? = some ins →
      (ins = .op 0x56 ∨ ins = .op 0x57) → ∀ k r, t.d.stack = k :: r → PathSim.TargetOK k := by
  intro t rest ins hq _ _ k r hk
  apply PathSim.targetOK_of_litOK
  have hP : P_D LitOK t.d := litOK_reachable s hs t (by rw [hq]; simp)
  exact hP k (by simp [dataVals, hk])

/-! ### L4 — the path simulation with computed jump targets -/

open SLE.PathSim (Prog MReach SideOK PrecededByPush PushGuarded InScope RReach arr dat dropK)
open SLE.EvmSim (Rel)

/-- the syntactic restriction that remains: every SLOAD/SSTORE/MLOAD/MSTORE is immediately preceded
by a PUSH (of an offset below 2^64 for the memory instructions).  Nothing is asked of JUMP/JUMPI. -/
def KeysLiteral (code : List Instr) : Prop :=
  ∀ i b, code[i]? = some (.op b) →
    ((b = 0x54 ∨ b = 0x55) → PrecededByPush code i (fun _ => True)) ∧
    ((b = 0x51 ∨ b = 0x52) → PrecededByPush code i (fun v => v < 2 ^ 64))

theorem keysLiteral_of_guarded {code : List Instr} (h : PushGuarded code) : KeysLiteral code :=
  fun i b hi => ⟨fun hb => (h i b hi).1 (by omega), (h i b hi).2⟩

section keys
variable {bytes : List Nat} {code : List Instr} {cfg : Cfg}

/-- L4. The side conditions of the path simulation hold in every reachable state as soon as the
storage keys and memory offsets are pushed literals; the jump part holds for every program. -/
theorem sideOK_of_keysLiteral (H : Prog bytes code) (hk : KeysLiteral code)
    (hlim : 1 ≤ cfg.valueLimit) : ∀ s, MReach cfg code s → SideOK code s := by
  intro s hs t rest ins hq hi
  refine ⟨?_, fun hb => targetOK_reachable s hs t rest ins hq hi hb⟩
  have hL : PathSim.LInv code t := PathSim.linv_reach H cfg hlim s hs t (by rw [hq]; simp)
  cases ins with
  | nop => exact trivial
  | push n dta => exact trivial
  | invalid b => exact trivial
  | op b =>
    have hG := hk t.ip b hi
    have top : ∀ P : Nat → Prop, b ≠ 0x5b → PrecededByPush code t.ip P →
        ∀ k r, t.d.stack = k :: r → ∃ w : Word, k = mkKnown w ∧ P w.toNat := by
      intro P hb hpre k r hk
      have hjd : code[t.ip]? ≠ some (.op 0x5b) := by
        rw [hi]; intro h; cases h; exact hb rfl
      rcases hpre with ⟨p, n, dta, hp, hpn, hP⟩ | ⟨p, hp, hpn, hP⟩
      · obtain ⟨r', hr'⟩ := (hL hjd).1 p n dta hp (by omega) (by omega)
        rw [hr'] at hk; cases hk
        exact ⟨_, rfl, by rw [BitVec.toNat_ofNat]; exact hP⟩
      · obtain ⟨r', hr'⟩ := (hL hjd).2 p hp hpn
        rw [hr'] at hk; cases hk
        exact ⟨_, rfl, by simpa using hP⟩
    refine ⟨?_, ?_⟩
    · intro hb k r hk
      obtain ⟨w, hw, _⟩ := top _ (by omega) (hG.1 hb) k r hk
      exact ⟨w, hw⟩
    · intro hb k r hk
      exact top _ (by omega) (hG.2 hb) k r hk

/-- P2 with the weaker hypothesis. -/
theorem inv_reach_keys (H : Prog bytes code) (hsc : InScope bytes) (hk : KeysLiteral code)
    (cfg : Cfg) (hlim : 1 ≤ cfg.valueLimit) :
    ∀ s, MReach cfg code s → PathSim.Inv bytes code s :=
  PathSim.inv_reach H hsc cfg (sideOK_of_keysLiteral H hk hlim)

/-- P3 (C08 soundness) with the weaker hypothesis: every executed offset that holds a real
instruction is reachable by the reference EVM, whatever the shape of the jump operands. -/
theorem executed_is_evm_reachable_keys (H : Prog bytes code) (hsc : InScope bytes)
    (hk : KeysLiteral code) (cfg : Cfg) (hlim : 1 ≤ cfg.valueLimit) (fuel : Nat) :
    ∀ t ∈ (run cfg code fuel (initVM cfg code)).queue ++ (run cfg code fuel (initVM cfg code)).stored,
      ∀ i ins, t.visited.getD i 0 ≠ 0 → code[i]? = some ins → ins ≠ .nop →
        ∃ cs, RReach (arr bytes) (dat bytes) (i, cs) :=
  PathSim.executed_is_evm_reachable' H hsc cfg (sideOK_of_keysLiteral H hk hlim) _
    (PathSim.mreach_run fuel _ MReach.init)

/-- P3 (C07) with the weaker hypothesis. -/
theorem stored_state_matches_a_path_keys (H : Prog bytes code) (hsc : InScope bytes)
    (hk : KeysLiteral code) (cfg : Cfg) (hlim : 1 ≤ cfg.valueLimit) (fuel : Nat) :
    ∀ t ∈ (run cfg code fuel (initVM cfg code)).stored,
      ∃ pc cs k, RReach (arr bytes) (dat bytes) (pc, cs) ∧ Rel t.d (dropK k cs) :=
  PathSim.stored_state_matches_a_path_partial H hsc cfg (sideOK_of_keysLiteral H hk hlim) _
    (PathSim.mreach_run fuel _ MReach.init)

end keys

/-! ### non-vacuity: a computed jump target

`PUSH1 2; PUSH1 4; ADD; JUMP; JUMPDEST; STOP` computes its jump target (2 + 4 = 6): it is not
`PushGuarded` (the JUMP is preceded by an ADD), but it is `KeysLiteral`, so the corollaries apply. -/

def exBytes : List Nat := [0x60, 2, 0x60, 4, 0x01, 0x56, 0x5b, 0x00]
def exCode : List Instr :=
  [.push 1 [2], .nop, .push 1 [4], .nop, .op 0x01, .op 0x56, .op 0x5b, .op 0x00]

theorem ex_prog : Prog exBytes exCode := ⟨by decide, by decide, by rfl⟩

theorem ex_inScope : InScope exBytes := by
  intro code h
  have h' : Disasm.disasm exBytes = .ok exCode := by rfl
  rw [h'] at h
  cases h
  intro ins hins
  simp only [exCode, List.mem_cons, List.not_mem_nil, or_false] at hins
  rcases hins with rfl | rfl | rfl | rfl | rfl | rfl | rfl | rfl
  all_goals simp [PathSim.InsOK, PathSim.DataOp, EvmSim.scopeOps, EvmSim.aluOk]

theorem ex_keysLiteral : KeysLiteral exCode := by
  intro i b hi
  rcases i with _ | _ | _ | _ | _ | _ | _ | _ | i
  all_goals simp [exCode] at hi
  all_goals subst hi
  all_goals exact ⟨fun h => by omega, fun h => by omega⟩

theorem ex_not_guarded : ¬ PushGuarded exCode := by
  intro h
  rcases (h 5 0x56 rfl).1 (by omega) with ⟨p, n, dta, hp, hpn, _⟩ | ⟨p, hp, hpn, _⟩
  · have hp5 : p < 5 := by omega
    rcases p with _ | _ | _ | _ | _ | p
    all_goals simp [exCode] at hp
    all_goals omega
  · have hp4 : p = 4 := by omega
    subst hp4
    simp [exCode] at hp

/-- the JUMPDEST at offset 6, reached through the computed jump, is reference-reachable -/
example (cfg : Cfg) (hlim : 1 ≤ cfg.valueLimit) (fuel : Nat) :
    ∀ t ∈ (run cfg exCode fuel (initVM cfg exCode)).queue ++
        (run cfg exCode fuel (initVM cfg exCode)).stored,
      t.visited.getD 6 0 ≠ 0 → ∃ cs, RReach (arr exBytes) (dat exBytes) (6, cs) :=
  fun t ht hv => executed_is_evm_reachable_keys ex_prog ex_inScope ex_keysLiteral cfg hlim fuel t ht
    6 (.op 0x5b) hv rfl (by simp)

end SLE.LitInv

section
open SLE SLE.SV SLE.VM
#print axioms SLE.LitInv.litOK_execOp
#print axioms SLE.LitInv.litOK_run
#print axioms SLE.LitInv.litOK_reachable
#print axioms SLE.LitInv.targetOK_reachable
#print axioms SLE.LitInv.sideOK_of_keysLiteral
#print axioms SLE.LitInv.executed_is_evm_reachable_keys
#print axioms SLE.LitInv.stored_state_matches_a_path_keys
end
