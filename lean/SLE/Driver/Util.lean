/-! Text helpers for the line protocol (core only). -/
namespace SLE.Driver

def hexDigit? (c : Char) : Option Nat :=
  if '0' ≤ c ∧ c ≤ '9' then some (c.toNat - '0'.toNat)
  else if 'a' ≤ c ∧ c ≤ 'f' then some (c.toNat - 'a'.toNat + 10)
  else if 'A' ≤ c ∧ c ≤ 'F' then some (c.toNat - 'A'.toNat + 10)
  else none

/-- Parse an even-length hex string into bytes. -/
def hexBytes? (s : String) : Option (List Nat) :=
  let rec go : List Char → List Nat → Option (List Nat)
    | [], acc => some acc.reverse
    | [_], _ => none
    | a :: b :: rest, acc =>
      match hexDigit? a, hexDigit? b with
      | some x, some y => go rest ((x * 16 + y) :: acc)
      | _, _ => none
  go s.toList []

/-- Parse a hex string (any length) as a natural number. -/
def hexNat? (s : String) : Option Nat :=
  s.toList.foldl (fun acc c => match acc, hexDigit? c with
    | some a, some d => some (a * 16 + d)
    | _, _ => none) (some 0)

def hexDigitChar (n : Nat) : Char :=
  if n < 10 then Char.ofNat ('0'.toNat + n) else Char.ofNat ('a'.toNat + (n - 10))

def byteHex (b : Nat) : String :=
  String.ofList [hexDigitChar (b / 16 % 16), hexDigitChar (b % 16)]

def bytesHex (bs : List Nat) : String := String.join (bs.map byteHex)

/-- Minimal-length lowercase hex of a natural number ("0" for zero). -/
def natHex (n : Nat) : String :=
  if n = 0 then "0" else
  let rec go (fuel n : Nat) (acc : List Char) : List Char :=
    match fuel with
    | 0 => acc
    | fuel + 1 => if n = 0 then acc else go fuel (n / 16) (hexDigitChar (n % 16) :: acc)
  String.ofList (go 80 n [])

def splitTab (s : String) : List String := s.splitOn "\t"
def words (s : String) : List String := (s.splitOn " ").filter (· ≠ "")

end SLE.Driver
