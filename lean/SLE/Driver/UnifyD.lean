import SLE.Model.Unify
import SLE.Driver.Types
/-! Driver for family `unify`. -/
namespace SLE.Driver.UnifyD
open SLE SLE.Unify SLE.Containers SLE.Driver SLE.Driver.Types

/-! Rust `derive(Debug)` renderings, used as sort keys by `verif_hooks::Order::Sorted`. -/
def dbgVar (v : Nat) : String := "TypeVariable { id: " ++ toString v ++ " }"

def dbgUse : WordUse → String
  | .bytes => "Bytes" | .numeric => "Numeric" | .unsignedNumeric => "UnsignedNumeric"
  | .signedNumeric => "SignedNumeric" | .bool => "Bool" | .address => "Address"
  | .selector => "Selector" | .function => "Function"

def dbgTE : TE → String
  | .any => "Any"
  | .equal i => "Equal { id: " ++ dbgVar i ++ " }"
  | .word none u => "Word { width: None, usage: " ++ dbgUse u ++ " }"
  | .word (some w) u => "Word { width: Some(" ++ toString w ++ "), usage: " ++ dbgUse u ++ " }"
  | .bytes => "Bytes"
  | .fixedArray e l => "FixedArray { element: " ++ dbgVar e ++ ", length: " ++ toString l ++ " }"
  | .mapping k v => "Mapping { key: " ++ dbgVar k ++ ", value: " ++ dbgVar v ++ " }"
  | .dynamicArray e => "DynamicArray { element: " ++ dbgVar e ++ " }"
  | .packed ts s => "Packed { types: [" ++ ", ".intercalate (ts.map (fun x =>
      "Span { typ: " ++ dbgVar x.typ ++ ", offset: " ++ toString x.offset ++ ", size: " ++ toString x.size ++ " }")) ++
      "], is_struct: " ++ toString s ++ " }"
  | .conflict => "Conflict {"

/-- stable sort by string key (`sort_by_cached_key`) -/
def sortByKey {α : Type} (key : α → String) (l : List α) : List α :=
  let rec ins (x : α) : List α → List α
    | [] => [x]
    | y :: r => if key x < key y then x :: y :: r else y :: ins x r
  l.foldl (fun acc x => ins x acc) []

def sortedOrders : Orders :=
  { vars := sortByKey dbgVar,
    tes := sortByKey dbgTE,
    eqs := sortByKey (fun (a, b) => "Equality { left: " ++ dbgVar a ++ ", right: " ++ dbgVar b ++ " }"),
    judgements := sortByKey (fun (t, e) => "Judgement { tv: " ++ dbgVar t ++ ", expr: " ++ dbgTE e ++ " }") }

/-- `TypeCheckerState::infer`: equalities are made symmetric, self-equalities dropped. -/
def buildInfs (js : List (Nat × TE)) : List (Nat × List TE) :=
  js.foldl (fun (m : List (Nat × List TE)) (p : Nat × TE) =>
    let add := fun (m : List (Nat × List TE)) (v : Nat) (e : TE) =>
      let cur := (m.lookup v).getD []
      let cur' := setInsert cur e
      if m.any (·.1 == v) then m.map (fun q => if q.1 == v then (v, cur') else q) else m ++ [(v, cur')]
    match p.2 with
    | .equal id => if id == p.1 then m else add (add m id (.equal p.1)) p.1 p.2
    | e => add m p.1 e) []

def findRoot (f : Forest) (v : Nat) : Forest × Nat :=
  match f.find v with
  | .ok (f', r) => (f', r)
  | .error _ => (f, v)

def getData (f : Forest) (v : Nat) : Forest × Option (List TE) :=
  match f.getData v with
  | .ok (f', d) => (f', d)
  | .error _ => (f, none)

/-- variable-name-free rendering of what a variable resolved to (mirrors the harness) -/
def resolve (f : Forest) : Nat → Nat → List Nat → String
  | depth, v, seen =>
    let (f1, root) := findRoot f v
    if seen.contains root then "#cycle" else
    match depth with
    | 0 => "#deep"
    | depth + 1 =>
      let (f2, data) := getData f1 v
      match data with
      | none => "#nodata"
      | some [] => "any0"
      | some [e] =>
        let seen' := root :: seen
        (match e with
         | .mapping k w => "map(" ++ resolve f2 depth k seen' ++ "," ++ resolve f2 depth w seen' ++ ")"
         | .dynamicArray x => "dyn(" ++ resolve f2 depth x seen' ++ ")"
         | .fixedArray x l => "fixed(" ++ resolve f2 depth x seen' ++ "," ++ toString l ++ ")"
         | .packed ts s => (if s then "struct" else "packed") ++ "[" ++
             ",".intercalate (ts.map (fun x => s!"{x.offset}+{x.size}:" ++ resolve f2 depth x.typ seen')) ++ "]"
         | .equal _ => "#EQUAL"
         | other => teText other)
      | some items => "#multi(" ++ "&".intercalate ((sortByKey dbgTE items).map teText) ++ ")"

/-- run `n` rounds regardless of progress and return the forest (used to classify a
non-terminating input) -/
def roundsForest (o : Orders) : Nat → Forest → Nat → Option Forest
  | 0, f, _ => some f
  | n + 1, f, next => match round o f next 0 with
    | .ok acc => roundsForest o n acc.forest acc.next
    | .error _ => none

/-- Finding D12: some class holds a packed encoding whose *first* span starts at 0 and is typed
by a variable of that same class, together with a sized word of a non-numeric usage of exactly
that span's width — `merge` re-emits the word for the span (i.e. for the class itself) forever. -/
def d12Pattern (f : Forest) (nvarsNow : Nat) : Bool :=
  (List.range nvarsNow).any (fun v =>
    let (f1, r) := findRoot f v
    if r ≠ v then false else
    match (getData f1 v).2 with
    | some items =>
      items.any (fun e => match e with
        | .packed (first :: _) _ =>
          first.offset == 0 && (findRoot f1 first.typ).2 == r &&
          items.any (fun w => match w with
            | .word (some wd) u => wd == first.size &&
                !(u == .unsignedNumeric || u == .numeric || u == .bytes)
            | _ => false)
        | _ => false)
    | none => false)

def insertSortedNat (x : Nat) : List Nat → List Nat
  | [] => [x]
  | y :: r => if x ≤ y then x :: y :: r else y :: insertSortedNat x r

def lexLe : List Nat → List Nat → Bool
  | [], _ => true
  | _ :: _, [] => false
  | a :: as, b :: bs => a < b || (a == b && lexLe as bs)

/-- C13 for the unification loop: the number of watchdog polls when the loop polls at every
iteration whose count of *evidence-holding classes processed so far* is a multiple of `every`
(the forest's classes are visited in index order; empty classes do not advance the count). -/
def pollsFor (o : Orders) (every : Nat) : Nat → Forest → Nat → Nat → Nat → Option Nat
  | 0, _, _, _, _ => none
  | fuel + 1, f, next, counter, polls =>
    let (_, sets) := f.sets setM
    let (counter', polls') := sets.foldl (fun (cp : Nat × Nat) (p : Nat × List TE) =>
      let polls := if cp.1 % every == 0 then cp.2 + 1 else cp.2
      (if p.2.isEmpty then cp.1 else cp.1 + 1, polls)) (counter, polls)
    match round o f next counter with
    | .error _ => none
    | .ok acc => if acc.progress then pollsFor o every fuel acc.forest acc.next counter' polls' else some polls'

def handle (payload impl : String) : String × String :=
  match words payload with
  | ord0 :: nv :: budget :: js =>
    let (ord, every) := match ord0.splitOn "@" with
      | [o, e] => (o, (e.toNat?).getD 1)
      | _ => (ord0, 1)
    match nv.toNat?, budget.toNat? with
    | some nvars, some budget =>
      let parsed := js.filterMap (fun j => match j.splitOn ">" with
        | [v, e] => match v.toNat?, parseTE e with
          | some v, some e => some (v, e) | _, _ => none
        | _ => none)
      if parsed.length ≠ js.length then ("bad-request", "ok") else
      let infs := buildInfs parsed
      let infOf := fun v => (infs.lookup v).getD []
      -- `budget` polls of the counting watchdog = at most that many class visits in total
      let model :=
        if ord ≠ "sorted" then "order-not-modelled" else
        match unify sortedOrders 400 nvars infOf with
        | .error .outOfFuel => s!"res=err:StoppedByWatchdog polls={budget + 1}"
        | .error (.merge _) => "PANIC Equalities should not exist when unifying"
        | .error (.forest _) => "PANIC forest"
        | .ok (f, _, _) =>
          let classes := (List.range nvars).foldl (fun (m : List (Nat × List Nat)) v =>
            let r := (findRoot f v).2
            if m.any (·.1 == r) then m.map (fun q => if q.1 == r then (r, q.2 ++ [v]) else q) else m ++ [(r, [v])]) []
          let cl := (classes.map (·.2)).foldl (fun acc c =>
            let rec ins : List (List Nat) → List (List Nat)
              | [] => [c]
              | y :: r => if lexLe c y then c :: y :: r else y :: ins r
            ins acc) []
          -- (the model keeps one `conflict` where the code keeps one per distinct reason, so with
          -- conflicting evidence the code may run one more round: the poll count is then taken
          -- over from the implementation and not judged)
          let implPolls := (((impl.splitOn "polls=").getD 1 "").splitOn " ").headD ""
          let polls := if (impl.splitOn "conflict").length > 1 then implPolls else
            match initForest sortedOrders (List.range nvars) infOf with
            | .ok f0 => toString ((pollsFor sortedOrders (max every 1) 400 f0 nvars 0 0).getD 0)
            | .error _ => "0"
          s!"res=ok polls={polls} classes=[" ++ "|".intercalate (cl.map (fun c => ",".intercalate (c.map toString))) ++ "] types=[" ++
            ";".intercalate ((List.range nvars).map (fun v => s!"{v}:" ++ resolve f 6 v [])) ++ "]"
      -- C14 oracle on the implementation's answer
      let verdict :=
        if impl.startsWith "PANIC" then "FAIL C01-panic:" ++ impl
        else if impl.startsWith "res=err:StoppedByWatchdog" then
          (match initForest sortedOrders (List.range nvars) infOf with
           | .ok f0 => (match roundsForest sortedOrders 30 f0 nvars with
             | some f => if d12Pattern f (nvars + 4000) then "FAIL C14-no-termination-self-referential-packed"
                         else "FAIL C14-no-termination-within-budget"
             | none => "FAIL C14-no-termination-within-budget")
           | .error _ => "FAIL C14-no-termination-within-budget")
        else if impl.startsWith "res=err" then "FAIL C14-error:" ++ impl
        else if (model.startsWith "res=ok polls=") &&
                ((impl.splitOn " classes=").headD "") ≠ ((model.splitOn " classes=").headD "") then
          s!"FAIL C13-unify-poll-schedule:interval {every}: " ++ ((impl.splitOn " classes=").headD "") ++ " but one poll per interval of evidence-holding classes gives " ++ ((model.splitOn " classes=").headD "")
        else if (impl.splitOn "#multi").length > 1 then "FAIL C14-more-than-one-type"
        else if (impl.splitOn "#EQUAL").length > 1 then "FAIL C14-equality-left"
        else if (impl.splitOn "#nodata").length > 1 then "FAIL C14-no-type"
        else
          -- declared-equal variables share a class
          let cls : List (List Nat) := match (impl.splitOn "classes=[").drop 1 with
            | rest :: _ => (((rest.splitOn "]").headD "").splitOn "|").map (fun (c : String) => (c.splitOn ",").filterMap String.toNat?)
            | [] => []
          let sameClass := fun (a b : Nat) => cls.any (fun (c : List Nat) => c.contains a && c.contains b)
          let badEq := parsed.find? (fun (v, e) => match e with
            | .equal id => id < nvars && v < nvars && !sameClass v id
            | _ => false)
          -- resolved type text per variable, to recognise contradictory classes
          let typeOf := fun (v : Nat) =>
            match (impl.splitOn "types=[").drop 1 with
            | rest :: _ =>
              ((((rest.splitOn ";").map (fun (x : String) => x.splitOn ":")).find? (fun (p : List String) => p.head? == some (toString v))).map
                (fun (p : List String) => ":".intercalate (p.drop 1))).getD ""
            | [] => ""
          let isConflict := fun (v : Nat) => (typeOf v).startsWith "conflict"
          -- two constructed types that met (same class, evidence not contradictory) must have
          -- their corresponding components unified
          let comps : List (Nat × Nat × String) := parsed.foldl (fun acc (p : Nat × TE) =>
            acc ++ parsed.filterMap (fun (q : Nat × TE) =>
              if !(sameClass p.1 q.1) || isConflict p.1 then none else
              match p.2, q.2 with
              | .mapping k1 v1, .mapping k2 v2 =>
                if !(sameClass k1 k2) then some (k1, k2, "mapping keys")
                else if !(sameClass v1 v2) then some (v1, v2, "mapping values") else none
              | .dynamicArray a, .dynamicArray b => if !(sameClass a b) then some (a, b, "dynamic array elements") else none
              | .fixedArray a la, .fixedArray b lb =>
                if la == lb && !(sameClass a b) then some (a, b, "fixed array elements") else none
              | _, _ => none)) []
          match badEq with
          | some (v, _) => s!"FAIL C14-declared-equal-not-unified:{v}"
          | none =>
            match comps.find? (fun (a, b, _) => a < nvars && b < nvars) with
            | some (a, b, what) =>
              -- dynamic bytes in the same class absorb a dynamic array before it meets the other
              -- one (the D11 region of MergeLaws.Bad: bytes, dyn x, dyn y with x ≠ y)
              -- (the `bytes` may be stated for the class or derived during merging: either way the
              -- class holding the two arrays resolves to dynamic bytes)
              let absorbed := what == "dynamic array elements" &&
                (parsed.any (fun (p : Nat × TE) => p.2 == .bytes &&
                  parsed.any (fun (q : Nat × TE) => (match q.2 with | .dynamicArray e => e == a || e == b | _ => false) && sameClass p.1 q.1)) ||
                 parsed.any (fun (q : Nat × TE) => (match q.2 with | .dynamicArray e => e == a || e == b | _ => false) &&
                   (typeOf q.1).startsWith "bytes"))
              if absorbed then s!"FAIL C14-components-absorbed-by-bytes:{what} {a} and {b}"
              else s!"FAIL C14-components-not-unified:{what} {a} and {b}"
            | none => "ok"
      (model, verdict)
    | _, _ => ("bad-request", "ok")
  | _ => ("bad-request", "ok")

end SLE.Driver.UnifyD
