import SLE.Model.VM
import SLE.Driver.SVText
/-! Driver for family `vm`: run the model machine and print the canonical dump. -/
namespace SLE.Driver.VMD
open SLE SLE.SV SLE.VM SLE.Disasm SLE.Driver

mutual
/-- VM-dump form of a tree: opaque ids print as the creating instruction pointer. -/
def printIp : SV → String
  | .node k attrs kids sz =>
    let as :=
      if k == .knownData then attrs.map (fun a => "0x" ++ natHex a)
      else if k == .value || k == .callData then
        (match attrs with
         | i :: r => toString (i % 2 ^ 32) :: r.map toString
         | [] => [])
      else attrs.map toString
    "(" ++ k.name ++ " " ++ toString sz ++ String.join (as.map (" " ++ ·)) ++ " |" ++ printIpKids kids ++ ")"
def printIpKids : List SV → String
  | [] => ""
  | k :: ks => " " ++ printIp k ++ printIpKids ks
end

def insertSortedStr (x : String) : List String → List String
  | [] => [x]
  | y :: r => if x ≤ y then x :: y :: r else y :: insertSortedStr x r

def sortStrs (l : List String) : List String := l.foldl (fun acc x => insertSortedStr x acc) []

def insertByKey (x : Nat × String) : List (Nat × String) → List (Nat × String)
  | [] => [x]
  | y :: r => if x.1 ≤ y.1 then x :: y :: r else y :: insertByKey x r

def cells (g : List MemCell) : String :=
  ";".intercalate (g.map (fun c => printIp c.data ++ "/" ++ (if c.isWord then "W" else "B")))

def dumpThread (t : Thread) : String :=
  let d := t.d
  let memc := (d.memC.foldl (fun acc (k, g) => insertByKey (k, s!"{k}:" ++ "{" ++ cells g ++ "}") acc) []).map (·.2)
  let mems := sortStrs (d.memS.map (fun (k, g) => printIp k ++ "=>{" ++ cells g ++ "}"))
  let st := sortStrs ((d.stK ++ d.stS).map (fun (k, g) => printIp k ++ "=>{" ++ ";".intercalate (g.map printIp) ++ "}"))
  s!"fp={d.forkPoint} vis=[" ++ ",".intercalate (t.visited.map toString) ++ "] stack=[" ++
    ";".intercalate (d.stack.map printIp) ++ "] memc=[" ++ " ".intercalate memc ++ "] mems=[" ++
    " ".intercalate mems ++ "] st=[" ++ " ".intercalate st ++ "] rec=[" ++
    ";".intercalate (d.recorded.map printIp) ++ "] log=[" ++ ";".intercalate (d.logged.map printIp) ++ "]"

def parseCfg (s : String) : Option Cfg :=
  match (s.splitOn ",").map String.toNat? with
  | [some g, some i, some f, some v, some m, some p] => some ⟨g, i, f, v, m, p != 0⟩
  | _ => none

def enumFrom {α : Type} : Nat → List α → List (Nat × α)
  | _, [] => []
  | n, x :: xs => (n, x) :: enumFrom (n + 1) xs

def runModel (cfg : Cfg) (bytes : List Nat) : String :=
  match disasm bytes with
  | .error e => "disasm-err " ++ (match e with
      | .emptyBytecode => "EmptyBytecode" | .bytecodeTooLarge => "BytecodeTooLarge"
      | .invalidPushSize n => s!"InvalidPushSize({n})")
  | .ok code =>
    let s := run cfg code 20000000 (initVM cfg code)
    match s.aborted with
    | some (.panic site) => "PANIC " ++ site
    | _ =>
      let errs := match s.aborted with
        | some e => [(0, e)]     -- `execute` returned early with a single error
        | none => s.errors
      let res := if errs.isEmpty then "res=ok errs=[]"
        else "res=err errs=[" ++ ";".intercalate (errs.map (fun (l, e) => s!"{l}:{e.name}")) ++ "]"
      let forks := (enumFrom 0 code).filterMap (fun (i, ins) =>
        if ins == .op 0x5b then some s!"{i}:{s.forks.getD i 0}" else none)
      res ++ s!" queue={s.queue.length} forks=[" ++ ";".intercalate forks ++ s!"] nstates={s.stored.length}" ++
        String.join ((enumFrom 0 s.stored).map (fun (i, t) => s!" || S{i} " ++ dumpThread t))

/-! #### Oracles on the implementation's dump -/

structure Dump where
  ok : Bool
  errs : List (Nat × String)
  queue : Nat
  forks : List (Nat × Nat)
  nstates : Nat
  vis : List (List Nat)          -- per stored state
  raw : String

def between (s openS closeS : String) : Option String :=
  match s.splitOn openS with
  | _ :: rest :: _ => (rest.splitOn closeS).head?
  | _ => none

def parsePairs (s sep : String) : List (Nat × String) :=
  ((s.splitOn ";").filter (· ≠ "")).filterMap (fun p => match p.splitOn sep with
    | [a, b] => a.toNat?.map (fun a => (a, b))
    | _ => none)

def parseDump (impl : String) : Option Dump :=
  if !(impl.startsWith "res=") then none else
  let head := (impl.splitOn " || ").headD ""
  let states := (impl.splitOn " || ").drop 1
  match between head "errs=[" "]", between head "queue=" " ", between head "forks=[" "]", between (head ++ " ") "nstates=" " " with
  | some errs, some q, some forks, some ns =>
    some { ok := impl.startsWith "res=ok",
           errs := parsePairs errs ":",
           queue := q.toNat!,
           forks := (parsePairs forks ":").map (fun (a, b) => (a, b.toNat!)),
           nstates := ns.toNat!,
           vis := states.map (fun st => match between st "vis=[" "]" with
             | some v => ((v.splitOn ",").filter (· ≠ "")).map String.toNat!
             | none => []),
           raw := impl }
  | _, _, _, _ => none

def isJumpKindName (n : String) : Bool :=
  n == "InvalidOffsetForJump" || n == "InvalidJumpTarget" || n == "NonExistentJumpTarget" ||
  n == "NoConcreteJumpDestination"

/-- C03 on the implementation's own counters. -/
def oracleC03 (cfg : Cfg) (bytes : List Nat) (d : Dump) : List String :=
  let mask := pushDataMask bytes
  let jd := ((bytes.zip mask).filter (fun (b, m) => b == 0x5b && !m)).length
  let visMax := (d.vis.map (fun v => v.foldl max 0)).foldl max 0
  let forkMax := (d.forks.map (·.2)).foldl max 0
  (if visMax > cfg.iterLimit then [s!"C03-visit:{visMax}>{cfg.iterLimit}"] else []) ++
  (if forkMax > cfg.forkLimit then [s!"C03-fork:{forkMax}>{cfg.forkLimit}"] else []) ++
  (if d.nstates > 1 + cfg.forkLimit * jd then [s!"C03-threads:{d.nstates}>1+{cfg.forkLimit}*{jd}"] else []) ++
  (if d.queue ≠ 0 then ["C03-queue-not-drained"] else [])

/-- minimum gas of the instruction decoded at each offset (0 for push data), from the bytes -/
def gasAt (bytes : List Nat) : List Nat :=
  match disasm bytes with
  | .ok code => code.map minGas
  | .error _ => []

/-- C17: a path whose accumulated minimum gas exceeds the limit must surface `GasLimitExceeded`.
A lower bound on what a finished state's thread was charged, read off its visit counts: every
visited instruction is charged its minimum gas except (a) the JUMPIs at which an ancestor forked
this thread (the child inherits the gas from before the JUMPI's charge) — so JUMPIs are left out
altogether — and (b) a last instruction that returned `Err`; such an error is listed, except a
tolerated jump kind in permissive mode (JUMP costs 8), so the largest visited cost is
subtracted when any error is listed and 8 otherwise. -/
def oracleC17gas (cfg : Cfg) (bytes : List Nat) (d : Dump) : List String :=
  let g := gasAt bytes
  let isJumpi := fun (i : Nat) => bytes.getD i 0 == 0x57 && !((pushDataMask bytes).getD i false)
  let over := d.vis.any (fun v =>
    let charged := (enumFrom 0 (v.zip g)).map (fun (i, (c, x)) => if isJumpi i then 0 else c * x)
    let maxCost := ((v.zip g).map (fun (c, x) => if c > 0 then x else 0)).foldl max 0
    let slack := if d.errs.isEmpty then 8 else maxCost
    charged.sum > cfg.gasLimit + slack)
  -- the same bound is C03's "no thread continues once the minimum gas it has consumed exceeds the limit"
  (if over && !(d.errs.any (fun (_, n) => n == "GasLimitExceeded")) then ["C17-gas-exhaustion-not-surfaced"] else []) ++
  (if over then ["C03-thread-ran-past-gas-limit"] else [])

/-- C17 (single run): errors are located inside the code; strict mode with errors fails. -/
def oracleC17single (bytes : List Nat) (d : Dump) : List String :=
  (if d.errs.any (fun (l, _) => l ≥ bytes.length) then ["C17-location-outside-code"] else []) ++
  (if d.ok && !d.errs.isEmpty then ["C17-ok-with-errors"] else []) ++
  (if !d.ok && d.errs.isEmpty then ["C17-err-without-errors"] else [])

/-! static control-flow graph of the *EVM* for code whose jump targets are pushed immediately
before the jump (anything else is over-approximated by "any JUMPDEST") -/

def haltsByte (b : Nat) : Bool :=
  b == 0x00 || b == 0xf3 || b == 0xfd || b == 0xff || b == 0xfe || (!isKnown b && !isPush b)

/-- value pushed by the instruction that ends right before offset `i`, if it is a PUSH -/
def pushedBefore (bytes : List Nat) (mask : List Bool) (i : Nat) : Option Nat :=
  -- walk back over push data
  let rec back (fuel j : Nat) : Option Nat :=
    match fuel with
    | 0 => none
    | fuel + 1 =>
      if j = 0 then none else
      let k := j - 1
      if mask.getD k false then back fuel k
      else
        let b := bytes.getD k 0
        if b == 0x5f && k + 1 = i then some 0
        else if isPush b && k + 1 + (b - 0x5f) = i then
          some ((bytes.drop (k + 1)).take (b - 0x5f) |>.foldl (fun acc x => acc * 256 + x) 0)
        else none
  back 40 i

def validDest (bytes : List Nat) (mask : List Bool) (t : Nat) : Bool :=
  bytes.getD t 0 == 0x5b && t < bytes.length && !(mask.getD t true)

def succs (bytes : List Nat) (mask : List Bool) (i : Nat) : List Nat × Bool :=
  let b := bytes.getD i 0
  let fall := if isPush b then i + 1 + (b - 0x5f) else i + 1
  let allDests := (List.range bytes.length).filter (validDest bytes mask)
  if haltsByte b then ([], true)
  else if b == 0x56 then
    (match pushedBefore bytes mask i with
     | some t => (if validDest bytes mask t then [t] else [], true)
     | none => (allDests, false))
  else if b == 0x57 then
    (match pushedBefore bytes mask i with
     | some t => ((if validDest bytes mask t then [t] else []) ++ [fall], true)
     | none => (allDests ++ [fall], false))
  else ([fall], true)

/-- reachable instruction offsets, and whether every jump target was statically known -/
def reach (bytes : List Nat) : List Nat × Bool :=
  let mask := pushDataMask bytes
  let rec go (fuel : Nat) (work seen : List Nat) (exact : Bool) : List Nat × Bool :=
    match fuel, work with
    | 0, _ => (seen, false)
    | _, [] => (seen, exact)
    | fuel + 1, i :: rest =>
      if i ≥ bytes.length || seen.contains i then go fuel rest seen exact
      else
        let (ss, ex) := succs bytes mask i
        go fuel (ss ++ rest) (i :: seen) (exact && ex)
  go (bytes.length * 4 + 16) [0] [] true

def acyclic (bytes : List Nat) (nodes : List Nat) : Bool :=
  -- loop-free iff every edge goes forward or a DFS finds no back edge; use the simple
  -- sufficient test "every edge goes to a larger offset"
  let mask := pushDataMask bytes
  nodes.all (fun i => (succs bytes mask i).1.all (fun t => t > i))

/-- C08: executed offsets ⊆ EVM-reachable offsets (JUMPDESTs and push-data placeholders
dropped on both sides); equal for loop-free code within the limits. -/
def oracleC08 (cfg : Cfg) (bytes : List Nat) (d : Dump) : List String :=
  let mask := pushDataMask bytes
  let (rs, exact) := reach bytes
  let interesting := fun (i : Nat) => !(mask.getD i false) && bytes.getD i 0 != 0x5b
  let executed := (List.range bytes.length).filter (fun i => interesting i && d.vis.any (fun v => v.getD i 0 > 0))
  let reachable := (List.range bytes.length).filter (fun i => interesting i && rs.contains i)
  let extra := executed.filter (fun i => !reachable.contains i)
  let forkMax := (d.forks.map (·.2)).foldl max 0
  let within := d.ok && exact && acyclic bytes rs && forkMax < cfg.forkLimit && cfg.iterLimit ≥ 1
  let missing := if within then reachable.filter (fun i => !executed.contains i) else []
  -- a jump whose target is pushed right before it and is not a valid EVM destination must not
  -- transfer control: in strict mode the error list names it
  let badJumps := (List.range bytes.length).filter (fun i =>
    !(mask.getD i false) && (bytes.getD i 0 == 0x56 || bytes.getD i 0 == 0x57) &&
    d.vis.any (fun v => v.getD i 0 > 0) &&
    (match pushedBefore bytes mask i with
     | some t => !(validDest bytes mask t)
     | none => false))
  let unreported := if cfg.permissive then [] else
    badJumps.filter (fun i => !(d.errs.any (fun (l, n) => l == i && isJumpKindName n)) &&
      -- (a thread that was out of stack or gas at that jump reports that instead)
      !(d.errs.any (fun (l, _) => l == i)))
  (if !unreported.isEmpty then [s!"C08-invalid-jump-accepted:offset {unreported.head!}"] else []) ++
  (if !extra.isEmpty then [s!"C08-executed-unreachable:offset {extra.head!}"] else []) ++
  (if !missing.isEmpty then [s!"C08-reachable-not-executed:offset {missing.head!}"] else [])

def verdictOf (segs : List String) : String := if segs.isEmpty then "ok" else "FAIL " ++ " ;; ".intercalate segs

def handle (payload impl : String) : String × String :=
  match payload.splitOn " " with
  | [cfg, hex] =>
    match parseCfg cfg, hexBytes? hex with
    | some cfg, some bytes =>
      let verdict :=
        if impl.startsWith "PANIC" then "FAIL C01-panic:" ++ impl
        else match parseDump impl with
          | none => if impl.startsWith "disasm-err" || impl.startsWith "vm-new-err" then "ok" else "FAIL unparsable-impl-answer"
          | some d => verdictOf (oracleC03 cfg bytes d ++ oracleC17single bytes d ++ oracleC17gas cfg bytes d ++ oracleC08 cfg bytes d)
      (runModel cfg bytes, verdict)
    | _, _ => ("bad-request", "ok")
  | _ => ("bad-request", "ok")

/-- family `vm2`: strict and permissive runs of one program. -/
def handle2 (payload impl : String) : String × String :=
  match payload.splitOn " " with
  | [cfg, hex] =>
    match parseCfg cfg, hexBytes? hex with
    | some cfg, some bytes =>
      let model := runModel { cfg with permissive := false } bytes ++ " ### " ++ runModel { cfg with permissive := true } bytes
      let verdict :=
        if impl.contains "PANIC" then "FAIL C01-panic"
        else match impl.splitOn " ### " with
          | [s, p] =>
            (match parseDump s, parseDump p with
             | some ds, some dp =>
               let statesOf := fun (x : String) => " || ".intercalate ((x.splitOn " || ").drop 1)
               let expectedPermErrs := ds.errs.filter (fun (_, n) => !isJumpKindName n)
               verdictOf (
                 (if statesOf s ≠ statesOf p then ["C17-modes-explore-differently"] else []) ++
                 (if dp.errs ≠ expectedPermErrs then ["C17-permissive-errors:expected strict errors minus jump kinds"] else []) ++
                 (if ds.ok && !(dp.ok) then ["C17-strict-ok-permissive-fails"] else []) ++
                 (if dp.ok ≠ expectedPermErrs.isEmpty then ["C17-permissive-result-class"] else []) ++
                 oracleC17single bytes ds ++ oracleC17single bytes dp ++
                 oracleC17gas cfg bytes ds ++ oracleC17gas cfg bytes dp)
             | _, _ => if s.startsWith "disasm-err" then "ok" else "FAIL unparsable-impl-answer")
          | _ => "FAIL unparsable-impl-answer"
      (model, verdict)
    | _, _ => ("bad-request", "ok")
  | _ => ("bad-request", "ok")

end SLE.Driver.VMD
