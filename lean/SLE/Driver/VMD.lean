import SLE.Model.VM
import SLE.Driver.SVText
/-! Driver for family `vm`: run the model machine and print the canonical dump. -/
namespace SLE.Driver.VMD
open SLE SLE.SV SLE.VM SLE.Disasm SLE.Driver

mutual
/-- VM-dump form of a tree: opaque ids print as the creating instruction pointer. -/
def printIp : SV → String
  | .node k attrs kids sz =>
    let as :=
      if k == .knownData then attrs.map (fun a => "0x" ++ natHex a)
      else if k == .value || k == .callData then
        (match attrs with
         | i :: r => toString (i % 2 ^ 32) :: r.map toString
         | [] => [])
      else attrs.map toString
    "(" ++ k.name ++ " " ++ toString sz ++ String.join (as.map (" " ++ ·)) ++ " |" ++ printIpKids kids ++ ")"
def printIpKids : List SV → String
  | [] => ""
  | k :: ks => " " ++ printIp k ++ printIpKids ks
end

def insertSortedStr (x : String) : List String → List String
  | [] => [x]
  | y :: r => if x ≤ y then x :: y :: r else y :: insertSortedStr x r

def sortStrs (l : List String) : List String := l.foldl (fun acc x => insertSortedStr x acc) []

def insertByKey (x : Nat × String) : List (Nat × String) → List (Nat × String)
  | [] => [x]
  | y :: r => if x.1 ≤ y.1 then x :: y :: r else y :: insertByKey x r

def cells (g : List MemCell) : String :=
  ";".intercalate (g.map (fun c => printIp c.data ++ "/" ++ (if c.isWord then "W" else "B")))

def dumpThread (t : Thread) : String :=
  let d := t.d
  let memc := (d.memC.foldl (fun acc (k, g) => insertByKey (k, s!"{k}:" ++ "{" ++ cells g ++ "}") acc) []).map (·.2)
  let mems := sortStrs (d.memS.map (fun (k, g) => printIp k ++ "=>{" ++ cells g ++ "}"))
  let st := sortStrs ((d.stK ++ d.stS).map (fun (k, g) => printIp k ++ "=>{" ++ ";".intercalate (g.map printIp) ++ "}"))
  s!"fp={d.forkPoint} vis=[" ++ ",".intercalate (t.visited.map toString) ++ "] stack=[" ++
    ";".intercalate (d.stack.map printIp) ++ "] memc=[" ++ " ".intercalate memc ++ "] mems=[" ++
    " ".intercalate mems ++ "] st=[" ++ " ".intercalate st ++ "] rec=[" ++
    ";".intercalate (d.recorded.map printIp) ++ "] log=[" ++ ";".intercalate (d.logged.map printIp) ++ "]"

def parseCfg (s : String) : Option Cfg :=
  match (s.splitOn ",").map String.toNat? with
  | [some g, some i, some f, some v, some m, some p] => some ⟨g, i, f, v, m, p != 0⟩
  | _ => none

def enumFrom {α : Type} : Nat → List α → List (Nat × α)
  | _, [] => []
  | n, x :: xs => (n, x) :: enumFrom (n + 1) xs

def runModel (cfg : Cfg) (bytes : List Nat) : String :=
  match disasm bytes with
  | .error e => "disasm-err " ++ (match e with
      | .emptyBytecode => "EmptyBytecode" | .bytecodeTooLarge => "BytecodeTooLarge"
      | .invalidPushSize n => s!"InvalidPushSize({n})")
  | .ok code =>
    let s := run cfg code 20000000 (initVM cfg code)
    match s.aborted with
    | some (.panic site) => "PANIC " ++ site
    | _ =>
      let errs := match s.aborted with
        | some e => [(0, e)]     -- `execute` returned early with a single error
        | none => s.errors
      let res := if errs.isEmpty then "res=ok errs=[]"
        else "res=err errs=[" ++ ";".intercalate (errs.map (fun (l, e) => s!"{l}:{e.name}")) ++ "]"
      let forks := (enumFrom 0 code).filterMap (fun (i, ins) =>
        if ins == .op 0x5b then some s!"{i}:{s.forks.getD i 0}" else none)
      res ++ s!" queue={s.queue.length} forks=[" ++ ";".intercalate forks ++ s!"] nstates={s.stored.length}" ++
        String.join ((enumFrom 0 s.stored).map (fun (i, t) => s!" || S{i} " ++ dumpThread t))

def handle (payload impl : String) : String × String :=
  match payload.splitOn " " with
  | [cfg, hex] =>
    match parseCfg cfg, hexBytes? hex with
    | some cfg, some bytes => (runModel cfg bytes, if impl.startsWith "PANIC" then "FAIL panic:" ++ impl else "ok")
    | _, _ => ("bad-request", "ok")
  | _ => ("bad-request", "ok")

end SLE.Driver.VMD
