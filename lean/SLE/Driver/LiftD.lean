import SLE.Model.Lift
import SLE.Driver.SVText
import SLE.Driver.Keccak
/-! Driver for families `hash` and `lift`. -/
namespace SLE.Driver.LiftD
open SLE SLE.SV SLE.Lift SLE.Driver

/-- the recognised-preimage table of `StorageSlotHashes`: keccak(slot number) for the first
10,000 slot numbers, as a sorted array searched by bisection -/
def slotTable : Array (Nat × Nat) :=
  ((List.range 10000).map (fun i => (Keccak.sha3Words [i], i))).toArray.qsort (fun a b => a.1 < b.1)

def tableLookup (tbl : Array (Nat × Nat)) (w : Nat) : Option Nat := Id.run do
  let mut lo := 0
  let mut hi := tbl.size
  for _ in [0:16] do
    if lo < hi then
      let mid := (lo + hi) / 2
      if tbl[mid]!.1 < w then lo := mid + 1 else hi := mid
  if lo < tbl.size && tbl[lo]!.1 == w then some tbl[lo]!.2 else none

def hashCtx (tbl : Array (Nat × Nat)) : HashCtx := { table := tableLookup tbl, sha3 := Keccak.sha3Words }

def handleHash (payload impl : String) : String × String :=
  let ws := (words payload).filterMap parseAttr
  let h := "0x" ++ natHex (Keccak.sha3Words ws)
  (h, if impl == h then "ok" else "FAIL hash-model-differs")

mutual
/-- constants occurring in key position of a storage access (C05: where slots may come from) -/
def keyConsts : SV → List Nat → List Nat
  | .node _ _ ks _, acc => keyConstsList ks acc
def keyConstsList : List SV → List Nat → List Nat
  | [], acc => acc
  | k :: ks, acc => keyConstsList ks (keyConsts k acc)
end

mutual
/-- every `storageSlot` whose key is a constant: the slots the layout loop will report -/
def constSlots : SV → List Nat → List Nat
  | .node k _ ks _, acc =>
    let acc := match k, ks with
      | .storageSlot, [.node .knownData (w :: _) _ _] => if acc.contains w then acc else w :: acc
      | _, _ => acc
    constSlotsList ks acc
def constSlotsList : List SV → List Nat → List Nat
  | [], acc => acc
  | k :: ks, acc => constSlotsList ks (constSlots k acc)
end

mutual
def subWordsOk : SV → Bool
  | .node k attrs ks _ =>
    (match k, attrs, ks with
     | .subWord, [off, sz], _ => off + sz ≤ 256
     -- a shifted field must end inside the word as well
     | .shifted, [off], [.node .subWord [_, sz] _ _] => off < 256 && off + sz ≤ 256
     | .shifted, [off], _ => off < 256
     -- the spans of a packed encoding: (offset, size) pairs
     | .packed, spans, _ =>
       let rec ok : List Nat → Bool
         | o :: sz :: r => o + sz ≤ 256 && ok r
         | _ => true
       ok spans
     | _, _, _ => true) && subWordsOkList ks
def subWordsOkList : List SV → Bool
  | [] => true
  | k :: ks => subWordsOk k && subWordsOkList ks
end

mutual
/-- finding D20: a sub-word cut out of a narrower sub-word keeps its own width -/
def nestedWider : SV → Bool
  | .node k attrs ks _ =>
    (match k, attrs, ks with
     | .subWord, [o, s], [.node .subWord [_, s'] _ _] => o + s > s'
     | _, _, _ => false) || nestedWiderList ks
def nestedWiderList : List SV → Bool
  | [] => false
  | k :: ks => nestedWider k || nestedWiderList ks
end

/-- does the sub-word pass produce such a nesting on this raw tree? -/
def liftsToNestedWider (t : SV) : Bool :=
  match insertSubWords (nodeCount t + 1) t with
  | .ok v => nestedWider v
  | .error _ => false

def handleLift (tbl : Array (Nat × Nat)) (payload impl : String) : String × String :=
  match parseSV payload with
  | none => ("bad-request", "ok")
  | some t0 =>
    let t := normSizes t0
    -- the answer is `<lifted tree> ## sz=<ok | bad:…>` (the harness recounts the nodes of the output)
    let (implTree, sz) := match impl.splitOn " ## sz=" with
      | [a, b] => (a, b)
      | _ => (impl, "ok")
    let model := match liftAll (hashCtx tbl) t with
      | .ok v => printSV v ++ (if implTree == impl then "" else " ## sz=ok")
      | .error (.panic site) => "PANIC " ++ site
    let verdict :=
      if impl.startsWith "PANIC" then "FAIL C01-panic:" ++ impl
      else if sz != "ok" then "FAIL C18-reported-size-wrong-after-lifting:" ++ sz
      else match parseSV implTree with
        | none => if impl.startsWith "err" then "ok" else "FAIL unparsable-impl-answer"
        | some out =>
          if !(subWordsOk out) then "FAIL C12-subword-outside-slot" else "ok"
    (if model.startsWith "PANIC" && impl.startsWith "PANIC" then impl else model, verdict)

end SLE.Driver.LiftD
