import SLE.Spec.EvalC
import SLE.Spec.TCSpec
import SLE.Driver.VMD
/-! Driver for family `evm` (property C07): every explored path of the implementation's
machine against the concrete reference EVM of `SLE/Spec/EVM.lean`. -/
namespace SLE.Driver.EvmD
open SLE SLE.SV SLE.Driver SLE.EvalC


structure SymState where
  vis : List Nat                       -- offsets with a non-zero visit count
  stack : List SV
  memc : List (Nat × List SV)
  st : List (SV × List SV)

def splitTop (s : String) (sep : String) : List String := (s.splitOn sep).filter (· ≠ "")

def sect (st openS : String) (closeS : String) : String :=
  match st.splitOn openS with
  | _ :: rest :: _ => (rest.splitOn closeS).headD ""
  | _ => ""

def parseGens (body : String) (strip : Bool) : Option (List SV) :=
  let items := splitTop body ";"
  let trees := items.filterMap (fun it =>
    parseSV (if strip then ((it.dropEnd 2).toString) else it))
  if trees.length = items.length then some trees else none

def parseState (st : String) : Option SymState :=
  let vis := ((sect st "vis=[" "]").splitOn ",").filter (· ≠ "") |>.map String.toNat!
  let visSet := (VMD.enumFrom 0 vis).filterMap (fun (i, c) => if c > 0 then some i else none)
  let stackItems := splitTop (sect st "stack=[" "] memc=[") ";"
  let stack := stackItems.filterMap parseSV
  let memItems := splitTop (sect st "memc=[" "] mems=[") "} "
  let memc := memItems.filterMap (fun it =>
    match it.splitOn ":{" with
    | [k, body] => match k.toNat?, parseGens ((body.splitOn "}").headD "") true with
      | some k, some g => some (k, g) | _, _ => none
    | _ => none)
  let stItems := splitTop (sect st "st=[" "] rec=[") "} "
  let stg := stItems.filterMap (fun it =>
    match it.splitOn "=>{" with
    | [k, body] => match parseSV k, parseGens ((body.splitOn "}").headD "") false with
      | some k, some g => some (k, g) | _, _ => none
    | _ => none)
  if stack.length = stackItems.length && memc.length = memItems.length && stg.length = stItems.length then
    some ⟨visSet, stack, memc, stg⟩ else none

def dedupNat (l : List Nat) : List Nat := l.foldl (fun acc x => if acc.contains x then acc else acc ++ [x]) []

def sameSet (a b : List Nat) : Bool := a.all b.contains && b.all a.contains

/-- the differences between one reference path and the symbolic state that executed the same
offsets (empty = the state evaluates to what the EVM computes) -/
def compare (p : EVM.CS) (s : SymState) : List String :=
  -- an entry the size limit has culled into an opaque value has no concrete value: it is
  -- skipped (property C18 is about the limit); anything else must evaluate
  let culled := fun (t : SV) => TCSpec.anyNode (fun k _ _ => k == .value) t
  let vs := s.stack.map evalSV
  let stackDiff :=
    if s.stack.length ≠ p.stack.length then [s!"stack-depth:evm={p.stack.length} tool={s.stack.length}"]
    else if (s.stack.zip vs).any (fun (t, v) => v.isNone && !(culled t)) then ["stack-not-evaluable"]
    else if (vs.zip p.stack).all (fun (v, x) => v.isNone || v == some x) then []
    else [s!"stack:evm={p.stack.map natHex} tool={vs.map (fun v => (v.map natHex).getD "?")}"]
  let offsets := dedupNat ((p.mem.map (·.1)) ++ s.memc.map (·.1))
  let memDiff := offsets.filterMap (fun off =>
    let want := EVM.mload p off
    let got := match s.memc.lookup off with
      | some g => (match g.getLast? with | some t => evalSV t | none => some 0)
      | none => some 0
    if got == some want then none else some s!"memory[{off}]:evm={natHex want}")
  -- storage: the evaluated history per evaluated key
  let symHist : List (Nat × List Nat) := s.st.foldl (fun acc (k, gens) =>
    match evalSV k with
    | none => acc
    | some kv =>
      let writes := (gens.filter (fun g => g.kind != .unwrittenStorageValue)).filterMap evalSV
      if acc.any (·.1 == kv) then acc.map (fun q => if q.1 == kv then (kv, q.2 ++ writes) else q) else acc ++ [(kv, writes)]) []
  let keys := dedupNat ((p.writes.map (·.1)) ++ symHist.map (·.1))
  let stDiff := keys.filterMap (fun k =>
    let want := (p.writes.filter (·.1 == k)).map (·.2)
    let got := (symHist.lookup k).getD []
    if want == got then none else some s!"storage[0x{natHex k}]:evm={want.map natHex} tool={got.map natHex}")
  stackDiff ++ memDiff.take 1 ++ stDiff.take 1

def diffsUnder (q : EVM.Quirks) (bytes : List Nat) (states : List SymState) : List String :=
  let ps := (EVM.paths q bytes).filter (fun (h, _) => h.normal)
  -- the tool's visit counters also tick for the push-data placeholders: leave those out
  let code := bytes.toArray
  let data := EVM.pushData code (code.size + 1) 0 []
  -- (and a JUMPDEST reached by a jump is not counted by the tool: leave JUMPDESTs out on both sides)
  let keep := fun (i : Nat) => !(data.contains i) && bytes.getD i 0 != 0x5b
  let states := states.map (fun s => { s with vis := s.vis.filter keep })
  ps.foldl (fun acc (_, p) =>
    if !acc.isEmpty then acc else
    let visited := (dedupNat p.visited).filter keep
    match states.filter (fun s => sameSet s.vis visited) with
    | [s] => (compare p s).map (fun d => s!"path {visited.getLast?.getD 0}: " ++ d)
    | [] => [s!"path ending at {visited.getLast?.getD 0}: not explored"]
    | _ => [s!"path ending at {visited.getLast?.getD 0}: explored more than once"]) []

def quirkSets : List (List String × EVM.Quirks) :=
  let names := ["signextend-operands-swapped", "addmod-wraps", "mulmod-wraps", "byte-index-wraps"]
  let mk := fun (bits : List Bool) => ({ signextendSwapped := bits.getD 0 false, addmodWraps := bits.getD 1 false,
                                         mulmodWraps := bits.getD 2 false, byteIndexWraps := bits.getD 3 false } : EVM.Quirks)
  let all := (List.range 16).map (fun n => (List.range 4).map (fun i => (n / 2 ^ i) % 2 == 1))
  let sets := all.map (fun bits => ((names.zip bits).filterMap (fun (n, b) => if b then some n else none), mk bits))
  -- smallest sets first
  (List.range 5).flatMap (fun k => sets.filter (fun s => s.1.length == k))

def handle (payload impl : String) : String × String :=
  match payload.splitOn " " with
  | [cfgS, hex] =>
    match VMD.parseCfg cfgS, hexBytes? hex with
    | some cfg, some bytes =>
      let model := VMD.runModel cfg bytes
      let verdict :=
        -- a final PUSH cut short by the end of the code is outside the property's domain (the EVM
        -- pads it with zeros, the tool's stream has an incomplete instruction there; see C10)
        let code := bytes.toArray
        let data := EVM.pushData code (code.size + 1) 0 []
        let truncated := data.any (fun i => i ≥ bytes.length)
        if impl.startsWith "PANIC" then "FAIL C01-panic:" ++ impl
        else if !(impl.startsWith "res=") || truncated then "ok"
        else
          let stateTexts := (impl.splitOn " || ").drop 1
          let states := stateTexts.filterMap parseState
          if states.length ≠ stateTexts.length then "FAIL unparsable-impl-answer"
          else
            -- one storage cell per key expression: the same key tree listed twice means a store and a
            -- load disagreed about where that key lives
            let rec dupKey : List (SV × List SV) → Bool
              | [] => false
              | (k, _) :: r => r.any (fun (k', _) => k.beq k') || dupKey r
            if states.any (fun s => dupKey s.st) then "FAIL C07-storage-key-listed-twice: one key expression has two storage cells on one path" else
            -- C17: a jump the reference EVM refuses (its target is not a valid destination) on some
            -- path must be listed at that offset by a strict run (the programs of this family are
            -- loop-free, so the tool explores every path: cf. the "not explored" check below)
            let refBad := ((EVM.paths {} bytes).filterMap (fun (h, s) =>
              if h == .badJump then s.visited.getLast? else none)).eraseDups
            let listed := match VMD.parseDump impl with
              | some d => d.errs.map (fun (e : Nat × String) => e.1)
              | none => []
            let unsurfaced := if cfg.permissive then [] else refBad.filter (fun i => !(listed.contains i))
            if !unsurfaced.isEmpty then s!"FAIL C17-bad-jump-not-surfaced:offset {unsurfaced.headD 0}" else
            match quirkSets.find? (fun (_, q) => (diffsUnder q bytes states).isEmpty) with
            | some ([], _) => "ok"
            | some (names, _) =>
              let d := (diffsUnder {} bytes states).headD ""
              "FAIL " ++ " ;; ".intercalate (names.map (fun n => s!"C07-{n}: {d.take 300}"))
            | none =>
              -- every syntactically different computed key is a different storage cell to the tool
              let computedKey := states.any (fun s => s.st.any (fun (k, _) => k.kind != .knownData))
              let d := (diffsUnder {} bytes states).headD ""
              -- (a load through a computed key may have been stored to memory or combined further, so
              -- the first difference can be anywhere; programs with computed keys are their own
              -- flavour of the generator and hold none of the other recorded quirks)
              if computedKey then s!"FAIL C07-computed-storage-key: {d.take 300}"
              else s!"FAIL C07-path-differs: {d.take 300}"
      (model, verdict)
    | _, _ => ("bad-request", "ok")
  | _ => ("bad-request", "ok")

/-! ### C18 at the machine level (family `vm`): every value an instruction produced is within the
size limit and reports its true size -/

mutual
/-- (real node count, every node records its real count) -/
def countCheck : SV → Nat × Bool
  | .node _ _ ks sz => let (n, ok) := countCheckList ks; (n + 1, ok && sz == n + 1)
def countCheckList : List SV → Nat × Bool
  | [] => (0, true)
  | k :: ks => let (a, oa) := countCheck k; let (b, ob) := countCheckList ks; (a + b, oa && ob)
end

mutual
/-- kind of a minimal over-limit node: over the limit itself while each kid is within it -/
def minimalOver (lim : Nat) : SV → Option Kind
  | .node k a ks sz =>
    match minimalOverList lim ks with
    | some x => some x
    | none => if (countCheck (.node k a ks sz)).1 > lim then some k else none
def minimalOverList (lim : Nat) : List SV → Option Kind
  | [] => none
  | k :: ks => match minimalOver lim k with
    | some x => some x
    | none => minimalOverList lim ks
end

def oracleC18 (cfg : VM.Cfg) (states : List SymState) : List String :=
  let lim := max cfg.valueLimit 1
  -- (the `UnwrittenStorageValue` placeholder a first load leaves in the storage map is bookkeeping,
  -- not the result of an instruction: key size + 1)
  let trees := states.flatMap (fun s => s.stack ++ s.memc.flatMap (·.2) ++
    s.st.flatMap (fun (k, g) => k :: g.filter (fun v => v.kind != .unwrittenStorageValue)))
  (match trees.find? (fun t => !(countCheck t).2) with
   | some t => [s!"C18-reported-size-wrong: a {t.kind.name} value"]
   | none => []) ++
  (match trees.findSome? (minimalOver lim) with
   | some k =>
     -- `Storage::load` and `Memory::load_slice` build their results without the limit (finding D17)
     if k == .sLoad || k == .unwrittenStorageValue || k == .concat then [s!"C18-unlimited-{k.name}: over {lim} nodes"]
     else [s!"C18-over-limit: a {k.name} node over {lim} nodes"]
   | none => [])

/-- family `vm`: the oracles of `VMD.handle` plus C18 -/
def handleVm (payload impl : String) : String × String :=
  let (m, v) := VMD.handle payload impl
  match payload.splitOn " " with
  | [cfgS, _] =>
    (match VMD.parseCfg cfgS with
     | some cfg =>
       if !(impl.startsWith "res=") then (m, v) else
       let states := ((impl.splitOn " || ").drop 1).filterMap parseState
       let extra := oracleC18 cfg states
       if extra.isEmpty then (m, v)
       else (m, if v == "ok" then VMD.verdictOf extra else v ++ " ;; " ++ " ;; ".intercalate extra)
     | none => (m, v))
  | _ => (m, v)

end SLE.Driver.EvmD
