import SLE.Driver.UnifyD
/-! Driver for family `truth` (C15): the model answer is the unification model's (as family
`unify`); the oracle is an independent evaluator — congruence closure over the declared
equalities and the components of constructed types, then the lattice join of each class's
evidence — compared with what the implementation resolved. -/
namespace SLE.Driver.TruthD
open SLE SLE.Driver SLE.Driver.Types

/-- naive union-find: `rep[v]` by list lookup -/
def find (reps : List Nat) (v : Nat) : Nat := reps.getD v v

def union (reps : List Nat) (a b : Nat) : List Nat :=
  let ra := find reps a; let rb := find reps b
  if ra == rb then reps else
  let (keep, drop) := if ra ≤ rb then (ra, rb) else (rb, ra)
  reps.map (fun r => if r == drop then keep else r)

/-- width join / usage join as a plain lattice (`none` = no upper bound) -/
def joinWord (a b : Option Nat × WordUse) : Option (Option Nat × WordUse) :=
  let w : Option (Option Nat) := match a.1, b.1 with
    | some x, some y => if x == y then some (some x) else none
    | some x, none => some (some x)
    | none, some y => some (some y)
    | none, none => some none
  match w, a.2.merge b.2 with
  | some w, some u => some (w, u)
  | _, _ => none

inductive Shape where
  | none                     -- no evidence at all
  | anyOnly
  | word (w : Option Nat) (u : WordUse)
  | map (k v : Nat)
  | dyn (e : Nat)
  | fixed (e len : Nat)
  | conflict

def joinShape (s : Shape) (e : TE) : Shape :=
  match s, e with
  | .conflict, _ => .conflict
  | s, .any => (match s with | .none => .anyOnly | s => s)
  | .none, .word w u => .word w u
  | .anyOnly, .word w u => .word w u
  | .word w u, .word w' u' => (match joinWord (w, u) (w', u') with
      | some (w, u) => .word w u | none => .conflict)
  | .none, .mapping k v => .map k v
  | .anyOnly, .mapping k v => .map k v
  | .map k v, .mapping _ _ => .map k v
  | .none, .dynamicArray x => .dyn x
  | .anyOnly, .dynamicArray x => .dyn x
  | .dyn x, .dynamicArray _ => .dyn x
  | .none, .fixedArray x l => .fixed x l
  | .anyOnly, .fixedArray x l => .fixed x l
  | .fixed x l, .fixedArray _ l' => if l == l' then .fixed x l else .conflict
  | _, _ => .conflict

/-- congruence closure: equalities, then components of same-class constructed types, to a fixpoint -/
def closure (nvars : Nat) (js : List (Nat × TE)) : List Nat :=
  let reps0 := js.foldl (fun reps (p : Nat × TE) => match p.2 with
    | .equal id => union reps p.1 id | _ => reps) (List.range nvars)
  let rec go (fuel : Nat) (reps : List Nat) : List Nat :=
    match fuel with
    | 0 => reps
    | fuel + 1 =>
      let reps' := js.foldl (fun reps (p : Nat × TE) =>
        js.foldl (fun reps (q : Nat × TE) =>
          if find reps p.1 != find reps q.1 then reps else
          match p.2, q.2 with
          | .mapping k1 v1, .mapping k2 v2 => union (union reps k1 k2) v1 v2
          | .dynamicArray a, .dynamicArray b => union reps a b
          | .fixedArray a la, .fixedArray b lb => if la == lb then union reps a b else reps
          | _, _ => reps) reps) reps
      if reps' == reps then reps else go fuel reps'
  go (nvars + 2) reps0

def shapeOf (reps : List Nat) (js : List (Nat × TE)) (v : Nat) : Shape :=
  let r := find reps v
  js.foldl (fun s (p : Nat × TE) =>
    if find reps p.1 != r then s else
    match p.2 with
    | .equal _ => s
    | e => joinShape s e) .none

def render (reps : List Nat) (js : List (Nat × TE)) : Nat → Nat → List Nat → String
  | depth, v, seen =>
    let r := find reps v
    if seen.contains r then "#cycle" else
    match depth with
    | 0 => "#deep"
    | depth + 1 =>
      let seen' := r :: seen
      match shapeOf reps js v with
      | .none => "any0"
      | .anyOnly => "any"
      | .word w u => teText (.word w u)
      | .map k w => "map(" ++ render reps js depth k seen' ++ "," ++ render reps js depth w seen' ++ ")"
      | .dyn x => "dyn(" ++ render reps js depth x seen' ++ ")"
      | .fixed x l => "fixed(" ++ render reps js depth x seen' ++ "," ++ toString l ++ ")"
      | .conflict => "conflict"

def handle (payload impl : String) : String × String :=
  match words payload with
  | ord :: nv :: budget :: _mode :: js =>
    let unifyPayload := " ".intercalate (ord :: nv :: budget :: js)
    let (model, v0) := UnifyD.handle unifyPayload impl
    match nv.toNat? with
    | none => (model, "ok")
    | some nvars =>
      let parsed := js.filterMap (fun j => match j.splitOn ">" with
        | [v, e] => match v.toNat?, parseTE e with
          | some v, some e => some (v, e) | _, _ => none
        | _ => none)
      let reps := closure nvars parsed
      -- compare per variable what the implementation resolved with the independent join
      let implTypes : List (Nat × String) := match (impl.splitOn "types=[").drop 1 with
        | rest :: _ =>
          let body := (rest.dropEnd 1).toString
          (body.splitOn ";").filterMap (fun (x : String) => match x.splitOn ":" with
            | v :: t => v.toNat?.map (fun v => (v, ":".intercalate t))
            | [] => none)
        | [] => []
      let norm := fun (s : String) => s.replace "any0" "any"
      let bad := (List.range nvars).find? (fun v =>
        let want := render reps parsed 6 v []
        match implTypes.lookup v with
        | some got =>
          -- a conflict anywhere below makes deeper comparison meaningless: compare heads then
          if want == "conflict" then !(got.startsWith "conflict")
          else if (want.splitOn "conflict").length > 1 || (got.splitOn "#deep").length > 1 then false
          else norm got != norm want
        | none => true)
      let verdict :=
        if v0.startsWith "FAIL" then v0
        else match bad with
          | some v =>
            let want := render reps parsed 6 v []
            let got := (implTypes.lookup v).getD "?"
            if want == "conflict" then s!"FAIL C15-contradiction-not-reported:variable {v} resolved to {got}"
            else if got.startsWith "conflict" then s!"FAIL C15-compatible-evidence-conflicts:variable {v} expected {want}"
            else s!"FAIL C15-not-the-join:variable {v} expected {want} got {got}"
          | none => "ok"
      (model, verdict)
  | _ => ("bad-request", "ok")

end SLE.Driver.TruthD
