import SLE.Model.SV
import SLE.Driver.Util
/-! Text form of value trees: `(kind size attr* | kid*)` (see harness/src/sv.rs). -/
namespace SLE.Driver
open SLE

def tokenize (s : String) : List String :=
  let spaced := (s.replace "(" " ( ").replace ")" " ) "
  (spaced.splitOn " ").filter (· ≠ "")

def parseAttr (t : String) : Option Nat :=
  if t.startsWith "0x" then hexNat? ((t.drop 2).toString) else t.toNat?

/-- Parse one node; fuel bounds the recursion (one unit per token suffices). -/
def parseNode : Nat → List String → Option (SV × List String)
  | 0, _ => none
  | fuel + 1, "(" :: kind :: size :: rest =>
    match Kind.ofName kind, size.toNat? with
    | some k, some sz =>
      let rec attrsLoop (f : Nat) (ts : List String) (acc : List Nat) : Option (List Nat × List String) :=
        match f, ts with
        | 0, _ => none
        | _, "|" :: r => some (acc.reverse, r)
        | f + 1, t :: r => match parseAttr t with
          | some a => attrsLoop f r (a :: acc)
          | none => none
        | _, [] => none
      match attrsLoop (rest.length + 1) rest [] with
      | none => none
      | some (attrs, rest) =>
        let rec kidsLoop (f : Nat) (ts : List String) (acc : List SV) : Option (List SV × List String) :=
          match f, ts with
          | 0, _ => none
          | _, ")" :: r => some (acc.reverse, r)
          | f + 1, ts => match parseNode fuel ts with
            | some (kid, r) => kidsLoop f r (kid :: acc)
            | none => none
        match kidsLoop (rest.length + 1) rest [] with
        | some (kids, rest) => some (.node k attrs kids sz, rest)
        | none => none
    | _, _ => none
  | _, _ => none

def parseSV (s : String) : Option SV :=
  let toks := tokenize s
  match parseNode (toks.length + 1) toks with
  | some (t, []) => some t
  | _ => none

/-- Which attribute positions print as hex words. -/
def attrIsWord (k : Kind) : Bool := k == .knownData

mutual
def printSV : SV → String
  | .node k attrs kids sz =>
    let as := attrs.map (fun a => if attrIsWord k then "0x" ++ natHex a else toString a)
    "(" ++ k.name ++ " " ++ toString sz ++ String.join (as.map (" " ++ ·)) ++ " |" ++ printKids kids ++ ")"
def printKids : List SV → String
  | [] => ""
  | k :: ks => " " ++ printSV k ++ printKids ks
end

/-- Normalise recorded sizes of a parsed *request* tree the way the harness builder does
(`RSV::new` with no limit at every node: size = sum of kids' sizes + 1). -/
def normSizes : SV → SV
  | .node k attrs kids _ =>
    let rec go : List SV → List SV
      | [] => []
      | x :: xs => normSizes x :: go xs
    SV.rebuild k attrs (go kids)

end SLE.Driver
