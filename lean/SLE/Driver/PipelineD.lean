import SLE.Driver.Util
import SLE.Driver.UnifyD
import SLE.Spec.EVM
import SLE.Driver.VMD
import SLE.Driver.LiftD
import SLE.Driver.SlotOracle
import SLE.Driver.AbiText
import SLE.Model.Pipe
/-! Oracles for families `pipeline` and `orders` (no model answer: these families are
oracle-only until the type-checking pipeline is modelled end to end). -/
namespace SLE.Driver.PipelineD
open SLE.Driver

structure Entry where
  index : Nat
  offset : Nat
  typ : String

def between (s openS closeS : String) : Option String :=
  match s.splitOn openS with
  | _ :: rest :: _ => (rest.splitOn closeS).head?
  | _ => none

/-- split `a;b;c` at top level only (types contain no `;`) -/
def parseLayout (impl : String) : Option (List Entry) :=
  match impl.splitOn "layout=[" with
  | [_, rest] =>
    let body := (rest.splitOn "]").headD ""
    let items := (body.splitOn ";").filter (· ≠ "")
    let es := items.filterMap (fun it => match it.splitOn ":" with
      | idx :: off :: ty =>
        match (if idx.startsWith "0x" then hexNat? ((idx.drop 2).toString) else none), off.toNat? with
        | some i, some o => some (⟨i, o, ":".intercalate ty⟩ : Entry)
        | _, _ => none
      | _ => none)
    if es.length = items.length then some es else none
  | _ => none

/-- known bit width of a reported type, if any -/
def widthOf (t : String) : Option Nat :=
  if t = "address" then some 160 else if t = "bool" then some 8 else if t = "selector" then some 32
  else if t = "function" then some 192
  else
    let inner := ((t.drop 1).dropEnd 1).toString
    match inner.splitOn " " with
    | ["number", n] => n.toNat?
    | ["uint", n] => n.toNat?
    | ["int", n] => n.toNat?
    | ["bits", n] => n.toNat?
    | ["bytes", n] => n.toNat?.map (· * 8)
    | _ => none

def sortedBy (es : List Entry) : Bool :=
  match es with
  | [] => true
  | e :: rest =>
    (rest.foldl (fun (acc : Bool × Entry) x =>
      (acc.1 && (acc.2.index < x.index || (acc.2.index == x.index && acc.2.offset ≤ x.offset)), x)) (true, e)).1

/-- C12 on the implementation's layout. -/
def oracleC12 (es : List Entry) : List String :=
  (if !(sortedBy es) then ["C12-not-sorted"] else []) ++
  (match es.find? (fun e => e.offset ≥ 256) with
   | some e => [s!"C12-entry-starts-outside-slot:offset {e.offset}"] | none => []) ++
  (match es.find? (fun e => match widthOf e.typ with | some w => e.offset + w > 256 | none => false) with
   | some e => [s!"C12-entry-ends-outside-slot:offset {e.offset} type {e.typ}"] | none => [])

def verdictOf (segs : List String) : String := if segs.isEmpty then "ok" else "FAIL " ++ " ;; ".intercalate segs

/-- every value the model machine leaves behind for this program (for attribution only) -/
def harvestModel (payload : String) : List SLE.SV :=
  match words payload with
  | [_, cfgS, hex] =>
    (match VMD.parseCfg cfgS, hexBytes? hex with
     | some cfg, some bytes =>
       (match SLE.Disasm.disasm bytes with
        | .ok code =>
          let s := SLE.VM.run cfg code 2000000 (SLE.VM.initVM cfg code)
          -- `VMState::all_values`: stack, recorded and logged values, memory generations, and
          -- every storage generation as a `StorageWrite { key, value }`
          s.stored.flatMap (fun t =>
            t.d.stack ++ t.d.recorded ++ t.d.logged ++ t.d.memC.flatMap (fun (_, g) => g.map (·.data)) ++
            t.d.memS.flatMap (fun (_, g) => g.map (·.data)) ++
            (t.d.stK ++ t.d.stS).flatMap (fun (k, g) => g.map (fun v => SLE.SV.rebuild .storageWrite [] [k, v])))
        | .error _ => [])
     | _, _ => [])
  | _ => []

/-- no storage instruction at all: nothing to harvest for the slot oracle -/
def harvestModelQuick (payload : String) : Bool :=
  match hexBytes? ((words payload).getLast?.getD "") with
  | some bytes => !(bytes.contains 0x54) && !(bytes.contains 0x55)
  | none => true

/-- C12 with attribution of finding D20 (a mask nested in a narrower mask) -/
def oracleC12attr (payload : String) (es : List Entry) : List String :=
  let c12 := oracleC12 es
  if !c12.isEmpty && (harvestModel payload).any LiftD.liftsToNestedWider
  then c12.map (fun x => x.replace "C12-entry-" "C12-nested-mask-entry-") else c12

/-- C05 on whole programs: code without any SLOAD / SSTORE instruction has an empty layout -/
def oracleC05 (payload : String) (es : List Entry) : List String :=
  match hexBytes? ((words payload).getLast?.getD "") with
  | none => []
  | some bytes =>
    let code := bytes.toArray
    let data := EVM.pushData code (code.size + 1) 0 []
    let touches := (List.range bytes.length).any (fun i => (bytes.getD i 0 == 0x54 || bytes.getD i 0 == 0x55) && !(data.contains i))
    if !touches && !es.isEmpty then [s!"C05-storage-free-program-has-slots:0x{natHex (es.headD ⟨0, 0, ""⟩).index}"] else []

open SLE SLE.Unify SLE.Containers in
/-- Does some class, in some round of the (pinned-behaviour) model, hold three pieces of
evidence in the region `MergeLaws.Bad` where `merge` is not associative (finding D11)?
`C02_foldMerge_perm` proves that without such a triple (and without packed evidence) the fold
of a class is independent of the order. -/
def badTripleInSomeClass (packedToo : Bool) (nvars : Nat) (js : List (Nat × TE)) : Bool :=
  let infs := UnifyD.buildInfs js
  let infOf := fun v => (infs.lookup v).getD []
  let hasBad := fun (l : List TE) =>
    let pf := l.filter MergeLaws.PF
    if !packedToo then pf.any (fun a => pf.any (fun b => pf.any (fun c => MergeLaws.Bad a b c)))
    else
      -- a packed encoding with spans in a class that also holds two words conflicting with each
      -- other: whether the conflict is seen depends on which of them the encoding absorbs first
      let hasPacked := l.any (fun e => match e with | .packed (_ :: _) _ => true | _ => false)
      -- (first seen with a full-width word, finding D18; it is the same arm for any width: the
      -- encoding re-partitions itself around whichever word it meets first, and the second word
      -- then meets a span instead of the first word)
      -- … and likewise for two encodings with different boundaries plus a word: the packed arms of
      -- `merge` are outside the fragment on which commutativity / associativity are proved, and
      -- every order dependence seen in a class that mixes an encoding with two more pieces of
      -- evidence is recorded under finding D18
      let isWord := fun (e : TE) => match e with | .word _ _ => true | _ => false
      let packedCount := (l.filter (fun e => match e with | .packed (_ :: _) _ => true | _ => false)).length
      let wordCount := (l.filter isWord).length
      hasPacked && (packedCount + wordCount ≥ 3 ||
        pf.any (fun b => isWord b && pf.any (fun c => isWord c && MergeLaws.conflicts b c)))
  let rec go (fuel : Nat) (f : Forest) (next : Nat) : Bool :=
    match fuel with
    | 0 => false
    | fuel + 1 =>
      let (f1, sets) := f.sets setM
      if sets.any (fun (p : Nat × List TE) => hasBad p.2) then true
      else match round UnifyD.sortedOrders f1 next 0 with
        | .ok acc => if acc.progress then go fuel acc.forest acc.next else false
        | .error _ => false
  match initForest UnifyD.sortedOrders (List.range nvars) infOf with
  | .ok f0 => go 40 f0 nvars
  | .error _ => false

/-- the whole analysis on the model (none: an outcome whose text is not comparable) -/
def modelRun (tbl : Array (Nat × Nat)) (payload : String) : Option (String × SLE.TC.Analysis) :=
  match words payload with
  | [_, cfgS, hex] =>
    (match VMD.parseCfg cfgS, hexBytes? hex with
     | some cfg, some bytes =>
       (match SLE.Pipe.analyseProgram (LiftD.hashCtx tbl) UnifyD.sortedOrders cfg bytes 2000000 400 with
        | .disasmError _ => none
        | .execErrors es => some ("res=err kinds=[" ++ ";".intercalate (es.map (fun (l, e) => s!"{l}:X.{e.name}")) ++ "]", ⟨0, 0, [], .layout []⟩)
        | .analysed a => (match a.outcome with
          | .layout l => some ("res=ok layout=" ++ AbiText.layoutText l, a)
          | _ => none))
     | _, _ => none)
  | _ => none

/-- K for the whole pipeline: the model's answer, unless the outcome is not comparable or the two
differ on a program whose evidence is order dependent (findings D11 / D18: the code visits its
hash maps in another order than the model's lists) -/
def pipelineModel (tbl : Array (Nat × Nat)) (payload implCore : String) : String :=
  -- compared under the hooks' `sorted` order only: the natural (per-process random) hash order
  -- would make an order dependence show up in one run and not in the next
  if (words payload).headD "" != "sorted" then implCore else
  match modelRun tbl payload with
  | none => implCore
  | some (m, a) =>
    if m == implCore then m
    else
      let js := a.infs.flatMap (fun (v, es) => es.map (fun e => (v, e)))
      if badTripleInSomeClass false a.allocated js || badTripleInSomeClass true a.allocated js then implCore else m

def handle (tbl : Array (Nat × Nat)) (payload impl : String) : String × String :=
  let implCore := ((impl.splitOn " polls=").headD impl)
  let model := pipelineModel tbl payload implCore
  let segs :=
    if impl.startsWith "PANIC" then ["C01-panic:" ++ impl]
    else if impl.startsWith "res=err" then
      (if (impl.splitOn "StoppedByWatchdog").length > 1 then
         [(if (impl.splitOn "U.StoppedByWatchdog").length > 1 then "C03-analysis-does-not-halt:unification"
           else "C03-analysis-does-not-halt:execution")] else [])
    else match parseLayout impl with
      | some es => oracleC12attr payload es ++ oracleC05 payload es ++
          (if es.isEmpty && (harvestModelQuick payload) then [] else SlotOracle.check tbl (harvestModel payload) (es.map (·.index)))
      | none => ["unparsable-impl-answer"]
  (model ++ ((impl.splitOn implCore).getD 1 ""), verdictOf segs)

/-- family `orders`: one program under 8 iteration orders -/
def handleOrders (_payload impl0 : String) : String × String :=
  let (impl, dump) := match impl0.splitOn " @@@ " with
    | [a, b] => (a, b)
    | _ => (impl0, "")
  let attributed : Nat :=
    match words dump with
    | nv :: js =>
      (match nv.toNat? with
       | some nvars =>
         let parsed := js.filterMap (fun j => match j.splitOn ">" with
           | [v, e] => match v.toNat?, Types.parseTE e with
             | some v, some e => some (v, e) | _, _ => none
           | _ => none)
         if badTripleInSomeClass false nvars parsed then 1
         else if badTripleInSomeClass true nvars parsed then 2 else 0
       | none => 0)
    | [] => 0
  let outs := impl.splitOn " ### "
  let segs :=
    (if outs.any (·.startsWith "PANIC") then ["C01-panic"] else []) ++
    (match outs with
     | [] => []
     | first :: rest =>
       match rest.find? (· ≠ first) with
       | some other =>
         [(if attributed == 1 then "C02-order-dependent-absorber:"
           else if attributed == 2 then "C02-order-dependent-packed-absorber:" else "C02-order-dependent:") ++
            first.take 160 ++ " <> " ++ other.take 160]
       | none => [])
  ("n/a", verdictOf segs)

end SLE.Driver.PipelineD
