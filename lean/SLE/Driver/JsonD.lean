import SLE.Model.Json
import SLE.Model.JsonText
import SLE.Driver.Util
/-! Driver for family `json`. -/
namespace SLE.Driver.JsonD
open SLE.JsonModel SLE.Driver

def tokenize (s : String) : List String :=
  (((s.replace "(" " ( ").replace ")" " ) ").splitOn " ").filter (· ≠ "")

def optNat (s : String) : Option (Option Nat) := if s == "?" then some none else s.toNat?.map some

def parseWordTok (t : String) : Option Nat :=
  if t.startsWith "0x" then hexNat? ((t.drop 2).toString) else t.toNat?

/-- a conflict payload word of the request: `[a-z]+` as is, `~<hex>` = the string with these UTF-8 bytes -/
def payloadWord (t : String) : Option String :=
  if t.startsWith "~" then
    (hexBytes? ((t.drop 1).toString)).bind (fun bs => String.fromUTF8? (ByteArray.mk (bs.map (·.toUInt8)).toArray))
  else some t

/-- fuel-bounded parser of the AbiType text form -/
def parseAbi : Nat → List String → Option (AbiType × List String)
  | 0, _ => none
  | fuel + 1, tok :: rest =>
    if tok ≠ "(" then
      (match tok with
       | "any" => some (.any, rest) | "address" => some (.address, rest)
       | "selector" => some (.selector, rest) | "function" => some (.function, rest)
       | "bool" => some (.bool, rest) | "dynbytes" => some (.dynBytes, rest)
       | "infinite" => some (.infiniteType, rest) | _ => none)
    else match rest with
      | "number" :: s :: ")" :: r => (optNat s).map (fun s => (.number s, r))
      | "uint" :: s :: ")" :: r => (optNat s).map (fun s => (.uInt s, r))
      | "int" :: s :: ")" :: r => (optNat s).map (fun s => (.int s, r))
      | "bytes" :: s :: ")" :: r => (optNat s).map (fun s => (.bytes s, r))
      | "bits" :: s :: ")" :: r => (optNat s).map (fun s => (.bits s, r))
      | "array" :: n :: r =>
        (match parseWordTok n, parseAbi fuel r with
         | some n, some (t, ")" :: r) => some (.array n t, r)
         | _, _ => none)
      | "dynarray" :: r =>
        (match parseAbi fuel r with
         | some (t, ")" :: r) => some (.dynArray t, r)
         | _ => none)
      | "mapping" :: r =>
        (match parseAbi fuel r with
         | some (k, r) => (match parseAbi fuel r with
           | some (v, ")" :: r) => some (.mapping k v, r)
           | _ => none)
         | none => none)
      | "struct" :: r =>
        let rec elems (f : Nat) (ts : List String) (acc : List StructElement) : Option (List StructElement × List String) :=
          match f, ts with
          | 0, _ => none
          | _, ")" :: r => some (acc.reverse, r)
          | f + 1, "(" :: off :: r =>
            (match off.toNat?, parseAbi fuel r with
             | some off, some (t, ")" :: r) => elems f r (.mk off t :: acc)
             | _, _ => none)
          | _, _ => none
        (elems (r.length + 1) r []).map (fun (es, r) => (.struct es, r))
      | "conflict" :: body :: ")" :: r =>
        (match body.splitOn "|" with
         | [c, rs] =>
           (match (((c.splitOn ",").filter (· ≠ "")).mapM payloadWord), (((rs.splitOn ",").filter (· ≠ "")).mapM payloadWord) with
            | some c, some rs => some (.conflictedType c rs, r)
            | _, _ => none)
         | _ => none)
      | _ => none
  | _, [] => none

def jsonStr (s : String) : String := "\"" ++ s ++ "\""

mutual
def printJson : Json → String
  | .null => "null"
  | .num n => toString n
  | .str s => jsonStr s
  | .arr items => "[" ++ printItems items ++ "]"
  | .obj fields => "{" ++ printFields fields ++ "}"
def printItems : List Json → String
  | [] => ""
  | [x] => printJson x
  | x :: r => printJson x ++ "," ++ printItems r
def printFields : List (String × Json) → String
  | [] => ""
  | [(k, v)] => jsonStr k ++ ":" ++ printJson v
  | (k, v) :: r => jsonStr k ++ ":" ++ printJson v ++ "," ++ printFields r
end

def handle (payload impl : String) : String × String :=
  match payload.splitOn " " with
  | idx :: off :: rest =>
    let toks := tokenize (" ".intercalate rest)
    match parseWordTok idx, off.toNat?, parseAbi (toks.length + 1) toks with
    | some i, some o, some (t, []) =>
      let slot : StorageSlot := ⟨i, o, t⟩
      let j := encodeSlot slot
      -- the model's own round trip (must be `some`): reported in the model answer
      let rt := match decodeSlot j with | some _ => 1 | none => 0
      -- the text layer is `JsonText.render` (serde_json's compact form with its escaping), the
      -- function `C20_text_roundtrip` is about
      let text := String.ofList (SLE.JsonText.render j)
      let model := s!"rt={rt} same=1 json=" ++ text
      -- … and the code's own text must parse back to the entry with the proven parser
      let implText := ((impl.splitOn " json=").getD 1 "")
      let back := (SLE.JsonText.parseSlot implText.toList).map SLE.JsonText.renderSlot
      let parsesBack := back == some (SLE.JsonText.renderSlot slot)
      let hex := String.ofList (toHex64 i)
      let verdict :=
        if impl.startsWith "PANIC" then "FAIL panic"
        else if !(impl.startsWith "rt=1 ") then "FAIL round-trip"
        else if !parsesBack then "FAIL text-does-not-parse-back"
        else if !(((impl.splitOn ("\"index\":\"" ++ hex ++ "\"")).length == 2)) then "FAIL index-text-shape"
        else if hex.length ≠ 66 then "FAIL index-length"
        else "ok"
      (model, verdict)
    | _, _, _ => ("bad-request", "ok")
  | _ => ("bad-request", "ok")

end SLE.Driver.JsonD
