import SLE.Model.Fold
import SLE.Driver.SVText
/-! Driver for families `word` and `fold`. -/
namespace SLE.Driver.Value
open SLE SLE.Driver SLE.SV

def wordHex (w : Word) : String := "0x" ++ natHex w.toNat

def parseWord (s : String) : Option Word := (parseAttr s).map (BitVec.ofNat 256)

def knownByName : String → Option (Word → Word → Word)
  | "add" => some Known.add | "mul" => some Known.mul | "sub" => some Known.sub
  | "div" => some Known.div | "sdiv" => some Known.signedDiv | "mod" => some Known.rem
  | "smod" => some Known.signedRem | "exp" => some Known.exp | "lt" => some Known.lt
  | "gt" => some Known.gt | "slt" => some Known.signedLt | "sgt" => some Known.signedGt
  | "eq" => some Known.eq | "and" => some Known.and | "or" => some Known.or
  | "xor" => some Known.xor | "shl" => some Known.shl | "shr" => some Known.shr
  | "sar" => some Known.sar | _ => none

/-- Executable `a ^ b mod 2^256` by repeated squaring over `Nat` (used by the oracle in place
of the logical `Spec.exp`, whose `Nat` power is not computable for 256-bit exponents). -/
def powMod (a b : Nat) : Nat :=
  let rec go (fuel acc base e : Nat) : Nat :=
    match fuel with
    | 0 => acc
    | fuel + 1 => if e = 0 then acc else
        go fuel (if e % 2 = 1 then acc * base % 2 ^ 256 else acc) (base * base % 2 ^ 256) (e / 2)
  go 257 1 (a % 2 ^ 256) b

def specExpExec (a b : Word) : Word := BitVec.ofNat 256 (powMod a.toNat b.toNat)

def specByName : String → Option (Word → Word → Word)
  | "add" => some Spec.add | "mul" => some Spec.mul | "sub" => some Spec.sub
  | "div" => some Spec.div | "sdiv" => some Spec.sdiv | "mod" => some Spec.mod
  | "smod" => some Spec.smod | "exp" => some specExpExec | "lt" => some Spec.lt
  | "gt" => some Spec.gt | "slt" => some Spec.slt | "sgt" => some Spec.sgt
  | "eq" => some Spec.eq | "and" => some Spec.and | "or" => some Spec.or
  | "xor" => some Spec.xor | "shl" => some Spec.shl | "shr" => some Spec.shr
  | "sar" => some Spec.sar | _ => none

def handleWord (payload impl : String) : String × String :=
  match words payload with
  | ["iszero", a] => match parseWord a with
    | some a => (wordHex (Known.isZero a),
        if impl = wordHex (Spec.isZero a) then "ok" else "FAIL iszero:want " ++ wordHex (Spec.isZero a))
    | none => ("bad-request", "ok")
  | ["not", a] => match parseWord a with
    | some a => (wordHex (Known.not a),
        if impl = wordHex (Spec.not a) then "ok" else "FAIL not:want " ++ wordHex (Spec.not a))
    | none => ("bad-request", "ok")
  | [op, a, b] => match knownByName op, specByName op, parseWord a, parseWord b with
    | some f, some g, some a, some b =>
      let want := wordHex (g a b)
      (wordHex (f a b), if impl = want then "ok"
        else if impl.startsWith "PANIC" then s!"FAIL {op}:panic"
        else s!"FAIL {op}:want {want}")
    | _, _, _, _ => ("bad-request", "ok")
  | _ => ("bad-request", "ok")

/-! #### fold -/

def specBinExec (k : Kind) : Option (Word → Word → Word) :=
  if k == .exp then some specExpExec else specBin k

/-- A pseudo-random interpretation of the non-foldable kinds, parameterised by a salt. -/
def mixInterp (salt : Nat) : Interp := fun k attrs vs =>
  let h0 : Nat := (salt * 1000003 + k.name.hash.toNat) % (2 ^ 256)
  let h1 : Nat := attrs.foldl (fun h a => (h * 6364136223846793005 + a + 1442695040888963407) % 2 ^ 256) h0
  let h2 : Nat := vs.foldl (fun h v => (h * 2862933555777941757 + v.toNat + 3037000493) % 2 ^ 256) h1
  -- make small values likely too so comparisons / shifts are exercised
  BitVec.ofNat 256 (if h2 % 4 = 0 then h2 % 300 else if h2 % 4 = 1 then 2 ^ 256 - 1 - (h2 % 300) else h2 * h2)

mutual
def evalExec (I : Interp) : SV → Word
  | .node k attrs ks _ =>
    let vs := evalExecList I ks
    match k, attrs with
    | .knownData, w :: _ => BitVec.ofNat 256 w
    | _, _ =>
      match specBinExec k, vs with
      | some f, [x, y] => f x y
      | _, _ =>
        match specUn k, vs with
        | some f, [x] => f x
        | _, _ => I k attrs vs
def evalExecList (I : Interp) : List SV → List Word
  | [] => []
  | k :: ks => evalExec I k :: evalExecList I ks
end

mutual
/-- Folded tree is a constant or the same operator over shape-respecting operands. -/
def shapeOk : SV → SV → Bool
  | .node k a ks _, .node k' a' ks' _ =>
    (k' == .knownData) || (k == k' && a == a' && shapeOkList ks ks')
def shapeOkList : List SV → List SV → Bool
  | [], [] => true
  | x :: xs, y :: ys => shapeOk x y && shapeOkList xs ys
  | _, _ => false
end

mutual
def sizesTrue : SV → Bool
  | .node _ _ ks s => s == nodeCountList ks + 1 && sizesTrueList ks
def sizesTrueList : List SV → Bool
  | [] => true
  | k :: ks => sizesTrue k && sizesTrueList ks
end

mutual
/-- A foldable operator all of whose operands are constants must not survive. -/
def noConstOp : SV → Bool
  | .node k _ ks _ =>
    let allK := ks.all (fun c => c.kind == .knownData)
    let foldable := (knownBin k).isSome && ks.length == 2 || (knownUn k).isSome && ks.length == 1
    !(foldable && allK) && noConstOpList ks
def noConstOpList : List SV → Bool
  | [] => true
  | k :: ks => noConstOp k && noConstOpList ks
end

def handleFold (payload impl : String) : String × String :=
  match parseSV payload with
  | none => ("bad-request", "ok")
  | some t0 =>
    let t := normSizes t0
    let f1 := fold t
    let f2 := fold f1
    let model := printSV f1 ++ " ;; " ++ printSV f2
    let verdict :=
      if impl.startsWith "PANIC" then "FAIL panic:" ++ impl
      else match impl.splitOn " ;; " with
      | [a, b] =>
        match parseSV a with
        | none => "FAIL unparsable-impl-answer"
        | some ia =>
          if a ≠ b then "FAIL not-idempotent"
          else if !(shapeOk t ia) then "FAIL operator-or-operands-changed"
          else if !(noConstOp ia) then "FAIL constant-subexpression-left"
          else if !(sizesTrue ia) then "FAIL recorded-size"
          else
            let bad := [1, 2, 3, 4, 5, 6].filter (fun s => evalExec (mixInterp s) ia ≠ evalExec (mixInterp s) t)
            if bad.isEmpty then "ok" else s!"FAIL denotation-changed:salt{bad.head!}"
      | _ => "FAIL unparsable-impl-answer"
    (model, verdict)

/-! #### size -/

/-- Rebuild bottom-up through the culling constructor; culled values get ids `10^6 + counter`. -/
def buildLim (limit : Option Nat) : SV → Nat → SV × Nat
  | .node k attrs ks _, ctr =>
    let rec go : List SV → Nat → List SV × Nat
      | [], c => ([], c)
      | x :: xs, c =>
        let (x', c1) := buildLim limit x c
        let (xs', c2) := go xs c1
        (x' :: xs', c2)
    let (ks', c) := go ks ctr
    (SV.mk limit (1000000 + c) k attrs ks', c + 1)

mutual
def collectIds : SV → List Nat → List Nat
  | .node k attrs ks _, acc =>
    let acc := if (k == .value || k == .callData) then (match attrs with | i :: _ => if acc.contains i then acc else i :: acc | [] => acc) else acc
    collectIdsList ks acc
def collectIdsList : List SV → List Nat → List Nat
  | [], acc => acc
  | k :: ks, acc => collectIdsList ks (collectIds k acc)
end

/-- Renumber generated ids (>= 10^6) by first occurrence in print order to the next unused
small numbers — the same canonicalisation the harness applies to fresh `Uuid`s. -/
structure Renum where
  used : List Nat
  map : List (Nat × Nat)
  next : Nat

def Renum.get (r : Renum) (i : Nat) : Renum × Nat :=
  if i < 1000000 then (r, i) else
  match r.map.lookup i with
  | some j => (r, j)
  | none =>
    let rec findFree (fuel n : Nat) : Nat :=
      match fuel with
      | 0 => n
      | fuel + 1 => if r.used.contains n then findFree fuel (n + 1) else n
    let j := findFree (r.used.length + 1) r.next
    ({ used := j :: r.used, map := (i, j) :: r.map, next := j + 1 }, j)

mutual
def renumber : SV → Renum → SV × Renum
  | .node k attrs ks s, r =>
    let (attrs', r1) :=
      if (k == .value || k == .callData) then
        (match attrs with
         | i :: rest => let (r', j) := r.get i; (j :: rest, r')
         | [] => (attrs, r))
      else (attrs, r)
    let (ks', r2) := renumberList ks r1
    (.node k attrs' ks' s, r2)
def renumberList : List SV → Renum → List SV × Renum
  | [], r => ([], r)
  | k :: ks, r =>
    let (k', r1) := renumber k r
    let (ks', r2) := renumberList ks r1
    (k' :: ks', r2)
end

def handleSize (payload impl : String) : String × String :=
  match payload.splitOn " " with
  | lim :: rest =>
    let limit : Option Nat := if lim == "none" then none else lim.toNat?
    match parseSV (" ".intercalate rest) with
    | none => ("bad-request", "ok")
    | some t0 =>
      let (built, _) := buildLim limit t0 0
      let folded := fold built
      let r0 : Renum := { used := collectIds t0 [], map := [], next := 0 }
      let (b', r1) := renumber built r0
      let (f', _) := renumber folded r1
      let model := printSV b' ++ " ;; " ++ printSV f'
      let verdict :=
        if impl.startsWith "PANIC" then "FAIL panic:" ++ impl
        else match impl.splitOn " ;; " with
        | [a, b] =>
          match parseSV a, parseSV b with
          | some ia, some ib =>
            if !(sizesTrue ia) then "FAIL recorded-size:built"
            else if !(sizesTrue ib) then "FAIL recorded-size:folded"
            else match limit with
              | some l => if nodeCount ia > max l 1 then s!"FAIL over-limit:{nodeCount ia}>{l}"
                          else if nodeCount ib > max l 1 then s!"FAIL over-limit-after-fold:{nodeCount ib}>{l}" else "ok"
              | none => "ok"
          | _, _ => "FAIL unparsable-impl-answer"
        | _ => "FAIL unparsable-impl-answer"
      (model, verdict)
  | _ => ("bad-request", "ok")

end SLE.Driver.Value
