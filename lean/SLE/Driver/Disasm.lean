import SLE.Model.Disasm
import SLE.Driver.Util
/-! Driver for family `disasm`: model answer and the C10 oracle on the implementation's answer. -/
namespace SLE.Driver.Disasm
open SLE.Disasm SLE.Driver

def token : Instr → String
  | .op b => "o" ++ byteHex b
  | .push n d => "p" ++ toString n ++ ":" ++ bytesHex d
  | .nop => "n"
  | .invalid b => "i" ++ byteHex b

def errName : DErr → String
  | .emptyBytecode => "EmptyBytecode"
  | .bytecodeTooLarge => "BytecodeTooLarge"
  | .invalidPushSize n => s!"InvalidPushSize({n})"

def modelAnswer (bs : List Nat) : String :=
  match disasm bs with
  | .error e => "err " ++ errName e
  | .ok is =>
    let rt := if encodeAll is = bs then 1 else 0
    s!"ok len={is.length} rt={rt} " ++ " ".intercalate (is.map token)

def parseToken (t : String) : Option Instr :=
  match t.toList with
  | ['n'] => some .nop
  | 'o' :: r => (hexNat? (String.ofList r)).map .op
  | 'i' :: r => (hexNat? (String.ofList r)).map .invalid
  | 'p' :: r =>
    match (String.ofList r).splitOn ":" with
    | [n, d] => match n.toNat?, hexBytes? d with
      | some n, some d => some (.push n d)
      | _, _ => none
    | _ => none
  | _ => none

def parseAll : List String → Option (List Instr)
  | [] => some []
  | t :: ts => match parseToken t, parseAll ts with
    | some i, some r => some (i :: r)
    | _, _ => none

/-- Positions of `JUMPDEST` entries. -/
def jumpdests (is : List Instr) : List Bool := is.map (fun i => i == .op 0x5b)

/-- The C10 oracle evaluated on the implementation's own output, using only `encode`
and the independent EVM scan — not the model's `disasm`. -/
def oracle (bs : List Nat) (impl : String) : String :=
  if bs = [] then "ok" else
  match words impl with
  | "ok" :: _len :: _rt :: toks =>
    match parseAll toks with
    | none => "FAIL unparsable-impl-answer"
    | some is =>
      let mask := pushDataMask bs
      let expectJd := (bs.zip mask).map (fun (b, m) => b == 0x5b && !m)
      if is.length ≠ bs.length then "FAIL length"
      else if encodeAll is ≠ bs then "FAIL roundtrip"
      else if _len ≠ s!"len={bs.length}" then "FAIL len()"
      else if _rt ≠ "rt=1" then "FAIL as_bytecode"
      else if jumpdests is ≠ expectJd then "FAIL jumpdest-positions"
      else if (is.zip mask).any (fun (i, m) => m && !(i == .nop || (match i with | .invalid _ => true | _ => false)))
        then "FAIL pushdata-is-instruction"
      else "ok"
  | "err" :: e => "FAIL rejected:" ++ " ".intercalate e
  | "PANIC" :: e => "FAIL panic:" ++ " ".intercalate e
  | _ => "FAIL unparsable-impl-answer"

def handle (payload impl : String) : String × String :=
  match hexBytes? payload with
  | none => ("bad-request", "ok")
  | some bs => (modelAnswer bs, oracle bs impl)

end SLE.Driver.Disasm
