/-! Keccak-256 (the hash the EVM calls SHA3), for the driver only: in the theorems hashing is an
uninterpreted function.  Checked against the `sha3` crate by family `hash` on every run. -/
namespace SLE.Driver.Keccak

def rc : Array UInt64 := #[
  0x0000000000000001, 0x0000000000008082, 0x800000000000808A, 0x8000000080008000,
  0x000000000000808B, 0x0000000080000001, 0x8000000080008081, 0x8000000000008009,
  0x000000000000008A, 0x0000000000000088, 0x0000000080008009, 0x000000008000000A,
  0x000000008000808B, 0x800000000000008B, 0x8000000000008089, 0x8000000000008003,
  0x8000000000008002, 0x8000000000000080, 0x000000000000800A, 0x800000008000000A,
  0x8000000080008081, 0x8000000000008080, 0x0000000080000001, 0x8000000080008008]

def rotc : Array Nat := #[1, 3, 6, 10, 15, 21, 28, 36, 45, 55, 2, 14, 27, 41, 56, 8, 25, 43, 62, 18, 39, 61, 20, 44]
def piln : Array Nat := #[10, 7, 11, 17, 18, 3, 5, 16, 8, 21, 24, 4, 15, 23, 19, 13, 12, 2, 20, 14, 22, 9, 6, 1]

def rotl (x : UInt64) (n : Nat) : UInt64 :=
  if n % 64 = 0 then x else (x <<< (UInt64.ofNat (n % 64))) ||| (x >>> (UInt64.ofNat (64 - n % 64)))

def round (st : Array UInt64) (r : Nat) : Array UInt64 := Id.run do
  let mut st := st
  -- theta
  let mut bc : Array UInt64 := Array.replicate 5 0
  for i in [0:5] do
    bc := bc.set! i (st[i]! ^^^ st[i+5]! ^^^ st[i+10]! ^^^ st[i+15]! ^^^ st[i+20]!)
  for i in [0:5] do
    let t := bc[(i + 4) % 5]! ^^^ rotl bc[(i + 1) % 5]! 1
    for j in [0:5] do
      st := st.set! (j * 5 + i) (st[j * 5 + i]! ^^^ t)
  -- rho pi
  let mut t := st[1]!
  for i in [0:24] do
    let j := piln[i]!
    let b := st[j]!
    st := st.set! j (rotl t rotc[i]!)
    t := b
  -- chi
  for j in [0:5] do
    let row := #[st[j*5]!, st[j*5+1]!, st[j*5+2]!, st[j*5+3]!, st[j*5+4]!]
    for i in [0:5] do
      st := st.set! (j * 5 + i) (row[i]! ^^^ ((~~~ row[(i + 1) % 5]!) &&& row[(i + 2) % 5]!))
  -- iota
  st := st.set! 0 (st[0]! ^^^ rc[r]!)
  return st

def keccakF (st : Array UInt64) : Array UInt64 := (List.range 24).foldl round st

/-- Keccak-256 of a byte list. -/
def keccak256 (msg : List Nat) : List Nat := Id.run do
  let rate := 136
  -- pad: 0x01 … 0x80
  let padLen := rate - (msg.length % rate)
  let padded : Array Nat :=
    (msg ++ (if padLen = 1 then [0x81] else [0x01] ++ List.replicate (padLen - 2) 0 ++ [0x80])).toArray
  let mut st : Array UInt64 := Array.replicate 25 0
  let blocks := padded.size / rate
  for b in [0:blocks] do
    for i in [0:rate / 8] do
      let mut lane : UInt64 := 0
      for k in [0:8] do
        lane := lane ||| ((UInt64.ofNat padded[b * rate + i * 8 + k]!) <<< (UInt64.ofNat (8 * k)))
      st := st.set! i (st[i]! ^^^ lane)
    st := keccakF st
  let mut out : List Nat := []
  for i in [0:4] do
    for k in [0:8] do
      out := out ++ [((st[i]! >>> (UInt64.ofNat (8 * k))) &&& 0xff).toNat]
  return out

def bytesBE (w : Nat) : List Nat := (List.range 32).map (fun i => (w / 256 ^ (31 - i)) % 256)

def fromBytesBE (bs : List Nat) : Nat := bs.foldl (fun acc b => acc * 256 + b) 0

/-- `ProxySlots::sha3_known_words`: Keccak-256 of the concatenated big-endian words. -/
def sha3Words (ws : List Nat) : Nat := fromBytesBE (keccak256 (ws.flatMap bytesBE))

end SLE.Driver.Keccak
