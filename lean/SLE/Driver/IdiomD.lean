import SLE.Driver.PipelineD
/-! Oracles for families `idiom` (property C04: ground-truth layouts through the standard
compiler idioms) and `frag` (property C11: independence of unrelated slots, renaming of slot
constants).  Both are oracle-only: the model side of these properties is the `tc` family. -/
namespace SLE.Driver.IdiomD
open SLE.Driver SLE.Driver.PipelineD

/-- s-expression view of a rendered type -/
inductive SX where
  | atom (s : String)
  | list (xs : List SX)
deriving Inhabited

def tokens (s : String) : List String :=
  (((s.replace "(" " ( ").replace ")" " ) ").splitOn " ").filter (· ≠ "")

def parseSX : Nat → List String → Option (SX × List String)
  | 0, _ => none
  | _ + 1, [] => none
  | fuel + 1, "(" :: rest =>
    let rec items (n : Nat) (ts : List String) (acc : List SX) : Option (List SX × List String) :=
      match n, ts with
      | 0, _ => none
      | _, [] => none
      | _, ")" :: r => some (acc.reverse, r)
      | n + 1, ts => match parseSX fuel ts with
        | some (x, r) => items n r (x :: acc)
        | none => none
    (match items (rest.length + 1) rest [] with
     | some (xs, r) => some (.list xs, r)
     | none => none)
  | _ + 1, t :: rest => some (.atom t, rest)

def typeSX (t : String) : Option SX :=
  let ts := tokens t
  match parseSX (ts.length + 1) ts with
  | some (x, []) => some x
  | _ => none

def is20Bytes : SX → Bool
  | .atom "address" => true
  | .list [.atom "bytes", .atom "20"] => true
  | .list [.atom "uint", .atom "160"] => true
  | .list [.atom "int", .atom "160"] => true
  | .list [.atom "number", .atom "160"] => true
  | _ => false

/-- key types along the nesting of a mapping type, outermost first -/
def mappingKeys : Nat → SX → List SX
  | 0, _ => []
  | fuel + 1, .list [.atom "mapping", k, v] => k :: mappingKeys fuel v
  | _, _ => []

structure Var where
  kind : String
  slot : Nat
  rw : String
  params : String

def parseSpec (spec : String) : Option (List Var) :=
  let items := (spec.splitOn ";").filter (· ≠ "")
  let vs := items.filterMap (fun it => match it.splitOn ":" with
    | kind :: slot :: rw :: rest => (hexNat? slot).map (fun s => (⟨kind, s, rw, ":".intercalate rest⟩ : Var))
    | _ => none)
  if vs.length = items.length then some vs else none

def checkVar (es : List Entry) (v : Var) : List String :=
  let here := es.filter (·.index == v.slot)
  let slotText := "0x" ++ natHex v.slot
  if here.isEmpty then [s!"C04-variable-not-reported:{v.kind} at {slotText}"] else
  match v.kind with
  | "w" => []
  | "a" =>
    (match here with
     | [e] => if e.offset == 0 && ((typeSX e.typ).map is20Bytes).getD false then []
              else [s!"C04-address-not-20-bytes:{slotText} reported {e.offset}:{e.typ}"]
     | _ => [s!"C04-address-not-20-bytes:{slotText} reported as {here.length} entries"])
  | "m" =>
    (match here with
     | [e] =>
       let keys := ((typeSX e.typ).map (mappingKeys 16)).getD []
       let want := v.params.toList
       if keys.length ≠ want.length then [s!"C04-mapping-depth:{slotText} wanted {want.length} reported {e.typ}"]
       else if (want.zip keys).any (fun (c, k) => c == 'a' && !(is20Bytes k)) then
         [s!"C04-mapping-address-key-not-20-bytes:{slotText} reported {e.typ}"]
       else []
     | _ => [s!"C04-mapping-depth:{slotText} reported as {here.length} entries"])
  | "d" =>
    (match here with
     | [e] => (match typeSX e.typ with
        | some (.list [.atom "dynarray", _]) => []
        | _ => [s!"C04-not-a-dynamic-array:{slotText} reported {e.typ}"])
     | _ => [s!"C04-not-a-dynamic-array:{slotText} reported as {here.length} entries"])
  | "p" =>
    let widths := (v.params.splitOn ",").filterMap String.toNat?
    let fields := (widths.foldl (fun (acc : List (Nat × Nat) × Nat) w => (acc.1 ++ [(acc.2, w)], acc.2 + w)) ([], 0)).1
    let bad := fields.find? (fun (o, w) =>
      match here.find? (·.offset == o) with
      | none => true
      | some e => match widthOf e.typ with
        | some x => x ≠ w
        | none => false)
    (match bad with
     | none => []
     | some (o, w) =>
       -- a packed word that is only written, with its shifts spelt SHL rather than as a
       -- multiplication by 2^k, is a recorded finding (the shift pass recognises multiplications only)
       let writeOnly := !(v.rw.contains 'r')
       let usesMul := v.rw.contains 'M'
       let tag := if writeOnly && !usesMul then "C04-write-only-packed-field:" else "C04-packed-field:"
       [s!"{tag}{slotText} field {w}@{o} reported " ++ ",".intercalate (here.map (fun e => s!"{e.offset}:{e.typ}"))])
  | _ => []

def handleIdiom (tbl : Array (Nat × Nat)) (payload impl : String) : String × String :=
  match payload.splitOn " " with
  | [spec, hex] =>
    let segs :=
      if impl.startsWith "PANIC" then ["C01-panic:" ++ impl]
      else match parseSpec spec, parseLayout impl with
        | some vars, some es => (vars.flatMap (checkVar es)).take 3 ++ oracleC12 es
        | _, none => ["C04-no-layout:" ++ (impl.take 120).toString]
        | none, _ => ["bad-request"]
    let implCore := ((impl.splitOn " polls=").headD impl)
    let model := pipelineModel tbl ("sorted 30000000,10,50,250,394,0 " ++ hex) implCore
    (model ++ ((impl.splitOn implCore).getD 1 ""), verdictOf segs)
  | _ => ("bad-request", "ok")

def insertEntry (e : Entry) : List Entry → List Entry
  | [] => [e]
  | x :: r => if e.index < x.index || (e.index == x.index && e.offset < x.offset) then e :: x :: r else x :: insertEntry e r

def sortEntries (es : List Entry) : List Entry := es.foldr insertEntry []

def sameEntries (a b : List Entry) : Bool :=
  a.length == b.length && (a.zip b).all (fun (x, y) => x.index == y.index && x.offset == y.offset && x.typ == y.typ)

def showEntries (es : List Entry) : String :=
  ";".intercalate (es.map (fun e => s!"0x{natHex e.index}:{e.offset}:{e.typ}"))

def handleFrag (tbl : Array (Nat × Nat)) (payload impl : String) : String × String :=
  match payload.splitOn " ", impl.splitOn " ### " with
  | [_, _, _, _, _, ren], [a, b, ab, p, q] =>
    let segs :=
      if (impl.splitOn "PANIC").length > 1 then ["C01-panic"]
      else match parseLayout a, parseLayout b, parseLayout ab, parseLayout p, parseLayout q with
        | some la, some lb, some lab, some lp, some lq =>
          let pairs := (ren.splitOn ",").filterMap (fun x => match x.splitOn ">" with
            | [o, n] => match hexNat? o, hexNat? n with
              | some o, some n => some (o, n) | _, _ => none
            | _ => none)
          let renamed := sortEntries (lp.map (fun e => { e with index := (pairs.lookup e.index).getD e.index }))
          (if sameEntries (sortEntries (la ++ lb)) lab then []
           else [(s!"C11-not-the-union: A=[{showEntries la}] B=[{showEntries lb}] A+B=[{showEntries lab}]".take 600).toString]) ++
          (if sameEntries renamed lq then []
           else [(s!"C11-renaming-changes-types: P=[{showEntries lp}] renamed P=[{showEntries lq}]".take 600).toString])
        | _, _, _, _, _ => ["C11-no-layout:" ++ (impl.take 160).toString]
    -- K: each of the five programs through the whole-pipeline model
    let hexes := (payload.splitOn " ").take 5
    let model := " ### ".intercalate ((hexes.zip [a, b, ab, p, q]).map (fun (hex, ans) =>
      let core := ((ans.splitOn " polls=").headD ans)
      pipelineModel tbl ("sorted 30000000,10,50,250,394,0 " ++ hex) core ++ ((ans.splitOn core).getD 1 "")))
    (model, verdictOf segs)
  | _, _ => ("bad-request", "ok")

end SLE.Driver.IdiomD
