import SLE.Model.Containers
import SLE.Driver.Util
/-! Driver for families `vmap` and `ds`. -/
namespace SLE.Driver.Containers
open SLE.Containers SLE.Driver

/-- insertion into a sorted list (bag = sorted multiset). -/
def insSorted (x : Nat) : List Nat → List Nat
  | [] => [x]
  | y :: r => if x ≤ y then x :: y :: r else y :: insSorted x r

def bagMerge (a b : List Nat) : List Nat := b.foldl (fun acc x => insSorted x acc) a

def bagM : Monoid (List Nat) := { combine := bagMerge, identity := [], default := [] }

def bagStr (b : List Nat) : String := "[" ++ ",".intercalate (b.map toString) ++ "]"

def optStr : Option Nat → String
  | some v => s!"some{v}"
  | none => "none"

def sortPairs (l : List (Nat × List Nat)) : List (Nat × List Nat) :=
  l.foldl (fun acc p =>
    let rec ins : List (Nat × List Nat) → List (Nat × List Nat)
      | [] => [p]
      | q :: r => if p.1 ≤ q.1 then p :: q :: r else q :: ins r
    ins acc) []

/-! #### vmap -/

def vmapRun (ops : List String) : String :=
  let rec go (m : VMap Nat) (ops : List String) (out : List String) : List String :=
    match ops with
    | [] => out.reverse
    | op :: rest =>
      match words op with
      | ["i", k, v] => go (m.insert k.toNat! v.toNat!) rest ("-" :: out)
      | ["g", k] => go m rest (optStr (m.get k.toNat!) :: out)
      | ["r", k] =>
        match m.remove k.toNat! with
        | .ok (m', v) => go m' rest (optStr v :: out)
        | .error _ => ("PANIC" :: out).reverse
      | ["l"] => go m rest (toString m.len :: out)
      | ["e"] => go m rest (toString m.isEmpty :: out)
      | ["t"] => go m rest (("{" ++ ",".intercalate (m.iter.map (fun (k, v) => s!"{k}={v}")) ++ "}") :: out)
      | _ => go m rest ("?" :: out)
  ";".intercalate (go {} ops [])

/-- The ordinary map: an association list without duplicate keys. -/
def naiveRun (ops : List String) : String :=
  let rec insK (k v : Nat) : List (Nat × Nat) → List (Nat × Nat)
    | [] => [(k, v)]
    | (k', v') :: r => if k = k' then (k, v) :: r else if k < k' then (k, v) :: (k', v') :: r
                       else (k', v') :: insK k v r
  let rec go (m : List (Nat × Nat)) (ops : List String) (out : List String) : List String :=
    match ops with
    | [] => out.reverse
    | op :: rest =>
      match words op with
      | ["i", k, v] => go (insK k.toNat! v.toNat! m) rest ("-" :: out)
      | ["g", k] => go m rest (optStr (m.lookup k.toNat!) :: out)
      | ["r", k] => go (m.filter (fun p => p.1 != k.toNat!)) rest (optStr (m.lookup k.toNat!) :: out)
      | ["l"] => go m rest (toString m.length :: out)
      | ["e"] => go m rest (toString m.isEmpty :: out)
      | ["t"] => go m rest (("{" ++ ",".intercalate (m.map (fun (k, v) => s!"{k}={v}")) ++ "}") :: out)
      | _ => go m rest ("?" :: out)
  ";".intercalate (go [] ops [])

def handleVmap (payload impl : String) : String × String :=
  let ops := payload.splitOn ";"
  let verdict :=
    if impl.startsWith "PANIC" then "FAIL panic:" ++ impl
    else if impl = naiveRun ops then "ok" else "FAIL differs-from-ordinary-map:" ++ naiveRun ops
  (vmapRun ops, verdict)

/-! #### ds -/

def parseOp (op : String) : Option (Op (List Nat)) :=
  match words op with
  | ["i", v] => some (.insert v.toNat!)
  | ["u", a, b] => some (.union a.toNat! b.toNat!)
  | ["a", v, d] => some (.addData v.toNat! [d.toNat!])
  | ["s", v, d] => some (.setData v.toNat! [d.toNat!])
  | ["f", v] => some (.find v.toNat!)
  | ["g", v] => some (.getData v.toNat!)
  | ["S"] => some .sets
  | ["V"] => some .values
  | _ => none

def obsStr : Obs (List Nat) → String
  | .unit => "-"
  | .root r => toString r
  | .data none => "none"
  | .data (some b) => bagStr b
  | .sets l => "{" ++ " ".intercalate ((sortPairs l).map (fun (k, b) => s!"{k}:{bagStr b}")) ++ "}"
  | .values l => "<" ++ ",".intercalate (l.map toString) ++ ">"
  | .fault _ => "PANIC"

def dsRun (ops : List String) : String :=
  let rec go (s : DS (List Nat)) (ops : List String) (out : List String) : List String :=
    match ops with
    | [] => out.reverse
    | op :: rest =>
      match parseOp op with
      | none => go s rest ("?" :: out)
      | some o =>
        let (s', ob) := s.step bagM o
        match ob with
        | .fault _ => ("PANIC" :: out).reverse
        | _ => go s' rest (obsStr ob :: out)
  ";".intercalate (go {} ops [])

/-- Oracle: replay the history on the naive partition model and check every observation of
the implementation against it (roots only up to "an element of the right class"). -/
def dsOracle (ops : List String) (impl : List String) : String :=
  let rec go (sp : Spec (List Nat)) (ops : List String) (obs : List String) (i : Nat) : String :=
    match ops, obs with
    | [], [] => "ok"
    | op :: rest, ob :: obs' =>
      match parseOp op with
      | none => go sp rest obs' (i + 1)
      | some o =>
        match o with
        | .insert v => go (sp.ensure v) rest obs' (i + 1)
        | .union a b => go (Spec.union bagM sp a b) rest obs' (i + 1)
        | .addData v d => go (Spec.addData bagM sp v d) rest obs' (i + 1)
        | .setData v d => go (Spec.setData sp v d) rest obs' (i + 1)
        | .find v =>
          let sp := sp.ensure v
          match ob.toNat? with
          | some r => if sp.sameClass v r then go sp rest obs' (i + 1)
                      else s!"FAIL find-root-outside-class:op{i}"
          | none => s!"FAIL unparsable:op{i}"
        | .getData v =>
          let sp := sp.ensure v
          let want := (Spec.getData sp v).getD []
          if ob = bagStr want || (ob = "none" && want = []) then go sp rest obs' (i + 1)
          else s!"FAIL class-data:op{i} want {bagStr want} got {ob}"
        | .sets =>
          -- expected: one entry per class, data per class; compare as multisets of bags and
          -- check each reported root lies in a distinct class with that data
          let body := ((ob.drop 1).dropEnd 1).toString
          let entries := (body.splitOn " ").filter (· ≠ "")
          let parsed := entries.map (fun e => match e.splitOn ":" with
            | [k, b] => (k.toNat!, b)
            | _ => (0, "?"))
          let okEach := parsed.all (fun (k, b) =>
            match sp.classOf k with
            | some c => bagStr (c.data.getD []) = b
            | none => false)
          let roots := parsed.map (·.1)
          let distinct := parsed.all (fun (k, _) =>
            (roots.filter (fun r => sp.sameClass k r)).length = 1)
          if !okEach then s!"FAIL sets-data:op{i}"
          else if !distinct then s!"FAIL sets-duplicate-class:op{i}"
          else if parsed.length ≠ sp.length then s!"FAIL sets-count:op{i} want {sp.length} got {parsed.length}"
          else go sp rest obs' (i + 1)
        | .values =>
          let want := sp.foldl (fun acc c => c.members.foldl (fun a x => insSorted x a) acc) []
          if ob = "<" ++ ",".intercalate (want.map toString) ++ ">" then go sp rest obs' (i + 1)
          else s!"FAIL values:op{i}"
    | _, _ => "FAIL observation-count"
  go [] ops impl 0

def handleDs (payload impl : String) : String × String :=
  let ops := payload.splitOn ";"
  let verdict :=
    if impl.startsWith "PANIC" then "FAIL panic:" ++ impl
    else dsOracle ops (impl.splitOn ";")
  (dsRun ops, verdict)

end SLE.Driver.Containers
