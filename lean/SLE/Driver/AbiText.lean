import SLE.Model.TC
import SLE.Driver.Util
/-! Text form of rendered types and layouts (mirrors `pipeline::abi_text` / `layout_text` of the harness). -/
namespace SLE.Driver.AbiText
open SLE SLE.JsonModel SLE.Driver

def optText : Option Nat → String
  | some n => toString n
  | none => "?"

mutual
def abiText : AbiType → String
  | .any => "any"
  | .number s => s!"(number {optText s})"
  | .uInt s => s!"(uint {optText s})"
  | .int s => s!"(int {optText s})"
  | .address => "address" | .selector => "selector" | .function => "function" | .bool => "bool"
  | .array size tp => "(array 0x" ++ natHex size ++ " " ++ abiText tp ++ ")"
  | .bytes l => s!"(bytes {optText l})"
  | .bits l => s!"(bits {optText l})"
  | .dynArray tp => "(dynarray " ++ abiText tp ++ ")"
  | .dynBytes => "dynbytes"
  | .mapping k v => "(mapping " ++ abiText k ++ " " ++ abiText v ++ ")"
  | .struct es => "(struct" ++ elemsText es ++ ")"
  | .infiniteType => "infinite"
  | .conflictedType _ _ => "conflict"
def elemsText : List StructElement → String
  | [] => ""
  | .mk off t :: r => " (" ++ toString off ++ " " ++ abiText t ++ ")" ++ elemsText r
end

def layoutText (l : List (Layout.Entry AbiType)) : String :=
  "[" ++ ";".intercalate (l.map (fun e => "0x" ++ natHex e.index ++ ":" ++ toString e.offset ++ ":" ++ abiText e.typ)) ++ "]"


end SLE.Driver.AbiText
