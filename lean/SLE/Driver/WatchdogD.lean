import SLE.Model.Poll
import SLE.Driver.Util
/-! Driver for family `watchdog` (C13). -/
namespace SLE.Driver.WatchdogD
open SLE.Poll SLE.Driver

def field (s key : String) : Option String :=
  ((s.splitOn (" " ++ key ++ "=")).drop 1).head?.map (fun r => (r.splitOn " ").headD "")

def natList (s : String) : List Nat := ((s.splitOn ",").filter (· ≠ "")).filterMap String.toNat?

def ceilDiv (a b : Nat) : Nat := if b = 0 then 0 else (a + b - 1) / b

def handle (payload impl : String) : String × String :=
  match words payload with
  | [_cfg, ev, _hex] =>
    (match ev.toNat? with
     | none => ("bad-request", "ok")
     | some every =>
       if impl.startsWith "PANIC" then ("n/a", "FAIL C01-panic")
       else
       let parts := impl.splitOn " ;; "
       match parts with
       | [lazy, base, beyond, rest] =>
         let rest := " " ++ rest
         let log := ((field rest "log").getD "").splitOn "|"
         let insts := log.filterMap (fun (e : String) => match e.splitOn ":" with
           | [site, len, idx] => len.toNat?.map (fun l => (site, l, natList idx))
           | _ => none)
         -- K: predicted polled iterations per loop instance (unification's counter only advances
         -- on non-empty classes, which the log does not show: passed through)
         let predicted := insts.map (fun (site, len, idx) =>
           let p := if site == "unify.round" then idx else polledIdx every len
           site ++ ":" ++ toString len ++ ":" ++ ",".intercalate (p.map toString))
         let model := "log=" ++ "|".intercalate predicted
         let implLog := "log=" ++ (field rest "log").getD ""
         let n := ((field rest "N").getD "0").toNat!
         let issued := (insts.map (fun (_, _, idx) => idx.length)).sum
         let stops := ((field rest "stops").getD "").splitOn ";" |>.filter (· ≠ "")
         let parsedStops := stops.filterMap (fun (s : String) => match s.splitOn ":" with
           | [k, cls, further, site] => match k.toNat?, further.toNat? with
             | some k, some f => some (k, cls, f, site) | _, _ => none
           | _ => none)
         let cleanLazy := lazy.replace "lazy=" ""
         let cleanBase := ((base.replace "base=" "").splitOn "_polls=").headD ""
         let cleanBeyond := ((beyond.replace "beyond=" "").splitOn "_polls=").headD ""
         let unifyIters := (insts.filter (fun (s, _, _) => s == "unify.round")).map (fun (_, l, _) => l)
         let segs : List String :=
           (if implLog ≠ model then ["C13-poll-schedule:a loop does not poll exactly once per interval"] else []) ++
           (if n ≠ issued then [s!"C13-poll-count:{n} polls but {issued} attributed"] else []) ++
           (if ((cleanLazy.splitOn "_polls=").headD "") ≠ cleanBase then ["C13-not-transparent:monitored run differs from unmonitored"] else []) ++
           (if cleanBeyond ≠ cleanBase then ["C13-stop-after-last-poll-changes-result"] else []) ++
           (match parsedStops.find? (fun (_, cls, _, site) => site ≠ "?" && cls ≠ "stopped") with
            | some (k, cls, _, site) => [s!"C13-stop-ignored:poll {k} at {site} answered stop but the analysis returned {cls}"]
            | none => []) ++
           (match parsedStops.find? (fun (_, _, f, site) =>
              if site.startsWith "op." then f > every * 800 + 2 else f > 0) with
            | some (k, _, f, site) => [s!"C13-late-stop:{f} further polls after poll {k} at {site}"]
            | none => []) ++
           -- every loop polls at least once per interval: between consecutive polls of one
           -- unification instance at most `every` non-empty classes are processed; lower bound only
           (if unifyIters.any (fun l => l > 0) && !(insts.any (fun (s, _, idx) => s == "unify.round" && !idx.isEmpty))
              then ["C13-unify-never-polls"] else [])
         (implLog.replace implLog model, if segs.isEmpty then "ok" else "FAIL " ++ " ;; ".intercalate segs)
       | _ => ("n/a", "FAIL unparsable-impl-answer"))
  | _ => ("bad-request", "ok")

end SLE.Driver.WatchdogD
