import SLE.Driver.LiftD
/-! The C05 / C06 oracle on a returned layout, from the *input* values only (shared by families
`tc` — the values of the request — and `pipeline` — the values the model machine leaves behind
for the program). -/
namespace SLE.Driver.SlotOracle
open SLE SLE.SV SLE.Driver

mutual
/-- constants in a tree (with the folded value of every sub-tree) -/
def constsOf : SV → List Nat → List Nat
  | .node k attrs ks _, acc =>
    let acc := match k, attrs with
      | .knownData, w :: _ => if acc.contains w then acc else w :: acc
      | _, _ => acc
    constsOfList ks acc
def constsOfList : List SV → List Nat → List Nat
  | [], acc => acc
  | k :: ks, acc => constsOfList ks (constsOf k acc)
end

def litOf (key : SV) (lits : List Nat) : List Nat :=
  match key with
  | .node .knownData (w :: _) _ _ => if lits.contains w then lits else w :: lits
  | _ => lits

mutual
/-- (constants in key position of a storage access, literal keys of loads and writes,
constants in value position of a storage access) -/
def storageConsts : SV → (List Nat × List Nat × List Nat) → (List Nat × List Nat × List Nat)
  | .node k _ ks _, (keys, lits, vals) =>
    let (keys, lits, vals) := match k, ks with
      | .sLoad, [key, v] => (constsOf key keys, litOf key lits, constsOf v vals)
      | .storageWrite, [key, v] => (constsOf key keys, litOf key lits, constsOf v vals)
      | .unwrittenStorageValue, [key] => (constsOf key keys, lits, vals)
      | _, _ => (keys, lits, vals)
    storageConstsList ks (keys, lits, vals)
def storageConstsList : List SV → (List Nat × List Nat × List Nat) → (List Nat × List Nat × List Nat)
  | [], acc => acc
  | k :: ks, acc => storageConstsList ks (storageConsts k acc)
end


/-- slot indices of a layout against the storage accesses of `vals`:
C05 — every index is a constant of a key sub-tree of a load / store / unwritten read, a recognised
keccak preimage of one, or a sum of two (an index that only occurs in *value* position of an
access is attributed to finding D14); C06 — every literal key of a load or store that is not a
recognised hash has a row. -/
def check (tbl : Array (Nat × Nat)) (vals : List SV) (indices : List Nat) : List String :=
  let (keys, lits, valueConsts) := storageConstsList vals ([], [], [])
  let pre := fun (w : Nat) => LiftD.tableLookup tbl w
  let base := keys ++ keys.filterMap pre
  let allowed := fun (w : Nat) => base.contains w || base.any (fun a => base.any (fun b => (a + b) % 2 ^ 256 == w))
  let c05 := match indices.find? (fun i => !(allowed i)) with
    | some i =>
      let fromValue := valueConsts.contains i || (valueConsts.filterMap pre).contains i ||
        valueConsts.any (fun a => valueConsts.any (fun b => (a + b) % 2 ^ 256 == i))
      [(if fromValue then "C05-phantom-slot-from-value-position:0x" else "C05-phantom-slot:0x") ++ natHex i]
    | none => []
  let c06 := match lits.find? (fun w => (pre w).isNone && !(indices.contains w)) with
    | some w => ["C06-missed-slot:0x" ++ natHex w]
    | none => []
  c05 ++ c06

end SLE.Driver.SlotOracle
