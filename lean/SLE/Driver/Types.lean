import SLE.Model.TE
import SLE.Model.MergeLaws
import SLE.Driver.Util
/-! Driver for family `merge` (and the TE text form shared with the harness). -/
namespace SLE.Driver.Types
open SLE SLE.Driver SLE.Merge

def usageName : WordUse → String
  | .bytes => "bytes" | .numeric => "numeric" | .unsignedNumeric => "unsignedNumeric"
  | .signedNumeric => "signedNumeric" | .bool => "bool" | .address => "address"
  | .selector => "selector" | .function => "function"

def parseUsage (s : String) : Option WordUse := WordUse.all.find? (fun u => usageName u == s)

def teText : TE → String
  | .any => "any"
  | .equal i => s!"eq:{i}"
  | .word none u => s!"word:?:{usageName u}"
  | .word (some w) u => s!"word:{w}:{usageName u}"
  | .bytes => "bytes"
  | .fixedArray e l => s!"fixed:{e}:{l}"
  | .mapping k v => s!"map:{k}:{v}"
  | .dynamicArray e => s!"dyn:{e}"
  | .packed ts s => "packed:" ++ (if s then "s" else "p") ++ ":" ++
      "/".intercalate (ts.map (fun x => s!"{x.typ},{x.offset},{x.size}"))
  | .conflict => "conflict"

def parseSpan (s : String) : Option Span :=
  match s.splitOn "," with
  | [a, b, c] => match a.toNat?, b.toNat?, c.toNat? with
    | some a, some b, some c => some ⟨a, b, c⟩
    | _, _, _ => none
  | _ => none

def parseTE (s : String) : Option TE :=
  match s.splitOn ":" with
  | ["any"] => some .any
  | ["eq", i] => i.toNat?.map .equal
  | ["word", w, u] =>
    match parseUsage u with
    | some u => if w == "?" then some (.word none u) else w.toNat?.map (fun w => .word (some w) u)
    | none => none
  | ["bytes"] => some .bytes
  | ["fixed", e, l] => match e.toNat?, l.toNat? with
    | some e, some l => some (.fixedArray e l) | _, _ => none
  | ["map", k, v] => match k.toNat?, v.toNat? with
    | some k, some v => some (.mapping k v) | _, _ => none
  | ["dyn", e] => e.toNat?.map .dynamicArray
  | ["packed", st, spans] =>
    let parts := (spans.splitOn "/").filter (· ≠ "")
    let ps := parts.filterMap parseSpan
    if ps.length = parts.length then some (.packed ps (st == "s")) else none
  | ["conflict"] => some .conflict
  | _ => none

structure Acc where
  eqs : List (Nat × Nat) := []
  judgements : List (Nat × TE) := []
  newVars : List Nat := []

def Acc.add (a : Acc) (m : MergeOut) : Acc :=
  { eqs := a.eqs ++ m.eqs, judgements := a.judgements ++ m.judgements, newVars := a.newVars ++ m.newVars }

def render (e : TE) (a : Acc) : String :=
  teText e ++ ";" ++ ",".intercalate (a.eqs.map (fun (x, y) => s!"{x}={y}")) ++ ";" ++
  ",".intercalate (a.judgements.map (fun (t, e) => s!"{t}>{teText e}")) ++ ";" ++
  ",".intercalate (a.newVars.map toString)

def run1 (nvars parent : Nat) (a b : TE) : String :=
  match merge a b parent nvars with
  | .error _ => "PANIC"
  | .ok m => render m.expr (({} : Acc).add m)

def runLeft (nvars parent : Nat) (a b c : TE) : Option (TE × Acc) :=
  match merge a b parent nvars with
  | .error _ => none
  | .ok m1 => match merge m1.expr c parent m1.next with
    | .error _ => none
    | .ok m2 => some (m2.expr, (({} : Acc).add m1).add m2)

def runRight (nvars parent : Nat) (a b c : TE) : Option (TE × Acc) :=
  match merge b c parent nvars with
  | .error _ => none
  | .ok m1 => match merge a m1.expr parent m1.next with
    | .error _ => none
    | .ok m2 => some (m2.expr, (({} : Acc).add m1).add m2)

def renderOpt : Option (TE × Acc) → String
  | some (e, a) => render e a
  | none => "PANIC"

/-! #### The C16 oracle on the implementation's outputs -/

/-- representative of `x` under the equalities (smallest reachable variable; fuel = |eqs|+1). -/
def repOf (eqs : List (Nat × Nat)) (x : Nat) : Nat :=
  let rec go (fuel : Nat) (cur : List Nat) : List Nat :=
    match fuel with
    | 0 => cur
    | fuel + 1 =>
      let next := eqs.foldl (fun acc (a, b) =>
        let acc := if acc.contains a && !acc.contains b then b :: acc else acc
        if acc.contains b && !acc.contains a then a :: acc else acc) cur
      if next.length = cur.length then cur else go fuel next
  (go (eqs.length + 1) [x]).foldl min x

def isPacked : TE → Bool | .packed _ _ => true | _ => false

/-- Outcome up to conflict wording and to the choice of representative among equated
variables.  A conflict is just "conflict" (cf. C14: component unification is only promised
for non-contradictory evidence). -/
def norm (vars : List Nat) (out : String) : String :=
  match out.splitOn ";" with
  | [e, eqs, _j, _n] =>
    if e = "conflict" then "conflict" else
    let pairs := ((eqs.splitOn ",").filter (· ≠ "")).filterMap (fun p => match p.splitOn "=" with
      | [a, b] => match a.toNat?, b.toNat? with
        | some a, some b => some (a, b) | _, _ => none
      | _ => none)
    match parseTE e with
    | none => "?" ++ out
    | some te =>
      let r := repOf pairs
      let te' : TE := match te with
        | .fixedArray x l => .fixedArray (r x) l
        | .mapping k v => .mapping (r k) (r v)
        | .dynamicArray x => .dynamicArray (r x)
        | t => t
      teText te' ++ " classes=" ++ ",".intercalate (vars.map (fun v => toString (r v)))
  | _ => "?" ++ out

def field (impl key : String) : Option String :=
  ((words impl).find? (fun w => w.startsWith (key ++ "="))).map (fun w => (w.drop (key.length + 1)).toString)

def handleMerge (payload impl : String) : String × String :=
  match words payload with
  | nv :: par :: rest =>
    match nv.toNat?, par.toNat?, rest.filterMap parseTE with
    | some nvars, some parent, tes =>
      if tes.length ≠ rest.length then ("bad-request", "ok") else
      let vars := List.range nvars
      let anyPacked := tes.any isPacked
      let anyEq := tes.any (fun t => match t with | .equal _ => true | _ => false)
      match tes with
      | [a, b] =>
        let model := "ab=" ++ run1 nvars parent a b ++ " ba=" ++ run1 nvars parent b a
        let verdict :=
          if anyEq then "ok"
          else if impl.contains "PANIC" then "FAIL panic"
          else if anyPacked then "ok"
          else match field impl "ab", field impl "ba" with
            | some x, some y => if norm vars x = norm vars y then "ok"
                                else "FAIL commutativity:" ++ norm vars x ++ " vs " ++ norm vars y
            | _, _ => "FAIL unparsable-impl-answer"
        (model, verdict)
      | [a, b, c] =>
        let model := "l=" ++ renderOpt (runLeft nvars parent a b c) ++ " r=" ++ renderOpt (runRight nvars parent a b c)
        let verdict :=
          if anyEq then "ok"
          else if impl.contains "PANIC" then "FAIL panic"
          else if anyPacked then "ok"
          else match field impl "l", field impl "r" with
            | some x, some y =>
              let bad := MergeLaws.Bad a b c
              if norm vars x = norm vars y then
                (if bad then "FAIL associativity-region-mismatch:holds where the pinned merge was proved to fail" else "ok")
              else if bad then "FAIL associativity-absorber:" ++ norm vars x ++ " vs " ++ norm vars y
              else "FAIL associativity:" ++ norm vars x ++ " vs " ++ norm vars y
            | _, _ => "FAIL unparsable-impl-answer"
        (model, verdict)
      | _ => ("bad-request", "ok")
    | _, _, _ => ("bad-request", "ok")
  | _ => ("bad-request", "ok")

end SLE.Driver.Types
