import SLE.Model.TC
import SLE.Driver.LiftD
import SLE.Driver.UnifyD
import SLE.Driver.PipelineD
import SLE.Driver.AbiText
import SLE.Driver.SlotOracle
/-! Driver for family `tc`: the type-checking pipeline on an explicit list of values. -/
namespace SLE.Driver.TCD
open SLE SLE.SV SLE.TC SLE.JsonModel SLE.Driver SLE.Driver.Types SLE.Driver.AbiText

def sortStrings (l : List String) : List String :=
  let rec ins (x : String) : List String → List String
    | [] => [x]
    | y :: r => if x < y then x :: y :: r else y :: ins x r
  l.foldl (fun acc x => ins x acc) []

def rerrName : RErr → String
  | .unificationFailure => "UnificationFailure" | .unificationIncomplete => "UnificationIncomplete"
  | .invalidInference => "InvalidInference" | .outOfFuel => "OutOfFuel"

def handle (tbl : Array (Nat × Nat)) (payload impl : String) : String × String :=
  let parts := payload.splitOn " $ "
  let vals := parts.filterMap parseSV
  if vals.length ≠ parts.length then ("bad-request", "ok") else
  let vals := vals.map normSizes
  let a := analyse (LiftD.hashCtx tbl) UnifyD.sortedOrders 400 vals
  let js := (List.range a.allocated).foldl (fun (acc : List String) v =>
    acc ++ (sortStrings (((a.infs.lookup v).getD []).map teText)).map (fun e => s!"{v}>{e}")) []
  let head := s!"n={a.registered} m={a.allocated} J=[{" ".intercalate js}] "
  let model := match a.outcome with
    | .layout l => head ++ "res=ok layout=" ++ layoutText l
    | .liftFault _ => "PANIC lift"
    | .unifyFault .outOfFuel => head ++ "res=err U.StoppedByWatchdog"
    | .unifyFault _ => "PANIC unify"
    | .renderFault e => head ++ "res=err U." ++ rerrName e
  let verdict :=
    if impl.startsWith "PANIC" then "FAIL C01-panic:" ++ impl
    else if (impl.splitOn "res=err").length > 1 then
      (if (impl.splitOn "StoppedByWatchdog").length > 1 then "FAIL C03-analysis-does-not-halt:unification" else "ok")
    else match PipelineD.parseLayout impl with
      | none => if impl.startsWith "err" then "ok" else "FAIL unparsable-impl-answer"
      | some es =>
        let c12 := PipelineD.oracleC12 es
        -- an out-of-slot entry whose input holds a mask nested in a narrower mask is finding D20
        let c12 := if !c12.isEmpty && vals.any LiftD.liftsToNestedWider
          then c12.map (fun x => x.replace "C12-entry-" "C12-nested-mask-entry-") else c12
        let slots := SlotOracle.check tbl vals (es.map (·.index))
        PipelineD.verdictOf (c12 ++ slots)
  (model, verdict)

end SLE.Driver.TCD
