import SLE.Model.TC
import SLE.Driver.LiftD
import SLE.Driver.UnifyD
import SLE.Driver.PipelineD
/-! Driver for family `tc`: the type-checking pipeline on an explicit list of values. -/
namespace SLE.Driver.TCD
open SLE SLE.SV SLE.TC SLE.JsonModel SLE.Driver SLE.Driver.Types

def optText : Option Nat → String
  | some n => toString n
  | none => "?"

mutual
def abiText : AbiType → String
  | .any => "any"
  | .number s => s!"(number {optText s})"
  | .uInt s => s!"(uint {optText s})"
  | .int s => s!"(int {optText s})"
  | .address => "address" | .selector => "selector" | .function => "function" | .bool => "bool"
  | .array size tp => "(array 0x" ++ natHex size ++ " " ++ abiText tp ++ ")"
  | .bytes l => s!"(bytes {optText l})"
  | .bits l => s!"(bits {optText l})"
  | .dynArray tp => "(dynarray " ++ abiText tp ++ ")"
  | .dynBytes => "dynbytes"
  | .mapping k v => "(mapping " ++ abiText k ++ " " ++ abiText v ++ ")"
  | .struct es => "(struct" ++ elemsText es ++ ")"
  | .infiniteType => "infinite"
  | .conflictedType _ _ => "conflict"
def elemsText : List StructElement → String
  | [] => ""
  | .mk off t :: r => " (" ++ toString off ++ " " ++ abiText t ++ ")" ++ elemsText r
end

def layoutText (l : List (Layout.Entry AbiType)) : String :=
  "[" ++ ";".intercalate (l.map (fun e => "0x" ++ natHex e.index ++ ":" ++ toString e.offset ++ ":" ++ abiText e.typ)) ++ "]"

def sortStrings (l : List String) : List String :=
  let rec ins (x : String) : List String → List String
    | [] => [x]
    | y :: r => if x < y then x :: y :: r else y :: ins x r
  l.foldl (fun acc x => ins x acc) []

def rerrName : RErr → String
  | .unificationFailure => "UnificationFailure" | .unificationIncomplete => "UnificationIncomplete"
  | .invalidInference => "InvalidInference" | .outOfFuel => "OutOfFuel"

mutual
/-- constants in a tree (with the folded value of every sub-tree) -/
def constsOf : SV → List Nat → List Nat
  | .node k attrs ks _, acc =>
    let acc := match k, attrs with
      | .knownData, w :: _ => if acc.contains w then acc else w :: acc
      | _, _ => acc
    constsOfList ks acc
def constsOfList : List SV → List Nat → List Nat
  | [], acc => acc
  | k :: ks, acc => constsOfList ks (constsOf k acc)
end

def litOf (key : SV) (lits : List Nat) : List Nat :=
  match key with
  | .node .knownData (w :: _) _ _ => if lits.contains w then lits else w :: lits
  | _ => lits

mutual
/-- (constants in key position of a storage access, literal keys of loads and writes,
constants in value position of a storage access) -/
def storageConsts : SV → (List Nat × List Nat × List Nat) → (List Nat × List Nat × List Nat)
  | .node k _ ks _, (keys, lits, vals) =>
    let (keys, lits, vals) := match k, ks with
      | .sLoad, [key, v] => (constsOf key keys, litOf key lits, constsOf v vals)
      | .storageWrite, [key, v] => (constsOf key keys, litOf key lits, constsOf v vals)
      | .unwrittenStorageValue, [key] => (constsOf key keys, lits, vals)
      | _, _ => (keys, lits, vals)
    storageConstsList ks (keys, lits, vals)
def storageConstsList : List SV → (List Nat × List Nat × List Nat) → (List Nat × List Nat × List Nat)
  | [], acc => acc
  | k :: ks, acc => storageConstsList ks (storageConsts k acc)
end

def handle (tbl : Array (Nat × Nat)) (payload impl : String) : String × String :=
  let parts := payload.splitOn " $ "
  let vals := parts.filterMap parseSV
  if vals.length ≠ parts.length then ("bad-request", "ok") else
  let vals := vals.map normSizes
  let a := analyse (LiftD.hashCtx tbl) UnifyD.sortedOrders 400 vals
  let js := (List.range a.allocated).foldl (fun (acc : List String) v =>
    acc ++ (sortStrings (((a.infs.lookup v).getD []).map teText)).map (fun e => s!"{v}>{e}")) []
  let head := s!"n={a.registered} m={a.allocated} J=[{" ".intercalate js}] "
  let model := match a.outcome with
    | .layout l => head ++ "res=ok layout=" ++ layoutText l
    | .liftFault _ => "PANIC lift"
    | .unifyFault .outOfFuel => head ++ "res=err U.StoppedByWatchdog"
    | .unifyFault _ => "PANIC unify"
    | .renderFault e => head ++ "res=err U." ++ rerrName e
  -- oracles on the implementation's answer, from the *input* values only
  let (keys, lits, valueConsts) := storageConstsList vals ([], [], [])
  let pre := fun (w : Nat) => LiftD.tableLookup tbl w
  let base := keys ++ keys.filterMap pre
  let allowed := fun (w : Nat) => base.contains w || base.any (fun a => base.any (fun b => (a + b) % 2 ^ 256 == w))
  let verdict :=
    if impl.startsWith "PANIC" then "FAIL C01-panic:" ++ impl
    else if (impl.splitOn "res=err").length > 1 then
      (if (impl.splitOn "StoppedByWatchdog").length > 1 then "FAIL C03-analysis-does-not-halt:unification" else "ok")
    else match PipelineD.parseLayout impl with
      | none => if impl.startsWith "err" then "ok" else "FAIL unparsable-impl-answer"
      | some es =>
        let c12 := PipelineD.oracleC12 es
        let c05 := match es.find? (fun e => !(allowed e.index)) with
          | some e =>
            let fromValue := valueConsts.contains e.index || (valueConsts.filterMap pre).contains e.index ||
              valueConsts.any (fun a => valueConsts.any (fun b => (a + b) % 2 ^ 256 == e.index))
            [(if fromValue then "C05-phantom-slot-from-value-position:0x" else "C05-phantom-slot:0x") ++ natHex e.index]
          | none => []
        let c06 := match lits.find? (fun w => (pre w).isNone && !(es.any (fun e => e.index == w))) with
          | some w => ["C06-missed-slot:0x" ++ natHex w]
          | none => []
        PipelineD.verdictOf (c12 ++ c05 ++ c06)
  (model, verdict)

end SLE.Driver.TCD
