import SLE.Lemmas.VMSize
/-!
# C18 at the machine: every value an executed instruction produces

`Props/C18.lean` is about the value-tree layer (the culling constructor, folding, transformers).
Here the bound is an invariant of the symbolic machine: every builder goes through the culling
constructor, and the one place that does not (`Storage::load`, repaired by 7833b04) is re-checked
by SLOAD.
-/
namespace SLE.C18M
open SLE SLE.SV

/-- One instruction keeps every stack entry, memory cell, storage key and stored value within the
limit and truthfully sized (the placeholder a first load leaves in the storage map may have one
node more: key + 1). -/
theorem C18_execOp_within_limit (c : VM.Ctx) (code : List Disasm.Instr) (ins : Disasm.Instr) (d : VM.TData) (ctr : Nat) :
    VMSize.GoodD (max c.cfg.valueLimit 1) d → VMSize.GoodD (max c.cfg.valueLimit 1) (VM.execOp c code ins d ctr).d :=
  VMSize.good_execOp c code ins d ctr

/-- For every program, configuration and number of iterations: every value on the stack of every
thread reports its true size and has at most `max limit 1` nodes. -/
theorem C18_machine_results_within_limit (cfg : VM.Cfg) (code : List Disasm.Instr) (fuel : Nat) :
    ∀ t ∈ (VM.run cfg code fuel (VM.initVM cfg code)).queue ++ (VM.run cfg code fuel (VM.initVM cfg code)).stored,
      ∀ v ∈ t.d.stack, v.recSize = nodeCount v ∧ nodeCount v ≤ max cfg.valueLimit 1 :=
  VMSize.instruction_results_within_limit cfg code fuel

end SLE.C18M
