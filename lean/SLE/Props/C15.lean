import SLE.Lemmas.Join
/-!
# C15 — compatible evidence joins to its most specific type; contradictions conflict

Property theorems over M5.  The resolved type of a class is `foldMerge` of its evidence in some
order.  `wordLe` is the specificity order on words (`unknown width ⊑ known width`,
`bytes ⊑ everything`, `numeric ⊑ unsigned ⊑ address`, `numeric ⊑ signed`).
-/
namespace SLE.C15
open SLE SLE.MergeLaws SLE.Layout SLE.Join

/-- The usage merge is the least upper bound of the specificity order, and fails exactly when
there is no upper bound. -/
theorem C15_usage_lub (a b : WordUse) :
    (∀ c, a.merge b = some c → useLe a c = true ∧ useLe b c = true ∧
      ∀ d, useLe a d = true → useLe b d = true → useLe c d = true) ∧
    (a.merge b = none → ¬ ∃ d, useLe a d = true ∧ useLe b d = true) :=
  ⟨fun c h => useMerge_lub a b c h, useMerge_none a b⟩

/-- Two words merge to their least upper bound, and to a conflict exactly when they have none
(two different known widths, or usages without a join). -/
theorem C15_word_join (w1 u1 w2 u2) :
    ((outcome (.word w1 u1) (.word w2 u2)).1 = .conflict ↔
      (∃ a b, w1 = some a ∧ w2 = some b ∧ a ≠ b) ∨ u1.merge u2 = none) ∧
    ((∃ d, wordLe (.word w1 u1) d = true ∧ wordLe (.word w2 u2) d = true) →
      ∃ w u, outcome (.word w1 u1) (.word w2 u2) = (.word w u, []) ∧
        wordLe (.word w1 u1) (.word w u) = true ∧ wordLe (.word w2 u2) (.word w u) = true ∧
        ∀ d, wordLe (.word w1 u1) d = true → wordLe (.word w2 u2) d = true → wordLe (.word w u) d = true) :=
  ⟨word_join_conflict_iff' w1 u1 w2 u2, word_join_lub w1 u1 w2 u2⟩

/-- Mutually compatible word evidence (everything below some word `T`) resolves — in every
order — to a non-conflict `j` above every piece of evidence and below every such `T`: the known
width and the most specific usage present are kept, nothing more is invented. -/
theorem C15_consistent_no_conflict (l : List TE) (T : TE) (hne : l ≠ [])
    (hw : ∀ e ∈ l, (∃ w u, e = .word w u) ∨ e = .any) (hT : ∃ w u, T = .word w u)
    (hle : ∀ e ∈ l, wordLe e T = true) :
    ∃ j q, foldMerge l = some (j, q) ∧ j ≠ .conflict ∧ (∀ e ∈ l, wordLe e j = true) ∧ wordLe j T = true :=
  consistent_words_join l T hne hw hT hle

/-- Mappings keep their structure and all their components are equated (likewise arrays). -/
theorem C15_mappings_join (l : List TE) (hne : l ≠ [])
    (hm : ∀ e ∈ l, (∃ k v, e = .mapping k v) ∨ e = .any) (hex : ∃ k v, .mapping k v ∈ l) :
    ∃ k v q, foldMerge l = some (.mapping k v, q) ∧ .mapping k v ∈ l ∧
      ∀ k' v', .mapping k' v' ∈ l → Equiv q k k' ∧ Equiv q v v' :=
  consistent_mappings_join l hne hm hex

theorem C15_dynarrays_join (l : List TE) (hne : l ≠ [])
    (hm : ∀ e ∈ l, (∃ a, e = .dynamicArray a) ∨ e = .any) (hex : ∃ a, .dynamicArray a ∈ l) :
    ∃ a q, foldMerge l = some (.dynamicArray a, q) ∧ .dynamicArray a ∈ l ∧
      ∀ a', .dynamicArray a' ∈ l → Equiv q a a' :=
  consistent_dynarrays_join l hne hm hex

/-- Plain contradictions (two pieces of evidence that conflict pairwise) make the class a
conflict in every order, on evidence without an absorbing constructor … -/
theorem C15_contradiction_conflicts (l : List TE) (hpf : ∀ e ∈ l, PF e = true)
    (hab : ∀ e ∈ l, absorber e = false) (h : ∃ a ∈ l, ∃ b ∈ l, conflicts a b = true) :
    ∃ q, foldMerge l = some (.conflict, q) :=
  contradiction_conflicts l hpf hab h

/-- … and a mapping against anything that is not a mapping conflicts unconditionally. -/
theorem C15_mapping_contradiction (l : List TE) (hpf : ∀ e ∈ l, PF e = true) (k v : Nat)
    (hm : .mapping k v ∈ l) (x : TE) (hx : x ∈ l) (hx1 : x ≠ .any)
    (hx2 : ∀ k' v', x ≠ .mapping k' v') : ∃ q, foldMerge l = some (.conflict, q) :=
  mapping_contradiction_conflicts l hpf k v hm x hx hx1 hx2

/-- The full statement (without the absorber hypothesis) is false of the pinned code (D11). -/
theorem C15_contradiction_swallowed_on_pinned :
    foldMerge [.bytes, .word (some 8) .bool, .word (some 160) .address] = some (.bytes, []) ∧
    conflicts (.word (some 8) .bool) (.word (some 160) .address) = true :=
  ⟨contradiction_swallowed_witness, contradiction_swallowed_witness_conflicts⟩

/-! ### Non-vacuity -/
example : wordLe (.word none .numeric) (.word (some 160) .address) = true := by decide
example : conflicts (.word (some 8) .numeric) (.word (some 16) .numeric) = true := by decide

end SLE.C15
