import SLE.Lemmas.Json
import SLE.Lemmas.JsonText
/-!
# C20 — layouts survive a JSON round trip with exact 256-bit slot indices

Property theorems over M8 (`SLE.JsonModel`): serde's observable shapes of `StorageSlot`,
`AbiType`, `StructElement`, and the text of `U256Wrapper`.
-/
namespace SLE.C20
open SLE.JsonModel SLE.JsonText

/-- Slot indices are written as `0x` followed by exactly 64 hex digits … -/
theorem C20_hex_shape (n : Nat) : (toHex64 n).length = 66 ∧ (toHex64 n).take 2 = ['0', 'x'] :=
  ⟨toHex64_length n, toHex64_prefix n⟩

/-- … and are read back exactly, for every 256-bit value. -/
theorem C20_hex (n : Nat) (h : n < 2 ^ 256) : parseHex (toHex64 n) = some n := parseHex_toHex64 n h

/-- Every reportable type — every variant, conflicts with payloads, infinite types, structs,
arrays with 256-bit lengths, nested to any depth — deserialises back to itself. -/
theorem C20_abi_roundtrip (t : AbiType) (h : WFAbi t) : decode (encode t) = some t := decode_encode t h

/-- Every layout entry round-trips. -/
theorem C20_slot_roundtrip (s : StorageSlot) (hi : s.index < 2 ^ 256) (ht : WFAbi s.typ) :
    decodeSlot (encodeSlot s) = some s := decodeSlot_encodeSlot s hi ht

/-! ### The text layer (`Model/JsonText.lean`: serde_json's compact output with its string escaping,
and a JSON parser; tied to the code by the `json` family, which compares the rendered text with
`serde_json::to_string` byte for byte and parses the code's own text back with this parser) -/

/-- String escaping is inverted by the parser for every string: quotes, backslashes, control
characters, U+007F, non-ASCII — any list of Unicode scalar values. -/
theorem C20_unescape_escape (cs rest : List Char) : parseStrBody (escape cs ++ '"' :: rest) = some (cs, rest) :=
  unescape_escape cs rest

/-- Parsing the rendered text of any JSON value gives the value back. -/
theorem C20_parse_render (j : Json) : parse (render j) = some j := parse_render j

/-- **The property at the level it is stated**: a layout entry serialised to JSON *text* and parsed
back is the same entry, index exact to the bit. -/
theorem C20_text_roundtrip (s : StorageSlot) (hi : s.index < 2 ^ 256) (ht : WFAbi s.typ) :
    parseSlot (renderSlot s) = some s := parseSlot_renderSlot s hi ht

/-- Two different entries never serialise to the same text. -/
theorem C20_text_injective (s₁ s₂ : StorageSlot) (hi₁ : s₁.index < 2 ^ 256) (ht₁ : WFAbi s₁.typ)
    (hi₂ : s₂.index < 2 ^ 256) (ht₂ : WFAbi s₂.typ) : renderSlot s₁ = renderSlot s₂ → s₁ = s₂ :=
  renderSlot_injective s₁ s₂ hi₁ ht₁ hi₂ ht₂

/-! ### Non-vacuity -/
example : WFAbi (.mapping .address (.struct [.mk 0 (.array (2 ^ 255) (.conflictedType ["a"] ["b"])), .mk 8 .bool])) := by
  simp [WFAbi, WFElems]
example : parseHex (toHex64 (2 ^ 256 - 1)) = some (2 ^ 256 - 1) := by decide

end SLE.C20
