import SLE.Lemmas.Json
/-!
# C20 — layouts survive a JSON round trip with exact 256-bit slot indices

Property theorems over M8 (`SLE.JsonModel`): serde's observable shapes of `StorageSlot`,
`AbiType`, `StructElement`, and the text of `U256Wrapper`.
-/
namespace SLE.C20
open SLE.JsonModel

/-- Slot indices are written as `0x` followed by exactly 64 hex digits … -/
theorem C20_hex_shape (n : Nat) : (toHex64 n).length = 66 ∧ (toHex64 n).take 2 = ['0', 'x'] :=
  ⟨toHex64_length n, toHex64_prefix n⟩

/-- … and are read back exactly, for every 256-bit value. -/
theorem C20_hex (n : Nat) (h : n < 2 ^ 256) : parseHex (toHex64 n) = some n := parseHex_toHex64 n h

/-- Every reportable type — every variant, conflicts with payloads, infinite types, structs,
arrays with 256-bit lengths, nested to any depth — deserialises back to itself. -/
theorem C20_abi_roundtrip (t : AbiType) (h : WFAbi t) : decode (encode t) = some t := decode_encode t h

/-- Every layout entry round-trips. -/
theorem C20_slot_roundtrip (s : StorageSlot) (hi : s.index < 2 ^ 256) (ht : WFAbi s.typ) :
    decodeSlot (encodeSlot s) = some s := decodeSlot_encodeSlot s hi ht

/-! ### Non-vacuity -/
example : WFAbi (.mapping .address (.struct [.mk 0 (.array (2 ^ 255) (.conflictedType ["a"] ["b"])), .mk 8 .bool])) := by
  simp [WFAbi, WFElems]
example : parseHex (toHex64 (2 ^ 256 - 1)) = some (2 ^ 256 - 1) := by decide

end SLE.C20
