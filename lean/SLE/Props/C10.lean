import SLE.Lemmas.Disasm
import SLE.Gen.OpcodeTable
/-!
# C10 — disassembly is total, lossless and keeps byte offsets

Property theorems only.  Model: `SLE.Disasm` (mirror of `disassemble`, `PushN::new`,
`Opcode::encode`).  Bytes are quantified as `List UInt8`.
-/
namespace SLE.C10
open SLE.Disasm

def toNats (bs : List UInt8) : List Nat := bs.map UInt8.toNat

private theorem toNats_ne {bs : List UInt8} (h : bs ≠ []) : toNats bs ≠ [] := by
  cases bs <;> simp_all [toNats]

/-- Disassembly of any non-empty byte string that fits `u32` offsets is exactly the
chunk-wise reference decoding. -/
theorem C10_disasm_eq_spec (bs : List UInt8) (h : bs ≠ []) (hl : bs.length ≤ 2 ^ 32) :
    disasm (toNats bs) = .ok (spec (toNats bs)) := by
  rw [disasm_eq_full _ (toNats_ne h) (by simpa [toNats] using hl), full_idle_spec]

/-- Total: every non-empty byte string disassembles (no `Err`, in particular no
`InvalidPushSize` from a PUSH cut short by the end of the code). -/
theorem C10_total (bs : List UInt8) (h : bs ≠ []) (hl : bs.length ≤ 2 ^ 32) :
    ∃ is, disasm (toNats bs) = .ok is :=
  ⟨_, C10_disasm_eq_spec bs h hl⟩

/-- One stream entry per input byte: instruction index = byte offset. -/
theorem C10_length (bs : List UInt8) (is : List Instr) (h : disasm (toNats bs) = .ok is) :
    is.length = bs.length := by
  have hne : bs ≠ [] := by
    intro hb; subst hb; simp [toNats, disasm] at h
  have hl : bs.length ≤ 2 ^ 32 := by
    apply Decidable.byContradiction; intro hc
    have : (toNats bs).length > 2 ^ 32 := by simp [toNats]; omega
    simp [disasm, toNats_ne hne, this] at h
  rw [C10_disasm_eq_spec bs hne hl] at h
  injection h with h; subst h
  rw [spec_length _ _ (Nat.le_refl _)]; simp [toNats]

/-- Lossless: re-encoding the stream gives back the input byte for byte (this is also the
`assert_eq!` in `InstructionStream::try_from`, which therefore cannot fire). -/
theorem C10_roundtrip (bs : List UInt8) (is : List Instr) (h : disasm (toNats bs) = .ok is) :
    encodeAll is = toNats bs := by
  have hne : bs ≠ [] := by
    intro hb; subst hb; simp [toNats, disasm] at h
  have hl : bs.length ≤ 2 ^ 32 := by
    apply Decidable.byContradiction; intro hc
    have : (toNats bs).length > 2 ^ 32 := by simp [toNats]; omega
    simp [disasm, toNats_ne hne, this] at h
  rw [C10_disasm_eq_spec bs hne hl] at h
  injection h with h; subst h
  exact spec_encode _ _ (Nat.le_refl _)

private theorem entries (bs : List UInt8) (is : List Instr) (h : disasm (toNats bs) = .ok is) :
    All3 Entry (toNats bs) (pushDataMask (toNats bs)) is := by
  have hne : bs ≠ [] := by
    intro hb; subst hb; simp [toNats, disasm] at h
  have hl : bs.length ≤ 2 ^ 32 := by
    apply Decidable.byContradiction; intro hc
    have : (toNats bs).length > 2 ^ 32 := by simp [toNats]; omega
    simp [disasm, toNats_ne hne, this] at h
  rw [C10_disasm_eq_spec bs hne hl] at h
  injection h with h; subst h
  exact spec_entries _ _ (Nat.le_refl _)

/-- Bytes that the EVM's own forward scan calls push immediates are never instructions:
the entry at such an offset is the `Nop` placeholder, or — only inside a PUSH cut short
by the end of the code — `Invalid`. -/
theorem C10_pushdata_not_instr (bs : List UInt8) (is : List Instr)
    (h : disasm (toNats bs) = .ok is) (i : Nat)
    (hm : (pushDataMask (toNats bs))[i]? = some true) :
    is[i]? = some .nop ∨ ∃ b, is[i]? = some (.invalid b) := by
  have hall := entries bs is h
  have hlen := hall.lengths
  have hi : i < (pushDataMask (toNats bs)).length := by
    cases hx : (pushDataMask (toNats bs))[i]? with
    | none => simp [hx] at hm
    | some _ => exact (List.getElem?_eq_some_iff.mp hx).1
  have hb : (toNats bs)[i]? = some ((toNats bs)[i]'(by omega)) := List.getElem?_eq_getElem _
  have hc : is[i]? = some (is[i]'(by omega)) := List.getElem?_eq_getElem _
  have := (hall.get i hb hm hc).1 rfl
  rcases this with h1 | h1
  · left; rw [hc, h1]
  · right; exact ⟨_, by rw [hc, h1]⟩

/-- An entry is `JUMPDEST` exactly at offsets holding byte `0x5b` that the EVM scan does
not call push data — so push immediates are never jump destinations. -/
theorem C10_jumpdest_iff (bs : List UInt8) (is : List Instr)
    (h : disasm (toNats bs) = .ok is) (i : Nat) :
    is[i]? = some (.op 0x5b) ↔
      ((toNats bs)[i]? = some 0x5b ∧ (pushDataMask (toNats bs))[i]? = some false) := by
  have hall := entries bs is h
  have hlen := hall.lengths
  by_cases hi : i < is.length
  · have hb : (toNats bs)[i]? = some ((toNats bs)[i]'(by omega)) := List.getElem?_eq_getElem _
    have hm : (pushDataMask (toNats bs))[i]? = some ((pushDataMask (toNats bs))[i]'(by omega)) :=
      List.getElem?_eq_getElem _
    have hc : is[i]? = some (is[i]'(by omega)) := List.getElem?_eq_getElem _
    have hE := hall.get i hb hm hc
    generalize (toNats bs)[i]'(by omega) = b at hb hE
    generalize (pushDataMask (toNats bs))[i]'(by omega) = m at hm hE
    generalize is[i]'(by omega) = ins at hc hE
    rw [hb, hm, hc]
    obtain ⟨hE1, hE2⟩ := hE
    constructor
    · intro hop
      have hop : ins = .op 0x5b := by simpa using hop
      subst hop
      cases m with
      | true => rcases hE1 rfl with h1 | h1 <;> simp at h1
      | false =>
        obtain ⟨h1, h2, h3⟩ := hE2 rfl
        by_cases hp : isPush b = true
        · rcases h1 hp with ⟨d, hd⟩ | hd <;> simp at hd
        · have hp' : isPush b = false := by simpa using hp
          by_cases hk : isKnown b = true
          · have := h2 hp' hk; simp at this; simp [this]
          · have hk' : isKnown b = false := by simpa using hk
            have := h3 hp' hk'; simp at this
    · rintro ⟨hb5, hmf⟩
      have hb5 : b = 0x5b := by simpa using hb5
      have hmf : m = false := by simpa using hmf
      subst hb5 hmf
      have := (hE2 rfl).2.1 (by decide) (by decide)
      simp [this]
  · have h1 : is[i]? = none := by simp; omega
    have h2 : (toNats bs)[i]? = none := by simp; omega
    simp [h1, h2]

/-- A PUSHn whose immediate is cut short by the end of the code — by any number of bytes,
including all of them — is tolerated: the opcode byte and whatever immediate bytes exist
become `Invalid` entries, one per byte. -/
theorem C10_truncated_push_ok (n : Nat) (hn : 1 ≤ n ∧ n ≤ 32) (data : List UInt8)
    (hd : data.length < n) :
    disasm ((0x5f + n) :: toNats data) =
      .ok (.invalid (0x5f + n) :: (toNats data).map .invalid) := by
  have hlen : ((0x5f + n) :: toNats data).length ≤ 2 ^ 32 := by simp [toNats]; omega
  rw [disasm_eq_full _ (by simp) hlen, full_idle_spec, spec_cons]
  have hp : isPush (0x5f + n) = true := by unfold isPush; simp; omega
  have hdl : (toNats data).length = data.length := by simp [toNats]
  have hle : ¬ (0x5f + n - 0x5f ≤ (toNats data).length) := by rw [hdl]; omega
  simp only [hp, hle, if_true, if_false]

/-- Bytes with no assigned opcode behave as `INVALID` wherever they are decoded as an
instruction. -/
theorem C10_unknown_invalid (bs : List UInt8) (is : List Instr)
    (h : disasm (toNats bs) = .ok is) (i : Nat) (b : Nat)
    (hb : (toNats bs)[i]? = some b) (hm : (pushDataMask (toNats bs))[i]? = some false)
    (hp : isPush b = false) (hk : isKnown b = false) : is[i]? = some (.invalid b) := by
  have hall := entries bs is h
  have hlen := hall.lengths
  have hi : i < (toNats bs).length := (List.getElem?_eq_some_iff.mp hb).1
  have hc : is[i]? = some (is[i]'(by omega)) := List.getElem?_eq_getElem _
  have := ((hall.get i hb hm hc).2 rfl).2.2 hp hk
  rw [hc, this]

/-! ### Tie to the regenerated opcode table (re-decided on every run) -/

def kindOf : Instr → Nat
  | .op _ => 0 | .push _ _ => 1 | .nop => 2 | .invalid _ => 3

def leadingNops : List Instr → Nat
  | .nop :: r => leadingNops r + 1
  | _ => 0

/-- What the model says `disassemble([b] ++ [0;32])` starts with:
(kind, `encode()` of the first entry, number of `Nop`s that follow it). -/
def modelRow (b : Nat) : Nat × List Nat × Nat :=
  match disasm (b :: List.replicate 32 0) with
  | .ok (i :: rest) => (kindOf i, i.encode, leadingNops rest)
  | _ => (99, [], 0)

/-- The table obtained by *executing the current Rust disassembler* on every first byte
equals the model's. -/
theorem C10_table : SLE.Gen.opcodeRows = (List.range 256).map modelRow := by
  decide +kernel

/-! ### Non-vacuity -/

example : disasm (toNats [0x60]) = .ok [.invalid 0x60] := by rfl
example : disasm (toNats [0x61, 0x5b]) = .ok [.invalid 0x61, .invalid 0x5b] := by rfl
example : disasm (toNats [0x60, 0x5b, 0x5b]) = .ok [.push 1 [0x5b], .nop, .op 0x5b] := by rfl
example : pushDataMask (toNats [0x60, 0x5b, 0x5b]) = [false, true, false] := by
  simp [toNats, mask_cons, mask_nil, isPush]

end SLE.C10
