import SLE.Lemmas.VMap
import SLE.Lemmas.DS
/-!
# C19 — the vector map and the union-find forest match their abstract models

Property theorems only.  Models: `SLE.Containers.VMap` (mirror of `VectorMap`) and
`SLE.Containers.DS` (mirror of `DisjointSet`, `Combine` abstract).
The abstraction of a `VMap` is the partial function `fun k => m.get k`.
-/
namespace SLE.C19
open SLE.Containers SLE.Containers.VMap

variable {V : Type}

/-- `insert` then `get` behaves like function update (overwrites included). -/
theorem C19_vm_get_insert (m : VMap V) (k : Nat) (v : V) (i : Nat) :
    (m.insert k v).get i = if i = k then some v else m.get i := get_insert m k v i

/-- `remove` returns the old binding and deletes exactly that key (absent keys included). -/
theorem C19_vm_get_remove (m m' : VMap V) (k : Nat) (r : Option V)
    (h : m.remove k = .ok (m', r)) (i : Nat) :
    r = m.get k ∧ m'.get i = if i = k then none else m.get i := get_remove m m' k r h i

/-- `iter` enumerates exactly the bindings of the abstract map. -/
theorem C19_vm_iter (m : VMap V) (i : Nat) (v : V) : (i, v) ∈ m.iter ↔ m.get i = some v :=
  mem_iter m i v

/-- Operations of the vector map. -/
inductive MOp (V : Type) where
  | insert (k : Nat) (v : V)
  | remove (k : Nat)

/-- Run a history; `none` when the overflow-checked `size -= 1` would panic. -/
def runOps : VMap V → List (MOp V) → Option (VMap V)
  | m, [] => some m
  | m, .insert k v :: r => runOps (m.insert k v) r
  | m, .remove k :: r =>
    match m.remove k with
    | .ok (m', _) => runOps m' r
    | .error _ => none

/-- The abstract map after a history. -/
def specOps : (Nat → Option V) → List (MOp V) → (Nat → Option V)
  | f, [] => f
  | f, .insert k v :: r => specOps (fun i => if i = k then some v else f i) r
  | f, .remove k :: r => specOps (fun i => if i = k then none else f i) r

/-- Every history of inserts, overwrites and removals (absent keys included): no panic,
contents equal the ordinary map's, and the reported length is the number of bindings. -/
theorem C19_vm_history (ops : List (MOp V)) (m : VMap V) (h : WF m) :
    ∃ m', runOps m ops = some m' ∧ WF m' ∧
      (∀ i, m'.get i = specOps (fun i => m.get i) ops i) ∧ m'.len = m'.iter.length := by
  induction ops generalizing m with
  | nil => exact ⟨m, rfl, h, fun _ => rfl, len_eq_iter_length m h⟩
  | cons op ops ih =>
    cases op with
    | insert k v =>
      obtain ⟨m', h1, h2, h3, h4⟩ := ih (m.insert k v) (wf_insert m k v h)
      refine ⟨m', h1, h2, ?_, h4⟩
      intro i; rw [h3]; simp only [specOps]; congr 1; funext j; exact get_insert m k v j
    | remove k =>
      obtain ⟨⟨m1, r⟩, hr⟩ := remove_no_fault m k h
      obtain ⟨m', h1, h2, h3, h4⟩ := ih m1 (wf_remove m m1 k r h hr)
      refine ⟨m', by simp [runOps, hr, h1], h2, ?_, h4⟩
      intro i; rw [h3]; simp only [specOps]; congr 1; funext j
      exact (get_remove m m1 k r hr j).2

/-- From the empty map in particular. -/
theorem C19_vm_history_empty (ops : List (MOp V)) :
    ∃ m', runOps (VMap.empty : VMap V) ops = some m' ∧
      (∀ i, m'.get i = specOps (fun _ => none) ops i) ∧ m'.len = m'.iter.length := by
  obtain ⟨m', h1, _, h3, h4⟩ := C19_vm_history ops (VMap.empty : VMap V) wf_empty
  refine ⟨m', h1, ?_, h4⟩
  intro i; rw [h3]; congr 1

/-- `remove` cannot underflow the size counter. -/
theorem C19_vm_no_fault (m : VMap V) (k : Nat) (h : WF m) : ∃ r, m.remove k = .ok r :=
  remove_no_fault m k h

/-! ### The union-find forest (statements proved in `SLE/Lemmas/DS.lean`)

`DS.Inv` = both vector maps well-formed + the parent map is acyclic (a rank function exists).
`DS.rootOf` = pure parent chase.  `Naive` = the naive partition: registered elements, a
class-representative function and data per representative — no forest, no compression. -/

section Forest
variable {D : Type}
open SLE.Containers.DS

/-- `find` never runs out of fuel, returns the root, the result is a root, path compression
changes no element's root and no data. -/
theorem C19_find (s : DS D) (v : Nat) (h : Inv s) :
    ∃ s' r, s.find v = .ok (s', r) ∧ Inv s' ∧ r = rootOf s v ∧
      (∀ w, rootOf s' w = rootOf s w) ∧ s'.data = s.data ∧ s'.reps.get r = some r :=
  find_spec s v h

/-- `union` joins exactly the two classes and combines their data exactly once; a union of
already-joined elements changes nothing (no duplication), nothing is lost. -/
theorem C19_union (M : Monoid D) (s : DS D) (a b : Nat) (h : Inv s) :
    ∃ s', s.union M a b = .ok s' ∧ Inv s' ∧
      (∀ w, s'.mem w = (s.mem w || decide (w = a) || decide (w = b))) ∧
      (rootOf s a = rootOf s b →
        (∀ w, rootOf s' w = rootOf s w) ∧ s'.data = s.data) ∧
      (rootOf s a ≠ rootOf s b →
        (∀ w, rootOf s' w = if rootOf s w = rootOf s b then rootOf s a else rootOf s w) ∧
        ∀ k, s'.data.get k =
          if k = rootOf s a then
            some (M.combine (dataAt M s (rootOf s a)) (dataAt M s (rootOf s b)))
          else if k = rootOf s b then none else s.data.get k) :=
  union_spec M s a b h

theorem C19_add_data (M : Monoid D) (s : DS D) (v : Nat) (d : D) (h : Inv s) :
    ∃ s', s.addData M v d = .ok s' ∧ Inv s' ∧ (∀ w, rootOf s' w = rootOf s w) ∧
      (∀ k, s'.data.get k =
        if k = rootOf s v then some (M.combine (dataAt M s (rootOf s v)) d) else s.data.get k) ∧
      (∀ w, s'.mem w = (s.mem w || decide (w = v))) :=
  addData_spec M s v d h

theorem C19_get_data (s : DS D) (v : Nat) (h : Inv s) :
    ∃ s', s.getData v = .ok (s', s.data.get (rootOf s v)) ∧ Inv s' ∧
      (∀ w, rootOf s' w = rootOf s w) ∧ s'.data = s.data ∧
      (∀ w, s'.mem w = (s.mem w || decide (w = v))) :=
  getData_spec s v h

/-- Every history from the empty forest: no fault (no fuel exhaustion, no size underflow). -/
theorem C19_history_no_fault (M : Monoid D) (ops : List (Op D)) :
    Inv (run M DS.empty ops).1 ∧ ∀ o ∈ (run M DS.empty ops).2, ∀ f, o ≠ .fault f :=
  history_no_fault M ops

/-- Every history from the empty forest: the forest represents the naive partition's final
state and every observation (`find`, `get_data`, `sets`, `values`) is one the naive
partition allows. -/
theorem C19_history (M : Monoid D) (ops : List (Op D)) :
    Abs (run M DS.empty ops).1 (Naive.run M Naive.empty ops).1 ∧
    ObsMatch (run M DS.empty ops).2 (Naive.run M Naive.empty ops).2 :=
  history_refines M ops

/-- Same partition: two elements share a root iff the naive partition puts them together. -/
theorem C19_same_partition (M : Monoid D) (ops : List (Op D)) (a b : Nat) :
    rootOf (run M DS.empty ops).1 a = rootOf (run M DS.empty ops).1 b ↔
      (Naive.run M Naive.empty ops).1.sameClass a b :=
  history_sameClass M ops a b

end Forest

/-! ### Non-vacuity -/
example : ((VMap.empty : VMap Nat).insert 3 7 |>.insert 3 8).len = 1 := by decide
example : WF ((VMap.empty : VMap Nat).insert 3 7 |>.insert 3 8) := by unfold WF; decide

end SLE.C19
