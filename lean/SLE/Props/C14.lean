import SLE.Lemmas.UnifyTerm
import SLE.Lemmas.MergePacked
/-!
# C14 — unification ends with one equality-free type per variable and honours equalities

Property theorems over M5 (`SLE.Unify`, mirror of `unification::unify`) + M6 (the forest), for
every judgement set and every iteration order (`OrdersOk o`: each order function is a
permutation).  `UInv f` = forest invariant ∧ no `Equal` in any class data ∧ data only at roots.

Termination is proved for judgement sets without packed encodings.  The full statement
(`∀ infs, ∃ bound, …`) is **false** of the pinned code: a class holding a packed encoding whose
first span is typed by the class itself together with a sized non-numeric word makes progress
forever (finding D12; witness replayed on the implementation by the `unify` family).
-/
namespace SLE.C14
open SLE SLE.Unify SLE.Containers

/-- `merge` never reaches its `panic!` arms on `Equal`-free evidence (packed arms included), and
never produces an `Equal`. -/
theorem C14_merge_total (l r : TE) (p n : Nat) (hl : NoEq l = true) (hr : NoEq r = true) :
    ∃ m, Merge.merge l r p n = .ok m ∧ NoEq m.expr = true ∧ ∀ j ∈ m.judgements, NoEq j.2 = true := by
  obtain ⟨m, hm⟩ := merge_no_fault l r p n hl hr
  exact ⟨m, hm, merge_no_equal_out l r p n m hl hr hm⟩

/-- `Equal` never enters class data: initialisation routes it to `union`. -/
theorem C14_no_equal_data (o : Orders) (ho : OrdersOk o) (vars : List Nat) (infs : Nat → List TE) :
    ∃ f, initForest o vars infs = .ok f ∧ UInv f := by
  obtain ⟨f, hf⟩ := initForest_ok o vars infs
  exact ⟨f, hf, initForest_inv ho hf⟩

/-- A finished unification leaves every class with at most one type expression, none of them an
equality; the only way not to finish is the round budget (no panic, no forest fault). -/
theorem C14_post (o : Orders) (ho : OrdersOk o) (fuel nvars : Nat) (infs : Nat → List TE)
    (f : Forest) (n r : Nat) (h : unify o fuel nvars infs = .ok (f, n, r)) :
    UInv f ∧ ∀ k d, f.data.get k = some d → d.length ≤ 1 ∧ ∀ e ∈ d, NoEq e = true :=
  unify_post ho h

theorem C14_no_panic (o : Orders) (ho : OrdersOk o) (fuel nvars : Nat) (infs : Nat → List TE)
    (e : UFault) (h : unify o fuel nvars infs = .error e) : e = .outOfFuel :=
  unify_no_panic ho h

/-- Variables declared equal resolve to the same class. -/
theorem C14_equalities (o : Orders) (ho : OrdersOk o) (fuel nvars : Nat) (infs : Nat → List TE)
    (f : Forest) (n r : Nat) (h : unify o fuel nvars infs = .ok (f, n, r)) :
    ∀ v id, v < nvars → .equal id ∈ infs v → DS.rootOf f v = DS.rootOf f id :=
  unify_equalities ho h

/-- Classes only ever merge (so equalities are transitive and never undone), and the component
equalities a round emits (two mappings, two equal-length arrays, two dynamic arrays met in one
class) are unified in the forest it produces. -/
theorem C14_components (o : Orders) (ho : OrdersOk o) (f : Forest) (hf : UInv f) (next counter : Nat) :
    ∃ acc, round o f next counter = .ok acc ∧ UInv acc.forest ∧
      (∀ a b, DS.rootOf f a = DS.rootOf f b → DS.rootOf acc.forest a = DS.rootOf acc.forest b) ∧
      ∀ p ∈ acc.eqs, DS.rootOf acc.forest p.1 = DS.rootOf acc.forest p.2 :=
  round_spec ho hf next counter

/-- Termination, the provable part: no packed encodings ⇒ done within `nvars + 2` rounds. -/
theorem C14_terminates_partial (o : Orders) (ho : OrdersOk o) (nvars : Nat) (infs : Nat → List TE)
    (h : NoPacked nvars infs) :
    ∀ fuel, nvars + 2 ≤ fuel → ∃ f n r, unify o fuel nvars infs = .ok (f, n, r) :=
  unify_ok_nopacked ho h

/-- D12 on the model: `{0 : Packed[(0,0,160)], 0 : Word(160, address)}` is still unresolved after
50 rounds (every round re-emits the word for the span, i.e. for the class itself). -/
theorem C14_terminates_fails_on_pinned :
    (match unify idOrders 50 1 (fun v => if v = 0 then [.packed [⟨0, 0, 160⟩] false, .word (some 160) .address] else []) with
     | .error .outOfFuel => true | _ => false) = true := by decide +kernel

/-! ### Non-vacuity -/
example : NoPacked 2 (fun v => if v = 0 then [.mapping 1 1, .word none .numeric] else [.equal 0]) := by
  intro v _ e he
  by_cases h : v = 0
  · simp [h] at he; rcases he with rfl | rfl <;> rfl
  · simp [h] at he; subst he; rfl


/-- Why unification need not terminate (finding D12), for every width and every non-numeric
usage: a packed encoding whose only span is the class itself, met by a word of that width, hands
the word back as new evidence for the same class and is itself unchanged — in either order. -/
theorem C14_packed_self_reference_reemits (p w : Nat) (u : WordUse) (hu : MergePacked.nonNumeric u = true) (n : Nat) :
    foldClass p [.packed [⟨p, 0, w⟩] false, .word (some w) u] n =
      .ok (.packed [⟨p, 0, w⟩] false, n, [], [(p, .word (some w) u)], []) ∧
    foldClass p [.word (some w) u, .packed [⟨p, 0, w⟩] false] n =
      .ok (.packed [⟨p, 0, w⟩] false, n, [], [(p, .word (some w) u)], []) :=
  MergePacked.d12_foldClass p w u hu n

end SLE.C14
