import SLE.Lemmas.ProgramModes
/-!
# C17 for the whole analysis

`Props/C17.lean` is about the machine (`VM.run`).  Here the statements are about
`Pipe.analyseProgram` (the model of `Extractor::analyze`): `strict cfg` / `perm cfg` differ only in
the permissive flag.
-/
namespace SLE.C17
open SLE SLE.SV SLE.VM SLE.Disasm SLE.Pipe SLE.ProgramModes

/-- Whenever strict mode succeeds, permissive mode returns the same analysis — the same layout. -/
theorem C17_program_strict_ok_same (h : Lift.HashCtx) (o : Unify.Orders) (cfg : Cfg) (bytes : List Nat) (vmFuel uFuel : Nat)
    (a : TC.Analysis) :
    analyseProgram h o (strict cfg) bytes vmFuel uFuel = .analysed a →
      analyseProgram h o (perm cfg) bytes vmFuel uFuel = .analysed a :=
  M1 h o cfg bytes vmFuel uFuel a

/-- Invalid jump targets alone never make the permissive analysis fail: if every error the strict
analysis lists is a jump kind, the permissive analysis type-checks the values of the very same
finished threads.  (An early exit of the machine is never a jump kind, so it is covered.) -/
theorem C17_program_permissive_tolerates_jumps (h : Lift.HashCtx) (o : Unify.Orders) (cfg : Cfg) (bytes : List Nat)
    (vmFuel uFuel : Nat) (es : List (Nat × XErr))
    (hs : analyseProgram h o (strict cfg) bytes vmFuel uFuel = .execErrors es)
    (hj : ∀ e ∈ es, e.2.isJumpKind = true) :
    ∃ code a, Disasm.disasm bytes = .ok code ∧
      analyseProgram h o (perm cfg) bytes vmFuel uFuel = .analysed a ∧
      a = TC.analyse h o uFuel
        (valuesOf (run (strict cfg) code vmFuel (initVM (strict cfg) code))) :=
  M2 h o cfg bytes vmFuel uFuel es hs hj

/-- Every other error still fails the permissive analysis, with exactly the strict list minus the
jump kinds. -/
theorem C17_program_other_errors_surface (h : Lift.HashCtx) (o : Unify.Orders) (cfg : Cfg) (bytes : List Nat)
    (vmFuel uFuel : Nat) (es : List (Nat × XErr))
    (hs : analyseProgram h o (strict cfg) bytes vmFuel uFuel = .execErrors es)
    (hex : ∃ x ∈ es, x.2.isJumpKind = false) :
    analyseProgram h o (perm cfg) bytes vmFuel uFuel =
      .execErrors (es.filter (fun e => !e.2.isJumpKind)) :=
  M3_exact h o cfg bytes vmFuel uFuel es hs hex

/-- Permissive mode never reports an error strict mode does not. -/
theorem C17_program_permissive_errors_are_strict_errors (h : Lift.HashCtx) (o : Unify.Orders) (cfg : Cfg) (bytes : List Nat)
    (vmFuel uFuel : Nat) (es' : List (Nat × XErr))
    (hp : analyseProgram h o (perm cfg) bytes vmFuel uFuel = .execErrors es') :
    ∃ es, analyseProgram h o (strict cfg) bytes vmFuel uFuel = .execErrors es ∧
      es' = es.filter (fun e => !e.2.isJumpKind) :=
  perm_errors_sub h o cfg bytes vmFuel uFuel es' hp

/-- Disassembly errors do not depend on the mode. -/
theorem C17_program_disasm_errors_mode_free (h : Lift.HashCtx) (o : Unify.Orders) (cfg : Cfg) (bytes : List Nat) (vmFuel uFuel : Nat)
    (e : Disasm.DErr) :
    analyseProgram h o (strict cfg) bytes vmFuel uFuel = .disasmError e ↔
      analyseProgram h o (perm cfg) bytes vmFuel uFuel = .disasmError e :=
  M4 h o cfg bytes vmFuel uFuel e

/-! Non-vacuity, decided by kernel evaluation in `Lemmas/ProgramModes.lean` (audited under these
names): `SLE.ProgramModes.M5_strict_jump`, `M5_perm_jump` (PUSH1 1; PUSH1 7; SSTORE; PUSH1 0; JUMP:
strict lists one jump-kind error at offset 7, permissive returns the layout with slot 7),
`M5_underflow` (a stack underflow fails both modes), `M5_disasm`. -/

end SLE.C17
