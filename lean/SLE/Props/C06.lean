import SLE.Lemmas.TCSlots
import SLE.Lemmas.MachineFacts
/-!
# C06 — no missed slots

Over the pipeline model `TC.analyse` (tied to the code by family `tc`): a load or store whose key
is a literal constant yields a layout row at exactly that 256-bit index whenever the analysis
returns a layout — for every index (no 64-bit truncation anywhere on the way), every other value
in the list, every iteration order and step budget.  The literal must not be the recognised
Keccak image of a small slot number (`h.table w = none`): that denotes array data and is the
exception the property itself makes.
-/
namespace SLE.C06
open SLE SLE.SV SLE.TC SLE.TCSpec SLE.Lift

theorem C06_literal_key_reported (h : HashCtx) (o : Unify.Orders) (fuel : Nat) (vs : List SV)
    (l : List (Layout.Entry JsonModel.AbiType)) (w : Nat) (v : SV)
    (hv : v ∈ vs) (hraw : Raw v) (hlit : literalAccess w v = true) (hnot : h.table w = none) :
    (analyse h o fuel vs).outcome = .layout l → ∃ e ∈ l, e.index = w :=
  TCSlots.literal_key_reported h o fuel vs l w v hv hraw hlit hnot

/-- The slot survives value de-duplication: `unique` keeps a structurally equal representative,
and structural equality is equality. -/
theorem C06_dedup_keeps (a b : SV) : SV.beq a b = true → a = b := TCSlots.beq_eq a b


/-! ### The machine side: every storage access is handed to the type checker -/

/-- A store is exported by `all_values` as a `StorageWrite` of exactly its key and value … -/
theorem C06_sstore_exported (c : VM.Ctx) (code : List Disasm.Instr) (d : VM.TData) (ctr : Nat) (k v : SV) (rest : List SV)
    (hs : d.stack = k :: v :: rest) :
    (VM.execOp c code (.op 0x55) d ctr).err = none ∧
    rebuild .storageWrite [] [k, v] ∈ Pipe.allValues (VM.execOp c code (.op 0x55) d ctr).d :=
  MachineFacts.sstore_exported c code d ctr k v rest hs

/-- … a load too (the placeholder of a never-written slot, or an earlier write), in every
reachable thread state (`StWF`: no key with an empty history — an invariant of the machine) … -/
theorem C06_sload_exported (c : VM.Ctx) (code : List Disasm.Instr) (d : VM.TData) (ctr : Nat) (k : SV) (rest : List SV)
    (hs : d.stack = k :: rest) (hwf : MachineFacts.StWF d) :
    ∃ g, (g ∈ MachineFacts.gens d k ∨ g = MachineFacts.unwritten k) ∧
      rebuild .storageWrite [] [k, g] ∈ Pipe.allValues (VM.execOp c code (.op 0x54) d ctr).d :=
  MachineFacts.sload_exported_partial c code d ctr k rest hs hwf
theorem C06_reachable_wf (cfg : VM.Cfg) (code : List Disasm.Instr) (fuel : Nat) :
    ∀ th ∈ (VM.run cfg code fuel (VM.initVM cfg code)).queue ++ (VM.run cfg code fuel (VM.initVM cfg code)).stored,
      MachineFacts.StWF th.d :=
  MachineFacts.reachable_StWF cfg code fuel

/-- … and no later instruction removes or reorders a storage history (histories only grow). -/
theorem C06_history_append_only (c : VM.Ctx) (code : List Disasm.Instr) (ins : Disasm.Instr)
    (d : VM.TData) (ctr : Nat) (k : SV) :
    MachineFacts.gens d k <+: MachineFacts.gens (VM.execOp c code ins d ctr).d k :=
  MachineFacts.execOp_storage_monotone c code ins d ctr k

/-! ### Non-vacuity: a read of a never-written slot with index 2^255 + 7 -/
def bigRead : SV :=
  rebuild .sLoad [] [mkKnownNat (2 ^ 255 + 7), rebuild .unwrittenStorageValue [] [mkKnownNat (2 ^ 255 + 7)]]
example : literalAccess (2 ^ 255 + 7) bigRead = true := by
  simp [literalAccess, bigRead, rebuild, mkKnownNat]
example : Raw bigRead := by
  simp [Raw, bigRead, rebuild, mkKnownNat, anyNode, anyNodeList, isLiftedKind]

end SLE.C06
