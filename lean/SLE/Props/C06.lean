import SLE.Lemmas.TCSlots
/-!
# C06 — no missed slots

Over the pipeline model `TC.analyse` (tied to the code by family `tc`): a load or store whose key
is a literal constant yields a layout row at exactly that 256-bit index whenever the analysis
returns a layout — for every index (no 64-bit truncation anywhere on the way), every other value
in the list, every iteration order and step budget.  The literal must not be the recognised
Keccak image of a small slot number (`h.table w = none`): that denotes array data and is the
exception the property itself makes.
-/
namespace SLE.C06
open SLE SLE.SV SLE.TC SLE.TCSpec SLE.Lift

theorem C06_literal_key_reported (h : HashCtx) (o : Unify.Orders) (fuel : Nat) (vs : List SV)
    (l : List (Layout.Entry JsonModel.AbiType)) (w : Nat) (v : SV)
    (hv : v ∈ vs) (hraw : Raw v) (hlit : literalAccess w v = true) (hnot : h.table w = none) :
    (analyse h o fuel vs).outcome = .layout l → ∃ e ∈ l, e.index = w :=
  TCSlots.literal_key_reported h o fuel vs l w v hv hraw hlit hnot

/-- The slot survives value de-duplication: `unique` keeps a structurally equal representative,
and structural equality is equality. -/
theorem C06_dedup_keeps (a b : SV) : SV.beq a b = true → a = b := TCSlots.beq_eq a b

/-! ### Non-vacuity: a read of a never-written slot with index 2^255 + 7 -/
def bigRead : SV :=
  rebuild .sLoad [] [mkKnownNat (2 ^ 255 + 7), rebuild .unwrittenStorageValue [] [mkKnownNat (2 ^ 255 + 7)]]
example : literalAccess (2 ^ 255 + 7) bigRead = true := by
  simp [literalAccess, bigRead, rebuild, mkKnownNat]
example : Raw bigRead := by
  simp [Raw, bigRead, rebuild, mkKnownNat, anyNode, anyNodeList, isLiftedKind]

end SLE.C06
