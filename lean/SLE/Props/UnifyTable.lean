import SLE.Model.TC
import SLE.Gen.UnifyTable
/-!
# Unification, decided against the running code by the kernel

`SLE.Gen.unifyTable` is regenerated on every run from `/repo`'s working tree: the outcome of
`tc::unification::unify` on small inference problems (equalities, words of every usage, mappings,
arrays, a few packed encodings), kept when the code succeeds, allocates no variable and answers
the same under two iteration orders.  The theorem makes the kernel run the model (`TC.infSets`,
`Unify.unify` with the identity orders) on each problem and compare the partition of the variables
and the evidence left at each class.  It ties the unification loop — initial forest, rounds,
folding with `merge`, equalities, re-inference — of the model that C14, C15, C02 and C03 are
stated about to the code, beyond the pairwise `merge` table.
-/
namespace SLE.UnifyTable
open SLE SLE.Unify SLE.Containers

def rootIn (f : Forest) (v : Nat) : Nat :=
  match f.find v with
  | .ok (_, r) => r
  | .error _ => v

def dataIn (f : Forest) (v : Nat) : List TE :=
  match f.getData v with
  | .ok (_, some d) => d
  | _ => []

/-- replace every variable of a type expression -/
def normTE (ρ : Nat → Nat) : TE → TE
  | .equal i => .equal (ρ i)
  | .fixedArray e l => .fixedArray (ρ e) l
  | .mapping k v => .mapping (ρ k) (ρ v)
  | .dynamicArray e => .dynamicArray (ρ e)
  | .packed ts s => .packed (ts.map (fun x => ⟨ρ x.typ, x.offset, x.size⟩)) s
  | e => e

def row (r : Nat × List (Nat × TE) × List Nat × List (List TE)) : Bool :=
  let nvars := r.1
  let infs := TC.infSets r.2.1
  match unify idOrders 400 nvars (fun v => (infs.lookup v).getD []) with
  | .ok (f, n, _) =>
    let vars := List.range nvars
    let least := fun v => (vars.find? (fun w => rootIn f w == rootIn f v)).getD v
    n == nvars && vars.map least == r.2.2.1 &&
      vars.map (fun v => (dataIn f v).map (normTE least)) == r.2.2.2
  | .error _ => false

theorem unify_table : (SLE.Gen.unifyTable.all row) = true := by decide +kernel

end SLE.UnifyTable
