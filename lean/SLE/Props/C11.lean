import SLE.Lemmas.Rename
/-!
# C11 — a slot's reported type depends only on the code that touches that slot

Over the type-checking pipeline model (`TC`, tied to the code by family `tc`).  `mapConsts ρ`
renames every constant of a value; `SafeFor ρ v` asks `ρ` to leave alone the only two constants
the rules read as numbers (a literal SIGNEXTEND size — up to the width derived from it — and the
size of a call-data read); slot numbers are never among them in generated code.
-/
namespace SLE.C11
open SLE SLE.SV SLE.TC SLE.Rename

/-- The stable-type memo shares a type variable between two sub-trees exactly when they are
structurally equal, and an injective renaming of constants preserves that relation both ways —
so sharing decisions do not depend on what the slot numbers are. -/
theorem C11_sharing_invariant {ρ : Nat → Nat} (hρ : Function.Injective ρ) (a b : SV) :
    SV.beq (mapConsts ρ a) (mapConsts ρ b) = SV.beq a b := beq_mapConsts hρ a b

/-- Typing judgements are independent of the constants: consistently renumbering the constants
of the lifted values produces the very same judgements on the very same type variables. -/
theorem C11_judgements_independent_of_constants {ρ : Nat → Nat} (hρ : Function.Injective ρ) (vs : List SV)
    (hs : ∀ v ∈ vs, SafeFor ρ v) :
    (inferAll (registerAll (vs.map (mapConsts ρ)))).judgements = (inferAll (registerAll vs)).judgements
    ∧ (inferAll (registerAll (vs.map (mapConsts ρ)))).next = (inferAll (registerAll vs)).next :=
  judgements_independent_of_constants hρ vs hs

/-- … and the constant storage slots are renumbered by `ρ`, nothing else. -/
theorem C11_slots_renumbered {ρ : Nat → Nat} (hρ : Function.Injective ρ) (vs : List SV) :
    (registerAll (vs.map (mapConsts ρ))).values = (registerAll vs).values.map (TV.mapConsts ρ) ∧
    ∀ t : TV, isConstSlot (t.mapConsts ρ) = (isConstSlot t).map ρ :=
  ⟨registerAll_values_mapConsts hρ vs, isConstSlot_mapConsts ρ⟩

/-- Hence the layout of the renumbered values is the renumbered layout: same types, same
offsets, indices mapped by `ρ` (as a multiset; `C12_sorted` fixes the order), for every
iteration order and step budget; failures correspond as well. -/
theorem C11_layout_renumbered {ρ : Nat → Nat} (hρ : Function.Injective ρ) (o : Unify.Orders) (fuel : Nat)
    (lifted : List SV) (hs : ∀ v ∈ lifted, SafeFor ρ v) :
    (∀ l, (analyseLifted o fuel lifted).outcome = .layout l →
      ∃ l', (analyseLifted o fuel (lifted.map (mapConsts ρ))).outcome = .layout l'
        ∧ l'.Perm (l.map (reindex ρ)))
    ∧ (∀ l', (analyseLifted o fuel (lifted.map (mapConsts ρ))).outcome = .layout l' →
      ∃ l, (analyseLifted o fuel lifted).outcome = .layout l ∧ l'.Perm (l.map (reindex ρ))) :=
  layout_renumbered hρ o fuel lifted hs

/-- `analyseLifted` is `analyse` after the lifting passes. -/
theorem C11_analyseLifted_is_analyse (h : Lift.HashCtx) (o : Unify.Orders) (fuel : Nat) (vs lifted : List SV)
    (hl : liftValues h (uniqueSV vs) = .ok lifted) : analyse h o fuel vs = analyseLifted o fuel lifted :=
  analyse_eq_analyseLifted h o fuel vs lifted hl

/-- Registration of a second fragment's values extends the first fragment's registration: the
first fragment's nodes keep their type variables (company does not renumber them). -/
theorem C11_registration_extends (vs ws : List SV) :
    registerAll (vs ++ ws) = ws.foldl (fun st v => (register (nodeCount v + 1) st v).1) (registerAll vs) := by
  simp [registerAll, List.foldl_append]

/-! Not proved: (a) the renaming commutes with the lifting passes themselves (it does not in
general: `StorageSlotHashes` recognises 10,000 particular constants and `ProxySlots` string-like
ones — renaming onto or off those changes the result by design); (b) the union statement for two
fragments behind a dispatcher (needs locality of unification over connected components and
renaming of the fresh variables of the mapping rule).  Both are checked on whole programs by the
`frag` family (A, B, dispatcher(A,B); P, rename(P)). -/

/-! ### Non-vacuity -/
example : Function.Injective (fun n : Nat => n + 5) := fun a b h => by simpa using h

end SLE.C11
