import SLE.Lemmas.OrderFreeWords
/-!
# C02 for word evidence — the analysis does not depend on the iteration order

In general the statement of C02 is false of the pinned code (order-dependent merges with absorbing
constructors and packed encodings: findings D11 / D18, witnesses in `Props/C02.lean`).  For values
whose judgement set is word evidence — words of any width and usage, `any`, equalities: what plain
words and addresses produce, contradictory evidence included — it holds outright: any two
admissible iteration orders and any two budgets give the same partition, the same resolved type for
every variable, and the same layout (indeed the same outcome, faults included, from two rounds on).
-/
namespace SLE.C02
open SLE SLE.SV SLE.TC SLE.Containers SLE.Unify SLE.Merge SLE.MergeLaws SLE.Layout SLE.Join SLE.OrderFacts
open SLE.Independence SLE.UnifyJoin SLE.FragUnion SLE.OrderFreeWords
open SLE.Rename (analyseLifted)

/-- Same partition and same resolved expression per class under any two orders and budgets. -/
theorem C02_words_unify_order_free {o o' : Orders} (ho : OrdersOk o) (ho' : OrdersOk o') (vs : List SV)
    (hw : WordOnly (infOf vs) (nvarsOf vs)) {fuel fuel' : Nat} {f f' : Forest} {n r n' r' : Nat} :
    unify o fuel (nvarsOf vs) (infOf vs) = .ok (f, n, r) →
    unify o' fuel' (nvarsOf vs) (infOf vs) = .ok (f', n', r') →
    ∀ v, evidence f v = evidence f' v ∧
      (∀ a b, DS.rootOf f a = DS.rootOf f b ↔ DS.rootOf f' a = DS.rootOf f' b) :=
  W1 ho ho' vs hw

/-- Same layout. -/
theorem C02_words_layout_order_free {o o' : Orders} (ho : OrdersOk o) (ho' : OrdersOk o') (vs : List SV)
    (hw : WordOnly (infOf vs) (nvarsOf vs)) {fuel fuel' : Nat}
    {l l' : List (Layout.Entry JsonModel.AbiType)} :
    (analyseLifted o fuel vs).outcome = .layout l →
    (analyseLifted o' fuel' vs).outcome = .layout l' → l = l' :=
  W3 ho ho' vs hw

/-- A layout returned under one order and budget is returned under every other order, for every
budget of at least two rounds. -/
theorem C02_words_layout_exists_everywhere {o o' : Orders} (ho : OrdersOk o) (ho' : OrdersOk o') (vs : List SV)
    (hw : WordOnly (infOf vs) (nvarsOf vs)) {fuel fuel' : Nat}
    {l : List (Layout.Entry JsonModel.AbiType)} :
    (analyseLifted o fuel vs).outcome = .layout l → 2 ≤ fuel' →
    (analyseLifted o' fuel' vs).outcome = .layout l :=
  W3_exists ho ho' vs hw

/-- The whole outcome (layout or fault) is the same from two rounds on. -/
theorem C02_words_outcome_order_free {o o' : Orders} (ho : OrdersOk o) (ho' : OrdersOk o') (vs : List SV)
    (hw : WordOnly (infOf vs) (nvarsOf vs)) {fuel fuel' : Nat} (hf : 2 ≤ fuel) (hf' : 2 ≤ fuel') :
    (analyseLifted o fuel vs).outcome = (analyseLifted o' fuel' vs).outcome :=
  W3_outcome ho ho' vs hw hf hf'

/-! Non-vacuity (in `Lemmas/OrderFreeWords.lean`, audited under these names): `revOrders_ok` (reversing
every list is an admissible order, different from the identity), `W5_AB` and `W5_C` (the layouts of
`[sstore(1, callvalue), sstore(2, caller)]` and of a contradictory pair under the reversed order,
obtained through the theorem from the identity-order run), `W5_agree`. -/

end SLE.C02
