import SLE.Lemmas.PathSim
/-!
# C09 against the reference EVM

`Props/C09.lean` states "folding preserves meaning" against the operator semantics of
`Model/Word.lean` (`Spec.*`, over bit-vectors). Here the same is stated against the second,
independent formulation used by C07: whenever the folder reduces a tree to a constant, that
constant is what the reference EVM's operators (`Spec/EVM.lean`, naturals modulo 2^256) compute for
the tree — for all 19 binary and 2 unary foldable operators, every nesting, every operand value.
`LitOK v`: every literal in `v` is a 256-bit word (what the machine and the parser produce).
-/
namespace SLE.C09E
open SLE SLE.SV SLE.EvalC

theorem C09_fold_agrees_with_reference_evm (v : SV) (h : PathSim.Bridge.LitOK v) (w : Word)
    (hw : asWord (fold v) = some w) : evalSV v = some w.toNat :=
  PathSim.Bridge.fold_agree v h w hw

end SLE.C09E
