import SLE.Model.Pipe
import SLE.Gen.PipelineTable
/-!
# The whole pipeline, decided against the running code by the kernel

`SLE.Gen.pipelineTable` is regenerated on every run from `/repo`'s working tree: the layouts that
`Extractor::analyze` returns for small single-idiom programs (plain word, address, mappings of
depth 1–3, dynamic arrays, packed fields in both write styles, two dispatcher shapes), kept when
they are the same under three iteration orders.  The theorem below makes the kernel evaluate the
model of the whole analysis (`Pipe.analyseProgram`: disassembly, symbolic execution, collection
of values, nine lifting passes, registration, sixteen rules, unification, layout construction)
on every one of these programs and compare.  It is the end-to-end tie of the model that the
program-level theorems (`C01_program_total`, `C05_program_*`, `C12_program_sorted`) talk about.
-/
namespace SLE.PipelineTable
open SLE SLE.VM

/-- prefix code of an ABI type (the harness has the same function on the code's `AbiType`) -/
def abiCodeF : Nat → JsonModel.AbiType → List Nat
  | 0, _ => [99]
  | f + 1, t =>
    match t with
    | .any => [0]
    | .number s => [1, s.getD 0]
    | .uInt s => [2, s.getD 0]
    | .int s => [3, s.getD 0]
    | .address => [4]
    | .selector => [5]
    | .function => [6]
    | .bool => [7]
    | .array n t => 8 :: n :: abiCodeF f t
    | .bytes l => [9, l.getD 0]
    | .bits l => [10, l.getD 0]
    | .dynArray t => 11 :: abiCodeF f t
    | .dynBytes => [12]
    | .mapping k v => 13 :: (abiCodeF f k ++ abiCodeF f v)
    | .struct es => 14 :: es.length :: es.flatMap (fun e => match e with | .mk o t => o :: abiCodeF f t)
    | .infiniteType => [15]
    | .conflictedType _ _ => [16]

def abiCode (t : JsonModel.AbiType) : List Nat := abiCodeF 64 t

/-- no constant of these programs is a known slot hash -/
def probeCtx : Lift.HashCtx := ⟨fun _ => none, fun _ => 0⟩
def cfg0 : Cfg := ⟨30000000, 10, 50, 250, 394, false⟩

def row (r : List Nat × List (Nat × Nat × List Nat)) : Bool :=
  match Pipe.analyseProgram probeCtx Unify.idOrders cfg0 r.1 100000 400 with
  | .analysed a => (match a.outcome with
    | .layout l => l.map (fun (e : Layout.Entry JsonModel.AbiType) => (e.index, e.offset, abiCode e.typ)) == r.2
    | _ => false)
  | _ => false

theorem pipeline_table : (SLE.Gen.pipelineTable.all row) = true := by decide +kernel

end SLE.PipelineTable
