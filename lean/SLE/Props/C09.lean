import SLE.Lemmas.Word
import SLE.Lemmas.Fold
import SLE.Gen.FoldArms
/-!
# C09 — simplifying a symbolic expression never changes what it denotes

Property theorems only.  Models: `SLE.Known` (KnownWord operators as the Rust computes them),
`SLE.Spec` (the EVM, from the Yellow Paper), `SLE.SV.fold` (`constant_fold`), `SLE.SV.eval`
(denotation under an arbitrary interpretation of everything that is not a foldable operator).
-/
namespace SLE.C09
open SLE SLE.SV SLE.WordLemmas

/-- Each of the 19 binary foldable operators computes, on every pair of 256-bit constants,
exactly the EVM result: division and modulo by zero, `MIN / −1`, shifts by 256 or more and
exponents above 2³² are points of this theorem. -/
theorem C09_word_ops_correct_bin (k : Kind) : knownBin k = specBin k := by
  cases k <;> simp only [knownBin, specBin] <;>
    (try (apply congrArg some; funext a b;
          first
          | exact add_eq a b | exact mul_eq a b | exact sub_eq a b | exact div_eq a b
          | exact signedDiv_eq a b | exact rem_eq a b | exact signedRem_eq a b | exact exp_eq a b
          | exact lt_eq a b | exact gt_eq a b | exact signedLt_eq a b | exact signedGt_eq a b
          | exact eq_eq a b | exact and_eq a b | exact or_eq a b | exact xor_eq a b
          | exact shl_eq a b | exact shr_eq a b | exact sar_eq a b))

/-- …and the 2 unary ones. -/
theorem C09_word_ops_correct_un (k : Kind) : knownUn k = specUn k := by
  cases k <;> simp only [knownUn, specUn] <;>
    (try (apply congrArg some; funext a; first | exact isZero_eq a | exact not_eq a))

/-- Folding preserves the denotation of every tree under every interpretation of its opaque
leaves and uninterpreted node kinds. -/
theorem C09_fold_eval (I : Interp) (t : SV) : eval I (fold t) = eval I t :=
  fold_eval I C09_word_ops_correct_bin C09_word_ops_correct_un t

/-- At every node, folding yields either a constant (only when the node is a foldable operator
all of whose folded operands are constants) or the *same operator* with the *same payload*
over the folded operands *in the same positions*. -/
theorem C09_fold_shape (k : Kind) (attrs : List Nat) (ks : List SV) (s : Nat) :
    (∃ w, fold (.node k attrs ks s) = mkKnown w ∧ (∀ a ∈ foldList ks, (a.asWord).isSome) ∧
        ((knownBin k).isSome ∨ (knownUn k).isSome)) ∨
    fold (.node k attrs ks s) = rebuild k attrs (foldList ks) := by
  rw [fold]; exact foldNode_shape k attrs (foldList ks)

/-- A sub-expression built only from constants is replaced by the operator's value. -/
theorem C09_fold_constants (k : Kind) (f : Word → Word → Word) (hk : knownBin k = some f)
    (attrs : List Nat) (x y : Word) (s : Nat) :
    fold (.node k attrs [mkKnown x, mkKnown y] s) = mkKnown (f x y) := by
  have hx : (mkKnown x).asWord = some x := by simp [mkKnown, asWord]
  have hy : (mkKnown y).asWord = some y := by simp [mkKnown, asWord]
  have hfx : fold (mkKnown x) = mkKnown x := fold_mkKnown x
  have hfy : fold (mkKnown y) = mkKnown y := fold_mkKnown y
  simp only [fold, foldList] at *
  rw [hfx, hfy]
  simp only [foldNode, hk, hx, hy]

/-- Folding is idempotent. -/
theorem C09_fold_idem (t : SV) : fold (fold t) = fold t := fold_idem t

/-! ### Tie to the regenerated arm table (re-decided on every run) -/

def K7 : SV := mkKnown 7#256
def K3 : SV := mkKnown 3#256
def V0 : SV := mkValue 0
def V1 : SV := mkValue 1

def foldableKinds : List Kind :=
  [.add, .multiply, .subtract, .divide, .signedDivide, .modulo, .signedModulo, .exp, .lessThan,
   .greaterThan, .signedLessThan, .signedGreaterThan, .equals, .and_, .or_, .xor_, .leftShift,
   .rightShift, .arithmeticRightShift, .isZero, .not_]

def isUnary (k : Kind) : Bool := k == .isZero || k == .not_

def armInput (k : Kind) (pat : Nat) : SV :=
  if isUnary k then rebuild k [] [if pat = 0 then K7 else V0]
  else match pat with
    | 0 => rebuild k [] [K7, K3]
    | 1 => rebuild k [] [K7, V0]
    | 2 => rebuild k [] [V0, K3]
    | _ => rebuild k [] [V0, V1]

def armRow (k : Kind) (pat : Nat) : Nat × Nat × Nat × List Nat × Nat × Nat :=
  let r := fold (armInput k pat)
  (k.idx, pat, r.kind.idx, r.kids.map (fun c => c.kind.idx),
    (match r.asWord with | some w => w.toNat | none => 0), r.recSize)

def modelArms : List (Nat × Nat × Nat × List Nat × Nat × Nat) :=
  foldableKinds.flatMap (fun k =>
    (if isUnary k then [0, 1] else [0, 1, 2, 3]).map (fun p => armRow k p))

/-- What the *current Rust* `constant_fold` returns on every foldable kind × operand pattern
(constant/constant, constant/opaque, opaque/constant, opaque/opaque) equals the model's. -/
theorem C09_arms : SLE.Gen.foldArms = modelArms := by decide +kernel

/-! ### Non-vacuity -/
example : (fold (rebuild .multiply [] [K3, V0])).beq (rebuild .multiply [] [K3, V0]) = true := by decide +kernel
/-- the exponent is not truncated to 32 bits: 3 ^ 2³² is not 1 -/
example : Known.exp 3#256 (BitVec.ofNat 256 (2 ^ 32)) ≠ 1#256 := by decide +kernel
/-- a constant shift by 256 is zero, not a panic and not a masked shift -/
example : Known.shl 256#256 1#256 = 0#256 := by decide +kernel

end SLE.C09
