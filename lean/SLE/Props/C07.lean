import SLE.Lemmas.EvmSim
import SLE.Gen.OpcodeTemplates
import SLE.Lemmas.MachineFacts
import SLE.Lemmas.PathSim
import SLE.Lemmas.LitInv
/-!
# C07 — every explored path computes what a concrete EVM computes on that path

Two machines: the model of the symbolic machine's data effects (`VM.execOp`, tied to the code by
families `vm` / `evm` and by the regenerated template table) and an independent concrete EVM
(`SLE/Spec/EVM.lean`, written from the specification over naturals modulo 2^256).  `evalSV` is
the concrete value of a constants-only tree, computed with the reference operators.
`Rel d s`: stacks have equal depth and every evaluable entry evaluates to the EVM's entry; for
every literal key the evaluable written generations are the EVM's writes to that key, in order;
every constant memory offset holds, if evaluable, the EVM's word.
-/
namespace SLE.C07
open SLE SLE.SV SLE.VM SLE.EvalC SLE.EvmSim

/-- The operator templates the model executes are the ones the code builds (regenerated from the
running opcodes on every run, decided by the kernel). -/
theorem C07_templates : SLE.Gen.opcodeTemplates = SLE.VM.opcodeTemplates := by decide +kernel

/-- The 19 binary ALU opcodes without recorded defects: for all operand values the node pushed
evaluates — whenever it is evaluable, and always when the size limit does not cull it — to the
EVM's result (operand order included: SUB, DIV, LT, SHL, … are not symmetric). -/
theorem C07_alu_correct (b : Nat) (hb : b ∈ aluOk) (c : Ctx) (ctr : Nat) (a0 a1 : SV) (x y : Nat)
    (h0 : evalSV a0 = some x) (h1 : evalSV a1 = some y) (tpl : SV)
    (ht : templateOf b = some (2, tpl)) :
    (∀ r, evalSV (instantiate c [a0, a1] tpl ctr).1 = some r →
        some r = (EVM.binOp {} b).map (fun f => f x y)) ∧
    (a0.recSize + a1.recSize + 1 ≤ c.cfg.valueLimit →
        evalSV (instantiate c [a0, a1] tpl ctr).1 = (EVM.binOp {} b).map (fun f => f x y)) :=
  alu_template_correct b hb c ctr a0 a1 x y h0 h1 tpl ht

theorem C07_unary_correct (b : Nat) (hb : b = 0x15 ∨ b = 0x19) (c : Ctx) (ctr : Nat) (a0 : SV) (x : Nat)
    (h0 : evalSV a0 = some x) (tpl : SV) (ht : templateOf b = some (1, tpl)) :
    (∀ r, evalSV (instantiate c [a0] tpl ctr).1 = some r →
        r = (if b = 0x15 then EVM.iszero x else EVM.not x)) ∧
    (a0.recSize + 1 ≤ c.cfg.valueLimit →
        evalSV (instantiate c [a0] tpl ctr).1 = some (if b = 0x15 then EVM.iszero x else EVM.not x)) :=
  unary_template_correct b hb c ctr a0 x h0 tpl ht

/-- DUPn copies entry n-1 and SWAPn exchanges entries 0 and n, for every n and every stack; the
model fails exactly when the EVM under- or overflows. -/
theorem C07_dup (c : Ctx) (code : List Disasm.Instr) (b : Nat) (d : TData) (ctr : Nat) (hb : 0x80 ≤ b ∧ b ≤ 0x8f) :
    StackSim (execOp c code (.op b) d ctr) (refDup (b - 0x80) (d.stack.map evalSV)) := dup_sim c code b d ctr hb
theorem C07_swap (c : Ctx) (code : List Disasm.Instr) (b : Nat) (d : TData) (ctr : Nat) (hb : 0x90 ≤ b ∧ b ≤ 0x9f) :
    StackSim (execOp c code (.op b) d ctr) (refSwap (b - 0x8f) (d.stack.map evalSV)) := swap_sim c code b d ctr hb

/-- Storage keeps per-key generations: a store appends, a load returns the latest, other keys are
untouched, a fresh key reads as zero. -/
theorem C07_sstore_appends (d : TData) (w : Word) (v : SV) :
    gensK (stStore d (mkKnown w) v) (mkKnown w) = gensK d (mkKnown w) ++ [v] := sstore_appends d w v
theorem C07_sload_latest (d : TData) (w : Word) (v : SV) :
    evalSV (stLoad (stStore d (mkKnown w) v) (mkKnown w)).1 = evalSV v := sload_after_sstore d w v
theorem C07_sload_other (d : TData) (w w' : Word) (v : SV) (hne : w ≠ w') :
    (stLoad (stStore d (mkKnown w) v) (mkKnown w')).1 = (stLoad d (mkKnown w')).1 := sload_other_key d w w' v hne
theorem C07_sload_fresh (d : TData) (w : Word) (hf : lookupSV d.stK (mkKnown w) = none) :
    evalSV (stLoad d (mkKnown w)).1 = some 0 := sload_fresh d w hf

/-- One instruction: the relation between the symbolic thread state and the concrete EVM state is
preserved by PUSHn, DUPn, SWAPn, POP, PC, CODESIZE, ISZERO, NOT, the 19 binary ALU opcodes, and by
SLOAD/SSTORE with a literal key and MLOAD/MSTORE with a literal offset below 2^64; the model
reports an error exactly when the EVM under- or overflows.  (`_partial`: SIGNEXTEND, ADDMOD,
MULMOD, BYTE and computed keys are excluded — see the negative results below; control flow is
C08's.) -/
theorem C07_step_sim_partial (c : Ctx) (code : List Disasm.Instr) (ins : Disasm.Instr) (d : TData)
    (ctr : Nat) (s : EVM.CS) (hR : Rel d s) (hside : Side ins d) :
    StepSim (execOp c code ins d ctr) (refStep (c.ip % 2 ^ 256) (c.codeLen % 2 ^ 256) ins s) :=
  step_sim_partial c code ins d ctr s hR hside

/-- … from related initial states … -/
theorem C07_rel_init : Rel {} {} := rel_init

/-- … and `refStep` is literally one unfolding of the reference machine's path enumeration. -/
theorem C07_refStep_is_explore (code : Array Nat) (data : List Nat) (fuel pc : Nat) (s0 : EVM.CS) (b : Nat)
    (hpc : pc < code.size) (hb : code[pc]! = b) (hs : b ∈ scopeOps ∨ (0x80 ≤ b ∧ b ≤ 0x9f)) :
    EVM.explore {} code data (fuel + 1) pc s0 =
      exploreAfter code data fuel (pc + 1) { s0 with visited := s0.visited ++ [pc] }
        (refStep pc code.size (.op b) { s0 with visited := s0.visited ++ [pc] }) :=
  explore_refStep code data fuel pc s0 b hpc hb hs

/-! ### The property is false of the pinned code at four opcodes (witnesses; known findings) -/

/-- SIGNEXTEND records its operands in the opposite order (pinned by the unit test
`opcode::arithmetic::test::sign_extend_manipulates_stack`). -/
theorem C07_signextend_fails_on_pinned :
    ∃ x y a0 a1 c ctr tpl, evalSV a0 = some x ∧ evalSV a1 = some y ∧
      templateOf 0x0b = some (2, tpl) ∧
      evalSV (instantiate c [a0, a1] tpl ctr).1 ≠ some (EVM.signextend x y) := signextend_template_wrong

/-- ADDMOD / MULMOD are recorded as `(a + b) mod n` / `(a * b) mod n` over 256-bit wrap-around. -/
theorem C07_addmod_fails_on_pinned :
    ∃ x y n a0 a1 a2 c ctr tpl, evalSV a0 = some x ∧ evalSV a1 = some y ∧ evalSV a2 = some n ∧
      templateOf 0x08 = some (3, tpl) ∧
      evalSV (instantiate c [a0, a1, a2] tpl ctr).1 ≠ (EVM.terOp {} 0x08).map (fun f => f x y n) := addmod_template_wrong
theorem C07_mulmod_fails_on_pinned :
    ∃ x y n a0 a1 a2 c ctr tpl, evalSV a0 = some x ∧ evalSV a1 = some y ∧ evalSV a2 = some n ∧
      templateOf 0x09 = some (3, tpl) ∧
      evalSV (instantiate c [a0, a1, a2] tpl ctr).1 ≠ (EVM.terOp {} 0x09).map (fun f => f x y n) := mulmod_template_wrong

/-- BYTE(i, x) is recorded as `(x >> (248 - 8 i)) & 0xff`, wrong once `8 i` wraps (i ≥ 2^253) … -/
theorem C07_byte_fails_on_pinned :
    ∃ i x a0 a1 c ctr tpl, evalSV a0 = some i ∧ evalSV a1 = some x ∧
      templateOf 0x1a = some (2, tpl) ∧
      evalSV (instantiate c [a0, a1] tpl ctr).1 ≠ (EVM.binOp {} 0x1a).map (fun f => f i x) := byte_template_wrong

/-- … and right below that. -/
theorem C07_byte_correct_partial (i x : Nat) (hi : i < 2 ^ 253) (c : Ctx) (ctr : Nat) (a0 a1 : SV)
    (h0 : evalSV a0 = some i) (h1 : evalSV a1 = some x) (tpl : SV) (ht : templateOf 0x1a = some (2, tpl)) :
    (∀ r, evalSV (instantiate c [a0, a1] tpl ctr).1 = some r → some r = (EVM.binOp {} 0x1a).map (fun f => f i x)) ∧
    (a0.recSize + a1.recSize + 7 ≤ c.cfg.valueLimit →
      evalSV (instantiate c [a0, a1] tpl ctr).1 = (EVM.binOp {} 0x1a).map (fun f => f i x)) :=
  byte_template_correct_partial i x hi c ctr a0 a1 h0 h1 tpl ht

/-- Memory cells are keyed by the offset truncated to 64 bits: offsets 0 and 2^64 alias. -/
theorem C07_memory_offsets_alias_on_pinned :
    ∃ d off off' v w w', isKnown (SV.fold off) = some w ∧ isKnown (SV.fold off') = some w' ∧ w ≠ w' ∧
      (memLoad (memStore d off v true) off').1 ≠ (memLoad d off').1 := mload_alias_counterexample


/-! ### Paths: forking copies the state, and a step touches only the running thread -/

/-- One step of the machine leaves every other queued or finished thread exactly as it was: writes
made by one path after a branch cannot show up in a sibling path. -/
theorem C07_step_touches_head_only (cfg : Cfg) (code : List Disasm.Instr) (s : VMS) :
    ∀ th ∈ s.queue.tail ++ s.stored, th ∈ (step cfg code s).queue ++ (step cfg code s).stored :=
  MachineFacts.step_touches_head_only cfg code s

/-- A storage history is append-only along a path: what was written before a branch is in both
continuations, in order. -/
theorem C07_history_append_only (c : Ctx) (code : List Disasm.Instr) (ins : Disasm.Instr)
    (d : TData) (ctr : Nat) (k : SV) :
    MachineFacts.gens d k <+: MachineFacts.gens (execOp c code ins d ctr).d k :=
  MachineFacts.execOp_storage_monotone c code ins d ctr k


/-! ### Whole paths -/

/-- Every thread the machine still runs stands, with related data, at a configuration the
reference EVM reaches on some path; every finished thread's data is related to a
reference-reachable state up to the operands its last (halting or failing) instruction had
already popped. For every program of the property's instruction subset whose keys, offsets and
jump targets are pushed immediately before use, every configuration with a positive size limit,
every number of iterations. -/
theorem C07_path_sim_queued {bytes : List Nat} {code : List Disasm.Instr}
    (H : PathSim.Prog bytes code) (hsc : PathSim.InScope bytes) (hg : PathSim.PushGuarded code)
    (cfg : Cfg) (hlim : 1 ≤ cfg.valueLimit) (s : VMS) (hs : PathSim.MReach cfg code s) :
    ∀ t ∈ s.queue, ∀ ins, code[t.ip]? = some ins → ins ≠ .nop →
      ∃ cs, PathSim.RReach (PathSim.arr bytes) (PathSim.dat bytes) (t.ip, cs) ∧ Rel t.d cs :=
  PathSim.queued_state_at_instruction H hsc cfg (PathSim.sideOK_of_guarded H hg cfg hlim) s hs

theorem C07_path_sim_stored_partial {bytes : List Nat} {code : List Disasm.Instr}
    (H : PathSim.Prog bytes code) (hsc : PathSim.InScope bytes) (hg : PathSim.PushGuarded code)
    (cfg : Cfg) (hlim : 1 ≤ cfg.valueLimit) (fuel : Nat) :
    ∀ t ∈ (run cfg code fuel (initVM cfg code)).stored,
      ∃ pc cs k, PathSim.RReach (PathSim.arr bytes) (PathSim.dat bytes) (pc, cs) ∧ Rel t.d (PathSim.dropK k cs) :=
  PathSim.stored_state_matches_a_path_guarded H hsc hg cfg hlim fuel

/-- Both continuations of a JUMPI are simulated: the fall-through always, the jump when the
target is valid — with the same popped data on both sides. -/
theorem C07_jumpi_both_ways {bytes : List Nat} {code : List Disasm.Instr} (H : PathSim.Prog bytes code)
    {c : Ctx} {d : TData} {ctr : Nat} {cs : EVM.CS}
    (hi : code[c.ip]? = some (.op 0x57)) (hR : Rel d cs)
    (hT : ∀ k r, d.stack = k :: r → PathSim.TargetOK k)
    (he : (execOp c code (.op 0x57) d ctr).err = none) :
    ∃ cs2, PathSim.RStep (PathSim.arr bytes) (PathSim.dat bytes) (c.ip, cs) (c.ip + 1, cs2) ∧
      Rel (execOp c code (.op 0x57) d ctr).d cs2 ∧
      ∀ t, (execOp c code (.op 0x57) d ctr).forkTo = some t →
        PathSim.RStep (PathSim.arr bytes) (PathSim.dat bytes) (c.ip, cs) (t, cs2) ∧
        Rel { (execOp c code (.op 0x57) d ctr).d with forkPoint := c.ip } cs2 :=
  PathSim.jumpi_sim_partial H hi hR hT he


/-- The path simulation with computed jump targets (only keys and offsets literal). -/
theorem C07_path_sim_stored_keys_partial {bytes : List Nat} {code : List Disasm.Instr}
    (H : PathSim.Prog bytes code) (hsc : PathSim.InScope bytes) (hk : LitInv.KeysLiteral code)
    (cfg : Cfg) (hlim : 1 ≤ cfg.valueLimit) (fuel : Nat) :
    ∀ t ∈ (run cfg code fuel (initVM cfg code)).stored,
      ∃ pc cs k, PathSim.RReach (PathSim.arr bytes) (PathSim.dat bytes) (pc, cs) ∧ Rel t.d (PathSim.dropK k cs) :=
  LitInv.stored_state_matches_a_path_keys H hsc hk cfg hlim fuel

end SLE.C07
