import SLE.Lemmas.VMModes
/-!
# C17 — strict mode surfaces every error; permissive mode tolerates bad jumps

Property theorems over M4.  `strict cfg` / `perm cfg` differ only in the flag; `dropJump` erases
the four jump-target kinds from the error buffer.
-/
namespace SLE.C17
open SLE SLE.VM SLE.Disasm

/-- The flag influences nothing but which errors are recorded: the permissive run *is* the
strict run with the jump-target errors dropped (same threads, states, forks, order). -/
theorem C17_modes_differ_only_in_errors (cfg : Cfg) (code : List Instr) (fuel : Nat) :
    run (perm cfg) code fuel (initVM (perm cfg) code) =
      dropJump (run (strict cfg) code fuel (initVM (strict cfg) code)) :=
  run_perm_eq cfg code fuel

/-- In strict mode every `Err` an opcode returns is recorded at its byte offset, and nothing
recorded is ever removed. -/
theorem C17_strict_surfaces {cfg : Cfg} {code : List Instr} {s : VMS} {t : Thread}
    {rest : List Thread} {ins : Instr} {e : XErr} (hperm : cfg.permissive = false)
    (hq : s.queue = t :: rest) (hi : code[t.ip]? = some ins)
    (he : (opOut cfg code s t ins).err = some e) (hp : ∀ site, e ≠ .panic site) :
    (t.ip, e) ∈ (step cfg code s).errors ∧ ∀ x ∈ s.errors, x ∈ (step cfg code s).errors :=
  strict_surfaces hperm hq hi he hp

theorem C17_errors_never_removed (cfg : Cfg) (code : List Instr) (fuel : Nat) (s : VMS) :
    ∀ x ∈ s.errors, x ∈ (run cfg code fuel s).errors := run_errors_grow cfg code fuel s

/-- Every listed error is located at a byte offset inside the code. -/
theorem C17_located (cfg : Cfg) (code : List Instr) (hc : 0 < code.length)
    (hi : 0 < cfg.iterLimit) (fuel : Nat) :
    ∀ loc e, (loc, e) ∈ (run cfg code fuel (initVM cfg code)).errors → loc < code.length :=
  errors_located_run hc hi fuel

/-- Bad jump targets — by JUMP or JUMPI — never by themselves fail a permissive run … -/
theorem C17_permissive_jumps (cfg : Cfg) (code : List Instr) (fuel : Nat)
    (h : ∀ x ∈ (run (strict cfg) code fuel (initVM (strict cfg) code)).errors, x.2.isJumpKind = true) :
    (run (perm cfg) code fuel (initVM (perm cfg) code)).errors = [] :=
  permissive_jump_only cfg code fuel h

/-- … while every other execution error still does. -/
theorem C17_permissive_others (cfg : Cfg) (code : List Instr) (fuel : Nat) (x : Nat × XErr) :
    x ∈ (run (perm cfg) code fuel (initVM (perm cfg) code)).errors ↔
      x ∈ (run (strict cfg) code fuel (initVM (strict cfg) code)).errors ∧ x.2.isJumpKind = false :=
  permissive_others cfg code fuel x

/-- Whenever strict mode succeeds, permissive mode produces the identical machine state. -/
theorem C17_strict_ok_same (cfg : Cfg) (code : List Instr) (fuel : Nat)
    (h : (run (strict cfg) code fuel (initVM (strict cfg) code)).errors = []) :
    run (perm cfg) code fuel (initVM (perm cfg) code) =
      run (strict cfg) code fuel (initVM (strict cfg) code) :=
  strict_ok_same cfg code fuel h

/-! ### Non-vacuity -/
example : XErr.isJumpKind .nonExistentJumpTarget = true ∧ XErr.isJumpKind .noSuchStackFrame = false := by decide

end SLE.C17
