import SLE.Model.Containers
import SLE.Gen.ContainersTable
/-!
# The union-find forest and the vector map, decided against the running code by the kernel

`SLE.Gen.dsTable` / `vmapTable` are regenerated on every run from `/repo`'s working tree: the
observations of the running `DisjointSet` (data = a bag) on EVERY operation history of length ≤ 3
over two elements and ≤ 2 over three elements, each followed by find / get_data of every element,
`sets` and `values`; and of the running `VectorMap` on every history of ≤ 4 inserts and removes
over three keys followed by len / is_empty / gets / iter.  The theorems make the kernel replay each
history on the model (`Containers.DS.step`, `VMap`) and compare every observation, including which
element `find` names as the root.  This is the exhaustive-short-history tie of the model the C19
refinement theorems are about.
-/
namespace SLE.ContainersTable
open SLE.Containers

def insSorted (x : Nat) : List Nat → List Nat
  | [] => [x]
  | y :: r => if x ≤ y then x :: y :: r else y :: insSorted x r

/-- the data of the test forest: a bag (sorted multiset) under union -/
def bagM : Monoid (List Nat) :=
  { combine := fun a b => b.foldl (fun acc x => insSorted x acc) a, identity := [], default := [] }

def insPair (p : Nat × List Nat) : List (Nat × List Nat) → List (Nat × List Nat)
  | [] => [p]
  | q :: r => if p.1 ≤ q.1 then p :: q :: r else q :: insPair p r

def decodeOp : List Nat → Option (Op (List Nat))
  | [0, v] => some (.insert v)
  | [1, a, b] => some (.union a b)
  | [2, v, d] => some (.addData v [d])
  | [3, v, d] => some (.setData v [d])
  | [4, v] => some (.find v)
  | [5, v] => some (.getData v)
  | [6] => some .sets
  | [7] => some .values
  | _ => none

def encodeObs : Obs (List Nat) → List Nat
  | .unit => [0]
  | .root r => [1, r]
  | .data none => [2]
  | .data (some b) => 3 :: b
  | .sets l => 4 :: (l.foldl (fun acc p => insPair p acc) []).flatMap (fun p => p.1 :: p.2.length :: p.2)
  | .values l => 5 :: l.foldl (fun acc x => insSorted x acc) []
  | .fault _ => [9]

def runDs : DS (List Nat) → List (List Nat) → List (List Nat)
  | _, [] => []
  | s, op :: rest =>
    match decodeOp op with
    | none => [[8]]
    | some o => let r := s.step bagM o; encodeObs r.2 :: runDs r.1 rest

theorem ds_table : (SLE.Gen.dsTable.all (fun r => runDs {} r.1 == r.2)) = true := by decide +kernel

def optObs : Option Nat → List Nat
  | none => [0]
  | some v => [1, v]

def runVmap : VMap Nat → List (List Nat) → List (List Nat)
  | _, [] => []
  | m, op :: rest =>
    match op with
    | [0, k, v] => [] :: runVmap (m.insert k v) rest
    | [1, k] => optObs (m.get k) :: runVmap m rest
    | [2, k] => (match m.remove k with
      | .ok (m', v) => optObs v :: runVmap m' rest
      | .error _ => [[9]])
    | [3] => [m.len] :: runVmap m rest
    | [4] => [if m.isEmpty then 1 else 0] :: runVmap m rest
    | [5] => m.iter.flatMap (fun p => [p.1, p.2]) :: runVmap m rest
    | _ => [[8]]

theorem vmap_table : (SLE.Gen.vmapTable.all (fun r => runVmap {} r.1 == r.2)) = true := by decide +kernel

end SLE.ContainersTable
