import SLE.Lemmas.ProgramLevel
/-!
# Program-level forms of C01, C05 and C12

The theorems of `Props/C01.lean`, `C05.lean`, `C12.lean` are about the type-checking pipeline on a
list of values and assume the values hold no lifted construct (`Raw`) and, for C05, no storage
access (`StorageFree`).  Here those hypotheses are discharged for what the machine model produces,
so the statements are about `Pipe.analyseProgram`: disassemble, execute, collect `all_values`,
type-check — the model of `Extractor::analyze`, compared with it end to end by the `pipeline`,
`idiom` and `frag` families.
-/
namespace SLE.Program
open SLE SLE.SV SLE.VM SLE.TC SLE.TCSpec SLE.Lift

/-- C01: every value the machine hands to the type checker is free of lifted constructs. -/
theorem C01_machine_values_raw (cfg : Cfg) (code : List Disasm.Instr) (fuel : Nat) :
    ∀ v ∈ (run cfg code fuel (initVM cfg code)).stored.flatMap (fun t => Pipe.allValues t.d), Raw v :=
  ProgramLevel.program_values_raw cfg code fuel

/-- C01: the whole analysis of any byte string under any configuration ends in a disassembly
error, a list of structured execution errors, a layout, the step budget running out, or a
structured rendering error: no crash outcome of any stage is reachable. -/
theorem C01_program_total (h : HashCtx) (o : Unify.Orders) (ho : Unify.OrdersOk o) (cfg : Cfg)
    (bytes : List Nat) (vmFuel uFuel : Nat) :
    match Pipe.analyseProgram h o cfg bytes vmFuel uFuel with
    | .disasmError _ => True
    | .execErrors es => ∀ e ∈ es, e.2.isPanic = false
    | .analysed a =>
      match a.outcome with
      | .layout _ => True
      | .liftFault _ => False
      | .unifyFault e => e = .outOfFuel
      | .renderFault _ => True :=
  ProgramLevel.program_total h o ho cfg bytes vmFuel uFuel

/-- C05: code that contains no SLOAD / SSTORE instruction always yields an empty layout, however
much hashing, masking and arithmetic it performs — for every byte string, configuration, budget. -/
theorem C05_program_storage_free_empty (h : HashCtx) (o : Unify.Orders) (cfg : Cfg) (bytes : List Nat)
    (vmFuel uFuel : Nat) (code : List Disasm.Instr) (a : TC.Analysis)
    (l : List (Layout.Entry JsonModel.AbiType))
    (hd : Disasm.disasm bytes = .ok code) (hns : ProgramLevel.NoStorageOps code)
    (ha : Pipe.analyseProgram h o cfg bytes vmFuel uFuel = .analysed a)
    (hl : a.outcome = .layout l) : l = [] :=
  ProgramLevel.program_storage_free_empty h o cfg bytes vmFuel uFuel code a l hd hns ha hl

/-- C05: every slot of a program's layout is the literal key of a storage-slot node of a value
the machine produced for that program and the passes lifted. -/
theorem C05_program_slots_from_accesses (h : HashCtx) (o : Unify.Orders) (cfg : Cfg) (bytes : List Nat)
    (vmFuel uFuel : Nat) (a : TC.Analysis) (l : List (Layout.Entry JsonModel.AbiType))
    (ha : Pipe.analyseProgram h o cfg bytes vmFuel uFuel = .analysed a) (hl : a.outcome = .layout l) :
    ∀ e ∈ l, ∃ code lifted, Disasm.disasm bytes = .ok code ∧
      TC.liftValues h (TC.uniqueSV
        ((run cfg code vmFuel (initVM cfg code)).stored.flatMap (fun t => Pipe.allValues t.d))) = .ok lifted ∧
      ∃ v ∈ lifted, hasConstSlot e.index v = true :=
  ProgramLevel.program_slots_from_accesses h o cfg bytes vmFuel uFuel a l ha hl

/-- C12: the layout of every program is ordered by slot index and, within a slot, by offset. -/
theorem C12_program_sorted (h : HashCtx) (o : Unify.Orders) (cfg : Cfg) (bytes : List Nat) (vmFuel uFuel : Nat)
    (a : TC.Analysis) (l : List (Layout.Entry JsonModel.AbiType))
    (ha : Pipe.analyseProgram h o cfg bytes vmFuel uFuel = .analysed a)
    (hl : a.outcome = .layout l) : Layout.Sorted l :=
  ProgramLevel.program_sorted h o cfg bytes vmFuel uFuel a l ha hl

/-! ### Non-vacuity -/
example : ProgramLevel.NoStorageOps [.push 1 [5], .op 0x01, .op 0x00] := by
  intro ins h; simp at h; rcases h with rfl | rfl | rfl <;> simp

end SLE.Program
