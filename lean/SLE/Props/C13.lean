import SLE.Lemmas.Poll
import SLE.Lemmas.OrderFacts
/-!
# C13 — the watchdog can stop analysis at any poll and is polled as often as promised

Property theorems over M9 (`SLE.Poll`): `pollLoop` is the polling discipline every monitored
loop shares (`counter % every == 0 && should_stop()`); `pipeline every wd vm tc` is the main VM
loop over a schedule `vm` (each iteration with the lengths of the bulk-copy loops its opcode runs,
whose stop is recorded as an error rather than returned) followed by the type-checking phases
`tc`.  The watchdog `wd : Nat → Bool` is an arbitrary function of the poll index.
-/
namespace SLE.C13
open SLE.Poll

/-- A loop polls exactly at iterations 0, every, 2·every, … — once per `every` iterations,
`⌈n / every⌉` polls in all — and at no other. -/
theorem C13_poll_count {every : Nat} (hev : 0 < every) (n : Nat) :
    ((List.range n).filter (fun i => (0 + i) % every = 0)).length = (n + every - 1) / every :=
  poll_count' hev n

theorem C13_polled_iterations {σ α : Type} (every : Nat) (wd : Nat → Bool) (body : σ → α → σ)
    (xs : List α) (p : Nat) (s : σ)
    (h : ∀ j, p ≤ j → j < p + pollCnt every 0 xs.length → wd j = false) :
    (pollLoopTr every wd body xs 0 p s).2 = polledIdx every xs.length :=
  pollLoop_polled_iterations every wd body xs p s h

/-- If the watchdog answers "stop" at a poll a loop issues, the loop returns at that poll: no
further iteration, no further poll. -/
theorem C13_stop_now {σ α : Type} (every : Nat) (wd : Nat → Bool) (body : σ → α → σ)
    (xs : List α) (p : Nat) (s : σ) (k : Nat) (hpk : p ≤ k)
    (hf : ∀ j, p ≤ j → j < k → wd j = false) (ht : wd k = true)
    (hk : k < p + ((List.range xs.length).filter (fun i => (0 + i) % every = 0)).length) :
    pollLoop every wd body xs 0 p s = .stopped (k + 1) :=
  pollLoop_stop_now every wd body xs p s k hpk hf ht hk

/-- Never a layout from partial work: if any poll that was actually issued was answered "stop",
the analysis does not finish with a layout. -/
theorem C13_never_layout (every : Nat) (wd : Nat → Bool) (vm : List VMIter) (tc : List Nat)
    (h : ∃ k, k < (pipeline every wd vm tc).polls ∧ wd k = true) :
    (pipeline every wd vm tc).isLayout = false :=
  pipeline_never_layout' every wd vm tc h

/-- A stop at a poll of the VM main loop or of a type-checking phase returns immediately. -/
theorem C13_stop_at_main_is_immediate (every : Nat) (wd : Nat → Bool) (vm : List VMIter)
    (tc : List Nat) (k : Nat) (hf : ∀ j, j < k → wd j = false) (ht : wd k = true)
    (hkind : (∃ pre it post, vm = pre ++ it :: post ∧ pre.length % every = 0 ∧ k = vmPolls every pre 0)
              ∨ (vmPolls every vm 0 ≤ k ∧ k < vmPolls every vm 0 + phasePolls every tc)) :
    pipeline every wd vm tc = .stopped (k + 1) :=
  pipeline_stop_at_main_is_immediate every wd vm tc k hf ht hkind

/-- A stop first raised inside a bulk-copy loop surfaces as a stopped/failed result after a
bounded number of further polls: at most one per non-empty copy loop until the next main-loop
poll, which is fewer than `every` iterations away. -/
theorem C13_stop_from_copy_bounded {every : Nat} (wd : Nat → Bool) (hev : 0 < every)
    (pre : List VMIter) (itPre : VMIter) (len : Nat) (itPost : VMIter) (post : List VMIter)
    (tc : List Nat) (k : Nat) (hmono : ∀ j k, j ≤ k → wd j = true → wd k = true)
    (hk1 : vmPolls every pre 0 + (if pre.length % every = 0 then 1 else 0) + iterPolls every itPre ≤ k)
    (hk2 : k < vmPolls every pre 0 + (if pre.length % every = 0 then 1 else 0)
            + iterPolls every itPre + pollCnt every 0 len)
    (hf : ∀ j, j < k → wd j = false) (ht : wd k = true) :
    ∃ p d, (pipeline every wd (pre ++ (itPre ++ len :: itPost) :: post) tc = .stopped p
          ∨ pipeline every wd (pre ++ (itPre ++ len :: itPost) :: post) tc = .failedWithStop p)
      ∧ k + 1 ≤ p ∧ d < every ∧ (pre.length + 1 + d) % every = 0
      ∧ p - (k + 1) ≤ nonempties (itPost ++ (post.take d).flatten) + 1
      ∧ p - (k + 1) ≤ (itPost ++ post.flatten).sum + 1 :=
  pipeline_stop_at_copy_bounded every wd hev pre itPre len itPost post tc k hmono hk1 hk2 hf ht

/-- If the watchdog never says stop — or would only do so after the last poll — the result is
the unmonitored one, and the number of polls is the closed form
`⌈|vm| / every⌉ + Σ ⌈len / every⌉ + Σ ⌈n / every⌉`. -/
theorem C13_transparent {every : Nat} (wd : Nat → Bool) (hev : 0 < every) (vm : List VMIter)
    (tc : List Nat) (h : ∀ k, k < totalPolls every vm tc → wd k = false) :
    pipeline every wd vm tc = .finished (totalPolls every vm tc) :=
  pipeline_beyond_end every wd hev vm tc h

/-! ### Non-vacuity -/
example : pipeline 3 (fun k => decide (5 ≤ k)) [[5], [], [], [0, 7]] [4, 10] = .failedWithStop 6 := by decide
example : pipeline 3 (fun _ => false) [[5], [], [], [0, 7]] [4, 10] = .finished 13 := by decide


/-! ### The unification loop: the counter advances on evidence-holding classes only -/

/-- What one round counts: it reaches the polling check once per class and advances the counter
once per class that holds evidence. -/
theorem C13_unify_round_counts {o : Unify.Orders} {f : Unify.Forest} {next counter : Nat} {acc : Unify.RoundAcc}
    (h : Unify.round o f next counter = .ok acc) :
    acc.polls = (OrderFacts.classFlags f).length ∧
    acc.counter = counter + (OrderFacts.classFlags f).count true :=
  ⟨(OrderFacts.round_counts h).2.2.1, (OrderFacts.round_counts h).2.2.2⟩

/-- The poll schedule of that loop (`pollsOf every flags counter`: poll when the counter is a
multiple of the interval; advance it on evidence-holding classes): at least one poll per `every`
evidence-holding classes, never more than one per class, and every class when the interval is 1. -/
theorem C13_unify_poll_bounds (every : Nat) (hev : 0 < every) (flags : List Bool) (c : Nat) :
    flags.count true ≤ (OrderFacts.pollsOf every flags c).1 * every + OrderFacts.toNextPoll every c ∧
    (OrderFacts.pollsOf every flags c).1 ≤ flags.length ∧
    (OrderFacts.pollsOf 1 flags c).1 = flags.length :=
  ⟨OrderFacts.pollsOf_lower hev flags c, OrderFacts.pollsOf_le_length every flags c, OrderFacts.pollsOf_one flags c⟩

end SLE.C13
