import SLE.Lemmas.VMTermination
import SLE.Lemmas.UnifyTerm
import SLE.Gen.OpcodeTable
import SLE.Lemmas.FuelAdequacy
/-!
# C03 — the analysis halts; execution respects its bounds

Property theorems over M4 (`SLE.VM.step`/`run`, mirror of `VM::execute`/`advance`,
`VisitedOpcodes`, `JumpTargets::fork_to`, `VMThread::fork`) for *every* program, every data
effect of the opcodes and every configuration with a positive iteration limit, and over M5 for
the halting of unification (packed-free judgement sets; with packed encodings see C14).
Lifting, registration and rule application are structural recursions in the model, so their
termination is checked when the model compiles.
-/
namespace SLE.C03
open SLE SLE.VM SLE.Disasm

/-- No thread — running or finished — has executed any instruction more often than the
per-opcode iteration limit. -/
theorem C03_visit_bound (cfg : Cfg) (code : List Instr) (hc : 0 < code.length)
    (hi : 0 < cfg.iterLimit) (fuel : Nat) :
    let s := run cfg code fuel (initVM cfg code)
    ∀ t ∈ s.queue ++ s.stored, ∀ off, t.visited.getD off 0 ≤ cfg.iterLimit :=
  visit_bound hc hi fuel

/-- No jump destination is forked to more often than the fork limit. -/
theorem C03_fork_bound (cfg : Cfg) (code : List Instr) (hc : 0 < code.length)
    (hi : 0 < cfg.iterLimit) (fuel : Nat) :
    ∀ off, (run cfg code fuel (initVM cfg code)).forks.getD off 0 ≤ cfg.forkLimit :=
  fork_bound hc hi fuel

/-- At most `1 + forkLimit · #JUMPDEST` threads are ever created, and none vanishes. -/
theorem C03_thread_bound (cfg : Cfg) (code : List Instr) (hc : 0 < code.length)
    (hi : 0 < cfg.iterLimit) (fuel : Nat) :
    let s := run cfg code fuel (initVM cfg code)
    s.created ≤ 1 + cfg.forkLimit * (code.filter (· == .op 0x5b)).length ∧
    s.created = s.queue.length + s.stored.length :=
  ⟨thread_bound hc hi fuel, (inv_run fuel (inv_init hc hi)).created⟩

/-- No thread continues once the minimum gas it has consumed exceeds the gas limit: such a
thread is retired by the `advance` of the very step that took it over the limit. -/
theorem C03_gas_bound (cfg : Cfg) (code : List Instr) (hc : 0 < code.length)
    (hi : 0 < cfg.iterLimit) (fuel : Nat) :
    ∀ t ∈ (run cfg code fuel (initVM cfg code)).queue, ¬ t.gas > cfg.gasLimit :=
  gas_bound hc hi fuel

/-- Symbolic execution stops by itself: within an explicit number of loop iterations the
thread queue is empty (or the run aborted with a reported panic). -/
theorem C03_vm_terminates (cfg : Cfg) (code : List Instr) (hc : 0 < code.length)
    (hi : 0 < cfg.iterLimit) :
    let bound := (code.length * cfg.iterLimit + 1) *
      (1 + cfg.forkLimit * (code.filter (· == .op 0x5b)).length)
    ∀ fuel, fuel ≥ bound →
      let s := run cfg code fuel (initVM cfg code)
      s.queue = [] ∨ s.aborted.isSome = true :=
  run_terminates hc hi

/-- Unification halts on every judgement set without packed encodings, within `nvars + 2`
rounds, for every iteration order. (`C03_unify_terminates` for all sets is the full statement;
the pinned code loops on self-referential packed evidence — finding D12, see C14.) -/
theorem C03_unify_terminates_partial (o : Unify.Orders) (ho : Unify.OrdersOk o) (nvars : Nat)
    (infs : Nat → List TE) (h : Unify.NoPacked nvars infs) :
    ∀ fuel, nvars + 2 ≤ fuel → ∃ f n r, Unify.unify o fuel nvars infs = .ok (f, n, r) :=
  Unify.unify_ok_nopacked ho h

/-- The per-opcode minimum gas used by the model is the one the code reports (regenerated
table, re-decided on every run). -/
theorem C03_gas_table :
    (List.range 256).map (fun b => minGas (match disasm (b :: List.replicate 32 0) with
      | .ok (i :: _) => i | _ => .nop)) = SLE.Gen.opcodeMinGas := by decide +kernel

/-! ### Non-vacuity -/
example : 0 < [Instr.op 0x5b, .op 0x00].length ∧ 0 < (⟨100, 1, 1, 5, 32, false⟩ : Cfg).iterLimit := by decide


/-! ### The stages after execution are total functions, and the fuel arguments of their models
are artefacts: no hidden size limit -/

/-- The nine lifting passes give the same result for every sufficient fuel (the model uses
`nodeCount + 1`); in particular they terminate on every tree and never cut a large tree short. -/
theorem C03_lifting_fuel_free (f : SV → Nat) (h : Lift.HashCtx) (v : SV) (hf : ∀ t, SV.nodeCount t < f t) :
    FuelAdequacy.liftAllWith f h v = Lift.liftAll h v :=
  FuelAdequacy.liftAll_fuel_free f h v hf

/-- Registration of type variables likewise. -/
theorem C03_register_fuel_free (f : SV → Nat) (hf : ∀ v, SV.nodeCount v < f v) (vs : List SV) :
    FuelAdequacy.registerAllWith f vs = TC.registerAll vs :=
  FuelAdequacy.registerAll_fuel_free f hf vs

/-- Rendering: more fuel never changes a result that is not the out-of-fuel marker. -/
theorem C03_render_fuel_monotone (typeOf : Nat → Except TC.RErr TE) (fuel v : Nat) (seen : List TE) (pp : Bool)
    (h : TC.abiTypeFor typeOf fuel v seen pp ≠ .error .outOfFuel) :
    TC.abiTypeFor typeOf (fuel + 1) v seen pp = TC.abiTypeFor typeOf fuel v seen pp :=
  FuelAdequacy.abiTypeFor_stable typeOf fuel v seen pp h

end SLE.C03
