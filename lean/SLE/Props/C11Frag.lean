import SLE.Lemmas.Independence
/-!
# C11, second half — two independent fragments do not talk to each other

Over the type-checking pipeline model (`TC`, `Unify`; tied to the code by families `tc`, `unify`,
the rule and merge tables).  `vs` are the lifted values of fragment A, `ws` those of fragment B;
`Disjoint vs ws` says that no sub-tree of a `ws` value that contains an opaque value, a call-data
word or a storage slot (the only trees whose type variable is shared, `is_stable_typed`) occurs in
a `vs` value — the model-level reading of "B accesses only other slots".

What is proved, for every pair of value lists, every admissible iteration order and every budget:
registration, the sixteen rules and the initial forest of the joint program are the disjoint union
of the two separate ones up to an explicit injective renaming of type variables (`rA`, `rB`), and
the whole unification — packed encodings and fresh variables included — never puts an A-variable
and a B-variable into one class, nor a B-variable into A's evidence.  What is **not** proved is the
last step to "the layout of the joint program is the union of the layouts": that the A-part of the
joint forest goes through the same merges as A alone (it depends on the iteration orders; with
conflicts the result of a class is order-dependent, findings D11/D18).  That step is checked on
whole programs by the `frag` family.
-/
namespace SLE.C11
open SLE SLE.SV SLE.TC SLE.Independence SLE.Unify SLE.Containers
open SLE.OrderFacts (sameClass evidence)

/-- Registration of the joint values: A's registered trees unchanged, B's shifted by A's counter;
the counters add up.  Company does not renumber, and does not share, anything. -/
theorem C11_frag_registration (vs ws : List SV) (hd : Disjoint vs ws) :
    (registerAll (vs ++ ws)).values
        = (registerAll vs).values ++ (registerAll ws).values.map (TV.shift (registerAll vs).next)
      ∧ (registerAll (vs ++ ws)).next = (registerAll vs).next + (registerAll ws).next :=
  I1_registration vs ws hd

/-- The judgements of the joint program are A's and B's judgements, each under its renaming. -/
theorem C11_frag_judgements (vs ws : List SV) (hd : Disjoint vs ws) :
    (inferAll (registerAll (vs ++ ws))).judgements
        = (inferAll (registerAll vs)).judgements.map (mapJ (rhoA (registerAll vs).next (registerAll ws).next))
          ++ (inferAll (registerAll ws)).judgements.map
              (mapJ (rhoB (registerAll vs).next (registerAll ws).next
                ((inferAll (registerAll vs)).next - (registerAll vs).next)))
      ∧ (inferAll (registerAll (vs ++ ws))).next
        = (inferAll (registerAll vs)).next + (inferAll (registerAll ws)).next :=
  I2_rules vs ws hd

/-- The two renamings are injective, have disjoint images and cover the joint variables. -/
theorem C11_frag_renamings (vs ws : List SV) :
    Function.Injective (rA vs ws) ∧ Function.Injective (rB vs ws) ∧
    (∀ a b, a < nvarsOf vs → rA vs ws a ≠ rB vs ws b) :=
  ⟨rA_injective vs ws, rB_injective vs ws, fun a b ha => rA_ne_rB vs ws a b ha⟩

/-- The forest unification starts from: no class mixes the fragments; classes and evidence of an
A-class are the image of A analysed alone (and the same for B) — whatever the three orders. -/
theorem C11_frag_initial_forest {o oA oB : Unify.Orders} (ho : Unify.OrdersOk o) (hoA : Unify.OrdersOk oA)
    (hoB : Unify.OrdersOk oB) (vs ws : List SV) (hd : Disjoint vs ws) :
    ∃ f fA fB,
      Unify.initForest o (List.range (nvarsOf (vs ++ ws))) (infOf (vs ++ ws)) = .ok f ∧
      Unify.initForest oA (List.range (nvarsOf vs)) (infOf vs) = .ok fA ∧
      Unify.initForest oB (List.range (nvarsOf ws)) (infOf ws) = .ok fB ∧
      (∀ a b, a < nvarsOf vs → b < nvarsOf ws → ¬ sameClass f (rA vs ws a) (rB vs ws b)) ∧
      (∀ a a', a < nvarsOf vs → a' < nvarsOf vs →
        (sameClass f (rA vs ws a) (rA vs ws a') ↔ sameClass fA a a')) ∧
      (∀ a, a < nvarsOf vs → ∀ e,
        e ∈ evidence f (rA vs ws a) ↔ ∃ e', e' ∈ evidence fA a ∧ e = mapTE (rA vs ws) e') ∧
      (∀ b b', b < nvarsOf ws → b' < nvarsOf ws →
        (sameClass f (rB vs ws b) (rB vs ws b') ↔ sameClass fB b b')) ∧
      (∀ b, b < nvarsOf ws → ∀ e,
        e ∈ evidence f (rB vs ws b) ↔ ∃ e', e' ∈ evidence fB b ∧ e = mapTE (rB vs ws) e') :=
  I3_initial_forest ho hoA hoB vs ws hd

/-- `unify` of the joint program is `unify` on exactly that forest. -/
theorem C11_frag_unify_starts_there (o : Unify.Orders) (fuel : Nat) (us : List SV) :
    Unify.unify o fuel (nvarsOf us) (infOf us)
      = (match Unify.initForest o (List.range (nvarsOf us)) (infOf us) with
         | .error e => .error e
         | .ok f => Unify.unifyLoop o fuel f (nvarsOf us) 0 0) :=
  unify_initForest o fuel us

/-- After the whole unification of the joint program the forest is still separated: a predicate
`U` that is "A-side" on the registered variables is constant on classes, and the evidence of a class
mentions only variables of its own side (fresh variables join the side that allocated them). -/
theorem C11_frag_unify_separated {o : Orders} (ho : OrdersOk o) (vs ws : List SV) (hd : Disjoint vs ws)
    {fuel : Nat} {f : Forest} {n r : Nat}
    (h : unify o fuel (nvarsOf (vs ++ ws)) (infOf (vs ++ ws)) = .ok (f, n, r)) :
    ∃ U, (∀ x, x < nvarsOf (vs ++ ws) → (U x ↔ InA vs ws x)) ∧ Sep U n f ∧ nvarsOf (vs ++ ws) ≤ n ∧
      UInv f :=
  I4_unify_separated ho vs ws hd h

/-- … in particular no type information flows between the fragments: an A-variable and a
B-variable never end in one class. -/
theorem C11_frag_no_crosstalk {o : Orders} (ho : OrdersOk o) (vs ws : List SV) (hd : Disjoint vs ws)
    {fuel : Nat} {f : Forest} {n r : Nat}
    (h : unify o fuel (nvarsOf (vs ++ ws)) (infOf (vs ++ ws)) = .ok (f, n, r))
    {a b : Nat} (ha : a < nvarsOf vs) (hb : b < nvarsOf ws) :
    DS.rootOf f (rA vs ws a) ≠ DS.rootOf f (rB vs ws b) :=
  I4_no_crosstalk ho vs ws hd h ha hb

/-- Once one side's classes are resolved (at most one piece of evidence each), the remaining
rounds — which may still be working on the other side — leave its classes and evidence as they are. -/
theorem C11_frag_resolved_side_is_stable {o : Orders} (ho : OrdersOk o) (fuel : Nat) {f : Forest} (hu : UInv f)
    {U0 : Nat → Prop} {next counter rounds : Nat} {f' : Forest} {n r : Nat} (hs : Sep U0 next f)
    (hA : ∀ k d, U0 k → f.data.get k = some d → d.length ≤ 1)
    (hr : unifyLoop o fuel f next counter rounds = .ok (f', n, r)) :
    (∀ a, U0 a → a < next → DS.rootOf f' a = DS.rootOf f a) ∧
      (∀ k, U0 k → k < next → DS.dataAt setM f' k = DS.dataAt setM f k) :=
  unifyLoop_frame ho fuel hu hs hA hr

/-! ### Non-vacuity: two writes to different slots with different values are `Disjoint`; a shared
opaque value is not, and then registration does share (so the hypothesis is needed). -/
example : Disjoint
    [.node .storageWrite [] [.node .storageSlot [] [.node .knownData [0] [] 1] 2, .node .value [7] [] 1] 4]
    [.node .storageWrite [] [.node .storageSlot [] [.node .knownData [1] [] 1] 2, .node .value [8] [] 1] 4] :=
  disjoint_of_disjointB (by decide)

example :
    let v : SV := .node .value [7] [] 1
    (registerAll ([v] ++ [v])).next ≠ (registerAll [v]).next + (registerAll [v]).next := by
  decide

end SLE.C11
