import SLE.Lemmas.Fold
/-!
# C18 — values stay within the size limit and report their true size

Property theorems over M3 (`SLE.SV`): `mk` = the culling constructor `RSV::new`, `fold` =
`constant_fold`, `transform` = `transform_data` (what every lifting pass is written with).
`WF t` says every node of `t` records its true node count.
-/
namespace SLE.C18
open SLE SLE.SV

/-- The culling constructor records the true size of what it returns. -/
theorem C18_size_true_mk (limit : Option Nat) (fresh : Nat) (k : Kind) (attrs : List Nat)
    (ks : List SV) (h : WFList ks) : WF (mk limit fresh k attrs ks) := wf_mk limit fresh k attrs ks h

/-- in particular `size()` = real node count -/
theorem C18_size_eq_nodeCount (t : SV) (h : WF t) : t.recSize = nodeCount t := by
  cases t with
  | node k a ks s => simp only [WF] at h; simp [recSize, nodeCount, h.1]

/-- A value built under limit `lim` has at most `max lim 1` nodes. -/
theorem C18_bounded (lim fresh : Nat) (k : Kind) (attrs : List Nat) (ks : List SV)
    (h : WFList ks) : nodeCount (mk (some lim) fresh k attrs ks) ≤ max lim 1 :=
  nodeCount_mk_le lim fresh k attrs ks h

/-- A value derived from (possibly culled) values is culled exactly when it really grows past
the limit again, and otherwise keeps its operator with its true size. -/
theorem C18_recull (lim fresh : Nat) (k : Kind) (attrs : List Nat) (ks : List SV) (h : WFList ks) :
    (nodeCountList ks + 1 ≤ lim → mk (some lim) fresh k attrs ks = .node k attrs ks (nodeCountList ks + 1)) ∧
    (lim < nodeCountList ks + 1 → mk (some lim) fresh k attrs ks = mkValue fresh) :=
  mk_cull_iff lim fresh k attrs ks h

/-- Folding yields true sizes at every node (whatever the input recorded). -/
theorem C18_fold_size_true (t : SV) : WF (fold t) := wf_fold t

/-- Folding never grows a tree, so a folded value stays within whatever bound it met. -/
theorem C18_fold_no_growth (t : SV) : nodeCount (fold t) ≤ nodeCount t := nodeCount_fold_le t

/-- Every transformer built from `transform_data` that hands back well-formed kids preserves
true sizes (the shape of every lifting pass). -/
theorem C18_transform_size_true (f : Transformer)
    (hf : ∀ k a ks k' a' ks', WFList ks → f k a ks = some (k', a', ks') → WFList ks')
    (t : SV) (h : WF t) : WF (transform f t) := wf_transform f hf t h

/-! ### Non-vacuity -/
example : WF (mk (some 3) 9 .add [] [mkKnown 1#256, mkValue 0]) := by
  simp [mk, childSize, mkKnown, mkValue, recSize, WF, WFList, nodeCountList, nodeCount]
example : mk (some 2) 9 .add [] [mkKnown 1#256, mkValue 0] = mkValue 9 := by
  simp [mk, childSize, mkKnown, mkValue, recSize]

end SLE.C18
