import SLE.Lemmas.TCSlots
import SLE.Lemmas.LiftInv
/-!
# C05 — no phantom slots

Property theorems over the pipeline model `TC.analyse` (de-duplication, the nine lifting passes,
registration, the sixteen rules, unification, the layout loop and rendering; tied to the code by
family `tc`).  `Raw v`: the value holds no construct that only the lifting passes create (what the
machine hands over); `StorageFree v`: no `SLoad`, `StorageWrite` or `UnwrittenStorageValue` node.
-/
namespace SLE.C05
open SLE SLE.SV SLE.TC SLE.TCSpec SLE.Lift

/-- Every slot index of a returned layout is the literal key of a `storageSlot` node of a lifted
value: the layout loop invents nothing (for every value list, order and step budget). -/
theorem C05_slots_from_slot_nodes (h : HashCtx) (o : Unify.Orders) (fuel : Nat) (vs : List SV)
    (l : List (Layout.Entry JsonModel.AbiType)) :
    (analyse h o fuel vs).outcome = .layout l →
    ∀ e ∈ l, ∃ lifted, liftValues h (uniqueSV vs) = .ok lifted ∧ ∃ v ∈ lifted, hasConstSlot e.index v = true :=
  TCSlots.slots_from_slot_nodes h o fuel vs l

/-- Lifting creates no storage slot in a value that holds no storage access, however much
hashing, masking and arithmetic it holds. -/
theorem C05_lift_storage_free (h : HashCtx) (v v' : SV) (hraw : Raw v) (hfree : StorageFree v) :
    liftAll h v = .ok v' → anyNode (fun k _ _ => k == .storageSlot) v' = false :=
  LiftInv.lift_storage_free h v v' hraw hfree

/-- Code that performs no storage access always yields the empty layout. -/
theorem C05_storage_free_empty (h : HashCtx) (o : Unify.Orders) (fuel : Nat) (vs : List SV)
    (l : List (Layout.Entry JsonModel.AbiType))
    (hraw : ∀ v ∈ vs, Raw v) (hfree : ∀ v ∈ vs, StorageFree v) :
    (analyse h o fuel vs).outcome = .layout l → l = [] :=
  LiftInv.storage_free_empty h o fuel vs l hraw hfree

/-! The full statement — every reported index is obtained from constants in *key* position of an
executed access by hashing, preimage recognition and constant addition — is false of the pinned
code: the mapping and dynamic-array passes also rewrite look-alike hashes in the *value* of a
load or store, and the base of the rewritten index is then wrapped as a slot (finding D14; the
two unit tests `tc::lift::mapping_index::test::resolves_mapping_accesses_*` pin that behaviour).
The model reproduces it: -/

/-- `sstore(0, keccak(caller . 5))`: slot 5 is never accessed, yet it is wrapped as a slot. -/
def d14Witness : SV :=
  rebuild .storageWrite [] [mkKnownNat 0,
    rebuild .sha3 [] [rebuild .concat [] [rebuild .caller [] [], mkKnownNat 5]]]

/-- what the nine passes make of it -/
def d14Lifted : SV :=
  .node .storageWrite [] [.node .storageSlot [] [.node .knownData [0] [] 1] 2,
    .node .mappingIndex [0] [.node .storageSlot [] [.node .knownData [5] [] 1] 2, .node .caller [] [] 1] 4] 7

set_option linter.unusedSimpArgs false in
theorem C05_key_only_fails_on_pinned (h : HashCtx) (ht : h.table 0 = none) (ht5 : h.table 5 = none) :
    liftAll h d14Witness = .ok d14Lifted ∧ hasConstSlot 5 d14Lifted = true := by
  constructor
  · have e1 : transform (slotHashesT h) d14Witness = d14Witness := by
      simp [d14Witness, transform, transformList, slotHashesT, mkKnownNat, rebuild, ht, ht5, childSize, recSize]
    unfold liftAll
    simp only [e1]
    simp [d14Witness, d14Lifted, mkKnownNat, rebuild, childSize, recSize, nodeCount, nodeCountList,
        proxySlots, unpickProxySlots, unpickSha3Data, guarded, guardStorage, transform, transformList,
        insertMappingAccesses, insertSubWords, mapE, insertMulShifts, liftPacked, liftDynArray,
        insertStorageSlots, insertMappingOffset, knownOf, getRegion, unpickOrs, getShift, kind, attrs, kids]
  · simp [hasConstSlot, anyNode, anyNodeList, d14Lifted]

/-! ### Non-vacuity -/
example : Raw d14Witness := by
  simp [Raw, d14Witness, rebuild, mkKnownNat, anyNode, anyNodeList, isLiftedKind]
example : StorageFree (rebuild .sha3 [] [rebuild .concat [] [rebuild .caller [] [], mkKnownNat 5]]) := by
  simp [StorageFree, rebuild, mkKnownNat, anyNode, anyNodeList, isStorageKind]

end SLE.C05
