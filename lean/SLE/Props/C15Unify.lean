import SLE.Lemmas.UnifyJoin
/-!
# C15 through the whole unification — evidence spread over equated variables

`Props/C15.lean` states the join / conflict laws per class fold.  Here they are lifted to
`Unify.unify` itself, for word evidence (words of any width and usage, `any`, and equalities between
variables): the classes of the result are exactly the equivalence closure of the declared
equalities, and each class resolves to the fold — in whatever order the hash maps happen to be
iterated — of ALL the evidence declared on ANY of its members.  Hence compatible evidence spread
over equated variables joins to the least upper bound, identically under every iteration order,
and a contradictory pair anywhere in the class makes it a conflict.  (Evidence with constructors
— mappings, arrays, packed encodings — adds equalities during the rounds; for it the per-fold
theorems, the unify table and the `truth` family's congruence-closure oracle remain the evidence.)
-/
namespace SLE.C15
open SLE SLE.Containers SLE.Unify SLE.Merge SLE.MergeLaws SLE.Layout SLE.Join SLE.OrderFacts SLE.UnifyJoin

/-- Word-only problems finish within two rounds with no variable allocated, and the partition of
the result is the equivalence closure of the declared equalities. -/
theorem C15_unify_classes_are_equality_closure {o : Orders} (ho : OrdersOk o) {nvars : Nat} {infs : Nat → List TE}
    (hw : WordOnly infs nvars) (fuel : Nat) (hfuel : 2 ≤ fuel) :
    ∃ f r, unify o fuel nvars infs = .ok (f, nvars, r) ∧ 1 ≤ r ∧ r ≤ 2 ∧
      ∀ a b, DS.rootOf f a = DS.rootOf f b ↔
        Eqv (fun v x => v < nvars ∧ x ∈ infs v) a b :=
  J1 ho hw fuel hfuel

/-- Each class resolves to the fold of all the evidence of all its members. -/
theorem C15_unify_class_is_fold_of_all_evidence {o : Orders} (ho : OrdersOk o) {nvars : Nat} {infs : Nat → List TE}
    (hw : WordOnly infs nvars) {fuel : Nat} {f : Forest} {n r : Nat}
    (h : unify o fuel nvars infs = .ok (f, n, r)) (v : Nat) :
    ((∀ e, ¬ ClassEv infs nvars f v e) ∧ evidence f v = []) ∨
    (∃ l j, (∀ e, e ∈ l ↔ ClassEv infs nvars f v e) ∧ l.Nodup ∧
      foldMerge l = some (j, []) ∧ evidence f v = [j]) :=
  J2 ho hw h v

/-- Compatible evidence spread over equated variables joins: the class resolves to a non-conflict
above every piece of evidence of every member and below every common upper bound … -/
theorem C15_unify_compatible_joins {o : Orders} (ho : OrdersOk o) {nvars : Nat} {infs : Nat → List TE}
    (hw : WordOnly infs nvars) {fuel : Nat} {f : Forest} {n r : Nat}
    (h : unify o fuel nvars infs = .ok (f, n, r)) (v : Nat) (T : TE)
    (hex : ∃ e, ClassEv infs nvars f v e)
    (hT : ∀ e, ClassEv infs nvars f v e → wordLe e T = true) :
    ∃ j, evidence f v = [j] ∧ j ≠ .conflict ∧ ((∃ w u, j = .word w u) ∨ j = .any) ∧
      (∀ e, ClassEv infs nvars f v e → wordLe e j = true) ∧ wordLe j T = true :=
  J3a ho hw h v T hex hT

/-- … it is the least upper bound … -/
theorem C15_unify_join_is_least {o : Orders} (ho : OrdersOk o) {nvars : Nat} {infs : Nat → List TE}
    (hw : WordOnly infs nvars) {fuel : Nat} {f : Forest} {n r : Nat}
    (h : unify o fuel nvars infs = .ok (f, n, r)) (v : Nat) (T : TE)
    (hex : ∃ e, ClassEv infs nvars f v e)
    (hT : ∀ e, ClassEv infs nvars f v e → wordLe e T = true) (j : TE) (hj : evidence f v = [j]) :
    ∀ U, (∀ e, ClassEv infs nvars f v e → wordLe e U = true) → wordLe j U = true :=
  J3a_least ho hw h v T hex hT j hj

/-- … and the same under any two iteration orders and budgets. -/
theorem C15_unify_join_order_free {o o' : Orders} (ho : OrdersOk o) (ho' : OrdersOk o') {nvars : Nat}
    {infs : Nat → List TE} (hw : WordOnly infs nvars) {fuel fuel' : Nat} {f f' : Forest}
    {n r n' r' : Nat} (h : unify o fuel nvars infs = .ok (f, n, r))
    (h' : unify o' fuel' nvars infs = .ok (f', n', r')) (v : Nat) (T : TE)
    (hex : ∃ e, ClassEv infs nvars f v e)
    (hT : ∀ e, ClassEv infs nvars f v e → wordLe e T = true) :
    evidence f v = evidence f' v :=
  J3a_order_free ho ho' hw h h' v T hex hT

/-- A contradictory pair of words anywhere among the members of a class makes it a conflict, in
every order. -/
theorem C15_unify_contradiction_conflicts {o : Orders} (ho : OrdersOk o) {nvars : Nat} {infs : Nat → List TE}
    (hw : WordOnly infs nvars) {fuel : Nat} {f : Forest} {n r : Nat}
    (h : unify o fuel nvars infs = .ok (f, n, r)) (v : Nat) (ea eb : TE)
    (ha : ClassEv infs nvars f v ea) (hb : ClassEv infs nvars f v eb)
    (hc : conflicts ea eb = true) : evidence f v = [.conflict] :=
  J3b ho hw h v ea eb ha hb hc

end SLE.C15
