import SLE.Lemmas.Layout
import SLE.Lemmas.Unify
import SLE.Lemmas.MergePacked
import SLE.Lemmas.OrderFacts
/-!
# C02 — determinism under hash-iteration order

Every place where the implementation iterates a hash map or hash set is, in the models, a point
where a list is taken *as given*; the theorems below quantify over `List.Perm`.

Full statement (kept visible): for every permutation chosen at every such point the analysis
returns an equal result.  It is **false** of the pinned code: the per-class fold of typing
evidence is order dependent inside the region `MergeLaws.Bad` (finding D11, C16) and where a
packed encoding swallows a full-width word (finding D18); `C02_foldMerge_perm` is the provable
part, `C02_foldMerge_order_dependent_on_pinned` the witness.
-/
namespace SLE.C02
open SLE SLE.Layout SLE.MergeLaws

/-- The per-class fold of `unification.rs:86-104` gives the same outcome (up to conflict wording
and choice of representative) for every order of the class's evidence, provided the evidence is
packed-free and contains no triple from the non-associative region. -/
theorem C02_foldMerge_perm {l₁ l₂ : List TE} (hpf : ∀ e ∈ l₁, PF e = true) (hnb : NoBadTriple l₁)
    (hp : l₁.Perm l₂) :
    (foldMerge l₁ = none ∧ foldMerge l₂ = none) ∨
    ∃ o₁ o₂, foldMerge l₁ = some o₁ ∧ foldMerge l₂ = some o₂ ∧ OutEq o₁ o₂ :=
  foldMerge_perm' hpf hnb hp

/-- The full statement fails on the pinned code: the same three pieces of evidence fold to
`bytes` in one order and to a conflict in another. -/
theorem C02_foldMerge_order_dependent_on_pinned :
    ∃ o₁ o₂,
      foldMerge [.bytes, .word (some 8) .bool, .word (some 160) .address] = some o₁ ∧
      foldMerge [.word (some 8) .bool, .word (some 160) .address, .bytes] = some o₂ ∧
      ([TE.bytes, .word (some 8) .bool, .word (some 160) .address]).Perm
        [.word (some 8) .bool, .word (some 160) .address, .bytes] ∧
      (∀ e ∈ [TE.bytes, .word (some 8) .bool, .word (some 160) .address], PF e = true) ∧
      ¬ OutEq o₁ o₂ :=
  foldMerge_order_dependent_witness_ex

/-- `StorageLayout::add` (push + stable sort) yields a layout that does not depend on the order
in which entries with distinct `(index, offset)` keys were produced … -/
theorem C02_layout_perm {α : Type} {es₁ es₂ : List (Entry α)} (hd : DistinctKeys es₁)
    (hp : es₁.Perm es₂) : buildLayout es₁ = buildLayout es₂ :=
  buildLayout_perm_invariant hd hp

/-- … and in general exactly the relative order of entries with *equal* keys remains. -/
theorem C02_layout_order_dependence_exact {α : Type} (es₁ es₂ : List (Entry α)) :
    buildLayout es₁ = buildLayout es₂ ↔ ∀ k, es₁.filter (hasKey k) = es₂.filter (hasKey k) :=
  buildLayout_eq_iff es₁ es₂

/-- `itertools::unique` over a permuted list keeps the same set of values. -/
theorem C02_unique_perm {α : Type} [BEq α] [LawfulBEq α] {l₁ l₂ : List α} (h : l₁.Perm l₂) :
    (unique l₁).Perm (unique l₂) := unique_perm h

/-- Unification's guarantees (no panic, one expression per class, equalities honoured) hold for
every choice of iteration orders. -/
theorem C02_unify_any_order (o : Unify.Orders) (ho : Unify.OrdersOk o) (fuel nvars : Nat)
    (infs : Nat → List TE) (f : Unify.Forest) (n r : Nat)
    (h : Unify.unify o fuel nvars infs = .ok (f, n, r)) :
    (∀ k d, f.data.get k = some d → d.length ≤ 1) ∧
    ∀ v id, v < nvars → .equal id ∈ infs v → Containers.DS.rootOf f v = Containers.DS.rootOf f id :=
  ⟨fun k d hk => ((Unify.unify_post ho h).2 k d hk).1, Unify.unify_equalities ho h⟩

/-! ### Non-vacuity -/
example : NoBadTriple [.mapping 0 1, .mapping 2 3, .any] := by decide
example : ¬ NoBadTriple [.bytes, .word (some 8) .bool, .word (some 160) .address] := witness_has_bad_triple


/-- With a packed encoding in the class the fold IS order dependent (finding D18): the same three
pieces of evidence fold to the encoding (both words pushed down to its span) or to a conflict. -/
theorem C02_fold_order_dependent_with_packed_on_pinned :
    Unify.foldClass 0 [.packed [⟨1, 0, 8⟩] false, .word (some 8) .bool, .word (some 8) .address] 5 =
      .ok (.packed [⟨1, 0, 8⟩] false, 5, [],
           [(1, .word (some 8) .bool), (1, .word (some 8) .address)], []) ∧
    Unify.foldClass 0 [.word (some 8) .bool, .word (some 8) .address, .packed [⟨1, 0, 8⟩] false] 5 =
      .ok (.conflict, 5, [], [], []) := MergePacked.d18_fold_order_witness


/-- The inference sets do not depend on the order in which judgements were added (the sixteen
rules sit in a hash set; each only adds judgements) … -/
theorem C02_inference_sets_order_free {js js' : List (Nat × TE)} (h : js.Perm js') (v : Nat) :
    ∀ e, e ∈ ((TC.infSets js).lookup v).getD [] ↔ e ∈ ((TC.infSets js').lookup v).getD [] :=
  OrderFacts.infSets_perm_mem h v

/-- … and unification starts from the same partition with the same evidence per class, whatever
the order of the judgements and whatever the iteration orders of the two runs. -/
theorem C02_initial_forest_order_free {o o' : Unify.Orders} (ho : Unify.OrdersOk o) (ho' : Unify.OrdersOk o')
    (vars : List Nat) {js js' : List (Nat × TE)} (hp : js.Perm js') :
    ∃ f f', Unify.initForest o vars (fun v => ((TC.infSets js).lookup v).getD []) = .ok f ∧
      Unify.initForest o' vars (fun v => ((TC.infSets js').lookup v).getD []) = .ok f' ∧
      (∀ a b, OrderFacts.sameClass f a b ↔ OrderFacts.sameClass f' a b) ∧
      (∀ a e, e ∈ OrderFacts.evidence f a ↔ e ∈ OrderFacts.evidence f' a) :=
  OrderFacts.initForest_judgement_order ho ho' vars hp

end SLE.C02
