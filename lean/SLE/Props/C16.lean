import SLE.Lemmas.Merge
import SLE.Lemmas.MergePacked
/-!
# C16 — combining typing evidence is independent of order and grouping

Property theorems over M5 (`SLE.Merge.merge`, mirror of `unification::merge`) on the
`Equal`-free, packed-free fragment — for *every* width, variable and array length, a superset of
the property's finite evidence domain.  Outcomes are compared with `OutEq`: up to the wording of
conflict explanations and to the choice of representative among the variables an outcome equates.

Commutativity holds in full.  Associativity does **not** hold for the pinned implementation
(finding D11); the region where it fails is characterised exactly by the decidable predicate
`Bad` (`C16_assoc_fails_iff`), so a non-associativity outside that region is a new violation.
-/
namespace SLE.C16
open SLE SLE.MergeLaws

/-- The usage lattice is commutative, associative (conflict absorbing) and idempotent. -/
theorem C16_usage_table :
    (∀ a b : WordUse, a.merge b = b.merge a) ∧
    (∀ a b c : WordUse, (a.merge b).bind (·.merge c) = (b.merge c).bind (a.merge ·)) ∧
    (∀ a : WordUse, a.merge a = some a) :=
  ⟨wordUse_merge_comm, wordUse_merge_assoc, wordUse_merge_idem⟩

/-- On `Equal`-free input `merge` never reaches its two `panic!` arms; on the fragment it ignores
`parent`/the variable counter and emits no judgements or fresh variables. -/
theorem C16_merge_total (a b : TE) (ha : PF a = true) (hb : PF b = true) (p n : Nat) :
    ∃ m, Merge.merge a b p n = .ok m ∧ m.expr = (outcome a b).1 ∧ m.eqs = (outcome a b).2 ∧
      m.judgements = [] ∧ m.newVars = [] ∧ m.next = n :=
  merge_pf_indep a b ha hb p n

/-- The fragment is closed under merging. -/
theorem C16_closed (a b : TE) (ha : PF a = true) (hb : PF b = true) : PF (outcome a b).1 = true :=
  outcome_pf a b ha hb

/-- Order independence (full). -/
theorem C16_comm (a b : TE) (ha : PF a = true) (hb : PF b = true) :
    OutEq (outcome a b) (outcome b a) := merge_comm a b ha hb

/-- Grouping independence holds exactly outside the absorber region `Bad`. -/
theorem C16_assoc_fails_iff (a b c : TE) (ha : PF a = true) (hb : PF b = true) (hc : PF c = true) :
    OutEq (groupL a b c) (groupR a b c) ↔ Bad a b c = false := merge_assoc_iff a b c ha hb hc

/-- Grouping independence, the provable part of the full statement
`∀ a b c, OutEq (groupL a b c) (groupR a b c)`. -/
theorem C16_assoc_partial (a b c : TE) (ha : PF a = true) (hb : PF b = true) (hc : PF c = true)
    (h : Bad a b c = false) : OutEq (groupL a b c) (groupR a b c) := merge_assoc_partial a b c ha hb hc h

/-- The full statement is false of the pinned code: dynamic bytes swallow a `bool` and an
`address` that conflict with each other (replayed on the implementation as the known finding). -/
theorem C16_assoc_fails_on_pinned :
    ¬ OutEq (groupL .bytes (.word (some 8) .bool) (.word (some 160) .address))
            (groupR .bytes (.word (some 8) .bool) (.word (some 160) .address)) :=
  merge_assoc_fails_witness

/-! ### Non-vacuity -/
example : PF (.mapping 0 1) = true ∧ PF (.word none .numeric) = true := by decide
example : Bad (.mapping 0 1) (.mapping 1 0) (.word (some 8) .bool) = false := by decide
example : Bad .bytes (.word (some 8) .bool) (.word (some 160) .address) = true := by decide


/-! ### Including packed encodings -/

/-- Commutativity holds on ALL type expressions, packed encodings included: the two orders give
the same expression, the same fresh variables with the same numbers, and the same emitted
equalities and judgements up to their order. -/
theorem C16_comm_all (a b : TE) : OutEq (outcome a b) (outcome b a) := MergePacked.merge_comm_all a b

/-- Grouping is where the packed arms fail (finding D18): the same three pieces of evidence end in
the encoding or in a conflict depending on which two meet first. -/
theorem C16_assoc_fails_with_packed_on_pinned :
    (groupL (.packed [⟨1, 0, 8⟩] false) (.word (some 8) .bool) (.word (some 8) .address)).1
        = .packed [⟨1, 0, 8⟩] false ∧
    (groupR (.packed [⟨1, 0, 8⟩] false) (.word (some 8) .bool) (.word (some 8) .address)).1
        = .conflict := MergePacked.merge_assoc_packed_fails_witness

end SLE.C16
