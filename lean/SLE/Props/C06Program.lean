import SLE.Lemmas.ProgramSlots
/-!
# C06 at program level — a storage access with a literal key is never missed

About `Pipe.analyseProgram` (the model of `Extractor::analyze`, tied to it end to end by the
`pipeline`, `idiom`, `frag` families and by `PipelineTable.pipeline_table`).  `litKey w k` says the
key value `k` is the constant `w` — what a PUSH instruction puts on the stack
(`C06_push_pushes_literal`), and exactly the test `literalAccess` applies.

The machine never drops a thread (`C06_threads_never_dropped`): a thread whose instruction fails is
retired to the finished list with the storage it had; in strict mode the failure is also recorded
and no layout is returned at all.  So, whenever the machine finishes within its step budget and the
analysis returns a layout, every SSTORE / SLOAD executed on any explored path with a literal key `w`
that is not the recognised Keccak image of a small slot number yields a layout entry with index
exactly `w`.  The one way to miss a key is the step budget running out with the thread still
queued (`C06_fuel_out_counterexample`; the code's analogue is the watchdog / iteration limits,
which return an error instead of a layout).
-/
namespace SLE.C06
open SLE SLE.SV SLE.VM SLE.ProgramSlots

/-- PUSHn puts a literal on the stack (for any size limit of at least one node). -/
theorem C06_push_pushes_literal (c : Ctx) (code : List Disasm.Instr) (n : Nat) (data : List Nat) (d : TData)
    (ctr : Nat) (hlim : 1 ≤ c.cfg.valueLimit) (hdepth : d.stack.length < 1024) :
    ∃ v, (execOp c code (.push n data) d ctr).err = none ∧
      (execOp c code (.push n data) d ctr).d.stack = v :: d.stack ∧
      litKey (EvmSim.beVal data % 2 ^ 256) v = true :=
  push_pushes_literal c code n data d ctr hlim hdepth

/-- Every constant key with a history in the storage of a finished thread is a slot of the layout. -/
theorem C06_program_literal_keys_reported (h : Lift.HashCtx) (o : Unify.Orders) (cfg : VM.Cfg) (bytes : List Nat)
    (vmFuel uFuel : Nat) (code : List Disasm.Instr) (a : TC.Analysis) (l : List (Layout.Entry JsonModel.AbiType))
    (hd : Disasm.disasm bytes = .ok code)
    (ha : Pipe.analyseProgram h o cfg bytes vmFuel uFuel = .analysed a) (hl : a.outcome = .layout l)
    (t : VM.Thread) (ht : t ∈ (VM.run cfg code vmFuel (VM.initVM cfg code)).stored)
    (k : SV) (g : List SV) (hk : (k, g) ∈ t.d.stK) (hg : g ≠ []) (w : Nat)
    (hw : k.asWord.map (·.toNat) = some w ∨ litKey w k = true)
    (hnot : h.table w = none) : ∃ e ∈ l, e.index = w :=
  program_literal_keys_reported h o cfg bytes vmFuel uFuel code a l hd ha hl t ht k g hk hg w hw hnot

/-- No thread is ever dropped by the scheduler, in either mode: every thread of a state has a
continuation among the queued and finished threads of every later state, whose storage histories
extend its own and which still holds every key it held. -/
theorem C06_threads_never_dropped (cfg : Cfg) (code : List Disasm.Instr) (fuel : Nat) (s : VMS) :
    ∀ th ∈ s.queue ++ s.stored,
      ∃ th' ∈ (run cfg code fuel s).queue ++ (run cfg code fuel s).stored, Extends th.d th'.d :=
  run_continues cfg code fuel s

/-- **A store is never missed.**  If after `n` iterations the running thread stands on an SSTORE
with the literal `w` on top of its stack, the machine finishes within its budget and the analysis
returns a layout, then `w` is a slot of that layout. -/
theorem C06_program_sstore_literal_reported (h : Lift.HashCtx) (o : Unify.Orders) (cfg : VM.Cfg)
    (bytes : List Nat) (vmFuel uFuel : Nat) (code : List Disasm.Instr) (a : TC.Analysis)
    (l : List (Layout.Entry JsonModel.AbiType))
    (hd : Disasm.disasm bytes = .ok code)
    (ha : Pipe.analyseProgram h o cfg bytes vmFuel uFuel = .analysed a) (hl : a.outcome = .layout l)
    (hfin : (VM.run cfg code vmFuel (VM.initVM cfg code)).queue = [])
    (n : Nat) (hn : n < vmFuel) (t : VM.Thread) (rest : List VM.Thread)
    (hq : (VM.run cfg code n (VM.initVM cfg code)).queue = t :: rest)
    (hab : (VM.run cfg code n (VM.initVM cfg code)).aborted = none)
    (hi : code[t.ip]? = some (.op 0x55))
    (k v : SV) (r : List SV) (hs : t.d.stack = k :: v :: r) (w : Nat) (hw : litKey w k = true)
    (hnot : h.table w = none) : ∃ e ∈ l, e.index = w :=
  program_sstore_literal_reported h o cfg bytes vmFuel uFuel code a l hd ha hl hfin n hn t rest hq hab hi k v r hs w hw hnot

/-- **A load is never missed.** -/
theorem C06_program_sload_literal_reported (h : Lift.HashCtx) (o : Unify.Orders) (cfg : VM.Cfg)
    (bytes : List Nat) (vmFuel uFuel : Nat) (code : List Disasm.Instr) (a : TC.Analysis)
    (l : List (Layout.Entry JsonModel.AbiType))
    (hd : Disasm.disasm bytes = .ok code)
    (ha : Pipe.analyseProgram h o cfg bytes vmFuel uFuel = .analysed a) (hl : a.outcome = .layout l)
    (hfin : (VM.run cfg code vmFuel (VM.initVM cfg code)).queue = [])
    (n : Nat) (hn : n < vmFuel) (t : VM.Thread) (rest : List VM.Thread)
    (hq : (VM.run cfg code n (VM.initVM cfg code)).queue = t :: rest)
    (hab : (VM.run cfg code n (VM.initVM cfg code)).aborted = none)
    (hi : code[t.ip]? = some (.op 0x54))
    (k : SV) (r : List SV) (hs : t.d.stack = k :: r) (w : Nat) (hw : litKey w k = true)
    (hnot : h.table w = none) : ∃ e ∈ l, e.index = w :=
  program_sload_literal_reported h o cfg bytes vmFuel uFuel code a l hd ha hl hfin n hn t rest hq hab hi k r hs w hw hnot

/-- The budget hypothesis is discharged by the explicit bound of C03: with at least that much fuel
the queue is empty at the end. -/
theorem C06_program_reached_keys_reported_of_fuel (h : Lift.HashCtx) (o : Unify.Orders) (cfg : VM.Cfg)
    (bytes : List Nat) (vmFuel uFuel : Nat) (code : List Disasm.Instr) (a : TC.Analysis)
    (l : List (Layout.Entry JsonModel.AbiType))
    (hd : Disasm.disasm bytes = .ok code)
    (ha : Pipe.analyseProgram h o cfg bytes vmFuel uFuel = .analysed a) (hl : a.outcome = .layout l)
    (hc : 0 < code.length) (hi : 0 < cfg.iterLimit)
    (hfuel : vmFuel ≥ (code.length * cfg.iterLimit + 1) *
      (1 + cfg.forkLimit * (code.filter (· == .op 0x5b)).length))
    (n : Nat) (hn : n ≤ vmFuel) (t : VM.Thread)
    (ht : t ∈ (VM.run cfg code n (VM.initVM cfg code)).queue ++ (VM.run cfg code n (VM.initVM cfg code)).stored)
    (k : SV) (g : List SV) (hk : (k, g) ∈ t.d.stK) (hg : g ≠ []) (w : Nat)
    (hw : k.asWord.map (·.toNat) = some w ∨ litKey w k = true)
    (hnot : h.table w = none) : ∃ e ∈ l, e.index = w :=
  program_reached_literal_keys_reported_of_fuel h o cfg bytes vmFuel uFuel code a l hd ha hl hc hi hfuel n hn t ht k g hk hg w hw hnot

/-! ### Non-vacuity and the boundary: PUSH1 1, PUSH1 7, SSTORE, STOP

Decided by kernel evaluation in `Lemmas/ProgramSlots.lean` (audited under these names):
`SLE.ProgramSlots.ex_hyps` (all hypotheses hold together and the layout is the single slot 7),
`SLE.ProgramSlots.ex_sstore_hyps` (the execution form's hypotheses at `n = 4`),
`SLE.ProgramSlots.fuel_out_counterexample` (the budget hypothesis cannot be dropped: five iterations
execute the SSTORE but leave the thread queued, and the layout is empty),
`SLE.ProgramSlots.killed_thread_keeps_keys` (a thread killed by a tolerated permissive-mode jump
error keeps its slots; in strict mode the same program returns the error instead of a layout). -/

end SLE.C06
