import SLE.Lemmas.VMControl
import SLE.Props.C10
import SLE.Lemmas.MachineFacts
import SLE.Lemmas.PathSim
import SLE.Lemmas.LitInv
/-!
# C08 — control flow is followed exactly as the EVM allows

Property theorems over M4 + M2.  A control transfer is the `jumpTo` of a JUMP or the fork of a
JUMPI; `ValidTarget code d tgt` says the value popped from the stack folds to a constant whose
*whole 256-bit value* is `tgt`, `tgt` is inside the code and the stream entry there is JUMPDEST.
-/
namespace SLE.C08
open SLE SLE.VM SLE.Disasm SLE.C10

/-- JUMP: taken only to a target validated against the full 256-bit operand. -/
theorem C08_jump_valid {cfg : Cfg} {code : List Instr} {s : VMS} {t : Thread} {rest : List Thread}
    {ins : Instr} {tgt : Nat} (hq : s.queue = t :: rest) (hi : code[t.ip]? = some ins)
    (he : (opOut cfg code s t ins).err = none) (hj : (opOut cfg code s t ins).jumpTo = some tgt) :
    ins = .op 0x56 ∧ ValidTarget code t.d tgt ∧ code[tgt]? = some (.op 0x5b) :=
  let h := jump_valid hq hi he hj; ⟨h.1, h.2.1, h.2.2.1⟩

/-- JUMPI: the branch target is validated the same way; while neither this path's visit limit
for the target nor the target's fork limit is reached, a thread *is* enqueued at the target and
the current thread carries on (both branches explored). -/
theorem C08_both_branches {cfg : Cfg} {code : List Instr} {s : VMS} {t : Thread} {rest : List Thread}
    {ins : Instr} {tgt : Nat} (hq : s.queue = t :: rest) (hi : code[t.ip]? = some ins)
    (he : (opOut cfg code s t ins).err = none) (hf : (opOut cfg code s t ins).forkTo = some tgt) :
    let o := opOut cfg code s t ins
    let child : Thread :=
      { ip := tgt, visited := bump t.visited t.ip, gas := t.gas, d := { o.d with forkPoint := t.ip } }
    ins = .op 0x57 ∧ ValidTarget code t.d tgt ∧ code[tgt]? = some (.op 0x5b) ∧
    (midOk cfg s t rest ins o).queue =
      (if forkOk cfg (bump t.visited t.ip) s.forks tgt then after t ins o :: rest ++ [child]
       else after t ins o :: rest) := by
  have h := fork_valid hq hi he hf
  exact ⟨h.1, h.2.1, h.2.2.1, h.2.2.2.2.1⟩

/-- STOP, RETURN, REVERT, SELFDESTRUCT, INVALID, unassigned bytes (and any instruction that
errors) end the path: the thread leaves the queue in that very step. -/
theorem C08_halts_end_path {cfg : Cfg} {code : List Instr} {s : VMS} {t : Thread}
    {rest : List Thread} {ins : Instr} (hq : s.queue = t :: rest) (hi : code[t.ip]? = some ins)
    (h : ((opOut cfg code s t ins).err = none ∧ (opOut cfg code s t ins).kill = true) ∨
      ∃ e, (opOut cfg code s t ins).err = some e ∧ ∀ site, e ≠ .panic site) :
    ∃ t', t'.ip = t.ip ∧ (step cfg code s).queue = rest ∧ (step cfg code s).stored = s.stored ++ [t'] := by
  obtain ⟨t', h1, _, h3, h4⟩ := halt_ends_path hq hi h
  exact ⟨t', h1, h3, h4⟩

/-- Which instructions halt. -/
theorem C08_kill_ops (c : Ctx) (code : List Instr) (d : TData) (ctr : Nat) :
    (∀ ins, (ins = .op 0x00 ∨ ins = .op 0xfe ∨ ∃ b, ins = .invalid b) →
      (execOp c code ins d ctr).kill = true ∧ (execOp c code ins d ctr).err = none) ∧
    (∀ ins, (ins = .op 0xf3 ∨ ins = .op 0xfd ∨ ins = .op 0xff) →
      (execOp c code ins d ctr).err = none → (execOp c code ins d ctr).kill = true) :=
  kill_ops c code d ctr

/-- With C10: a stream entry is JUMPDEST only where the *EVM's own scan* of the bytes finds a
`0x5b` that is not push data — so a validated target is an instruction boundary, never inside
an immediate. -/
theorem C08_target_is_evm_jumpdest (bs : List UInt8) (code : List Instr)
    (h : disasm (toNats bs) = .ok code) (tgt : Nat) (ht : code[tgt]? = some (.op 0x5b)) :
    (toNats bs)[tgt]? = some 0x5b ∧ (pushDataMask (toNats bs))[tgt]? = some false :=
  (C10_jumpdest_iff bs code h tgt).mp ht

/-! ### Non-vacuity -/
example : validateJump [.push 1 [3], .nop, .op 0x56, .op 0x5b] (SV.mkKnown 3#256) = .ok 3 := by rfl
example : validateJump [.push 1 [3], .nop, .op 0x56, .op 0x5b]
    (SV.mkKnown (BitVec.ofNat 256 (2 ^ 32 + 3))) = .error .nonExistentJumpTarget := by rfl


/-- The model's notion of a valid jump destination (a JUMPDEST entry of the instruction stream)
is the reference EVM's (a 0x5b byte that is not push data, by the EVM's own scan of the bytes). -/
theorem C08_validDest_iff_evm (bs : List UInt8) (code : List Disasm.Instr)
    (hne : bs ≠ []) (hlen : bs.length < 2 ^ 32)
    (h : Disasm.disasm (C10.toNats bs) = .ok code) (t : Nat) :
    EVM.validDest (C10.toNats bs).toArray
        (EVM.pushData (C10.toNats bs).toArray ((C10.toNats bs).length + 1) 0 []) t = true
      ↔ code[t]? = some (.op 0x5b) :=
  MachineFacts.validDest_iff_stream_jumpdest bs code hne hlen h t

/-- A jump is accepted exactly when the whole popped constant is an EVM-valid destination. -/
theorem C08_validateJump_iff_evm (bs : List UInt8) (code : List Disasm.Instr)
    (hne : bs ≠ []) (hlen : bs.length < 2 ^ 32)
    (h : Disasm.disasm (C10.toNats bs) = .ok code) (counter : SV) (w : Word)
    (hw : VM.isKnown (SV.fold counter) = some w) (t : Nat) :
    VM.validateJump code counter = .ok t ↔
      (w.toNat = t ∧ EVM.validDest (C10.toNats bs).toArray
          (EVM.pushData (C10.toNats bs).toArray ((C10.toNats bs).length + 1) 0 []) t = true) :=
  MachineFacts.validateJump_iff_evm bs code hne hlen h counter w hw t


/-! ### Set level: what the machine executes is what the EVM can reach -/

/-- Soundness of exploration: for every program over the instruction subset of C07 (no
SIGNEXTEND/ADDMOD/MULMOD/BYTE) whose storage keys, memory offsets and jump targets are pushed
immediately before use (`PushGuarded`), every configuration and every number of iterations, every
offset some thread has executed is reachable for the reference EVM on some path (a JUMPI may go
either way). `RReach` is the reflexive-transitive closure of the reference machine's step
relation from `(0, {})`, and every such step is one unfolding of `EVM.explore`. -/
theorem C08_executed_is_evm_reachable {bytes : List Nat} {code : List Disasm.Instr}
    (H : PathSim.Prog bytes code) (hsc : PathSim.InScope bytes) (hg : PathSim.PushGuarded code)
    (cfg : VM.Cfg) (hlim : 1 ≤ cfg.valueLimit) (fuel : Nat) :
    ∀ t ∈ (VM.run cfg code fuel (VM.initVM cfg code)).queue ++ (VM.run cfg code fuel (VM.initVM cfg code)).stored,
      ∀ i ins, t.visited.getD i 0 ≠ 0 → code[i]? = some ins → ins ≠ .nop →
        ∃ cs, PathSim.RReach (PathSim.arr bytes) (PathSim.dat bytes) (i, cs) :=
  PathSim.executed_is_evm_reachable_guarded H hsc hg cfg hlim fuel

/-- The same without the syntactic restriction, given that the side conditions of the data
simulation hold along the run (literal keys / offsets, evaluable jump targets). -/
theorem C08_executed_is_evm_reachable_side {bytes : List Nat} {code : List Disasm.Instr}
    (H : PathSim.Prog bytes code) (hsc : PathSim.InScope bytes) (cfg : VM.Cfg)
    (hside : ∀ s, PathSim.MReach cfg code s → PathSim.SideOK code s) (fuel : Nat) :
    ∀ t ∈ (VM.run cfg code fuel (VM.initVM cfg code)).queue ++ (VM.run cfg code fuel (VM.initVM cfg code)).stored,
      ∀ i ins, t.visited.getD i 0 ≠ 0 → code[i]? = some ins → ins ≠ .nop → ins ≠ .op 0x5b →
        ∃ cs, PathSim.RReach (PathSim.arr bytes) (PathSim.dat bytes) (i, cs) :=
  PathSim.executed_is_evm_reachable H hsc cfg hside fuel

/-- Every step of the reference relation is one unfolding of the reference machine's path
enumeration (so `RReach` is about `EVM.explore`, not about a second semantics). -/
theorem C08_RReach_is_explore {code : Array Nat} {data : List Nat} (hb : ∀ i, i < code.size → code[i]! < 256)
    {c : PathSim.Conf} (h : PathSim.RReach code data c) :
    ∀ fuel, ∀ x ∈ EVM.explore {} code data fuel c.1 c.2, ∃ fuel', x ∈ EVM.explore {} code data fuel' 0 {} :=
  PathSim.explore_sound_for_RStep hb h


/-- … and with computed jump targets, jump tables and targets passed on the stack: only storage
keys and memory offsets need to be pushed immediately before use (every literal in every reachable
state is a 256-bit word, so the folded value of a jump target is its concrete value). -/
theorem C08_executed_is_evm_reachable_keys {bytes : List Nat} {code : List Disasm.Instr}
    (H : PathSim.Prog bytes code) (hsc : PathSim.InScope bytes) (hk : LitInv.KeysLiteral code)
    (cfg : VM.Cfg) (hlim : 1 ≤ cfg.valueLimit) (fuel : Nat) :
    ∀ t ∈ (VM.run cfg code fuel (VM.initVM cfg code)).queue ++ (VM.run cfg code fuel (VM.initVM cfg code)).stored,
      ∀ i ins, t.visited.getD i 0 ≠ 0 → code[i]? = some ins → ins ≠ .nop →
        ∃ cs, PathSim.RReach (PathSim.arr bytes) (PathSim.dat bytes) (i, cs) :=
  LitInv.executed_is_evm_reachable_keys H hsc hk cfg hlim fuel

end SLE.C08
