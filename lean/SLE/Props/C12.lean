import SLE.Lemmas.TCSlots
import SLE.Lemmas.LiftInv
import SLE.Lemmas.Layout
import SLE.Lemmas.MergePacked
/-!
# C12 — returned layouts are ordered and every entry lies inside its slot

Over the pipeline model `TC.analyse` (tied to the code by family `tc`) and the lifting passes
(`Lift.liftAll`, family `lift`).
-/
namespace SLE.C12
open SLE SLE.SV SLE.TC SLE.TCSpec SLE.Lift

/-- The rows of every returned layout are ordered by slot index and, within a slot, by offset. -/
theorem C12_sorted (h : HashCtx) (o : Unify.Orders) (fuel : Nat) (vs : List SV)
    (l : List (Layout.Entry JsonModel.AbiType)) :
    (analyse h o fuel vs).outcome = .layout l → Layout.Sorted l := by
  intro hl
  obtain ⟨_, _, es, _, _, rfl⟩ := TCSlots.analyse_layout h o fuel vs l hl
  exact Layout.buildLayout_sorted es

/-- `StorageLayout::add` keeps any already sorted layout sorted (insertion after a stable sort). -/
theorem C12_add_sorted (es : List (Layout.Entry JsonModel.AbiType)) : Layout.Sorted (Layout.buildLayout es) :=
  Layout.buildLayout_sorted es

/-- Lifting never produces a sub-word or shifted span outside the 256-bit word, for mask
positions and shift amounts anywhere in 0..2^256 (this is where offsets of packed entries come
from). -/
theorem C12_lift_spans (h : HashCtx) (v v' : SV) (hraw : Raw v) :
    liftAll h v = .ok v' → spansInWord v' = true :=
  LiftInv.lift_spans h v v' hraw

/-- The masked-word rule turns such a sub-word into a span with the same bounds: the span it
adds for `subWord [off, size]` is `⟨t, off, size⟩`. -/
theorem C12_rule_span (st : RegState) (off size : Nat) (sub : TV) (t : Nat) :
    (sub.tv, TE.packed [⟨t, off, size⟩] false) ∈
      (applyRules st (.node .subWord [off, size] [sub] t)).judgements := by
  simp [applyRules, infer, bytesN]


/-- Combining evidence keeps spans inside the word: if every span of the two inputs ends at or
before bit 256 (and sized words are at most 256 wide), so does every span of the result and of
every judgement the merge emits — re-partitioning on boundaries never creates a span outside the
word. (The out-of-slot entries of finding D20 come from nesting at rendering time.) -/
theorem C12_merge_keeps_spans_in_word (a b : TE) (p n : Nat) (m : MergeOut)
    (ha : MergePacked.WOk a) (hb : MergePacked.WOk b) (h : Merge.merge a b p n = .ok m) :
    MergePacked.WOk m.expr ∧ ∀ j ∈ m.judgements, MergePacked.WOk j.2 :=
  MergePacked.merge_width_safe a b p n m ha hb h

/-! The end-to-end statement (`offset + width ≤ 256` for every rendered entry) additionally needs
an invariant of unification on packed spans; it is carried by the oracle of families `tc`,
`pipeline`, `idiom` on the implementation's own layouts (`C12_inSlot` is checked there, not
proved). -/

/-! ### Non-vacuity -/
example : Layout.Sorted (Layout.buildLayout
    [(⟨5, 8, JsonModel.AbiType.bool⟩ : Layout.Entry JsonModel.AbiType), ⟨2, 0, .address⟩, ⟨5, 0, .bool⟩]) :=
  Layout.buildLayout_sorted _

end SLE.C12
