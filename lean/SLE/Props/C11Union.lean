import SLE.Lemmas.FragUnion
/-!
# C11, the layout-union equality — proved for fragments whose evidence is word evidence

`Props/C11Frag.lean` proves that unification keeps two independent fragments separated; the last
step — the layout of the joint program is the union of the two layouts — needs the A-part of the
joint run to resolve like A alone, which in general depends on the iteration order.  For word
evidence (words of any width and usage, `any`, equalities: what plain words and addresses produce)
`UnifyJoin` gives the result of unification in closed form, and the step closes: for every three
iteration orders and every three budgets, whenever the three analyses return layouts, the joint
layout is exactly `buildLayout (lA ++ lB)` — the sorted union — and it exists whenever the two
separate ones do.  No order-freeness hypothesis is needed: word evidence has no absorbing
constructor, so even a contradictory class resolves to the same conflict in every order.
Fragments whose evidence contains mappings, arrays or packed encodings remain with the `frag` family.
-/
namespace SLE.C11
open SLE SLE.SV SLE.TC SLE.Containers SLE.Unify SLE.Merge SLE.MergeLaws SLE.Layout SLE.Join SLE.OrderFacts
open SLE.Independence SLE.UnifyJoin SLE.FragUnion
open SLE.Rename (analyseLifted)

/-- Word-only-ness of the joint judgement set passes to each fragment alone. -/
theorem C11_union_word_only_splits (vs ws : List SV) (hd : Disjoint vs ws)
    (hw : WordOnly (infOf (vs ++ ws)) (nvarsOf (vs ++ ws))) :
    WordOnly (infOf vs) (nvarsOf vs) ∧ WordOnly (infOf ws) (nvarsOf ws) :=
  ⟨wordOnly_left vs ws hd hw, wordOnly_right vs ws hd hw⟩

/-- Every A-variable resolves in the joint run to exactly what it resolves to in A alone
(whatever the orders and budgets of the two runs) … -/
theorem C11_union_types_unchanged {o oA : Orders} (ho : OrdersOk o) (hoA : OrdersOk oA) (vs ws : List SV)
    (hd : Disjoint vs ws) (hw : WordOnly (infOf (vs ++ ws)) (nvarsOf (vs ++ ws)))
    {fuel fuelA : Nat} {f fA : Forest} {n r nA rA' : Nat}
    (h : unify o fuel (nvarsOf (vs ++ ws)) (infOf (vs ++ ws)) = .ok (f, n, r))
    (hA : unify oA fuelA (nvarsOf vs) (infOf vs) = .ok (fA, nA, rA'))
    {a : Nat} (ha : a < nvarsOf vs) :
    typeOfIn f (rA vs ws a) = typeOfIn fA a :=
  typeOfIn_left ho hoA vs ws hd hw h hA ha

/-- … **the layout of the joint program is the union of the separate layouts** … -/
theorem C11_union_layout {o oA oB : Orders} (ho : OrdersOk o) (hoA : OrdersOk oA) (hoB : OrdersOk oB)
    (vs ws : List SV) (hd : Disjoint vs ws)
    (hw : WordOnly (infOf (vs ++ ws)) (nvarsOf (vs ++ ws)))
    {fuel fuelA fuelB : Nat} {l lA lB : List (Layout.Entry JsonModel.AbiType)}
    (h : (analyseLifted o fuel (vs ++ ws)).outcome = .layout l)
    (hA : (analyseLifted oA fuelA vs).outcome = .layout lA)
    (hB : (analyseLifted oB fuelB ws).outcome = .layout lB) :
    l = Layout.buildLayout (lA ++ lB) ∧ l.Perm (lA ++ lB) :=
  ⟨U2_layout_eq ho hoA hoB vs ws hd hw h hA hB, U2_layout_perm ho hoA hoB vs ws hd hw h hA hB⟩

/-- … and it exists whenever the two separate ones do. -/
theorem C11_union_exists {o oA oB : Orders} (ho : OrdersOk o) (hoA : OrdersOk oA) (hoB : OrdersOk oB)
    (vs ws : List SV) (hd : Disjoint vs ws)
    (hw : WordOnly (infOf (vs ++ ws)) (nvarsOf (vs ++ ws)))
    {fuel fuelA fuelB : Nat} (hfuel : 2 ≤ fuel) {lA lB : List (Layout.Entry JsonModel.AbiType)}
    (hA : (analyseLifted oA fuelA vs).outcome = .layout lA)
    (hB : (analyseLifted oB fuelB ws).outcome = .layout lB) :
    ∃ l, (analyseLifted o fuel (vs ++ ws)).outcome = .layout l :=
  U2_exists ho hoA hoB vs ws hd hw hfuel hA hB

/-! Non-vacuity (in `Lemmas/FragUnion.lean`, audited under these names): `SLE.FragUnion.U3` — the
fragments `sstore(1, callvalue)` and `sstore(2, caller)` meet every hypothesis, and the joint
layout is `[1: uint, 2: address]` for every admissible order and every budget ≥ 2;
`SLE.FragUnion.exC_union` — a fragment with contradictory evidence next to a clean one gives
`[1: conflict, 2: address]` in every order. -/

end SLE.C11
