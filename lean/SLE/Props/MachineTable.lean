import SLE.Model.Pipe
import SLE.Gen.MachineTable
/-!
# The symbolic machine, opcode by opcode, decided against the running code by the kernel

`SLE.Gen.machineTable` is regenerated on every run from `/repo`'s working tree: for every opcode
byte 0x00–0xff, the values `ExecutionResult::all_values()` holds after the running machine has
executed seven pushes, that opcode and STOP — once over a stack of constants, once over
environment and opaque values (so memory, storage, copy, hash, call, log and control opcodes all
see concrete offsets and keys).  The theorem makes the kernel run the model of the machine
(`Disasm.disasm`, `VM.run`, `Pipe.allValues`) on each program and compare the two bags of trees:
kinds, constants, sizes and shape (the identities of opaque values are numbered differently by
the two sides and are not compared).  It is the per-opcode tie of the machine model that C03, C07,
C08, C17 and C18 are stated about.
-/
namespace SLE.MachineTable
open SLE SLE.SV SLE.VM

mutual
/-- equality of trees up to the identities carried by opaque values and call-data reads -/
def shapeEq : SV → SV → Bool
  | .node k a ks s, .node k' a' ks' s' =>
    k == k' && s == s' && (k == .value || k == .callData || a == a') && shapeEqL ks ks'
def shapeEqL : List SV → List SV → Bool
  | [], [] => true
  | x :: xs, y :: ys => shapeEq x y && shapeEqL xs ys
  | _, _ => false
end

/-- remove the first element equal (up to identities) to `v` -/
def removeOne (v : SV) : List SV → Option (List SV)
  | [] => none
  | x :: xs => if shapeEq v x then some xs else (removeOne v xs).map (x :: ·)

def sameBag : List SV → List SV → Bool
  | [], ys => ys.isEmpty
  | x :: xs, ys => match removeOne x ys with
    | some ys' => sameBag xs ys'
    | none => false

def cfg0 : Cfg := ⟨30000000, 10, 50, 250, 394, false⟩

def row (r : List Nat × List SV) : Bool :=
  match Disasm.disasm r.1 with
  | .error _ => false
  | .ok code =>
    let s := run cfg0 code 200 (initVM cfg0 code)
    sameBag ((s.queue ++ s.stored).flatMap (fun t => Pipe.allValues t.d)) r.2

theorem machine_table : (SLE.Gen.machineTable.all row) = true := by decide +kernel

end SLE.MachineTable
