import SLE.Lemmas.VMNoPanic
import SLE.Lemmas.LiftInv
import SLE.Lemmas.TCSlots
import SLE.Props.C10
import SLE.Props.C14
import SLE.Props.C03
/-!
# C01 — the analysis is total: a layout or a structured error, never a crash

Every model of a stage has explicit outcomes for the places where the Rust code would panic,
overflow or abort (`Disasm` errors, `XErr.panic`, `LFault.panic`, `UFault.merge`/`forest`,
`Fault.sizeUnderflow`, `RErr`).  The theorems say those outcomes are unreachable, stage by stage,
for every input; the correspondence families tie each model to the code, and every family's
oracle counts a `PANIC`/abort of the real code as a C01 violation.
-/
namespace SLE.C01
open SLE SLE.SV SLE.VM SLE.TC SLE.TCSpec SLE.Lift

/-- Stage 1: every non-empty byte string (shorter than 2^32) disassembles. -/
theorem C01_disasm_total (bs : List UInt8) (h : bs ≠ []) (hl : bs.length ≤ 2 ^ 32) :
    ∃ is, Disasm.disasm (C10.toNats bs) = .ok is := C10.C10_total bs h hl

/-- Stage 2: no instruction's data effect ends in a crash outcome (native overflow, failed
`expect`), whatever the operands — shifts ≥ 256, offsets near 2^64, sizes of any magnitude. -/
theorem C01_opcode_never_panics (c : Ctx) (code : List Disasm.Instr) (ins : Disasm.Instr) (d : TData) (ctr : Nat) :
    (∀ e, (execOp c code ins d ctr).err = some e → e.isPanic = false) ∧
    (∀ e, (execOp c code ins d ctr).softErr = some e → e.isPanic = false) :=
  VMNoPanic.execOp_no_panic c code ins d ctr

/-- Stage 2, whole machine: for every program, configuration and number of iterations the
machine's error list and early-exit slot hold structured errors only. -/
theorem C01_vm_never_panics (cfg : Cfg) (code : List Disasm.Instr) (fuel : Nat) (site : String) :
    (run cfg code fuel (initVM cfg code)).aborted ≠ some (.panic site) ∧
    ∀ l, (l, XErr.panic site) ∉ (run cfg code fuel (initVM cfg code)).errors :=
  VMNoPanic.run_never_panics cfg code fuel site

/-- … and it halts (C03), so `execute` returns. -/
theorem C01_vm_returns (cfg : Cfg) (code : List Disasm.Instr) (hc : 0 < code.length) (hi : 0 < cfg.iterLimit) :
    let bound := (code.length * cfg.iterLimit + 1) *
      (1 + cfg.forkLimit * (code.filter (· == .op 0x5b)).length)
    ∀ fuel, fuel ≥ bound →
      let s := run cfg code fuel (initVM cfg code)
      s.queue = [] ∨ s.aborted.isSome = true :=
  C03.C03_vm_terminates cfg code hc hi

/-- Stage 3: on every value the machine can hand over, the nine lifting passes reach none of
their `panic!` / `expect` / overflow sites (after the repairs `4560318`, `a226358`, `4647734`). -/
theorem C01_lift_total (h : HashCtx) (v : SV) (hraw : Raw v) : ∃ v', liftAll h v = .ok v' :=
  LiftInv.lift_total h v hraw

/-- Stage 4: unification never reaches `panic!("Equalities should not exist when unifying")`
nor a forest fault: its only failure is the step budget. -/
theorem C01_unify_no_panic (o : Unify.Orders) (ho : Unify.OrdersOk o) (fuel nvars : Nat) (infs : Nat → List TE)
    (e : Unify.UFault) (h : Unify.unify o fuel nvars infs = .error e) : e = .outOfFuel :=
  C14.C14_no_panic o ho fuel nvars infs e h

/-- The stages composed: on machine-produced values the pipeline ends in a layout, in the step
budget running out (the watchdog's structured error) or in a structured rendering error. -/
theorem C01_pipeline_total (h : HashCtx) (o : Unify.Orders) (ho : Unify.OrdersOk o) (fuel : Nat) (vs : List SV)
    (hraw : ∀ v ∈ vs, Raw v) :
    match (analyse h o fuel vs).outcome with
    | .layout _ => True
    | .liftFault _ => False
    | .unifyFault e => e = .outOfFuel
    | .renderFault _ => True := by
  have noFault : ∀ (l : List SV), (∀ v ∈ l, Raw v) → ∀ e, liftValues h l ≠ .error e := by
    intro l
    induction l with
    | nil => intro _ e he; simp [liftValues] at he
    | cons x xs ih =>
      intro hx e he
      obtain ⟨x', hx'⟩ := LiftInv.lift_total h x (hx x (by simp))
      simp only [liftValues, hx'] at he
      split at he
      · rename_i e' he'
        exact ih (fun v hv => hx v (by simp [hv])) e' he'
      · cases he
  cases hL : liftValues h (uniqueSV vs) with
  | error e => exact absurd hL (noFault _ (fun v hv => hraw v (LiftInv.uniqueSV_mem vs v hv)) e)
  | ok lifted =>
    simp only [analyse, hL]
    cases hU : Unify.unify o fuel (inferAll (registerAll lifted)).next
        (fun v => (List.lookup v (infSets (inferAll (registerAll lifted)).judgements)).getD []) with
    | error e => simp only []; exact C14.C14_no_panic o ho _ _ _ e hU
    | ok r =>
      obtain ⟨f, a, b⟩ := r
      simp only []
      cases layoutEntries (typeOfIn f) 4096 (registerAll lifted).values <;> trivial

/-! ### Non-vacuity -/
example : Raw (rebuild .storageWrite [] [mkKnownNat 0, rebuild .caller [] []]) := by
  simp [Raw, rebuild, mkKnownNat, anyNode, anyNodeList, isLiftedKind]

end SLE.C01
