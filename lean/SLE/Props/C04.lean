import SLE.Lemmas.Idioms
/-!
# C04 — standard storage idioms are recovered with the right slot, kind and packing

Recognition theorems over the lifting passes (`Lift`, family `lift`) and the rules (`TC`, family
`tc`), each for *every* slot number, nesting depth, mask position and width.  `Inert t`: a tree
on which no pass has anything to recognise (opaque values, environment reads, sums, …) — what
keys, indices and stored values are in the idioms.  What unification and rendering then make of
these judgements on whole programs is checked against ground-truth layouts by family `idiom`.
-/
namespace SLE.C04
open SLE SLE.SV SLE.Lift SLE.TC SLE.TCSpec SLE.Idioms

/-- Masks: `v & m` with `m` = `s` ones starting at bit `o` (any `1 ≤ s`, `o + s ≤ 256`), either
operand order, becomes the sub-word `[o, s]` of `v`. -/
theorem C04_mask_is_subword (o s : Nat) (hs : 1 ≤ s) (hos : o + s ≤ 256) (v : SV) (hv : Inert v)
    (fuel : Nat) (a : List Nat) (sz : Nat) :
    insertSubWords (fuel + 1) (.node .and_ a [v, K (mask o s)] sz) = .ok (rebuild .subWord [o, s] [v]) ∧
    insertSubWords (fuel + 1) (.node .and_ a [K (mask o s), v] sz) = .ok (rebuild .subWord [o, s] [v]) :=
  and_mask_is_subword o s hs hos v hv fuel a sz

/-- Mappings nested to any depth: a read of `keccak(k_n . … keccak(k_1 . w))` is lifted, through
all nine passes, to a load of the storage slot `w` indexed `n` times. -/
theorem C04_mapping_any_depth (h : HashCtx) (w : Nat) (hw : h.table w = none) (ks : List SV)
    (hks : ∀ k ∈ ks, Inert k) (hne : ks ≠ []) :
    ∃ v' y val, liftAll h (mapRead ks w) = .ok v' ∧ hasConstSlot w v' = true ∧
      v' = rebuild .sLoad [] [rebuild .storageSlot [] [y], val] ∧ y.kind = .mappingIndex ∧
      mapDepth y = ks.length ∧ y = mapIdxS ks (K w) :=
  mapping_read_lifted h w hw ks hks hne

/-- Dynamic arrays: `keccak(w) + i` under a load or a store becomes element `i` of the array
whose length lives in slot `w` (both shapes of the hash the machine produces). -/
theorem C04_dyn_array (h : HashCtx) (w : Nat) (hw : h.table w = none) (idx : SV) (hidx : Inert idx)
    (key : SV) (hkey : key = dynKey w idx ∨ key = dynKeyC w idx) :
    let slotKey := rebuild .storageSlot [] [rebuild .dynamicArrayIndex [] [rebuild .storageSlot [] [K w], idx]]
    hasConstSlot w slotKey = true ∧
    liftAll h (rebuild .sLoad [] [key, usv key]) =
      .ok (rebuild .sLoad [] [slotKey, usv (rebuild .dynamicArrayIndex [] [rebuild .storageSlot [] [K w], idx])]) ∧
    ∀ val, Inert val →
      liftAll h (rebuild .storageWrite [] [key, val]) = .ok (rebuild .storageWrite [] [slotKey, val]) :=
  dyn_array_lifted h w hw idx hidx key hkey

/-- Rules: an indexed slot makes its base a mapping from the key's type to a fresh value type that
holds the accessed slot's type as a full word. -/
theorem C04_rule_mapping (st : RegState) (sa : List Nat) (slot key : TV) (tm t : Nat) :
    let v := TV.node .storageSlot sa [.node .mappingIndex [0] [slot, key] tm] t
    (slot.tv, TE.mapping key.tv st.next) ∈ (applyRules st v).judgements ∧
    (st.next, TE.packed [⟨t, 0, 256⟩] false) ∈ (applyRules st v).judgements ∧
    (tm, uword) ∈ (applyRules st v).judgements ∧ (applyRules st v).next = st.next + 1 :=
  rule_mapping st sa slot key tm t

/-- … a write to an array element makes the base slot a dynamic array of the element slot's type … -/
theorem C04_rule_dyn_array (st : RegState) (a sa da : List Nat) (d f value : TV) (td tk t : Nat)
    (hd : d.kind = .storageSlot) :
    let key := TV.node .storageSlot sa [.node .dynamicArrayIndex da [d, f] td] tk
    let v := TV.node .storageWrite a [key, value] t
    (d.tv, TE.dynamicArray tk) ∈ (applyRules st v).judgements ∧
    (f.tv, uword) ∈ (applyRules st v).judgements ∧ (applyRules st v).next = st.next :=
  rule_dyn_array st a sa da d f value td tk t hd

/-- … and a sub-word is `size` bits wide and sits at `[off, off+size)` of what it was cut from. -/
theorem C04_rule_subword (st : RegState) (off size : Nat) (sub : TV) (t : Nat) :
    let v := TV.node .subWord [off, size] [sub] t
    (t, TE.word (some size) .bytes) ∈ (applyRules st v).judgements ∧
    (sub.tv, TE.packed [⟨t, off, size⟩] false) ∈ (applyRules st v).judgements ∧
    (applyRules st v).next = st.next :=
  rule_subword st off size sub t

/-! ### Non-vacuity -/
example : Inert callerV := by simp [Inert, callerV, Her, HerL, inertKind, childSize]
example : mask 8 160 = (2 ^ 160 - 1) * 2 ^ 8 := rfl

end SLE.C04
