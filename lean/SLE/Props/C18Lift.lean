import SLE.Lemmas.LiftSize
/-!
# C18 through the lifting passes

`Props/C18.lean` covers the culling constructor, folding and the generic transformer;
`C18Machine.lean` every value the machine produces.  Here: each of the nine concrete lifting passes
keeps "recorded size = number of nodes" at every node — including the one pass that turns a leaf
into a tree (a constant recognised as the Keccak image of a slot number becomes `sha3(n)`, and every
ancestor's size has to follow) — and hence every value handed to registration, for every program,
configuration and budget, reports its true size.
-/
namespace SLE.C18L
open SLE SLE.SV SLE.Lift SLE.VM SLE.LiftSize

/-- All nine passes together. -/
theorem C18_lift_size_true (h : HashCtx) (v v' : SV) (hv : WF v) (hl : liftAll h v = .ok v') :
    WF v' ∧ v'.recSize = nodeCount v' :=
  ⟨liftAll_wf h v v' hv hl, liftAll_size h v v' hv hl⟩

/-- The hashed-slot pass (leaf → tree). -/
theorem C18_slot_hash_pass_size_true (h : HashCtx) (v : SV) (hv : WF v) : WF (transform (slotHashesT h) v) :=
  wf_slotHashes h v hv

/-- Every value the machine hands to the type checker is truthfully sized … -/
theorem C18_program_values_size_true (cfg : Cfg) (code : List Disasm.Instr) (fuel : Nat) :
    ∀ v ∈ (VM.run cfg code fuel (VM.initVM cfg code)).stored.flatMap (fun t => Pipe.allValues t.d), WF v :=
  program_values_wf cfg code fuel

/-- … and so is every value after de-duplication and lifting. -/
theorem C18_program_lifted_size_true (h : HashCtx) (cfg : Cfg) (code : List Disasm.Instr) (fuel : Nat)
    (lifted : List SV)
    (hl : TC.liftValues h (TC.uniqueSV
      ((VM.run cfg code fuel (VM.initVM cfg code)).stored.flatMap (fun t => Pipe.allValues t.d)))
        = .ok lifted) :
    ∀ v ∈ lifted, WF v ∧ v.recSize = nodeCount v :=
  program_lifted_wf h cfg code fuel lifted hl

end SLE.C18L
