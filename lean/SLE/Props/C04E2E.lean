import SLE.Lemmas.IdiomsE2E
/-!
# C04 end to end — the canonical idioms give the right layout entry, for every slot number

`Props/C04.lean` proves what the lifting passes and the rules do with the idioms, stage by stage.
Here the whole type-checking pipeline (`TC.analyse`: de-duplication, nine passes, registration,
sixteen rules, unification, rendering, layout construction) is run on the value the machine
produces for each idiom, with the slot number `w` universally quantified: the returned layout is
exactly one entry at `w` (two for the packed word) with the stated ABI type.  `callerV` = the CALLER
opcode, `valueV` = CALLVALUE; `h.table w = none`: the slot number is not itself a recognised hash
(the exception the tool makes by design); every step budget from the least one upwards.  The
unification step is a kernel evaluation on the closed judgement list (it does not depend on `w`), at
the identity iteration order; the mapping case is proved for depth 1 and 2 (the lifting lemma
`mapping_write_lifted_eq` covers every depth; unification on a symbolic-length list is not done).
-/
namespace SLE.C04
open SLE SLE.SV SLE.Lift SLE.TC SLE.Idioms SLE.IdiomsE2E

/-- a plain word: `sstore(w, callvalue)` -/
theorem C04_e2e_word (h : HashCtx) (w : Nat) (hw : h.table w = none) (fuel : Nat) :
    (analyse h Unify.idOrders (fuel + 1) [rebuild .storageWrite [] [K w, valueV]]).outcome =
      .layout [⟨w, 0, .uInt none⟩] := E1 h w hw fuel

/-- an address: `sstore(w, caller)` … -/
theorem C04_e2e_address (h : HashCtx) (w : Nat) (hw : h.table w = none) (fuel : Nat) :
    (analyse h Unify.idOrders (fuel + 1) [rebuild .storageWrite [] [K w, callerV]]).outcome =
      .layout [⟨w, 0, .address⟩] := E2_unmasked h w hw fuel

/-- … and `sstore(w, caller & (2^160 - 1))` (`_partial`: the mask constant must not be a recognised
slot hash either — `IdiomsE2E.E2_needs_hm` is the kernel-checked counterexample without it) -/
theorem C04_e2e_address_masked_partial (h : HashCtx) (w : Nat) (hw : h.table w = none)
    (hm : h.table (mask 0 160) = none) (fuel : Nat) :
    (analyse h Unify.idOrders (fuel + 3)
      [rebuild .storageWrite [] [K w, rebuild .and_ [] [callerV, K (mask 0 160)]]]).outcome =
      .layout [⟨w, 0, .address⟩] := E2_partial h w hw hm fuel

/-- a mapping from addresses: `sstore(keccak(caller . w), callvalue)` -/
theorem C04_e2e_mapping (h : HashCtx) (w : Nat) (hw : h.table w = none) (fuel : Nat) :
    (analyse h Unify.idOrders (fuel + 1) [rebuild .storageWrite [] [mapKey [callerV] (K w), valueV]]).outcome =
      .layout [⟨w, 0, .mapping .address (.uInt none)⟩] := E3 h w hw fuel

/-- a mapping from words to addresses -/
theorem C04_e2e_mapping_word_key (h : HashCtx) (w : Nat) (hw : h.table w = none) (fuel : Nat) :
    (analyse h Unify.idOrders (fuel + 1) [rebuild .storageWrite [] [mapKey [valueV] (K w), callerV]]).outcome =
      .layout [⟨w, 0, .mapping (.uInt none) .address⟩] := E3_word_key h w hw fuel

/-- a mapping nested twice -/
theorem C04_e2e_mapping_depth2 (h : HashCtx) (w : Nat) (hw : h.table w = none) (fuel : Nat) :
    (analyse h Unify.idOrders (fuel + 1)
      [rebuild .storageWrite [] [mapKey [callerV, callerV] (K w), valueV]]).outcome =
      .layout [⟨w, 0, .mapping .address (.mapping .address (.uInt none))⟩] := E5_depth2 h w hw fuel

/-- a dynamic array of addresses: `sstore(keccak(w) + callvalue, caller)` -/
theorem C04_e2e_dyn_array (h : HashCtx) (w : Nat) (hw : h.table w = none) (fuel : Nat) :
    (analyse h Unify.idOrders (fuel + 1) [rebuild .storageWrite [] [dynKey w valueV, callerV]]).outcome =
      .layout [⟨w, 0, .dynArray .address⟩] := E4 h w hw fuel

/-- two fields packed into one word: an address in bits 0..160 and a 64-bit field above it -/
theorem C04_e2e_packed_partial (h : HashCtx) (w : Nat) (hw : h.table w = none) (hm : h.table (mask 0 160) = none)
    (hm64 : h.table (mask 0 64) = none) (hp : h.table (2 ^ 160) = none) (fuel : Nat) :
    (analyse h Unify.idOrders (fuel + 3)
      [rebuild .storageWrite [] [K w,
        rebuild .or_ [] [rebuild .and_ [] [callerV, K (mask 0 160)],
          rebuild .multiply [] [rebuild .and_ [] [valueV, K (mask 0 64)], K (2 ^ 160)]]]]).outcome =
      .layout [⟨w, 0, .address⟩, ⟨w, 160, .bytes (some 8)⟩] := E5_packed_partial h w hw hm hm64 hp fuel

/-- the write form of a mapping access of any depth is lifted to the indexed slot -/
theorem C04_mapping_write_any_depth (h : HashCtx) (w : Nat) (hw : h.table w = none) (ks : List SV)
    (hks : ∀ k ∈ ks, Inert k) (val : SV) (hval : Inert val) :
    liftAll h (rebuild .storageWrite [] [mapKey ks (K w), val]) =
      .ok (rebuild .storageWrite [] [sSlot (mapIdxS ks (K w)), val]) :=
  mapping_write_lifted_eq h w hw ks hks val hval

end SLE.C04
