import SLE.Spec.EVM
import SLE.Model.SV
/-
The concrete value of a constants-only symbolic tree, computed with the reference EVM operators
of `SLE/Spec/EVM.lean` (not with the implementation's own folding): what a stack entry, memory
word or stored value of the symbolic machine "evaluates to" in property C07.  `none`: the tree
contains something without a concrete value in this setting (an opaque or culled value, an
environment read).
-/
namespace SLE.EvalC
open SLE SLE.SV

mutual
/-- the word a constants-only tree denotes -/
def evalSV : SV → Option Nat
  | .node k attrs ks _ =>
    match k, attrs, evalList ks with
    | .knownData, w :: _, _ => some w
    | .add, _, some [a, b] => some (EVM.add a b)
    | .multiply, _, some [a, b] => some (EVM.mul a b)
    | .subtract, _, some [a, b] => some (EVM.sub a b)
    | .divide, _, some [a, b] => some (EVM.div a b)
    | .signedDivide, _, some [a, b] => some (EVM.sdiv a b)
    | .modulo, _, some [a, b] => some (EVM.mod a b)
    | .signedModulo, _, some [a, b] => some (EVM.smod a b)
    | .exp, _, some [a, b] => some (EVM.exp a b)
    | .signExtend, _, some [size, value] => some (EVM.signextend size value)
    | .lessThan, _, some [a, b] => some (EVM.lt a b)
    | .greaterThan, _, some [a, b] => some (EVM.gt a b)
    | .signedLessThan, _, some [a, b] => some (EVM.slt a b)
    | .signedGreaterThan, _, some [a, b] => some (EVM.sgt a b)
    | .equals, _, some [a, b] => some (EVM.eq a b)
    | .isZero, _, some [a] => some (EVM.iszero a)
    | .and_, _, some [a, b] => some (EVM.and a b)
    | .or_, _, some [a, b] => some (EVM.or a b)
    | .xor_, _, some [a, b] => some (EVM.xor a b)
    | .not_, _, some [a] => some (EVM.not a)
    | .leftShift, _, some [s, v] => some (EVM.shl s v)
    | .rightShift, _, some [s, v] => some (EVM.shr s v)
    | .arithmeticRightShift, _, some [s, v] => some (EVM.sar s v)
    | .sLoad, _, some [_, v] => some v                 -- the generation that was current at the load
    | .unwrittenStorageValue, _, _ => some 0           -- fresh storage
    | _, _, _ => none
def evalList : List SV → Option (List Nat)
  | [] => some []
  | k :: ks => match evalSV k, evalList ks with
    | some v, some vs => some (v :: vs)
    | _, _ => none
end

end SLE.EvalC
