/-
Reference semantics for property C07: a concrete EVM over the instruction subset the property
quantifies over (PUSH0..PUSH32, DUP1-16, SWAP1-16, POP, the ALU opcodes, PC, CODESIZE,
word-aligned MSTORE/MLOAD, SLOAD/SSTORE, JUMP/JUMPI, JUMPDEST and the halting opcodes), written
directly from the Yellow Paper / execution-specs over natural numbers modulo 2^256 and
independent of every model of the implementation.  `explore` enumerates all paths: at a JUMPI it
follows both the taken and the fall-through branch (the symbolic machine explores both whatever
the condition is), so a path is identified by the offsets it executed.  Core only.
-/
namespace SLE.EVM

def W : Nat := 2 ^ 256

def toInt (a : Nat) : Int := if a < 2 ^ 255 then (a : Int) else (a : Int) - (W : Int)
def ofInt (i : Int) : Nat := (i % (W : Int)).toNat

/-- modular exponentiation by squaring (`a ^ b mod 2^256` without building `a ^ b`) -/
def powMod : Nat → Nat → Nat → Nat → Nat
  | 0, acc, _, _ => acc
  | fuel + 1, acc, base, e =>
    if e = 0 then acc
    else powMod fuel (if e % 2 = 1 then (acc * base) % W else acc) ((base * base) % W) (e / 2)

def add (a b : Nat) : Nat := (a + b) % W
def mul (a b : Nat) : Nat := (a * b) % W
def sub (a b : Nat) : Nat := (a + W - b) % W
def div (a b : Nat) : Nat := if b = 0 then 0 else a / b
def mod (a b : Nat) : Nat := if b = 0 then 0 else a % b
def sdiv (a b : Nat) : Nat :=
  if b = 0 then 0 else ofInt (Int.tdiv (toInt a) (toInt b))
def smod (a b : Nat) : Nat :=
  if b = 0 then 0 else ofInt (Int.tmod (toInt a) (toInt b))
def addmod (a b n : Nat) : Nat := if n = 0 then 0 else (a + b) % n
def mulmod (a b n : Nat) : Nat := if n = 0 then 0 else (a * b) % n
def exp (a b : Nat) : Nat := powMod 256 1 a b
/-- SIGNEXTEND(b, x): extend the sign bit of the (b+1)-byte value x -/
def signextend (b x : Nat) : Nat :=
  if b < 31 then
    let bit := 8 * b + 7
    let low := x % 2 ^ (bit + 1)
    if low / 2 ^ bit % 2 = 1 then low + (W - 2 ^ (bit + 1)) else low
  else x
def ofBool (b : Bool) : Nat := if b then 1 else 0
def lt (a b : Nat) : Nat := ofBool (decide (a < b))
def gt (a b : Nat) : Nat := ofBool (decide (a > b))
def slt (a b : Nat) : Nat := ofBool (decide (toInt a < toInt b))
def sgt (a b : Nat) : Nat := ofBool (decide (toInt a > toInt b))
def eq (a b : Nat) : Nat := ofBool (decide (a = b))
def iszero (a : Nat) : Nat := ofBool (decide (a = 0))
def and (a b : Nat) : Nat := a &&& b
def or (a b : Nat) : Nat := a ||| b
def xor (a b : Nat) : Nat := a ^^^ b
def not (a : Nat) : Nat := W - 1 - a
/-- BYTE(i, x): the i-th byte of x counting from the most significant -/
def byte (i x : Nat) : Nat := if i < 32 then x / 2 ^ (8 * (31 - i)) % 256 else 0
def shl (s v : Nat) : Nat := if s < 256 then (v * 2 ^ s) % W else 0
def shr (s v : Nat) : Nat := if s < 256 then v / 2 ^ s else 0
def sar (s v : Nat) : Nat :=
  if v < 2 ^ 255 then (if s < 256 then v / 2 ^ s else 0)
  else if s < 256 then ofInt (Int.fdiv (toInt v) (2 ^ s : Nat)) else W - 1

/-- Departures from the EVM that are recorded as known findings; the reference machine can be
asked to reproduce them so that the check can tell a known finding from a new one. -/
structure Quirks where
  signextendSwapped : Bool := false   -- operands of SIGNEXTEND taken in the opposite order
  addmodWraps : Bool := false         -- ADDMOD computed as ((a + b) mod 2^256) mod n
  mulmodWraps : Bool := false         -- MULMOD computed as ((a * b) mod 2^256) mod n
  byteIndexWraps : Bool := false      -- BYTE computes 248 - 8*i modulo 2^256
deriving Repr, DecidableEq

inductive Halt where
  | stop | ret | revert | invalid | selfdestruct | endOfCode
  | badJump | underflow | overflow | unsupported | outOfFuel
deriving Repr, DecidableEq

def Halt.normal : Halt → Bool
  | .stop | .ret | .revert | .invalid | .selfdestruct | .endOfCode => true
  | _ => false

structure CS where
  stack : List Nat := []                 -- head = top
  mem : List (Nat × Nat) := []           -- word written at a byte offset (latest first)
  writes : List (Nat × Nat) := []        -- every SSTORE (key, value), oldest first
  visited : List Nat := []               -- offsets executed, oldest first
deriving Repr

def sload (s : CS) (k : Nat) : Nat :=
  match s.writes.reverse.find? (fun p => p.1 == k) with
  | some p => p.2
  | none => 0

def mload (s : CS) (off : Nat) : Nat :=
  match s.mem.find? (fun p => p.1 == off) with
  | some p => p.2
  | none => 0

/-- offsets that are push data -/
def pushData (code : Array Nat) : Nat → Nat → List Nat → List Nat
  | 0, _, acc => acc
  | fuel + 1, pc, acc =>
    if pc ≥ code.size then acc
    else
      let b := code[pc]!
      if 0x60 ≤ b && b ≤ 0x7f then
        let n := b - 0x5f
        pushData code fuel (pc + 1 + n) (acc ++ (List.range n).map (· + pc + 1))
      else pushData code fuel (pc + 1) acc

def validDest (code : Array Nat) (data : List Nat) (t : Nat) : Bool :=
  t < code.size && code[t]! == 0x5b && !(data.contains t)

def binOp (q : Quirks) (b : Nat) : Option (Nat → Nat → Nat) :=
  match b with
  | 0x01 => some add | 0x02 => some mul | 0x03 => some sub | 0x04 => some div | 0x05 => some sdiv
  | 0x06 => some mod | 0x07 => some smod | 0x0a => some exp
  | 0x0b => some (if q.signextendSwapped then (fun a b => signextend b a) else signextend)
  | 0x10 => some lt | 0x11 => some gt | 0x12 => some slt | 0x13 => some sgt | 0x14 => some eq
  | 0x16 => some and | 0x17 => some or | 0x18 => some xor
  | 0x1a => some (if q.byteIndexWraps then (fun i x => and (shr (sub 248 (mul i 8)) x) 255) else byte)
  | 0x1b => some shl | 0x1c => some shr | 0x1d => some sar
  | _ => none

def terOp (q : Quirks) (b : Nat) : Option (Nat → Nat → Nat → Nat) :=
  match b with
  | 0x08 => some (if q.addmodWraps then (fun a b n => mod (add a b) n) else addmod)
  | 0x09 => some (if q.mulmodWraps then (fun a b n => mod (mul a b) n) else mulmod)
  | _ => none

def pushStack (s : CS) (v : Nat) : Option CS :=
  if s.stack.length + 1 > 1024 then none else some { s with stack := v :: s.stack }

/-- every path of the program from `pc` in state `s` -/
def explore (q : Quirks) (code : Array Nat) (data : List Nat) : Nat → Nat → CS → List (Halt × CS)
  | 0, _, s => [(.outOfFuel, s)]
  | fuel + 1, pc, s0 =>
    if pc ≥ code.size then [(.endOfCode, s0)] else
    let b := code[pc]!
    let s := { s0 with visited := s0.visited ++ [pc] }
    let next := fun (s' : CS) => explore q code data fuel (pc + 1) s'
    let pushNext := fun (s' : CS) (v : Nat) (pc' : Nat) =>
      match pushStack s' v with
      | some s'' => explore q code data fuel pc' s''
      | none => [(.overflow, s')]
    if b == 0x00 then [(.stop, s)]
    else if b == 0xf3 then [(.ret, s)]
    else if b == 0xfd then [(.revert, s)]
    else if b == 0xfe then [(.invalid, s)]
    else if b == 0xff then [(.selfdestruct, s)]
    else if b == 0x5b then next s
    else if b == 0x5f then pushNext s 0 (pc + 1)
    else if 0x60 ≤ b && b ≤ 0x7f then
      let n := b - 0x5f
      -- bytes beyond the end of the code read as zero
      let v := (List.range n).foldl (fun acc i => acc * 256 + (if pc + 1 + i < code.size then code[pc + 1 + i]! else 0)) 0
      pushNext s v (pc + 1 + n)
    else if 0x80 ≤ b && b ≤ 0x8f then
      (match s.stack[b - 0x80]? with
       | some v => pushNext s v (pc + 1)
       | none => [(.underflow, s)])
    else if 0x90 ≤ b && b ≤ 0x9f then
      let n := b - 0x8f
      (match s.stack, s.stack[n]? with
       | top :: _, some v => next { s with stack := (s.stack.set n top).set 0 v }
       | _, _ => [(.underflow, s)])
    else if b == 0x50 then
      (match s.stack with
       | _ :: r => next { s with stack := r }
       | _ => [(.underflow, s)])
    else if b == 0x58 then pushNext s pc (pc + 1)
    else if b == 0x38 then pushNext s code.size (pc + 1)
    else if b == 0x15 || b == 0x19 then
      (match s.stack with
       | a :: r => next { s with stack := (if b == 0x15 then iszero a else not a) :: r }
       | _ => [(.underflow, s)])
    else if b == 0x51 then
      (match s.stack with
       | off :: r => next { s with stack := mload s off :: r }
       | _ => [(.underflow, s)])
    else if b == 0x52 then
      (match s.stack with
       | off :: v :: r => next { s with stack := r, mem := (off, v) :: s.mem }
       | _ => [(.underflow, s)])
    else if b == 0x54 then
      (match s.stack with
       | k :: r => next { s with stack := sload s k :: r }
       | _ => [(.underflow, s)])
    else if b == 0x55 then
      (match s.stack with
       | k :: v :: r => next { s with stack := r, writes := s.writes ++ [(k, v)] }
       | _ => [(.underflow, s)])
    else if b == 0x56 then
      (match s.stack with
       | t :: r => if validDest code data t then explore q code data fuel t { s with stack := r } else [(.badJump, s)]
       | _ => [(.underflow, s)])
    else if b == 0x57 then
      (match s.stack with
       | t :: _ :: r =>
         let s' := { s with stack := r }
         (if validDest code data t then explore q code data fuel t s' else [(.badJump, s')]) ++ next s'
       | _ => [(.underflow, s)])
    else match binOp q b, terOp q b with
      | some f, _ =>
        (match s.stack with
         | a :: c :: r => next { s with stack := f a c :: r }
         | _ => [(.underflow, s)])
      | none, some f =>
        (match s.stack with
         | a :: c :: n :: r => next { s with stack := f a c n :: r }
         | _ => [(.underflow, s)])
      | none, none => [(.unsupported, s)]

def paths (q : Quirks) (bytes : List Nat) : List (Halt × CS) :=
  let code := bytes.toArray
  explore q code (pushData code (code.size + 1) 0 []) (4 * code.size + 64) 0 {}

end SLE.EVM
