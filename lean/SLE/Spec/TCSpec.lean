import SLE.Model.TC
/-
Vocabulary for the statements of C05 / C06 / C12 over the pipeline model `TC.analyse`:
sub-term predicates on value trees and width of a rendered type.  Definitions only.
-/
namespace SLE.TCSpec
open SLE SLE.SV SLE.TC SLE.JsonModel

mutual
/-- some node of the tree satisfies `p` -/
def anyNode (p : Kind → List Nat → List SV → Bool) : SV → Bool
  | .node k a ks _ => p k a ks || anyNodeList p ks
def anyNodeList (p : Kind → List Nat → List SV → Bool) : List SV → Bool
  | [] => false
  | k :: ks => anyNode p k || anyNodeList p ks
end

/-- the kinds through which the machine records a storage access -/
def isStorageKind (k : Kind) : Bool := k == .sLoad || k == .storageWrite || k == .unwrittenStorageValue

/-- kinds only the lifting passes create -/
def isLiftedKind (k : Kind) : Bool :=
  k == .storageSlot || k == .mappingIndex || k == .dynamicArrayIndex || k == .subWord || k == .shifted || k == .packed

/-- a value as the machine produces it: no lifted construct anywhere -/
def Raw (v : SV) : Prop := anyNode (fun k _ _ => isLiftedKind k) v = false

/-- no storage access anywhere in the value -/
def StorageFree (v : SV) : Prop := anyNode (fun k _ _ => isStorageKind k) v = false

/-- `storageSlot (knownData w)` occurs in the tree: a slot the layout loop reports -/
def hasConstSlot (w : Nat) : SV → Bool :=
  anyNode (fun k _ ks => k == .storageSlot && (match ks with
    | [.node .knownData (x :: _) _ _] => x == w
    | _ => false))

/-- the value is a top-level load or write whose key is the literal `w` -/
def literalAccess (w : Nat) : SV → Bool
  | .node .sLoad _ [.node .knownData (x :: _) _ _, _] _ => x == w
  | .node .storageWrite _ [.node .knownData (x :: _) _ _, _] _ => x == w
  | _ => false

/-- bit width of a rendered type when it has one -/
def widthOf : AbiType → Option Nat
  | .number s | .uInt s | .int s => s
  | .address => some 160 | .selector => some 32 | .function => some 192 | .bool => some 8
  | .bytes l => l.map (· * 8)
  | .bits l => l
  | _ => none

/-- every sub-word / shifted / packed span of the tree lies inside a 256-bit word -/
def spansInWord : SV → Bool := fun v =>
  !(anyNode (fun k a _ => match k, a with
    | .subWord, [off, sz] => !(off + sz ≤ 256)
    | .subWord, _ => true
    | .shifted, [off] => !(off < 256)
    | .shifted, _ => true
    | _, _ => false) v)

end SLE.TCSpec
