def hello := "world"
