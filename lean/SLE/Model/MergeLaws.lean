import SLE.Model.TE
/-
Statement-level definitions for C16/C02/C15 on the `Equal`-free, packed-free fragment of
`unification::merge`: outcomes, outcome equivalence "up to conflict wording and the choice of
representative among equated variables", the two groupings, and the region `Bad` where the
pinned implementation is not associative (finding D11).
-/
namespace SLE.MergeLaws
open SLE SLE.Merge

/-- `Equal`-free and packed-free (the evidence C16 quantifies over, for every width and variable). -/
def PF : TE → Bool
  | .equal _ => false
  | .packed _ _ => false
  | _ => true

/-- The outcome of a merge that matters to unification: resulting expression and emitted equalities. -/
abbrev Outcome := TE × List (Nat × Nat)

def outcome (a b : TE) : Outcome :=
  match merge a b 0 0 with
  | .ok m => (m.expr, m.eqs)
  | .error _ => (.conflict, [])

/-- `(a ⊔ b) ⊔ c`, accumulating equalities. -/
def groupL (a b c : TE) : Outcome :=
  let (e1, q1) := outcome a b
  let (e2, q2) := outcome e1 c
  (e2, q1 ++ q2)

/-- `a ⊔ (b ⊔ c)`. -/
def groupR (a b c : TE) : Outcome :=
  let (e1, q1) := outcome b c
  let (e2, q2) := outcome a e1
  (e2, q1 ++ q2)

/-- Equivalence closure of a list of equalities between type variables. -/
inductive Equiv (E : List (Nat × Nat)) : Nat → Nat → Prop where
  | base {x y} : (x, y) ∈ E → Equiv E x y
  | refl (x) : Equiv E x x
  | symm {x y} : Equiv E x y → Equiv E y x
  | trans {x y z} : Equiv E x y → Equiv E y z → Equiv E x z

/-- Same expression up to replacing variables by equivalent ones. -/
def ExprEqMod (E : List (Nat × Nat)) : TE → TE → Prop
  | .fixedArray a la, .fixedArray b lb => la = lb ∧ Equiv E a b
  | .mapping k1 v1, .mapping k2 v2 => Equiv E k1 k2 ∧ Equiv E v1 v2
  | .dynamicArray a, .dynamicArray b => Equiv E a b
  | x, y => x = y

/-- Same outcome up to the wording of conflict explanations (a conflict is just a conflict —
cf. C14, which promises component unification only for non-contradictory evidence) and to
the choice of representative among the variables the outcome equates. -/
def OutEq (o1 o2 : Outcome) : Prop :=
  (o1.1 = .conflict ∧ o2.1 = .conflict) ∨
  (o1.1 ≠ .conflict ∧ o2.1 ≠ .conflict ∧ (∀ x y, Equiv o1.2 x y ↔ Equiv o2.2 x y) ∧
    ExprEqMod o1.2 o1.1 o2.1)

def absorber : TE → Bool
  | .bytes => true
  | .dynamicArray _ => true
  | _ => false

/-- a word whose usage is not definitely signed -/
def nsWord : TE → Bool
  | .word _ u => !u.isDefinitelySigned
  | _ => false

def conflicts (a b : TE) : Bool := (outcome a b).1 == .conflict

/-- Exactly where the pinned `merge` is *not* associative on this fragment: an absorbing
constructor (dynamic bytes, dynamic array) swallows two non-signed words that conflict with
each other, or swallows one of two dynamic arrays before their elements were equated. -/
def Bad (a b c : TE) : Bool :=
  (absorber a && nsWord b && nsWord c && conflicts b c) ||
  (absorber c && nsWord a && nsWord b && conflicts a b) ||
  (match a, b, c with
   | .bytes, .dynamicArray x, .dynamicArray y => x != y
   | .dynamicArray x, .dynamicArray y, .bytes => x != y
   | _, _, _ => false)

end SLE.MergeLaws
