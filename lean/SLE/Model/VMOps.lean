import SLE.Model.VMData
/-
M4 (data half, continued) — the data effect of each opcode's `execute`.
-/
namespace SLE.VM
open SLE SLE.SV SLE.Disasm

/-- What the stack-only opcodes push, as pinned from the source (arithmetic.rs, logic.rs,
environment.rs, memory.rs): (opcode byte, arguments popped, flat preorder encoding of the pushed
tree: kind index, #attrs, attrs…, #kids, kids…).  A `value` leaf with id `i < 17` is
argument `i` (0 = top of stack); id 17 is a fresh opaque value.  Every internal node is built
through the culling constructor.  `C07_templates` re-checks this table against the code on
every run. -/
def opcodeTemplates : List (Nat × Nat × List Nat) := [
  (1, 2, [2, 0, 2, 0, 1, 0, 0, 0, 1, 1, 0]),   -- ADD
  (2, 2, [3, 0, 2, 0, 1, 0, 0, 0, 1, 1, 0]),   -- MUL
  (3, 2, [4, 0, 2, 0, 1, 0, 0, 0, 1, 1, 0]),   -- SUB
  (4, 2, [5, 0, 2, 0, 1, 0, 0, 0, 1, 1, 0]),   -- DIV
  (5, 2, [6, 0, 2, 0, 1, 0, 0, 0, 1, 1, 0]),   -- SDIV
  (6, 2, [7, 0, 2, 0, 1, 0, 0, 0, 1, 1, 0]),   -- MOD
  (7, 2, [8, 0, 2, 0, 1, 0, 0, 0, 1, 1, 0]),   -- SMOD
  (8, 3, [7, 0, 2, 2, 0, 2, 0, 1, 0, 0, 0, 1, 1, 0, 0, 1, 2, 0]),   -- ADDMOD
  (9, 3, [7, 0, 2, 3, 0, 2, 0, 1, 0, 0, 0, 1, 1, 0, 0, 1, 2, 0]),   -- MULMOD
  (10, 2, [9, 0, 2, 0, 1, 0, 0, 0, 1, 1, 0]),   -- EXP
  (11, 2, [10, 0, 2, 0, 1, 1, 0, 0, 1, 0, 0]),   -- SIGNEXTEND
  (16, 2, [35, 0, 2, 0, 1, 0, 0, 0, 1, 1, 0]),   -- LT
  (17, 2, [36, 0, 2, 0, 1, 0, 0, 0, 1, 1, 0]),   -- GT
  (18, 2, [37, 0, 2, 0, 1, 0, 0, 0, 1, 1, 0]),   -- SLT
  (19, 2, [38, 0, 2, 0, 1, 0, 0, 0, 1, 1, 0]),   -- SGT
  (20, 2, [39, 0, 2, 0, 1, 0, 0, 0, 1, 1, 0]),   -- EQ
  (21, 1, [40, 0, 1, 0, 1, 0, 0]),   -- ISZERO
  (22, 2, [41, 0, 2, 0, 1, 0, 0, 0, 1, 1, 0]),   -- AND
  (23, 2, [42, 0, 2, 0, 1, 0, 0, 0, 1, 1, 0]),   -- OR
  (24, 2, [43, 0, 2, 0, 1, 0, 0, 0, 1, 1, 0]),   -- XOR
  (25, 1, [44, 0, 1, 0, 1, 0, 0]),   -- NOT
  (26, 2, [41, 0, 2, 46, 0, 2, 4, 0, 2, 1, 1, 248, 0, 3, 0, 2, 0, 1, 0, 0, 1, 1, 8, 0, 0, 1, 1, 0, 1, 1, 255, 0]),   -- BYTE
  (27, 2, [45, 0, 2, 0, 1, 0, 0, 0, 1, 1, 0]),   -- SHL
  (28, 2, [46, 0, 2, 0, 1, 0, 0, 0, 1, 1, 0]),   -- SHR
  (29, 2, [47, 0, 2, 0, 1, 0, 0, 0, 1, 1, 0]),   -- SAR
  (48, 0, [14, 0, 0]),   -- ADDRESS
  (49, 1, [15, 0, 1, 0, 1, 0, 0]),   -- BALANCE
  (50, 0, [16, 0, 0]),   -- ORIGIN
  (51, 0, [17, 0, 0]),   -- CALLER
  (52, 0, [18, 0, 0]),   -- CALLVALUE
  (53, 1, [48, 1, 17, 2, 0, 1, 0, 0, 1, 1, 32, 0]),   -- CALLDATALOAD
  (54, 0, [0, 1, 17, 0]),   -- CALLDATASIZE
  (58, 0, [19, 0, 0]),   -- GASPRICE
  (59, 1, [51, 0, 1, 0, 1, 0, 0]),   -- EXTCODESIZE
  (61, 0, [0, 1, 17, 0]),   -- RETURNDATASIZE
  (63, 1, [20, 0, 1, 0, 1, 0, 0]),   -- EXTCODEHASH
  (64, 1, [21, 0, 1, 0, 1, 0, 0]),   -- BLOCKHASH
  (65, 0, [22, 0, 0]),   -- COINBASE
  (66, 0, [23, 0, 0]),   -- TIMESTAMP
  (67, 0, [24, 0, 0]),   -- NUMBER
  (68, 0, [25, 0, 0]),   -- PREVRANDAO
  (69, 0, [26, 0, 0]),   -- GASLIMIT
  (70, 0, [27, 0, 0]),   -- CHAINID
  (71, 0, [28, 0, 0]),   -- SELFBALANCE
  (72, 0, [29, 0, 0]),   -- BASEFEE
  (89, 0, [0, 1, 17, 0]),   -- MSIZE
  (90, 0, [30, 0, 0]),   -- GAS
  (95, 0, [1, 1, 0, 0])    -- PUSH0
]

/-- the kids of a node: `n` sub-trees decoded one after the other by `uf` -/
def unflatten.kidsLoop (uf : List Nat → Option (SV × List Nat)) (n : Nat) (ts : List Nat) (acc : List SV) :
    Option (List SV × List Nat) :=
  match n with
  | 0 => some (acc.reverse, ts)
  | n + 1 => match uf ts with
    | some (kid, r) => unflatten.kidsLoop uf n r (kid :: acc)
    | none => none

/-- Decode the flat preorder encoding (fuel = length suffices).  Structural in the fuel, so the
kernel can evaluate it (the pipeline table is decided by evaluation). -/
def unflatten : Nat → List Nat → Option (SV × List Nat)
  | 0, _ => none
  | fuel + 1, k :: na :: rest =>
    match Kind.all[k]? with
    | none => none
    | some kind =>
      let attrs := rest.take na
      match rest.drop na with
      | nk :: rest2 =>
        (match unflatten.kidsLoop (unflatten fuel) nk rest2 [] with
         | some (kids, r) => some (.node kind attrs kids 0, r)
         | none => none)
      | [] => none
  | _, _ => none

def templateOf (b : Nat) : Option (Nat × SV) :=
  match opcodeTemplates.find? (fun r => r.1 == b) with
  | some (_, n, flat) => (unflatten (flat.length + 1) flat).map (fun p => (n, p.1))
  | none => none

/-- Instantiate a template: argument leaves are replaced by the popped values, everything
else is rebuilt bottom-up through the builder. -/
def instantiate (c : Ctx) (args : List SV) : SV → Nat → SV × Nat
  | .node k attrs kids _, ctr =>
    let rec go : List SV → Nat → List SV × Nat
      | [], n => ([], n)
      | x :: xs, n =>
        let (x', n1) := instantiate c args x n
        let (xs', n2) := go xs n1
        (x' :: xs', n2)
    if k == .value then
      (match attrs with
       | i :: _ => (match args[i]? with
         | some a => (a, ctr)
         | none => buildValue c ctr)
       | [] => buildValue c ctr)
    else
      let (kids', ctr1) := go kids ctr
      if k == .callData then build c (ctr1 + 1) k [mkId c.ip ctr1] kids'
      else build c ctr1 k attrs kids'

/-- The outcome of one opcode's `execute`. -/
structure OpOut where
  d : TData
  ctr : Nat
  err : Option XErr := none          -- `Err(..)` returned by `execute`
  kill : Bool := false               -- `vm.kill_current_thread()`
  jumpTo : Option Nat := none        -- `execution_thread_mut().jump(target)`
  forkTo : Option Nat := none        -- JUMPI with a valid target: fork attempt
  softErr : Option XErr := none      -- JUMPI with a bad target: `vm.store_error`

def fail (d : TData) (ctr : Nat) (e : XErr) : OpOut := { d := d, ctr := ctr, err := some e }

/-- pop `n` values; on underflow the values already popped are gone. -/
def popN : Nat → TData → List SV → Except (XErr × TData) (List SV × TData)
  | 0, d, acc => .ok (acc.reverse, d)
  | n + 1, d, acc =>
    match pop d with
    | .error e => .error (e, d)
    | .ok (v, d') => popN n d' (v :: acc)

def pushOut (d : TData) (ctr : Nat) (v : SV) : OpOut :=
  match push d v with
  | .ok d' => { d := d', ctr := ctr }
  | .error e => fail d ctr e

/-- The bulk-copy loops of CALLDATACOPY / CODECOPY / EXTCODECOPY / RETURNDATACOPY and of
`store_return_data`: one stored word per 32 bytes. -/
def copyLoop (c : Ctx) (d : TData) (ctr : Nat) (dest : SV) (srcBase : Option SV)
    (mkVal : SV → SV → Nat → SV × Nat) (limit : Nat) (foldDest : Bool) : TData × Nat :=
  (List.range ((limit + 31) / 32)).foldl (fun (acc : TData × Nat) i =>
    let (d, ctr) := acc
    let internal := BitVec.ofNat 256 (32 * i)
    let (toAdd, ctr) := buildKnown c ctr internal
    let (destOff, ctr) := build c ctr .add [] [if foldDest then fold dest else dest, toAdd]
    let (srcOff, ctr) := match srcBase with
      | some s => build c ctr .add [] [s, toAdd]
      | none => buildKnown c ctr internal
    let (n32, ctr) := buildKnown c ctr 32#256
    let (v, ctr) := mkVal srcOff n32 ctr
    (memStore d destOff v true, ctr)) (d, ctr)

/-- CALLDATACOPY-like opcodes: `kind` of the stored value, whether an address is popped first,
the bound on the copied size. -/
def copyOp (c : Ctx) (d : TData) (ctr : Nat) (kind : Kind) (withAddress : Bool) (bound : Nat) : OpOut :=
  match popN (if withAddress then 4 else 3) d [] with
  | .error (e, d') => fail d' ctr e
  | .ok (args, d1) =>
    let (address, rest) := if withAddress then (args.head?, args.drop 1) else (none, args)
    match rest with
    | [dest, offset0, size0] =>
      let offset := fold offset0
      let size := fold size0
      let mkVal := fun (src n32 : SV) (ctr : Nat) =>
        if kind == .callData then build c (ctr + 1) .callData [mkId c.ip ctr] [src, n32]
        else match address with
          | some a => build c ctr kind [] [a, src, n32]
          | none => build c ctr kind [] [src, n32]
      (match isKnown size with
       | some w =>
         let limit := min (asUsize w) bound
         let (d2, ctr2) := copyLoop c d1 ctr dest (some offset) mkVal limit false
         { d := d2, ctr := ctr2 }
       | none =>
         let (v, ctr1) := mkVal offset size ctr
         { d := memStore d1 dest v true, ctr := ctr1 })
    | _ => fail d1 ctr .noSuchStackFrame

/-- `store_return_data`. -/
def storeReturnData (c : Ctx) (d : TData) (ctr : Nat) (retSize retOffset : SV) : TData × Nat :=
  match isKnown (fold retSize) with
  | some w =>
    let limit := min (asUsize w) c.cfg.memLimit
    copyLoop c d ctr retOffset none (fun src n32 ctr => build c ctr .returnData [] [src, n32]) limit true
  | none =>
    -- `builder.symbolic(ip, new_value(), MessageCall)`: a one-node value through the limit check
    let (v, ctr1) := build c (ctr + 1) .value [mkId c.ip ctr] []
    (memStore d retOffset v true, ctr1)

def callOp (c : Ctx) (d : TData) (ctr : Nat) (withValue : Bool) : OpOut :=
  match popN (if withValue then 7 else 6) d [] with
  | .error (e, d') => fail d' ctr e
  | .ok (args, d1) =>
    let (gas, address, value?, rest) :=
      if withValue then (args[0]?, args[1]?, args[2]?, args.drop 3) else (args[0]?, args[1]?, none, args.drop 2)
    match gas, address, rest with
    | some gas, some address, [argOffset, argSize, retOffset, retSize] =>
      (match memLoadSlice c d1 argOffset argSize with
       | .error e => fail d1 ctr e
       | .ok (argData, d2) =>
         let (d3, ctr1) := storeReturnData c d2 ctr retSize retOffset
         let (res, ctr2) := match value? with
           | some v => build c ctr1 .callWithValue [] [gas, address, v, argData, retOffset, retSize]
           | none => build c ctr1 .callWithoutValue [] [gas, address, argData, retOffset, retSize]
         pushOut d3 ctr2 res)
    | _, _, _ => fail d1 ctr .noSuchStackFrame

/-- `validate_jump_destination`: the *whole* 256-bit constant must be the offset of a JUMPDEST
entry of the instruction stream. -/
def validateJump (code : List Instr) (counter : SV) : Except XErr Nat :=
  match isKnown (fold counter) with
  | none => .error .noConcreteJumpDestination
  | some w =>
    if w.toNat ≥ 2 ^ 32 then .error .nonExistentJumpTarget
    else match code[w.toNat]? with
      | none => .error .nonExistentJumpTarget
      | some ins => if ins == .op 0x5b then .ok w.toNat else .error .invalidJumpTarget

/-- Data effect of the instruction at `c.ip`. `visitedAt t` tells whether this thread has
already visited offset `t` as often as the iteration limit allows (used by JUMPI). -/
def execOp (c : Ctx) (code : List Instr) (ins : Instr) (d : TData) (ctr : Nat) : OpOut :=
  match ins with
  | .nop => { d := d, ctr := ctr }
  | .invalid _ => { d := d, ctr := ctr, kill := true }
  | .push _ data =>
    let w := BitVec.ofNat 256 (data.foldl (fun acc b => acc * 256 + b) 0)
    let (v, ctr1) := buildKnown c ctr w
    pushOut d ctr1 v
  | .op b =>
    if b == 0x00 then { d := d, ctr := ctr, kill := true }                       -- STOP
    else if b == 0x5b then { d := d, ctr := ctr }                                  -- JUMPDEST
    else if b == 0xfe then { d := d, ctr := ctr, kill := true }                    -- INVALID
    else if 0x80 ≤ b && b ≤ 0x8f then                                              -- DUPn
      (match dup d (b - 0x80) with | .ok d' => { d := d', ctr := ctr } | .error e => fail d ctr e)
    else if 0x90 ≤ b && b ≤ 0x9f then                                              -- SWAPn
      (match swap d (b - 0x8f) with | .ok d' => { d := d', ctr := ctr } | .error e => fail d ctr e)
    else if b == 0x50 then                                                         -- POP
      (match pop d with
       | .ok (v, d') => { d := record d' v, ctr := ctr }
       | .error e => fail d ctr e)
    else if b == 0x58 then                                                         -- PC
      let (v, ctr1) := buildKnown c ctr (BitVec.ofNat 256 c.ip); pushOut d ctr1 v
    else if b == 0x38 then                                                         -- CODESIZE
      let (v, ctr1) := buildKnown c ctr (BitVec.ofNat 256 c.codeLen); pushOut d ctr1 v
    else if b == 0x51 then                                                         -- MLOAD
      (match pop d with
       | .error e => fail d ctr e
       | .ok (off, d1) => let (v, d2) := memLoad d1 off; pushOut d2 ctr v)
    else if b == 0x52 || b == 0x53 then                                            -- MSTORE / MSTORE8
      (match popN 2 d [] with
       | .error (e, d') => fail d' ctr e
       | .ok ([off, v], d1) => { d := memStore d1 off v (b == 0x52), ctr := ctr }
       | .ok (_, d1) => fail d1 ctr .noSuchStackFrame)
    else if b == 0x54 then                                                         -- SLOAD
      (match pop d with
       | .error e => fail d ctr e
       | .ok (key, d1) =>
         let (v, d2) := stLoad d1 key
         -- the storage builds its wrapper without the size limit; SLOAD applies it (repair of D17)
         if v.recSize > c.cfg.valueLimit then
           let (v', ctr1) := buildValue c ctr
           pushOut d2 ctr1 v'
         else pushOut d2 ctr v)
    else if b == 0x55 then                                                         -- SSTORE
      (match popN 2 d [] with
       | .error (e, d') => fail d' ctr e
       | .ok ([key, v], d1) => { d := stStore d1 key v, ctr := ctr }
       | .ok (_, d1) => fail d1 ctr .noSuchStackFrame)
    else if b == 0x20 then                                                         -- SHA3
      (match popN 2 d [] with
       | .error (e, d') => fail d' ctr e
       | .ok ([off, size], d1) =>
         (match memLoadSlice c d1 off size with
          | .error e => fail d1 ctr e
          | .ok (data, d2) => let (v, ctr1) := build c ctr .sha3 [] [data]; pushOut d2 ctr1 v)
       | .ok (_, d1) => fail d1 ctr .noSuchStackFrame)
    else if b == 0x37 then copyOp c d ctr .callData false c.cfg.memLimit           -- CALLDATACOPY
    else if b == 0x39 then copyOp c d ctr .codeCopy false 24576                    -- CODECOPY
    else if b == 0x3c then copyOp c d ctr .extCodeCopy true 24576                  -- EXTCODECOPY
    else if b == 0x3e then copyOp c d ctr .returnData false c.cfg.memLimit         -- RETURNDATACOPY
    else if 0xa0 ≤ b && b ≤ 0xa4 then                                              -- LOGn
      (match popN (2 + (b - 0xa0)) d [] with
       | .error (e, d') => fail d' ctr e
       | .ok (off :: size :: topics, d1) =>
         (match memLoadSlice c d1 off size with
          | .error e => fail d1 ctr e
          | .ok (data, d2) =>
            let (v, ctr1) := build c ctr .log [] (data :: topics)
            { d := logValue d2 v, ctr := ctr1 })
       | .ok (_, d1) => fail d1 ctr .noSuchStackFrame)
    else if b == 0xf0 then                                                         -- CREATE
      (match popN 3 d [] with
       | .error (e, d') => fail d' ctr e
       | .ok ([value, off, size], d1) =>
         (match memLoadSlice c d1 off size with
          | .error e => fail d1 ctr e
          | .ok (data, d2) => let (v, ctr1) := build c ctr .create [] [value, data]; pushOut d2 ctr1 v)
       | .ok (_, d1) => fail d1 ctr .noSuchStackFrame)
    else if b == 0xf5 then                                                         -- CREATE2
      (match popN 4 d [] with
       | .error (e, d') => fail d' ctr e
       | .ok ([value, off, size, salt], d1) =>
         (match memLoadSlice c d1 off size with
          | .error e => fail d1 ctr e
          | .ok (data, d2) => let (v, ctr1) := build c ctr .create2 [] [value, salt, data]; pushOut d2 ctr1 v)
       | .ok (_, d1) => fail d1 ctr .noSuchStackFrame)
    else if b == 0xf1 || b == 0xf2 then callOp c d ctr true                        -- CALL / CALLCODE
    else if b == 0xf4 || b == 0xfa then callOp c d ctr false                       -- DELEGATECALL / STATICCALL
    else if b == 0xf3 || b == 0xfd then                                            -- RETURN / REVERT
      (match popN 2 d [] with
       | .error (e, d') => fail d' ctr e
       | .ok ([off, size], d1) =>
         (match memLoadSlice c d1 off size with
          | .error e => fail d1 ctr e
          | .ok (data, d2) =>
            let (v, ctr1) := build c ctr (if b == 0xf3 then .return_ else .revert) [] [data]
            { d := record d2 v, ctr := ctr1, kill := true })
       | .ok (_, d1) => fail d1 ctr .noSuchStackFrame)
    else if b == 0xff then                                                         -- SELFDESTRUCT
      (match pop d with
       | .error e => fail d ctr e
       | .ok (target, d1) =>
         let (v, ctr1) := build c ctr .selfDestruct [] [target]
         { d := record d1 v, ctr := ctr1, kill := true })
    else if b == 0x56 then                                                         -- JUMP
      (match pop d with
       | .error e => fail d ctr e
       | .ok (counter, d1) =>
         (match validateJump code counter with
          | .ok t => { d := d1, ctr := ctr, jumpTo := some t }
          | .error e =>
            let d2 := record d1 counter
            if e == .noConcreteJumpDestination then { d := d2, ctr := ctr, kill := true }
            else fail d2 ctr e))
    else if b == 0x57 then                                                         -- JUMPI
      (match pop d with
       | .error e => fail d ctr e
       | .ok (counter, d1) =>
         (match pop d1 with
          | .error e => fail d1 ctr e
          | .ok (cond, d2) =>
            let d3 := record d2 cond
            (match validateJump code counter with
             | .ok t => { d := d3, ctr := ctr, forkTo := some t }
             | .error e => { d := record d3 counter, ctr := ctr, softErr := some e })))
    else
      match templateOf b with
      | some (n, tpl) =>
        (match popN n d [] with
         | .error (e, d') => fail d' ctr e
         | .ok (args, d1) =>
           let (v, ctr1) := instantiate c args tpl ctr
           pushOut d1 ctr1 v)
      | none => { d := d, ctr := ctr, kill := true }   -- not reachable: every byte is covered

end SLE.VM
