import SLE.Model.Fold
/-
M7 (lifting) — the nine lifting passes of `src/tc/lift/*.rs` in their default order
(`LiftingPasses::default`), each a `transform_data` with the pass's transformer.
Hashing is a parameter: `table` is the recognised-preimage lookup of `StorageSlotHashes`
(hash ↦ slot number, for the first 10,000 slot numbers), `sha3` the Keccak-256 of a list of
256-bit words.  Node layout (kids in declaration order): `sLoad [key, value]`,
`storageWrite [key, value]`, `unwrittenStorageValue [key]`, `sha3 [data]`, `concat values`,
`mappingIndex [slot, key]` with attrs `[projection+1 or 0]`, `dynamicArrayIndex [slot, index]`,
`subWord [value]` attrs `[offset, size]`, `shifted [value]` attrs `[offset]`,
`packed values` attrs `[off₀, size₀, off₁, size₁, …]`, `storageSlot [key]`.
-/
namespace SLE.Lift
open SLE SLE.SV

structure HashCtx where
  table : Nat → Option Nat
  sha3 : List Nat → Nat

inductive LFault where
  | panic (site : String)
deriving Repr, DecidableEq

def usizeMax : Nat := 2 ^ 64
def asUsize (w : Nat) : Nat := w % usizeMax

def knownOf (v : SV) : Option Nat :=
  match v with
  | .node .knownData (w :: _) _ _ => some w
  | _ => none

def mkKnownNat (w : Nat) : SV := .node .knownData [w] [] 1

/-! ### 1. StorageSlotHashes -/
def slotHashesT (h : HashCtx) : Transformer := fun k attrs _ =>
  match k, attrs with
  | .knownData, w :: _ =>
    (match h.table w with
     | some i => some (.sha3, [], [mkKnownNat i])
     | none => none)
  | _, _ => none

/-! ### 2. ProxySlots -/

/-- the 32 big-endian bytes of a word -/
def bytesBE (w : Nat) : List Nat := (List.range 32).map (fun i => (w / 256 ^ (31 - i)) % 256)

def stripTrailingNuls (words : List Nat) : List Nat :=
  ((words.flatMap bytesBE).reverse.dropWhile (· == 0)).reverse

def isLikelyString (words : List Nat) : Bool :=
  match words with
  | [] => false
  | first :: _ =>
    let msbNonZero := (bytesBE first).head? != some 0
    (stripTrailingNuls words).all (fun b => b > 0x1f && b < 0x7f) && msbNonZero

def hasCorrectNumberOfBytes (words : List Nat) (expected : Nat) : Bool :=
  (stripTrailingNuls words).length == expected

/-- `unpick_sha3_data`: a hash of constant, string-looking data becomes the constant slot. -/
def unpickSha3Data (h : HashCtx) (v : SV) : Option SV :=
  match v with
  | .node .sha3 _ [data] _ =>
    (match data with
     | .node .knownData (w :: _) _ _ =>
       if isLikelyString [w] then some (mkKnownNat (h.sha3 [w])) else none
     | .node .concat _ values _ =>
       let words := values.filterMap (fun x => knownOf (fold x))
       if words.length ≠ values.length then none
       else if words.length ≥ 3 && words.head? == some 0x20 then
         (match words with
          | _ :: len :: str =>
            if !(hasCorrectNumberOfBytes str len) || !(isLikelyString str) then none
            else some (mkKnownNat (h.sha3 words))
          | _ => none)
       else if !(isLikelyString words) then none
       else some (mkKnownNat (h.sha3 words))
     | _ => none)
  | _ => none

/-- `unpick_proxy_slots` on a key. -/
def unpickProxySlots (h : HashCtx) (key : SV) : Option SV :=
  match key with
  | .node .add a [l, r] _ =>
    let pair : Option (SV × SV) :=
      match unpickSha3Data h l with
      | some nl => some (nl, r)
      | none => (match unpickSha3Data h r with
        | some nr => some (l, nr)
        | none => none)
    (match pair with
     | some (l', r') =>
       let folded := fold (rebuild .add a [l', r'])
       if folded.kind == .knownData then some folded else none
     | none => none)
  | other => unpickSha3Data h other

/-- `recognise_proxy_slots` (fuel = node count suffices: every recursive call is on a strict
sub-term). -/
def proxySlots (h : HashCtx) : Nat → SV → SV
  | 0, v => v
  | fuel + 1, .node k attrs ks _ =>
    match k, ks with
    | .sLoad, [key, value] =>
      rebuild .sLoad attrs [(match unpickProxySlots h key with
        | some nk => rebuild nk.kind nk.attrs nk.kids | none => proxySlots h fuel key), proxySlots h fuel value]
    | .storageWrite, [key, value] =>
      rebuild .storageWrite attrs [(match unpickProxySlots h key with
        | some nk => rebuild nk.kind nk.attrs nk.kids | none => proxySlots h fuel key), proxySlots h fuel value]
    | _, _ => rebuild k attrs (ks.map (proxySlots h fuel))

/-! ### 3. MappingIndex -/
/-- `insert_mapping_accesses` as a whole-tree transform -/
def insertMappingAccesses : Nat → SV → SV
  | 0, v => v
  | fuel + 1, .node k attrs ks _ =>
    match k, ks with
    | .sha3, [.node .concat _ [key, slot] _] =>
      rebuild .mappingIndex [0] [insertMappingAccesses fuel slot, insertMappingAccesses fuel key]
    | _, _ => rebuild k attrs (ks.map (insertMappingAccesses fuel))

/-- `guard_*`: the inner transform is applied below storage nodes only. -/
def guardStorage (inner : SV → SV) : Transformer := fun k attrs ks =>
  match k, ks with
  | .storageWrite, [key, value] => some (.storageWrite, attrs, [inner key, inner value])
  | .sLoad, [key, value] => some (.sLoad, attrs, [inner key, inner value])
  | .unwrittenStorageValue, [key] => some (.unwrittenStorageValue, attrs, [inner key])
  | _, _ => none

/-! ### 4. SubWordValue -/

/-- position of the lowest set bit, and the length of the run of ones starting there -/
def lowestSetBit (fuel w : Nat) (i : Nat) : Option Nat :=
  match fuel with
  | 0 => none
  | fuel + 1 => if w % 2 = 1 then some i else lowestSetBit fuel (w / 2) (i + 1)

def runLength (fuel w : Nat) (n : Nat) : Nat :=
  match fuel with
  | 0 => n
  | fuel + 1 => if w % 2 = 1 then runLength fuel (w / 2) (n + 1) else n

/-- `SubWordValue::get_region`: `(offset, length)` of the lowest run of ones of a constant mask. -/
def getRegion (v : SV) : Option (Nat × Nat) :=
  match knownOf (fold v) with
  | none => none
  | some w =>
    match lowestSetBit 256 w 0 with
    | none => none
    | some off => some (off, runLength (256 - off) (w / 2 ^ off) 0)

/-- `MulShiftedValue::which_power_of_2`. -/
def whichPowerOf2 (w : Nat) : Option Nat :=
  if w = 1 then some 0
  else if w = 0 then none
  else if w % 2 = 0 then
    let rec go (fuel n counter : Nat) : Option Nat :=
      match fuel with
      | 0 => none
      | fuel + 1 => if n = 2 then some counter
                    else if counter + 1 > 256 then none else go fuel (n / 2) (counter + 1)
    go 300 w 1
  else none

/-- `SubWordValue::get_shift`. -/
def getShift (value : SV) : SV × Nat :=
  match value with
  | .node .rightShift _ [shift, inner] _ =>
    (match knownOf (fold shift) with
     | some s => (inner, asUsize s)
     | none => (inner, 0))
  | .node .divide _ [dividend, divisor] _ =>
    (match divisor with
     | .node .exp _ [base, ex] _ =>
       (match knownOf base, knownOf ex with
        | some b, some e => if asUsize b = 2 then (dividend, asUsize e) else (value, 0)
        | _, _ => (value, 0))
     | .node .leftShift _ [shift, base] _ =>
       (match knownOf base, knownOf shift with
        | some b, some s => if asUsize b = 1 then (dividend, asUsize s) else (value, 0)
        | _, _ => (value, 0))
     | .node .knownData (d :: _) _ _ =>
       (match whichPowerOf2 d with
        | some s => (dividend, s)
        | none => (value, 0))
     | _ => (value, 0))
  | _ => (value, 0)

def mapE {α β ε : Type} (f : α → Except ε β) : List α → Except ε (List β)
  | [] => .ok []
  | x :: xs => match f x with
    | .error e => .error e
    | .ok y => match mapE f xs with
      | .error e => .error e
      | .ok ys => .ok (y :: ys)

/-- `insert_sub_words`; the native `offset + shift` is overflow-checked. -/
def insertSubWords : Nat → SV → Except LFault SV
  | 0, v => .ok v
  | fuel + 1, .node k attrs ks _ =>
    let generic : Except LFault SV :=
      match mapE (insertSubWords fuel) ks with
      | .ok ks' => .ok (rebuild k attrs ks')
      | .error e => .error e
    match k, ks with
    | .and_, [left, right] =>
      let pick : Option (SV × Nat × Nat) :=
        match getRegion left with
        | some (o, l) => some (right, o, l)
        | none => (match getRegion right with
          | some (o, l) => some (left, o, l)
          | none => none)
      (match pick with
       | some (value, offset, length) =>
         if value.kind == .knownData then generic
         else
           let (v1, shift) := getShift value
           (match insertSubWords fuel v1 with
            | .error e => .error e
            | .ok v2 =>
              let v3 := match v2 with
                | .node .subWord [io, isz] [iv] _ => if offset == io && length == isz then iv else v2
                | _ => v2
              -- the shifted mask must lie inside the 256-bit word (checked add, then the bound)
              if offset + shift ≥ usizeMax || offset + shift + length > 256 then generic
              else .ok (rebuild .subWord [offset + shift, length] [v3]))
       | none => generic)
    | _, _ => generic


/-- `insertSubWords` with the generic arm evaluated only where it is taken (the compiled code
evaluates a `let` eagerly, which doubles the work at every nested mask); equal to the definition
above, and the compiler is told to use it. -/
def insertSubWordsFast : Nat → SV → Except LFault SV
  | 0, v => .ok v
  | fuel + 1, .node k attrs ks _ =>
    let generic : Unit → Except LFault SV := fun _ =>
      match mapE (insertSubWordsFast fuel) ks with
      | .ok ks' => .ok (rebuild k attrs ks')
      | .error e => .error e
    match k, ks with
    | .and_, [left, right] =>
      let pick : Option (SV × Nat × Nat) :=
        match getRegion left with
        | some (o, l) => some (right, o, l)
        | none => (match getRegion right with
          | some (o, l) => some (left, o, l)
          | none => none)
      (match pick with
       | some (value, offset, length) =>
         if value.kind == .knownData then generic ()
         else
           let (v1, shift) := getShift value
           (match insertSubWordsFast fuel v1 with
            | .error e => .error e
            | .ok v2 =>
              let v3 := match v2 with
                | .node .subWord [io, isz] [iv] _ => if offset == io && length == isz then iv else v2
                | _ => v2
              if offset + shift ≥ usizeMax || offset + shift + length > 256 then generic ()
              else .ok (rebuild .subWord [offset + shift, length] [v3]))
       | none => generic ())
    | _, _ => generic ()

theorem insertSubWordsFast_eq : ∀ (fuel : Nat) (v : SV), insertSubWordsFast fuel v = insertSubWords fuel v := by
  intro fuel
  induction fuel with
  | zero => intro v; cases v; rfl
  | succ n ih =>
    intro v
    have hf : insertSubWordsFast n = insertSubWords n := funext ih
    cases v with
    | node k attrs ks sz =>
      unfold insertSubWordsFast insertSubWords
      simp only [hf]

@[csimp] theorem insertSubWords_eq_fast : @insertSubWords = @insertSubWordsFast := by
  funext fuel v; exact (insertSubWordsFast_eq fuel v).symm

/-! ### 5. MulShiftedValue -/
def insertMulShifts : Nat → SV → SV
  | 0, v => v
  | fuel + 1, .node k attrs ks _ =>
    let generic := rebuild k attrs (ks.map (insertMulShifts fuel))
    match k, ks with
    | .multiply, [left, right] =>
      let lf := fold left
      let rf := fold right
      let pick : Option (Nat × SV) :=
        match knownOf lf, rf.kind == .subWord with
        | some c, true => some (c, insertMulShifts fuel right)
        | _, _ =>
          match lf.kind == .subWord, knownOf rf with
          | true, some c => some (c, insertMulShifts fuel left)
          | _, _ => none
      (match pick with
       | some (c, value) =>
         (match whichPowerOf2 c with
          | some off =>
            (match value with
             | .node .subWord [_, sz] _ _ => if off + sz > 256 then generic else rebuild .shifted [off] [value]
             | _ => rebuild .shifted [off] [value])
          | none => generic)
       | none => generic)
    | _, _ => generic


/-- lazy-arm variant of `insertMulShifts` (see `insertSubWordsFast`) -/
def insertMulShiftsFast : Nat → SV → SV
  | 0, v => v
  | fuel + 1, .node k attrs ks _ =>
    let generic : Unit → SV := fun _ => rebuild k attrs (ks.map (insertMulShiftsFast fuel))
    match k, ks with
    | .multiply, [left, right] =>
      let lf := fold left
      let rf := fold right
      let pick : Option (Nat × SV) :=
        match knownOf lf, rf.kind == .subWord with
        | some c, true => some (c, insertMulShiftsFast fuel right)
        | _, _ =>
          match lf.kind == .subWord, knownOf rf with
          | true, some c => some (c, insertMulShiftsFast fuel left)
          | _, _ => none
      (match pick with
       | some (c, value) =>
         (match whichPowerOf2 c with
          | some off =>
            (match value with
             | .node .subWord [_, sz] _ _ => if off + sz > 256 then generic () else rebuild .shifted [off] [value]
             | _ => rebuild .shifted [off] [value])
          | none => generic ())
       | none => generic ())
    | _, _ => generic ()

theorem insertMulShiftsFast_eq : ∀ (fuel : Nat) (v : SV), insertMulShiftsFast fuel v = insertMulShifts fuel v := by
  intro fuel
  induction fuel with
  | zero => intro v; cases v; rfl
  | succ n ih =>
    intro v
    have hf : insertMulShiftsFast n = insertMulShifts n := funext ih
    cases v with
    | node k attrs ks sz =>
      unfold insertMulShiftsFast insertMulShifts
      simp only [hf]

@[csimp] theorem insertMulShifts_eq_fast : @insertMulShifts = @insertMulShiftsFast := by
  funext fuel v; exact (insertMulShiftsFast_eq fuel v).symm

/-! ### 6. PackedEncoding -/
def unpickOrs : Nat → SV → List SV
  | 0, v => [v]
  | fuel + 1, v =>
    match v with
    | .node .or_ _ [l, r] _ => unpickOrs fuel l ++ unpickOrs fuel r
    | _ => [v]

def insertSpan (s : Nat × Nat × SV) : List (Nat × Nat × SV) → List (Nat × Nat × SV)
  | [] => [s]
  | t :: r => if s.1 < t.1 then s :: t :: r else t :: insertSpan s r

/-- stable sort of spans by offset (`sorted_by_key`) -/
def sortSpans (l : List (Nat × Nat × SV)) : List (Nat × Nat × SV) :=
  l.foldl (fun acc s => insertSpan s acc) []

def liftPacked : Nat → SV → Except LFault SV
  | 0, v => .ok v
  | fuel + 1, .node k attrs ks _ =>
    let generic : Except LFault SV :=
      match mapE (liftPacked fuel) ks with
      | .ok ks' => .ok (rebuild k attrs ks')
      | .error e => .error e
    match k, ks with
    | .storageWrite, [key, value] =>
      let elements := unpickOrs (nodeCount value) value
      if !(elements.all (fun e => e.kind == .shifted || e.kind == .subWord)) then generic
      else
        let spansE : Except LFault (List (Nat × Nat × SV)) := mapE (fun (e : SV) =>
          match e with
          | .node .subWord [off, sz] _ _ => .ok (off, sz, e)
          | .node .shifted [off] [inner] _ =>
            (match inner with
             | .node .subWord [_, sz] _ _ => .ok (off, sz, inner)
             | _ => .error (.panic "packed_encoding.rs Shift of non-sub-word"))
          | _ => .error (.panic "packed_encoding.rs Element was of impossible type")) elements
        (match spansE with
         | .error e => .error e
         | .ok spans0 =>
           let spans := sortSpans spans0
           -- non-overlap check (`offset + size` is a checked add)
           let chk := spans.foldl (fun (acc : Bool × Nat × Bool) (s : Nat × Nat × SV) =>
             (acc.1 && acc.2.1 ≤ s.1, s.1 + s.2.1, acc.2.2 || (s.1 + s.2.1 ≥ usizeMax))) (true, 0, false)
           if chk.2.2 then .error (.panic "packed_encoding.rs offset + size")
           else
             let used := spans.filter (fun (s : Nat × Nat × SV) =>
               match s.2.2 with
               | .node .subWord _ [.node .sLoad _ [innerKey, _] _] _ => !(innerKey.beq key)
               | _ => true)
             if chk.1 then
               let packed := rebuild .packed (used.flatMap (fun s => [s.1, s.2.1])) (used.map (·.2.2))
               .ok (rebuild .storageWrite attrs [key, packed])
             else generic)
    | _, _ => generic

/-! ### 7. DynamicArrayIndex -/
def liftDynArray : Nat → SV → SV
  | 0, v => v
  | fuel + 1, .node k attrs ks _ =>
    let generic := rebuild k attrs (ks.map (liftDynArray fuel))
    match k, ks with
    | .add, [left, right] =>
      let dataOpt : Option SV :=
        match left with
        | .node .sha3 _ [d] _ => some d
        | _ => (match right with
          | .node .sha3 _ [d] _ => some d
          | _ => none)
      (match dataOpt with
       | none => generic
       | some data =>
         let data' : Option SV :=
           match data with
           | .node .concat _ [one] _ => some (fold one)
           | .node .concat _ _ _ => none
           | d => some d
         (match data' with
          | none => generic
          | some d =>
            -- `d` is a sub-term (or the fold of one): its node count is below the fuel given
            rebuild .dynamicArrayIndex [] [liftDynArray fuel d, liftDynArray fuel right]))
    | _, _ => generic


/-- lazy-arm variant of `liftDynArray` (see `insertSubWordsFast`) -/
def liftDynArrayFast : Nat → SV → SV
  | 0, v => v
  | fuel + 1, .node k attrs ks _ =>
    let generic : Unit → SV := fun _ => rebuild k attrs (ks.map (liftDynArrayFast fuel))
    match k, ks with
    | .add, [left, right] =>
      let dataOpt : Option SV :=
        match left with
        | .node .sha3 _ [d] _ => some d
        | _ => (match right with
          | .node .sha3 _ [d] _ => some d
          | _ => none)
      (match dataOpt with
       | none => generic ()
       | some data =>
         let data' : Option SV :=
           match data with
           | .node .concat _ [one] _ => some (fold one)
           | .node .concat _ _ _ => none
           | d => some d
         (match data' with
          | none => generic ()
          | some d =>
            rebuild .dynamicArrayIndex [] [liftDynArrayFast fuel d, liftDynArrayFast fuel right]))
    | _, _ => generic ()

theorem liftDynArrayFast_eq : ∀ (fuel : Nat) (v : SV), liftDynArrayFast fuel v = liftDynArray fuel v := by
  intro fuel
  induction fuel with
  | zero => intro v; cases v; rfl
  | succ n ih =>
    intro v
    have hf : liftDynArrayFast n = liftDynArray n := funext ih
    cases v with
    | node k attrs ks sz =>
      unfold liftDynArrayFast liftDynArray
      simp only [hf]

@[csimp] theorem liftDynArray_eq_fast : @liftDynArray = @liftDynArrayFast := by
  funext fuel v; exact (liftDynArrayFast_eq fuel v).symm

/-! ### 8. StorageSlots -/
def insertStorageSlots : Nat → SV → SV
  | 0, v => v
  | fuel + 1, .node k attrs ks _ =>
    let wrap := fun (slot : SV) =>
      if slot.kind == .storageSlot then rebuild slot.kind slot.attrs slot.kids
      else rebuild .storageSlot [] [insertStorageSlots fuel slot]
    match k, ks with
    | .mappingIndex, [slot, key] => rebuild .mappingIndex attrs [wrap slot, insertStorageSlots fuel key]
    | .storageWrite, [key, value] => rebuild .storageWrite attrs [wrap key, insertStorageSlots fuel value]
    | .dynamicArrayIndex, [slot, index] => rebuild .dynamicArrayIndex attrs [wrap slot, insertStorageSlots fuel index]
    | .sLoad, [key, value] => rebuild .sLoad attrs [wrap key, insertStorageSlots fuel value]
    | _, _ => rebuild k attrs (ks.map (insertStorageSlots fuel))

/-! ### 9. MappingOffset -/
def insertMappingOffset : Nat → SV → SV
  | 0, v => v
  | fuel + 1, .node k attrs ks _ =>
    let generic := rebuild k attrs (ks.map (insertMappingOffset fuel))
    match k, ks with
    | .add, [left, right] =>
      let pick : Option (SV × SV × Nat) :=
        match left, right with
        | .node .mappingIndex _ [slot, key] _, .node .knownData (w :: _) _ _ =>
          if w < 2 ^ 32 then some (key, slot, w) else none
        | .node .knownData (w :: _) _ _, .node .mappingIndex _ [slot, key] _ =>
          if w < 2 ^ 32 then some (key, slot, w) else none
        | _, _ => none
      (match pick with
       | some (key, slot, off) =>
         rebuild .mappingIndex [off + 1] [insertMappingOffset fuel slot, insertMappingOffset fuel key]
       | none => generic)
    | _, _ => generic


/-- lazy-arm variant of `insertMappingOffset` (see `insertSubWordsFast`) -/
def insertMappingOffsetFast : Nat → SV → SV
  | 0, v => v
  | fuel + 1, .node k attrs ks _ =>
    let generic : Unit → SV := fun _ => rebuild k attrs (ks.map (insertMappingOffsetFast fuel))
    match k, ks with
    | .add, [left, right] =>
      let pick : Option (SV × SV × Nat) :=
        match left, right with
        | .node .mappingIndex _ [slot, key] _, .node .knownData (w :: _) _ _ =>
          if w < 2 ^ 32 then some (key, slot, w) else none
        | .node .knownData (w :: _) _ _, .node .mappingIndex _ [slot, key] _ =>
          if w < 2 ^ 32 then some (key, slot, w) else none
        | _, _ => none
      (match pick with
       | some (key, slot, off) =>
         rebuild .mappingIndex [off + 1] [insertMappingOffsetFast fuel slot, insertMappingOffsetFast fuel key]
       | none => generic ())
    | _, _ => generic ()

theorem insertMappingOffsetFast_eq : ∀ (fuel : Nat) (v : SV), insertMappingOffsetFast fuel v = insertMappingOffset fuel v := by
  intro fuel
  induction fuel with
  | zero => intro v; cases v; rfl
  | succ n ih =>
    intro v
    have hf : insertMappingOffsetFast n = insertMappingOffset n := funext ih
    cases v with
    | node k attrs ks sz =>
      unfold insertMappingOffsetFast insertMappingOffset
      simp only [hf]

@[csimp] theorem insertMappingOffset_eq_fast : @insertMappingOffset = @insertMappingOffsetFast := by
  funext fuel v; exact (insertMappingOffsetFast_eq fuel v).symm

/-! ### The pipeline of passes -/

/-- apply a transform `inner` below storage nodes only (`guard_*`), anywhere in the tree -/
def guarded (inner : SV → SV) : Nat → SV → SV
  | 0, v => v
  | fuel + 1, .node k attrs ks _ =>
    match guardStorage inner k attrs ks with
    | some (k', a', ks') => rebuild k' a' ks'
    | none => rebuild k attrs (ks.map (guarded inner fuel))

/-- `LiftingPasses::default().run(value)`. -/
def liftAll (h : HashCtx) (v : SV) : Except LFault SV :=
  let n := fun (t : SV) => nodeCount t + 1
  let v1 := transform (slotHashesT h) v
  let v2 := proxySlots h (n v1) v1
  let v3 := guarded (fun t => insertMappingAccesses (n t) t) (n v2) v2
  match insertSubWords (n v3) v3 with
  | .error e => .error e
  | .ok v4 =>
    let v5 := insertMulShifts (n v4) v4
    match liftPacked (n v5) v5 with
    | .error e => .error e
    | .ok v6 =>
      let v7 := guarded (fun t => liftDynArray (2 * n t) t) (n v6) v6
      let v8 := insertStorageSlots (n v7) v7
      .ok (insertMappingOffset (n v8) v8)

end SLE.Lift
