import SLE.Model.Lift
import SLE.Model.Unify
import SLE.Model.Layout
import SLE.Model.Json
/-
M7 (type-checking pipeline) — `TypeCheckerState::register` (`src/tc/state/mod.rs`), the sixteen
inference rules (`src/tc/rule/*.rs`), the layout loop, `abi_type_for_impl` and `type_of`
(`src/tc/mod.rs:197-482`).
-/
namespace SLE.TC
open SLE SLE.SV SLE.JsonModel

/-- A registered value: the runtime tree with a type variable at every node. -/
inductive TV where
  | node (k : Kind) (attrs : List Nat) (kids : List TV) (tv : Nat)
deriving Repr, Inhabited

namespace TV
def kind : TV → Kind | .node k _ _ _ => k
def attrs : TV → List Nat | .node _ a _ _ => a
def kids : TV → List TV | .node _ _ ks _ => ks
def tv : TV → Nat | .node _ _ _ t => t
end TV

/-- `TypeCheckerState` as far as registration and inference go. -/
structure RegState where
  next : Nat := 0
  stable : List (SV × TV) := []
  values : List TV := []            -- every registered node, in order of allocation
  judgements : List (Nat × TE) := [] -- `infer(var, expr)` calls, in order

/-- `is_stable_typed`. -/
def isStable : Nat → SV → Bool
  | 0, _ => false
  | fuel + 1, .node k _ ks _ =>
    k == .storageSlot || k == .value || k == .callData || ks.any (isStable fuel)

/-- `register_internal` (fuel = node count + 1). -/
def register : Nat → RegState → SV → RegState × TV
  | 0, st, _ => (st, .node .value [] [] 0)
  | fuel + 1, st, v =>
    let stableV := isStable (nodeCount v + 1) v
    match (if stableV then (st.stable.find? (fun p => p.1.beq v)).map (·.2) else none) with
    | some tvn => (st, tvn)
    | none =>
      match v with
      | .node k attrs ks _ =>
        let (st1, kids') := ks.foldl (fun (acc : RegState × List TV) c =>
          let (s, t) := register fuel acc.1 c
          (s, acc.2 ++ [t])) (st, [])
        let node := TV.node k attrs kids' st1.next
        let st2 := { st1 with next := st1.next + 1, values := st1.values ++ [node],
                              stable := if stableV then st1.stable ++ [(v, node)] else st1.stable }
        (st2, node)

def infer (st : RegState) (v : Nat) (e : TE) : RegState :=
  -- `TypeCheckerState::infer`: a self-equality is dropped
  match e with
  | .equal id => if id == v then st else { st with judgements := st.judgements ++ [(v, e)] }
  | e => { st with judgements := st.judgements ++ [(v, e)] }

def inferMany (st : RegState) (vs : List Nat) (e : TE) : RegState := vs.foldl (fun s v => infer s v e) st

def uword : TE := .word none .unsignedNumeric
def sword : TE := .word none .signedNumeric
def numeric : TE := .word none .numeric
def bytesN (w : Option Nat) : TE := .word w .bytes
def address : TE := .word (some 160) .address
def boolT : TE := .word (some 8) .bool

def knownNat (t : TV) : Option Nat :=
  match t with
  | .node .knownData (w :: _) _ _ => some w
  | _ => none

/-- back to a runtime tree (to reuse `fold`) -/
def toSV : Nat → TV → SV
  | 0, _ => mkKnown 0#256
  | fuel + 1, .node k attrs ks _ => rebuild k attrs (ks.map (toSV fuel))

/-- All sixteen rules applied to one registered value (`InferenceRules::infer`). The rules only
add judgements (sets) and, for mapping accesses, one fresh variable, so their order is immaterial
up to the numbering of those fresh variables. -/
def applyRules (st : RegState) (v : TV) : RegState :=
  match v with
  | .node k attrs ks t =>
    let tvs := ks.map TV.tv
    match k, ks with
    -- arithmetic_operations
    | .add, [l, r] => inferMany st [t, l.tv, r.tv] numeric
    | .multiply, [l, r] => inferMany st [t, l.tv, r.tv] numeric
    | .subtract, [l, r] => inferMany st [t, l.tv, r.tv] numeric
    | .divide, [a, b] => inferMany st [t, a.tv, b.tv] uword
    | .modulo, [a, b] => inferMany st [t, a.tv, b.tv] uword
    | .signedDivide, [a, b] => inferMany st [t, a.tv, b.tv] sword
    | .signedModulo, [a, b] => inferMany st [t, a.tv, b.tv] sword
    | .exp, [a, b] => inferMany st [t, a.tv, b.tv] numeric
    | .signExtend, [size, value] =>
      let st := infer (infer st value.tv sword) size.tv uword
      let width := match knownNat size with
        | some w => if w % 2 ^ 64 ≤ 256 then some (w % 2 ^ 64) else none
        | none => none
      infer st t (.word width .signedNumeric)
    -- bit_shifts
    | .leftShift, [shift, value] => inferMany (infer st shift.tv uword) [t, value.tv] (bytesN none)
    | .rightShift, [shift, value] => inferMany (infer st shift.tv uword) [t, value.tv] (bytesN none)
    | .arithmeticRightShift, [shift, value] => inferMany (infer st shift.tv uword) [t, value.tv] sword
    -- boolean_operations
    | .lessThan, [l, r] => infer (inferMany st [l.tv, r.tv] uword) t boolT
    | .greaterThan, [l, r] => infer (inferMany st [l.tv, r.tv] uword) t boolT
    | .signedLessThan, [l, r] => infer (inferMany st [l.tv, r.tv] sword) t boolT
    | .signedGreaterThan, [l, r] => infer (inferMany st [l.tv, r.tv] sword) t boolT
    | .equals, [l, r] => infer (inferMany st [l.tv, r.tv] (bytesN none)) t boolT
    | .isZero, [n] => infer (infer st n.tv numeric) t boolT
    | .and_, [l, r] => inferMany st [l.tv, r.tv, t] (bytesN none)
    | .or_, [l, r] => inferMany st [l.tv, r.tv, t] (bytesN none)
    | .xor_, [l, r] => inferMany st [l.tv, r.tv, t] (bytesN none)
    | .not_, [x] => inferMany st [t, x.tv] (bytesN none)
    -- environment_opcodes
    | .address, _ => infer st t address
    | .origin, _ => infer st t address
    | .caller, _ => infer st t address
    | .coinBase, _ => infer st t address
    | .balance, [a] => infer (infer st a.tv address) t uword
    | .callValue, _ => infer st t uword
    | .gasPrice, _ => infer st t uword
    | .blockTimestamp, _ => infer st t uword
    | .blockNumber, _ => infer st t uword
    | .prevrandao, _ => infer st t uword
    | .gasLimit, _ => infer st t uword
    | .chainId, _ => infer st t uword
    | .selfBalance, _ => infer st t uword
    | .baseFee, _ => infer st t uword
    | .gas, _ => infer st t uword
    | .callDataSize, _ => infer st t uword
    | .selfDestruct, [target] => infer st target.tv address
    -- sha3 / create / external_calls
    | .sha3, _ => infer st t (bytesN (some 256))
    | .extCodeHash, [a] => infer (infer st a.tv address) t (bytesN (some 256))
    -- (`ExtCodeRule` of `ext_code.rs` is not part of `InferenceRules::default()`)
    | .create, [value, _] => infer (infer st t address) value.tv uword
    | .create2, [value, salt, _] => infer (infer (infer st t address) value.tv uword) salt.tv (bytesN (some 256))
    | .callWithValue, [b, c, d, _, f, g] =>
      infer (infer (infer (infer (infer (infer st t address) b.tv uword) c.tv address) d.tv uword) f.tv uword) g.tv uword
    | .callWithoutValue, [b, c, _, e, f] =>
      infer (infer (infer (infer (infer st t address) b.tv uword) c.tv address) e.tv uword) f.tv uword
    -- offset_size + call_data
    | .callData, [off, size] =>
      let st := inferMany st [off.tv, size.tv] uword
      (match knownOfFolded size with
       | some bytes => infer st t (bytesN (some ((bytes % 2 ^ 64) * 8)))
       | none => st)
    | .codeCopy, [off, size] => inferMany st [off.tv, size.tv] uword
    | .returnData, [off, size] => inferMany st [off.tv, size.tv] uword
    -- packed_encoding
    | .packed, _ =>
      let spans := (spansOf attrs).zip tvs |>.map (fun ((o, s), tvk) => (⟨tvk, o, s⟩ : Span))
      infer st t (.packed spans false)
    -- masked_word
    | .subWord, [sub] =>
      (match attrs with
       | [off, size] => infer (infer st t (bytesN (some size))) sub.tv (.packed [⟨t, off, size⟩] false)
       | _ => st)
    -- s_load_is_inner_types
    | .sLoad, [key, inner] => infer (infer st t (.equal inner.tv)) t (.equal key.tv)
    -- storage_write + dynamic_array_write
    | .storageWrite, [key, value] =>
      let st := infer (infer st key.tv (.equal value.tv)) value.tv (.equal key.tv)
      (match key with
       | .node .storageSlot _ [.node .dynamicArrayIndex _ [d, f] _] _ =>
         if d.kind == .storageSlot then
           infer (infer (infer st key.tv (.equal value.tv)) f.tv uword) d.tv (.dynamicArray key.tv)
         else st
       | _ => st)
    -- storage_key + mapping_access
    | .storageSlot, [key] =>
      let st := infer st key.tv uword
      (match key with
       | .node .mappingIndex mattrs [slot, mkey] _ =>
         let p := match mattrs with | pr :: _ => (if pr = 0 then 0 else pr - 1) | [] => 0
         let valTy := st.next
         let st := { st with next := st.next + 1 }
         let st := infer st valTy (.packed [⟨t, p * 256, 256⟩] false)
         infer st slot.tv (.mapping mkey.tv valTy)
       | _ => st)
    | _, _ => st
where
  knownOfFolded (size : TV) : Option Nat := Lift.knownOf (fold (toSV 100000 size))
  spansOf : List Nat → List (Nat × Nat)
    | o :: s :: r => (o, s) :: spansOf r
    | _ => []

/-! ### rendering a resolved type (`abi_type_for_impl`, `type_of`) -/

inductive AbiVal where
  | type (t : AbiType)
  | packed (l : List (AbiType × Nat))

inductive RErr where
  | unificationFailure | unificationIncomplete | invalidInference | outOfFuel
deriving Repr, DecidableEq

/-- `AbiValue::expect_type`. -/
def expectType : AbiVal → AbiType
  | .type t => t
  | .packed tps =>
    let elems : List StructElement := tps.map (fun (t, off) => StructElement.mk off t)
    let elems : List StructElement := match tps with
      | (_, off) :: _ => if off ≠ 0 then StructElement.mk 0 (AbiType.bytes (some (off / 8))) :: elems else elems
      | [] => elems
    .struct elems

def wordAbi (width : Option Nat) (usage : WordUse) : Except RErr AbiType :=
  match usage with
  | .bytes => (match width with
      | some w => if w % 8 = 0 then .ok (.bytes (some (w / 8))) else .ok (.bits (some w))
      | none => .ok (.bytes none))
  | .numeric => .ok (.number width)
  | .unsignedNumeric => .ok (.uInt width)
  | .signedNumeric => .ok (.int width)
  | .bool => if width == some 8 then .ok .bool else .error .invalidInference
  | .address => if width == some 160 then .ok .address else .error .invalidInference
  | .selector => if width == some 32 then .ok .selector else .error .invalidInference
  | .function => if width == some 192 then .ok .function else .error .invalidInference

/-- `abi_type_for_impl`; `typeOf v` is `type_of` (the single resolved expression of `v`'s class);
`seen` is the set of expressions already on the path (infinite types). -/
def abiTypeFor (typeOf : Nat → Except RErr TE) : Nat → Nat → List TE → Bool → Except RErr (AbiVal × List TE)
  | 0, _, _, _ => .error .outOfFuel
  | fuel + 1, v, seen, parentPacked =>
    match typeOf v with
    | .error e => .error e
    | .ok te =>
      let isCtor := match te with
        | .fixedArray _ _ | .mapping _ _ | .dynamicArray _ | .equal _ | .packed _ _ => true
        | _ => false
      if seen.contains te && isCtor then .ok (.type .infiniteType, seen)
      else
        let seen := if seen.contains te then seen else seen ++ [te]
        match te with
        | .any => .ok (.type .any, seen)
        | .word w u => (match wordAbi w u with | .ok t => .ok (.type t, seen) | .error e => .error e)
        | .bytes => .ok (.type .dynBytes, seen)
        | .fixedArray e len =>
          (match abiTypeFor typeOf fuel e seen false with
           | .error x => .error x
           | .ok (tp, seen) => .ok (.type (.array len (expectType tp)), seen))
        | .mapping k w =>
          (match abiTypeFor typeOf fuel k seen false with
           | .error x => .error x
           | .ok (kt, seen) =>
             match abiTypeFor typeOf fuel w seen false with
             | .error x => .error x
             | .ok (vt, seen) => .ok (.type (.mapping (expectType kt) (expectType vt)), seen))
        | .dynamicArray e =>
          (match abiTypeFor typeOf fuel e seen false with
           | .error x => .error x
           | .ok (tp, seen) => .ok (.type (.dynArray (expectType tp)), seen))
        | .packed types isStruct =>
          let r := types.foldl (fun (acc : Except RErr (List (AbiType × Nat) × List TE)) (s : Span) =>
            match acc with
            | .error e => .error e
            | .ok (pairs, seen) =>
              match abiTypeFor typeOf fuel s.typ seen true with
              | .error e => .error e
              | .ok (.packed xs, seen) => .ok (pairs ++ xs.map (fun (ty, ofs) => (ty, ofs + s.offset)), seen)
              | .ok (.type ty, seen) => .ok (pairs ++ [(ty, s.offset)], seen)) (.ok ([], seen))
          (match r with
           | .error e => .error e
           | .ok (pairs, seen) =>
             if parentPacked then .ok (.packed pairs, seen)
             else match pairs with
               | [] => .ok (.type .any, seen)
               | [(ty, off)] =>
                 if off = 0 then .ok (.type ty, seen)
                 else .ok (.packed [(.bytes (some (off / 8)), 0), (ty, off)], seen)
               | _ =>
                 if isStruct then .ok (.type (.struct (pairs.map (fun (ty, off) => .mk off ty))), seen)
                 else .ok (.packed pairs, seen))
        | .equal _ => .error .invalidInference
        | .conflict => .ok (.type (.conflictedType [] []), seen)


/-! ### the whole pipeline on a list of values (`TypeChecker::run` after `all_values()`) -/

/-- `.unique()`: first occurrences under structural equality. -/
def uniqueSV (vs : List SV) : List SV :=
  vs.foldl (fun acc v => if acc.any (fun x => x.beq v) then acc else acc ++ [v]) []

def liftValues (h : Lift.HashCtx) : List SV → Except Lift.LFault (List SV)
  | [] => .ok []
  | v :: vs =>
    match Lift.liftAll h v with
    | .error e => .error e
    | .ok v' => match liftValues h vs with
      | .error e => .error e
      | .ok r => .ok (v' :: r)

/-- `assign_vars` -/
def registerAll (vs : List SV) : RegState :=
  vs.foldl (fun st v => (register (nodeCount v + 1) st v).1) {}

/-- `infer`: every registered value, in order of its type variable -/
def inferAll (st : RegState) : RegState := st.values.foldl applyRules st

/-- `TypeCheckerState::infer` on the judgement list: the inference sets -/
def infSets (js : List (Nat × TE)) : List (Nat × List TE) :=
  js.foldl (fun (m : List (Nat × List TE)) (p : Nat × TE) =>
    let add := fun (m : List (Nat × List TE)) (v : Nat) (e : TE) =>
      let cur := (m.lookup v).getD []
      let cur' := Unify.setInsert cur e
      if m.any (·.1 == v) then m.map (fun q => if q.1 == v then (v, cur') else q) else m ++ [(v, cur')]
    match p.2 with
    | .equal id => if id == p.1 then m else add (add m id (.equal p.1)) p.1 p.2
    | e => add m p.1 e) []

/-- `type_of` on the unification result -/
def typeOfIn (f : Unify.Forest) (v : Nat) : Except RErr TE :=
  match Containers.DS.getData f v with
  | .error _ => .error .unificationFailure
  | .ok (_, none) => .error .unificationFailure
  | .ok (_, some []) => .ok .any
  | .ok (_, some [e]) => .ok e
  | .ok (_, some _) => .error .unificationIncomplete

def isConstSlot : TV → Option Nat
  | .node .storageSlot _ [.node .knownData (w :: _) _ _] _ => some w
  | _ => none

/-- the layout loop: entries in the order `layout.add` receives them -/
def layoutEntries (typeOf : Nat → Except RErr TE) (fuel : Nat) : List TV → Except RErr (List (Layout.Entry AbiType))
  | [] => .ok []
  | v :: vs =>
    match isConstSlot v with
    | none => layoutEntries typeOf fuel vs
    | some w =>
      match abiTypeFor typeOf fuel v.tv [] false with
      | .error e => .error e
      | .ok (av, _) =>
        let here : List (Layout.Entry AbiType) := match av with
          | .type t => [⟨w, 0, t⟩]
          | .packed ps => ps.map (fun (t, off) => ⟨w, off, t⟩)
        match layoutEntries typeOf fuel vs with
        | .error e => .error e
        | .ok r => .ok (here ++ r)

inductive Outcome where
  | layout (l : List (Layout.Entry AbiType))
  | liftFault (e : Lift.LFault)
  | unifyFault (e : Unify.UFault)
  | renderFault (e : RErr)

structure Analysis where
  registered : Nat
  allocated : Nat
  infs : List (Nat × List TE)
  outcome : Outcome

def analyse (h : Lift.HashCtx) (o : Unify.Orders) (fuel : Nat) (values : List SV) : Analysis :=
  match liftValues h (uniqueSV values) with
  | .error e => ⟨0, 0, [], .liftFault e⟩
  | .ok lifted =>
    let st0 := registerAll lifted
    let st := inferAll st0
    let infs := infSets st.judgements
    let infOf := fun v => (infs.lookup v).getD []
    match Unify.unify o fuel st.next infOf with
    | .error e => ⟨st0.next, st.next, infs, .unifyFault e⟩
    | .ok (f, _, _) =>
      match layoutEntries (typeOfIn f) 4096 st0.values with
      | .error e => ⟨st0.next, st.next, infs, .renderFault e⟩
      | .ok es => ⟨st0.next, st.next, infs, .layout (Layout.buildLayout es)⟩

end SLE.TC
