/-
M8 — JSON shape of layouts (`src/layout.rs` `StorageSlot`, `src/tc/abi.rs` `AbiType`,
`StructElement`, `src/utility.rs` `U256Wrapper`): serde's externally-tagged snake_case
representation as a value tree, the 0x-prefixed 64-digit hexadecimal slot index as text.
Core only.
-/
namespace SLE.JsonModel

inductive Json where
  | null
  | num (n : Nat)
  | str (s : String)
  | arr (items : List Json)
  | obj (fields : List (String × Json))
deriving Repr, Inhabited

mutual
inductive AbiType where
  | any
  | number (size : Option Nat)
  | uInt (size : Option Nat)
  | int (size : Option Nat)
  | address
  | selector
  | function
  | bool
  | array (size : Nat) (tp : AbiType)           -- size < 2^256 (U256Wrapper)
  | bytes (length : Option Nat)
  | bits (length : Option Nat)
  | dynArray (tp : AbiType)
  | dynBytes
  | mapping (keyType valueType : AbiType)
  | struct (elements : List StructElement)
  | infiniteType
  | conflictedType (conflicts reasons : List String)
inductive StructElement where
  | mk (offset : Nat) (typ : AbiType)
end

structure StorageSlot where
  index : Nat          -- < 2^256
  offset : Nat
  typ : AbiType

/-! ### 256-bit words as `0x` + 64 hex digits -/

def hexChars : List Char := "0123456789abcdef".toList

def hexChar (d : Nat) : Char := hexChars.getD d '0'

def hexVal (c : Char) : Option Nat :=
  if '0' ≤ c ∧ c ≤ '9' then some (c.toNat - '0'.toNat)
  else if 'a' ≤ c ∧ c ≤ 'f' then some (c.toNat - 'a'.toNat + 10)
  else if 'A' ≤ c ∧ c ≤ 'F' then some (c.toNat - 'A'.toNat + 10)
  else none

/-- `k` big-endian hex digits of `n` (`hex::encode(self.0.to_be_bytes())`). -/
def hexDigits : Nat → Nat → List Char
  | 0, _ => []
  | k + 1, n => hexDigits k (n / 16) ++ [hexChar (n % 16)]

/-- `U256Wrapper::serialize`: the text of a slot index. -/
def toHex64 (n : Nat) : List Char := '0' :: 'x' :: hexDigits 64 n

def parseDigits : List Char → Nat → Option Nat
  | [], acc => some acc
  | c :: cs, acc => match hexVal c with
    | some d => parseDigits cs (acc * 16 + d)
    | none => none

/-- `U256::from_str_hex`: `0x` prefix, then hex digits, value must fit 256 bits. -/
def parseHex : List Char → Option Nat
  | '0' :: 'x' :: ds =>
    if ds = [] then none else
    match parseDigits ds 0 with
    | some n => if n < 2 ^ 256 then some n else none
    | none => none
  | _ => none

/-! ### encode / decode -/

def encOptNat : Option Nat → Json
  | none => .null
  | some n => .num n

def decOptNat : Json → Option (Option Nat)
  | .null => some none
  | .num n => some (some n)
  | _ => none

def encStrs (l : List String) : Json := .arr (l.map .str)

def decStrs : List Json → Option (List String)
  | [] => some []
  | .str s :: r => (decStrs r).map (s :: ·)
  | _ => none

mutual
/-- `serde_json::to_value(&abi_type)` (object keys in sorted order). -/
def encode : AbiType → Json
  | .any => .str "any"
  | .number s => .obj [("number", .obj [("size", encOptNat s)])]
  | .uInt s => .obj [("u_int", .obj [("size", encOptNat s)])]
  | .int s => .obj [("int", .obj [("size", encOptNat s)])]
  | .address => .str "address"
  | .selector => .str "selector"
  | .function => .str "function"
  | .bool => .str "bool"
  | .array n t => .obj [("array", .obj [("size", .str (String.ofList (toHex64 n))), ("type", encode t)])]
  | .bytes l => .obj [("bytes", .obj [("length", encOptNat l)])]
  | .bits l => .obj [("bits", .obj [("length", encOptNat l)])]
  | .dynArray t => .obj [("dyn_array", .obj [("type", encode t)])]
  | .dynBytes => .str "dyn_bytes"
  | .mapping k v => .obj [("mapping", .obj [("key_type", encode k), ("value_type", encode v)])]
  | .struct es => .obj [("struct", .obj [("elements", .arr (encodeElems es))])]
  | .infiniteType => .str "infinite_type"
  | .conflictedType c r => .obj [("conflicted_type", .obj [("conflicts", encStrs c), ("reasons", encStrs r)])]
def encodeElems : List StructElement → List Json
  | [] => []
  | .mk off t :: r => .obj [("offset", .num off), ("type", encode t)] :: encodeElems r
end

mutual
/-- Deserialisation of exactly the shapes above. -/
def decode : Json → Option AbiType
  | .str s =>
    if s = "any" then some .any
    else if s = "address" then some .address
    else if s = "selector" then some .selector
    else if s = "function" then some .function
    else if s = "bool" then some .bool
    else if s = "dyn_bytes" then some .dynBytes
    else if s = "infinite_type" then some .infiniteType
    else none
  | .obj [(tag, .obj fields)] =>
    if tag = "number" then (match fields with
      | [("size", s)] => (decOptNat s).map .number | _ => none)
    else if tag = "u_int" then (match fields with
      | [("size", s)] => (decOptNat s).map .uInt | _ => none)
    else if tag = "int" then (match fields with
      | [("size", s)] => (decOptNat s).map .int | _ => none)
    else if tag = "array" then (match fields with
      | [("size", .str h), ("type", t)] =>
        (match parseHex h.toList, decode t with
         | some n, some t => some (.array n t) | _, _ => none)
      | _ => none)
    else if tag = "bytes" then (match fields with
      | [("length", s)] => (decOptNat s).map .bytes | _ => none)
    else if tag = "bits" then (match fields with
      | [("length", s)] => (decOptNat s).map .bits | _ => none)
    else if tag = "dyn_array" then (match fields with
      | [("type", t)] => (decode t).map .dynArray | _ => none)
    else if tag = "mapping" then (match fields with
      | [("key_type", k), ("value_type", v)] =>
        (match decode k, decode v with
         | some k, some v => some (.mapping k v) | _, _ => none)
      | _ => none)
    else if tag = "struct" then (match fields with
      | [("elements", .arr es)] => (decodeElems es).map .struct | _ => none)
    else if tag = "conflicted_type" then (match fields with
      | [("conflicts", .arr c), ("reasons", .arr r)] =>
        (match decStrs c, decStrs r with
         | some c, some r => some (.conflictedType c r) | _, _ => none)
      | _ => none)
    else none
  | _ => none
def decodeElems : List Json → Option (List StructElement)
  | [] => some []
  | .obj [("offset", .num off), ("type", t)] :: r =>
    (match decode t, decodeElems r with
     | some t, some r => some (.mk off t :: r) | _, _ => none)
  | _ => none
end

def encodeSlot (s : StorageSlot) : Json :=
  .obj [("index", .str (String.ofList (toHex64 s.index))), ("offset", .num s.offset), ("type", encode s.typ)]

def decodeSlot : Json → Option StorageSlot
  | .obj [("index", .str h), ("offset", .num off), ("type", t)] =>
    (match parseHex h.toList, decode t with
     | some n, some t => some ⟨n, off, t⟩ | _, _ => none)
  | _ => none

end SLE.JsonModel
