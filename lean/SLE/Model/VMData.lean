import SLE.Model.Fold
import SLE.Model.Disasm
/-
M4 (data half) — the per-thread state of the symbolic machine: `Stack`, `Memory`, `Storage`
(`src/vm/state/*.rs`), the value builder (`vm::ValueBuilder`), and the data effect of every
non-control opcode (`src/opcode/{arithmetic,logic,environment,memory}.rs`, and the data part
of `control.rs`).  Hash maps are association lists keyed by structural equality (`SV.beq`,
which like the Rust `PartialEq` looks at kind, payload, kids and recorded size, not at the
instruction pointer or provenance).  Core only.
-/
namespace SLE.VM
open SLE SLE.SV

structure Cfg where
  gasLimit : Nat
  iterLimit : Nat
  forkLimit : Nat
  valueLimit : Nat
  memLimit : Nat
  permissive : Bool
deriving Repr, DecidableEq

/-- `execution::Error` variants (payloads dropped), plus `panic` for a native overflow /
`expect` failure that would take the process down. -/
inductive XErr where
  | instructionPointerOutOfBounds | stackDepthExceeded | noSuchStackFrame | noSuchThread
  | invalidStep | invalidOffsetForJump | invalidJumpTarget | nonExistentJumpTarget
  | noConcreteJumpDestination | gasLimitExceeded | notJumpTarget | notJumpSource
  | stoppedByWatchdog
  | panic (site : String)
deriving Repr, DecidableEq, Inhabited

def XErr.name : XErr → String
  | .instructionPointerOutOfBounds => "InstructionPointerOutOfBounds"
  | .stackDepthExceeded => "StackDepthExceeded" | .noSuchStackFrame => "NoSuchStackFrame"
  | .noSuchThread => "NoSuchThread" | .invalidStep => "InvalidStep"
  | .invalidOffsetForJump => "InvalidOffsetForJump" | .invalidJumpTarget => "InvalidJumpTarget"
  | .nonExistentJumpTarget => "NonExistentJumpTarget"
  | .noConcreteJumpDestination => "NoConcreteJumpDestination"
  | .gasLimitExceeded => "GasLimitExceeded" | .notJumpTarget => "NotJumpTarget"
  | .notJumpSource => "NotJumpSource" | .stoppedByWatchdog => "StoppedByWatchdog"
  | .panic s => "PANIC:" ++ s

/-- The four kinds that permissive mode tolerates. -/
def XErr.isJumpKind : XErr → Bool
  | .invalidOffsetForJump | .invalidJumpTarget | .nonExistentJumpTarget
  | .noConcreteJumpDestination => true
  | _ => false

structure MemCell where
  data : SV
  isWord : Bool
deriving Repr, Inhabited

/-- `VMState` minus the visit counters. -/
structure TData where
  forkPoint : Nat := 0
  stack : List SV := []                       -- head = top of stack
  memC : List (Nat × List MemCell) := []      -- constant offsets
  memS : List (SV × List MemCell) := []       -- symbolic offsets
  stK : List (SV × List SV) := []             -- storage, constant keys
  stS : List (SV × List SV) := []             -- storage, other keys
  recorded : List SV := []
  logged : List SV := []
deriving Repr, Inhabited

def usizeMax : Nat := 2 ^ 64

/-- Opaque ids: creation counter and creating instruction pointer packed together
(`id % 2^32` is the instruction pointer, which is what dumps print). -/
def mkId (ip ctr : Nat) : Nat := ctr * 2 ^ 32 + ip

/-- Builder context threaded through an opcode: configuration, instruction pointer, counter. -/
structure Ctx where
  cfg : Cfg
  ip : Nat
  codeLen : Nat

/-- `ValueBuilder::symbolic*` / `known*`: `RSV::new(ip, data, _, Some(value_size_limit))`. -/
def build (c : Ctx) (ctr : Nat) (k : Kind) (attrs : List Nat) (ks : List SV) : SV × Nat :=
  (SV.mk (some c.cfg.valueLimit) (mkId c.ip ctr) k attrs ks, ctr + 1)

def buildKnown (c : Ctx) (ctr : Nat) (w : Word) : SV × Nat := build c ctr .knownData [w.toNat] []

/-- `RSV::new_value(ip, provenance)` (no limit). -/
def buildValue (c : Ctx) (ctr : Nat) : SV × Nat := (mkValue (mkId c.ip ctr), ctr + 1)

/-- `RSV::new(.., None)`. -/
def buildNoLimit (k : Kind) (attrs : List Nat) (ks : List SV) : SV := rebuild k attrs ks

/-! ### Stack (`state/stack.rs`) -/

def maxStack : Nat := 1024

def push (d : TData) (v : SV) : Except XErr TData :=
  if d.stack.length + 1 > maxStack then .error .stackDepthExceeded
  else .ok { d with stack := v :: d.stack }

def pop (d : TData) : Except XErr (SV × TData) :=
  match d.stack with
  | [] => .error .noSuchStackFrame
  | v :: r => .ok (v, { d with stack := r })

/-- `Stack::duplicate(frame)`. -/
def dup (d : TData) (frame : Nat) : Except XErr TData :=
  if frame ≥ d.stack.length then .error .noSuchStackFrame
  else match d.stack[frame]? with
    | some v => push d v
    | none => .error .noSuchStackFrame

/-- `Stack::swap(frame)`. -/
def swap (d : TData) (frame : Nat) : Except XErr TData :=
  match d.stack with
  | [] => .error .noSuchStackFrame
  | top :: _ =>
    if frame ≥ d.stack.length then .error .noSuchStackFrame
    else match d.stack[frame]? with
      | some v => .ok { d with stack := (d.stack.set frame top).set 0 v }
      | none => .error .noSuchStackFrame

/-! ### association lists keyed structurally -/

def lookupSV {β : Type} (m : List (SV × β)) (k : SV) : Option β :=
  (m.find? (fun p => p.1.beq k)).map (·.2)

def updateSV {β : Type} (m : List (SV × β)) (k : SV) (v : β) : List (SV × β) :=
  if m.any (fun p => p.1.beq k) then m.map (fun p => if p.1.beq k then (p.1, v) else p)
  else m ++ [(k, v)]

def updateNat {β : Type} (m : List (Nat × β)) (k : Nat) (v : β) : List (Nat × β) :=
  if m.any (fun p => p.1 == k) then m.map (fun p => if p.1 == k then (p.1, v) else p)
  else m ++ [(k, v)]

/-! ### Memory (`state/memory.rs`) -/

def isKnown (v : SV) : Option Word := v.asWord

/-- `KnownWord -> usize` (`as_usize`, truncating). -/
def asUsize (w : Word) : Nat := w.toNat % usizeMax

def zeroCell : MemCell := ⟨mkKnown 0#256, true⟩

def memStore (d : TData) (offset value : SV) (isWord : Bool) : TData :=
  let off := fold offset
  match isKnown off with
  | some w =>
    let k := asUsize w
    let old := (d.memC.lookup k).getD []
    { d with memC := updateNat d.memC k (old ++ [⟨value, isWord⟩]) }
  | none =>
    let old := (lookupSV d.memS off).getD []
    { d with memS := updateSV d.memS off (old ++ [⟨value, isWord⟩]) }

/-- `get_or_initialize` on the constant-offset map. -/
def memGetC (d : TData) (k : Nat) : SV × TData :=
  match d.memC.lookup k with
  | some cells => ((cells.getLast?.getD zeroCell).data, d)
  | none => (zeroCell.data, { d with memC := d.memC ++ [(k, [zeroCell])] })

def memGetS (d : TData) (off : SV) : SV × TData :=
  match lookupSV d.memS off with
  | some cells => ((cells.getLast?.getD zeroCell).data, d)
  | none => (zeroCell.data, { d with memS := d.memS ++ [(off, [zeroCell])] })

/-- `Memory::load`. -/
def memLoad (d : TData) (offset : SV) : SV × TData :=
  let off := fold offset
  match isKnown off with
  | some w => memGetC d (asUsize w)
  | none => memGetS d off

/-- the word offsets `(off..off+n).step_by(32)` -/
def wordOffsets (off n : Nat) : List Nat := (List.range ((n + 31) / 32)).map (fun i => off + 32 * i)

def memGetMany (d : TData) : List Nat → List SV × TData
  | [] => ([], d)
  | k :: ks =>
    let (v, d1) := memGetC d k
    let (vs, d2) := memGetMany d1 ks
    (v :: vs, d2)

/-- `Memory::load_slice`. -/
def memLoadSlice (c : Ctx) (d : TData) (offset size : SV) : Except XErr (SV × TData) :=
  let off := fold offset
  match isKnown off with
  | some w =>
    (match isKnown (fold size) with
     | some sz =>
       let o := asUsize w
       let bounded := min (asUsize sz) c.cfg.memLimit
       -- `offset.saturating_add(bounded_size)`
       let stop := min (o + bounded) (usizeMax - 1)
       let (vs, d') := memGetMany d (wordOffsets o (stop - o))
       .ok (buildNoLimit .concat [] vs, d')
     | none => .ok (memGetC d (asUsize w)))
  | none => .ok (memGetS d off)

/-! ### Storage (`state/storage.rs`) -/

def isKnownKey (k : SV) : Bool := k.kind == .knownData

def stStore (d : TData) (key value : SV) : TData :=
  if isKnownKey key then
    { d with stK := updateSV d.stK key (((lookupSV d.stK key).getD []) ++ [value]) }
  else
    { d with stS := updateSV d.stS key (((lookupSV d.stS key).getD []) ++ [value]) }

/-- `Storage::load`: initialise with `UnwrittenStorageValue`, wrap the latest generation in
`SLoad` unless it already is one; both built without a size limit. -/
def stLoad (d : TData) (key : SV) : SV × TData :=
  let m := if isKnownKey key then d.stK else d.stS
  let (gens, d1) : List SV × TData :=
    match lookupSV m key with
    | some g => (g, d)
    | none =>
      let init := [buildNoLimit .unwrittenStorageValue [] [key]]
      (init, if isKnownKey key then { d with stK := d.stK ++ [(key, init)] }
             else { d with stS := d.stS ++ [(key, init)] })
  let recent := gens.getLast?.getD (mkKnown 0#256)
  let result :=
    if recent.kind == .sLoad then buildNoLimit .sLoad recent.attrs recent.kids
    else buildNoLimit .sLoad [] [key, recent]
  (result, d1)

def record (d : TData) (v : SV) : TData := { d with recorded := d.recorded ++ [v] }
def logValue (d : TData) (v : SV) : TData := { d with logged := d.logged ++ [v] }

end SLE.VM
