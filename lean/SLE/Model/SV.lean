import SLE.Model.Kind
import SLE.Model.Word
/-
M3 — symbolic value trees (`src/vm/value/mod.rs`): one rose-tree inductive.
`recSize` is the memoised `size` field (what `size()` reports), kept separate from the real
node count so that C18 can compare them.  `attrs` holds the non-tree payload of a node
(the word of `KnownData`, the id of `Value`/`CallData`, offsets/sizes of `SubWord`, `Shifted`,
`Packed` spans, the projection of `MappingIndex`); kids are in field-declaration order.
-/
namespace SLE

inductive SV where
  | node (k : Kind) (attrs : List Nat) (kids : List SV) (recSize : Nat)
deriving Repr, Inhabited

namespace SV

def kind : SV → Kind | .node k _ _ _ => k
def attrs : SV → List Nat | .node _ a _ _ => a
def kids : SV → List SV | .node _ _ ks _ => ks
/-- `SymbolicValue::size()`. -/
def recSize : SV → Nat | .node _ _ _ s => s

mutual
/-- The number of nodes the tree really contains. -/
def nodeCount : SV → Nat
  | .node _ _ ks _ => nodeCountList ks + 1
def nodeCountList : List SV → Nat
  | [] => 0
  | k :: ks => nodeCount k + nodeCountList ks
end

/-- `child_size()`: the sum of the children's *recorded* sizes. -/
def childSize (ks : List SV) : Nat := (ks.map recSize).sum

/-- Rebuild a node over new kids the way `transform_data`/`constant_fold`/`TCSV::new` do:
`size = data.child_size() + 1`. -/
def rebuild (k : Kind) (attrs : List Nat) (ks : List SV) : SV := .node k attrs ks (childSize ks + 1)

def mkKnown (w : Word) : SV := .node .knownData [w.toNat] [] 1
def mkValue (id : Nat) : SV := .node .value [id] [] 1

/-- `as_word()`. -/
def asWord : SV → Option Word
  | .node .knownData (w :: _) _ _ => some (BitVec.ofNat 256 w)
  | _ => none

/-- `RSV::new(ip, data, provenance, value_size_limit)`: the culling constructor.
`fresh` is the id of the `Value` that replaces an over-limit tree. -/
def mk (limit : Option Nat) (fresh : Nat) (k : Kind) (attrs : List Nat) (ks : List SV) : SV :=
  let size := childSize ks + 1
  match limit with
  | some lim => if size > lim then .node .value [fresh] [] 1 else .node k attrs ks size
  | none => .node k attrs ks size

mutual
/-- Every node records its true size. -/
def WF : SV → Prop
  | .node _ _ ks s => s = nodeCountList ks + 1 ∧ WFList ks
def WFList : List SV → Prop
  | [] => True
  | k :: ks => WF k ∧ WFList ks
end

mutual
/-- Structural equality as the Rust `PartialEq` sees it (kind, payload, kids, size). -/
def beq : SV → SV → Bool
  | .node k1 a1 ks1 s1, .node k2 a2 ks2 s2 => k1 == k2 && a1 == a2 && s1 == s2 && beqList ks1 ks2
def beqList : List SV → List SV → Bool
  | [], [] => true
  | x :: xs, y :: ys => beq x y && beqList xs ys
  | _, _ => false
end

end SV
end SLE

namespace SLE.SV

/-- A transformer as passed to `transform_data`: sees a node's payload (kind, attrs, kids) and
may return a replacement payload. -/
abbrev Transformer := Kind → List Nat → List SV → Option (Kind × List Nat × List SV)

mutual
/-- `SymbolicValue::transform_data(f)`: `f` first; where it declines, recurse into the kids.
Either way the node is rebuilt with `size = child_size + 1`. -/
def transform (f : Transformer) : SV → SV
  | .node k attrs ks _ =>
    match f k attrs ks with
    | some (k', a', ks') => rebuild k' a' ks'
    | none => rebuild k attrs (transformList f ks)
def transformList (f : Transformer) : List SV → List SV
  | [] => []
  | k :: ks => transform f k :: transformList f ks
end

end SLE.SV
