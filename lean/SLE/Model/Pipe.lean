import SLE.Model.VM
import SLE.Model.TC
/-
M8 — the whole analysis on a program: `Extractor::analyze` = disassemble, execute, collect
`ExecutionResult::all_values()` (`src/vm/mod.rs:545-551`, `src/vm/state/mod.rs:191-200`,
`Stack::all_values`, `Memory::all_values`, `Storage::stores_as_values`), then `TypeChecker::run`
(`TC.analyse`).  The hash maps of memory and storage are association lists in insertion order
here; the code iterates them in hash order (property C02 is about that not mattering).
-/
namespace SLE.Pipe
open SLE SLE.SV SLE.VM

/-- `VMState::all_values` -/
def allValues (d : TData) : List SV :=
  d.stack.reverse ++                                             -- the stack vector, bottom first
  d.memC.flatMap (fun (_, g) => g.map (·.data)) ++
  d.memS.flatMap (fun (k, g) => k :: g.map (·.data)) ++
  (d.stK ++ d.stS).flatMap (fun (k, g) => g.map (fun v => rebuild .storageWrite [] [k, v])) ++
  d.recorded ++ d.logged

inductive Result where
  | disasmError (e : Disasm.DErr)
  | execErrors (es : List (Nat × XErr))
  | analysed (a : TC.Analysis)

/-- `storage_layout_extractor::new(contract, vm_config, tc_config, watchdog).analyze()` with a
watchdog that never fires; `fuel` bounds the machine's iterations and unification's rounds. -/
def analyseProgram (h : Lift.HashCtx) (o : Unify.Orders) (cfg : Cfg) (bytes : List Nat) (vmFuel uFuel : Nat) : Result :=
  match Disasm.disasm bytes with
  | .error e => .disasmError e
  | .ok code =>
    let s := run cfg code vmFuel (initVM cfg code)
    let errs := match s.aborted with
      | some e => [(0, e)]
      | none => s.errors
    if !errs.isEmpty then .execErrors errs
    else .analysed (TC.analyse h o uFuel (s.stored.flatMap (fun t => allValues t.d)))

end SLE.Pipe
