import SLE.Model.VMOps
/-
M4 (control half) — `VM::execute` / `VM::advance` (`src/vm/mod.rs`), `VisitedOpcodes` and
`JumpTargets::fork_to` (`src/vm/data.rs`), `VMThread::fork` (`src/vm/thread.rs`).
-/
namespace SLE.VM
open SLE SLE.SV SLE.Disasm

structure Thread where
  ip : Nat
  visited : List Nat          -- visit count per offset (length = code length)
  gas : Nat
  d : TData
deriving Repr, Inhabited

structure VMS where
  queue : List Thread := []
  stored : List Thread := []              -- `stored_states` (with the counters they died with)
  forks : List Nat := []                  -- `JumpTargets` tracker: forks per target offset
  killed : Bool := false                  -- `current_thread_killed`
  errors : List (Nat × XErr) := []        -- `Errors` buffer
  ctr : Nat := 0                          -- opaque-id counter
  created : Nat := 1                      -- threads ever created (ghost, for C03)
  aborted : Option XErr := none           -- `execute` returned early with `?` (or panicked)
deriving Repr, Inhabited

def bump (l : List Nat) (i : Nat) : List Nat := l.set i ((l.getD i 0) + 1)

/-- `min_gas_cost()` of each opcode (pinned; `C08_gas_table` re-checks it against the code). -/
def minGas (ins : Instr) : Nat :=
  match ins with
  | .nop => 0
  | .invalid _ => 0
  | .push _ _ => 3
  | .op b =>
    if b == 0x00 then 0
    else if b == 0x01 || b == 0x03 then 3 else if b == 0x02 || b == 0x04 || b == 0x05 || b == 0x06 || b == 0x07 then 5
    else if b == 0x08 || b == 0x09 then 8 else if b == 0x0a then 10 else if b == 0x0b then 5
    else if 0x10 ≤ b && b ≤ 0x1d then 3
    else if b == 0x20 then 30
    else if b == 0x30 then 2 else if b == 0x31 then 100 else if 0x32 ≤ b && b ≤ 0x34 then 2
    else if b == 0x35 then 3 else if b == 0x36 then 2 else if b == 0x37 then 3 else if b == 0x38 then 2
    else if b == 0x39 then 3 else if b == 0x3a then 2 else if b == 0x3b then 100 else if b == 0x3c then 100
    else if b == 0x3d then 2 else if b == 0x3e then 3 else if b == 0x3f then 100 else if b == 0x40 then 20
    else if 0x41 ≤ b && b ≤ 0x48 then (if b == 0x47 then 5 else 2)
    else if b == 0x50 then 2 else if b == 0x51 || b == 0x52 || b == 0x53 then 3
    else if b == 0x54 then 100 else if b == 0x55 then 100 else if b == 0x56 then 8 else if b == 0x57 then 10
    else if b == 0x58 || b == 0x59 || b == 0x5a then 2 else if b == 0x5b then 1 else if b == 0x5f then 2
    else if 0x80 ≤ b && b ≤ 0x9f then 3
    else if 0xa0 ≤ b && b ≤ 0xa4 then 375 * (b - 0xa0 + 1)
    else if b == 0xf0 || b == 0xf5 then 32000
    else if b == 0xf1 || b == 0xf2 || b == 0xf4 || b == 0xfa then 100
    else if b == 0xff then 5000
    else 0

/-- `Errors::add_located`: push, then stable-sort the whole buffer by location. -/
def insertLocated (es : List (Nat × XErr)) (e : Nat × XErr) : List (Nat × XErr) :=
  let ins (x : Nat × XErr) : List (Nat × XErr) → List (Nat × XErr) :=
    fun l =>
      let rec go : List (Nat × XErr) → List (Nat × XErr)
        | [] => [x]
        | y :: r => if x.1 < y.1 then x :: y :: r else y :: go r
      go l
  (es ++ [e]).foldl (fun acc x => ins x acc) []

def initVM (cfg : Cfg) (code : List Instr) : VMS :=
  { queue := [{ ip := 0, visited := List.replicate code.length 0, gas := 0, d := {} }],
    forks := List.replicate code.length 0 }

/-- `VM::advance`. -/
def advance (cfg : Cfg) (code : List Instr) (s : VMS) : VMS :=
  match s.queue with
  | [] => { s with aborted := some .invalidStep }
  | t :: rest =>
    let next := t.ip + 1
    let oob := next ≥ code.length
    let exceeded := oob || (t.visited.getD next 0 ≥ cfg.iterLimit)
    let outOfGas := t.gas > cfg.gasLimit
    if exceeded || outOfGas || s.killed then
      { s with queue := rest, stored := s.stored ++ [t], killed := false,
               errors := if outOfGas then insertLocated s.errors (t.ip, .gasLimitExceeded) else s.errors }
    else
      { s with queue := { t with ip := next } :: rest }

/-- One iteration of the `while let Ok(instruction) = self.current_instruction()` loop. -/
def step (cfg : Cfg) (code : List Instr) (s : VMS) : VMS :=
  match s.queue with
  | [] => s
  | t :: rest =>
    match code[t.ip]? with
    | none => { s with aborted := some .instructionPointerOutOfBounds }
    | some ins =>
      -- mark visited first, so that forks inherit it
      let t1 := { t with visited := bump t.visited t.ip }
      let c : Ctx := { cfg := cfg, ip := t.ip, codeLen := code.length }
      let o := execOp c code ins t1.d s.ctr
      match o.err with
      | some (.panic site) => { s with aborted := some (.panic site) }
      | some e =>
        -- `Err(payload)`: record (jump kinds only when not permissive), kill the thread
        let errs := if e.isJumpKind && cfg.permissive then s.errors else s.errors ++ [(t.ip, e)]
        advance cfg code { s with queue := { t1 with d := o.d } :: rest, ctr := o.ctr, errors := errs, killed := true }
      | none =>
        let t2 : Thread := { t1 with d := o.d, gas := t1.gas + minGas ins }
        let s1 : VMS := { s with ctr := o.ctr, killed := s.killed || o.kill }
        let s2 : VMS :=
          match o.jumpTo with
          | some tgt => { s1 with queue := { t2 with ip := tgt } :: rest }
          | none =>
            match o.forkTo with
            | some tgt =>
              -- fork only while neither this path's visit limit nor the per-target fork limit is hit
              let atVisitLimit := t2.visited.getD tgt 0 ≥ cfg.iterLimit
              if !atVisitLimit && s1.forks.getD tgt 0 < cfg.forkLimit then
                let child : Thread := { t2 with ip := tgt, gas := t1.gas, d := { t2.d with forkPoint := t.ip } }
                { s1 with queue := (t2 :: rest) ++ [child], forks := bump s1.forks tgt, created := s1.created + 1 }
              else { s1 with queue := t2 :: rest }
            | none =>
              match o.softErr with
              | some e =>
                { s1 with queue := t2 :: rest,
                          errors := if cfg.permissive then s1.errors else s1.errors ++ [(t.ip, e)] }
              | none => { s1 with queue := t2 :: rest }
        advance cfg code s2

/-- `VM::execute` with explicit fuel (C03 proves a bound on the number of iterations). -/
def run (cfg : Cfg) (code : List Instr) : Nat → VMS → VMS
  | 0, s => s
  | fuel + 1, s =>
    if s.queue.isEmpty || s.aborted.isSome then s else run cfg code fuel (step cfg code s)

end SLE.VM
